import HgVerif.Lemmas.NestFlowInv
/-! Facts about flat graphs inside a nesting (`behT … (.leaf rk) lo`): what one evaluation does to the slots,
the caller discipline, independence of the schedules carried below, where upward notifications come from, and the
link to the flat programs of `Model/Flow.lean` (`beh F ρ`, `denSeq`). -/
namespace HgVerif.NestFlow
open HgVerif.Sched HgVerif.Flow

variable {S : Type}

/-- the consumers notified by an evaluation of node `i` -/
def consW (F : Flow S) (i : Nat) (σ : Nat → S) (t : Time) : List Nat := if (F.f i σ t).2 then consumers F i else []

theorem mem_consW (F : Flow S) (i : Nat) (σ : Nat → S) (t : Time) (c : Nat) (h : c ∈ consW F i σ t) :
    c < F.n ∧ i ∈ F.prods c := by
  unfold consW at h
  split at h
  · exact (mem_consumers F i c).mp h
  · simp at h

theorem mem_map_pos (L : List Nat) (pos : Nat → Nat) (D : Nat → Prop)
    (hinj : ∀ a b, D a → D b → pos a = pos b → a = b) (hL : ∀ c ∈ L, D c) (a : Nat) (ha : D a) :
    pos a ∈ L.map pos ↔ a ∈ L := by
  constructor
  · intro h
    obtain ⟨c, hc, e⟩ := List.mem_map.mp h
    have := hinj c a (hL c hc) ha e
    rw [← this]; exact hc
  · intro h; exact List.mem_map.mpr ⟨a, h, rfl⟩

/-- **what one evaluation does to the slots**, by node: the evaluated node `i` (whose slot was `t`) ends with the
    slot its own re-arm requests give it, every notified node of the list `L` is due at `t`, nothing else moves;
    `extra` are further same-cycle requests to positions that hold no node of `D` (the nested node) -/
theorem notify_view (g : G) (t : Time) (pos : Nat → Nat) (D : Nat → Prop) (L : List Nat) (extra : List Req)
    (Ts : List Time) (i q : Nat) (c0 : Nat)
    (hnow : g.now = t) (hinj : ∀ a b, D a → D b → pos a = pos b → a = b)
    (hpos : ∀ a, D a → pos a < g.slots.length) (hL : ∀ c ∈ L, D c) (hi : D i) (hq : pos i = q) (hs : slotOf g q = t)
    (hex : ∀ r ∈ extra, r.time = t ∧ r.node < g.slots.length ∧ ∀ a, D a → pos a ≠ r.node) :
    (∀ a, D a → slotOf ((L.map (fun c => (⟨pos c, t⟩ : Req)) ++ extra ++ Ts.map (fun T => (⟨q, T⟩ : Req))).foldl
        scheduleNode { g with cursor := c0 }) (pos a) =
          if a = i then selfSlot t Ts else if a ∈ L then t else slotOf g (pos a)) ∧
    (∀ x, (∀ a, D a → pos a ≠ x) →
      slotOf ((L.map (fun c => (⟨pos c, t⟩ : Req)) ++ extra ++ Ts.map (fun T => (⟨q, T⟩ : Req))).foldl
        scheduleNode { g with cursor := c0 }) x = if x ∈ extra.map (·.node) then t else slotOf g x) ∧
    ((L.map (fun c => (⟨pos c, t⟩ : Req)) ++ extra ++ Ts.map (fun T => (⟨q, T⟩ : Req))).foldl
        scheduleNode { g with cursor := c0 }).now = t ∧
    ((L.map (fun c => (⟨pos c, t⟩ : Req)) ++ extra ++ Ts.map (fun T => (⟨q, T⟩ : Req))).foldl
        scheduleNode { g with cursor := c0 }).slots.length = g.slots.length := by
  subst hq
  have hnotif : ∀ r ∈ L.map (fun c => (⟨pos c, t⟩ : Req)) ++ extra,
      r.time = t ∧ r.node < ({ g with cursor := c0 } : G).slots.length := by
    intro r hr
    rcases List.mem_append.mp hr with h | h
    · obtain ⟨c, hc, rfl⟩ := List.mem_map.mp h
      exact ⟨rfl, hpos c (hL c hc)⟩
    · exact ⟨(hex r h).1, (hex r h).2.1⟩
  have hmid := foldl_now_reqs { g with cursor := c0 } (L.map (fun c => (⟨pos c, t⟩ : Req)) ++ extra) t hnow hnotif
  have hmidlen : ((L.map (fun c => (⟨pos c, t⟩ : Req)) ++ extra).foldl scheduleNode { g with cursor := c0 }).slots.length =
      g.slots.length := by rw [foldl_scheduleNode_length]
  have hmidnow : ((L.map (fun c => (⟨pos c, t⟩ : Req)) ++ extra).foldl scheduleNode { g with cursor := c0 }).now = t := by
    rw [foldl_scheduleNode_now]; exact hnow
  have hmidi : slotOf ((L.map (fun c => (⟨pos c, t⟩ : Req)) ++ extra).foldl scheduleNode { g with cursor := c0 }) (pos i) = t := by
    rw [hmid]; split
    · rfl
    · exact hs
  have hfin := self_reqs_slot ((L.map (fun c => (⟨pos c, t⟩ : Req)) ++ extra).foldl scheduleNode { g with cursor := c0 })
    (pos i) t Ts (by rw [hmidlen]; exact hpos i hi) hmidnow hmidi
  rw [List.foldl_append]
  have hmem : ∀ x, x ∈ (L.map (fun c => (⟨pos c, t⟩ : Req)) ++ extra).map (·.node) ↔ (x ∈ L.map pos ∨ x ∈ extra.map (·.node)) := by
    intro x
    rw [List.map_append, List.mem_append, List.map_map]
    rfl
  refine ⟨?_, ?_, ?_, ?_⟩
  · intro a ha
    rw [hfin (pos a)]
    by_cases hai : a = i
    · rw [if_pos (by rw [hai]), if_pos hai]
    · rw [if_neg (fun e => hai (hinj a i ha hi e)), if_neg hai, hmid]
      have hnex : pos a ∉ extra.map (·.node) := by
        intro h
        obtain ⟨r, hr, e⟩ := List.mem_map.mp h
        exact (hex r hr).2.2 a ha e.symm
      by_cases haL : a ∈ L
      · rw [if_pos ((hmem _).mpr (Or.inl ((mem_map_pos L pos D hinj hL a ha).mpr haL))), if_pos haL]
      · rw [if_neg (fun h => by
          rcases (hmem _).mp h with h | h
          · exact haL ((mem_map_pos L pos D hinj hL a ha).mp h)
          · exact hnex h), if_neg haL]
        rfl
  · intro x hx
    rw [hfin x, if_neg (fun e => hx i hi e.symm), hmid]
    have hnL : x ∉ L.map pos := by
      intro h
      obtain ⟨c, hc, e⟩ := List.mem_map.mp h
      exact hx c (hL c hc) e
    by_cases hxe : x ∈ extra.map (·.node)
    · rw [if_pos ((hmem _).mpr (Or.inr hxe)), if_pos hxe]
    · rw [if_neg (fun h => by
        rcases (hmem _).mp h with h | h
        · exact hnL h
        · exact hxe h), if_neg hxe]
      rfl
  · rw [foldl_scheduleNode_now]; exact hmidnow
  · rw [foldl_scheduleNode_length]; exact hmidlen

/-- `notify_view` without extra requests -/
theorem notify_view0 (g : G) (t : Time) (pos : Nat → Nat) (D : Nat → Prop) (L : List Nat)
    (Ts : List Time) (i q : Nat) (c0 : Nat)
    (hnow : g.now = t) (hinj : ∀ a b, D a → D b → pos a = pos b → a = b)
    (hpos : ∀ a, D a → pos a < g.slots.length) (hL : ∀ c ∈ L, D c) (hi : D i) (hq : pos i = q) (hs : slotOf g q = t) :
    (∀ a, D a → slotOf ((L.map (fun c => (⟨pos c, t⟩ : Req)) ++ Ts.map (fun T => (⟨q, T⟩ : Req))).foldl
        scheduleNode { g with cursor := c0 }) (pos a) =
          if a = i then selfSlot t Ts else if a ∈ L then t else slotOf g (pos a)) ∧
    (∀ x, (∀ a, D a → pos a ≠ x) →
      slotOf ((L.map (fun c => (⟨pos c, t⟩ : Req)) ++ Ts.map (fun T => (⟨q, T⟩ : Req))).foldl
        scheduleNode { g with cursor := c0 }) x = slotOf g x) ∧
    ((L.map (fun c => (⟨pos c, t⟩ : Req)) ++ Ts.map (fun T => (⟨q, T⟩ : Req))).foldl
        scheduleNode { g with cursor := c0 }).now = t ∧
    ((L.map (fun c => (⟨pos c, t⟩ : Req)) ++ Ts.map (fun T => (⟨q, T⟩ : Req))).foldl
        scheduleNode { g with cursor := c0 }).slots.length = g.slots.length := by
  have := notify_view g t pos D L [] Ts i q c0 hnow hinj hpos hL hi hq hs (by simp)
  simpa using this

/-! ### the evaluation of a node of a flat graph -/

theorem leaf_ok (F : Flow S) (fx : Bool) (rk : Rk) (lo q : Nat) (t : Time) (u : CSt S) :
    ((behT F fx (.leaf rk) lo).eval q t u).ok = true := rfl

theorem leaf_reqs (F : Flow S) (fx : Bool) (rk : Rk) (lo q : Nat) (t : Time) (u : CSt S) :
    ((behT F fx (.leaf rk) lo).eval q t u).reqs =
      ((consW F (lo + rk.node q) u.σ t).filter (fun c => decide (lo ≤ c))).map (fun c => (⟨rk.posOf (c - lo), t⟩ : Req)) ++
      (F.selfReq (lo + rk.node q) (F.f (lo + rk.node q) u.σ t).1 t).map (fun T => (⟨q, T⟩ : Req)) := rfl

theorem leaf_st (F : Flow S) (fx : Bool) (rk : Rk) (lo q : Nat) (t : Time) (u : CSt S) :
    ((behT F fx (.leaf rk) lo).eval q t u).st =
      { σ := upd u.σ (lo + rk.node q) (F.f (lo + rk.node q) u.σ t).1, gs := u.gs,
        up := u.up ++ (consW F (lo + rk.node q) u.σ t).filter (fun c => decide (c < lo)),
        fl := u.fl ++ [lo + rk.node q],
        wl := if (F.f (lo + rk.node q) u.σ t).2 then (lo + rk.node q) :: u.wl else u.wl } := rfl

/-- a flat graph inside a nesting keeps the caller discipline of C02 -/
theorem disc_leaf (F : Flow S) (fx : Bool) (rk : Rk) (lo : Nat) (hwf : Tree.WF F.n (.leaf rk) lo)
    (hT : TopoT F (.leaf rk) lo) (hS : SelfFuture F) : Disc (behT F fx (.leaf rk) lo) (F.n - lo) := by
  intro q hq t u r hr
  obtain ⟨hlo, hrk⟩ := hwf
  rw [leaf_reqs, List.mem_append] at hr
  rcases hr with hr | hr
  · obtain ⟨c, hc, rfl⟩ := List.mem_map.mp hr
    obtain ⟨hc1, hc2⟩ := List.mem_filter.mp hc
    simp only [decide_eq_true_eq] at hc2
    obtain ⟨hcn, hp⟩ := mem_consW F _ _ _ c hc1
    have := (hT c hc2 hcn _ hp).2 (by omega)
    simp only [flatRk, Nat.add_sub_cancel_left] at this
    rw [(hrk.1 q hq).1] at this
    exact ⟨(hrk.2 (c - lo) (by omega)).2, Or.inl ⟨rfl, this⟩⟩
  · obtain ⟨T, hT', rfl⟩ := List.mem_map.mp hr
    exact ⟨hq, Or.inr ⟨hS _ _ _ _ hT', Nat.le_refl _⟩⟩

/-- a flat graph never looks at the schedules carried below it: two scans from equal schedules and states that
    differ only there stay equal -/
theorem leaf_congr (F : Flow S) (fx : Bool) (rk : Rk) (lo : Nat) (t : Time) (fuel i : Nat) (g : G) (u u' : CSt S)
    (ev : List Nat) (hσ : u.σ = u'.σ) (hup : u.up = u'.up) (hfl : u.fl = u'.fl) (hwl : u.wl = u'.wl) :
    (scanFrom (behT F fx (.leaf rk) lo) t fuel i g u ev).g = (scanFrom (behT F fx (.leaf rk) lo) t fuel i g u' ev).g ∧
    (scanFrom (behT F fx (.leaf rk) lo) t fuel i g u ev).st.σ = (scanFrom (behT F fx (.leaf rk) lo) t fuel i g u' ev).st.σ ∧
    (scanFrom (behT F fx (.leaf rk) lo) t fuel i g u ev).st.up = (scanFrom (behT F fx (.leaf rk) lo) t fuel i g u' ev).st.up ∧
    (scanFrom (behT F fx (.leaf rk) lo) t fuel i g u ev).st.fl = (scanFrom (behT F fx (.leaf rk) lo) t fuel i g u' ev).st.fl ∧
    (scanFrom (behT F fx (.leaf rk) lo) t fuel i g u ev).st.wl = (scanFrom (behT F fx (.leaf rk) lo) t fuel i g u' ev).st.wl ∧
    (scanFrom (behT F fx (.leaf rk) lo) t fuel i g u ev).ok = true ∧
    (scanFrom (behT F fx (.leaf rk) lo) t fuel i g u' ev).ok = true ∧
    (scanFrom (behT F fx (.leaf rk) lo) t fuel i g u ev).st.gs = u.gs := by
  induction fuel generalizing i g u u' ev with
  | zero => simp [scanFrom, hσ, hup, hfl, hwl]
  | succ fuel ih =>
    rcases Nat.lt_trichotomy (slotOf g i) t with hs | hs | hs
    · rw [scanFrom_skip _ t fuel i g u ev hs, scanFrom_skip _ t fuel i g u' ev hs]
      exact ih _ _ _ _ _ hσ hup hfl hwl
    · rw [scanFrom_eval_ok _ t fuel i g u ev hs (leaf_ok ..), scanFrom_eval_ok _ t fuel i g u' ev hs (leaf_ok ..)]
      have hr : ((behT F fx (.leaf rk) lo).eval i t u).reqs = ((behT F fx (.leaf rk) lo).eval i t u').reqs := by
        rw [leaf_reqs, leaf_reqs, hσ]
      rw [hr]
      have := ih (i + 1) (((behT F fx (.leaf rk) lo).eval i t u').reqs.foldl scheduleNode { g with cursor := i })
        ((behT F fx (.leaf rk) lo).eval i t u).st ((behT F fx (.leaf rk) lo).eval i t u').st (ev ++ [i])
        (by rw [leaf_st, leaf_st, hσ]) (by rw [leaf_st, leaf_st, hσ, hup]) (by rw [leaf_st, leaf_st, hfl])
        (by rw [leaf_st, leaf_st, hσ, hwl])
      refine ⟨this.1, this.2.1, this.2.2.1, this.2.2.2.1, this.2.2.2.2.1, this.2.2.2.2.2.1, this.2.2.2.2.2.2.1, ?_⟩
      rw [this.2.2.2.2.2.2.2]; rfl
    · rw [scanFrom_fold _ t fuel i g u ev hs, scanFrom_fold _ t fuel i g u' ev hs]
      exact ih _ _ _ _ _ hσ hup hfl hwl

/-- every notification that leaves a flat graph comes from a write of one of its nodes to a consumer outside -/
theorem leaf_up_origin (F : Flow S) (fx : Bool) (rk : Rk) (lo : Nat) (t : Time) (fuel i : Nat) (g : G) (u : CSt S) (ev : List Nat) :
    ∀ c ∈ (scanFrom (behT F fx (.leaf rk) lo) t fuel i g u ev).st.up,
      c ∈ u.up ∨ (c < lo ∧ c < F.n ∧ ∃ p, lo ≤ p ∧ p ∈ F.prods c) := by
  induction fuel generalizing i g u ev with
  | zero => intro c hc; exact Or.inl hc
  | succ fuel ih =>
    rcases Nat.lt_trichotomy (slotOf g i) t with hs | hs | hs
    · rw [scanFrom_skip _ t fuel i g u ev hs]; exact ih _ _ _ _
    · rw [scanFrom_eval_ok _ t fuel i g u ev hs (leaf_ok ..)]
      intro c hc
      rcases ih _ _ _ _ c hc with h | h
      · rw [leaf_st] at h
        rcases List.mem_append.mp h with h | h
        · exact Or.inl h
        · obtain ⟨h1, h2⟩ := List.mem_filter.mp h
          simp only [decide_eq_true_eq] at h2
          obtain ⟨a, b⟩ := mem_consW F _ _ _ c h1
          exact Or.inr ⟨h2, a, lo + rk.node i, by omega, b⟩
      · exact Or.inr h
    · rw [scanFrom_fold _ t fuel i g u ev hs]; exact ih _ _ _ _

end HgVerif.NestFlow
