import HgVerif.Model.Slots
/-!
The TSD insert path as it was BEFORE the repair of finding F-C05-1 (`fixes/c05_f1.patch`): identical to
`Model/Slots.lean` except that `insert_key` does not restore the modified mark of a resurrected slot
(`dInsBits` instead of `dInsBitsAt t`).  Kept only to document, by a kernel-checked counterexample in
`Props/C05.lean` (`tsd_value_delta_incoherent_prefix`), why the repair was needed.
-/
namespace HgVerif.Slots
local notation "Time" => Nat

def TSD.insertKeyPre (x : TSD) (t : Time) (k : Key) : TSD × InsRes :=
  let x1 := x.prepareDelta t
  let r := x1.keys.insert k
  if r.2.inserted then
    ({ x1 with keys := r.1.modifySlot r.2.slot dInsBits, keySetLmt := recMod x1.keySetLmt t }, r.2)
  else ({ x1 with keys := r.1 }, r.2)

def TSD.atPre (x : TSD) (t : Time) (k : Key) : TSD × Nat :=
  let r := x.insertKeyPre t k
  (if r.2.inserted then r.1.markModified t else r.1, r.2.slot)

def TSD.setPre (x : TSD) (t : Time) (k : Key) (v : Int) : TSD :=
  let r := x.atPre t k
  r.1.writeChild r.2 t v

def TSD.stepPre (x : TSD) (o : DictOp) : TSD :=
  if o.time == 0 then x else
  match o with
  | .set t k v => x.setPre t k v
  | .at t k => (x.atPre t k).1
  | .erase t k => (x.erase t k).1
  | .clear t => x.clear t
  | .touch t => x.touchOp t

def TSD.runPre (x : TSD) (ops : List DictOp) : TSD := ops.foldl TSD.stepPre x

end HgVerif.Slots
