import HgVerif.Model.PushQueue
/-! Helper lemmas for the push-queue transition system (C16): the inductive invariant. -/
namespace HgVerif.PushQueue

/-- all values handed to the graph so far, in delivery order -/
def flat (d : List (Nat × List (Nat × Nat))) : List (Nat × Nat) := (d.map (·.2)).flatten

theorem flat_append (a b : List (Nat × List (Nat × Nat))) : flat (a ++ b) = flat a ++ flat b := by
  simp [flat]

theorem flat_single (t : Nat) (l : List (Nat × Nat)) : flat [(t, l)] = l := by simp [flat]

/-- some producer sits between admission and its mark, with a mark due -/
def MarkDue (s : St) : Prop := ∃ i k v, s.pcs i = .admitted k v true

structure Inv (cfg : Cfg) (s : St) : Prop where
  /-- accepted = delivered ++ pending (++ what a stop dropped) -/
  pre : cfg.policy ≠ .conflating →
    ∃ dropped, s.accepted = flat s.delivered ++ s.deque ++ dropped ∧ (s.accepting = true → dropped = [])
  cap : cfg.policy ≠ .conflating → cfg.cap ≠ 0 → s.deque.length ≤ cfg.cap
  times : List.Pairwise (fun a b => a < b) (s.delivered.map (·.1)) ∧ (∀ d ∈ s.delivered, d.1 ≤ s.time) ∧
    (s.cpc = .reset → ∀ d ∈ s.delivered, d.1 < s.time)
  wake : s.deque ≠ [] →
    s.flag = true ∨ MarkDue s ∨ s.cpc = .reset ∨ s.cpc = .popped true ∨ s.stopReq = true
  life : (s.accepting = true → s.started = true) ∧ (s.closing = true → s.started = true) ∧
    (s.started = false → s.deque = [] ∧ s.accepted = [] ∧ s.delivered = [])
  blk : ∀ r ∈ s.results, r.2.1 = .blocking → r.2.2.2 ≠ .refusedFull

theorem upd_same (f : Nat → PPc) (i : Nat) (v : PPc) : upd f i v i = v := by simp [upd]
theorem upd_other (f : Nat → PPc) (i j : Nat) (v : PPc) (h : j ≠ i) : upd f i v j = f j := by simp [upd, h]

/-- re-pointing producer `i` (whose old state was not a due mark) keeps every other due mark -/
theorem markDue_upd {s : St} {i : Nat} {pc : PPc} (hold : ∀ k v, s.pcs i ≠ .admitted k v true) (h : MarkDue s) :
    ∃ j k v, upd s.pcs i pc j = .admitted k v true := by
  obtain ⟨j, k, v, hj⟩ := h
  have hne : j ≠ i := by rintro rfl; exact hold k v hj
  exact ⟨j, k, v, by rw [upd_other _ _ _ _ hne]; exact hj⟩

theorem inv_init (cfg : Cfg) : Inv cfg {} :=
  ⟨fun _ => ⟨[], by simp [flat], fun _ => rfl⟩, fun _ _ => by simp, by simp, by simp, by simp, by simp⟩

/-- a step that only re-points producer `i` to a non-admitted state and appends a legal result -/
theorem inv_repoint {cfg : Cfg} {s : St} (h : Inv cfg s) (i : Nat) (pc : PPc) (res : List (Nat × SendKind × Nat × Outcome))
    (hold : ∀ k v, s.pcs i ≠ .admitted k v true)
    (hres : ∀ r ∈ res, r.2.1 = .blocking → r.2.2.2 ≠ .refusedFull) :
    Inv cfg { s with pcs := upd s.pcs i pc, results := s.results ++ res } := by
  refine ⟨h.pre, h.cap, h.times, ?_, h.life, ?_⟩
  · intro hd
    rcases h.wake hd with h1 | h1 | h1
    · exact Or.inl h1
    · exact Or.inr (Or.inl (markDue_upd hold h1))
    · exact Or.inr (Or.inr h1)
  · intro r hr
    simp only [List.mem_append] at hr
    rcases hr with hr | hr
    · exact h.blk r hr
    · exact hres r hr

theorem inv_refuse {cfg : Cfg} {s : St} (h : Inv cfg s) (i : Nat) (k : SendKind) (v : Nat) (o : Outcome)
    (hold : ∀ k v, s.pcs i ≠ .admitted k v true) (ho : k = .blocking → o ≠ .refusedFull) :
    Inv cfg (refuse s i k v o) := by
  unfold refuse
  apply inv_repoint h i .idle [(i, k, v, o)] hold
  intro r hr hk
  simp only [List.mem_singleton] at hr
  subst hr
  exact ho hk

theorem full_false_len {cfg : Cfg} {s : St} (hp : cfg.policy ≠ .conflating) (hc : cfg.cap ≠ 0)
    (hf : full cfg s = false) : s.deque.length < cfg.cap := by
  unfold full at hf
  cases hpol : cfg.policy with
  | conflating => exact absurd hpol hp
  | queue => simp [hpol, hc] at hf; exact hf
  | burst => simp [hpol, hc] at hf; exact hf

theorem inv_accept {cfg : Cfg} {s : St} (h : Inv cfg s) (i : Nat) (k : SendKind) (v : Nat)
    (hacc : s.accepting = true) (hfull : full cfg s = false) (hold : ∀ k v, s.pcs i ≠ .admitted k v true) :
    Inv cfg (accept cfg s i k v) := by
  unfold accept
  refine ⟨?_, ?_, h.times, ?_, ?_, h.blk⟩
  · intro hp
    obtain ⟨dr, h1, h2⟩ := h.pre hp
    have hdr := h2 hacc
    subst hdr
    refine ⟨[], ?_, fun _ => rfl⟩
    cases hpol : cfg.policy with
    | conflating => exact absurd hpol hp
    | queue => simp [h1]
    | burst => simp [h1]
  · intro hp hc
    have := full_false_len hp hc hfull
    cases hpol : cfg.policy with
    | conflating => exact absurd hpol hp
    | queue => simp; omega
    | burst => simp; omega
  · intro _
    by_cases he : s.deque.isEmpty = true
    · right; left
      exact ⟨i, k, v, by simp [upd_same, he]⟩
    · have hne : s.deque ≠ [] := by simpa using he
      rcases h.wake hne with h1 | h1 | h1
      · exact Or.inl h1
      · exact Or.inr (Or.inl (markDue_upd hold h1))
      · exact Or.inr (Or.inr h1)
  · obtain ⟨l1, l2, l3⟩ := h.life
    refine ⟨l1, l2, ?_⟩
    intro hs
    have := l1 hacc
    rw [hs] at this; simp at this

theorem markFlag_fields (s : St) :
    (markFlag s).deque = s.deque ∧ (markFlag s).accepted = s.accepted ∧ (markFlag s).delivered = s.delivered ∧
    (markFlag s).accepting = s.accepting ∧ (markFlag s).started = s.started ∧ (markFlag s).closing = s.closing ∧
    (markFlag s).pcs = s.pcs ∧ (markFlag s).cpc = s.cpc ∧ (markFlag s).time = s.time ∧
    (markFlag s).results = s.results ∧ (markFlag s).stopReq = s.stopReq ∧
    ((markFlag s).flag = true ∨ s.stopReq = true) ∧ (s.flag = true → (markFlag s).flag = true) := by
  unfold markFlag
  split <;> simp_all

/-- the invariant is preserved by every atomic step -/
theorem inv_step {cfg : Cfg} {s s' : St} {l : Label} (h : Inv cfg s) (hs : step cfg s l = some s') : Inv cfg s' := by
  cases l with
  | start =>
    simp only [step] at hs
    split at hs
    · simp at hs
    · rename_i hst
      simp only [Option.some.injEq] at hs
      subst hs
      simp only [Bool.not_eq_true] at hst
      obtain ⟨l1, l2, l3⟩ := h.life
      obtain ⟨d1, d2, d3⟩ := l3 hst
      refine ⟨fun _ => ⟨[], by simp [d2, d3, flat], fun _ => rfl⟩, fun _ _ => by simp, ?_, by simp, by simp, h.blk⟩
      exact h.times
  | enter i k v =>
    simp only [step] at hs
    split at hs
    · rename_i hpc
      have hold : ∀ k v, s.pcs i ≠ .admitted k v true := by intro k v; rw [hpc]; simp
      split at hs
      · simp only [Option.some.injEq] at hs; subst hs
        exact inv_refuse h i k v _ hold (by simp)
      · simp only [Option.some.injEq] at hs; subst hs
        have := inv_repoint h i (.entered k v) [] hold (by simp)
        simpa using this
    · simp at hs
  | check i =>
    simp only [step] at hs
    split at hs
    · rename_i k v hpc
      have hold : ∀ k v, s.pcs i ≠ .admitted k v true := by intro k v; rw [hpc]; simp
      split at hs
      · simp only [Option.some.injEq] at hs; subst hs
        exact inv_refuse h i k v _ hold (by simp)
      · simp only [Option.some.injEq] at hs; subst hs
        have := inv_repoint h i (.checked k v) [] hold (by simp)
        simpa using this
    · simp at hs
  | admitQ i =>
    simp only [step] at hs
    split at hs
    · rename_i v hpc
      have hold : ∀ k v, s.pcs i ≠ .admitted k v true := by intro k v; rw [hpc]; simp
      split at hs
      · simp only [Option.some.injEq] at hs; subst hs
        exact inv_refuse h i _ v _ hold (by simp)
      · rename_i hacc
        simp only [Bool.not_eq_true] at hacc
        split at hs
        · simp only [Option.some.injEq] at hs; subst hs
          exact inv_refuse h i _ v _ hold (by simp)
        · rename_i hfull
          simp only [Option.some.injEq] at hs; subst hs
          exact inv_accept h i _ v (by simpa using hacc) (by simpa using hfull) hold
    · rename_i v hpc
      have hold : ∀ k v, s.pcs i ≠ .admitted k v true := by intro k v; rw [hpc]; simp
      split at hs
      · simp only [Option.some.injEq] at hs; subst hs
        exact inv_refuse h i _ v _ hold (by simp)
      · rename_i hacc
        split at hs
        · simp only [Option.some.injEq] at hs; subst hs
          have := inv_repoint h i (.blocked v) [] hold (by simp)
          simpa using this
        · rename_i hfull
          simp only [Option.some.injEq] at hs; subst hs
          exact inv_accept h i _ v (by simpa using hacc) (by simpa using hfull) hold
    · simp at hs
  | wake i =>
    simp only [step] at hs
    split at hs
    · rename_i v hpc
      have hold : ∀ k v, s.pcs i ≠ .admitted k v true := by intro k v; rw [hpc]; simp
      split at hs
      · simp only [Option.some.injEq] at hs; subst hs
        exact inv_refuse h i _ v _ hold (by simp)
      · rename_i hacc
        split at hs
        · simp only [Option.some.injEq] at hs; subst hs; exact h
        · rename_i hfull
          simp only [Option.some.injEq] at hs; subst hs
          exact inv_accept h i _ v (by simpa using hacc) (by simpa using hfull) hold
    · simp at hs
  | mark i =>
    simp only [step] at hs
    split at hs
    · rename_i k v wk hpc
      simp only [Option.some.injEq] at hs
      subst hs
      cases wk with
      | false =>
        simp only [Bool.false_eq_true, if_false]
        have hold : ∀ k v, s.pcs i ≠ .admitted k v true := by intro k v; rw [hpc]; simp
        exact inv_repoint h i .idle [(i, k, v, .accepted)] hold (by simp)
      | true =>
        simp only [if_true]
        obtain ⟨m1, m2, m3, m4, m5, m6, m7, m8, m9, m10, m11, m12, m13⟩ := markFlag_fields s
        refine ⟨?_, ?_, ?_, ?_, ?_, ?_⟩
        · intro hp; simp only [m1, m2, m3, m4]; exact h.pre hp
        · intro hp hc; simp only [m1]; exact h.cap hp hc
        · simp only [m3, m9, m8]; exact h.times
        · intro _
          simp only [m11]
          rcases m12 with hfl | hst
          · exact Or.inl hfl
          · exact Or.inr (Or.inr (Or.inr (Or.inr hst)))
        · simp only [m1, m2, m3, m4, m5, m6]; exact h.life
        · intro r hr
          simp only [m10, List.mem_append, List.mem_singleton] at hr
          rcases hr with hr | rfl
          · exact h.blk r hr
          · simp
    · simp at hs
  | beginCycle dt =>
    simp only [step] at hs
    split at hs
    · rename_i hc
      split at hs
      · simp at hs
      · simp only [Option.some.injEq] at hs
        subst hs
        obtain ⟨t1, t2, t3⟩ := h.times
        refine ⟨h.pre, h.cap, ⟨t1, ?_, ?_⟩, ?_, h.life, h.blk⟩
        · intro d hd; have := t2 d hd; simp only; omega
        · intro _ d hd; have := t2 d hd; simp only; omega
        · intro hd
          simp only
          rcases h.wake hd with h1 | h1 | h1 | h1 | h1
          · right; right; left; simp [h1]
          · exact Or.inr (Or.inl h1)
          · rw [hc] at h1; simp at h1
          · rw [hc] at h1; simp at h1
          · exact Or.inr (Or.inr (Or.inr (Or.inr h1)))
    · simp at hs
  | pop =>
    simp only [step] at hs
    split at hs
    · rename_i hc
      obtain ⟨t1, t2, t3⟩ := h.times
      have t3' := t3 hc
      split at hs
      · -- empty queue
        simp only [Option.some.injEq] at hs; subst hs
        rename_i hd
        refine ⟨h.pre, h.cap, ⟨t1, t2, by simp⟩, ?_, h.life, h.blk⟩
        intro hne; simp only at hne; exact absurd hd hne
      · -- queue policy: one value
        rename_i v rest hpol hd
        simp only [Option.some.injEq] at hs; subst hs
        refine ⟨?_, ?_, ⟨?_, ?_, by simp⟩, ?_, ?_, h.blk⟩
        · intro hp
          obtain ⟨dr, h1, h2⟩ := h.pre hp
          refine ⟨dr, ?_, h2⟩
          simp only [flat_append, flat_single]
          rw [h1, hd]; simp
        · intro hp hcap
          have := h.cap hp hcap
          rw [hd] at this; simp at this ⊢; omega
        · simp only [List.map_append, List.map_cons, List.map_nil]
          rw [List.pairwise_append]
          refine ⟨t1, by simp, ?_⟩
          intro a ha b hb
          simp only [List.mem_map] at ha
          obtain ⟨d, hd1, rfl⟩ := ha
          simp only [List.mem_singleton] at hb
          subst hb
          exact t3' d hd1
        · intro d hd1
          simp only [List.mem_append, List.mem_singleton] at hd1
          rcases hd1 with hd1 | rfl
          · exact t2 d hd1
          · exact Nat.le_refl _
        · intro hne
          simp only at hne
          right; right; right; left
          simp only
          cases rest with
          | nil => exact absurd rfl hne
          | cons _ _ => simp
        · obtain ⟨l1, l2, l3⟩ := h.life
          refine ⟨l1, l2, ?_⟩
          intro hst
          have := (l3 hst).1
          rw [hd] at this; simp at this
      · -- burst / conflating: everything pending
        rename_i v rest hd hnq
        simp only [Option.some.injEq] at hs; subst hs
        refine ⟨?_, fun _ _ => by simp, ⟨?_, ?_, by simp⟩, by simp, ?_, h.blk⟩
        · intro hp
          obtain ⟨dr, h1, h2⟩ := h.pre hp
          refine ⟨dr, ?_, h2⟩
          simp only [flat_append, flat_single]
          rw [h1, hd]; simp
        · simp only [List.map_append, List.map_cons, List.map_nil]
          rw [List.pairwise_append]
          refine ⟨t1, by simp, ?_⟩
          intro a ha b hb
          simp only [List.mem_map] at ha
          obtain ⟨d, hd1, rfl⟩ := ha
          simp only [List.mem_singleton] at hb
          subst hb
          exact t3' d hd1
        · intro d hd1
          simp only [List.mem_append, List.mem_singleton] at hd1
          rcases hd1 with hd1 | rfl
          · exact t2 d hd1
          · exact Nat.le_refl _
        · obtain ⟨l1, l2, l3⟩ := h.life
          refine ⟨l1, l2, ?_⟩
          intro hst
          have := (l3 hst).1
          rw [hd] at this; simp at this
    · simp at hs
  | rearm =>
    simp only [step] at hs
    split at hs
    · rename_i more hc
      simp only [Option.some.injEq] at hs
      subst hs
      obtain ⟨t1, t2, t3⟩ := h.times
      cases more with
      | false =>
        simp only [Bool.false_eq_true, if_false]
        refine ⟨h.pre, h.cap, ⟨t1, t2, by simp⟩, ?_, h.life, h.blk⟩
        intro hd
        rcases h.wake hd with h1 | h1 | h1 | h1 | h1
        · exact Or.inl h1
        · exact Or.inr (Or.inl h1)
        · rw [hc] at h1; simp at h1
        · rw [hc] at h1; simp at h1
        · exact Or.inr (Or.inr (Or.inr (Or.inr h1)))
      | true =>
        simp only [if_true]
        obtain ⟨m1, m2, m3, m4, m5, m6, m7, m8, m9, m10, m11, m12, m13⟩ := markFlag_fields s
        refine ⟨?_, ?_, ?_, ?_, ?_, ?_⟩
        · intro hp; simp only [m1, m2, m3, m4]; exact h.pre hp
        · intro hp hcap; simp only [m1]; exact h.cap hp hcap
        · simp only [m3, m9]; exact ⟨t1, t2, by simp⟩
        · intro _
          simp only [m11]
          rcases m12 with hfl | hst
          · exact Or.inl hfl
          · exact Or.inr (Or.inr (Or.inr (Or.inr hst)))
        · simp only [m1, m2, m3, m4, m5, m6]; exact h.life
        · simp only [m10]; exact h.blk
    · simp at hs
  | reqStop =>
    simp only [step, Option.some.injEq] at hs
    subst hs
    exact ⟨h.pre, h.cap, h.times, fun _ => Or.inr (Or.inr (Or.inr (Or.inr rfl))), h.life, h.blk⟩
  | closeBegin =>
    simp only [step] at hs
    split at hs
    · split at hs
      · rename_i hcond
        simp only [Option.some.injEq] at hs
        subst hs
        simp only [Bool.and_eq_true, Bool.not_eq_true'] at hcond
        obtain ⟨l1, l2, l3⟩ := h.life
        exact ⟨h.pre, h.cap, h.times, h.wake, ⟨l1, fun _ => hcond.1, l3⟩, h.blk⟩
      · simp at hs
    · simp at hs
  | queueStop =>
    simp only [step] at hs
    split at hs
    · rename_i hcond
      simp only [Option.some.injEq] at hs
      subst hs
      simp only [Bool.and_eq_true] at hcond
      obtain ⟨l1, l2, l3⟩ := h.life
      refine ⟨?_, fun _ _ => by simp, h.times, by simp, ⟨by simp, l2, ?_⟩, h.blk⟩
      · intro hp
        obtain ⟨dr, h1, _⟩ := h.pre hp
        exact ⟨s.deque ++ dr, by simp [h1], by simp⟩
      · intro hst
        have := l1 hcond.2
        rw [hst] at this; simp at this
    · simp at hs

theorem inv_reach {cfg : Cfg} {s : St} (h : Reach cfg s) : Inv cfg s := by
  induction h with
  | init => exact inv_init cfg
  | step l _ hs ih => exact inv_step ih hs

/-! ### frame facts of the steps (used by the liveness argument) -/

def isStopLabel : Label → Bool
  | .reqStop | .closeBegin | .queueStop => true
  | _ => false

/-- number of values handed to the graph so far -/
def dcount (s : St) : Nat := (flat s.delivered).length

theorem accept_fields (cfg : Cfg) (s : St) (i : Nat) (k : SendKind) (v : Nat) :
    (accept cfg s i k v).stopReq = s.stopReq ∧ (accept cfg s i k v).closing = s.closing ∧
    (accept cfg s i k v).cpc = s.cpc ∧ (accept cfg s i k v).flag = s.flag ∧
    (accept cfg s i k v).delivered = s.delivered ∧ (accept cfg s i k v).deque ≠ [] ∧
    (accept cfg s i k v).started = s.started ∧ (accept cfg s i k v).accepting = s.accepting ∧
    (∀ j, j ≠ i → (accept cfg s i k v).pcs j = s.pcs j) ∧
    (∃ t, (accept cfg s i k v).accepted = s.accepted ++ t) := by
  unfold accept
  refine ⟨rfl, rfl, rfl, rfl, rfl, ?_, rfl, rfl, fun j hj => by simp [upd, hj], ⟨_, rfl⟩⟩
  simp only
  split <;> simp

theorem refuse_fields (s : St) (i : Nat) (k : SendKind) (v : Nat) (o : Outcome) :
    (refuse s i k v o).stopReq = s.stopReq ∧ (refuse s i k v o).closing = s.closing ∧
    (refuse s i k v o).cpc = s.cpc ∧ (refuse s i k v o).flag = s.flag ∧
    (refuse s i k v o).delivered = s.delivered ∧ (refuse s i k v o).deque = s.deque ∧
    (refuse s i k v o).started = s.started ∧ (refuse s i k v o).accepting = s.accepting ∧
    (∀ j, j ≠ i → (refuse s i k v o).pcs j = s.pcs j) ∧ (refuse s i k v o).accepted = s.accepted := by
  unfold refuse
  exact ⟨rfl, rfl, rfl, rfl, rfl, rfl, rfl, rfl, fun j hj => by simp [upd, hj], rfl⟩

/-- split a step hypothesis into its branches, each with `s'` substituted -/
macro "step_cases " hs:ident : tactic => `(tactic| (
  simp only [step] at $hs:ident
  repeat' (split at $hs:ident)
  all_goals (first | (simp only [Option.some.injEq] at $hs:ident; subst $hs:ident) | (simp at $hs:ident; done) | skip)))

theorem step_keeps_stop {cfg : Cfg} {s s' : St} {l : Label} (hs : step cfg s l = some s') (hl : isStopLabel l = false) :
    s'.stopReq = s.stopReq ∧ s'.closing = s.closing ∧ (s.started = true → s'.started = true) ∧
    (s.started = true → s'.accepting = s.accepting) := by
  cases l <;> simp [isStopLabel] at hl <;> step_cases hs <;>
    simp [refuse, accept, markFlag] <;> (try split) <;> simp_all

theorem step_dcount {cfg : Cfg} {s s' : St} {l : Label} (hs : step cfg s l = some s') :
    dcount s ≤ dcount s' ∧ (l = .pop → s.deque ≠ [] → dcount s < dcount s') := by
  cases l <;> step_cases hs <;>
    simp [refuse, accept, markFlag, dcount, flat] <;> (try split) <;> simp_all <;> omega

theorem step_accepted_mono {cfg : Cfg} {s s' : St} {l : Label} (hs : step cfg s l = some s') :
    ∃ t, s'.accepted = s.accepted ++ t := by
  cases l <;> step_cases hs <;>
    simp [refuse, accept, markFlag] <;> (try split) <;> (try exact ⟨[], by simp⟩) <;> (try exact ⟨_, rfl⟩)

/-- the consumer's program counter moves only by its own steps, which need the matching counter -/
theorem step_cpc {cfg : Cfg} {s s' : St} {l : Label} (hs : step cfg s l = some s') :
    ((∀ dt, l ≠ .beginCycle dt) → l ≠ .pop → l ≠ .rearm → s'.cpc = s.cpc) ∧
    (l = .pop → s.cpc = .reset) ∧ (l = .rearm → ∃ b, s.cpc = .popped b) ∧
    ((∃ dt, l = .beginCycle dt) → s.cpc = .idle) := by
  cases l <;> step_cases hs <;>
    simp [refuse, accept, markFlag] <;> (try split) <;> simp_all

/-- the flag is cleared only by `beginCycle` -/
theorem step_flag {cfg : Cfg} {s s' : St} {l : Label} (hs : step cfg s l = some s')
    (hl : ∀ dt, l ≠ .beginCycle dt) (hf : s.flag = true) : s'.flag = true := by
  cases l <;> step_cases hs <;>
    (try simp [refuse, accept, markFlag]) <;> (try split) <;> (try simp_all) <;> (try assumption)

/-- the queue shrinks only by `pop` (and by the stop, and by `start`, which a started source cannot repeat) -/
theorem step_deque_ne {cfg : Cfg} {s s' : St} {l : Label} (hs : step cfg s l = some s') (hl : isStopLabel l = false)
    (hp : l ≠ .pop) (hst : s.started = true) (hd : s.deque ≠ []) : s'.deque ≠ [] := by
  cases l <;> simp [isStopLabel] at hl <;> step_cases hs <;>
    simp [refuse, accept, markFlag] <;> (try split) <;> simp_all

/-- a producer between admission and mark stays there until its own `mark` -/
theorem step_pcs_admitted {cfg : Cfg} {s s' : St} {l : Label} (hs : step cfg s l = some s')
    (i : Nat) (k : SendKind) (v : Nat) (w : Bool) (hl : l ≠ .mark i) (hp : s.pcs i = .admitted k v w) :
    s'.pcs i = .admitted k v w := by
  cases l <;> step_cases hs <;>
    (try simp [refuse, accept, markFlag, upd]) <;> (try split) <;> (try simp_all) <;>
    (try (intro h; subst h; simp_all)) <;> (try assumption) <;> (try split) <;> (try simp_all)

theorem step_beginCycle {cfg : Cfg} {s s' : St} {dt : Nat} (hs : step cfg s (.beginCycle dt) = some s')
    (hf : s.flag = true) : s'.cpc = .reset ∧ s'.deque = s.deque := by
  step_cases hs <;> simp_all

theorem step_rearm {cfg : Cfg} {s s' : St} (hs : step cfg s .rearm = some s') :
    s'.cpc = .idle ∧ s'.deque = s.deque ∧
    (s.stopReq = false → (s.cpc = .popped true ∨ s.flag = true) → s'.flag = true) := by
  step_cases hs <;> simp [markFlag] <;> (try split) <;> simp_all

theorem step_mark {cfg : Cfg} {s s' : St} {i : Nat} {k : SendKind} {v : Nat} (hs : step cfg s (.mark i) = some s')
    (hp : s.pcs i = .admitted k v true) (hst : s.stopReq = false) :
    s'.flag = true ∧ s'.cpc = s.cpc ∧ s'.deque = s.deque := by
  step_cases hs <;> simp [markFlag] <;> simp_all

/-- a started source that is not closing is accepting -/
theorem running_accepting {cfg : Cfg} {s : St} (h : Reach cfg s) :
    s.started = true → s.closing = false → s.accepting = true := by
  induction h with
  | init => simp
  | step l _ hs ih =>
    revert ih
    cases l <;> step_cases hs <;>
      (try simp [refuse, accept, markFlag]) <;> (try split) <;> (try simp_all)

end HgVerif.PushQueue
