import HgVerif.Lemmas.NestFlowCycle
import HgVerif.Props.C03Flow
/-! The root of a nesting against the flat programs of `Model/Flow.lean`: a flat graph at lower bound 0 IS
`beh F ρ` (same schedule, same states, same evaluated positions; the ghost logs are the evaluated nodes and the
writers of the slot-free reading `denSeq`). -/
namespace HgVerif.NestFlow
open HgVerif.Sched HgVerif.Flow

variable {S : Type}

theorem filter_const_true (L : List Nat) : L.filter (fun _ => true) = L := by
  induction L with
  | nil => rfl
  | cons a r ih => simp [List.filter]

theorem filter_const_false (L : List Nat) : L.filter (fun _ => false) = [] := by
  induction L with
  | nil => rfl
  | cons a r ih => simp [List.filter]

theorem leaf0_reqs (F : Flow S) (fx : Bool) (rk : Rk) (h : RkOK F.n rk) (q : Nat) (t : Time) (u : CSt S) :
    ((behT F fx (.leaf rk) 0).eval q t u).reqs = ((beh F (rk.toRank F.n h)).eval q t u.σ).reqs := by
  rw [leaf_reqs]
  simp only [beh, Rk.toRank, consW, Nat.zero_add, Nat.zero_le, decide_true, filter_const_true, Nat.sub_zero]
  by_cases hb : (F.f (rk.node q) u.σ t).2 = true <;> simp [hb]

theorem leaf0_st (F : Flow S) (fx : Bool) (rk : Rk) (h : RkOK F.n rk) (q : Nat) (t : Time) (u : CSt S) :
    ((behT F fx (.leaf rk) 0).eval q t u).st.σ = ((beh F (rk.toRank F.n h)).eval q t u.σ).st ∧
    ((behT F fx (.leaf rk) 0).eval q t u).st.up = u.up ∧
    ((behT F fx (.leaf rk) 0).eval q t u).st.fl = u.fl ++ [rk.node q] ∧
    ((behT F fx (.leaf rk) 0).eval q t u).st.wl = (if (F.f (rk.node q) u.σ t).2 then rk.node q :: u.wl else u.wl) ∧
    ((behT F fx (.leaf rk) 0).eval q t u).st.gs = u.gs := by
  rw [leaf_st]
  simp only [beh, Rk.toRank, Nat.zero_add, Nat.not_lt_zero, decide_false, filter_const_false, List.append_nil, and_self]

/-- a flat graph at the root is the flat program -/
theorem leaf0_scan (F : Flow S) (fx : Bool) (rk : Rk) (h : RkOK F.n rk) (t : Time) (fuel i : Nat) (g : G) (u : CSt S)
    (ev : List Nat) (fl0 : List Nat) (hfl : u.fl = fl0 ++ ev.map rk.node) :
    (scanFrom (behT F fx (.leaf rk) 0) t fuel i g u ev).g = (scanFrom (beh F (rk.toRank F.n h)) t fuel i g u.σ ev).g ∧
    (scanFrom (behT F fx (.leaf rk) 0) t fuel i g u ev).st.σ = (scanFrom (beh F (rk.toRank F.n h)) t fuel i g u.σ ev).st ∧
    (scanFrom (behT F fx (.leaf rk) 0) t fuel i g u ev).evaluated = (scanFrom (beh F (rk.toRank F.n h)) t fuel i g u.σ ev).evaluated ∧
    (scanFrom (behT F fx (.leaf rk) 0) t fuel i g u ev).st.up = u.up ∧
    (scanFrom (behT F fx (.leaf rk) 0) t fuel i g u ev).st.fl =
      fl0 ++ (scanFrom (beh F (rk.toRank F.n h)) t fuel i g u.σ ev).evaluated.map rk.node ∧
    (scanFrom (behT F fx (.leaf rk) 0) t fuel i g u ev).ok = true ∧
    (scanFrom (beh F (rk.toRank F.n h)) t fuel i g u.σ ev).ok = true := by
  induction fuel generalizing i g u ev with
  | zero => simp [scanFrom, hfl]
  | succ fuel ih =>
    rcases Nat.lt_trichotomy (slotOf g i) t with hs | hs | hs
    · rw [scanFrom_skip _ t fuel i g u ev hs, scanFrom_skip _ t fuel i g u.σ ev hs]
      exact ih _ _ _ _ hfl
    · rw [scanFrom_eval_ok _ t fuel i g u ev hs (leaf_ok ..), scanFrom_eval_ok _ t fuel i g u.σ ev hs (beh_ok ..)]
      obtain ⟨s1, s2, s3, s4, s5⟩ := leaf0_st F fx rk h i t u
      rw [leaf0_reqs F fx rk h i t u, ← s1]
      have := ih (i + 1) (((beh F (rk.toRank F.n h)).eval i t u.σ).reqs.foldl scheduleNode { g with cursor := i })
        ((behT F fx (.leaf rk) 0).eval i t u).st (ev ++ [i]) (by rw [s3, hfl]; simp)
      rw [s2] at this
      exact this
    · rw [scanFrom_fold _ t fuel i g u ev hs, scanFrom_fold _ t fuel i g u.σ ev hs]
      exact ih _ _ _ _ hfl

/-- the writer log of a flat graph at the root is the writer list of the slot-free reading -/
theorem leaf0_wl (F : Flow S) (fx : Bool) (rk : Rk) (h : RkOK F.n rk) (hT : Topo F (rk.toRank F.n h)) (hS : SelfFuture F)
    (t : Time) (due : Nat → Bool) (fuel k : Nat) (g : G) (u : CSt S) (w ev : List Nat) (wl0 : List Nat)
    (hfk : k + fuel = F.n) (hlen : g.slots.length = F.n) (hnow : g.now = t) (hw : u.wl = w ++ wl0)
    (hJ : ∀ q, k ≤ q → q < F.n →
      (slotOf g q = t ↔ (due ((rk.toRank F.n h).node q) = true ∨ ∃ p ∈ F.prods ((rk.toRank F.n h).node q), p ∈ w))) :
    (scanFrom (behT F fx (.leaf rk) 0) t fuel k g u ev).st.wl =
      (denSeq F (rk.toRank F.n h) t due fuel k u.σ w ev).2.1 ++ wl0 := by
  induction fuel generalizing k g u w ev with
  | zero => simp [scanFrom, denSeq, hw]
  | succ fuel ih =>
    have hk : k < F.n := by omega
    have hfire : (due ((rk.toRank F.n h).node k) || (F.prods ((rk.toRank F.n h).node k)).any (fun p => w.contains p)) = true ↔
        slotOf g k = t := by
      rw [hJ k (Nat.le_refl _) hk, Bool.or_eq_true, any_contains_iff]
    by_cases hs : slotOf g k = t
    · rw [scanFrom_eval_ok _ t fuel k g u ev hs (leaf_ok ..), denSeq_fire F _ t due fuel k u.σ w ev (hfire.mpr hs)]
      obtain ⟨s1, s2, s3, s4, s5⟩ := leaf0_st F fx rk h k t u
      have hst : ((beh F (rk.toRank F.n h)).eval k t u.σ).st =
          upd u.σ ((rk.toRank F.n h).node k) (F.f ((rk.toRank F.n h).node k) u.σ t).1 := rfl
      have hreqs := disc_beh F (rk.toRank F.n h) hT hS k hk t u.σ
      rw [leaf0_reqs F fx rk h k t u]
      have hlen' : (((beh F (rk.toRank F.n h)).eval k t u.σ).reqs.foldl scheduleNode { g with cursor := k }).slots.length = F.n := by
        rw [foldl_scheduleNode_length]; exact hlen
      have hnow' : (((beh F (rk.toRank F.n h)).eval k t u.σ).reqs.foldl scheduleNode { g with cursor := k }).now = t := by
        rw [foldl_scheduleNode_now]; exact hnow
      have := ih (k + 1) (((beh F (rk.toRank F.n h)).eval k t u.σ).reqs.foldl scheduleNode { g with cursor := k })
        ((behT F fx (.leaf rk) 0).eval k t u).st
        (if (F.f ((rk.toRank F.n h).node k) u.σ t).2 then (rk.toRank F.n h).node k :: w else w) (ev ++ [k]) (by omega)
        hlen' hnow' (by
          rw [s4, hw]
          show (if (F.f (rk.node k) u.σ t).2 = true then rk.node k :: (w ++ wl0) else w ++ wl0) =
            (if (F.f (rk.node k) u.σ t).2 = true then rk.node k :: w else w) ++ wl0
          split <;> simp) (by
          intro q hkq hq
          have hslot := slot_after_requests (i := k) (j := q) ((beh F (rk.toRank F.n h)).eval k t u.σ).reqs
            (g := { g with cursor := k }) hlen hnow (by omega) hreqs
          rw [hslot]
          have hJq := hJ q (by omega) hq
          have hsame : slotOf { g with cursor := k } q = slotOf g q := rfl
          rw [hsame, hJq, req_same_cycle_iff F (rk.toRank F.n h) hT hS k q t u.σ hk hq (by omega)]
          constructor
          · rintro ((hd | ⟨p, hp, hw⟩) | ⟨hw, hp⟩)
            · exact Or.inl hd
            · right; refine ⟨p, hp, ?_⟩; split <;> simp [hw]
            · right; refine ⟨(rk.toRank F.n h).node k, hp, ?_⟩; simp [hw]
          · rintro (hd | ⟨p, hp, hw⟩)
            · exact Or.inl (Or.inl hd)
            · split at hw
              · rename_i hwrote
                simp only [List.mem_cons] at hw
                rcases hw with rfl | hw
                · exact Or.inr ⟨hwrote, hp⟩
                · exact Or.inl (Or.inr ⟨p, hp, hw⟩)
              · exact Or.inl (Or.inr ⟨p, hp, hw⟩))
      rw [this, s1, hst]
    · have hidle : ¬ (due ((rk.toRank F.n h).node k) || (F.prods ((rk.toRank F.n h).node k)).any (fun p => w.contains p)) = true :=
        fun h' => hs (hfire.mp h')
      rw [denSeq_idle F _ t due fuel k u.σ w ev hidle]
      rcases Nat.lt_or_gt_of_ne hs with hlt | hgt
      · rw [scanFrom_skip _ t fuel k g u ev hlt]
        exact ih (k + 1) _ _ _ _ (by omega) hlen hnow hw (fun q hkq hq => hJ q (by omega) hq)
      · rw [scanFrom_fold _ t fuel k g u ev hgt]
        exact ih (k + 1) _ _ _ _ (by omega) hlen hnow hw (fun q hkq hq => hJ q (by omega) hq)

end HgVerif.NestFlow
