import HgVerif.Model.BodyKey
import HgVerif.Props.C06KeyOrder
/-!
Helper lemmas for `Props/C06BodyKey.lean`, all on the generic statement machinery of `Model/InternKey.lean`:

* A. wiring the same statements with every input attribute seen through a map `g` that is injective on the attributes
     that occur gives every label the same node (`rel_wireL`): the keys that are compared are in bijection.
* B. every created node computes, from the nodes it is wired to, exactly the order-free value of every label bound to it,
     and every sink sees the order-free value of its inputs (`kv_wireV`).
* C. the order-free values do not depend on the statement order (`semV_order_irrelevant`, the `σ`-valued copy of
     `semL_order_irrelevant`).
* D. the order-free values through an attribute map with a left inverse (`semV_mapAttr`).
-/
namespace HgVerif.BodyKey
open HgVerif.Intern HgVerif.InternKey

section A
variable {Λ δ α β : Type} [DecidableEq Λ] [DecidableEq δ] [DecidableEq α] [DecidableEq β]

def mapKey (g : α → β) (k : Key δ α) : Key δ β := (k.1, k.2.map fun q => (q.1, g q.2))

def mapTbl (g : α → β) (t : List (Key δ α × Nat)) : List (Key δ β × Nat) := t.map fun e => (mapKey g e.1, e.2)

/-- every attribute in the keys of a table satisfies `A` -/
def TblIn (A : α → Prop) (t : List (Key δ α × Nat)) : Prop := ∀ e ∈ t, ∀ q ∈ e.1.2, A q.2

omit [DecidableEq Λ] [DecidableEq δ] [DecidableEq α] [DecidableEq β] in
theorem map_attr_inj (g : α → β) (A : α → Prop) (hg : ∀ a b, A a → A b → g a = g b → a = b)
    (r r' : List (Nat × α)) (hr : ∀ q ∈ r, A q.2) (hr' : ∀ q ∈ r', A q.2)
    (h : (r.map fun q => (q.1, g q.2)) = (r'.map fun q => (q.1, g q.2))) : r = r' := by
  induction r generalizing r' with
  | nil => cases r' with
    | nil => rfl
    | cons q' s' => simp at h
  | cons q s ih =>
    cases r' with
    | nil => simp at h
    | cons q' s' =>
      simp only [List.map_cons, List.cons.injEq, Prod.mk.injEq] at h
      obtain ⟨⟨h1, h2⟩, h3⟩ := h
      have e2 : q.2 = q'.2 := hg _ _ (hr q (by simp)) (hr' q' (by simp)) h2
      have e : q = q' := Prod.ext h1 e2
      rw [e, ih s' (fun x hx => hr x (by simp [hx])) (fun x hx => hr' x (by simp [hx])) h3]

omit [DecidableEq Λ] [DecidableEq δ] [DecidableEq α] [DecidableEq β] in
theorem mapKey_inj (g : α → β) (A : α → Prop) (hg : ∀ a b, A a → A b → g a = g b → a = b)
    (k k' : Key δ α) (hk : ∀ q ∈ k.2, A q.2) (hk' : ∀ q ∈ k'.2, A q.2) (h : mapKey g k = mapKey g k') : k = k' := by
  obtain ⟨f, r⟩ := k
  obtain ⟨f', r'⟩ := k'
  simp only [mapKey, Prod.mk.injEq] at h
  obtain ⟨h1, h2⟩ := h
  rw [h1, map_attr_inj g A hg r r' hk hk' h2]

omit [DecidableEq Λ] in
theorem lookup_mapTbl (g : α → β) (A : α → Prop) (hg : ∀ a b, A a → A b → g a = g b → a = b)
    (t : List (Key δ α × Nat)) (ht : TblIn A t) (k : Key δ α) (hk : ∀ q ∈ k.2, A q.2) :
    lookup (mapTbl g t) (mapKey g k) = lookup t k := by
  induction t with
  | nil => rfl
  | cons e rest ih =>
    obtain ⟨k0, v0⟩ := e
    have hrest : TblIn A rest := fun x hx => ht x (by simp [hx])
    have hk0 : ∀ q ∈ k0.2, A q.2 := ht (k0, v0) (by simp)
    show lookup ((mapKey g k0, v0) :: mapTbl g rest) (mapKey g k) = lookup ((k0, v0) :: rest) k
    rw [lookup_cons, lookup_cons, ih hrest]
    by_cases e : k0 = k
    · simp [e]
    · have : ¬ mapKey g k0 = mapKey g k := fun h => e (mapKey_inj g A hg k0 k hk0 hk h)
      simp [e, this]

/-- the two interning states hold the same nodes, the keys of the second are the keys of the first seen through `g` -/
structure Rel (g : α → β) (s : LSt Λ δ α) (s' : LSt Λ δ β) : Prop where
  env : s'.env = s.env
  next : s'.st.next = s.st.next
  tbl : s'.st.tbl = mapTbl g s.st.tbl

omit [DecidableEq δ] [DecidableEq α] [DecidableEq β] in
theorem resolve_mapAttr (g : α → β) (env : List (Λ × Nat)) (d : LDecl Λ δ α) :
    resolve env (mapAttr g d).ins = (resolve env d.ins).map fun q => (q.1, g q.2) := by
  simp [resolve, mapAttr, List.map_map, Function.comp_def]

omit [DecidableEq δ] [DecidableEq α] in
theorem resolve_attrs (A : α → Prop) (env : List (Λ × Nat)) (ins : List (Λ × α)) (h : ∀ p ∈ ins, A p.2) :
    ∀ q ∈ resolve env ins, A q.2 := by
  intro q hq
  simp only [resolve, List.mem_map] at hq
  obtain ⟨p, hp, rfl⟩ := hq
  exact h p hp

theorem step_sink (s : LSt Λ δ α) (d : LDecl Λ δ α) (h : d.sink = true) :
    step s d = ({ st := { s.st with next := s.st.next + 1 }, env := s.env }, s.st.next) := by
  simp [step, addNode, h]

theorem step_hit (s : LSt Λ δ α) (d : LDecl Λ δ α) (h : d.sink = false) (id : Nat)
    (hl : lookup s.st.tbl (d.defn, resolve s.env d.ins) = some id) :
    step s d = ({ st := s.st, env := (d.lbl, id) :: s.env }, id) := by
  simp [step, addNode, h, hl]

theorem step_miss (s : LSt Λ δ α) (d : LDecl Λ δ α) (h : d.sink = false)
    (hl : lookup s.st.tbl (d.defn, resolve s.env d.ins) = none) :
    step s d = ({ st := { tbl := ((d.defn, resolve s.env d.ins), s.st.next) :: s.st.tbl, next := s.st.next + 1 },
                  env := (d.lbl, s.st.next) :: s.env }, s.st.next) := by
  simp [step, addNode, h, hl]

theorem rel_step (g : α → β) (A : α → Prop) (hg : ∀ a b, A a → A b → g a = g b → a = b)
    {s : LSt Λ δ α} {s' : LSt Λ δ β} (hR : Rel g s s') (hT : TblIn A s.st.tbl) (d : LDecl Λ δ α)
    (hd : ∀ p ∈ d.ins, A p.2) :
    Rel g (step s d).1 (step s' (mapAttr g d)).1 ∧ (step s' (mapAttr g d)).2 = (step s d).2 ∧
      TblIn A (step s d).1.st.tbl := by
  have hk : ∀ q ∈ (resolve s.env d.ins), A q.2 := resolve_attrs A s.env d.ins hd
  have hkey : ((mapAttr g d).defn, resolve s'.env (mapAttr g d).ins) = mapKey g (d.defn, resolve s.env d.ins) := by
    rw [hR.env, resolve_mapAttr]; rfl
  have hlbl : (mapAttr g d).lbl = d.lbl := rfl
  cases hs : d.sink with
  | true =>
    have hs' : (mapAttr g d).sink = true := hs
    rw [step_sink s d hs, step_sink s' _ hs']
    exact ⟨⟨hR.env, by simp [hR.next], hR.tbl⟩, hR.next, hT⟩
  | false =>
    have hs' : (mapAttr g d).sink = false := hs
    have hl : lookup s'.st.tbl ((mapAttr g d).defn, resolve s'.env (mapAttr g d).ins) =
        lookup s.st.tbl (d.defn, resolve s.env d.ins) := by
      rw [hkey, hR.tbl]; exact lookup_mapTbl g A hg _ hT _ hk
    cases hl2 : lookup s.st.tbl (d.defn, resolve s.env d.ins) with
    | some id =>
      rw [hl2] at hl
      rw [step_hit s d hs id hl2, step_hit s' _ hs' id hl]
      exact ⟨⟨by simp [hR.env, hlbl], hR.next, hR.tbl⟩, rfl, hT⟩
    | none =>
      rw [hl2] at hl
      rw [step_miss s d hs hl2, step_miss s' _ hs' hl]
      refine ⟨⟨by simp [hR.env, hR.next, hlbl], by simp [hR.next], ?_⟩, hR.next, ?_⟩
      · show (((mapAttr g d).defn, resolve s'.env (mapAttr g d).ins), s'.st.next) :: s'.st.tbl = _
        rw [hkey, hR.next, hR.tbl]; rfl
      · intro e he
        simp only [List.mem_cons] at he
        rcases he with he | he
        · subst he; exact hk
        · exact hT e he

/-- **same statements, attributes through an injective map: same nodes** -/
theorem rel_wireL (g : α → β) (A : α → Prop) (hg : ∀ a b, A a → A b → g a = g b → a = b)
    {s : LSt Λ δ α} {s' : LSt Λ δ β} (hR : Rel g s s') (hT : TblIn A s.st.tbl) (ds : List (LDecl Λ δ α))
    (hd : ∀ d ∈ ds, ∀ p ∈ d.ins, A p.2) : Rel g (wireL s ds) (wireL s' (ds.map (mapAttr g))) := by
  induction ds generalizing s s' with
  | nil => exact hR
  | cons d rest ih =>
    obtain ⟨h1, _, h3⟩ := rel_step g A hg hR hT d (hd d (by simp))
    exact ih h1 h3 (fun x hx => hd x (by simp [hx]))

omit [DecidableEq Λ] [DecidableEq δ] [DecidableEq α] [DecidableEq β] in
theorem rel_init (g : α → β) : Rel g ({} : LSt Λ δ α) ({} : LSt Λ δ β) := ⟨rfl, rfl, rfl⟩

end A

section B
variable {Λ δ α σ : Type} [DecidableEq Λ] [DecidableEq δ] [DecidableEq α]

def ValidV (vals : List (Nat × σ)) (rins : List (Nat × α)) : Prop := ∀ q ∈ rins, ∃ v, get vals q.1 = some v

/-- the link between the built nodes, what they compute (`s.vals`) and the order-free values of the labels (`sv`) -/
structure KV (alg : δ → List (σ × α) → σ) (dflt : σ) (s : VSt Λ δ α σ) (sv : List (Λ × σ)) : Prop where
  bound : ∀ i v, get s.vals i = some v → i < s.ls.st.next
  labels : sv.map Prod.fst = s.ls.env.map Prod.fst
  link : ∀ a i, get s.ls.env a = some i → ∃ v, get s.vals i = some v ∧ get sv a = some v
  sound : ∀ f rins id, lookup s.ls.st.tbl (f, rins) = some id →
    ValidV s.vals rins ∧ get s.vals id = some (nodeVal alg dflt s.vals f rins)
  obsIns : ∀ e ∈ s.obs, ∀ p ∈ e.1.ins, p.1 ∈ sv.map Prod.fst
  obs : ∀ e ∈ s.obs, e.2 = valOf alg dflt sv e.1

theorem kv_init (alg : δ → List (σ × α) → σ) (dflt : σ) : KV alg dflt ({} : VSt Λ δ α σ) [] :=
  ⟨by intro i v h; simp [InternKey.get] at h, rfl, by intro a i h; simp [InternKey.get] at h,
   by intro f r id h; simp [lookup] at h, by intro e he; simp at he, by intro e he; simp at he⟩

omit [DecidableEq δ] [DecidableEq α] in
/-- the values of the input labels of a statement are the values of the nodes the labels resolve to -/
theorem link_vals {env : List (Λ × Nat)} {sv : List (Λ × σ)} {vals : List (Nat × σ)}
    (hlink : ∀ a i, get env a = some i → ∃ v, get vals i = some v ∧ get sv a = some v) (dflt : σ)
    (ins : List (Λ × α)) (hadm : ∀ p ∈ ins, ∃ i, get env p.1 = some i) :
    valIns sv dflt ins = (resolve env ins).map (fun q => ((get vals q.1).getD dflt, q.2)) ∧
      ValidV vals (resolve env ins) := by
  induction ins with
  | nil => exact ⟨rfl, by intro q hq; simp [resolve] at hq⟩
  | cons p rest ih =>
    obtain ⟨i, hi⟩ := hadm p (by simp)
    obtain ⟨v, hv, hsv⟩ := hlink _ _ hi
    obtain ⟨ih1, ih2⟩ := ih (fun x hx => hadm x (by simp [hx]))
    constructor
    · simp only [valIns, resolve, List.map_cons, List.cons.injEq, Prod.mk.injEq, and_true, List.map_map] at ih1 ⊢
      refine ⟨?_, ?_⟩
      · rw [hsv, hi]; simp [hv]
      · simpa [Function.comp_def] using ih1
    · intro q hq
      simp only [resolve, List.map_cons, List.mem_cons] at hq
      rcases hq with hq | hq
      · subst hq; simp only [hi, Option.getD_some]; exact ⟨v, hv⟩
      · exact ih2 q (by simpa [resolve] using hq)

omit [DecidableEq Λ] [DecidableEq δ] [DecidableEq α] in
theorem nodeVal_stable (alg : δ → List (σ × α) → σ) (dflt : σ) (vals : List (Nat × σ)) (n : Nat) (v : σ)
    (hn : get vals n = none) (f : δ) (r : List (Nat × α)) (hv : ValidV vals r) :
    nodeVal alg dflt ((n, v) :: vals) f r = nodeVal alg dflt vals f r := by
  unfold nodeVal
  congr 1
  apply List.map_congr_left
  intro q hq
  obtain ⟨vq, hvq⟩ := hv q hq
  have hne : ¬ n = q.1 := by intro e; rw [← e, hn] at hvq; cases hvq
  rw [get_cons]; simp [hne]

omit [DecidableEq Λ] [DecidableEq δ] [DecidableEq α] in
theorem validV_stable (vals : List (Nat × σ)) (n : Nat) (v : σ) (r : List (Nat × α)) (hv : ValidV vals r) :
    ValidV ((n, v) :: vals) r := by
  intro q hq
  obtain ⟨vq, hvq⟩ := hv q hq
  rw [get_cons]
  by_cases e : n = q.1
  · exact ⟨v, by simp [e]⟩
  · exact ⟨vq, by simp [e, hvq]⟩

omit [DecidableEq δ] [DecidableEq α] in
/-- a new label that is not an input of `d` does not change what `d` reads -/
theorem valOf_cons (alg : δ → List (σ × α) → σ) (dflt : σ) (sv : List (Λ × σ)) (l : Λ) (v : σ) (d : LDecl Λ δ α)
    (h : ∀ p ∈ d.ins, p.1 ≠ l) : valOf alg dflt ((l, v) :: sv) d = valOf alg dflt sv d := by
  unfold valOf valIns
  congr 1
  apply List.map_congr_left
  intro p hp
  have : ¬ l = p.1 := fun e => h p hp e.symm
  rw [get_cons]; simp [this]

theorem stepV_sink (alg : δ → List (σ × α) → σ) (dflt : σ) (s : VSt Λ δ α σ) (d : LDecl Λ δ α) (h : d.sink = true) :
    stepV alg dflt s d = ⟨(step s.ls d).1, s.vals, s.obs ++ [(d, nodeVal alg dflt s.vals d.defn (resolve s.ls.env d.ins))]⟩ := by
  simp [stepV, h]

theorem stepV_hit (alg : δ → List (σ × α) → σ) (dflt : σ) (s : VSt Λ δ α σ) (d : LDecl Λ δ α) (h : d.sink = false)
    (id : Nat) (hl : lookup s.ls.st.tbl (d.defn, resolve s.ls.env d.ins) = some id) :
    stepV alg dflt s d = ⟨(step s.ls d).1, s.vals, s.obs ++ [(d, (get s.vals id).getD dflt)]⟩ := by
  simp [stepV, h, hl, step_hit s.ls d h id hl]

theorem stepV_miss (alg : δ → List (σ × α) → σ) (dflt : σ) (s : VSt Λ δ α σ) (d : LDecl Λ δ α) (h : d.sink = false)
    (hl : lookup s.ls.st.tbl (d.defn, resolve s.ls.env d.ins) = none) :
    stepV alg dflt s d = ⟨(step s.ls d).1, (s.ls.st.next, nodeVal alg dflt s.vals d.defn (resolve s.ls.env d.ins)) :: s.vals,
      s.obs ++ [(d, nodeVal alg dflt s.vals d.defn (resolve s.ls.env d.ins))]⟩ := by
  simp [stepV, h, hl, step_miss s.ls d h hl, get_cons]

/-- one statement keeps the link -/
theorem kv_step (alg : δ → List (σ × α) → σ) (dflt : σ) {s : VSt Λ δ α σ} {sv : List (Λ × σ)} (h : KV alg dflt s sv)
    (d : LDecl Λ δ α) (hadm : ∀ p ∈ d.ins, p.1 ∈ s.ls.env.map Prod.fst)
    (hnew : d.sink = false → d.lbl ∉ s.ls.env.map Prod.fst) :
    KV alg dflt (stepV alg dflt s d) (semVStep alg dflt sv d) := by
  obtain ⟨hli, hval⟩ := link_vals h.link dflt d.ins (fun p hp => get_of_mem _ _ (hadm p hp))
  have hv : nodeVal alg dflt s.vals d.defn (resolve s.ls.env d.ins) = valOf alg dflt sv d := by
    unfold nodeVal valOf; rw [hli]
  have hinsv : ∀ p ∈ d.ins, p.1 ∈ sv.map Prod.fst := by rw [h.labels]; exact hadm
  cases hd : d.sink with
  | true =>
    rw [stepV_sink alg dflt s d hd, step_sink s.ls d hd]
    have e4 : semVStep alg dflt sv d = sv := by simp [semVStep, hd]
    rw [e4]
    refine ⟨?_, h.labels, h.link, h.sound, ?_, ?_⟩
    · intro i v hi; exact Nat.lt_succ_of_lt (h.bound i v hi)
    · intro e he p hp
      simp only [List.mem_append, List.mem_singleton] at he
      rcases he with he | he
      · exact h.obsIns e he p hp
      · subst he; exact hinsv p hp
    · intro e he
      simp only [List.mem_append, List.mem_singleton] at he
      rcases he with he | he
      · exact h.obs e he
      · subst he; exact hv
  | false =>
    have hfresh : d.lbl ∉ sv.map Prod.fst := by rw [h.labels]; exact hnew hd
    have e4 : semVStep alg dflt sv d = (d.lbl, valOf alg dflt sv d) :: sv := by simp [semVStep, hd]
    have hne : ∀ (e : LDecl Λ δ α), (∀ p ∈ e.ins, p.1 ∈ sv.map Prod.fst) → ∀ p ∈ e.ins, p.1 ≠ d.lbl := by
      intro e he p hp hpe; exact hfresh (hpe ▸ he p hp)
    have hobsIns : ∀ e ∈ s.obs ++ [(d, valOf alg dflt sv d)], ∀ p ∈ e.1.ins, p.1 ∈ ((d.lbl, valOf alg dflt sv d) :: sv).map Prod.fst := by
      intro e he p hp
      simp only [List.mem_append, List.mem_singleton] at he
      simp only [List.map_cons, List.mem_cons]
      rcases he with he | he
      · exact Or.inr (h.obsIns e he p hp)
      · subst he; exact Or.inr (hinsv p hp)
    have hobs : ∀ e ∈ s.obs ++ [(d, valOf alg dflt sv d)], e.2 = valOf alg dflt ((d.lbl, valOf alg dflt sv d) :: sv) e.1 := by
      intro e he
      simp only [List.mem_append, List.mem_singleton] at he
      rcases he with he | he
      · rw [valOf_cons alg dflt sv _ _ e.1 (hne e.1 (h.obsIns e he))]; exact h.obs e he
      · subst he; rw [valOf_cons alg dflt sv _ _ d (hne d hinsv)]
    cases hl : lookup s.ls.st.tbl (d.defn, resolve s.ls.env d.ins) with
    | some id =>
      obtain ⟨_, hTid⟩ := h.sound _ _ _ hl
      rw [hv] at hTid
      rw [stepV_hit alg dflt s d hd id hl, step_hit s.ls d hd id hl, e4]
      have hobsv : (get s.vals id).getD dflt = valOf alg dflt sv d := by rw [hTid]; rfl
      rw [hobsv]
      refine ⟨h.bound, ?_, ?_, h.sound, hobsIns, hobs⟩
      · simp [h.labels]
      · intro a i hi
        rw [get_cons] at hi
        rw [get_cons]
        by_cases e : d.lbl = a
        · simp only [e, ↓reduceIte, Option.some.injEq] at hi ⊢
          subst hi; exact ⟨_, hTid, rfl⟩
        · simp only [e, ↓reduceIte] at hi ⊢
          exact h.link a i hi
    | none =>
      have hn : get s.vals s.ls.st.next = none := by
        cases hg : get s.vals s.ls.st.next with
        | none => rfl
        | some t => exact absurd (h.bound _ _ hg) (Nat.lt_irrefl _)
      rw [stepV_miss alg dflt s d hd hl, step_miss s.ls d hd hl, e4, hv]
      refine ⟨?_, ?_, ?_, ?_, hobsIns, hobs⟩
      · intro i v hi
        rw [get_cons] at hi
        by_cases e : s.ls.st.next = i
        · show i < s.ls.st.next + 1
          omega
        · simp only [e, ↓reduceIte] at hi
          exact Nat.lt_succ_of_lt (h.bound i v hi)
      · simp [h.labels]
      · intro a i hi
        rw [get_cons] at hi
        rw [get_cons d.lbl _ sv a]
        by_cases e : d.lbl = a
        · rw [if_pos e] at hi; rw [if_pos e]
          injection hi with hi
          exact ⟨_, by rw [get_cons, if_pos hi], rfl⟩
        · rw [if_neg e] at hi; rw [if_neg e]
          obtain ⟨v, hv', hsv⟩ := h.link a i hi
          have hne' : ¬ s.ls.st.next = i := by
            intro e'; have := h.bound i v hv'; omega
          exact ⟨v, by rw [get_cons, if_neg hne']; exact hv', hsv⟩
      · intro f r id hk
        rw [lookup_cons] at hk
        by_cases e : (d.defn, resolve s.ls.env d.ins) = (f, r)
        · simp only [e, ↓reduceIte, Option.some.injEq] at hk
          subst hk
          injection e with ef er
          subst ef; subst er
          refine ⟨validV_stable _ _ _ _ hval, ?_⟩
          rw [nodeVal_stable alg dflt _ _ _ hn _ _ hval, get_cons, hv]
          simp
        · simp only [e, ↓reduceIte] at hk
          obtain ⟨hvr, hTv⟩ := h.sound f r id hk
          refine ⟨validV_stable _ _ _ _ hvr, ?_⟩
          rw [nodeVal_stable alg dflt _ _ _ hn _ _ hvr, get_cons]
          have hne' : ¬ s.ls.st.next = id := by
            intro e'; have := h.bound id _ hTv; omega
          simp [hne', hTv]

theorem wireV_ls (alg : δ → List (σ × α) → σ) (dflt : σ) (s : VSt Λ δ α σ) (ds : List (LDecl Λ δ α)) :
    (wireV alg dflt s ds).ls = wireL s.ls ds := by
  induction ds generalizing s with
  | nil => rfl
  | cons d rest ih =>
    show (wireV alg dflt (stepV alg dflt s d) rest).ls = wireL (step s.ls d).1 rest
    rw [ih]; rfl

theorem kv_wireV (alg : δ → List (σ × α) → σ) (dflt : σ) {s : VSt Λ δ α σ} {sv : List (Λ × σ)} (h : KV alg dflt s sv)
    (ds : List (LDecl Λ δ α)) (hadm : AdmU (s.ls.env.map Prod.fst) ds) :
    KV alg dflt (wireV alg dflt s ds) (semV alg dflt sv ds) := by
  induction ds generalizing s sv with
  | nil => exact h
  | cons d rest ih =>
    obtain ⟨h1, h2, h3⟩ := hadm
    have hK := kv_step alg dflt h d h1 h2
    apply ih hK
    have : (stepV alg dflt s d).ls = (step s.ls d).1 := rfl
    rw [this, env_labels_step]
    exact h3

end B

section C
variable {Λ δ α σ : Type} [DecidableEq Λ]

theorem valOf_congr (alg : δ → List (σ × α) → σ) (dflt : σ) (sv1 sv2 : List (Λ × σ)) (d : LDecl Λ δ α)
    (h : ∀ p ∈ d.ins, get sv1 p.1 = get sv2 p.1) : valOf alg dflt sv1 d = valOf alg dflt sv2 d := by
  unfold valOf valIns
  congr 1
  apply List.map_congr_left
  intro p hp
  rw [h p hp]

theorem labels_semVStep (alg : δ → List (σ × α) → σ) (dflt : σ) (sv : List (Λ × σ)) (d : LDecl Λ δ α) :
    (semVStep alg dflt sv d).map Prod.fst = if d.sink then sv.map Prod.fst else d.lbl :: sv.map Prod.fst := by
  unfold semVStep
  cases d.sink <;> simp

theorem semV_preserves (alg : δ → List (σ × α) → σ) (dflt : σ) (sv : List (Λ × σ)) (ds : List (LDecl Λ δ α))
    (h : AdmU (sv.map Prod.fst) ds) (l : Λ) (hl : l ∈ sv.map Prod.fst) : get (semV alg dflt sv ds) l = get sv l := by
  induction ds generalizing sv with
  | nil => rfl
  | cons d rest ih =>
    obtain ⟨_, h2, h3⟩ := h
    have hA : AdmU ((semVStep alg dflt sv d).map Prod.fst) rest := by rw [labels_semVStep]; exact h3
    have hl' : l ∈ (semVStep alg dflt sv d).map Prod.fst := by
      rw [labels_semVStep]; cases d.sink <;> simp [hl]
    show get (semV alg dflt (semVStep alg dflt sv d) rest) l = get sv l
    rw [ih _ hA hl']
    unfold semVStep
    cases hd : d.sink with
    | true => simp
    | false =>
      simp only [Bool.false_eq_true, ↓reduceIte]
      rw [get_cons]
      have : ¬ d.lbl = l := by intro e; exact h2 hd (e ▸ hl)
      simp [this]

/-- the order-free values satisfy `value(lbl) = alg defn (values of the inputs)`, also for the inputs of a sink -/
theorem semV_equations (alg : δ → List (σ × α) → σ) (dflt : σ) (sv : List (Λ × σ)) (ds : List (LDecl Λ δ α))
    (h : AdmU (sv.map Prod.fst) ds) (d : LDecl Λ δ α) (hd : d ∈ ds) (hs : d.sink = false) :
    get (semV alg dflt sv ds) d.lbl = some (valOf alg dflt (semV alg dflt sv ds) d) := by
  induction ds generalizing sv with
  | nil => cases hd
  | cons d0 rest ih =>
    obtain ⟨h1, h2, h3⟩ := h
    have hA : AdmU ((semVStep alg dflt sv d0).map Prod.fst) rest := by rw [labels_semVStep]; exact h3
    rcases List.mem_cons.1 hd with e | hmem
    · subst e
      show get (semV alg dflt (semVStep alg dflt sv d) rest) d.lbl = some (valOf alg dflt (semV alg dflt (semVStep alg dflt sv d) rest) d)
      have hin : d.lbl ∈ (semVStep alg dflt sv d).map Prod.fst := by rw [labels_semVStep]; simp [hs]
      rw [semV_preserves alg dflt _ rest hA _ hin]
      have hstep : semVStep alg dflt sv d = (d.lbl, valOf alg dflt sv d) :: sv := by simp [semVStep, hs]
      have e1 : get (semVStep alg dflt sv d) d.lbl = some (valOf alg dflt sv d) := by rw [hstep, get_cons]; simp
      rw [e1]
      congr 1
      apply valOf_congr
      intro p hp
      have hpL : p.1 ∈ sv.map Prod.fst := h1 p hp
      have hpL' : p.1 ∈ (semVStep alg dflt sv d).map Prod.fst := by rw [labels_semVStep]; simp [hs, hpL]
      rw [semV_preserves alg dflt _ rest hA _ hpL', hstep, get_cons]
      have : ¬ d.lbl = p.1 := by intro e; exact h2 hs (e ▸ hpL)
      simp [this]
    · exact ih _ hA hmem

/-- what a declaration (value node or sink) reads is fixed once it is wired: later statements do not change it -/
theorem valOf_final (alg : δ → List (σ × α) → σ) (dflt : σ) (sv : List (Λ × σ)) (ds : List (LDecl Λ δ α))
    (h : AdmU (sv.map Prod.fst) ds) (d : LDecl Λ δ α) (hd : ∀ p ∈ d.ins, p.1 ∈ sv.map Prod.fst) :
    valOf alg dflt (semV alg dflt sv ds) d = valOf alg dflt sv d := by
  apply valOf_congr
  intro p hp
  exact semV_preserves alg dflt sv ds h p.1 (hd p hp)

theorem equationsV_unique (alg : δ → List (σ × α) → σ) (dflt : σ) (L : List Λ) (ds : List (LDecl Λ δ α)) (h : AdmU L ds)
    (sv1 sv2 : List (Λ × σ)) (hL : ∀ l ∈ L, get sv1 l = get sv2 l)
    (h1 : ∀ d ∈ ds, d.sink = false → get sv1 d.lbl = some (valOf alg dflt sv1 d))
    (h2 : ∀ d ∈ ds, d.sink = false → get sv2 d.lbl = some (valOf alg dflt sv2 d))
    (d : LDecl Λ δ α) (hd : d ∈ ds) :
    (d.sink = false → get sv1 d.lbl = get sv2 d.lbl) ∧ valOf alg dflt sv1 d = valOf alg dflt sv2 d := by
  induction ds generalizing L with
  | nil => cases hd
  | cons d0 rest ih =>
    obtain ⟨a1, _, a3⟩ := h
    have hv0 : valOf alg dflt sv1 d0 = valOf alg dflt sv2 d0 := valOf_congr alg dflt sv1 sv2 d0 (fun p hp => hL p.1 (a1 p hp))
    have h0 : d0.sink = false → get sv1 d0.lbl = get sv2 d0.lbl := by
      intro hs0
      rw [h1 d0 (by simp) hs0, h2 d0 (by simp) hs0, hv0]
    rcases List.mem_cons.1 hd with e | hmem
    · subst e; exact ⟨h0, hv0⟩
    · refine ih _ a3 ?_ (fun x hx => h1 x (by simp [hx])) (fun x hx => h2 x (by simp [hx])) hmem
      intro l hl
      cases hs0 : d0.sink with
      | true => rw [hs0] at hl; exact hL l (by simpa using hl)
      | false =>
        rw [hs0] at hl
        simp only [Bool.false_eq_true, ↓reduceIte, List.mem_cons] at hl
        rcases hl with e | hl
        · rw [e]; exact h0 hs0
        · exact hL l hl

/-- **values are order-free**: two admissible statement orders of the same declarations give every value declaration
    the same value and let every declaration (in particular every sink) read the same input values -/
theorem semV_order_irrelevant (alg : δ → List (σ × α) → σ) (dflt : σ) (ds ds' : List (LDecl Λ δ α)) (h : AdmU [] ds)
    (h' : AdmU [] ds') (hmem : ∀ d, d ∈ ds ↔ d ∈ ds') (d : LDecl Λ δ α) (hd : d ∈ ds) :
    (d.sink = false → get (semV alg dflt [] ds) d.lbl = get (semV alg dflt [] ds') d.lbl) ∧
      valOf alg dflt (semV alg dflt [] ds) d = valOf alg dflt (semV alg dflt [] ds') d := by
  apply equationsV_unique alg dflt [] ds h _ _ (by intro l hl; cases hl) _ _ d hd
  · intro x hx hxs; exact semV_equations alg dflt [] ds (by simpa using h) x hx hxs
  · intro x hx hxs; exact semV_equations alg dflt [] ds' (by simpa using h') x ((hmem x).1 hx) hxs

end C

section D
variable {Λ δ α β σ : Type} [DecidableEq Λ]

/-- the order-free values of the statements seen through `g`, read with an algebra `alg'` that undoes `g` -/
theorem semV_mapAttr (alg : δ → List (σ × α) → σ) (alg' : δ → List (σ × β) → σ) (g : α → β) (A : α → Prop)
    (hg : ∀ f (ins : List (σ × α)), (∀ q ∈ ins, A q.2) → alg' f (ins.map fun q => (q.1, g q.2)) = alg f ins)
    (dflt : σ) (sv : List (Λ × σ)) (ds : List (LDecl Λ δ α)) (hA : ∀ d ∈ ds, ∀ p ∈ d.ins, A p.2) :
    semV alg' dflt sv (ds.map (mapAttr g)) = semV alg dflt sv ds := by
  induction ds generalizing sv with
  | nil => rfl
  | cons d rest ih =>
    have hv : valOf alg' dflt sv (mapAttr g d) = valOf alg dflt sv d := by
      unfold valOf
      have : valIns sv dflt (mapAttr g d).ins = (valIns sv dflt d.ins).map fun q => (q.1, g q.2) := by
        simp [valIns, mapAttr, List.map_map, Function.comp_def]
      rw [this]
      apply hg
      intro q hq
      simp only [valIns, List.mem_map] at hq
      obtain ⟨p, hp, rfl⟩ := hq
      exact hA d (by simp) p hp
    have hstep : semVStep alg' dflt sv (mapAttr g d) = semVStep alg dflt sv d := by
      unfold semVStep
      rw [hv]; rfl
    show semV alg' dflt (semVStep alg' dflt sv (mapAttr g d)) (rest.map (mapAttr g)) = semV alg dflt (semVStep alg dflt sv d) rest
    rw [hstep]
    exact ih _ (fun x hx => hA x (by simp [hx]))

end D

end HgVerif.BodyKey
