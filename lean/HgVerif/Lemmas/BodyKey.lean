import HgVerif.Model.BodyKey
import HgVerif.Props.C06KeyOrder
/-!
Helper lemmas for `Props/C06BodyKey.lean`, all on the generic statement machinery of `Model/InternKey.lean`:

* A. wiring the same statements with every input attribute seen through a map `g` that is injective on the attributes
     that occur gives every label the same node (`rel_wireL`): the keys that are compared are in bijection.
* B. every created node computes, from the nodes it is wired to, exactly the order-free value of every label bound to it,
     and every sink sees the order-free value of its inputs (`kv_wireV`).
* C. the order-free values do not depend on the statement order (`semV_order_irrelevant`, the `σ`-valued copy of
     `semL_order_irrelevant`).
* D. the order-free values through an attribute map with a left inverse (`semV_mapAttr`).
-/
namespace HgVerif.BodyKey
open HgVerif.Intern HgVerif.InternKey

section A
variable {Λ δ α β : Type} [DecidableEq Λ] [DecidableEq δ] [DecidableEq α] [DecidableEq β]

def mapKey (g : α → β) (k : Key δ α) : Key δ β := (k.1, k.2.map fun q => (q.1, g q.2))

def mapTbl (g : α → β) (t : List (Key δ α × Nat)) : List (Key δ β × Nat) := t.map fun e => (mapKey g e.1, e.2)

/-- every attribute in the keys of a table satisfies `A` -/
def TblIn (A : α → Prop) (t : List (Key δ α × Nat)) : Prop := ∀ e ∈ t, ∀ q ∈ e.1.2, A q.2

omit [DecidableEq Λ] [DecidableEq δ] [DecidableEq α] [DecidableEq β] in
theorem map_attr_inj (g : α → β) (A : α → Prop) (hg : ∀ a b, A a → A b → g a = g b → a = b)
    (r r' : List (Nat × α)) (hr : ∀ q ∈ r, A q.2) (hr' : ∀ q ∈ r', A q.2)
    (h : (r.map fun q => (q.1, g q.2)) = (r'.map fun q => (q.1, g q.2))) : r = r' := by
  induction r generalizing r' with
  | nil => cases r' with
    | nil => rfl
    | cons q' s' => simp at h
  | cons q s ih =>
    cases r' with
    | nil => simp at h
    | cons q' s' =>
      simp only [List.map_cons, List.cons.injEq, Prod.mk.injEq] at h
      obtain ⟨⟨h1, h2⟩, h3⟩ := h
      have e2 : q.2 = q'.2 := hg _ _ (hr q (by simp)) (hr' q' (by simp)) h2
      have e : q = q' := Prod.ext h1 e2
      rw [e, ih s' (fun x hx => hr x (by simp [hx])) (fun x hx => hr' x (by simp [hx])) h3]

omit [DecidableEq Λ] [DecidableEq δ] [DecidableEq α] [DecidableEq β] in
theorem mapKey_inj (g : α → β) (A : α → Prop) (hg : ∀ a b, A a → A b → g a = g b → a = b)
    (k k' : Key δ α) (hk : ∀ q ∈ k.2, A q.2) (hk' : ∀ q ∈ k'.2, A q.2) (h : mapKey g k = mapKey g k') : k = k' := by
  obtain ⟨f, r⟩ := k
  obtain ⟨f', r'⟩ := k'
  simp only [mapKey, Prod.mk.injEq] at h
  obtain ⟨h1, h2⟩ := h
  rw [h1, map_attr_inj g A hg r r' hk hk' h2]

omit [DecidableEq Λ] in
theorem lookup_mapTbl (g : α → β) (A : α → Prop) (hg : ∀ a b, A a → A b → g a = g b → a = b)
    (t : List (Key δ α × Nat)) (ht : TblIn A t) (k : Key δ α) (hk : ∀ q ∈ k.2, A q.2) :
    lookup (mapTbl g t) (mapKey g k) = lookup t k := by
  induction t with
  | nil => rfl
  | cons e rest ih =>
    obtain ⟨k0, v0⟩ := e
    have hrest : TblIn A rest := fun x hx => ht x (by simp [hx])
    have hk0 : ∀ q ∈ k0.2, A q.2 := ht (k0, v0) (by simp)
    show lookup ((mapKey g k0, v0) :: mapTbl g rest) (mapKey g k) = lookup ((k0, v0) :: rest) k
    rw [lookup_cons, lookup_cons, ih hrest]
    by_cases e : k0 = k
    · simp [e]
    · have : ¬ mapKey g k0 = mapKey g k := fun h => e (mapKey_inj g A hg k0 k hk0 hk h)
      simp [e, this]

/-- the two interning states hold the same nodes, the keys of the second are the keys of the first seen through `g` -/
structure Rel (g : α → β) (s : LSt Λ δ α) (s' : LSt Λ δ β) : Prop where
  env : s'.env = s.env
  next : s'.st.next = s.st.next
  tbl : s'.st.tbl = mapTbl g s.st.tbl

omit [DecidableEq δ] [DecidableEq α] [DecidableEq β] in
theorem resolve_mapAttr (g : α → β) (env : List (Λ × Nat)) (d : LDecl Λ δ α) :
    resolve env (mapAttr g d).ins = (resolve env d.ins).map fun q => (q.1, g q.2) := by
  simp [resolve, mapAttr, List.map_map, Function.comp_def]

omit [DecidableEq δ] [DecidableEq α] in
theorem resolve_attrs (A : α → Prop) (env : List (Λ × Nat)) (ins : List (Λ × α)) (h : ∀ p ∈ ins, A p.2) :
    ∀ q ∈ resolve env ins, A q.2 := by
  intro q hq
  simp only [resolve, List.mem_map] at hq
  obtain ⟨p, hp, rfl⟩ := hq
  exact h p hp

theorem rel_step (g : α → β) (A : α → Prop) (hg : ∀ a b, A a → A b → g a = g b → a = b)
    {s : LSt Λ δ α} {s' : LSt Λ δ β} (hR : Rel g s s') (hT : TblIn A s.st.tbl) (d : LDecl Λ δ α)
    (hd : ∀ p ∈ d.ins, A p.2) :
    Rel g (step s d).1 (step s' (mapAttr g d)).1 ∧ (step s' (mapAttr g d)).2 = (step s d).2 ∧
      TblIn A (step s d).1.st.tbl := by
  have hk : ∀ q ∈ (resolve s.env d.ins), A q.2 := resolve_attrs A s.env d.ins hd
  have hkey : ((mapAttr g d).defn, resolve s'.env (mapAttr g d).ins) = mapKey g (d.defn, resolve s.env d.ins) := by
    rw [hR.env, resolve_mapAttr]; rfl
  have hsink : (mapAttr g d).sink = d.sink := rfl
  have hlbl : (mapAttr g d).lbl = d.lbl := rfl
  cases hs : d.sink with
  | true =>
    refine ⟨⟨?_, ?_, ?_⟩, ?_, ?_⟩
    · simp [step, hsink, hs, hR.env]
    · simp [step, addNode, hsink, hs, hR.next]
    · simp [step, addNode, hsink, hs, hR.tbl]
    · simp [step, addNode, hsink, hs, hR.next]
    · simpa [step, addNode, hs] using hT
  | false =>
    have hl : lookup s'.st.tbl (mapKey g (d.defn, resolve s.env d.ins)) = lookup s.st.tbl (d.defn, resolve s.env d.ins) := by
      rw [hR.tbl]; exact lookup_mapTbl g A hg _ hT _ hk
    cases hl2 : lookup s.st.tbl (d.defn, resolve s.env d.ins) with
    | some id =>
      rw [hl2] at hl
      refine ⟨⟨?_, ?_, ?_⟩, ?_, ?_⟩
      · simp [step, addNode, hsink, hlbl, hs, hkey, hl, hl2, hR.env]
      · simp [step, addNode, hsink, hs, hkey, hl, hl2, hR.next]
      · simp [step, addNode, hsink, hs, hkey, hl, hl2, hR.tbl]
      · simp [step, addNode, hsink, hs, hkey, hl, hl2]
      · simpa [step, addNode, hs, hl2] using hT
    | none =>
      rw [hl2] at hl
      refine ⟨⟨?_, ?_, ?_⟩, ?_, ?_⟩
      · simp [step, addNode, hsink, hlbl, hs, hkey, hl, hl2, hR.env, hR.next]
      · simp [step, addNode, hsink, hs, hkey, hl, hl2, hR.next]
      · simp [step, addNode, hsink, hs, hkey, hl, hl2, hR.tbl, hR.next, mapTbl]
      · simp [step, addNode, hsink, hs, hkey, hl, hl2, hR.next]
      · intro e he
        simp only [step, addNode, hs, hl2, Bool.false_eq_true, ↓reduceIte, List.mem_cons] at he
        rcases he with he | he
        · subst he; exact hk
        · exact hT e he

/-- **same statements, attributes through an injective map: same nodes** -/
theorem rel_wireL (g : α → β) (A : α → Prop) (hg : ∀ a b, A a → A b → g a = g b → a = b)
    {s : LSt Λ δ α} {s' : LSt Λ δ β} (hR : Rel g s s') (hT : TblIn A s.st.tbl) (ds : List (LDecl Λ δ α))
    (hd : ∀ d ∈ ds, ∀ p ∈ d.ins, A p.2) : Rel g (wireL s ds) (wireL s' (ds.map (mapAttr g))) := by
  induction ds generalizing s s' with
  | nil => exact hR
  | cons d rest ih =>
    obtain ⟨h1, _, h3⟩ := rel_step g A hg hR hT d (hd d (by simp))
    exact ih h1 h3 (fun x hx => hd x (by simp [hx]))

omit [DecidableEq Λ] [DecidableEq δ] [DecidableEq α] [DecidableEq β] in
theorem rel_init (g : α → β) : Rel g ({} : LSt Λ δ α) ({} : LSt Λ δ β) := ⟨rfl, rfl, rfl⟩

end A

end HgVerif.BodyKey
