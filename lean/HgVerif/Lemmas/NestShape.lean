import HgVerif.Model.NestShape
/-! Helper lemmas for `Props/C09Shape.lean`: the notification pass, source resolution, and the independence of the
    leaves of one forwarding tree (the only coupling in the code is the `changed` flag). -/
namespace HgVerif.NestShape

/-! ### links -/

@[simp] theorem setLink_same (c : Chain) (k : Nat) (l : Link) : (setLink c k l).links k = l := by
  simp [setLink]

theorem setLink_ne (c : Chain) (k : Nat) (l : Link) (j : Nat) (h : j ≠ k) : (setLink c k l).links j = c.links j := by
  simp [setLink, h]

@[simp] theorem setLink_term (c : Chain) (k : Nat) (l : Link) : (setLink c k l).term = c.term := rfl

theorem recordTime_same (t : Nat) : recordTime t t = t := by simp [recordTime]

theorem recordTime_lt {a t : Nat} (h : a < t) : recordTime a t = t := by simp [recordTime, h]

theorem recordTime_ge {a t : Nat} (h : t ≤ a) : recordTime a t = a := by
  simp [recordTime]; omega

/-! ### the notification pass -/

theorem stepLevel_term (t : Nat) (c0 : Chain) (k : Nat) (c : Chain) : (stepLevel t c0 k c).term = c.term := by
  unfold stepLevel; split <;> simp

theorem stepLevel_ne (t : Nat) (c0 : Chain) (k : Nat) (c : Chain) (j : Nat) (h : j ≠ k) :
    (stepLevel t c0 k c).links j = c.links j := by
  unfold stepLevel; split
  · exact setLink_ne _ _ _ _ h
  · rfl

theorem stepLevel_tgt (t : Nat) (c0 : Chain) (k : Nat) (c : Chain) (j : Nat) :
    ((stepLevel t c0 k c).links j).tgt = (c.links j).tgt := by
  unfold stepLevel; split
  · by_cases h : j = k
    · subst h; simp
    · rw [setLink_ne _ _ _ _ h]
  · rfl

theorem propagate_term (t : Nat) (c0 : Chain) (m : Nat) (c : Chain) : (propagate t c0 m c).term = c.term := by
  induction m with
  | zero => rfl
  | succ m ih => simp [propagate, stepLevel_term, ih]

theorem propagate_ge (t : Nat) (c0 : Chain) (m : Nat) (c : Chain) (j : Nat) (h : m ≤ j) :
    (propagate t c0 m c).links j = c.links j := by
  induction m with
  | zero => rfl
  | succ m ih =>
    simp only [propagate]
    rw [stepLevel_ne _ _ _ _ _ (by omega)]
    exact ih (by omega)

theorem propagate_tgt (t : Nat) (c0 : Chain) (m : Nat) (c : Chain) (j : Nat) :
    ((propagate t c0 m c).links j).tgt = (c.links j).tgt := by
  induction m with
  | zero => rfl
  | succ m ih => simp only [propagate]; rw [stepLevel_tgt, ih]

/-- nothing the links are subscribed to recorded `t`: the pass changes nothing -/
theorem propagate_noFire (t : Nat) (c0 c : Chain) (h : ∀ j, fired t c0 c (c.links j).tgt = false) (m : Nat) :
    propagate t c0 m c = c := by
  induction m with
  | zero => rfl
  | succ m ih =>
    simp only [propagate, ih]
    unfold stepLevel
    simp [h m]

/-- a pass seeded with the chain itself (nothing was recorded) changes nothing -/
theorem propagate_self (t : Nat) (c : Chain) (m : Nat) : propagate t c m c = c := by
  apply propagate_noFire
  intro j
  cases h : (c.links j).tgt <;> simp [fired] <;> omega

theorem stepLevel_same (t : Nat) (c0 : Chain) (k : Nat) (c : Chain) :
    (stepLevel t c0 k c).links k =
      if fired t c0 c (c.links k).tgt = true ∧ (c.links k).lastMod < t then { c.links k with lastMod := t } else c.links k := by
  unfold stepLevel
  by_cases h1 : fired t c0 c (c.links k).tgt = true <;> by_cases h2 : (c.links k).lastMod < t <;> simp [h1, h2]

/-- links that only point at the terminal (or nowhere): each one follows the terminal on its own -/
theorem propagate_flat (t : Nat) (c0 c : Chain) (hflat : ∀ j j', (c.links j).tgt ≠ .ep j') (m j : Nat) :
    (propagate t c0 m c).links j =
      if j < m ∧ (c.links j).tgt = .term ∧ c0.term.lastMod < t ∧ c.term.lastMod = t ∧ (c.links j).lastMod < t
      then { c.links j with lastMod := t } else c.links j := by
  induction m with
  | zero => simp [propagate]
  | succ m ih =>
    simp only [propagate]
    by_cases hj : j = m
    · subst hj
      have hl : (propagate t c0 j c).links j = c.links j := propagate_ge _ _ _ _ _ (Nat.le_refl _)
      have ht : (propagate t c0 j c).term = c.term := propagate_term _ _ _ _
      rw [stepLevel_same, hl]
      cases htg : (c.links j).tgt with
      | none => simp [fired]
      | ep j' => exact absurd htg (hflat j j')
      | term =>
        simp only [fired, ht]
        by_cases h1 : c0.term.lastMod < t <;> by_cases h2 : c.term.lastMod = t <;>
          by_cases h3 : (c.links j).lastMod < t <;> simp [h1, h2, h3, htg]
    · rw [stepLevel_ne _ _ _ _ _ hj, ih]
      by_cases hlt : j < m
      · have : j < m + 1 := by omega
        simp [hlt, this]
      · have : ¬ j < m + 1 := by omega
        simp [hlt, this]

/-! ### source resolution -/

/-- the chain a start leaves behind below level `m`: level 1 points at the terminal, level `j >= 2` at the endpoint
    of level `j-1`; such a chain resolves to the terminal -/
theorem resolveSrc_chained (c : Chain) (m : Nat)
    (h : ∀ j, 1 ≤ j → j ≤ m → (c.links j).tgt = .term ∨ (2 ≤ j ∧ (c.links j).tgt = .ep (j - 1))) :
    ∀ fuel j, 1 ≤ j → j ≤ m → j ≤ fuel → resolveSrc c fuel j = .term := by
  intro fuel
  induction fuel with
  | zero => intro j h1 _ h3; omega
  | succ fuel ih =>
    intro j h1 h2 h3
    simp only [resolveSrc]
    rcases h j h1 h2 with ht | ⟨h4, ht⟩
    · simp [ht]
    · simp only [ht]
      exact ih (j - 1) (by omega) (by omega) (by omega)

theorem resolveSrc_unbound (c : Chain) (fuel j : Nat) (h : (c.links j).tgt = .none) : resolveSrc c fuel j = .ep j := by
  cases fuel with
  | zero => rfl
  | succ fuel => simp [resolveSrc, h]

theorem resolveSrc_term (c : Chain) (fuel j : Nat) (h : (c.links j).tgt = .term) : resolveSrc c (fuel + 1) j = .term := by
  simp [resolveSrc, h]

/-! ### the leaves of one tree are bound independently -/

theorem bindTree_ge (comp sampled : Bool) (D t k : Nat) (n : Nat) (tr : Tree) (i : Nat) (h : n ≤ i) :
    (bindTree comp sampled D t k n tr).2 i = tr i := by
  induction n with
  | zero => rfl
  | succ n ih =>
    simp only [bindTree, updTree]
    have : i ≠ n := by omega
    simp [this]
    exact ih (by omega)

/-- every leaf of the tree gets exactly its own leaf bind (this is what a short-circuit in the loop breaks) -/
theorem bindTree_lt (comp sampled : Bool) (D t k : Nat) (n : Nat) (tr : Tree) (i : Nat) (h : i < n) :
    (bindTree comp sampled D t k n tr).2 i = (bindLeaf comp sampled D t k (tr i)).2 := by
  induction n with
  | zero => omega
  | succ n ih =>
    simp only [bindTree, updTree]
    by_cases hi : i = n
    · subst hi
      simp [bindTree_ge comp sampled D t k i tr i (Nat.le_refl _)]
    · simp [hi]
      exact ih (by omega)

theorem bindLevels_proj (comp : Bool) (D L t : Nat) (k : Nat) (tr : Tree) (i : Nat) (h : i < L) :
    bindLevels comp D L t k tr i = bindLevelsChain comp D t k (tr i) := by
  induction k generalizing tr with
  | zero => rfl
  | succ k ih =>
    simp only [bindLevels, bindLevelsChain]
    rw [ih, bindTree_lt _ _ _ _ _ _ _ _ h]

theorem applyWrites_ge (D t : Nat) (w : Nat → Option Int) (n : Nat) (tr : Tree) (i : Nat) (h : n ≤ i) :
    applyWrites D t w n tr i = tr i := by
  induction n with
  | zero => rfl
  | succ n ih =>
    simp only [applyWrites]
    have hi : i ≠ n := by omega
    cases w n with
    | none => exact ih (by omega)
    | some v => simp [updTree, hi]; exact ih (by omega)

theorem applyWrites_proj (D t : Nat) (w : Nat → Option Int) (n : Nat) (tr : Tree) (i : Nat) (h : i < n) :
    applyWrites D t w n tr i = writeOpt D t (w i) (tr i) := by
  induction n with
  | zero => omega
  | succ n ih =>
    simp only [applyWrites]
    by_cases hi : i = n
    · subst hi
      cases hw : w i with
      | none => simp [writeOpt, applyWrites_ge D t w i tr i (Nat.le_refl _)]
      | some v => simp [updTree, writeOpt, applyWrites_ge D t w i tr i (Nat.le_refl _)]
    · cases hw : w n with
      | none => exact ih (by omega)
      | some v => simp [updTree, hi]; exact ih (by omega)

theorem altAll_ge (D t : Nat) (n : Nat) (tr : Tree) (i : Nat) (h : n ≤ i) : altAll D t n tr i = tr i := by
  induction n with
  | zero => rfl
  | succ n ih =>
    simp only [altAll, updTree]
    have hi : i ≠ n := by omega
    simp [hi]
    exact ih (by omega)

theorem altAll_proj (D t : Nat) (n : Nat) (tr : Tree) (i : Nat) (h : i < n) : altAll D t n tr i = bindAlt D t (tr i) := by
  induction n with
  | zero => omega
  | succ n ih =>
    simp only [altAll, updTree]
    by_cases hi : i = n
    · subst hi; simp [altAll_ge D t i tr i (Nat.le_refl _)]
    · simp [hi]; exact ih (by omega)

/-- one cycle of the tree, read at leaf `i`, is the cycle of that leaf's chain; the only thing a leaf learns about the
    others is whether any of them ticked (the REF terminal of a composed result publishes then) -/
theorem cycleTree_proj (comp : Bool) (D L : Nat) (cy : Cycle) (tr : Tree) (i : Nat) (h : i < L) :
    cycleTree comp D L cy tr i = cycleChain comp D cy.t cy.pre (cy.w i) (comp && anyWrite cy.w L) (tr i) := by
  unfold cycleTree cycleChain
  cases hp : cy.pre <;> cases ha : (comp && anyWrite cy.w L) <;>
    simp [bindLevels_proj _ _ _ _ _ _ _ h, applyWrites_proj _ _ _ _ _ _ h, altAll_proj _ _ _ _ _ h]

/-! ### terminal: the forwarding never touches it -/

theorem recordLink_term (D t k : Nat) (c : Chain) : (recordLink D t k c).term = c.term := by
  simp [recordLink, propagate_term]

theorem bindLeaf_term (comp sampled : Bool) (D t k : Nat) (c : Chain) : (bindLeaf comp sampled D t k c).2.term = c.term := by
  unfold bindLeaf
  simp only
  split
  · rfl
  · cases sampled <;> simp <;> (repeat' split) <;> simp [recordLink_term]

theorem bindLevelsChain_term (comp : Bool) (D t : Nat) (k : Nat) (c : Chain) : (bindLevelsChain comp D t k c).term = c.term := by
  induction k generalizing c with
  | zero => rfl
  | succ k ih => simp [bindLevelsChain, ih, bindLeaf_term]

/-- the pure effect of one body evaluation on its output leaf -/
def writeTermPure (t : Nat) (w : Option Int) (tm : Term) : Term :=
  match w with
  | some v => { val := some v, lastMod := recordTime tm.lastMod t }
  | none => tm

theorem writeOpt_term (D t : Nat) (w : Option Int) (c : Chain) : (writeOpt D t w c).term = writeTermPure t w c.term := by
  cases w <;> simp [writeOpt, writeTermPure, writeTerm, propagate_term]

theorem cycleChain_term (D t : Nat) (pre : Bool) (w : Option Int) (c : Chain) :
    (cycleChain false D t pre w false c).term = writeTermPure t w c.term := by
  unfold cycleChain
  cases pre <;> simp [writeOpt_term, bindLevelsChain_term]

/-! ### the states of one leaf's chain (node-owned result: `comp = false`) -/

/-- where a start leaves the endpoint of level `j` -/
def s0tgt (comp : Bool) (j : Nat) : Tgt := if j = 1 ∧ comp = false then .term else .ep (j - 1)

/-- start in progress: the levels above `k` are bound (to the still unbound endpoint below them), the rest is not -/
def StartMid (comp : Bool) (D k : Nat) (c : Chain) : Prop :=
  (∀ j, c.links j = if k < j ∧ j ≤ D then { tgt := s0tgt comp j, lastMod := 0 } else {}) ∧ c.term = {}

theorem startMid_step (comp : Bool) (D t0 k : Nat) (c : Chain) (hk : k + 1 ≤ D) (h : StartMid comp D (k + 1) c) :
    StartMid comp D k (bindLeaf comp false D t0 (k + 1) c).2 := by
  obtain ⟨hl, ht⟩ := h
  have hself : c.links (k + 1) = {} := by rw [hl]; simp
  have hbelow : c.links k = {} := by
    rw [hl]
    have : ¬ (k + 1 < k ∧ k ≤ D) := by omega
    simp [this]
  have hsrc : sourceOf comp (k + 1) c = s0tgt comp (k + 1) := by
    unfold sourceOf s0tgt
    by_cases h1 : k + 1 = 1 ∧ comp = false
    · simp [h1]
    · simp only [h1, if_false]
      have : (c.links k).tgt = .none := by rw [hbelow]
      simpa using resolveSrc_unbound c (k + 1) k this
  have hne : (c.links (k + 1)).tgt ≠ sourceOf comp (k + 1) c := by
    rw [hself, hsrc]; unfold s0tgt; split <;> simp
  have hlm : tgtLastMod c (sourceOf comp (k + 1) c) = 0 := by
    rw [hsrc]; unfold s0tgt
    by_cases h1 : k + 1 = 1 ∧ comp = false
    · rw [if_pos h1]; simp [tgtLastMod, ht]
    · rw [if_neg h1]; simp [tgtLastMod, hbelow]
  have hres : (bindLeaf comp false D t0 (k + 1) c).2 =
      setLink c (k + 1) { tgt := s0tgt comp (k + 1), lastMod := 0 } := by
    unfold bindLeaf
    simp only [hne, if_false, hlm]
    simp [hself, hsrc]
  rw [hres]
  refine ⟨?_, by simpa using ht⟩
  intro j
  by_cases hj : j = k + 1
  · subst hj; simp [hk]
  · rw [setLink_ne _ _ _ _ hj, hl]
    by_cases h1 : k + 1 < j ∧ j ≤ D
    · have : k < j ∧ j ≤ D := ⟨by omega, h1.2⟩
      simp [h1, this]
    · have : ¬ (k < j ∧ j ≤ D) := by omega
      simp [h1, this]

theorem startMid_all (comp : Bool) (D t0 : Nat) (k : Nat) (c : Chain) (hk : k ≤ D) (h : StartMid comp D k c) :
    StartMid comp D 0 (bindLevelsChain comp D t0 k c) := by
  induction k generalizing c with
  | zero => exact h
  | succ k ih =>
    simp only [bindLevelsChain]
    exact ih _ (by omega) (startMid_step comp D t0 k c hk h)

theorem startMid_init (comp : Bool) (D : Nat) : StartMid comp D D ({} : Chain) := by
  refine ⟨?_, rfl⟩
  intro j
  have : ¬ (D < j ∧ j ≤ D) := by omega
  simp [this]

/-- after the start of all levels -/
theorem start_chain (comp : Bool) (D t0 : Nat) : StartMid comp D 0 (bindLevelsChain comp D t0 D {}) :=
  startMid_all comp D t0 D {} (Nat.le_refl _) (startMid_init comp D)

/-! ### re-pointing -/

/-- nobody is subscribed to the endpoint of level `k`: recording on it stays local -/
theorem recordLink_noSub (D t k : Nat) (c : Chain) (h : ∀ j, (c.links j).tgt ≠ .ep k) :
    recordLink D t k c = setLink c k { c.links k with lastMod := recordTime (c.links k).lastMod t } := by
  unfold recordLink
  apply propagate_noFire
  intro j
  have htg : ((setLink c k { c.links k with lastMod := recordTime (c.links k).lastMod t }).links j).tgt = (c.links j).tgt := by
    by_cases hj : j = k
    · subst hj; simp
    · rw [setLink_ne _ _ _ _ hj]
  rw [htg]
  cases hc : (c.links j).tgt with
  | none => rfl
  | term => simp [fired]; omega
  | ep j' =>
    have hne : j' ≠ k := by intro e; subst e; exact h j hc
    simp only [fired, setLink_ne _ _ _ _ hne]
    simp; omega

/-- first evaluation in progress (node-owned result): the levels above `k` are already re-pointed at the terminal.
    `a` = the terminal's clock (0: not written yet in this cycle; `t`: written before the nested node ran) -/
def Mid (D t a k : Nat) (c : Chain) : Prop :=
  (∀ j, c.links j = if 1 ≤ j ∧ j ≤ D then
      (if k < j then { tgt := .term, lastMod := if j = 1 then a else t } else { tgt := s0tgt false j, lastMod := a })
    else {}) ∧ c.term.lastMod = a

theorem mid_step (D t a k : Nat) (c : Chain) (ht : 0 < t) (ha : a = 0 ∨ a = t) (hk : k + 1 ≤ D)
    (h : Mid D t a (k + 1) c) : Mid D t a k (bindLeaf false false D t (k + 1) c).2 := by
  obtain ⟨hl, htm⟩ := h
  have hself : c.links (k + 1) = { tgt := s0tgt false (k + 1), lastMod := a } := by
    rw [hl]
    have h1 : 1 ≤ k + 1 ∧ k + 1 ≤ D := ⟨by omega, hk⟩
    simp [h1]
  by_cases hk0 : k = 0
  · -- level 1 is bound to the terminal since the start
    subst hk0
    have hsrc : sourceOf false 1 c = .term := by simp [sourceOf]
    have hnoop : (bindLeaf false false D t 1 c).2 = c := by
      unfold bindLeaf
      simp [hself, hsrc, s0tgt]
    rw [hnoop]
    refine ⟨?_, htm⟩
    intro j
    rw [hl]
    by_cases h1 : 1 ≤ j ∧ j ≤ D
    · by_cases hj : j = 1
      · subst hj; simp [h1, s0tgt]
      · have h2 : 0 + 1 < j := by omega
        have h3 : 0 < j := by omega
        simp [h1, h2, h3]
    · simp [h1]
  · -- level k+1 >= 2 points at the endpoint below; the chain below resolves to the terminal
    have hchain : ∀ j, 1 ≤ j → j ≤ k → (c.links j).tgt = .term ∨ (2 ≤ j ∧ (c.links j).tgt = .ep (j - 1)) := by
      intro j h1 h2
      rw [hl]
      have h3 : 1 ≤ j ∧ j ≤ D := ⟨h1, by omega⟩
      have h4 : ¬ k + 1 < j := by omega
      simp only [h3, h4, and_self, if_true, if_false]
      by_cases hj : j = 1
      · left; simp [s0tgt, hj]
      · right; refine ⟨by omega, ?_⟩; simp [s0tgt, hj]
    have hsrc : sourceOf false (k + 1) c = .term := by
      unfold sourceOf
      have hn : ¬ (k + 1 = 1 ∧ false = false) := fun h => hk0 (by have := h.1; omega)
      rw [if_neg hn]
      simp only [Nat.add_sub_cancel]
      exact resolveSrc_chained c k hchain (k + 1) k (by omega) (Nat.le_refl _) (by omega)
    have htgt : s0tgt false (k + 1) = .ep k := by
      unfold s0tgt
      have hn : ¬ (k + 1 = 1 ∧ false = false) := fun h => hk0 (by have := h.1; omega)
      rw [if_neg hn]
      simp
    have hnosub : ∀ (c' : Chain), (∀ j, (c'.links j).tgt = (if j = k + 1 then Tgt.term else (c.links j).tgt)) →
        ∀ j, (c'.links j).tgt ≠ .ep (k + 1) := by
      intro c' hc' j
      rw [hc']
      by_cases hj : j = k + 1
      · simp [hj]
      · simp only [hj, if_false]
        rw [hl]
        by_cases h1 : 1 ≤ j ∧ j ≤ D
        · by_cases h2 : k + 1 < j
          · simp [h1, h2]
          · simp only [h1, h2, and_self, if_true, if_false]
            unfold s0tgt
            split
            · simp
            · simp; omega
        · simp [h1]
    -- unfold the plain re-point
    let c1 := setLink c (k + 1) { tgt := Tgt.term, lastMod := a }
    have hc1 : ∀ j, (c1.links j).tgt = (if j = k + 1 then Tgt.term else (c.links j).tgt) := by
      intro j
      by_cases hj : j = k + 1
      · subst hj; simp [c1]
      · simp only [c1, hj, if_false]; rw [setLink_ne _ _ _ _ hj]
    have hc1self : c1.links (k + 1) = { tgt := Tgt.term, lastMod := a } := by simp [c1]
    let c2 := setLink c1 (k + 1) { tgt := Tgt.term, lastMod := a }
    have hrec1 : recordLink D a (k + 1) c1 = c2 := by
      rw [recordLink_noSub D a (k + 1) c1 (hnosub c1 hc1), hc1self]
      simp [c2, recordTime_same]
    have hc2 : ∀ j, (c2.links j).tgt = (if j = k + 1 then Tgt.term else (c.links j).tgt) := by
      intro j
      by_cases hj : j = k + 1
      · subst hj; simp [c2]
      · simp only [c2, hj, if_false]; rw [setLink_ne _ _ _ _ hj, setLink_ne _ _ _ _ hj]
    have hc2self : c2.links (k + 1) = { tgt := Tgt.term, lastMod := a } := by simp [c2]
    have hrt : recordTime a t = t := by
      rcases ha with h0 | h0
      · subst h0; exact recordTime_lt ht
      · subst h0; exact recordTime_same _
    have hres : (bindLeaf false false D t (k + 1) c).2 = setLink c2 (k + 1) { tgt := Tgt.term, lastMod := t } ∨
        (bindLeaf false false D t (k + 1) c).2 = setLink c1 (k + 1) { tgt := Tgt.term, lastMod := t } := by
      unfold bindLeaf
      have hne : (c.links (k + 1)).tgt ≠ sourceOf false (k + 1) c := by
        rw [hself, hsrc, htgt]; simp
      have htne : t ≠ 0 := by omega
      have hprev : (c.links (k + 1)).tgt ≠ Tgt.none := by rw [hself, htgt]; simp
      simp only [hsrc, tgtLastMod, htm, hself]
      by_cases ha0 : a = 0
      · right
        subst ha0
        simp only [ne_eq, not_true_eq_false, if_false, htne, not_false_eq_true, htgt, true_and]
        simp only [Bool.false_eq_true, if_false, reduceCtorEq, not_false_eq_true, if_true]
        rw [recordLink_noSub D t (k + 1) c1 (hnosub c1 hc1), hc1self]
        simp [hrt]
      · left
        simp only [ne_eq, ha0, not_false_eq_true, if_true, htne, htgt, true_and]
        simp only [Bool.false_eq_true, if_false, reduceCtorEq, not_false_eq_true, if_true]
        show recordLink D t (k + 1) (recordLink D a (k + 1) c1) = _
        rw [hrec1, recordLink_noSub D t (k + 1) c2 (hnosub c2 hc2), hc2self]
        simp [hrt]
    have hfinal : ∀ j, ((bindLeaf false false D t (k + 1) c).2).links j =
        if j = k + 1 then { tgt := Tgt.term, lastMod := t } else c.links j := by
      intro j
      rcases hres with hr | hr <;> rw [hr]
      · by_cases hj : j = k + 1
        · subst hj; simp
        · simp only [hj, if_false]; rw [setLink_ne _ _ _ _ hj]; simp only [c2]
          rw [setLink_ne _ _ _ _ hj]; simp only [c1]; rw [setLink_ne _ _ _ _ hj]
      · by_cases hj : j = k + 1
        · subst hj; simp
        · simp only [hj, if_false]; rw [setLink_ne _ _ _ _ hj]; simp only [c1]; rw [setLink_ne _ _ _ _ hj]
    refine ⟨?_, by rw [bindLeaf_term]; exact htm⟩
    intro j
    rw [hfinal]
    by_cases hj : j = k + 1
    · subst hj
      have h1 : 1 ≤ k + 1 ∧ k + 1 ≤ D := ⟨by omega, hk⟩
      have h2 : k < k + 1 := by omega
      simp [h1, h2, hk0]
    · simp only [hj, if_false]
      rw [hl]
      by_cases h1 : 1 ≤ j ∧ j ≤ D
      · by_cases h2 : k + 1 < j
        · have : k < j := by omega
          simp [h1, h2, this]
        · have : ¬ k < j := by omega
          simp [h1, h2, this]
      · simp [h1]

theorem mid_all (D t a : Nat) (ht : 0 < t) (ha : a = 0 ∨ a = t) (k : Nat) (c : Chain) (hk : k ≤ D) (h : Mid D t a k c) :
    Mid D t a 0 (bindLevelsChain false D t k c) := by
  induction k generalizing c with
  | zero => exact h
  | succ k ih =>
    simp only [bindLevelsChain]
    exact ih _ (by omega) (mid_step D t a k c ht ha hk h)

/-! ### after the first evaluation -/

/-- the chain of one leaf after at least one evaluation of the nested nodes, the first of them at `t1`, the last at
    `tl`: every level points directly at the terminal; level 1 carries the terminal's clock, the levels above it the
    later of the terminal's clock and the re-point at `t1` -/
def R (D t1 tl : Nat) (c : Chain) : Prop :=
  (∀ j, c.links j = if 1 ≤ j ∧ j ≤ D then
      { tgt := .term, lastMod := if j = 1 then c.term.lastMod else max t1 c.term.lastMod } else {}) ∧
  (c.term.val.isSome ↔ c.term.lastMod ≠ 0) ∧ (c.term.lastMod ≠ 0 → t1 ≤ c.term.lastMod) ∧
  c.term.lastMod ≤ tl ∧ 0 < t1 ∧ t1 ≤ tl

theorem flat_of_links {D : Nat} {c : Chain} {f : Nat → Nat}
    (hl : ∀ j, c.links j = if 1 ≤ j ∧ j ≤ D then { tgt := .term, lastMod := f j } else {}) :
    ∀ j j', (c.links j).tgt ≠ .ep j' := by
  intro j j'
  rw [hl]
  split <;> simp

/-- a write on a chain whose levels all point at the terminal -/
theorem writeTerm_flat (D t : Nat) (v : Int) (c : Chain) (f : Nat → Nat)
    (hl : ∀ j, c.links j = if 1 ≤ j ∧ j ≤ D then { tgt := .term, lastMod := f j } else {})
    (hlt : c.term.lastMod < t) :
    (∀ j, (writeTerm D t v c).links j = if 1 ≤ j ∧ j ≤ D then { tgt := .term, lastMod := max (f j) t } else {}) ∧
    (writeTerm D t v c).term = { val := some v, lastMod := t } := by
  have hterm : (writeTerm D t v c).term = { val := some v, lastMod := t } := by
    simp [writeTerm, propagate_term, recordTime_lt hlt]
  refine ⟨?_, hterm⟩
  intro j
  unfold writeTerm
  rw [propagate_flat t c _ (by intro j j'; exact flat_of_links hl j j') (D + 1) j]
  simp only [recordTime_lt hlt]
  rw [hl]
  by_cases h1 : 1 ≤ j ∧ j ≤ D
  · have h2 : j < D + 1 := by omega
    by_cases h3 : f j < t
    · have : max (f j) t = t := by omega
      simp [h1, h2, h3, hlt, this]
    · have : max (f j) t = f j := by omega
      simp [h1, h3, this]
  · simp [h1]

/-- re-binding a chain that already points at the terminal everywhere changes nothing -/
theorem bindLevels_flat (D t : Nat) (c : Chain) (f : Nat → Nat)
    (hl : ∀ j, c.links j = if 1 ≤ j ∧ j ≤ D then { tgt := .term, lastMod := f j } else {})
    (k : Nat) (hk : k ≤ D) : bindLevelsChain false D t k c = c := by
  induction k with
  | zero => rfl
  | succ k ih =>
    simp only [bindLevelsChain]
    have hself : (c.links (k + 1)).tgt = .term := by
      rw [hl]; have : 1 ≤ k + 1 ∧ k + 1 ≤ D := ⟨by omega, hk⟩; simp [this]
    have hsrc : sourceOf false (k + 1) c = .term := by
      unfold sourceOf
      by_cases hk0 : k = 0
      · subst hk0; simp
      · have hn : ¬ (k + 1 = 1 ∧ false = false) := fun h => hk0 (by have := h.1; omega)
        rw [if_neg hn]
        simp only [Nat.add_sub_cancel]
        have hb : (c.links k).tgt = .term := by
          rw [hl]; have : 1 ≤ k ∧ k ≤ D := ⟨by omega, by omega⟩; simp [this]
        exact resolveSrc_term c k k hb
    have hnoop : (bindLeaf false false D t (k + 1) c).2 = c := by
      unfold bindLeaf; simp [hself, hsrc]
    rw [hnoop]
    exact ih (by omega)

/-- a cycle after the first one -/
theorem R_cycle (D t1 tl t : Nat) (pre : Bool) (w : Option Int) (c : Chain) (h : R D t1 tl c) (hlt : tl < t) :
    R D t1 t (cycleChain false D t pre w false c) := by
  obtain ⟨hl, hv, h1, h2, h3, h4⟩ := h
  have hb : ∀ c', (∀ j, c'.links j = if 1 ≤ j ∧ j ≤ D then
      { tgt := .term, lastMod := if j = 1 then c'.term.lastMod else max t1 c'.term.lastMod } else {}) →
      bindLevelsChain false D t D c' = c' := fun c' hl' => bindLevels_flat D t c' _ hl' D (Nat.le_refl _)
  cases w with
  | none =>
    have : cycleChain false D t pre none false c = c := by
      unfold cycleChain
      cases pre <;> simp [writeOpt, hb c hl]
    rw [this]
    exact ⟨hl, hv, h1, by omega, h3, by omega⟩
  | some v =>
    obtain ⟨hwl, hwt⟩ := writeTerm_flat D t v c _ hl (by omega)
    have hRw : R D t1 t (writeTerm D t v c) := by
      refine ⟨?_, by simp [hwt]; omega, by simp [hwt]; omega, by simp [hwt], h3, by omega⟩
      intro j
      rw [hwl, hwt]
      by_cases hj : 1 ≤ j ∧ j ≤ D
      · simp only [hj, and_self, if_true]
        by_cases hj1 : j = 1
        · simp [hj1]; omega
        · simp [hj1]; omega
      · simp [hj]
    have : cycleChain false D t pre (some v) false c = writeTerm D t v c := by
      unfold cycleChain
      cases pre
      · simp [writeOpt, hb c hl]
      · simp [writeOpt, hb _ hRw.1]
    rw [this]
    exact hRw

/-! ### the first evaluation -/

/-- the terminal is written while the chain is still the one the start left (a pass-through result: the producer
    runs before the nested node): the tick travels up the whole chain -/
theorem write_on_start (D t : Nat) (v : Int) (c : Chain) (ht : 0 < t) (h : StartMid false D 0 c) :
    Mid D t t D (writeTerm D t v c) ∧ (writeTerm D t v c).term = { val := some v, lastMod := t } := by
  obtain ⟨hl, htm⟩ := h
  have hterm : (writeTerm D t v c).term = { val := some v, lastMod := t } := by
    simp [writeTerm, propagate_term, htm, recordTime_lt ht]
  let c' : Chain := { c with term := { val := some v, lastMod := recordTime c.term.lastMod t } }
  have hc'l : ∀ j, c'.links j = c.links j := fun _ => rfl
  have hc't : c'.term.lastMod = t := by simp [c', htm, recordTime_lt ht]
  have key : ∀ m j, (propagate t c m c').links j =
      if 1 ≤ j ∧ j < m ∧ j ≤ D then { tgt := s0tgt false j, lastMod := t } else c.links j := by
    intro m
    induction m with
    | zero => intro j; simp [propagate, hc'l]
    | succ m ih =>
      intro j
      simp only [propagate]
      by_cases hj : j = m
      · subst hj
        have hX : (propagate t c j c').links j = c.links j := by rw [propagate_ge _ _ _ _ _ (Nat.le_refl _), hc'l]
        have hXt : (propagate t c j c').term = c'.term := propagate_term _ _ _ _
        rw [stepLevel_same, hX, hl]
        by_cases h1 : 0 < j ∧ j ≤ D
        · have h2 : 1 ≤ j ∧ j < j + 1 ∧ j ≤ D := ⟨by omega, by omega, h1.2⟩
          simp only [h1, h2, and_self, if_true]
          by_cases hj1 : j = 1
          · subst hj1
            have hf : fired t c (propagate t c 1 c') (s0tgt false 1) = true := by
              simp [s0tgt, fired, hXt, hc't, htm, ht]
            simp [hf, ht]
          · have hs : s0tgt false j = .ep (j - 1) := by
              unfold s0tgt
              have hn : ¬ (j = 1 ∧ false = false) := fun h => hj1 h.1
              rw [if_neg hn]
            have hprev : ((propagate t c j c').links (j - 1)).lastMod = t := by
              rw [ih (j - 1)]
              have : 1 ≤ j - 1 ∧ j - 1 < j ∧ j - 1 ≤ D := ⟨by omega, by omega, by omega⟩
              simp [this]
            have hseed : (c.links (j - 1)).lastMod = 0 := by
              rw [hl]; have : 0 < j - 1 ∧ j - 1 ≤ D := ⟨by omega, by omega⟩; simp [this]
            have hf : fired t c (propagate t c j c') (s0tgt false j) = true := by
              simp [hs, fired, hprev, hseed, ht]
            simp [hf, ht]
        · have h2 : ¬ (1 ≤ j ∧ j < j + 1 ∧ j ≤ D) := by omega
          rw [if_neg h1, if_neg h2]
          simp [fired]
      · rw [stepLevel_ne _ _ _ _ _ hj, ih j]
        by_cases h1 : 1 ≤ j ∧ j < m ∧ j ≤ D
        · have : 1 ≤ j ∧ j < m + 1 ∧ j ≤ D := ⟨h1.1, by omega, h1.2.2⟩
          simp [h1, this]
        · have : ¬ (1 ≤ j ∧ j < m + 1 ∧ j ≤ D) := by omega
          simp [h1, this]
  refine ⟨⟨?_, by rw [hterm]⟩, hterm⟩
  intro j
  show (propagate t c (D + 1) c').links j = _
  rw [key (D + 1) j, hl]
  by_cases h1 : 1 ≤ j ∧ j ≤ D
  · have h2 : 1 ≤ j ∧ j < D + 1 ∧ j ≤ D := ⟨h1.1, by omega, h1.2⟩
    have h3 : ¬ D < j := by omega
    simp [h1, h2, h3]
  · have h2 : ¬ (1 ≤ j ∧ j < D + 1 ∧ j ≤ D) := by omega
    have h3 : ¬ (0 < j ∧ j ≤ D) := by omega
    simp [h1, h2, h3]

theorem mid_of_start (D t : Nat) (c : Chain) (h : StartMid false D 0 c) : Mid D t 0 D c := by
  obtain ⟨hl, htm⟩ := h
  refine ⟨?_, by simp [htm]⟩
  intro j
  rw [hl]
  by_cases h1 : 1 ≤ j ∧ j ≤ D
  · have h2 : 0 < j ∧ j ≤ D := ⟨by omega, h1.2⟩
    have h3 : ¬ D < j := by omega
    simp [h1, h2, h3]
  · have h2 : ¬ (0 < j ∧ j ≤ D) := by omega
    simp [h1, h2]

/-- the first cycle in which the nested nodes are evaluated -/
theorem first_cycle (D t : Nat) (pre : Bool) (w : Option Int) (c : Chain) (ht : 0 < t) (h : StartMid false D 0 c) :
    R D t t (cycleChain false D t pre w false c) := by
  have hmid0 := mid_all D t 0 ht (Or.inl rfl) D c (Nat.le_refl _) (mid_of_start D t c h)
  have htm0 : c.term = {} := h.2
  -- the chain after the binds when nothing was written before them
  have hflat0 : ∀ j, (bindLevelsChain false D t D c).links j =
      if 1 ≤ j ∧ j ≤ D then { tgt := .term, lastMod := if j = 1 then 0 else t } else {} := by
    intro j
    rw [hmid0.1 j]
    by_cases h1 : 1 ≤ j ∧ j ≤ D
    · have : 0 < j := by omega
      simp [h1, this]
    · simp [h1]
  have hterm0 : (bindLevelsChain false D t D c).term = {} := by rw [bindLevelsChain_term, htm0]
  have hnone : R D t t (bindLevelsChain false D t D c) := by
    refine ⟨?_, by simp [hterm0], by simp [hterm0], by simp [hterm0], ht, Nat.le_refl _⟩
    intro j
    rw [hflat0, hterm0]
    by_cases h1 : 1 ≤ j ∧ j ≤ D
    · by_cases hj1 : j = 1 <;> simp [h1, hj1]
    · simp [h1]
  cases w with
  | none =>
    have : cycleChain false D t pre none false c = bindLevelsChain false D t D c := by
      unfold cycleChain; cases pre <;> simp [writeOpt]
    rw [this]; exact hnone
  | some v =>
    cases pre with
    | false =>
      have : cycleChain false D t false (some v) false c = writeTerm D t v (bindLevelsChain false D t D c) := by
        unfold cycleChain; simp [writeOpt]
      rw [this]
      obtain ⟨hwl, hwt⟩ := writeTerm_flat D t v _ _ hflat0 (by rw [hterm0]; exact ht)
      refine ⟨?_, by simp [hwt]; omega, by simp [hwt], by simp [hwt], ht, Nat.le_refl _⟩
      intro j
      rw [hwl, hwt]
      by_cases h1 : 1 ≤ j ∧ j ≤ D
      · by_cases hj1 : j = 1
        · simp [hj1]
        · simp [h1, hj1]
      · simp [h1]
    | true =>
      obtain ⟨hm, hwt⟩ := write_on_start D t v c ht h
      have hmid := mid_all D t t ht (Or.inr rfl) D _ (Nat.le_refl _) hm
      have : cycleChain false D t true (some v) false c = bindLevelsChain false D t D (writeTerm D t v c) := by
        unfold cycleChain; simp [writeOpt]
      rw [this]
      have hterm : (bindLevelsChain false D t D (writeTerm D t v c)).term = { val := some v, lastMod := t } := by
        rw [bindLevelsChain_term, hwt]
      refine ⟨?_, by simp [hterm]; omega, by simp [hterm], by simp [hterm], ht, Nat.le_refl _⟩
      intro j
      rw [hmid.1 j, hterm]
      by_cases h1 : 1 ≤ j ∧ j ≤ D
      · have : 0 < j := by omega
        by_cases hj1 : j = 1 <;> simp [h1, this, hj1]
      · simp [h1]

end HgVerif.NestShape
