import HgVerif.Lemmas.Delta
/-!
The two operators over whole histories (C20): list-level specification of the dense `record` buffer
(`trim`), of the replay source (`replayStates`) and the lemmas that connect the node-level model
(`recordEval`, `replayEval`, `runGraph`) to them.
-/
namespace HgVerif.Delta

/-- what `record` stores for a cycle that left its input in state `m` (`none` = nothing pushed) -/
def tickOf (s : Shape) (m : St s) : Option (Dl s) :=
  if modified s m then (if observable s m (capture s m) then some (capture s m) else none) else none

/-- `record`'s buffer update for one cycle -/
def pushTick {δ : Type} (buf : List (Option δ)) (cycle : Nat) : Option δ → List (Option δ)
  | none => buf
  | some d => buf ++ List.replicate (cycle - buf.length) none ++ [some d]

theorem recordEval_eq {s : Shape} (buf : Buffer s) (c : Nat) (m : St s) :
    recordEval buf c m = pushTick buf c (tickOf s m) := by
  unfold recordEval tickOf
  cases modified s m
  · rfl
  · cases h : observable s m (capture s m) <;> simp [h, pushTick]

/-- the record node over consecutive cycles `c, c+1, …` -/
def recordHist {s : Shape} : List (St s) → Nat → Buffer s → Buffer s
  | [], _, buf => buf
  | m :: rest, c, buf => recordHist rest (c + 1) (recordEval buf c m)

def recTicks {δ : Type} : List (Option δ) → Nat → List (Option δ) → List (Option δ)
  | [], _, buf => buf
  | t :: ts, c, buf => recTicks ts (c + 1) (pushTick buf c t)

theorem recordHist_eq {s : Shape} (hist : List (St s)) (c : Nat) (buf : Buffer s) :
    recordHist hist c buf = recTicks (hist.map (tickOf s)) c buf := by
  induction hist generalizing c buf with
  | nil => rfl
  | cons m rest ih => simp only [recordHist, List.map_cons, recTicks, recordEval_eq, ih]

/-- drop the trailing cycles without a tick: the dense buffer ends at the last recorded tick -/
def trim {δ : Type} : List (Option δ) → List (Option δ)
  | [] => []
  | x :: r =>
      match x, trim r with
      | none, [] => []
      | x, t => x :: t

theorem trim_cons_some {δ : Type} (d : δ) (r : List (Option δ)) : trim (some d :: r) = some d :: trim r := by
  simp [trim]

theorem trim_cons_none {δ : Type} (r : List (Option δ)) :
    trim (none :: r) = if trim r = [] then [] else none :: trim r := by
  simp only [trim]
  cases trim r <;> simp

theorem recTicks_trim {δ : Type} : ∀ (ts : List (Option δ)) (c : Nat) (buf : List (Option δ)), buf.length ≤ c →
    recTicks ts c buf = if trim ts = [] then buf else buf ++ List.replicate (c - buf.length) none ++ trim ts
  | [], c, buf, _ => by simp [recTicks, trim]
  | none :: ts, c, buf, h => by
      simp only [recTicks, pushTick]
      rw [recTicks_trim ts (c + 1) buf (by omega), trim_cons_none]
      cases ht : trim ts with
      | nil => simp
      | cons x xs =>
        simp only [reduceCtorEq, ↓reduceIte, List.append_assoc, List.append_cancel_left_eq]
        have : c + 1 - buf.length = (c - buf.length) + 1 := by omega
        rw [this, List.replicate_succ']
        simp
  | some d :: ts, c, buf, h => by
      simp only [recTicks, pushTick]
      have hl : (buf ++ List.replicate (c - buf.length) none ++ [some d]).length = c + 1 := by
        simp; omega
      rw [recTicks_trim ts (c + 1) _ (by omega), trim_cons_some, hl]
      cases ht : trim ts with
      | nil => simp
      | cons x xs => simp

theorem recTicks_zero {δ : Type} (ts : List (Option δ)) : recTicks ts 0 [] = trim ts := by
  rw [recTicks_trim ts 0 [] (by simp)]
  cases trim ts <;> simp

theorem trim_idem {δ : Type} : ∀ (l : List (Option δ)), trim (trim l) = trim l
  | [] => rfl
  | some d :: r => by simp only [trim_cons_some, trim_idem r]
  | none :: r => by
      rw [trim_cons_none]
      cases ht : trim r with
      | nil => simp [trim]
      | cons x xs =>
        simp only [reduceCtorEq, ↓reduceIte]
        rw [trim_cons_none, ← ht, trim_idem r, ht]
        simp

/-- the buffer is a prefix of the per-cycle tick sequence: index `i` of the buffer is cycle `i` -/
theorem trim_prefix {δ : Type} : ∀ (l : List (Option δ)), trim l = l.take (trim l).length
  | [] => rfl
  | some d :: r => by
      rw [trim_cons_some]
      simp only [List.length_cons, List.take_succ_cons]
      rw [← trim_prefix r]
  | none :: r => by
      rw [trim_cons_none]
      cases ht : trim r with
      | nil => simp
      | cons x xs =>
        simp only [reduceCtorEq, ↓reduceIte, List.length_cons, List.take_succ_cons]
        rw [← List.length_cons (a := x), ← ht, ← trim_prefix r]

/-- after the end of the buffer there is no tick -/
theorem trim_drop_none {δ : Type} : ∀ (l : List (Option δ)) (x : Option δ), x ∈ l.drop (trim l).length → x = none
  | [], x, h => by simp at h
  | some d :: r, x, h => by
      rw [trim_cons_some] at h
      simp only [List.length_cons, List.drop_succ_cons] at h
      exact trim_drop_none r x h
  | none :: r, x, h => by
      rw [trim_cons_none] at h
      cases ht : trim r with
      | nil =>
        rw [ht] at h
        simp only [↓reduceIte, List.length_nil, List.drop_zero, List.mem_cons] at h
        rcases h with h | h
        · exact h
        · have := trim_drop_none r x
          rw [ht] at this
          exact this (by simpa using h)
      | cons y ys =>
        rw [ht] at h
        simp only [reduceCtorEq, ↓reduceIte, List.length_cons, List.drop_succ_cons] at h
        have := trim_drop_none r x
        rw [ht] at this
        exact this (by simpa using h)

/-! ### the replay source as a scan -/

/-- output of the replay node after evaluating one buffered cycle -/
def stepOut (s : Shape) (out : St s) : Option (Dl s) → St s
  | some d => apply s out d
  | none => clear s out

def replayStates (s : Shape) : St s → Buffer s → List (St s)
  | _, [] => []
  | out, e :: es => stepOut s out e :: replayStates s (stepOut s out e) es

def lastD {α : Type} : List α → α → α
  | [], d => d
  | x :: xs, _ => lastD xs x

theorem replayEval_eq {s : Shape} (inp : Buffer s) (i : Nat) (out : St s) (e : Option (Dl s))
    (h : inp[i]? = some e) : replayEval inp i out = (i + 1, stepOut s out e, decide (i + 1 < inp.length)) := by
  unfold replayEval
  rw [h]
  cases e <;> rfl

/-- The replay source evaluates once per buffered cycle: started at cycle 0 and re-armed by its own
    `schedule(MIN_TD)` while entries remain, evaluation number `i` happens at cycle offset `i`, reads entry `i`,
    and the record sink sees exactly those output states in those cycles. -/
theorem runGraph_spec {s : Shape} (inp : Buffer s) : ∀ (fuel i : Nat) (out : St s) (rec : Buffer s),
    i < inp.length → inp.length - i ≤ fuel →
    runGraph inp fuel i i out rec =
      (recordHist (replayStates s out (inp.drop i)) i rec, lastD (replayStates s out (inp.drop i)) out)
  | 0, i, out, rec, h1, h2 => by omega
  | fuel + 1, i, out, rec, h1, h2 => by
      have hget : inp[i]? = some inp[i] := List.getElem?_eq_getElem h1
      have hdrop : inp.drop i = inp[i] :: inp.drop (i + 1) := (List.drop_eq_getElem_cons h1)
      simp only [runGraph, replayEval_eq inp i out _ hget]
      rw [hdrop]
      simp only [replayStates, recordHist, lastD]
      by_cases hlt : i + 1 < inp.length
      · simp only [hlt, decide_true, ↓reduceIte]
        exact runGraph_spec inp fuel (i + 1) _ _ hlt (by omega)
      · simp only [hlt, decide_false, Bool.false_eq_true, ↓reduceIte]
        have : inp.drop (i + 1) = [] := List.drop_eq_nil_of_le (by omega)
        rw [this]
        rfl

theorem replayRecord_nil (s : Shape) : replayRecord ([] : Buffer s) = ([], clear s (fresh s)) := by
  simp only [replayRecord, runGraph, replayEval, List.length_nil, Nat.zero_add]
  simp [recordEval, modified_clear]

theorem replayRecord_spec {s : Shape} (inp : Buffer s) (h : inp ≠ []) :
    replayRecord inp = (recordHist (replayStates s (fresh s) inp) 0 [],
                        lastD (replayStates s (fresh s) inp) (fresh s)) := by
  have hl : 0 < inp.length := List.length_pos_iff.mpr h
  have := runGraph_spec inp (inp.length + 1) 0 (fresh s) [] hl (by omega)
  simpa [replayRecord] using this

/-! ### histories -/

/-- a history of the recorded series: consecutive end-of-cycle states, each a replayable tick (or no tick) -/
def GoodHist (s : Shape) : St s → List (St s) → Prop
  | _, [] => True
  | pre, m :: rest => Tick s pre m ∧ GoodHist s m rest

theorem tickOf_tick {s : Shape} (pre m : St s) (h : Tick s pre m) :
    tickOf s m = if modified s m then some (capture s m) else none := by
  unfold tickOf
  cases hm : modified s m with
  | false => rfl
  | true => simp [tick_observable_aux s pre m h hm]

/-- replaying what `record` stored for a cycle re-creates the end-of-cycle state, marks included -/
theorem stepOut_tick {s : Shape} (hw : wfShape s = true) (hs : isFields s = false) (pre m : St s)
    (h : Tick s pre m) : stepOut s pre (tickOf s m) = m := by
  rw [tickOf_tick pre m h]
  cases hm : modified s m with
  | false => simp only [Bool.false_eq_true, ↓reduceIte, stepOut]; exact (tick_unmodified s pre m h hm).symm
  | true => simp only [↓reduceIte, stepOut]; exact (apply_capture_aux s hw).1 hs pre m h hm

theorem replayStates_hist {s : Shape} (hw : wfShape s = true) (hs : isFields s = false) :
    ∀ (hist : List (St s)) (pre : St s) (n : Nat), GoodHist s pre hist →
      replayStates s pre ((hist.map (tickOf s)).take n) = hist.take n
  | [], _, n, _ => by simp [replayStates]
  | m :: rest, pre, 0, _ => by simp [replayStates]
  | m :: rest, pre, n + 1, h => by
      simp only [List.map_cons, List.take_succ_cons, replayStates, stepOut_tick hw hs pre m h.1]
      rw [replayStates_hist hw hs rest m n h.2]

/-! ### values without marks -/

theorem length_falses (n : Nat) : (falses n).length = n := by simp [falses]

theorem clear_clear : ∀ (s : Shape) (st : St s), clear s (clear s st) = clear s st
  | .ts _, _ => rfl
  | .signal, _ => rfl
  | .tsw _ _, _ => rfl
  | .tss _ _, st => by simp [clear, length_falses]; rfl
  | .tsd _ _ v, st => by
      simp only [clear, length_falses, List.map_map]
      have : List.map (Option.map (clear v) ∘ Option.map (clear v)) st.slots = List.map (Option.map (clear v)) st.slots := by
        apply List.map_congr_left
        intro o _
        cases o with
        | none => rfl
        | some c => simp [clear_clear v c]
      rw [this]
  | .tsl e _, st => by
      have key : ∀ l : List (St e), List.map (clear e) (List.map (clear e) l) = List.map (clear e) l := by
        intro l
        rw [List.map_map]
        apply List.map_congr_left
        intro c _
        exact clear_clear e c
      exact key st
  | .tsld e, st => by
      have key : ∀ l : List (St e), List.map (clear e) (List.map (clear e) l) = List.map (clear e) l := by
        intro l
        rw [List.map_map]
        apply List.map_congr_left
        intro c _
        exact clear_clear e c
      exact key st
  | .tsb fs, st => clear_clear fs st
  | .bnil, _ => rfl
  | .bcons f r, st => Prod.ext (clear_clear f st.1) (clear_clear r st.2)

theorem lastD_append {α : Type} : ∀ (a b : List α) (d : α), lastD (a ++ b) d = lastD b (lastD a d)
  | [], _, _ => rfl
  | x :: xs, b, _ => by simp only [List.cons_append, lastD]; exact lastD_append xs b x

theorem goodHist_drop {s : Shape} : ∀ (hist : List (St s)) (pre : St s) (n : Nat), GoodHist s pre hist →
    GoodHist s (lastD (hist.take n) pre) (hist.drop n)
  | [], _, n, _ => by simp [GoodHist, lastD]
  | m :: rest, pre, 0, h => by simpa [lastD] using h
  | m :: rest, pre, n + 1, h => by
      simp only [List.take_succ_cons, List.drop_succ_cons, lastD]
      exact goodHist_drop rest m n h.2

theorem goodHist_mem_tick {s : Shape} : ∀ (hist : List (St s)) (pre m : St s), GoodHist s pre hist → m ∈ hist →
    ∃ p, Tick s p m
  | [], _, _, _, hm => by simp at hm
  | x :: rest, pre, m, h, hm => by
      simp only [List.mem_cons] at hm
      rcases hm with rfl | hm
      · exact ⟨pre, h.1⟩
      · exact goodHist_mem_tick rest x m h.2 hm

/-- cycles without a tick do not change the value -/
theorem goodHist_unticked {s : Shape} : ∀ (rest : List (St s)) (pre : St s), GoodHist s pre rest →
    (∀ m ∈ rest, modified s m = false) → clear s (lastD rest pre) = clear s pre
  | [], _, _, _ => rfl
  | m :: rest, pre, h, hu => by
      simp only [lastD]
      rw [goodHist_unticked rest m h.2 (fun x hx => hu x (List.mem_cons_of_mem _ hx))]
      rw [tick_unmodified s pre m h.1 (hu m (List.mem_cons_self)), clear_clear]

end HgVerif.Delta
