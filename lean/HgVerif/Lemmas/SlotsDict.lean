import HgVerif.Lemmas.SlotsSet
/-!
Helper lemmas for C05, TSD part: the invariant tying the `added_/removed_/modified_/value_published_`
bits of `TSDSlotStorage` (element `TS<Int>`) to the set of valid keys at the start of the current delta
window, and its preservation by every operation of `TSDDataMutationView`.
-/
namespace HgVerif.Slots
local notation "Time" => Nat

/-- per-slot relation; `V0` = keys with a valid value at the start of the delta window -/
def DictSlotOK (V0 : List Key) (s : Slot) : Prop :=
  (s.st = .free → s.added = false ∧ s.removed = false ∧ s.modified = false ∧ s.published = false) ∧
  (s.published = true → s.st = .live ∧ s.clmt ≠ 0) ∧
  (s.st = .live → s.clmt ≠ 0 → s.published = true) ∧
  (s.added = true → s.published = true ∧ s.key ∉ V0) ∧
  (s.removed = true → s.st = .pending ∧ s.key ∈ V0 ∧ s.clmt ≠ 0) ∧
  (s.published = true → s.added = false → s.key ∈ V0) ∧
  (s.st ≠ .free → s.published = false → s.removed = false → s.key ∉ V0) ∧
  (s.modified = true → s.published = true)

theorem dok_ins_resurrect {V : List Key} {s : Slot} {t : Time} (h : DictSlotOK V s) (hp : s.st = .pending) :
    DictSlotOK V (dInsBitsAt t { s with st := .live }) := by
  unfold DictSlotOK dInsBitsAt dMarkBits dInsBits at *
  grind

theorem dok_ins_fresh {V : List Key} {s : Slot} {k : Key} {t : Time} (h : DictSlotOK V s) (hp : s.st = .free)
    (hk : k ∉ V) :
    DictSlotOK V (dInsBitsAt t { s with st := .live, key := k, cval := 0, clmt := 0 }) := by
  unfold DictSlotOK dInsBitsAt dMarkBits dInsBits at *
  grind

theorem dok_rem {V : List Key} {s : Slot} (h : DictSlotOK V s) (hp : s.st = .live) :
    DictSlotOK V (dRemBits { s with st := .pending }) := by
  unfold DictSlotOK dRemBits at *
  grind

theorem dok_clear {V V' : List Key} {s : Slot} (h : DictSlotOK V s)
    (hv : s.published = true → s.key ∈ V') (hv' : s.st = .live → s.published = false → s.key ∉ V') :
    DictSlotOK V' (clearDictBits (if s.st = .pending then { s with st := .free } else s)) := by
  by_cases hp : s.st = .pending
  · rw [if_pos hp]
    unfold DictSlotOK clearDictBits at *
    grind
  · rw [if_neg hp]
    have hst : s.st = .free ∨ s.st = .live := by
      cases hs : s.st with
      | free => exact Or.inl rfl
      | live => exact Or.inr rfl
      | pending => exact absurd hs hp
    unfold DictSlotOK clearDictBits at *
    grind

/-- a child write that is the first of its evaluation time, followed by `record_child_modified` -/
theorem dok_child {V : List Key} {s : Slot} {v : Int} {t : Time} (h : DictSlotOK V s) (hl : s.st = .live)
    (ht : t ≠ 0) : DictSlotOK V (dChildBits { s with cval := v, clmt := t }) := by
  unfold DictSlotOK dChildBits at *
  grind

/-- a child write that only replaces the value -/
theorem dok_cval {V : List Key} {s : Slot} {v : Int} (h : DictSlotOK V s) :
    DictSlotOK V { s with cval := v } := by
  unfold DictSlotOK at *
  grind

theorem dInsBits_sk (s : Slot) : (dInsBits s).st = s.st ∧ (dInsBits s).key = s.key := by
  unfold dInsBits; split
  · exact ⟨rfl, rfl⟩
  · split <;> exact ⟨rfl, rfl⟩

theorem dMarkBits_sk (t : Time) (s : Slot) : (dMarkBits t s).st = s.st ∧ (dMarkBits t s).key = s.key := by
  unfold dMarkBits; split <;> exact ⟨rfl, rfl⟩

theorem dInsBitsAt_sk (t : Time) (s : Slot) : (dInsBitsAt t s).st = s.st ∧ (dInsBitsAt t s).key = s.key := by
  unfold dInsBitsAt
  exact ⟨((dMarkBits_sk t _).1).trans (dInsBits_sk s).1, ((dMarkBits_sk t _).2).trans (dInsBits_sk s).2⟩

theorem dRemBits_sk (s : Slot) : (dRemBits s).st = s.st ∧ (dRemBits s).key = s.key := by
  unfold dRemBits
  by_cases h1 : s.published = true <;> by_cases h2 : s.added = true <;> simp [h1, h2]

theorem dChildBits_sk (s : Slot) : (dChildBits s).st = s.st ∧ (dChildBits s).key = s.key := by
  unfold dChildBits
  by_cases h0 : (s.clmt == 0) = true <;> by_cases h1 : s.published = true <;> by_cases h2 : s.added = true <;>
    by_cases h3 : s.removed = true <;> simp [h0, h1, h2, h3]

structure TSD.Inv (x : TSD) (V0 : List Key) : Prop where
  wf : x.keys.WF
  slot : ∀ i, DictSlotOK V0 (sget x.keys.slots i)
  cover : ∀ k ∈ V0, ∃ i, (sget x.keys.slots i).st ≠ .free ∧ (sget x.keys.slots i).key = k

theorem TSD.Inv_empty : TSD.Inv {} [] := by
  refine ⟨Store.WF_empty, ?_, by simp⟩
  intro i
  simp [DictSlotOK, sget]

theorem TSD.Inv_congr {x y : TSD} {V : List Key} (h : x.Inv V) (e : y.keys = x.keys) : y.Inv V := by
  refine ⟨?_, ?_, ?_⟩
  · rw [e]; exact h.wf
  · rw [e]; exact h.slot
  · rw [e]; exact h.cover

theorem TSD.Inv_update {x : TSD} {V : List Key} (h : x.Inv V) {y : TSD} {i : Nat} {s' : Slot}
    (hwf : y.keys.WF) (hget : ∀ j, sget y.keys.slots j = if j = i then s' else sget x.keys.slots j)
    (hs' : DictSlotOK V s')
    (hst : (sget x.keys.slots i).st ≠ .free → s'.st ≠ .free ∧ s'.key = (sget x.keys.slots i).key) :
    y.Inv V := by
  refine ⟨hwf, ?_, ?_⟩
  · intro j
    rw [hget j]
    split
    · exact hs'
    · exact h.slot j
  · intro k hk
    obtain ⟨j, hs, hkj⟩ := h.cover k hk
    refine ⟨j, ?_, ?_⟩
    · rw [hget j]; split
      · rename_i e; subst e; exact (hst hs).1
      · exact hs
    · rw [hget j]; split
      · rename_i e; subst e; rw [(hst hs).2]; exact hkj
      · exact hkj

theorem mem_validKeys {x : TSD} {k : Key} :
    k ∈ x.validKeys ↔ ∃ i, (sget x.keys.slots i).st = .live ∧ (sget x.keys.slots i).clmt ≠ 0 ∧
      (sget x.keys.slots i).key = k := by
  unfold TSD.validKeys
  rw [mem_filter_map_key (by rfl)]
  simp [Slot.member, and_assoc]

/-- the ghost: valid keys at the start of the delta window after an operation at time `t` -/
def TSD.ghost (x : TSD) (V0 : List Key) (t : Time) : List Key :=
  if t ≤ x.deltaTime then V0 else x.validKeys

theorem TSD.ghost_of_le {x : TSD} {V0 : List Key} {t : Time} (h : t ≤ x.deltaTime) : x.ghost V0 t = V0 := by
  simp [TSD.ghost, h]

theorem TSD.prepareDelta_of_le {x : TSD} {t : Time} (h : t ≤ x.deltaTime) : x.prepareDelta t = x := by
  simp [TSD.prepareDelta, h]

theorem TSD.deltaTime_prepare (x : TSD) (t : Time) : (x.prepareDelta t).deltaTime = max x.deltaTime t := by
  unfold TSD.prepareDelta
  by_cases h : t ≤ x.deltaTime
  · simp only [h, ↓reduceIte]; omega
  · simp only [h, ↓reduceIte]; omega

theorem TSD.lmt_prepare (x : TSD) (t : Time) : (x.prepareDelta t).lmt = x.lmt := by
  unfold TSD.prepareDelta; split <;> rfl

theorem TSD.prepare_slots {x : TSD} (h : x.keys.WF) {t : Time} (ht : ¬ t ≤ x.deltaTime) :
    (x.prepareDelta t).keys.WF ∧ ∀ j, sget (x.prepareDelta t).keys.slots j =
      clearDictBits (if (sget x.keys.slots j).st = .pending then { sget x.keys.slots j with st := .free }
        else sget x.keys.slots j) := by
  unfold TSD.prepareDelta
  simp only [ht, ↓reduceIte]
  obtain ⟨hwf, hsl⟩ := Store.erasePending_spec h
  refine ⟨Store.WF_mapSlots hwf _ (by rfl) (fun _ => ⟨rfl, rfl⟩), ?_⟩
  intro j
  simp only [Store.mapSlots]
  rw [sget_map _ _ (by rfl), hsl j]

theorem TSD.prepare_inv {x : TSD} {V0 : List Key} (h : x.Inv V0) (t : Time) :
    (x.prepareDelta t).Inv (x.ghost V0 t) := by
  by_cases ht : t ≤ x.deltaTime
  · rw [TSD.prepareDelta_of_le ht, TSD.ghost_of_le ht]; exact h
  · obtain ⟨hwf, hget⟩ := TSD.prepare_slots h.wf ht
    have hg : x.ghost V0 t = x.validKeys := by simp [TSD.ghost, ht]
    rw [hg]
    refine ⟨hwf, ?_, ?_⟩
    · intro j
      rw [hget j]
      apply dok_clear (h.slot j)
      · intro hp
        obtain ⟨_, o2, _⟩ := h.slot j
        exact mem_validKeys.mpr ⟨j, (o2 hp).1, (o2 hp).2, rfl⟩
      · intro hl hnp hmem
        obtain ⟨i, hil, hic, hik⟩ := mem_validKeys.mp hmem
        have : i = j := h.wf.uniq i j (by rw [hil]; decide) (by rw [hl]; decide) hik
        subst this
        obtain ⟨_, _, o3, _⟩ := h.slot i
        rw [o3 hil hic] at hnp; cases hnp
    · intro k hk
      obtain ⟨i, hl, _, hki⟩ := mem_validKeys.mp hk
      have hnp : (sget x.keys.slots i).st ≠ .pending := by rw [hl]; decide
      refine ⟨i, ?_, ?_⟩
      · rw [hget i, if_neg hnp]; simp only [clearDictBits, hl]; decide
      · rw [hget i, if_neg hnp]; simp only [clearDictBits, hki]

/-- `insert_key`: besides the invariant, the returned slot is live afterwards and holds `k` -/
theorem TSD.insertKey_inv {x : TSD} {V0 : List Key} (h : x.Inv V0) (t : Time) (k : Key) :
    (x.insertKey t k).1.Inv (x.ghost V0 t) ∧ (x.insertKey t k).1.deltaTime = max x.deltaTime t ∧
    (x.insertKey t k).1.lmt = x.lmt ∧
    (sget (x.insertKey t k).1.keys.slots (x.insertKey t k).2.slot).st = .live ∧
    (sget (x.insertKey t k).1.keys.slots (x.insertKey t k).2.slot).key = k := by
  have h1 := TSD.prepare_inv h t
  have hd := TSD.deltaTime_prepare x t
  have hl := TSD.lmt_prepare x t
  generalize x.ghost V0 t = V at h1
  unfold TSD.insertKey
  generalize x.prepareDelta t = x1 at h1 hd hl
  obtain ⟨hwf, hlt, hcase⟩ := Store.insert_spec h1.wf k
  simp only
  cases hcase with
  | present hi1 hi2 hi3 hi4 =>
    simp only [hi1, Bool.false_eq_true, ↓reduceIte]
    refine ⟨TSD.Inv_congr h1 hi2, hd, hl, ?_, ?_⟩
    · rw [hi2]; exact hi3
    · rw [hi2]; exact hi4
  | resurrect hi1 hi2 hi3 hi4 hi5 =>
    simp only [hi1, ↓reduceIte]
    have hget : ∀ j, sget ((x1.keys.insert k).1.modifySlot (x1.keys.insert k).2.slot (dInsBitsAt t)).slots j =
        if j = (x1.keys.insert k).2.slot then dInsBitsAt t { sget x1.keys.slots (x1.keys.insert k).2.slot with st := .live }
        else sget x1.keys.slots j := by
      intro j
      simp only [Store.modifySlot, sget_modify, hi5]
      by_cases hj : j = (x1.keys.insert k).2.slot
      · subst hj; simp [hlt]
      · have : ¬ ((x1.keys.insert k).2.slot = j ∧ j < (x1.keys.insert k).1.slots.length) := fun e => hj e.1.symm
        simp [this, hj]
    refine ⟨?_, hd, hl, ?_, ?_⟩
    · apply TSD.Inv_update h1 (i := (x1.keys.insert k).2.slot)
        (s' := dInsBitsAt t { sget x1.keys.slots (x1.keys.insert k).2.slot with st := .live })
      · exact Store.WF_modifySlot hwf _ _ (dInsBitsAt_sk t)
      · exact hget
      · exact dok_ins_resurrect (h1.slot _) hi3
      · intro _
        have := dInsBitsAt_sk t { sget x1.keys.slots (x1.keys.insert k).2.slot with st := .live }
        rw [this.1, this.2]
        exact ⟨by simp, rfl⟩
    · rw [hget, if_pos rfl, (dInsBitsAt_sk _ _).1]
    · rw [hget, if_pos rfl, (dInsBitsAt_sk _ _).2]; exact hi4
  | fresh hi1 hi2 hi3 hi4 hi5 =>
    simp only [hi1, ↓reduceIte]
    have hkV : k ∉ V := by
      intro hk
      obtain ⟨i, hs, hki⟩ := h1.cover k hk
      exact hi3 i hs hki
    have hget : ∀ j, sget ((x1.keys.insert k).1.modifySlot (x1.keys.insert k).2.slot (dInsBitsAt t)).slots j =
        if j = (x1.keys.insert k).2.slot then
          dInsBitsAt t { sget x1.keys.slots (x1.keys.insert k).2.slot with st := .live, key := k, cval := 0, clmt := 0 }
        else sget x1.keys.slots j := by
      intro j
      simp only [Store.modifySlot, sget_modify, hi5]
      by_cases hj : j = (x1.keys.insert k).2.slot
      · subst hj; simp [hlt]
      · have : ¬ ((x1.keys.insert k).2.slot = j ∧ j < (x1.keys.insert k).1.slots.length) := fun e => hj e.1.symm
        simp [this, hj]
    refine ⟨?_, hd, hl, ?_, ?_⟩
    · apply TSD.Inv_update h1 (i := (x1.keys.insert k).2.slot)
        (s' := dInsBitsAt t { sget x1.keys.slots (x1.keys.insert k).2.slot with st := .live, key := k, cval := 0, clmt := 0 })
      · exact Store.WF_modifySlot hwf _ _ (dInsBitsAt_sk t)
      · exact hget
      · exact dok_ins_fresh (h1.slot _) hi4 hkV
      · intro hne; exact absurd hi4 hne
    · rw [hget, if_pos rfl, (dInsBitsAt_sk _ _).1]
    · rw [hget, if_pos rfl, (dInsBitsAt_sk _ _).2]

theorem TSD.removeKey_inv {x : TSD} {V0 : List Key} (h : x.Inv V0) (t : Time) (k : Key) :
    (x.removeKey t k).1.Inv (x.ghost V0 t) ∧ (x.removeKey t k).1.deltaTime = max x.deltaTime t ∧
    (x.removeKey t k).1.lmt = x.lmt := by
  have h1 := TSD.prepare_inv h t
  have hd := TSD.deltaTime_prepare x t
  have hl := TSD.lmt_prepare x t
  generalize x.ghost V0 t = V at h1
  unfold TSD.removeKey
  generalize x.prepareDelta t = x1 at h1 hd hl
  simp only
  cases hf : findLive x1.keys.slots k with
  | none => exact ⟨h1, hd, hl⟩
  | some i =>
    simp only
    obtain ⟨hlive, hki⟩ := findLive_some hf
    obtain ⟨hr, hwf, hget⟩ := Store.removeSlot_spec h1.wf hlive
    have hilt : i < x1.keys.slots.length := lt_of_st_ne_free (by rw [hlive]; decide)
    simp only [hr, ↓reduceIte]
    refine ⟨?_, hd, hl⟩
    apply TSD.Inv_update h1 (i := i) (s' := dRemBits { sget x1.keys.slots i with st := .pending })
    · exact Store.WF_modifySlot hwf _ _ dRemBits_sk
    · intro j
      simp only [Store.modifySlot, sget_modify, hget]
      have hlen : (x1.keys.removeSlot i).1.slots.length = x1.keys.slots.length := by
        unfold Store.removeSlot; simp [hlive]
      by_cases hj : j = i
      · subst hj; simp [hlen, hilt]
      · have : ¬ (i = j ∧ j < (x1.keys.removeSlot i).1.slots.length) := fun e => hj e.1.symm
        simp [this, hj]
    · exact dok_rem (h1.slot _) hlive
    · intro _
      have := dRemBits_sk { sget x1.keys.slots i with st := .pending }
      rw [this.1, this.2]
      exact ⟨by simp, rfl⟩


theorem TSD.at_inv {x : TSD} {V0 : List Key} (h : x.Inv V0) (t : Time) (k : Key) :
    (x.at t k).1.Inv (x.ghost V0 t) ∧ (x.at t k).1.deltaTime = max x.deltaTime t ∧
    (sget (x.at t k).1.keys.slots (x.at t k).2).st = .live ∧
    (sget (x.at t k).1.keys.slots (x.at t k).2).key = k := by
  obtain ⟨h1, h2, _, h4, h5⟩ := TSD.insertKey_inv h t k
  unfold TSD.at TSD.markModified
  by_cases hi : (x.insertKey t k).2.inserted = true
  · simp only [hi, ↓reduceIte]
    exact ⟨TSD.Inv_congr h1 rfl, h2, h4, h5⟩
  · simp only [hi, Bool.false_eq_true, ↓reduceIte]
    exact ⟨h1, h2, h4, h5⟩

theorem TSD.writeChild_inv {x : TSD} {V : List Key} (h : x.Inv V) {i : Nat} {t : Time} (v : Int)
    (hl : (sget x.keys.slots i).st = .live) (ht : t ≠ 0) (hd : t ≤ x.deltaTime) :
    (x.writeChild i t v).Inv V ∧ (x.writeChild i t v).deltaTime = x.deltaTime := by
  have hilt : i < x.keys.slots.length := lt_of_st_ne_free (by rw [hl]; decide)
  -- value-only write
  have hval : TSD.Inv { x with keys := x.keys.modifySlot i (fun s => { s with cval := v }) } V ∧
      (sget (x.keys.modifySlot i (fun s => { s with cval := v })).slots i) = { sget x.keys.slots i with cval := v } := by
    have hget : ∀ j, sget (x.keys.modifySlot i (fun s => { s with cval := v })).slots j =
        if j = i then { sget x.keys.slots i with cval := v } else sget x.keys.slots j := by
      intro j
      simp only [Store.modifySlot, sget_modify]
      by_cases hj : j = i
      · subst hj; simp [hilt]
      · have : ¬ (i = j ∧ j < x.keys.slots.length) := fun e => hj e.1.symm
        simp [this, hj]
    refine ⟨?_, by rw [hget, if_pos rfl]⟩
    apply TSD.Inv_update h (i := i) (s' := { sget x.keys.slots i with cval := v })
    · exact Store.WF_modifySlot h.wf _ _ (fun _ => ⟨rfl, rfl⟩)
    · exact hget
    · exact dok_cval (h.slot i)
    · intro _; exact ⟨by simp [hl], rfl⟩
  unfold TSD.writeChild
  simp only
  by_cases hfirst : ((sget x.keys.slots i).clmt != t) = true
  · simp only [hfirst, ↓reduceIte]
    by_cases hle : t ≤ (sget x.keys.slots i).clmt
    · simp only [hle, ↓reduceIte]; exact ⟨hval.1, by first | rfl | trivial⟩
    · simp only [hle, ↓reduceIte]
      unfold TSD.recordChildModified TSD.markModified
      -- slots after the two child writes
      have hget2 : ∀ j, sget ((x.keys.modifySlot i (fun s => { s with cval := v })).modifySlot i
            (fun s => { s with clmt := t })).slots j =
          if j = i then { sget x.keys.slots i with cval := v, clmt := t } else sget x.keys.slots j := by
        intro j
        simp only [Store.modifySlot, sget_modify, List.length_modify]
        by_cases hj : j = i
        · subst hj; simp [hilt]
        · have : ¬ (i = j ∧ j < x.keys.slots.length) := fun e => hj e.1.symm
          simp [this, hj]
      have hlive2 : (sget ((x.keys.modifySlot i (fun s => { s with cval := v })).modifySlot i
            (fun s => { s with clmt := t })).slots i).st = .live := by
        rw [hget2, if_pos rfl]; exact hl
      have hb : ((sget ((x.keys.modifySlot i (fun s => { s with cval := v })).modifySlot i
            (fun s => { s with clmt := t })).slots i).st != St.live) = false := by simp [hlive2]
      simp only [hb, Bool.false_eq_true, ↓reduceIte]
      rw [TSD.prepareDelta_of_le (by exact hd)]
      refine ⟨?_, rfl⟩
      apply TSD.Inv_update h (i := i) (s' := dChildBits { sget x.keys.slots i with cval := v, clmt := t })
      · have w1 := Store.WF_modifySlot h.wf i (fun s => { s with cval := v }) (fun _ => ⟨rfl, rfl⟩)
        have w2 := Store.WF_modifySlot w1 i (fun s => { s with clmt := t }) (fun _ => ⟨rfl, rfl⟩)
        exact Store.WF_modifySlot w2 i dChildBits dChildBits_sk
      · intro j
        simp only [Store.modifySlot, sget_modify, List.length_modify]
        by_cases hj : j = i
        · subst hj; simp [hilt]
        · have : ¬ (i = j ∧ j < x.keys.slots.length) := fun e => hj e.1.symm
          simp [this, hj]
      · exact dok_child (h.slot i) hl ht
      · intro _
        have := dChildBits_sk { sget x.keys.slots i with cval := v, clmt := t }
        rw [this.1, this.2]
        exact ⟨by simp [hl], rfl⟩
  · simp only [hfirst, Bool.false_eq_true, ↓reduceIte]; exact ⟨hval.1, by first | rfl | trivial⟩

theorem TSD.set_inv {x : TSD} {V0 : List Key} (h : x.Inv V0) {t : Time} (ht : t ≠ 0) (k : Key) (v : Int) :
    (x.set t k v).Inv (x.ghost V0 t) ∧ (x.set t k v).deltaTime = max x.deltaTime t := by
  obtain ⟨h1, h2, h3, _⟩ := TSD.at_inv h t k
  unfold TSD.set
  have := TSD.writeChild_inv h1 v h3 ht (by rw [h2]; omega)
  exact ⟨this.1, by rw [this.2, h2]⟩

theorem TSD.touchOp_inv {x : TSD} {V0 : List Key} (h : x.Inv V0) (t : Time) :
    (x.touchOp t).Inv (x.ghost V0 t) ∧ (x.touchOp t).deltaTime = max x.deltaTime t := by
  have h1 := TSD.prepare_inv h t
  have hd := TSD.deltaTime_prepare x t
  unfold TSD.touchOp TSD.touch TSD.markModified
  simp only
  by_cases e : ((x.prepareDelta t).lmt != t) = true
  · simp only [e, ↓reduceIte]
    split
    · exact ⟨TSD.Inv_congr h1 rfl, hd⟩
    · exact ⟨TSD.Inv_congr h1 rfl, hd⟩
  · simp only [e, Bool.false_eq_true, ↓reduceIte]
    split
    · exact ⟨TSD.Inv_congr h1 rfl, hd⟩
    · exact ⟨h1, hd⟩

theorem TSD.erase_inv {x : TSD} {V0 : List Key} (h : x.Inv V0) (t : Time) (k : Key) :
    (x.erase t k).1.Inv (x.ghost V0 t) ∧ (x.erase t k).1.deltaTime = max x.deltaTime t := by
  obtain ⟨h1, h2, _⟩ := TSD.removeKey_inv h t k
  have hd : t ≤ (x.removeKey t k).1.deltaTime := by rw [h2]; omega
  unfold TSD.erase
  by_cases hc : (x.removeKey t k).2 = true
  · simp only [hc, ↓reduceIte]; unfold TSD.markModified; exact ⟨TSD.Inv_congr h1 rfl, h2⟩
  · simp only [hc, Bool.false_eq_true, ↓reduceIte]
    obtain ⟨i1, i2⟩ := TSD.touchOp_inv h1 t
    rw [TSD.ghost_of_le hd] at i1
    exact ⟨i1, by rw [i2, h2]; omega⟩

theorem TSD.eraseAll_inv (ks : List Key) {t : Time} {V : List Key} : ∀ {y : TSD}, y.Inv V → t ≤ y.deltaTime →
    (ks.foldl (fun y k => (y.erase t k).1) y).Inv V ∧
    (ks.foldl (fun y k => (y.erase t k).1) y).deltaTime = y.deltaTime := by
  induction ks with
  | nil => intro y h _; exact ⟨h, rfl⟩
  | cons k rest ih =>
    intro y h hd
    obtain ⟨h1, h2⟩ := TSD.erase_inv h t k
    rw [TSD.ghost_of_le hd] at h1
    have hd' : t ≤ (y.erase t k).1.deltaTime := by rw [h2]; omega
    obtain ⟨i1, i2⟩ := ih h1 hd'
    simp only [List.foldl_cons]
    exact ⟨i1, by rw [i2, h2]; omega⟩

theorem TSD.clear_inv {x : TSD} {V0 : List Key} (h : x.Inv V0) (t : Time) :
    (x.clear t).Inv (x.ghost V0 t) ∧ (x.clear t).deltaTime = max x.deltaTime t := by
  obtain ⟨h1, hd⟩ := TSD.touchOp_inv h t
  unfold TSD.clear
  obtain ⟨i1, i2⟩ := TSD.eraseAll_inv (liveKeys x.keys.slots) (t := t) h1 (by rw [hd]; omega)
  exact ⟨i1, by rw [i2, hd]⟩

theorem TSD.step_inv {x : TSD} {V0 : List Key} (h : x.Inv V0) (o : DictOp) :
    (x.step o).Inv (x.ghost V0 o.time) ∧ (x.step o).deltaTime = max x.deltaTime o.time := by
  unfold TSD.step
  by_cases h0 : o.time = 0
  · simp only [h0, beq_self_eq_true, ↓reduceIte]
    exact ⟨by rw [TSD.ghost_of_le (Nat.zero_le _)]; exact h, by omega⟩
  · have : (o.time == 0) = false := by simpa using h0
    simp only [this, Bool.false_eq_true, ↓reduceIte]
    cases o with
    | set t k v => exact TSD.set_inv h h0 k v
    | «at» t k =>
      have := TSD.at_inv h t k
      exact ⟨this.1, this.2.1⟩
    | erase t k => exact TSD.erase_inv h t k
    | clear t => exact TSD.clear_inv h t
    | touch t => exact TSD.touchOp_inv h t


/-! ### what `set` / `erase` do to the set of valid keys -/

theorem TSD.validKeys_prepare (x : TSD) (h : x.keys.WF) (t : Time) (k' : Key) :
    k' ∈ (x.prepareDelta t).validKeys ↔ k' ∈ x.validKeys := by
  by_cases ht : t ≤ x.deltaTime
  · rw [TSD.prepareDelta_of_le ht]
  · obtain ⟨_, hget⟩ := TSD.prepare_slots h ht
    rw [mem_validKeys, mem_validKeys]
    constructor
    · rintro ⟨i, hl, hc, hk⟩
      rw [hget i] at hl hc hk
      by_cases hp : (sget x.keys.slots i).st = .pending
      · rw [if_pos hp] at hl; simp [clearDictBits] at hl
      · rw [if_neg hp] at hl hc hk
        exact ⟨i, by simpa [clearDictBits] using hl, by simpa [clearDictBits] using hc,
          by simpa [clearDictBits] using hk⟩
    · rintro ⟨i, hl, hc, hk⟩
      have hp : (sget x.keys.slots i).st ≠ .pending := by rw [hl]; decide
      refine ⟨i, ?_, ?_, ?_⟩
      · rw [hget i, if_neg hp]; simpa [clearDictBits] using hl
      · rw [hget i, if_neg hp]; simpa [clearDictBits] using hc
      · rw [hget i, if_neg hp]; simpa [clearDictBits] using hk

/-- frame of `insert_key`: only the returned slot changes, and if that slot was live before it held `k` -/
theorem TSD.insertKey_frame {x : TSD} (h : x.keys.WF) (t : Time) (k : Key) :
    (∀ j, j ≠ (x.insertKey t k).2.slot →
      sget (x.insertKey t k).1.keys.slots j = sget (x.prepareDelta t).keys.slots j) ∧
    ((sget (x.prepareDelta t).keys.slots (x.insertKey t k).2.slot).st = .live →
      (sget (x.prepareDelta t).keys.slots (x.insertKey t k).2.slot).key = k) := by
  have hwf1 : (x.prepareDelta t).keys.WF := by
    by_cases ht : t ≤ x.deltaTime
    · rw [TSD.prepareDelta_of_le ht]; exact h
    · exact (TSD.prepare_slots h ht).1
  unfold TSD.insertKey
  generalize x.prepareDelta t = x1 at hwf1
  obtain ⟨hwf, hlt, hcase⟩ := Store.insert_spec hwf1 k
  simp only
  cases hcase with
  | present hi1 hi2 hi3 hi4 =>
    simp only [hi1, Bool.false_eq_true, ↓reduceIte, hi2]
    exact ⟨fun _ _ => by first | rfl | trivial, fun _ => hi4⟩
  | resurrect hi1 hi2 hi3 hi4 hi5 =>
    simp only [hi1, ↓reduceIte]
    refine ⟨?_, fun hl => by rw [hi3] at hl; cases hl⟩
    intro j hj
    simp only [Store.modifySlot, sget_modify, hi5]
    have : ¬ ((x1.keys.insert k).2.slot = j ∧ j < (x1.keys.insert k).1.slots.length) := fun e => hj e.1.symm
    simp [this, hj]
  | fresh hi1 hi2 hi3 hi4 hi5 =>
    simp only [hi1, ↓reduceIte]
    refine ⟨?_, fun hl => by rw [hi4] at hl; cases hl⟩
    intro j hj
    simp only [Store.modifySlot, sget_modify, hi5]
    have : ¬ ((x1.keys.insert k).2.slot = j ∧ j < (x1.keys.insert k).1.slots.length) := fun e => hj e.1.symm
    simp [this, hj]

/-- frame of the child write: other slots unchanged; the written slot stays live with its key and is valid -/
theorem TSD.writeChild_frame {x : TSD} {i : Nat} {t : Time} (v : Int)
    (hl : (sget x.keys.slots i).st = .live) (ht : t ≠ 0) (hd : t ≤ x.deltaTime) :
    (∀ j, j ≠ i → sget (x.writeChild i t v).keys.slots j = sget x.keys.slots j) ∧
    (sget (x.writeChild i t v).keys.slots i).st = .live ∧
    (sget (x.writeChild i t v).keys.slots i).key = (sget x.keys.slots i).key ∧
    (sget (x.writeChild i t v).keys.slots i).clmt ≠ 0 := by
  have hilt : i < x.keys.slots.length := lt_of_st_ne_free (by rw [hl]; decide)
  have hget1 : ∀ j, sget (x.keys.modifySlot i (fun s => { s with cval := v })).slots j =
      if j = i then { sget x.keys.slots i with cval := v } else sget x.keys.slots j := by
    intro j
    simp only [Store.modifySlot, sget_modify]
    by_cases hj : j = i
    · subst hj; simp [hilt]
    · have : ¬ (i = j ∧ j < x.keys.slots.length) := fun e => hj e.1.symm
      simp [this, hj]
  unfold TSD.writeChild
  simp only
  by_cases hfirst : ((sget x.keys.slots i).clmt != t) = true
  · simp only [hfirst, ↓reduceIte]
    by_cases hle : t ≤ (sget x.keys.slots i).clmt
    · simp only [hle, ↓reduceIte]
      refine ⟨fun j hj => by rw [hget1 j, if_neg hj], by rw [hget1, if_pos rfl]; exact hl,
        by rw [hget1, if_pos rfl], ?_⟩
      rw [hget1, if_pos rfl]
      show (sget x.keys.slots i).clmt ≠ 0
      omega
    · simp only [hle, ↓reduceIte]
      unfold TSD.recordChildModified TSD.markModified
      have hget2 : ∀ j, sget ((x.keys.modifySlot i (fun s => { s with cval := v })).modifySlot i
            (fun s => { s with clmt := t })).slots j =
          if j = i then { sget x.keys.slots i with cval := v, clmt := t } else sget x.keys.slots j := by
        intro j
        simp only [Store.modifySlot, sget_modify, List.length_modify]
        by_cases hj : j = i
        · subst hj; simp [hilt]
        · have : ¬ (i = j ∧ j < x.keys.slots.length) := fun e => hj e.1.symm
          simp [this, hj]
      have hb : ((sget ((x.keys.modifySlot i (fun s => { s with cval := v })).modifySlot i
            (fun s => { s with clmt := t })).slots i).st != St.live) = false := by
        rw [hget2, if_pos rfl]; simp [hl]
      simp only [hb, Bool.false_eq_true, ↓reduceIte]
      rw [TSD.prepareDelta_of_le (by exact hd)]
      have hget3 : ∀ j, sget (((x.keys.modifySlot i (fun s => { s with cval := v })).modifySlot i
            (fun s => { s with clmt := t })).modifySlot i dChildBits).slots j =
          if j = i then dChildBits { sget x.keys.slots i with cval := v, clmt := t } else sget x.keys.slots j := by
        intro j
        simp only [Store.modifySlot, sget_modify, List.length_modify]
        by_cases hj : j = i
        · subst hj; simp [hilt]
        · have : ¬ (i = j ∧ j < x.keys.slots.length) := fun e => hj e.1.symm
          simp [this, hj]
      refine ⟨fun j hj => by rw [hget3 j, if_neg hj], ?_, ?_, ?_⟩
      · rw [hget3, if_pos rfl, (dChildBits_sk _).1]; exact hl
      · rw [hget3, if_pos rfl, (dChildBits_sk _).2]
      · rw [hget3, if_pos rfl]
        have : (dChildBits { sget x.keys.slots i with cval := v, clmt := t }).clmt = t := by
          unfold dChildBits
          by_cases h0 : (t == 0) = true
          · simp at h0; exact absurd h0 ht
          · by_cases h1 : (sget x.keys.slots i).published = true <;>
              by_cases h3 : (sget x.keys.slots i).removed = true <;> simp [h0, h1, h3]
        rw [this]; exact ht
  · simp only [hfirst, Bool.false_eq_true, ↓reduceIte]
    refine ⟨fun j hj => by rw [hget1 j, if_neg hj], by rw [hget1, if_pos rfl]; exact hl,
      by rw [hget1, if_pos rfl], ?_⟩
    rw [hget1, if_pos rfl]
    show (sget x.keys.slots i).clmt ≠ 0
    have : (sget x.keys.slots i).clmt = t := by simpa using hfirst
    omega

theorem TSD.validKeys_set {x : TSD} {V0 : List Key} (h : x.Inv V0) {t : Time} (ht : t ≠ 0) (k : Key) (v : Int)
    (k' : Key) : k' ∈ (x.set t k v).validKeys ↔ k' = k ∨ k' ∈ x.validKeys := by
  rw [← TSD.validKeys_prepare x h.wf t k']
  obtain ⟨h1, h2, h3, h4⟩ := TSD.at_inv h t k
  obtain ⟨f1, f2⟩ := TSD.insertKey_frame h.wf t k
  have hatkeys : (x.at t k).1.keys = (x.insertKey t k).1.keys := by
    unfold TSD.at TSD.markModified
    by_cases hi : (x.insertKey t k).2.inserted = true <;> simp [hi]
  have hatslot : (x.at t k).2 = (x.insertKey t k).2.slot := rfl
  obtain ⟨w1, w2, w3, w4⟩ := TSD.writeChild_frame (x := (x.at t k).1) (i := (x.at t k).2) v h3 ht (by rw [h2]; omega)
  unfold TSD.set
  rw [mem_validKeys, mem_validKeys]
  constructor
  · rintro ⟨j, hl, hc, hk⟩
    by_cases hj : j = (x.at t k).2
    · subst hj
      left; rw [← hk, w3, h4]
    · right
      rw [w1 j hj, hatkeys] at hl hc hk
      rw [f1 j (by rw [← hatslot]; exact hj)] at hl hc hk
      exact ⟨j, hl, hc, hk⟩
  · rintro (rfl | ⟨j, hl, hc, hk⟩)
    · exact ⟨(x.at t k').2, w2, w4, by rw [w3, h4]⟩
    · by_cases hj : j = (x.at t k).2
      · subst hj
        exact ⟨(x.at t k).2, w2, w4, by rw [w3, h4, ← hk, hatslot]; exact (f2 (by rw [← hatslot]; exact hl)).symm⟩
      · exact ⟨j, by rw [w1 j hj, hatkeys, f1 j (by rw [← hatslot]; exact hj)]; exact hl,
          by rw [w1 j hj, hatkeys, f1 j (by rw [← hatslot]; exact hj)]; exact hc,
          by rw [w1 j hj, hatkeys, f1 j (by rw [← hatslot]; exact hj)]; exact hk⟩

theorem TSD.erase_keys {x : TSD} (t : Time) (k : Key) (hd : t ≤ (x.removeKey t k).1.deltaTime) :
    (x.erase t k).1.keys = (x.removeKey t k).1.keys := by
  unfold TSD.erase
  by_cases hc : (x.removeKey t k).2 = true
  · simp only [hc, ↓reduceIte]; rfl
  · simp only [hc, Bool.false_eq_true, ↓reduceIte]
    unfold TSD.touchOp TSD.touch TSD.markModified
    simp only [TSD.prepareDelta_of_le hd]
    split <;> split <;> rfl

theorem TSD.validKeys_erase {x : TSD} {V0 : List Key} (h : x.Inv V0) (t : Time) (k k' : Key) :
    k' ∈ (x.erase t k).1.validKeys ↔ k' ≠ k ∧ k' ∈ x.validKeys := by
  rw [← TSD.validKeys_prepare x h.wf t k']
  have hd := (TSD.removeKey_inv h t k).2.1
  have hk := TSD.erase_keys (x := x) t k (by rw [hd]; omega)
  have h1 := TSD.prepare_inv h t
  generalize x.ghost V0 t = V at h1
  rw [mem_validKeys, mem_validKeys, hk]
  unfold TSD.removeKey
  generalize x.prepareDelta t = x1 at h1
  simp only
  cases hf : findLive x1.keys.slots k with
  | none =>
    simp only
    constructor
    · rintro ⟨j, hl, hc, hkj⟩
      refine ⟨?_, j, hl, hc, hkj⟩
      rw [← hkj]; exact findLive_none hf h1.wf.uniq j hl
    · exact fun hh => hh.2
  | some i =>
    simp only
    obtain ⟨hlive, hki⟩ := findLive_some hf
    obtain ⟨hr, hwf, hget0⟩ := Store.removeSlot_spec h1.wf hlive
    have hilt : i < x1.keys.slots.length := lt_of_st_ne_free (by rw [hlive]; decide)
    simp only [hr, ↓reduceIte]
    have hget : ∀ j, sget ((x1.keys.removeSlot i).1.modifySlot i dRemBits).slots j =
        if j = i then dRemBits { sget x1.keys.slots i with st := .pending } else sget x1.keys.slots j := by
      intro j
      simp only [Store.modifySlot, sget_modify, hget0]
      have hlen : (x1.keys.removeSlot i).1.slots.length = x1.keys.slots.length := by
        unfold Store.removeSlot; simp [hlive]
      by_cases hj : j = i
      · subst hj; simp [hlen, hilt]
      · have : ¬ (i = j ∧ j < (x1.keys.removeSlot i).1.slots.length) := fun e => hj e.1.symm
        simp [this, hj]
    constructor
    · rintro ⟨j, hl, hc, hkj⟩
      rw [hget j] at hl hc hkj
      by_cases hj : j = i
      · rw [if_pos hj, (dRemBits_sk _).1] at hl; cases hl
      · rw [if_neg hj] at hl hc hkj
        refine ⟨?_, j, hl, hc, hkj⟩
        intro e
        apply hj
        exact h1.wf.uniq j i (by rw [hl]; decide) (by rw [hlive]; decide) (by rw [hkj, e, hki])
    · rintro ⟨hne, j, hl, hc, hkj⟩
      have hj : j ≠ i := by
        intro e; subst e; exact hne (by rw [← hkj, hki])
      exact ⟨j, by rw [hget j, if_neg hj]; exact hl, by rw [hget j, if_neg hj]; exact hc,
        by rw [hget j, if_neg hj]; exact hkj⟩

end HgVerif.Slots
