import HgVerif.Model.SwitchColl
/-! Helper lemmas for `Props/C12Coll.lean`: the collection of `Model/SwitchColl.lean` refines a finite map
(`look`), and its per-cycle marks are a function of the value and the value at the start of the delta window. -/
namespace HgVerif.SwitchColl

local notation "Time" => Nat

/-- the value of a collection as a finite map -/
abbrev M := Key → Option Val
def M.empty : M := fun _ => none

/-- what an element operation does to a finite map (the specification of `Coll.apply`) -/
def Op.sem : Op → M → M
  | .put k v, m => fun j => if j = k then some v else m j
  | .del k, m => fun j => if j = k then none else m j
  | .clr, _ => M.empty

def semOps (ops : List Op) (m : M) : M := ops.foldl (fun m o => o.sem m) m

theorem semOps_append (a b : List Op) (m : M) : semOps (a ++ b) m = semOps b (semOps a m) := by
  simp [semOps, List.foldl_append]

/-! ## lists -/

theorem look_eraseKey (l : List (Key × Val)) (k j : Key) :
    look (eraseKey l k) j = if j = k then none else look l j := by
  induction l with
  | nil => simp [eraseKey, look]
  | cons p r ih =>
    simp only [eraseKey] at ih ⊢
    by_cases hp : p.1 = k
    · simp only [List.filter_cons, hp, ne_eq, not_true_eq_false, decide_false, Bool.false_eq_true, ↓reduceIte, ih, look]
      by_cases hj : j = k
      · simp [hj]
      · have : ¬ k = j := fun h => hj h.symm
        simp [hj, this]
    · simp only [List.filter_cons, ne_eq, hp, not_false_eq_true, decide_true, ↓reduceIte, look, ih]
      by_cases hj : j = k
      · subst hj; simp [hp]
      · simp [hj]

theorem look_cons_erase (l : List (Key × Val)) (k : Key) (v : Val) (j : Key) :
    look ((k, v) :: eraseKey l k) j = if j = k then some v else look l j := by
  simp only [look, look_eraseKey]
  by_cases hj : j = k
  · simp [hj]
  · have : ¬ k = j := fun h => hj h.symm
    simp [hj, this]

theorem mem_ins {j k : Key} {l : List Key} : j ∈ ins k l ↔ j = k ∨ j ∈ l := by
  unfold ins
  by_cases h : k ∈ l
  · simp only [h, ↓reduceIte]
    constructor
    · exact Or.inr
    · rintro (rfl | h') <;> assumption
  · simp [h]

theorem mem_rem {j k : Key} {l : List Key} : j ∈ rem k l ↔ j ≠ k ∧ j ∈ l := by
  simp [rem, and_comm]

theorem look_ne_none_mem_keys {l : List (Key × Val)} {k : Key} (h : look l k ≠ none) : k ∈ l.map (·.1) := by
  induction l with
  | nil => simp [look] at h
  | cons p r ih =>
    simp only [look] at h
    by_cases hp : p.1 = k
    · simp [hp]
    · simp only [hp, ↓reduceIte] at h
      simp [ih h]

/-- the keys of the items are pairwise different (so the printed item list IS the finite map) -/
def KeysNodup (c : Coll) : Prop := (c.items.map (·.1)).Nodup

theorem keys_eraseKey (l : List (Key × Val)) (k j : Key) :
    j ∈ (eraseKey l k).map (·.1) ↔ j ≠ k ∧ j ∈ l.map (·.1) := by
  simp only [eraseKey, List.mem_map, List.mem_filter, decide_eq_true_eq]
  constructor
  · rintro ⟨p, ⟨hp, hne⟩, rfl⟩; exact ⟨hne, p, hp, rfl⟩
  · rintro ⟨hne, p, hp, rfl⟩; exact ⟨p, ⟨hp, hne⟩, rfl⟩

theorem nodup_eraseKey {l : List (Key × Val)} (h : (l.map (·.1)).Nodup) (k : Key) :
    ((eraseKey l k).map (·.1)).Nodup := by
  unfold eraseKey
  exact List.Nodup.sublist (List.Sublist.map _ List.filter_sublist) h

theorem nodup_cons_erase {l : List (Key × Val)} (h : (l.map (·.1)).Nodup) (k : Key) (v : Val) :
    ((((k, v) :: eraseKey l k)).map (·.1)).Nodup := by
  simp only [List.map_cons, List.nodup_cons]
  refine ⟨?_, nodup_eraseKey h k⟩
  intro hm
  exact ((keys_eraseKey l k k).mp hm).1 rfl

theorem mem_iff_look {l : List (Key × Val)} (h : (l.map (·.1)).Nodup) (k : Key) (v : Val) :
    (k, v) ∈ l ↔ look l k = some v := by
  induction l with
  | nil => simp [look]
  | cons p r ih =>
    simp only [List.map_cons, List.nodup_cons] at h
    simp only [List.mem_cons, look]
    by_cases hp : p.1 = k
    · simp only [hp, ↓reduceIte, Option.some.injEq]
      constructor
      · rintro (rfl | hr)
        · rfl
        · exact absurd (List.mem_map.mpr ⟨(k, v), hr, rfl⟩) (hp ▸ h.1)
      · intro hv; left; rw [← hv, ← hp]
    · simp only [hp, ↓reduceIte]
      rw [← ih h.2]
      constructor
      · rintro (rfl | hr)
        · exact absurd rfl hp
        · exact hr
      · exact Or.inr

/-! ## the marks are a function of the value and the window-start value -/

structure Marks (c : Coll) (V0 : M) : Prop where
  added : ∀ k, k ∈ c.added ↔ (V0 k = none ∧ look c.items k ≠ none)
  removed : ∀ k, k ∈ c.removed ↔ (V0 k ≠ none ∧ look c.items k = none)
  modLive : ∀ k, k ∈ c.modified → look c.items k ≠ none
  noSilent : ∀ k, look c.items k ≠ V0 k → k ∈ c.added ∨ k ∈ c.removed ∨ k ∈ c.modified

theorem Marks.init : Marks {} M.empty := by
  refine ⟨?_, ?_, ?_, ?_⟩ <;> intro k <;> simp [look, M.empty]

/-- the value at the start of the delta window after a mutation at `t` -/
def Coll.ghost (c : Coll) (V0 : M) (t : Time) : M := if t ≤ c.deltaTime then V0 else look c.items

theorem Coll.ghost_of_le {c : Coll} {V0 : M} {t : Time} (h : t ≤ c.deltaTime) : c.ghost V0 t = V0 := by
  simp [Coll.ghost, h]

theorem Coll.ghost_of_lt {c : Coll} {V0 : M} {t : Time} (h : c.deltaTime < t) : c.ghost V0 t = look c.items := by
  have : ¬ t ≤ c.deltaTime := by omega
  simp [Coll.ghost, this]

theorem recMod_eq_max (lmt t : Time) : recMod lmt t = max lmt t := by
  unfold recMod; split <;> omega

theorem touch_items (c : Coll) (t : Time) : (c.touch t).items = c.items := by
  unfold Coll.touch Coll.prepare; split <;> rfl

theorem touch_lmt (c : Coll) (t : Time) : (c.touch t).lmt = max c.lmt t := by
  unfold Coll.touch Coll.prepare; split <;> simp [recMod_eq_max]

theorem touch_dt (c : Coll) (t : Time) : (c.touch t).deltaTime = max c.deltaTime t := by
  unfold Coll.touch Coll.prepare; split <;> simp <;> omega

theorem touch_marks {c : Coll} {V0 : M} (h : Marks c V0) (t : Time) : Marks (c.touch t) (c.ghost V0 t) := by
  unfold Coll.touch Coll.prepare Coll.ghost
  by_cases ht : t ≤ c.deltaTime
  · simp only [ht, ↓reduceIte]
    exact ⟨h.added, h.removed, h.modLive, h.noSilent⟩
  · simp only [ht, ↓reduceIte]
    refine ⟨?_, ?_, ?_, ?_⟩ <;> intro k <;> simp

theorem touch_idem {c : Coll} {t : Time} (h1 : t ≤ c.deltaTime) (h2 : t ≤ c.lmt) : c.touch t = c := by
  unfold Coll.touch Coll.prepare recMod
  simp [h1, h2]

theorem putCore_marks {c : Coll} {V0 : M} (h : Marks c V0) (k : Key) (v : Val) : Marks (c.putCore k v) V0 := by
  unfold Coll.putCore
  cases hl : look c.items k with
  | some w =>
    simp only
    refine ⟨?_, ?_, ?_, ?_⟩
    · intro j
      simp only [look_cons_erase]
      rw [h.added j]
      by_cases hj : j = k
      · subst hj; simp [hl]
      · simp [hj]
    · intro j
      simp only [look_cons_erase]
      rw [h.removed j]
      by_cases hj : j = k
      · subst hj; simp [hl]
      · simp [hj]
    · intro j hj
      simp only [look_cons_erase]
      rcases mem_ins.mp hj with rfl | hj
      · simp
      · by_cases hjk : j = k
        · simp [hjk]
        · simpa [hjk] using h.modLive j hj
    · intro j hj
      simp only [look_cons_erase] at hj
      by_cases hjk : j = k
      · right; right; exact mem_ins.mpr (Or.inl hjk)
      · simp only [hjk, ↓reduceIte] at hj
        rcases h.noSilent j hj with h1 | h1 | h1
        · exact Or.inl h1
        · exact Or.inr (Or.inl h1)
        · exact Or.inr (Or.inr (mem_ins.mpr (Or.inr h1)))
  | none =>
    simp only
    by_cases hr : k ∈ c.removed
    · simp only [hr, ↓reduceIte]
      have hv0 : V0 k ≠ none := ((h.removed k).mp hr).1
      refine ⟨?_, ?_, ?_, ?_⟩
      · intro j
        simp only [look_cons_erase]
        rw [h.added j]
        by_cases hj : j = k
        · subst hj; simp [hl, hv0]
        · simp [hj]
      · intro j
        simp only [look_cons_erase, mem_rem]
        rw [h.removed j]
        by_cases hj : j = k
        · subst hj; simp
        · simp [hj]
      · intro j hj
        simp only [look_cons_erase]
        rcases mem_ins.mp hj with rfl | hj
        · simp
        · by_cases hjk : j = k
          · simp [hjk]
          · simpa [hjk] using h.modLive j hj
      · intro j hj
        simp only [look_cons_erase] at hj
        by_cases hjk : j = k
        · right; right; exact mem_ins.mpr (Or.inl hjk)
        · simp only [hjk, ↓reduceIte] at hj
          rcases h.noSilent j hj with h1 | h1 | h1
          · exact Or.inl h1
          · exact Or.inr (Or.inl (mem_rem.mpr ⟨hjk, h1⟩))
          · exact Or.inr (Or.inr (mem_ins.mpr (Or.inr h1)))
    · simp only [hr, ↓reduceIte]
      have hv0 : V0 k = none := by
        cases hv : V0 k with
        | none => rfl
        | some w => exact absurd ((h.removed k).mpr ⟨by simp [hv], hl⟩) hr
      refine ⟨?_, ?_, ?_, ?_⟩
      · intro j
        simp only [look_cons_erase, mem_ins]
        rw [h.added j]
        by_cases hj : j = k
        · subst hj; simp [hv0]
        · simp [hj]
      · intro j
        simp only [look_cons_erase]
        rw [h.removed j]
        by_cases hj : j = k
        · subst hj; simp [hv0]
        · simp [hj]
      · intro j hj
        simp only [look_cons_erase]
        rcases mem_ins.mp hj with rfl | hj
        · simp
        · by_cases hjk : j = k
          · simp [hjk]
          · simpa [hjk] using h.modLive j hj
      · intro j hj
        simp only [look_cons_erase] at hj
        by_cases hjk : j = k
        · right; right; exact mem_ins.mpr (Or.inl hjk)
        · simp only [hjk, ↓reduceIte] at hj
          rcases h.noSilent j hj with h1 | h1 | h1
          · exact Or.inl (mem_ins.mpr (Or.inr h1))
          · exact Or.inr (Or.inl h1)
          · exact Or.inr (Or.inr (mem_ins.mpr (Or.inr h1)))

theorem putCore_look (c : Coll) (k : Key) (v : Val) :
    look (c.putCore k v).items = Op.sem (.put k v) (look c.items) := by
  funext j
  unfold Coll.putCore Op.sem
  cases look c.items k with
  | some w => simp only [look_cons_erase]
  | none => simp only; split <;> simp only [look_cons_erase]

theorem delCore_look (c : Coll) (k : Key) : look (c.delCore k).items = Op.sem (.del k) (look c.items) := by
  funext j
  unfold Coll.delCore Op.sem
  cases hl : look c.items k with
  | none =>
    simp only
    by_cases hj : j = k
    · simp [hj, hl]
    · simp [hj]
  | some w => simp only; split <;> simp only [look_eraseKey]

theorem delCore_marks {c : Coll} {V0 : M} (h : Marks c V0) (k : Key) : Marks (c.delCore k) V0 := by
  unfold Coll.delCore
  cases hl : look c.items k with
  | none => exact h
  | some w =>
    simp only
    by_cases ha : k ∈ c.added
    · simp only [ha, ↓reduceIte]
      have hv0 : V0 k = none := ((h.added k).mp ha).1
      refine ⟨?_, ?_, ?_, ?_⟩
      · intro j
        simp only [look_eraseKey, mem_rem]
        rw [h.added j]
        by_cases hj : j = k
        · subst hj; simp
        · simp [hj]
      · intro j
        simp only [look_eraseKey]
        rw [h.removed j]
        by_cases hj : j = k
        · subst hj; simp [hv0, hl]
        · simp [hj]
      · intro j hj
        simp only [look_eraseKey]
        obtain ⟨hjk, hj⟩ := mem_rem.mp hj
        simpa [hjk] using h.modLive j hj
      · intro j hj
        simp only [look_eraseKey] at hj
        by_cases hjk : j = k
        · subst hjk; simp [hv0] at hj
        · simp only [hjk, ↓reduceIte] at hj
          rcases h.noSilent j hj with h1 | h1 | h1
          · exact Or.inl (mem_rem.mpr ⟨hjk, h1⟩)
          · exact Or.inr (Or.inl h1)
          · exact Or.inr (Or.inr (mem_rem.mpr ⟨hjk, h1⟩))
    · simp only [ha, ↓reduceIte]
      have hv0 : V0 k ≠ none := by
        intro hv
        exact ha ((h.added k).mpr ⟨hv, by simp [hl]⟩)
      refine ⟨?_, ?_, ?_, ?_⟩
      · intro j
        simp only [look_eraseKey]
        rw [h.added j]
        by_cases hj : j = k
        · subst hj; simp [hv0]
        · simp [hj]
      · intro j
        simp only [look_eraseKey, mem_ins]
        rw [h.removed j]
        by_cases hj : j = k
        · subst hj; simp [hv0]
        · simp [hj]
      · intro j hj
        simp only [look_eraseKey]
        obtain ⟨hjk, hj⟩ := mem_rem.mp hj
        simpa [hjk] using h.modLive j hj
      · intro j hj
        simp only [look_eraseKey] at hj
        by_cases hjk : j = k
        · right; left; exact mem_ins.mpr (Or.inl hjk)
        · simp only [hjk, ↓reduceIte] at hj
          rcases h.noSilent j hj with h1 | h1 | h1
          · exact Or.inl h1
          · exact Or.inr (Or.inl (mem_ins.mpr (Or.inr h1)))
          · exact Or.inr (Or.inr (mem_rem.mpr ⟨hjk, h1⟩))

theorem putCore_frame (c : Coll) (k : Key) (v : Val) :
    (c.putCore k v).lmt = c.lmt ∧ (c.putCore k v).deltaTime = c.deltaTime := by
  unfold Coll.putCore
  cases look c.items k with
  | some w => exact ⟨rfl, rfl⟩
  | none => simp only; split <;> exact ⟨rfl, rfl⟩

theorem delCore_frame (c : Coll) (k : Key) :
    (c.delCore k).lmt = c.lmt ∧ (c.delCore k).deltaTime = c.deltaTime := by
  unfold Coll.delCore
  cases look c.items k with
  | none => exact ⟨rfl, rfl⟩
  | some w => simp only; split <;> exact ⟨rfl, rfl⟩

theorem putCore_nodup {c : Coll} (h : KeysNodup c) (k : Key) (v : Val) : KeysNodup (c.putCore k v) := by
  unfold Coll.putCore KeysNodup
  cases look c.items k with
  | some w => exact nodup_cons_erase h k v
  | none => simp only; split <;> exact nodup_cons_erase h k v

theorem delCore_nodup {c : Coll} (h : KeysNodup c) (k : Key) : KeysNodup (c.delCore k) := by
  unfold Coll.delCore KeysNodup
  cases look c.items k with
  | none => exact h
  | some w => simp only; split <;> exact nodup_eraseKey h k

/-! ## one mutation call = one step inside (or opening) the delta window -/

/-- `c'` is `c` after at least one mutation call at time `t`; the calls changed the value by `f` -/
structure Step (c c' : Coll) (V0 : M) (t : Time) (f : M → M) : Prop where
  marks : Marks c' (c.ghost V0 t)
  lmt : c'.lmt = max c.lmt t
  dt : c'.deltaTime = max c.deltaTime t
  val : look c'.items = f (look c.items)

theorem Step.trans {c c1 c2 : Coll} {V0 : M} {t : Time} {f g : M → M}
    (h1 : Step c c1 V0 t f) (h2 : Step c1 c2 (c.ghost V0 t) t g) : Step c c2 V0 t (g ∘ f) := by
  have hle : t ≤ c1.deltaTime := by rw [h1.dt]; omega
  refine ⟨?_, ?_, ?_, ?_⟩
  · have := h2.marks
    rwa [Coll.ghost_of_le hle] at this
  · rw [h2.lmt, h1.lmt]; omega
  · rw [h2.dt, h1.dt]; omega
  · rw [h2.val, h1.val]; rfl

theorem put_step {c : Coll} {V0 : M} (h : Marks c V0) (t : Time) (k : Key) (v : Val) :
    Step c (c.put t k v) V0 t (Op.sem (.put k v)) := by
  unfold Coll.put
  refine ⟨putCore_marks (touch_marks h t) k v, ?_, ?_, ?_⟩
  · rw [(putCore_frame _ k v).1, touch_lmt]
  · rw [(putCore_frame _ k v).2, touch_dt]
  · rw [putCore_look, touch_items]

theorem del_step {c : Coll} {V0 : M} (h : Marks c V0) (t : Time) (k : Key) :
    Step c (c.del t k) V0 t (Op.sem (.del k)) := by
  unfold Coll.del
  refine ⟨delCore_marks (touch_marks h t) k, ?_, ?_, ?_⟩
  · rw [(delCore_frame _ k).1, touch_lmt]
  · rw [(delCore_frame _ k).2, touch_dt]
  · rw [delCore_look, touch_items]

/-- the removal loop of `clear()` inside the window it was opened in -/
theorem delAll_spec (t : Time) (ks : List Key) : ∀ (c : Coll) (V0 : M), Marks c V0 → t ≤ c.deltaTime → t ≤ c.lmt →
    Marks (c.delAll t ks) V0 ∧ (c.delAll t ks).lmt = c.lmt ∧ (c.delAll t ks).deltaTime = c.deltaTime ∧
    (∀ j, look (c.delAll t ks).items j = if j ∈ ks then none else look c.items j) := by
  induction ks with
  | nil => intro c V0 h _ _; exact ⟨h, rfl, rfl, by intro j; simp [Coll.delAll]⟩
  | cons k rest ih =>
    intro c V0 h hd hl
    have hstep := del_step h t k
    have hm : Marks (c.del t k) V0 := by
      have := hstep.marks
      rwa [Coll.ghost_of_le hd] at this
    have hl1 : (c.del t k).lmt = c.lmt := by rw [hstep.lmt]; omega
    have hd1 : (c.del t k).deltaTime = c.deltaTime := by rw [hstep.dt]; omega
    obtain ⟨i1, i2, i3, i4⟩ := ih (c.del t k) V0 hm (by rw [hd1]; exact hd) (by rw [hl1]; exact hl)
    have hfold : c.delAll t (k :: rest) = (c.del t k).delAll t rest := by simp [Coll.delAll]
    rw [hfold]
    refine ⟨i1, by rw [i2, hl1], by rw [i3, hd1], ?_⟩
    intro j
    rw [i4 j, hstep.val]
    simp only [Op.sem, List.mem_cons]
    by_cases hj : j = k
    · simp [hj]
    · simp [hj]

theorem clear_step {c : Coll} {V0 : M} (h : Marks c V0) (t : Time) : Step c (c.clear t) V0 t (Op.sem .clr) := by
  unfold Coll.clear
  have hm := touch_marks h t
  obtain ⟨i1, i2, i3, i4⟩ := delAll_spec t (c.items.map (·.1)) (c.touch t) _ hm
    (by rw [touch_dt]; omega) (by rw [touch_lmt]; omega)
  refine ⟨i1, by rw [i2, touch_lmt], by rw [i3, touch_dt], ?_⟩
  funext j
  rw [i4 j, touch_items]
  simp only [Op.sem, M.empty]
  by_cases hj : j ∈ c.items.map (·.1)
  · simp [hj]
  · simp only [hj, ↓reduceIte]
    cases hl : look c.items j with
    | none => rfl
    | some w => exact absurd (look_ne_none_mem_keys (by simp [hl])) hj

theorem apply_step {c : Coll} {V0 : M} (h : Marks c V0) (t : Time) (o : Op) :
    Step c (Coll.apply t c o) V0 t o.sem := by
  cases o with
  | put k v => exact put_step h t k v
  | del k => exact del_step h t k
  | clr => exact clear_step h t

/-- the reset of a WRITTEN output is a mutation call -/
theorem reset_step {c : Coll} {V0 : M} (h : Marks c V0) (t : Time) (hw : c.lmt ≠ 0) :
    Step c (c.reset t) V0 t (fun _ => M.empty) := by
  unfold Coll.reset; simp only [hw, ↓reduceIte]; exact clear_step h t

/-- the reset of a never-written output does nothing -/
theorem reset_unwritten {c : Coll} (t : Time) (hw : c.lmt = 0) : c.reset t = c := by
  unfold Coll.reset; simp [hw]

theorem semOps_cons (o : Op) (rest : List Op) (m : M) : semOps (o :: rest) m = semOps rest (o.sem m) := rfl

theorem applyAll_step (t : Time) : ∀ (ops : List Op) (c : Coll) (V0 : M), Marks c V0 → ops ≠ [] →
    Step c (c.applyAll t ops) V0 t (semOps ops) := by
  intro ops
  induction ops with
  | nil => intro c V0 _ hne; exact absurd rfl hne
  | cons o rest ih =>
    intro c V0 h _
    have h1 := apply_step h t o
    have hfold : c.applyAll t (o :: rest) = (Coll.apply t c o).applyAll t rest := by simp [Coll.applyAll]
    rw [hfold]
    by_cases hr : rest = []
    · subst hr
      have hs : semOps [o] = o.sem := by funext m; rfl
      rw [hs]
      exact h1
    · have h2 := ih (Coll.apply t c o) (c.ghost V0 t) h1.marks hr
      exact Step.trans h1 h2

theorem applyAll_nil (c : Coll) (t : Time) : c.applyAll t [] = c := rfl

/-! ### key uniqueness -/

theorem touch_nodup {c : Coll} (h : KeysNodup c) (t : Time) : KeysNodup (c.touch t) := by
  unfold KeysNodup; rw [touch_items]; exact h

theorem put_nodup {c : Coll} (h : KeysNodup c) (t : Time) (k : Key) (v : Val) : KeysNodup (c.put t k v) :=
  putCore_nodup (touch_nodup h t) k v

theorem del_nodup {c : Coll} (h : KeysNodup c) (t : Time) (k : Key) : KeysNodup (c.del t k) :=
  delCore_nodup (touch_nodup h t) k

theorem delAll_nodup (t : Time) (ks : List Key) : ∀ c : Coll, KeysNodup c → KeysNodup (c.delAll t ks) := by
  induction ks with
  | nil => intro c h; exact h
  | cons k rest ih => intro c h; simpa [Coll.delAll] using ih (c.del t k) (del_nodup h t k)

theorem clear_nodup {c : Coll} (h : KeysNodup c) (t : Time) : KeysNodup (c.clear t) :=
  delAll_nodup t _ _ (touch_nodup h t)

theorem apply_nodup {c : Coll} (h : KeysNodup c) (t : Time) (o : Op) : KeysNodup (Coll.apply t c o) := by
  cases o with
  | put k v => exact put_nodup h t k v
  | del k => exact del_nodup h t k
  | clr => exact clear_nodup h t

theorem applyAll_nodup (t : Time) (ops : List Op) : ∀ c : Coll, KeysNodup c → KeysNodup (c.applyAll t ops) := by
  induction ops with
  | nil => intro c h; exact h
  | cons o rest ih => intro c h; simpa [Coll.applyAll] using ih (Coll.apply t c o) (apply_nodup h t o)

/-! ### what a step looks like from the output view of the cycle -/

/-- a step in a cycle later than everything before it: the view at `t` reports a tick, and the marks are
    relative to the value the cycle started from -/
theorem Step.view {c c' : Coll} {V0 : M} {t : Time} {f : M → M} (h : Step c c' V0 t f)
    (hl : c.lmt < t) (hd : c.deltaTime < t) :
    c'.modifiedAt t = true ∧ Marks c' (look c.items) := by
  constructor
  · have : c'.lmt = t := by rw [h.lmt]; omega
    have h0 : t ≠ 0 := by omega
    simp [Coll.modifiedAt, this, h0]
  · have := h.marks
    rwa [Coll.ghost_of_lt hd] at this

theorem not_modifiedAt_of_lt {c : Coll} {t : Time} (hl : c.lmt < t) : c.modifiedAt t = false := by
  have : c.lmt ≠ t := by omega
  simp [Coll.modifiedAt, this]

/-! ### the value refinement needs no invariant -/

theorem put_look (c : Coll) (t : Time) (k : Key) (v : Val) :
    look (c.put t k v).items = Op.sem (.put k v) (look c.items) := by
  unfold Coll.put; rw [putCore_look, touch_items]

theorem del_look (c : Coll) (t : Time) (k : Key) : look (c.del t k).items = Op.sem (.del k) (look c.items) := by
  unfold Coll.del; rw [delCore_look, touch_items]

theorem delAll_look (t : Time) (ks : List Key) : ∀ (c : Coll) (j : Key),
    look (c.delAll t ks).items j = if j ∈ ks then none else look c.items j := by
  induction ks with
  | nil => intro c j; simp [Coll.delAll]
  | cons k rest ih =>
    intro c j
    have hfold : c.delAll t (k :: rest) = (c.del t k).delAll t rest := by simp [Coll.delAll]
    rw [hfold, ih, del_look]
    simp only [Op.sem, List.mem_cons]
    by_cases hj : j = k
    · simp [hj]
    · simp [hj]

theorem clear_look (c : Coll) (t : Time) : look (c.clear t).items = M.empty := by
  funext j
  unfold Coll.clear
  rw [delAll_look, touch_items]
  simp only [M.empty]
  by_cases hj : j ∈ c.items.map (·.1)
  · simp [hj]
  · simp only [hj, ↓reduceIte]
    cases hl : look c.items j with
    | none => rfl
    | some w => exact absurd (look_ne_none_mem_keys (by simp [hl])) hj

/-- after the reset the output holds nothing -- for a never-written one because it never did -/
theorem reset_look (c : Coll) (t : Time) (h : c.lmt = 0 → c.items = []) : look (c.reset t).items = M.empty := by
  unfold Coll.reset
  by_cases hw : c.lmt = 0
  · simp only [hw, ↓reduceIte]; rw [h hw]; funext j; rfl
  · simp only [hw, ↓reduceIte]; exact clear_look c t

theorem apply_look (c : Coll) (t : Time) (o : Op) : look (Coll.apply t c o).items = o.sem (look c.items) := by
  cases o with
  | put k v => exact put_look c t k v
  | del k => exact del_look c t k
  | clr => exact clear_look c t

theorem applyAll_look (t : Time) (ops : List Op) : ∀ c : Coll,
    look (c.applyAll t ops).items = semOps ops (look c.items) := by
  induction ops with
  | nil => intro c; rfl
  | cons o rest ih =>
    intro c
    have hfold : c.applyAll t (o :: rest) = (Coll.apply t c o).applyAll t rest := by simp [Coll.applyAll]
    rw [hfold, ih, apply_look, semOps_cons]

/-! ### zero or more mutation calls -/

/-- nothing was called, or at least one call was made -/
def Stepped (c c' : Coll) (V0 : M) (t : Time) : Prop := c' = c ∨ ∃ f, Step c c' V0 t f

theorem Stepped.applyAll {c c1 : Coll} {V0 : M} {t : Time} (h : Stepped c c1 V0 t) (hm : Marks c V0)
    (ops : List Op) : Stepped c (c1.applyAll t ops) V0 t := by
  by_cases hops : ops = []
  · subst hops; exact h
  · rcases h with rfl | ⟨f, hf⟩
    · exact Or.inr ⟨_, applyAll_step t ops c1 V0 hm hops⟩
    · exact Or.inr ⟨_, Step.trans hf (applyAll_step t ops c1 _ hf.marks hops)⟩

theorem Stepped.resetApply {c : Coll} {V0 : M} (hm : Marks c V0) (t : Time) (r : Bool) (ops : List Op) :
    Stepped c ((if r then c.reset t else c).applyAll t ops) V0 t := by
  cases r with
  | false => exact Stepped.applyAll (Or.inl rfl) hm ops
  | true =>
    by_cases hw : c.lmt = 0
    · simp only [↓reduceIte, reset_unwritten t hw]; exact Stepped.applyAll (Or.inl rfl) hm ops
    · exact Stepped.applyAll (Or.inr ⟨_, reset_step hm t hw⟩) hm ops

theorem resetApply_nodup {c : Coll} (h : KeysNodup c) (t : Time) (r : Bool) (ops : List Op) :
    KeysNodup ((if r then c.reset t else c).applyAll t ops) := by
  apply applyAll_nodup
  cases r with
  | false => exact h
  | true =>
    simp only [↓reduceIte, Coll.reset]
    split
    · exact h
    · exact clear_nodup h t

end HgVerif.SwitchColl
