def hello := "world"
