/-! Line-protocol plumbing shared by the model drivers (`lake env lean --run Drivers/Cxx.lean`). -/
namespace HgVerif.Driver

def words (line : String) : List String :=
  (line.trimAscii.toString.splitOn " ").filter (· ≠ "")

partial def loop {σ : Type} (h : IO.FS.Stream) (out : IO.FS.Stream) (step : σ → List String → σ × String) (s : σ) :
    IO Unit := do
  let line ← h.getLine
  if line.isEmpty then
    out.flush
    return ()
  let (s', o) := step s (words line)
  out.putStrLn o
  loop h out step s'

def run {σ : Type} (init : σ) (step : σ → List String → σ × String) : IO Unit := do
  loop (← IO.getStdin) (← IO.getStdout) step init

def b2s (b : Bool) : String := if b then "1" else "0"

end HgVerif.Driver
