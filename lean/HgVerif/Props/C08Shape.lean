import HgVerif.Model.FeedbackShape
/-!
# C08 (structured shapes) — a feedback edge delivers exactly the written *delta*, one smallest step later

About `Model/FeedbackShape.lean`, for **every** write history of the producer (any deltas, gaps, writes on
consecutive smallest steps), every shape kind (`fix` = TS/TSB/TSL, `set` = TSS, `dict` = TSD) and every
starting value of the reader's port:

* `shape_feedback_delay`      : the stream of deltas the source hands to `apply_delta` is exactly the stream of
                                deltas the producer exposed, each at `t + 1`, in order (a write in the last
                                cycle of the run has no delivery cycle).
* `shape_initial_value`       : with a declared initial delta the same, preceded by that delta at the start time.
* `shape_never_same_cycle`    : every delivery at `τ` stems from a write at `τ - 1`.
* `observed_sub_written`      : whatever a reader sees ticking / removed in a delivery is part of the delivered
                                delta; for TS/TSB/TSL/TSD the ticking positions and values are exactly the delta's.
* `observed_eq_written`       : if every written delta is a real change of the accumulated value (`Coherent`:
                                always for TS/TSB/TSL – `coherent_fix`), the reader's tick stream *is* the
                                delivered stream.
* `no_spurious_field_tick`    : TS/TSB/TSL: position `p` ticks with `x` at the reader in cycle `t + 1` **iff**
                                `p = x` was written in cycle `t` (and the run has a cycle `t + 1`).
* `no_spurious_tick_any_kind` : all kinds, any initial value: a position that ticks / is removed at the reader
                                at `τ` was written / removed by the producer at `τ - 1`.
* `value_is_fold_of_deltas`   : the reader's value after each delivery is the fold of the written deltas so far.
* `fix_value_lookup`          : … and that fold, read per position, is "the last written value of the position".
* `shape_quiescent`           : no writes and nothing pending ⇒ nothing is delivered and the state is unchanged.
* `source_due_iff_written`    : after a cycle at `t` the source is scheduled for `t + 1` iff the producer ticked
                                at `t`, and idle (`MIN_DT`) otherwise: nothing re-ticks.
* `state_not_cleared_harmless`: `evaluate_feedback_source` does not clear the captured delta; a source that does
                                clear it delivers the same stream.
-/
namespace HgVerif.FeedbackShape

variable {δ : Type}

/-! ## the delay (any payload type `δ`: the pair never looks into the delta it carries) -/

/-- what the source delivers in the first cycle of `cs` when it starts in state `s` -/
def headDelivery (s : FB δ) : List (Nat × Option δ) → List (Nat × δ)
  | [] => []
  | (t, _) :: _ =>
    if s.sched = t then
      match s.state with
      | some d => [(t, d)]
      | none => []
    else []

theorem scheduleNode_stale {t s : Nat} (h : s ≤ t) : scheduleNode t (t + 1) s = t + 1 := by
  simp [scheduleNode, h]

theorem run_cons (s : FB δ) (t : Nat) (w : Option δ) (rest : List (Nat × Option δ)) :
    run s ((t, w) :: rest) = headDelivery s ((t, w) :: rest) ++ run (cycle t w s).1 rest := by
  simp only [run, cycle, sourceStep, headDelivery]
  by_cases h : s.sched = t
  · simp only [h, if_true]
    cases s.state <;> simp
  · simp [h]

theorem cycle_sched_some (s : FB δ) (t : Nat) (d : δ) (h : s.sched ≤ t) :
    (cycle t (some d) s).1 = { state := some d, sched := t + 1 } := by
  simp only [cycle, sourceStep, sinkStep]
  by_cases h' : s.sched = t
  · simp [h', scheduleNode]
  · simp [h', scheduleNode_stale h]

theorem cycle_sched_none (s : FB δ) (t : Nat) (h : s.sched ≤ t) : (cycle t none s).1.sched ≤ t := by
  simp only [cycle, sourceStep, sinkStep]
  by_cases h' : s.sched = t
  · simp [h']
  · simp [h', h]

/-- general form: from any state whose schedule slot is not in the future of the first cycle -/
theorem run_general (cs : List (Nat × Option δ)) :
    ∀ s : FB δ, WF cs → (∀ t w rest, cs = (t, w) :: rest → s.sched ≤ t) →
      run s cs = headDelivery s cs ++ shifted cs := by
  induction cs with
  | nil => intro s _ _; simp [run, headDelivery, shifted]
  | cons c rest ih =>
    intro s hwf hs
    obtain ⟨t, w⟩ := c
    have hst : s.sched ≤ t := hs t w rest rfl
    rw [run_cons]
    cases rest with
    | nil => simp [run, shifted]
    | cons c' rest' =>
      obtain ⟨t', w'⟩ := c'
      obtain ⟨_, hlt, hnext, hwf'⟩ := hwf
      cases w with
      | none =>
        have hle := cycle_sched_none s t hst
        rw [ih _ hwf' (by intro a b c h; injection h with h1 _; injection h1 with h1 _; omega)]
        have hne : (cycle t none s).1.sched ≠ t' := by omega
        simp [headDelivery, hne, shifted]
      | some d =>
        have ht' : t' = t + 1 := hnext rfl
        subst ht'
        rw [cycle_sched_some s t d hst]
        rw [ih _ hwf' (by intro a b c h; injection h with h1 _; injection h1 with h1 _; simp; omega)]
        simp [headDelivery, shifted]

/-- **exactly one smallest step later, in order, nothing lost, duplicated or invented** -/
theorem shape_feedback_delay (cs : List (Nat × Option δ)) (hwf : WF cs) : run {} cs = shifted cs := by
  rw [run_general cs {} hwf (by intro t w rest _; simp)]
  cases cs with
  | nil => rfl
  | cons c rest =>
    obtain ⟨t, w⟩ := c
    have : 0 < t := by
      cases rest with
      | nil => exact hwf
      | cons c' r => exact hwf.1
    have hne : (0 : Nat) ≠ t := by omega
    simp [headDelivery, hne]

/-- a declared initial delta is delivered in the start cycle, then the written deltas follow as usual -/
theorem shape_initial_value (start : Nat) (d0 : δ) (w : Option δ) (rest : List (Nat × Option δ))
    (hwf : WF ((start, w) :: rest)) :
    run (initFB start d0) ((start, w) :: rest) = (start, d0) :: shifted ((start, w) :: rest) := by
  rw [run_general _ (initFB start d0) hwf (by intro t w' r h; injection h with h1 _; injection h1 with h1 _; simp [initFB, h1])]
  simp [headDelivery, initFB]

/-! ## membership in the specification stream -/

theorem wf_tail {c : Nat × Option δ} {rest : List (Nat × Option δ)} (h : WF (c :: rest)) : WF rest := by
  obtain ⟨t, w⟩ := c
  cases rest with
  | nil => trivial
  | cons c' r => exact h.2.2.2

theorem wf_head_lt {t : Nat} {w : Option δ} {rest : List (Nat × Option δ)} (h : WF ((t, w) :: rest)) :
    ∀ c ∈ rest, t < c.1 := by
  induction rest generalizing t w with
  | nil => intro c hc; cases hc
  | cons c' r ih =>
    obtain ⟨t', w'⟩ := c'
    obtain ⟨_, hlt, _, hwf'⟩ := h
    intro c hc
    rcases List.mem_cons.mp hc with h1 | h1
    · subst h1; exact hlt
    · exact Nat.lt_trans hlt (ih hwf' c h1)

theorem mem_shifted {cs : List (Nat × Option δ)} {τ : Nat} {d : δ} (h : (τ, d) ∈ shifted cs) :
    ∃ t, τ = t + 1 ∧ (t, some d) ∈ cs := by
  induction cs with
  | nil => simp [shifted] at h
  | cons c rest ih =>
    obtain ⟨t, w⟩ := c
    cases rest with
    | nil => simp [shifted] at h
    | cons c' rest' =>
      cases w with
      | none =>
        simp only [shifted] at h
        obtain ⟨t0, h1, h2⟩ := ih h
        exact ⟨t0, h1, List.mem_cons_of_mem _ h2⟩
      | some d0 =>
        simp only [shifted, List.mem_cons] at h
        rcases h with h | h
        · injection h with h1 h2; subst h1; subst h2; exact ⟨t, rfl, by simp⟩
        · obtain ⟨t0, h1, h2⟩ := ih h
          exact ⟨t0, h1, List.mem_cons_of_mem _ h2⟩

/-- a delta is in the specification stream at `t + 1` iff it was written at `t` and the run has a cycle `t + 1` -/
theorem mem_shifted_iff {cs : List (Nat × Option δ)} (hwf : WF cs) {t : Nat} {d : δ} :
    (t + 1, d) ∈ shifted cs ↔ (t, some d) ∈ cs ∧ ∃ w', (t + 1, w') ∈ cs := by
  induction cs with
  | nil => simp [shifted]
  | cons c rest ih =>
    obtain ⟨t0, w⟩ := c
    cases rest with
    | nil =>
      simp only [shifted, List.not_mem_nil, false_iff, List.mem_singleton, not_and, not_exists]
      intro h w' h'
      injection h with h1 _; injection h' with h2 _; omega
    | cons c' rest' =>
      obtain ⟨t', w'⟩ := c'
      have hwf' : WF ((t', w') :: rest') := wf_tail hwf
      have hlt := wf_head_lt hwf
      obtain ⟨_, hlt', hnext, _⟩ := hwf
      have ih' := ih hwf'
      constructor
      · intro h
        have hin : (t + 1, d) ∈ shifted ((t', w') :: rest') ∨ (w = some d ∧ t0 = t) := by
          cases w with
          | none => left; simpa [shifted] using h
          | some d0 =>
            simp only [shifted, List.mem_cons] at h
            rcases h with h | h
            · injection h with h1 h2; right; exact ⟨by rw [h2], by omega⟩
            · left; exact h
        rcases hin with hin | ⟨hw, ht⟩
        · obtain ⟨h1, w'', h2⟩ := ih'.mp hin
          exact ⟨List.mem_cons_of_mem _ h1, w'', List.mem_cons_of_mem _ h2⟩
        · subst hw; subst ht
          have : t' = t0 + 1 := hnext rfl
          exact ⟨by simp, w', by simp [this]⟩
      · rintro ⟨h1, w'', h2⟩
        rcases List.mem_cons.mp h1 with h1 | h1
        · injection h1 with ha hb
          subst ha; subst hb
          simp [shifted]
        · have ht : t0 < t := hlt (t, some d) h1
          have h2' : (t + 1, w'') ∈ (t', w') :: rest' := by
            rcases List.mem_cons.mp h2 with h2 | h2
            · injection h2 with ha _; omega
            · exact h2
          have := ih'.mpr ⟨h1, w'', h2'⟩
          cases w with
          | none => simpa [shifted] using this
          | some d0 => simp only [shifted, List.mem_cons]; right; exact this

/-- the reader never observes a delta in the cycle that produced it: a delivery at `τ` stems from a write at `τ - 1` -/
theorem shape_never_same_cycle (cs : List (Nat × Option δ)) (hwf : WF cs) {τ : Nat} {d : δ}
    (h : (τ, d) ∈ run {} cs) : ∃ t, τ = t + 1 ∧ (t, some d) ∈ cs := by
  rw [shape_feedback_delay cs hwf] at h; exact mem_shifted h

/-! ## what a reader observes -/

theorem observed_cons (k : Kind) (v : Val) (t : Nat) (d : Delta) (rest : List (Nat × Delta)) :
    observed k v ((t, d) :: rest) =
      (match (applyDelta k v d).2 with
       | some o => [(t, o)]
       | none => []) ++ observed k (applyDelta k v d).1 rest := by
  simp only [observed, reader, List.filterMap_cons]
  cases (applyDelta k v d).2 <;> simp

theorem applyCore_rems_sub (k : Kind) (v : Val) (d : Delta) : ∀ p ∈ (applyCore k v d).2.rems, p ∈ d.rems := by
  intro p hp
  cases k <;> simp [applyCore] at hp
  · exact hp.1
  · exact hp.1

theorem applyCore_mods_sub (k : Kind) (v : Val) (d : Delta) :
    ∀ p ∈ (applyCore k v d).2.mods.map Prod.fst, p ∈ d.mods.map Prod.fst := by
  intro p hp
  cases k
  · simpa [applyCore] using hp
  · simp only [applyCore, List.map_map, List.mem_map, List.mem_filter, Function.comp] at hp
    obtain ⟨e, ⟨he, _⟩, rfl⟩ := hp
    exact List.mem_map.mpr ⟨e, he, rfl⟩
  · simpa [applyCore] using hp

theorem applyCore_mods_eq {k : Kind} (hk : k ≠ .set) (v : Val) (d : Delta) : (applyCore k v d).2.mods = d.mods := by
  cases k
  · rfl
  · exact absurd rfl hk
  · rfl

/-- whatever the reader sees in a delivery is part of the delivered delta: ticking positions are positions of
    the delta, removed positions are removals of the delta; for TS/TSB/TSL/TSD the ticks carry exactly the
    delta's positions and values -/
theorem observed_sub_written (k : Kind) (ds : List (Nat × Delta)) :
    ∀ (v : Val) {τ : Nat} {o : Delta}, (τ, o) ∈ observed k v ds →
      ∃ d, (τ, d) ∈ ds ∧ (∀ p ∈ o.mods.map Prod.fst, p ∈ d.mods.map Prod.fst) ∧ (∀ p ∈ o.rems, p ∈ d.rems) ∧
        (k ≠ .set → o.mods = d.mods) := by
  induction ds with
  | nil => intro v τ o h; simp [observed, reader] at h
  | cons c rest ih =>
    obtain ⟨t, d⟩ := c
    intro v τ o h
    rw [observed_cons] at h
    rcases List.mem_append.mp h with h | h
    · have hd : (applyDelta k v d).2 = some o ∧ τ = t := by
        cases hh : (applyDelta k v d).2 with
        | none => simp [hh] at h
        | some o' =>
          simp only [hh, List.mem_singleton] at h
          injection h with h1 h2; exact ⟨by rw [h2], h1⟩
      obtain ⟨hd, rfl⟩ := hd
      have ho : o = (applyCore k v d).2 := by
        simp only [applyDelta] at hd
        split at hd
        · injection hd with hd; exact hd.symm
        · cases hd
      subst ho
      exact ⟨d, by simp, applyCore_mods_sub k v d, applyCore_rems_sub k v d, fun hk => applyCore_mods_eq hk v d⟩
    · obtain ⟨d', h1, h2⟩ := ih _ h
      exact ⟨d', List.mem_cons_of_mem _ h1, h2⟩

/-- if every delivered delta is a real change of the value accumulated so far, the reader's tick stream is
    exactly the delivered stream -/
theorem observed_eq_written (k : Kind) (ds : List (Nat × Delta)) :
    ∀ v : Val, Coherent k v ds → observed k v ds = ds := by
  induction ds with
  | nil => intro v _; simp [observed, reader]
  | cons c rest ih =>
    obtain ⟨t, d⟩ := c
    intro v h
    obtain ⟨h1, h2⟩ := h
    rw [observed_cons, h1]
    simp only [List.singleton_append]
    rw [ih _ h2]

/-- TS / TSB / TSL deltas (at least one position, no removals) are always coherent -/
theorem coherent_fix (ds : List (Nat × Delta)) :
    ∀ v : Val, (∀ e ∈ ds, RecDelta e.2) → Coherent .fix v ds := by
  induction ds with
  | nil => intro v _; trivial
  | cons c rest ih =>
    obtain ⟨t, d⟩ := c
    intro v h
    have hd : RecDelta d := h (t, d) (by simp)
    refine ⟨?_, ih _ (fun e he => h e (List.mem_cons_of_mem _ he))⟩
    obtain ⟨hm, hr⟩ := hd
    have hne : d.mods.isEmpty = false := by
      cases hmm : d.mods with
      | nil => exact absurd hmm hm
      | cons a b => rfl
    have hdd : ({ mods := d.mods, rems := [] } : Delta) = d := by
      cases d; simp_all
    simp [applyDelta, applyVal, hasEffect, hne, applyCore, hdd]

/-- **no field re-ticks that nobody wrote, none is lost** (TS / TSB / TSL, any starting value of the port):
    position `p` ticks with `x` at the reader in the cycle at `t + 1` iff the producer's delta of the cycle at
    `t` carried `p = x` (and the run has a cycle at `t + 1`) -/
theorem no_spurious_field_tick (cs : List (Nat × Option Delta)) (hwf : WF cs)
    (hrec : ∀ t d, (t, some d) ∈ cs → RecDelta d) (v : Val) (t : Nat) (p : Pos) (x : Int) :
    TickAt (observed .fix v (run {} cs)) (t + 1) p x ↔ WrittenAt cs t p x := by
  rw [shape_feedback_delay cs hwf]
  have hco : Coherent .fix v (shifted cs) := coherent_fix _ v (by
    intro e he
    obtain ⟨τ, d⟩ := e
    obtain ⟨t0, _, h2⟩ := mem_shifted he
    exact hrec t0 d h2)
  rw [observed_eq_written _ _ v hco]
  constructor
  · rintro ⟨d, h1, h2⟩
    obtain ⟨h3, w', h4⟩ := (mem_shifted_iff hwf).mp h1
    exact ⟨d, w', h3, h4, h2⟩
  · rintro ⟨d, w', h1, h2, h3⟩
    exact ⟨d, (mem_shifted_iff hwf).mpr ⟨h1, w', h2⟩, h3⟩

/-- all kinds, any starting value of the port (e.g. the content of an initial delta): a position that ticks at
    the reader at `τ` was written by the producer one smallest step earlier, and a position reported removed at
    `τ` was removed by the producer one smallest step earlier -/
theorem no_spurious_tick_any_kind (k : Kind) (cs : List (Nat × Option Delta)) (hwf : WF cs) (v : Val) (τ : Nat) (p : Pos) :
    ((∃ x, TickAt (observed k v (run {} cs)) τ p x) → ∃ t x', τ = t + 1 ∧ WrittenAt cs t p x') ∧
    (RemovedAt (observed k v (run {} cs)) τ p →
      ∃ t d w', τ = t + 1 ∧ (t, some d) ∈ cs ∧ (t + 1, w') ∈ cs ∧ p ∈ d.rems) := by
  rw [shape_feedback_delay cs hwf]
  constructor
  · rintro ⟨x, o, h1, h2⟩
    obtain ⟨d, hd, hm, _, _⟩ := observed_sub_written k _ v h1
    obtain ⟨t, rfl, _⟩ := mem_shifted hd
    obtain ⟨h3, w', h4⟩ := (mem_shifted_iff hwf).mp hd
    have hp : p ∈ d.mods.map Prod.fst := hm p (List.mem_map.mpr ⟨(p, x), h2, rfl⟩)
    obtain ⟨e, he, hpe⟩ := List.mem_map.mp hp
    obtain ⟨q, x'⟩ := e
    simp only at hpe
    subst hpe
    exact ⟨t, x', rfl, d, w', h3, h4, he⟩
  · rintro ⟨o, h1, h2⟩
    obtain ⟨d, hd, _, hr, _⟩ := observed_sub_written k _ v h1
    obtain ⟨t, rfl, _⟩ := mem_shifted hd
    obtain ⟨h3, w', h4⟩ := (mem_shifted_iff hwf).mp hd
    exact ⟨t, d, w', rfl, h3, h4, hr p h2⟩

/-! ## the reader's value -/

theorem finalVal_append (k : Kind) (v : Val) (a b : List (Nat × Delta)) :
    finalVal k v (a ++ b) = finalVal k (finalVal k v a) b := by
  simp [finalVal, List.foldl_append]

theorem reader_value (k : Kind) (ds₁ : List (Nat × Delta)) :
    ∀ (v : Val) (t : Nat) (d : Delta) (ds₂ : List (Nat × Delta)),
      (reader k v (ds₁ ++ (t, d) :: ds₂))[ds₁.length]? =
        some (t, (applyDelta k (finalVal k v ds₁) d).2, finalVal k v (ds₁ ++ [(t, d)])) := by
  induction ds₁ with
  | nil => intro v t d ds₂; simp [reader, finalVal, applyVal]
  | cons c rest ih =>
    obtain ⟨t0, d0⟩ := c
    intro v t d ds₂
    simp only [List.cons_append, reader, List.length_cons, List.getElem?_cons_succ]
    rw [ih]
    simp [finalVal, applyVal]

/-- **the reader's value is the fold of the written deltas**: after the delivery of the delta written at `t`
    (the `ds₁.length`-th delivery of the run) the value of the port is the starting value with all deltas
    written up to `t` applied in order -/
theorem value_is_fold_of_deltas (k : Kind) (cs : List (Nat × Option Delta)) (hwf : WF cs) (v : Val)
    (ds₁ ds₂ : List (Nat × Delta)) (t : Nat) (d : Delta) (hs : shifted cs = ds₁ ++ (t + 1, d) :: ds₂) :
    (t, some d) ∈ cs ∧
    (reader k v (run {} cs))[ds₁.length]? =
      some (t + 1, (applyDelta k (finalVal k v ds₁) d).2, finalVal k v (ds₁ ++ [(t + 1, d)])) ∧
    finalVal k v (run {} cs) = finalVal k v (shifted cs) := by
  rw [shape_feedback_delay cs hwf]
  refine ⟨?_, ?_, rfl⟩
  · have : (t + 1, d) ∈ shifted cs := by rw [hs]; simp
    exact ((mem_shifted_iff hwf).mp this).1
  · rw [hs]; exact reader_value k ds₁ v (t + 1) d ds₂

/-- the last value written to position `p` by the entries of one delta, if any -/
def lastWrite (p : Pos) : List (Pos × Int) → Option Int
  | [] => none
  | e :: r =>
    match lastWrite p r with
    | some x => some x
    | none => if p = e.1 then some e.2 else none

theorem getKey_setKey (p q : Pos) (x : Int) (m : List (Pos × Int)) :
    getKey p (setKey q x m) = if p = q then some x else getKey p m := by
  induction m with
  | nil => simp [setKey, getKey]
  | cons e r ih =>
    obtain ⟨a, b⟩ := e
    simp only [setKey]
    by_cases h1 : q < a
    · simp [h1, getKey]
    · by_cases h2 : q = a
      · subst h2
        by_cases h3 : p = q <;> simp [getKey, h3]
      · simp only [h1, h2, if_false, getKey, ih]
        by_cases h3 : p = a <;> by_cases h4 : p = q
        · exact absurd (h4.symm.trans h3) h2
        · subst h3; simp [h4]
        · subst h4; simp [h3]
        · simp [h3, h4]

theorem getKey_foldl_setKey (p : Pos) (mods : List (Pos × Int)) :
    ∀ m : List (Pos × Int), getKey p (mods.foldl (fun m e => setKey e.1 e.2 m) m) =
      match lastWrite p mods with
      | some x => some x
      | none => getKey p m := by
  induction mods with
  | nil => intro m; simp [lastWrite]
  | cons e r ih =>
    intro m
    simp only [List.foldl_cons, ih, lastWrite]
    cases lastWrite p r with
    | some x => rfl
    | none =>
      simp only [getKey_setKey]
      by_cases h : p = e.1 <;> simp [h]

/-- TS / TSB / TSL: after applying a delta, position `p` holds the value the delta wrote to it, else what it
    held before (positions nobody wrote keep their value and – `no_spurious_field_tick` – do not tick) -/
theorem fix_value_lookup (v : Val) (d : Delta) (p : Pos) :
    getKey p (applyVal .fix v d).items =
      match lastWrite p d.mods with
      | some x => some x
      | none => getKey p v.items := by
  simp only [applyVal, applyDelta, hasEffect]
  by_cases hm : d.mods = []
  · simp [hm, lastWrite]
  · have he : d.mods.isEmpty = false := by simpa [List.isEmpty_iff] using hm
    simp only [he, Bool.not_false, if_true, applyCore]
    exact getKey_foldl_setKey p d.mods v.items

/-! ## quiescence -/

/-- no writes and nothing due ⇒ no deliveries, and the pair's state does not change -/
theorem shape_quiescent (cs : List (Nat × Option δ)) :
    ∀ s : FB δ, (∀ c ∈ cs, c.2 = none ∧ s.sched ≠ c.1) → run s cs = [] ∧ finalFB s cs = s := by
  induction cs with
  | nil => intro s _; exact ⟨rfl, rfl⟩
  | cons c rest ih =>
    obtain ⟨t, w⟩ := c
    intro s h
    obtain ⟨hw, hs⟩ := h (t, w) (by simp)
    simp only at hw hs
    subst hw
    have hc : cycle t none s = (s, none) := by simp [cycle, sourceStep, sinkStep, hs]
    have ih' := ih s (fun c hc => h c (List.mem_cons_of_mem _ hc))
    simp only [run, finalFB, hc]
    exact ih'

def headTime : List (Nat × Option δ) → Nat
  | [] => 0
  | (t, _) :: _ => t

theorem sched_after (pre : List (Nat × Option δ)) (t : Nat) (w : Option δ) :
    ∀ s : FB δ, WF (pre ++ [(t, w)]) → (s.sched = 0 ∨ s.sched = headTime (pre ++ [(t, w)])) →
      (finalFB s (pre ++ [(t, w)])).sched = if w.isSome then t + 1 else 0 := by
  induction pre with
  | nil =>
    intro s _ hs
    simp only [List.nil_append, finalFB, headTime] at hs ⊢
    cases w with
    | some d => rw [cycle_sched_some s t d (by omega)]; simp
    | none =>
      simp only [cycle, sourceStep, sinkStep]
      by_cases h : s.sched = t
      · simp [h]
      · simp [h]; omega
  | cons c rest ih =>
    obtain ⟨t0, w0⟩ := c
    intro s hwf hs
    simp only [List.cons_append, finalFB, headTime] at hs ⊢
    have hwf' : WF (rest ++ [(t, w)]) := wf_tail hwf
    apply ih _ hwf'
    cases hr : rest ++ [(t, w)] with
    | nil => simp at hr
    | cons c1 r1 =>
      obtain ⟨t1, w1⟩ := c1
      rw [List.cons_append, hr] at hwf
      obtain ⟨_, hlt, hnext, _⟩ := hwf
      simp only [headTime]
      cases w0 with
      | some d =>
        rw [cycle_sched_some s t0 d (by omega)]
        right; simp; exact (hnext rfl).symm
      | none =>
        left
        simp only [cycle, sourceStep, sinkStep]
        by_cases h : s.sched = t0
        · simp [h]
        · simp [h]; omega

/-- **nothing re-ticks**: after the cycle at `t` the source is scheduled for exactly `t + 1` if the producer
    ticked at `t`, and is idle (`MIN_DT`) otherwise -/
theorem source_due_iff_written (pre : List (Nat × Option δ)) (t : Nat) (w : Option δ)
    (hwf : WF (pre ++ [(t, w)])) :
    (finalFB ({} : FB δ) (pre ++ [(t, w)])).sched = if w.isSome then t + 1 else 0 :=
  sched_after pre t w {} hwf (Or.inl rfl)

/-! ## the un-cleared state -/

/-- a source that clears the captured delta when it emits it (the tidy single-slot specification) -/
def sourceStepClr (t : Nat) (s : FB δ) : FB δ × Option δ :=
  if s.sched = t then ({ state := none, sched := 0 }, s.state) else (s, none)

def runClr : FB δ → List (Nat × Option δ) → List (Nat × δ)
  | _, [] => []
  | s, (t, w) :: rest =>
    let r := sourceStepClr t s
    match r.2 with
    | some d => (t, d) :: runClr (sinkStep t w r.1) rest
    | none => runClr (sinkStep t w r.1) rest

/-- `evaluate_feedback_source` leaves the captured delta in the node state; because only the schedule slot
    decides whether it is emitted, this is unobservable: a clearing source delivers the same stream
    (cycle times are positive: `MIN_ST` and later) -/
theorem state_not_cleared_harmless (cs : List (Nat × Option δ)) :
    ∀ s s' : FB δ, (∀ c ∈ cs, 0 < c.1) → s.sched = s'.sched →
      (s'.state = s.state ∨ (s'.state = none ∧ s.sched = 0)) → run s cs = runClr s' cs := by
  induction cs with
  | nil => intro s s' _ _ _; rfl
  | cons c rest ih =>
    obtain ⟨t, w⟩ := c
    intro s s' hpos hsch hst
    have ht : 0 < t := hpos (t, w) (by simp)
    have hpos' : ∀ c ∈ rest, 0 < c.1 := fun c hc => hpos c (List.mem_cons_of_mem _ hc)
    simp only [run, runClr, cycle, sourceStep, sourceStepClr]
    by_cases hd : s.sched = t
    · have hd' : s'.sched = t := by omega
      have hse : s'.state = s.state := by
        rcases hst with h | ⟨_, h⟩
        · exact h
        · omega
      simp only [hd, hd', if_true, hse]
      have key : ∀ st : Option δ, run (sinkStep t w { state := st, sched := 0 }) rest =
          runClr (sinkStep t w { state := none, sched := 0 }) rest := by
        intro st
        apply ih _ _ hpos'
        · cases w <;> simp [sinkStep]
        · cases w with
          | none => right; simp [sinkStep]
          | some d => left; simp [sinkStep]
      cases hss : s.state with
      | none =>
        show run (sinkStep t w { state := none, sched := 0 }) rest = runClr (sinkStep t w { state := none, sched := 0 }) rest
        exact key none
      | some d =>
        show (t, d) :: run (sinkStep t w { state := some d, sched := 0 }) rest =
          (t, d) :: runClr (sinkStep t w { state := none, sched := 0 }) rest
        rw [key (some d)]
    · have hd' : ¬ s'.sched = t := by omega
      simp only [hd, hd', if_false]
      apply ih _ _ hpos'
      · cases w <;> simp [sinkStep, hsch]
      · cases w with
        | none => simpa [sinkStep] using hst
        | some d => left; simp [sinkStep]

/-! ## non-vacuity -/

/-- `TSB{a,b}`: both fields, then only `b`, then only `a`, a gap, `a` again, an idle step -/
def exTsb : List (Nat × Option Delta) :=
  [(1, some { mods := [(0, 1), (1, 10)] }), (2, some { mods := [(1, 11)] }), (3, some { mods := [(0, 2)] }),
   (4, none), (6, some { mods := [(0, 3)] }), (7, none)]

example : WF exTsb := by simp [exTsb, WF]
example : ∀ t d, (t, some d) ∈ exTsb → RecDelta d := by
  intro t d h
  simp [exTsb] at h
  rcases h with ⟨_, h⟩ | ⟨_, h⟩ | ⟨_, h⟩ | ⟨_, h⟩ <;> subst h <;> simp [RecDelta]
example : run {} exTsb =
    [(2, { mods := [(0, 1), (1, 10)] }), (3, { mods := [(1, 11)] }), (4, { mods := [(0, 2)] }), (7, { mods := [(0, 3)] })] := by
  decide
/-- in the cycle at 3 only `b` ticks at the reader (value 11); `a` keeps 1 and does not tick -/
example : observed .fix {} (run {} exTsb) =
    [(2, { mods := [(0, 1), (1, 10)] }), (3, { mods := [(1, 11)] }), (4, { mods := [(0, 2)] }), (7, { mods := [(0, 3)] })] := by
  decide
example : (finalVal .fix {} (run {} exTsb)).items = [(0, 3), (1, 11)] := by decide
example : WrittenAt exTsb 2 1 11 := ⟨{ mods := [(1, 11)] }, some { mods := [(0, 2)] }, by simp [exTsb], by simp [exTsb], by simp⟩

/-- `TSS` with initial delta `{+1,+2}`: the producer (whose own set starts empty) adds 1, later removes 1, adds 3 -/
def exTss : List (Nat × Option Delta) :=
  [(1, some { mods := [(1, 0)] }), (2, none), (3, some { mods := [(3, 0)], rems := [1] }), (4, none)]

example : WF exTss := by simp [exTss, WF]
example : run (initFB 1 { mods := [(1, 0), (2, 0)] }) exTss =
    [(1, { mods := [(1, 0), (2, 0)] }), (2, { mods := [(1, 0)] }), (4, { mods := [(3, 0)], rems := [1] })] := by
  decide
/-- the add of the already present 1 re-ticks the reader with an EMPTY delta (the code's `touch()`): observed ⊂ written -/
example : observed .set {} (run (initFB 1 { mods := [(1, 0), (2, 0)] }) exTss) =
    [(1, { mods := [(1, 0), (2, 0)] }), (2, {}), (4, { mods := [(3, 0)], rems := [1] })] := by
  decide
/-- without the initial delta the same history is coherent and observed = written -/
example : Coherent .set {} (run {} exTss) := by
  have h : run {} exTss = [(2, { mods := [(1, 0)] }), (4, { mods := [(3, 0)], rems := [1] })] := by decide
  rw [h]
  exact ⟨by decide, by decide, trivial⟩
/-- quiescence hypotheses are satisfiable: idle pair, cycles without writes -/
example : ∀ c ∈ [((5 : Nat), (none : Option Delta)), (9, none)], c.2 = none ∧ ({} : FB Delta).sched ≠ c.1 := by decide
/-- the simulation hypotheses of `state_not_cleared_harmless` hold for the idle pair and for a declared initial delta -/
example : (∀ c ∈ exTsb, 0 < c.1) ∧ ({} : FB Delta).sched = ({} : FB Delta).sched := by decide

end HgVerif.FeedbackShape
