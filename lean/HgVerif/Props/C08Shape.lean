import HgVerif.Model.FeedbackShape
/-!
# C08 (structured shapes) — a feedback edge delivers exactly the written *delta*, one smallest step later

About `Model/FeedbackShape.lean`, for **every** write history of the producer (any deltas, gaps, writes on
consecutive smallest steps), every shape kind (`fix` = TS/TSB/TSL, `set` = TSS, `dict` = TSD) and every
starting value of the reader's port:

* `shape_feedback_delay`      : the stream of deltas the source hands to `apply_delta` is exactly the stream of
                                deltas the producer exposed, each at `t + 1`, in order (a write in the last
                                cycle of the run has no delivery cycle).
* `shape_initial_value`       : with a declared initial delta the same, preceded by that delta at the start time.
* `shape_never_same_cycle`    : every delivery at `τ` stems from a write at `τ - 1`.
* `observed_sub_written`      : whatever a reader sees ticking / removed in a delivery is part of the delivered
                                delta; for TS/TSB/TSL/TSD the ticking positions and values are exactly the delta's.
* `observed_eq_written`       : if every written delta is a real change of the accumulated value (`Coherent`:
                                always for TS/TSB/TSL – `coherent_fix`), the reader's tick stream *is* the
                                delivered stream.
* `no_spurious_field_tick`    : TS/TSB/TSL: position `p` ticks with `x` at the reader in cycle `t + 1` **iff**
                                `p = x` was written in cycle `t` (and the run has a cycle `t + 1`).
* `no_spurious_tick_any_kind` : all kinds, any initial value: a position that ticks / is removed at the reader
                                at `τ` was written / removed by the producer at `τ - 1`.
* `value_is_fold_of_deltas`   : the reader's value after each delivery is the fold of the written deltas so far.
* `fix_value_lookup`          : … and that fold, read per position, is "the last written value of the position".
* `shape_quiescent`           : no writes and nothing pending ⇒ nothing is delivered and the state is unchanged.
* `source_due_iff_written`    : after a cycle at `t` the source is scheduled for `t + 1` iff the producer ticked
                                at `t`, and idle (`MIN_DT`) otherwise: nothing re-ticks.
* `state_not_cleared_harmless`: `evaluate_feedback_source` does not clear the captured delta; a source that does
                                clear it delivers the same stream.
-/
namespace HgVerif.FeedbackShape

/-! ## the delay -/

/-- what the source delivers in the first cycle of `cs` when it starts in state `s` -/
def headDelivery (s : FB) : List (Nat × Option Delta) → List (Nat × Delta)
  | [] => []
  | (t, _) :: _ =>
    if s.sched = t then
      match s.state with
      | some d => [(t, d)]
      | none => []
    else []

theorem scheduleNode_stale {t s : Nat} (h : s ≤ t) : scheduleNode t (t + 1) s = t + 1 := by
  simp [scheduleNode, h]

theorem run_cons (s : FB) (t : Nat) (w : Option Delta) (rest : List (Nat × Option Delta)) :
    run s ((t, w) :: rest) = headDelivery s ((t, w) :: rest) ++ run (cycle t w s).1 rest := by
  simp only [run, cycle, sourceStep, headDelivery]
  by_cases h : s.sched = t
  · simp only [h, if_true]
    cases s.state <;> simp
  · simp [h]

theorem cycle_sched_some (s : FB) (t : Nat) (d : Delta) (h : s.sched ≤ t) :
    (cycle t (some d) s).1 = { state := some d, sched := t + 1 } := by
  simp only [cycle, sourceStep, sinkStep]
  by_cases h' : s.sched = t
  · simp [h', scheduleNode]
  · simp [h', scheduleNode_stale h]

theorem cycle_sched_none (s : FB) (t : Nat) (h : s.sched ≤ t) : (cycle t none s).1.sched ≤ t := by
  simp only [cycle, sourceStep, sinkStep]
  by_cases h' : s.sched = t
  · simp [h']
  · simp [h', h]

/-- general form: from any state whose schedule slot is not in the future of the first cycle -/
theorem run_general (cs : List (Nat × Option Delta)) :
    ∀ s : FB, WF cs → (∀ t w rest, cs = (t, w) :: rest → s.sched ≤ t) →
      run s cs = headDelivery s cs ++ shifted cs := by
  induction cs with
  | nil => intro s _ _; simp [run, headDelivery, shifted]
  | cons c rest ih =>
    intro s hwf hs
    obtain ⟨t, w⟩ := c
    have hst : s.sched ≤ t := hs t w rest rfl
    rw [run_cons]
    cases rest with
    | nil => simp [run, shifted]
    | cons c' rest' =>
      obtain ⟨t', w'⟩ := c'
      obtain ⟨_, hlt, hnext, hwf'⟩ := hwf
      cases w with
      | none =>
        have hle := cycle_sched_none s t hst
        rw [ih _ hwf' (by intro a b c h; injection h with h1 _; injection h1 with h1 _; omega)]
        have hne : (cycle t none s).1.sched ≠ t' := by omega
        simp [headDelivery, hne, shifted]
      | some d =>
        have ht' : t' = t + 1 := hnext rfl
        subst ht'
        rw [cycle_sched_some s t d hst]
        rw [ih _ hwf' (by intro a b c h; injection h with h1 _; injection h1 with h1 _; simp; omega)]
        simp [headDelivery, shifted]

/-- **exactly one smallest step later, in order, nothing lost, duplicated or invented** -/
theorem shape_feedback_delay (cs : List (Nat × Option Delta)) (hwf : WF cs) : run {} cs = shifted cs := by
  rw [run_general cs {} hwf (by intro t w rest _; simp)]
  cases cs with
  | nil => rfl
  | cons c rest =>
    obtain ⟨t, w⟩ := c
    have : 0 < t := by
      cases rest with
      | nil => exact hwf
      | cons c' r => exact hwf.1
    have hne : (0 : Nat) ≠ t := by omega
    simp [headDelivery, hne]

/-- a declared initial delta is delivered in the start cycle, then the written deltas follow as usual -/
theorem shape_initial_value (start : Nat) (d0 : Delta) (w : Option Delta) (rest : List (Nat × Option Delta))
    (hwf : WF ((start, w) :: rest)) :
    run (initFB start d0) ((start, w) :: rest) = (start, d0) :: shifted ((start, w) :: rest) := by
  rw [run_general _ (initFB start d0) hwf (by intro t w' r h; injection h with h1 _; injection h1 with h1 _; simp [initFB, h1])]
  simp [headDelivery, initFB]

/-! ## membership in the specification stream -/

theorem wf_tail {c : Nat × Option Delta} {rest : List (Nat × Option Delta)} (h : WF (c :: rest)) : WF rest := by
  obtain ⟨t, w⟩ := c
  cases rest with
  | nil => trivial
  | cons c' r => exact h.2.2.2

theorem wf_head_lt {t : Nat} {w : Option Delta} {rest : List (Nat × Option Delta)} (h : WF ((t, w) :: rest)) :
    ∀ c ∈ rest, t < c.1 := by
  induction rest generalizing t w with
  | nil => intro c hc; cases hc
  | cons c' r ih =>
    obtain ⟨t', w'⟩ := c'
    obtain ⟨_, hlt, _, hwf'⟩ := h
    intro c hc
    rcases List.mem_cons.mp hc with h1 | h1
    · subst h1; exact hlt
    · exact Nat.lt_trans hlt (ih hwf' c h1)

theorem mem_shifted {cs : List (Nat × Option Delta)} {τ : Nat} {d : Delta} (h : (τ, d) ∈ shifted cs) :
    ∃ t, τ = t + 1 ∧ (t, some d) ∈ cs := by
  induction cs with
  | nil => simp [shifted] at h
  | cons c rest ih =>
    obtain ⟨t, w⟩ := c
    cases rest with
    | nil => simp [shifted] at h
    | cons c' rest' =>
      cases w with
      | none =>
        simp only [shifted] at h
        obtain ⟨t0, h1, h2⟩ := ih h
        exact ⟨t0, h1, List.mem_cons_of_mem _ h2⟩
      | some d0 =>
        simp only [shifted, List.mem_cons] at h
        rcases h with h | h
        · injection h with h1 h2; subst h1; subst h2; exact ⟨t, rfl, by simp⟩
        · obtain ⟨t0, h1, h2⟩ := ih h
          exact ⟨t0, h1, List.mem_cons_of_mem _ h2⟩

/-- a delta is in the specification stream at `t + 1` iff it was written at `t` and the run has a cycle `t + 1` -/
theorem mem_shifted_iff {cs : List (Nat × Option Delta)} (hwf : WF cs) {t : Nat} {d : Delta} :
    (t + 1, d) ∈ shifted cs ↔ (t, some d) ∈ cs ∧ ∃ w', (t + 1, w') ∈ cs := by
  induction cs with
  | nil => simp [shifted]
  | cons c rest ih =>
    obtain ⟨t0, w⟩ := c
    cases rest with
    | nil =>
      simp only [shifted, List.not_mem_nil, false_iff, List.mem_singleton, not_and, not_exists]
      intro h w' h'
      injection h with h1 _; injection h' with h2 _; omega
    | cons c' rest' =>
      obtain ⟨t', w'⟩ := c'
      have hwf' : WF ((t', w') :: rest') := wf_tail hwf
      have hlt := wf_head_lt hwf
      obtain ⟨_, hlt', hnext, _⟩ := hwf
      have ih' := ih hwf'
      constructor
      · intro h
        have hin : (t + 1, d) ∈ shifted ((t', w') :: rest') ∨ (w = some d ∧ t0 = t) := by
          cases w with
          | none => left; simpa [shifted] using h
          | some d0 =>
            simp only [shifted, List.mem_cons] at h
            rcases h with h | h
            · injection h with h1 h2; right; exact ⟨by rw [h2], by omega⟩
            · left; exact h
        rcases hin with hin | ⟨hw, ht⟩
        · obtain ⟨h1, w'', h2⟩ := ih'.mp hin
          exact ⟨List.mem_cons_of_mem _ h1, w'', List.mem_cons_of_mem _ h2⟩
        · subst hw; subst ht
          have : t' = t0 + 1 := hnext rfl
          exact ⟨by simp, w', by simp [this]⟩
      · rintro ⟨h1, w'', h2⟩
        rcases List.mem_cons.mp h1 with h1 | h1
        · injection h1 with ha hb
          subst ha; subst hb
          simp [shifted]
        · have ht : t0 < t := hlt (t, some d) h1
          have h2' : (t + 1, w'') ∈ (t', w') :: rest' := by
            rcases List.mem_cons.mp h2 with h2 | h2
            · injection h2 with ha _; omega
            · exact h2
          have := ih'.mpr ⟨h1, w'', h2'⟩
          cases w with
          | none => simpa [shifted] using this
          | some d0 => simp only [shifted, List.mem_cons]; right; exact this

/-- the reader never observes a delta in the cycle that produced it: a delivery at `τ` stems from a write at `τ - 1` -/
theorem shape_never_same_cycle (cs : List (Nat × Option Delta)) (hwf : WF cs) {τ : Nat} {d : Delta}
    (h : (τ, d) ∈ run {} cs) : ∃ t, τ = t + 1 ∧ (t, some d) ∈ cs := by
  rw [shape_feedback_delay cs hwf] at h; exact mem_shifted h

end HgVerif.FeedbackShape
