import HgVerif.Props.C06Key
import HgVerif.Props.C06KeyOrder
/-!
# C06 (interning key as coded) — the resolved schema is part of a node's identity, the output schema included

`Props/C06Key*.lean` are stated for an arbitrary "definition" component `δ` of the key.  `InstanceKey` of
`graph_wiring.cpp` is `(def, schema, inputs, scalars)`, `schema` being the resolved `WiringNodeSchema`
(input / output / error_output / recordable_state / scalar / state).  For a generic definition the schema
is NOT a function of the definition: `const_` over int / double differ in scalar and output, `echo(x)` in
input and output, and a definition whose output type variable occurs in no input and no scalar
(`quote(In<TS<Int>>, Out<TsVar<"O">>)`, stdlib `nothing`, `replay`, `convert`-from-Any, `downcast_`,
`getattr_`, `from_json`) in the OUTPUT schema only — bound by nothing but the requested output type.

Here the theorems are restated over the key as coded (`Model/InternKey.lean`: `Schema`, `SDecl`, `stepS`):

* `keyS_pair_same_iff`     : (producers resolved) a later declaration denotes the node of an earlier one iff
                             both produce a value and definition + scalars, **each of the six schema
                             components** and the resolved inputs are equal — from any reachable table, with
                             anything wired in between.
* `wireS_same_iff_tree`    : (producers by label) in every admissible program two labels denote one node iff
                             their expression trees — nodes labelled with definition, scalars and resolved
                             schema — are equal; `stree_eq_iff` spells tree equality out component by component.
* `wireS_order_irrelevant` : the partition is the same for every admissible statement order.
* `wireP_same_iff_tree`    : the same for a key that records only a projection `π` of the schema: two labels
                             are one node iff their trees are equal **after `π`** — so every such key merges
                             exactly the declarations `π` cannot tell apart:
* `stepP_merges` / `stepS_distinct` : two value declarations of one definition with equal scalars and equal
                             inputs whose schemas differ but have the same `π` image are ONE node under the
                             `π` key (whatever was wired before), and TWO nodes under the key as coded.
* `noOutput_merges`        : instance — the key without the output schema merges two applications that differ
                             only in the requested output type; `exQ_*` is the kernel-evaluated witness
                             (`quote(x) -> TS[int]`, `quote(x) -> TS[float]`, both statement orders).
-/
namespace HgVerif.InternKey
open HgVerif.Intern

variable {Λ δ τ α σ : Type} [DecidableEq Λ]

/-! ## equality of schemas, keys and trees, component by component -/

theorem schema_eq_iff (a b : Schema τ) :
    a = b ↔ a.input = b.input ∧ a.output = b.output ∧ a.errorOutput = b.errorOutput ∧
      a.recordableState = b.recordableState ∧ a.scalar = b.scalar ∧ a.state = b.state := by
  cases a; cases b; simp

/-- `InstanceKey::operator==` -/
theorem skey_eq_iff (f f' : δ) (s s' : Schema τ) (r r' : List (Nat × α)) :
    (((f', s'), r') : SKey δ τ α) = ((f, s), r) ↔
      f' = f ∧ (s'.input = s.input ∧ s'.output = s.output ∧ s'.errorOutput = s.errorOutput ∧
        s'.recordableState = s.recordableState ∧ s'.scalar = s.scalar ∧ s'.state = s.state) ∧ r' = r := by
  rw [← schema_eq_iff]
  simp only [Prod.mk.injEq]
  exact ⟨fun h => ⟨h.1.1, h.1.2, h.2⟩, fun h => ⟨⟨h.1, h.2.1⟩, h.2.2⟩⟩

theorem stree_eq_iff (f f' : δ) (s s' : Schema τ) (i i' : List (Tree (δ × Schema τ) α × α)) :
    Tree.mk (f', s') i' = Tree.mk (f, s) i ↔
      f' = f ∧ (s'.input = s.input ∧ s'.output = s.output ∧ s'.errorOutput = s.errorOutput ∧
        s'.recordableState = s.recordableState ∧ s'.scalar = s.scalar ∧ s'.state = s.state) ∧ i' = i := by
  rw [← schema_eq_iff]
  simp only [Tree.mk.injEq, Prod.mk.injEq]
  exact ⟨fun h => ⟨h.1.1, h.1.2, h.2⟩, fun h => ⟨⟨h.1, h.2.1⟩, h.2.2⟩⟩

/-! ## producers resolved: same node iff same key, the key being the coded one -/

/-- a declaration whose producers are already node ids: key `((def + scalars, schema), inputs)`; it bypasses
    the table iff the resolved schema has no output -/
def keyDecl (f : δ) (s : Schema τ) (r : List (Nat × α)) : Decl (SKey δ τ α) :=
  { key := ((f, s), r), sink := !s.output.isSome }

/-- **same node iff same definition, scalars, inputs and resolved schema** (output schema included), from
    any reachable table and with any declarations wired in between -/
theorem keyS_pair_same_iff [DecidableEq δ] [DecidableEq τ] [DecidableEq α]
    {st : St (SKey δ τ α)} (hs : Inv st) (f : δ) (s : Schema τ) (r : List (Nat × α))
    (mid : List (Decl (SKey δ τ α))) (f' : δ) (s' : Schema τ) (r' : List (Nat × α)) :
    (addNode (wireAll (addNode st (keyDecl f s r)).1 mid).1 (keyDecl f' s' r')).2 = (addNode st (keyDecl f s r)).2 ↔
      (s.output.isSome = true ∧ s'.output.isSome = true ∧ f' = f ∧
        (s'.input = s.input ∧ s'.output = s.output ∧ s'.errorOutput = s.errorOutput ∧
          s'.recordableState = s.recordableState ∧ s'.scalar = s.scalar ∧ s'.state = s.state) ∧ r' = r) := by
  rw [pair_same_iff hs]
  simp only [keyDecl, Bool.not_eq_false', skey_eq_iff]

/-! ## producers by label -/

omit [DecidableEq Λ] in
theorem adm_toL (π : Schema τ → σ) (π' : Schema τ → σ') (L : List Λ) (ds : List (SDecl Λ δ τ α)) :
    Adm L (ds.map (·.toL π)) ↔ Adm L (ds.map (·.toL π')) := by
  induction ds generalizing L with
  | nil => exact Iff.rfl
  | cons d rest ih =>
    simp only [List.map_cons, Adm, SDecl.toL]
    exact and_congr Iff.rfl (ih _)

omit [DecidableEq Λ] in
theorem admSU_admS (L : List Λ) (ds : List (SDecl Λ δ τ α)) (h : AdmSU L ds) : AdmS L ds :=
  admU_adm _ _ h

omit [DecidableEq Λ] in
theorem mem_map_of_mem_iff {β γ : Type} (g : β → γ) (l l' : List β) (h : ∀ d, d ∈ l ↔ d ∈ l') (x : γ) :
    x ∈ l.map g ↔ x ∈ l'.map g := by
  simp only [List.mem_map]
  exact ⟨fun ⟨d, hd, e⟩ => ⟨d, (h d).1 hd, e⟩, fun ⟨d, hd, e⟩ => ⟨d, (h d).2 hd, e⟩⟩

section
variable [DecidableEq δ] [DecidableEq α]

/-- **same node iff same tree modulo `π`**, for a key that records `π schema` -/
theorem wireP_same_iff_tree [DecidableEq σ] (π : Schema τ → σ) (ds : List (SDecl Λ δ τ α)) (hadm : AdmS [] ds)
    (a b : Λ) (ia ib : Nat)
    (ha : get (wireP π ({} : LSt Λ (δ × σ) α) ds).env a = some ia)
    (hb : get (wireP π ({} : LSt Λ (δ × σ) α) ds).env b = some ib) :
    ia = ib ↔ get (semL [] (ds.map (·.toL π))) a = get (semL [] (ds.map (·.toL π))) b :=
  wireL_same_iff_tree _ ((adm_toL π id [] ds).2 hadm) a b ia ib ha hb

variable [DecidableEq τ]

/-- **same node iff same expression tree**, the tree nodes carrying definition, scalars and resolved schema -/
theorem wireS_same_iff_tree (ds : List (SDecl Λ δ τ α)) (hadm : AdmS [] ds) (a b : Λ) (ia ib : Nat)
    (ha : get (wireS ({} : LSt Λ (δ × Schema τ) α) ds).env a = some ia)
    (hb : get (wireS ({} : LSt Λ (δ × Schema τ) α) ds).env b = some ib) :
    ia = ib ↔ get (semS ds) a = get (semS ds) b :=
  wireL_same_iff_tree _ hadm a b ia ib ha hb

theorem wireS_declared_iff (ds : List (SDecl Λ δ τ α)) (hadm : AdmS [] ds) (a : Λ) :
    get (wireS ({} : LSt Λ (δ × Schema τ) α) ds).env a = none ↔ get (semS ds) a = none :=
  wireL_declared_iff _ hadm a

omit [DecidableEq δ] [DecidableEq α] [DecidableEq τ] in
/-- the tree of a value declaration: its definition, scalars and resolved schema over the trees of its inputs -/
theorem semS_equations (ds : List (SDecl Λ δ τ α)) (h : AdmSU [] ds) (d : SDecl Λ δ τ α) (hd : d ∈ ds)
    (hs : d.interns = true) :
    get (semS ds) d.lbl = some (.mk (d.defn, d.schema) (treeIns (semS ds) (.mk (d.defn, d.schema) []) d.ins)) := by
  have := semL_equations [] (ds.map (·.toL id)) (by simpa [AdmSU] using h) (d.toL id) (List.mem_map.2 ⟨d, hd, rfl⟩)
    (by simp [SDecl.toL, hs])
  exact this

omit [DecidableEq δ] [DecidableEq α] [DecidableEq τ] in
/-- **trees are order-free** -/
theorem semS_order_irrelevant (ds ds' : List (SDecl Λ δ τ α)) (h : AdmSU [] ds) (h' : AdmSU [] ds')
    (hmem : ∀ d, d ∈ ds ↔ d ∈ ds') (d : SDecl Λ δ τ α) (hd : d ∈ ds) (hs : d.interns = true) :
    get (semS ds) d.lbl = get (semS ds') d.lbl :=
  semL_order_irrelevant _ _ h h' (mem_map_of_mem_iff _ ds ds' hmem) (d.toL id) (List.mem_map.2 ⟨d, hd, rfl⟩)
    (by simp [SDecl.toL, hs])

/-- **the partition is order-free**: two value declarations denote one node when the statements are wired in
    the order `ds` iff they do in the order `ds'` -/
theorem wireS_order_irrelevant (ds ds' : List (SDecl Λ δ τ α)) (h : AdmSU [] ds) (h' : AdmSU [] ds')
    (hmem : ∀ d, d ∈ ds ↔ d ∈ ds') (a b : SDecl Λ δ τ α) (ha : a ∈ ds) (hb : b ∈ ds)
    (hsa : a.interns = true) (hsb : b.interns = true) (ia ib ia' ib' : Nat)
    (e1 : get (wireS ({} : LSt Λ (δ × Schema τ) α) ds).env a.lbl = some ia)
    (e2 : get (wireS ({} : LSt Λ (δ × Schema τ) α) ds).env b.lbl = some ib)
    (e1' : get (wireS ({} : LSt Λ (δ × Schema τ) α) ds').env a.lbl = some ia')
    (e2' : get (wireS ({} : LSt Λ (δ × Schema τ) α) ds').env b.lbl = some ib') :
    ia = ib ↔ ia' = ib' :=
  wireL_order_irrelevant _ _ h h' (mem_map_of_mem_iff _ ds ds' hmem) (a.toL id) (b.toL id)
    (List.mem_map.2 ⟨a, ha, rfl⟩) (List.mem_map.2 ⟨b, hb, rfl⟩) (by simp [SDecl.toL, hsa]) (by simp [SDecl.toL, hsb])
    ia ib ia' ib' e1 e2 e1' e2'

theorem wireS_declares (ds : List (SDecl Λ δ τ α)) (h : AdmSU [] ds) (d : SDecl Λ δ τ α) (hd : d ∈ ds)
    (hs : d.interns = true) : ∃ i, get (wireS ({} : LSt Λ (δ × Schema τ) α) ds).env d.lbl = some i :=
  wireL_declares _ h (d.toL id) (List.mem_map.2 ⟨d, hd, rfl⟩) (by simp [SDecl.toL, hs])

end

/-! ## every component is needed: a key that forgets part of the schema merges different declarations -/

omit [DecidableEq Λ] in
theorem resolve_cons_of_not_mem [DecidableEq Λ] (env : List (Λ × Nat)) (l : Λ) (i : Nat) (ins : List (Λ × α))
    (h : ∀ p ∈ ins, p.1 ≠ l) : resolve ((l, i) :: env) ins = resolve env ins := by
  unfold resolve
  apply List.map_congr_left
  intro p hp
  have : ¬ l = p.1 := fun e => h p hp e.symm
  simp [get, this]

section
variable [DecidableEq δ] [DecidableEq α]

/-- **a forgetful key merges**: two value declarations of one definition with equal scalars and equal inputs
    whose resolved schemas have the same image under `π`, wired one after the other from ANY state, denote
    ONE node when the key records `π schema` -/
theorem stepP_merges [DecidableEq σ] (π : Schema τ → σ) (s : LSt Λ (δ × σ) α) (d1 d2 : SDecl Λ δ τ α)
    (hf : d2.defn = d1.defn) (hi : d2.ins = d1.ins) (hπ : π d2.schema = π d1.schema)
    (h1 : d1.interns = true) (h2 : d2.interns = true) (hl : ∀ p ∈ d1.ins, p.1 ≠ d1.lbl) :
    (stepP π (stepP π s d1).1 d2).2 = (stepP π s d1).2 := by
  simp only [stepP, step, SDecl.toL, h1, h2, Bool.not_true, Bool.false_eq_true, ↓reduceIte, hf, hi, hπ]
  rw [resolve_cons_of_not_mem _ _ _ _ hl]
  generalize hk : ((d1.defn, π d1.schema), resolve s.env d1.ins) = k
  have hlk := addNode_lookup s.st { key := k, sink := false } rfl
  simp only at hlk
  generalize (addNode s.st { key := k, sink := false }) = r at hlk ⊢
  simp [addNode, hlk]

variable [DecidableEq τ]

/-- … and the key as coded keeps them apart: with the whole schema in the key the second declaration is the
    node of the first iff the two resolved schemas are equal -/
theorem stepS_same_iff (s : LSt Λ (δ × Schema τ) α) (hs : Inv s.st) (d1 d2 : SDecl Λ δ τ α)
    (hf : d2.defn = d1.defn) (hi : d2.ins = d1.ins)
    (h1 : d1.interns = true) (h2 : d2.interns = true) (hl : ∀ p ∈ d1.ins, p.1 ≠ d1.lbl) :
    (stepS (stepS s d1).1 d2).2 = (stepS s d1).2 ↔ d2.schema = d1.schema := by
  simp only [stepS, stepP, step, SDecl.toL, h1, h2, Bool.not_true, Bool.false_eq_true, ↓reduceIte, hf, hi, id]
  rw [resolve_cons_of_not_mem _ _ _ _ hl]
  have := pair_same_iff hs { key := ((d1.defn, d1.schema), resolve s.env d1.ins), sink := false } []
    { key := ((d1.defn, d2.schema), resolve s.env d1.ins), sink := false }
  simp only [wireAll] at this
  rw [this]
  simp

theorem stepS_distinct (s : LSt Λ (δ × Schema τ) α) (hs : Inv s.st) (d1 d2 : SDecl Λ δ τ α)
    (hf : d2.defn = d1.defn) (hi : d2.ins = d1.ins) (hne : d2.schema ≠ d1.schema)
    (h1 : d1.interns = true) (h2 : d2.interns = true) (hl : ∀ p ∈ d1.ins, p.1 ≠ d1.lbl) :
    (stepS (stepS s d1).1 d2).2 ≠ (stepS s d1).2 :=
  fun e => hne ((stepS_same_iff s hs d1 d2 hf hi h1 h2 hl).1 e)

/-- **the key without the output schema merges what the requested output type distinguishes**: `d2` is `d1`
    with another (requested) output schema `o2` — same definition, scalars, inputs, every other schema
    component.  Without the output component the two are one node; as coded they are two. -/
theorem noOutput_merges (s : LSt Λ (δ × Schema τ) α) (hs : Inv s.st)
    (s' : LSt Λ (δ × (Option τ × Option τ × Option τ × Option τ × Option τ)) α)
    (d1 : SDecl Λ δ τ α) (l2 : Λ) (o1 o2 : τ) (ho1 : d1.schema.output = some o1) (hne : o2 ≠ o1)
    (hl : ∀ p ∈ d1.ins, p.1 ≠ d1.lbl) :
    let d2 : SDecl Λ δ τ α := { d1 with lbl := l2, schema := { d1.schema with output := some o2 } }
    (stepP Schema.noOutput (stepP Schema.noOutput s' d1).1 d2).2 = (stepP Schema.noOutput s' d1).2 ∧
      (stepS (stepS s d1).1 d2).2 ≠ (stepS s d1).2 := by
  intro d2
  have h1 : d1.interns = true := by simp [SDecl.interns, ho1]
  have h2 : d2.interns = true := by simp [d2, SDecl.interns]
  refine ⟨stepP_merges Schema.noOutput s' d1 d2 rfl rfl rfl h1 h2 hl, stepS_distinct s hs d1 d2 rfl rfl ?_ h1 h2 hl⟩
  intro e
  have : d2.schema.output = d1.schema.output := by rw [e]
  simp only [d2, ho1, Option.some.injEq] at this
  exact hne this

end

/-! ## kernel-evaluated witnesses -/

/-- `x = src`, `c = quote(x) -> TS[int]`, `u = quote(x) -> TS[float]`, `v = quote(x) -> TS[float]` (the may-share
    control), `e = echo(u)` (generic, the type follows the input) -/
def exQ : List (SDecl String String String Nat) :=
  [⟨"x", "src", { output := some "TS[int]", scalar := some "k:int" }, []⟩,
   ⟨"c", "quote", { input := some "a:TS[int]", output := some "TS[int]" }, [("x", 0)]⟩,
   ⟨"u", "quote", { input := some "a:TS[int]", output := some "TS[float]" }, [("x", 0)]⟩,
   ⟨"v", "quote", { input := some "a:TS[int]", output := some "TS[float]" }, [("x", 0)]⟩,
   ⟨"k", "rec", { input := some "a:TS[float]" }, [("u", 0)]⟩,
   ⟨"e", "echo", { input := some "a:TS[float]", output := some "TS[float]" }, [("u", 0)]⟩]

/-- the same declarations, the float request first -/
def exQ' : List (SDecl String String String Nat) :=
  [⟨"x", "src", { output := some "TS[int]", scalar := some "k:int" }, []⟩,
   ⟨"v", "quote", { input := some "a:TS[int]", output := some "TS[float]" }, [("x", 0)]⟩,
   ⟨"u", "quote", { input := some "a:TS[int]", output := some "TS[float]" }, [("x", 0)]⟩,
   ⟨"e", "echo", { input := some "a:TS[float]", output := some "TS[float]" }, [("u", 0)]⟩,
   ⟨"k", "rec", { input := some "a:TS[float]" }, [("u", 0)]⟩,
   ⟨"c", "quote", { input := some "a:TS[int]", output := some "TS[int]" }, [("x", 0)]⟩]

/-- as coded: `c` and `u` are two nodes, `u` and `v` one, five nodes (the recorder is the fourth), in both orders -/
example : (wireS {} exQ).env = [("e", 4), ("v", 2), ("u", 2), ("c", 1), ("x", 0)] ∧ (wireS {} exQ).st.next = 5 := by decide
example : (wireS {} exQ').env = [("c", 4), ("e", 2), ("u", 1), ("v", 1), ("x", 0)] ∧ (wireS {} exQ').st.next = 5 := by decide

/-- **counter-witness**: without the output schema in the key `c` (`-> TS[int]`) and `u` (`-> TS[float]`) are
    ONE node — one node fewer — and which request the shared node serves is decided by the statement order -/
theorem exQ_noOutput_merged :
    (wireP Schema.noOutput {} exQ).env = [("e", 3), ("v", 1), ("u", 1), ("c", 1), ("x", 0)] ∧
      (wireP Schema.noOutput {} exQ).st.next = 4 ∧
      (wireP Schema.noOutput {} exQ').env = [("c", 1), ("e", 2), ("u", 1), ("v", 1), ("x", 0)] ∧
      (wireP Schema.noOutput {} exQ').st.next = 4 := by decide

/-- … although the two declarations differ (their trees differ in the output schema), `exQ` is admissible and
    its value labels are pairwise different (the hypotheses of the theorems above hold for it) -/
def rootSchema : Tree (δ × Schema τ) α → Schema τ
  | .mk p _ => p.2

theorem exQ_trees_differ : get (semS exQ) "c" ≠ get (semS exQ) "u" ∧ get (semS exQ) "u" = get (semS exQ) "v" := by
  refine ⟨fun h => ?_, rfl⟩
  have := congrArg (fun t => t.map fun t => (rootSchema t).output) h
  revert this
  decide

example : AdmSU [] exQ ∧ AdmSU [] exQ' := by
  simp [AdmSU, AdmU, exQ, exQ', SDecl.toL, SDecl.interns]

/-- the scalar schema is needed in the same way (`konst(1 : int)` / `konst(1.0 : float)` when scalar VALUES of
    different types compare equal) -/
example : Schema.noScalar ({ output := some "TS[int]", scalar := some "v:int" } : Schema String) =
    Schema.noScalar { output := some "TS[int]", scalar := some "v:float" } := by decide

end HgVerif.InternKey
