import HgVerif.Props.C08Shape
/-!
# C08 — "a declared initial value arrives at the start time", including VALIDITY, and loops that need it

About `Model/FeedbackShape.lean` (sections "start", "a bundle with a collection field", "a self loop through a
validity-gated body").  For every shape, every declared initial delta `d0` (also the canonical EMPTY delta) and
every write history:

* `initial_then_shifted`   : the reader's tick stream is `[initial at start] ++` the written deltas shifted by one
                             smallest step, where "initial at start" is a tick iff `apply_delta` of `d0` ticks the
                             FRESH output (any output type / payload: flat kinds and the bundle).
* `no_initial_shifted`     : without a declared initial delta: the shifted writes only.
* `init_ticks_iff`         : per flat kind, when `d0` ticks the fresh output (`InitEffect`): TS/TSB/TSL iff it carries a
                             position; TSS always; TSD unless it carries removals only.
* `init_ticksB_iff`        : TSB{a : TS, s : TSS}: iff an entry is non-null – always for an authored delta.
* `empty_initial_per_kind` : the EMPTY initial delta: TSS/TSD tick once with an empty delta and are VALID and EMPTY
                             afterwards; TS/TSB/TSL (no "empty but valid" state): no tick, still not valid.
* `empty_initial_bundle`   : the EMPTY bundle delta validates the collection field `s` (and only it).
* `valid_from_start`       : TSS/TSD with a declared initial delta that has an effect (`InitEffect`; every TSS delta,
                             the empty one included): the first reader entry is at the start time and the port is
                             valid in every entry (= from the start time on).
* `valid_from_startB`      : the same for the field `s` of the bundle, for every authored initial delta.
* `gated_loop_is_fold`     : self loop `acc = body(x, passive(fb()))`, body gated on the validity of the fed-back
                             value, declared initial delta with an effect: the body's output stream is the plain fold
                             `loopSpec` over the ticks of `x` (no scheduling in it) starting from the initial value.
* `gated_loop_runs_on_every_tick` : … in particular the body runs on the FIRST tick of `x` and on every later one.
* `gated_loop_without_valid_prev_silent` : a loop whose fed-back value is not valid and whose source is idle never
                             writes anything (why the loop can only be started by a declared initial value).
* `s94_reader_not_validated`, `s94_loop_never_starts` : counter-witness for the rule "skip the start hook when the
                             declared initial delta equals the canonical empty delta": the reader gets no tick at the
                             start time and its port is still NOT valid after a run without writes (as coded: valid
                             and empty), and the gated loop never runs its body, whatever `x` does.
-/
namespace HgVerif.FeedbackShape

variable {δ σ ο : Type}

/-! ## the generic reader -/

theorem observedG_cons (ap : σ → δ → σ × Option ο) (v : σ) (t : Nat) (d : δ) (rest : List (Nat × δ)) :
    observedG ap v ((t, d) :: rest) =
      (match (ap v d).2 with
       | some o => [(t, o)]
       | none => []) ++ observedG ap (ap v d).1 rest := by
  simp only [observedG, readerG, List.filterMap_cons]
  cases (ap v d).2 <;> simp

theorem reader_eq_readerG (k : Kind) (ds : List (Nat × Delta)) :
    ∀ v : Val, reader k v ds = readerG (applyDelta k) v ds := by
  induction ds with
  | nil => intro v; rfl
  | cons c rest ih =>
    obtain ⟨t, d⟩ := c
    intro v
    simp only [reader, readerG, ih]

theorem observed_eq_observedG (k : Kind) (v : Val) (ds : List (Nat × Delta)) :
    observed k v ds = observedG (applyDelta k) v ds := by
  simp only [observed, observedG, reader_eq_readerG]

/-! ## the initial delta at the start time, then the shifted writes -/

/-- **declared initial value at the start time, then every write one smallest step later** – for any shape
    (`ap` = the shape's `apply_delta`, `v0` = the fresh output): the head is a tick iff `d0` ticks the fresh output -/
theorem initial_then_shifted (ap : σ → δ → σ × Option ο) (v0 : σ) (start : Nat) (d0 : δ) (w : Option δ)
    (rest : List (Nat × Option δ)) (hwf : WF ((start, w) :: rest)) :
    observedG ap v0 (run (startFB start (some d0)) ((start, w) :: rest)) =
      (match (ap v0 d0).2 with
       | some o => [(start, o)]
       | none => []) ++ observedG ap (ap v0 d0).1 (shifted ((start, w) :: rest)) := by
  simp only [startFB]
  rw [shape_initial_value start d0 w rest hwf, observedG_cons]

/-- without a declared initial delta the source has no start hook: the reader sees the shifted writes only -/
theorem no_initial_shifted (ap : σ → δ → σ × Option ο) (v0 : σ) (start : Nat) (cs : List (Nat × Option δ))
    (hwf : WF cs) :
    observedG ap v0 (run (startFB start none) cs) = observedG ap v0 (shifted cs) := by
  simp only [startFB]
  rw [shape_feedback_delay cs hwf]

/-- when a declared initial delta ticks the fresh output, per flat kind -/
def InitEffect : Kind → Delta → Prop
  | .fix, d => d.mods ≠ []
  | .set, _ => True
  | .dict, d => d.mods ≠ [] ∨ d.rems = []

theorem isEmpty_false_iff {α : Type} (l : List α) : l.isEmpty = false ↔ l ≠ [] := by
  cases l <;> simp

theorem hasEffect_fresh_iff (k : Kind) (d0 : Delta) : hasEffect k fresh d0 = true ↔ InitEffect k d0 := by
  cases k
  · simp [hasEffect, InitEffect]
  · simp [hasEffect, InitEffect, fresh]
  · simp only [hasEffect, InitEffect, fresh]
    cases hm : d0.mods with
    | cons a b => simp
    | nil =>
      cases hr : d0.rems with
      | nil => simp
      | cons a b => simp [hasKey]

/-- **"initial at start" is a tick iff …** (flat kinds) -/
theorem init_ticks_iff (k : Kind) (d0 : Delta) : (applyDelta k fresh d0).2.isSome = true ↔ InitEffect k d0 := by
  rw [← hasEffect_fresh_iff]
  simp only [applyDelta]
  cases hasEffect k fresh d0 <;> simp

/-- **… and for the bundle with a collection field**: iff an entry is non-null (the fresh `s` is validated by any
    set delta); an authored delta never has a null `s` (`tsb_delta` defaults), so every declared one ticks -/
theorem init_ticksB_iff (d0 : BDelta) : (applyDeltaB {} d0).2.isSome = true ↔ (d0.a.isSome = true ∨ d0.s.isSome = true) := by
  obtain ⟨a, s⟩ := d0
  cases a <;> cases s <;> simp [applyDeltaB, hasEffectB, hasEffect, aDelta]

/-- **the EMPTY initial delta, kind by kind** -/
theorem empty_initial_per_kind :
    applyDelta .set fresh emptyDelta = ({ valid := true, items := [] }, some {}) ∧
    applyDelta .dict fresh emptyDelta = ({ valid := true, items := [] }, some {}) ∧
    applyDelta .fix fresh emptyDelta = (fresh, none) := by
  refine ⟨?_, ?_, ?_⟩ <;> simp [applyDelta, hasEffect, applyCore, fresh, emptyDelta, eraseKey]

/-- **the EMPTY bundle delta** validates the collection field: the bundle ticks, `s` ticks with an empty delta and
    is valid and empty, `a` neither ticks nor becomes valid -/
theorem empty_initial_bundle :
    applyDeltaB {} emptyDeltaB =
      ({ a := fresh, s := { valid := true, items := [] } }, some { a := none, s := some {} }) := by
  simp [applyDeltaB, hasEffectB, hasEffect, applyDelta, applyCore, emptyDeltaB, aDelta, fresh, eraseKey]

/-! ## valid from the start time on -/

theorem applyCore_valid (k : Kind) (v : Val) (d : Delta) : (applyCore k v d).1.valid = true := by
  cases k <;> rfl

/-- a delivery with an effect leaves the output valid -/
theorem valid_of_effect (k : Kind) (v : Val) (d : Delta) (h : hasEffect k v d = true) : (applyDelta k v d).1.valid = true := by
  simp [applyDelta, h, applyCore_valid]

/-- validity is never lost -/
theorem valid_mono (k : Kind) (v : Val) (d : Delta) (h : v.valid = true) : (applyDelta k v d).1.valid = true := by
  simp only [applyDelta]
  cases hasEffect k v d
  · simpa using h
  · simp [applyCore_valid]

theorem reader_all_valid (k : Kind) (ds : List (Nat × Delta)) :
    ∀ v : Val, v.valid = true → ∀ e ∈ reader k v ds, e.2.2.valid = true := by
  induction ds with
  | nil => intro v _ e he; simp [reader] at he
  | cons c rest ih =>
    obtain ⟨t, d⟩ := c
    intro v hv e he
    simp only [reader, List.mem_cons] at he
    rcases he with he | he
    · subst he; exact valid_mono k v d hv
    · exact ih _ (valid_mono k v d hv) e he

/-- **valid from the start time on** (TSS / TSD, every declared initial delta with an effect – for a TSS every
    delta, the EMPTY one included): the reader's first entry is at the start time, and the port is valid in every
    entry of the run -/
theorem valid_from_start (k : Kind) (start : Nat) (d0 : Delta) (w : Option Delta) (rest : List (Nat × Option Delta))
    (hwf : WF ((start, w) :: rest)) (heff : InitEffect k d0) :
    (∃ o v, (reader k fresh (run (startFB start (some d0)) ((start, w) :: rest))).head? = some (start, some o, v)) ∧
    ∀ e ∈ reader k fresh (run (startFB start (some d0)) ((start, w) :: rest)), e.2.2.valid = true := by
  have he : hasEffect k fresh d0 = true := (hasEffect_fresh_iff k d0).mpr heff
  simp only [startFB]
  rw [shape_initial_value start d0 w rest hwf]
  constructor
  · exact ⟨(applyCore k fresh d0).2, (applyCore k fresh d0).1, by simp [reader, applyDelta, he]⟩
  · intro e hmem
    simp only [reader, List.mem_cons] at hmem
    rcases hmem with hmem | hmem
    · subst hmem; exact valid_of_effect k fresh d0 he
    · exact reader_all_valid k _ _ (valid_of_effect k fresh d0 he) e hmem

theorem applyDeltaB_s_valid_mono (v : BVal) (d : BDelta) (h : v.s.valid = true) : (applyDeltaB v d).1.s.valid = true := by
  simp only [applyDeltaB]
  cases hasEffectB v d
  · simpa using h
  · cases hs : d.s with
    | none => simpa using h
    | some ds => simpa using valid_mono .set v.s ds h

theorem readerB_all_valid (ds : List (Nat × BDelta)) :
    ∀ v : BVal, v.s.valid = true → ∀ e ∈ readerG applyDeltaB v ds, e.2.2.s.valid = true := by
  induction ds with
  | nil => intro v _ e he; simp [readerG] at he
  | cons c rest ih =>
    obtain ⟨t, d⟩ := c
    intro v hv e he
    simp only [readerG, List.mem_cons] at he
    rcases he with he | he
    · subst he; exact applyDeltaB_s_valid_mono v d hv
    · exact ih _ (applyDeltaB_s_valid_mono v d hv) e he

/-- the bundle with a collection field: every declared initial delta whose `s` entry is non-null (every authored
    one, the EMPTY one included) ticks the reader at the start time, and `s` is valid in every entry of the run -/
theorem valid_from_startB (start : Nat) (d0 : BDelta) (ds : Delta) (hs : d0.s = some ds) (w : Option BDelta)
    (rest : List (Nat × Option BDelta)) (hwf : WF ((start, w) :: rest)) :
    (∃ o v, (readerG applyDeltaB {} (run (startFB start (some d0)) ((start, w) :: rest))).head? = some (start, some o, v)) ∧
    ∀ e ∈ readerG applyDeltaB {} (run (startFB start (some d0)) ((start, w) :: rest)), e.2.2.s.valid = true := by
  have he : hasEffectB {} d0 = true := by simp [hasEffectB, hs, hasEffect]
  have hv : (applyDeltaB {} d0).1.s.valid = true := by
    simp only [applyDeltaB, he, hs, if_true]
    exact valid_of_effect .set {} ds (by simp [hasEffect])
  simp only [startFB]
  rw [shape_initial_value start d0 w rest hwf]
  constructor
  · simp [readerG, applyDeltaB, he]
  · intro e hmem
    simp only [readerG, List.mem_cons] at hmem
    rcases hmem with hmem | hmem
    · subst hmem; exact hv
    · exact readerB_all_valid _ _ hv e hmem

/-! ## the validity-gated self loop -/

/-- the specification of the loop: a plain fold over the ticks of `x` – `prev` is the fed-back value (the initial
    value, then everything the body wrote so far), `acc` the body's own output; no scheduling, no delay -/
def loopSpec (k : Kind) : Val → Val → List (Nat × Option Int) → List (Nat × Delta)
  | _, _, [] => []
  | prev, acc, (_, none) :: rest => loopSpec k prev acc rest
  | prev, acc, (t, some x) :: rest =>
    (t, (producerStep k acc (bodyOps k prev x)).2) ::
      loopSpec k (applyDelta k prev (producerStep k acc (bodyOps k prev x)).2).1 (producerStep k acc (bodyOps k prev x)).1 rest

/-- the fed-back value the body will read in a cycle at `t`: what the source's output holds, with the delta that
    is due at `t` already applied (the source ranks before the body) -/
def prevAt (k : Kind) (t : Nat) (L : Loop) : Val :=
  if L.fb.sched = t then
    match L.fb.state with
    | some d => (applyDelta k L.prev d).1
    | none => L.prev
  else L.prev

theorem loopCycle_prev (k : Kind) (t : Nat) (x : Option Int) (L : Loop) : (loopCycle k t x L).1.prev = prevAt k t L := by
  simp only [loopCycle, sourceStep, prevAt]
  by_cases h : L.fb.sched = t
  · simp only [h, if_true]
    cases L.fb.state <;> rfl
  · simp [h]

theorem loopCycle_body (k : Kind) (t : Nat) (x : Option Int) (L : Loop) :
    (loopCycle k t x L).2.2 = (bodyStep k (prevAt k t L) L.acc x).2 ∧
    (loopCycle k t x L).1.acc = (bodyStep k (prevAt k t L) L.acc x).1 := by
  simp only [loopCycle, sourceStep, prevAt]
  by_cases h : L.fb.sched = t
  · simp only [h, if_true]
    cases L.fb.state <;> exact ⟨rfl, rfl⟩
  · simp [h]

theorem loopCycle_fb (k : Kind) (t : Nat) (x : Option Int) (L : Loop) :
    (loopCycle k t x L).1.fb = (cycle t (bodyStep k (prevAt k t L) L.acc x).2 L.fb).1 := by
  simp only [loopCycle, cycle, sourceStep, prevAt]
  by_cases h : L.fb.sched = t
  · simp only [h, if_true]
    cases L.fb.state <;> rfl
  · simp [h]

/-- general form: from any loop state whose source is not scheduled beyond the first cycle and whose fed-back
    value will be valid when the body reads it -/
theorem loop_general (k : Kind) (cs : List (Nat × Option Int)) :
    ∀ L : Loop, WF cs → (∀ t x rest, cs = (t, x) :: rest → L.fb.sched ≤ t ∧ (prevAt k t L).valid = true) →
      loopRun k L cs = loopSpec k (match cs with
                                   | [] => L.prev
                                   | (t, _) :: _ => prevAt k t L) L.acc cs := by
  induction cs with
  | nil => intro L _ _; rfl
  | cons c rest ih =>
    obtain ⟨t, x⟩ := c
    intro L hwf hL
    obtain ⟨hsched, hvalid⟩ := hL t x rest rfl
    have hprev := loopCycle_prev k t x L
    obtain ⟨hbody, hacc⟩ := loopCycle_body k t x L
    have hfb := loopCycle_fb k t x L
    cases x with
    | none =>
      -- no tick of x: the body does not run, nothing is written
      have hb : bodyStep k (prevAt k t L) L.acc none = (L.acc, none) := rfl
      rw [hb] at hbody hacc hfb
      simp only [loopRun, hbody, loopSpec]
      have hle := cycle_sched_none L.fb t hsched
      rw [← hfb] at hle
      cases rest with
      | nil => simp [loopRun, loopSpec]
      | cons c' rest' =>
        obtain ⟨t', x'⟩ := c'
        obtain ⟨_, hlt, _, hwf'⟩ := hwf
        have hne : (loopCycle k t none L).1.fb.sched ≠ t' := by omega
        have hp' : prevAt k t' (loopCycle k t none L).1 = prevAt k t L := by
          simp only [prevAt, hne, if_false, hprev]
        rw [ih _ hwf' (by
          intro a b c h; injection h with h1 _; injection h1 with h1 _
          subst h1
          exact ⟨by omega, by rw [hp']; exact hvalid⟩)]
        simp only [hp', hacc]
    | some xv =>
      have hb : bodyStep k (prevAt k t L) L.acc (some xv) =
          ((producerStep k L.acc (bodyOps k (prevAt k t L) xv)).1, some (producerStep k L.acc (bodyOps k (prevAt k t L) xv)).2) := by
        simp [bodyStep, hvalid]
      rw [hb] at hbody hacc hfb
      simp only [loopRun, hbody, loopSpec]
      rw [cycle_sched_some L.fb t _ hsched] at hfb
      cases rest with
      | nil => simp [loopRun, loopSpec]
      | cons c' rest' =>
        obtain ⟨t', x'⟩ := c'
        obtain ⟨_, hlt, hnext, hwf'⟩ := hwf
        have ht' : t' = t + 1 := hnext rfl
        subst ht'
        have hp' : prevAt k (t + 1) (loopCycle k t (some xv) L).1 =
            (applyDelta k (prevAt k t L) (producerStep k L.acc (bodyOps k (prevAt k t L) xv)).2).1 := by
          simp only [prevAt, hfb, if_true, hprev]
        rw [ih _ hwf' (by
          intro a b c h; injection h with h1 _; injection h1 with h1 _
          subst h1
          exact ⟨by simp [hfb], by rw [hp']; exact valid_mono k _ _ hvalid⟩)]
        simp only [hp', hacc]

/-- **the gated loop is the fold**: with a declared initial delta that has an effect on the fresh output (for a
    TSS any delta, the EMPTY one included) the body's output stream is `loopSpec` started from the initial value -/
theorem gated_loop_is_fold (k : Kind) (start : Nat) (d0 : Delta) (x : Option Int) (rest : List (Nat × Option Int))
    (hwf : WF ((start, x) :: rest)) (heff : InitEffect k d0) :
    loopRun k (loopStart start (some d0)) ((start, x) :: rest) =
      loopSpec k (applyDelta k fresh d0).1 fresh ((start, x) :: rest) := by
  have he : hasEffect k fresh d0 = true := (hasEffect_fresh_iff k d0).mpr heff
  have hp : prevAt k start (loopStart start (some d0)) = (applyDelta k fresh d0).1 := by
    simp [prevAt, loopStart, startFB, initFB, fresh]
  rw [loop_general k _ (loopStart start (some d0)) hwf (by
    intro t x' r h; injection h with h1 _; injection h1 with h1 _
    subst h1
    exact ⟨by simp [loopStart, startFB, initFB], by rw [hp]; exact valid_of_effect k fresh d0 he⟩)]
  simp only [hp]
  rfl

theorem loopSpec_times (k : Kind) (cs : List (Nat × Option Int)) :
    ∀ prev acc : Val, (loopSpec k prev acc cs).map (·.1) = (cs.filter (fun c => c.2.isSome)).map (·.1) := by
  induction cs with
  | nil => intro _ _; rfl
  | cons c rest ih =>
    obtain ⟨t, x⟩ := c
    intro prev acc
    cases x with
    | none => simp [loopSpec, ih]
    | some xv => simp [loopSpec, ih]

/-- **the loop starts**: the body runs in exactly the cycles in which `x` ticks – on the first tick and on every
    later one (nothing is lost because the fed-back value was not valid) -/
theorem gated_loop_runs_on_every_tick (k : Kind) (start : Nat) (d0 : Delta) (x : Option Int)
    (rest : List (Nat × Option Int)) (hwf : WF ((start, x) :: rest)) (heff : InitEffect k d0) :
    (loopRun k (loopStart start (some d0)) ((start, x) :: rest)).map (·.1) =
      (((start, x) :: rest).filter (fun c => c.2.isSome)).map (·.1) := by
  rw [gated_loop_is_fold k start d0 x rest hwf heff, loopSpec_times]

/-- a loop whose fed-back value is not valid and whose source is idle stays silent for ever: the body never runs,
    so nothing is written to the edge, so nothing is ever delivered (cycle times are positive) -/
theorem gated_loop_without_valid_prev_silent (k : Kind) (cs : List (Nat × Option Int)) :
    ∀ L : Loop, L.prev.valid = false → L.fb.sched = 0 → (∀ c ∈ cs, 0 < c.1) → loopRun k L cs = [] := by
  induction cs with
  | nil => intro _ _ _ _; rfl
  | cons c rest ih =>
    obtain ⟨t, x⟩ := c
    intro L hv hs hpos
    have ht : 0 < t := hpos (t, x) (by simp)
    have hne : ¬ L.fb.sched = t := by omega
    have hp : prevAt k t L = L.prev := by simp [prevAt, hne]
    have hb : bodyStep k L.prev L.acc x = (L.acc, none) := by
      cases x <;> simp [bodyStep, hv]
    have hprev := loopCycle_prev k t x L
    obtain ⟨hbody, _⟩ := loopCycle_body k t x L
    have hfb := loopCycle_fb k t x L
    rw [hp] at hprev
    rw [hp, hb] at hbody hfb
    simp only [loopRun, hbody]
    apply ih
    · rw [hprev]; exact hv
    · have hne' : ¬ (0 : Nat) = t := by omega
      rw [hfb]; simp [cycle, sourceStep, sinkStep, hs, hne']
    · exact fun c hc => hpos c (List.mem_cons_of_mem _ hc)

/-! ## counter-witness: the rule of the seeded change s94 -/

/-- the start hook with the seeded rule: "an empty initial delta has nothing to replay" – return before
    `schedule_node` when the declared delta equals the canonical empty delta of the schema -/
def startFBSkipEmpty [DecidableEq δ] (empty : δ) (start : Nat) (init : Option δ) : FB δ :=
  match init with
  | some d0 => if d0 = empty then { state := some d0, sched := 0 } else initFB start d0
  | none => {}

/-- with that rule a TSS / TSD feedback declared with the EMPTY initial value delivers nothing at the start time,
    and after a run without writes the reader's port is still NOT valid – while the code as it is makes it the
    valid empty collection (`empty_initial_per_kind`, `valid_from_start`) -/
theorem s94_reader_not_validated (k : Kind) (start : Nat) (cs : List (Nat × Option Delta)) (hwf : WF cs) :
    run (startFBSkipEmpty emptyDelta start (some emptyDelta)) cs = shifted cs ∧
    ((∀ c ∈ cs, c.2 = none) →
      (finalVal k fresh (run (startFBSkipEmpty emptyDelta start (some emptyDelta)) cs)).valid = false ∧
      (k.coll = true → ∀ w rest, cs = (start, w) :: rest →
        (finalVal k fresh (run (startFB start (some emptyDelta)) cs)).valid = true)) := by
  have hrun : run (startFBSkipEmpty emptyDelta start (some emptyDelta)) cs = shifted cs := by
    rw [run_general cs _ hwf (by intro t w rest _; simp [startFBSkipEmpty])]
    cases cs with
    | nil => rfl
    | cons c rest =>
      obtain ⟨t, w⟩ := c
      have : 0 < t := by
        cases rest with
        | nil => exact hwf
        | cons c' r => exact hwf.1
      have hne : (0 : Nat) ≠ t := by omega
      simp [headDelivery, startFBSkipEmpty, hne]
  refine ⟨hrun, ?_⟩
  intro hnone
  have hsh : shifted cs = [] := by
    clear hrun hwf
    induction cs with
    | nil => rfl
    | cons c rest ih =>
      obtain ⟨t, w⟩ := c
      have hw : w = none := hnone (t, w) (by simp)
      subst hw
      cases rest with
      | nil => rfl
      | cons c' r => simpa [shifted] using ih (fun c hc => hnone c (List.mem_cons_of_mem _ hc))
  constructor
  · rw [hrun, hsh]; rfl
  · intro hk w rest hcs
    subst hcs
    simp only [startFB]
    rw [shape_initial_value start emptyDelta w rest hwf, hsh]
    cases k
    · cases hk
    · rfl
    · rfl

/-- … and a loop that needs the fed-back collection to be valid never starts: with the seeded rule the body's
    output stream is empty for EVERY history of `x`, while the code as it is runs the body on every tick of `x`
    (`gated_loop_runs_on_every_tick`) -/
theorem s94_loop_never_starts (k : Kind) (start : Nat) (cs : List (Nat × Option Int)) (hpos : ∀ c ∈ cs, 0 < c.1) :
    loopRun k { fb := startFBSkipEmpty emptyDelta start (some emptyDelta) } cs = [] :=
  gated_loop_without_valid_prev_silent k cs _ rfl (by simp [startFBSkipEmpty]) hpos

/-! ## non-vacuity -/

/-- `x` ticks at 1, 3 and 4 (values 1, 2, 3) – the trace of `shape tss init {} loop` in the correspondence -/
def exLoop : List (Nat × Option Int) := [(1, some 1), (2, none), (3, some 2), (4, some 3), (5, none)]

example : WF exLoop := by simp [exLoop, WF]
example : InitEffect .set emptyDelta := trivial
example : InitEffect .dict emptyDelta := Or.inr rfl
example : InitEffect .dict { mods := [(2, 5)], rems := [3] } := Or.inl (by simp)
example : ¬ InitEffect .dict { rems := [3] } := by simp [InitEffect]
example : ¬ InitEffect .fix emptyDelta := by simp [InitEffect, emptyDelta]
/-- as coded: the body runs at 1, 3, 4 and the set grows -/
example : loopRun .set (loopStart 1 (some emptyDelta)) exLoop =
    [(1, { mods := [(1, 0)] }), (3, { mods := [(2, 0)] }), (4, { mods := [(3, 0)] })] := by decide
/-- with the seeded rule: silence -/
example : loopRun .set { fb := startFBSkipEmpty emptyDelta 1 (some emptyDelta) } exLoop = [] := by decide
/-- without a declared initial value the loop is silent as well (this is not a loss: nothing was declared) -/
example : loopRun .set (loopStart 1 none) exLoop = [] := by decide
/-- the line: empty initial set, first write at 3 – the reader ticks at the start with an empty delta -/
example : observed .set fresh (run (startFB 1 (some emptyDelta)) [(1, none), (3, some { mods := [(1, 0)] }), (4, none)]) =
    [(1, {}), (4, { mods := [(1, 0)] })] := by decide
example : observed .set fresh (run (startFBSkipEmpty emptyDelta 1 (some emptyDelta)) [(1, none), (3, some { mods := [(1, 0)] }), (4, none)]) =
    [(4, { mods := [(1, 0)] })] := by decide
/-- the bundle: empty initial delta, then a write of `a` alone -/
example : observedG applyDeltaB {} (run (startFB 1 (some emptyDeltaB)) [(1, none), (2, some { a := some 10 }), (3, none)]) =
    [(1, { s := some {} }), (3, { a := some { mods := [(0, 10)] } })] := by decide
/-- without the initial delta the same write leaves `s` not valid -/
example : (readerG applyDeltaB {} (run (startFB 1 none) [(1, none), (2, some { a := some 10 }), (3, none)])).map (·.2.2.s.valid) =
    [false] := by decide
/-- the hypotheses of `gated_loop_without_valid_prev_silent` hold for the loop without a declared initial value -/
example : (loopStart 1 none).prev.valid = false ∧ (loopStart 1 none).fb.sched = 0 ∧ ∀ c ∈ exLoop, 0 < c.1 := by decide

end HgVerif.FeedbackShape
