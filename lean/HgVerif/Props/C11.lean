import HgVerif.Lemmas.Reduce
/-!
# C11 — reduce equals the fold of the combiner over exactly the currently valid elements

Property theorems only (helpers live in `Lemmas/Reduce.lean`).  Everything is stated for an arbitrary
carrier `α`, an arbitrary key type `κ` and an arbitrary associative (where stated: commutative)
combiner `f`, over the model of `reduce_node.cpp` in `Model/Reduce.lean`.

* `resolve_closed_eq_rec`  : the closed form of `resolve_aggregate` (bit_floor / bit_width / shift /
                             left descent) equals the recursive definition, for every capacity
                             `0` or `2^k`, every live count and every position.
* `Shape` (Lemmas/Reduce)  : the representation invariant (capacity `0` or a power of two `≥` live
                             count, distinct keys, `combiners[p]` exists exactly where phase 1 needs one).
* `tree_value_eq_fold`     : in every `Shape` state the published root value is the left fold of `f`
                             over the live leaves in leaf order (no zero, or two or more leaves).
* `zero_contract`          : the four cardinality cases of the zero / no-zero contract.
* `foldOpt_perm`, `reduce_history_free` : with commutativity the result depends only on the multiset of
                             live values: not on the order of adds / removes / ticks (leaf order), not on
                             capacity or growth history.
* `shape_reachable`        : every state reached by any sequence of reduce-node evaluations (any
                             add / remove deltas, several per cycle, full or incremental structural
                             rebuild, capacity growth) satisfies `Shape`; `reachable_value` combines it
                             with the fold theorem.
* `reachable_history_free` : the same, end to end for two arbitrary histories with the same live key set.
* `keys_track_source`      : after a reconcile the dense leaves are exactly the currently valid
                             elements (old ones not removed, plus the added ones).
* `combiner_count`, `reachable_combiner_count` : live combiners `= max(n-1, [n = 1 ∧ zero])`.
* `rebuild_keeps_leaves`, `removeLeafAt_perm` : a bank swap / rebuild never changes the leaves;
                             swap-remove removes exactly the one leaf.
* `lifted_tsl_eq_fold`     : the fixed-TSL lifted fast path is the same fold over the valid items.

Strength.  Full for the tree algebra and the structural maintenance (every statement above is for all
histories / capacities / positions, nothing is bounded).  PARTIAL with respect to the code in one
respect, which is a limit of the *model*, not an unproved statement: `rootOut` is the value the tree
holds once every live combiner on a changed leaf-to-root path has been evaluated deepest-first.  Which
cached combiner outputs the code actually refreshes on a value tick (`prepare_reduce_evaluation_positions`,
`append_leaf_path`), the re-binding of generic combiner child graphs (`bind_combiner_inputs`) and the
keyed publication snapshot are not modelled; a fault there is found by the trace monitor of
`tools/props/c11.py` (mutation "wrong ancestor path for value ticks" is caught that way), not by a
broken proof.  Memory safety of the two combiner banks is outside any of this.
-/
namespace HgVerif.Reduce

/-! ## closed form = recursive definition -/

/-- C11 (ceiling): for every capacity the code can hold (`0`, or a power of two), every live count and
    every heap position (inside or outside the tree) the closed form equals the recursive definition. -/
theorem resolve_closed_eq_rec (cap : Nat) (hcap : cap = 0 ∨ ∃ k, cap = 2 ^ k) (live position : Nat) :
    resolveClosed cap live position = resolveRec cap live position := by
  rcases hcap with h | ⟨k, h⟩
  · subst h; exact resolveClosed_eq_resolveRec_zero live position
  · subst h; exact resolveClosed_eq_resolveRec_pow k live position

/-! ## the representation invariant -/

-- `Shape` (the representation invariant) is defined in `Lemmas/Reduce.lean`.

/-! ## the root value is the fold -/

section Value
variable {κ α : Type}

/-- C11 (floor): for an associative combiner, in every state satisfying the representation invariant
    (in particular after ANY add/remove history, `shape_reachable`), the published root value equals
    the left fold of the combiner over the values of the live leaves in leaf order — whenever no zero
    is supplied or two or more leaves are live.  `vs` are the current values of the leaves' source
    elements (`hsrc`: every leaf aliases a valid element).  The zero value does not occur. -/
theorem tree_value_eq_fold (f : α → α → α) (hf : ∀ a b c, f (f a b) c = f a (f b c))
    (hasZero : Bool) (zero : Option α) (src : κ → Option α) (t : Tree κ) (hs : Shape hasZero t)
    (vs : List α) (hsrc : t.keys.map src = vs.map some)
    (hn : hasZero = false ∨ 2 ≤ t.keys.length) :
    rootOut f hasZero zero src t = foldOpt f vs := by
  have hlen : t.keys.length = vs.length := by
    have := congrArg List.length hsrc; simpa using this
  have hlv : ∀ i : Nat, leafVal src t.keys i = vs[i]? := by
    intro i
    have h1 : (t.keys.map src)[i]? = (vs.map some)[i]? := by rw [hsrc]
    simp only [List.getElem?_map] at h1
    unfold leafVal
    cases hk : t.keys[i]? with
    | none => rw [hk] at h1; cases hv : vs[i]? <;> simp_all
    | some k => rw [hk] at h1; cases hv : vs[i]? <;> simp_all
  unfold rootOut
  by_cases h0 : t.keys.length = 0
  · -- empty: no zero supplied (two leaves are impossible)
    have hz : hasZero = false := by
      rcases hn with h | h
      · exact h
      · omega
    have hvs : vs = [] := List.eq_nil_of_length_eq_zero (by omega)
    simp [rootAgg, h0, aggOut, hz, hvs, foldOpt_nil]
  · have hroot : rootAgg hasZero t.cap t.keys.length t.combiners.length = resolveClosed t.cap t.keys.length 0 := by
      unfold rootAgg
      rcases hn with h | h
      · simp [h0, h]
      · have : ¬ t.keys.length = 1 := by omega
        simp [h0, this]
    rw [hroot]
    rcases hs.cap_pow with hc | ⟨k, hc⟩
    · have := hs.live_le; omega
    · have hle := hs.live_le
      have hcn := hs.comb_needed
      rw [hc] at hle hcn ⊢
      rw [hlen] at hle hcn ⊢
      have hlive : ∀ p, p < 2 ^ k - 1 → (resolveClosed (2 ^ k) vs.length (2 * p + 1)).isEmpty = false →
          (resolveClosed (2 ^ k) vs.length (2 * p + 2)).isEmpty = false →
          combLive t.combiners p = true := by
        intro p hp h1 h2
        have := hcn p (by rw [internalCount_pow]; exact hp)
        unfold combLive
        rw [this]
        simp [neededAt, h1, h2]
      have := aggOut_interval f hf (if hasZero = true then zero else none) k
        (combLive t.combiners) (leafVal src t.keys) vs hlv hlive k 0 0 (by omega)
        (by simp) (by simp; omega)
      simp only [Nat.pow_zero, Nat.zero_mul, List.drop_zero] at this
      have h00 : (1 : Nat) + 0 - 1 = 0 := rfl
      rw [h00] at this
      rw [this, List.take_of_length_le hle]

/-- C11 (floor), the zero / no-zero contract by live-value count, in every `Shape` state:
    1. empty ∧ no zero ⇒ invalid; 2. empty ∧ zero ⇒ the zero; 3. exactly one element ∧ zero ⇒
    `combine(value, zero)`; 4. two or more elements ⇒ the zero is not an operand (the result is the
    same for every zero value, valid or not).  (One element without zero is that element:
    `tree_value_eq_fold`.) -/
theorem zero_contract (f : α → α → α) (hf : ∀ a b c, f (f a b) c = f a (f b c))
    (hasZero : Bool) (src : κ → Option α) (t : Tree κ) (hs : Shape hasZero t) :
    (t.keys = [] → hasZero = false → ∀ zero, rootOut f hasZero zero src t = none) ∧
    (t.keys = [] → hasZero = true → ∀ zero, rootOut f hasZero zero src t = zero) ∧
    (∀ k v, t.keys = [k] → hasZero = true → src k = some v →
        ∀ z, rootOut f hasZero (some z) src t = some (f v z)) ∧
    (2 ≤ t.keys.length → (∀ k ∈ t.keys, (src k).isSome) →
        ∀ zero zero', rootOut f hasZero zero src t = rootOut f hasZero zero' src t) := by
  refine ⟨?_, ?_, ?_, ?_⟩
  · intro hk hz zero
    simp [rootOut, rootAgg, hk, aggOut, hz]
  · intro hk hz zero
    simp [rootOut, rootAgg, hk, aggOut, hz]
  · intro k v hk hz hv z
    subst hz
    rw [singleton_zero_value f (some z) src t hs k hk, hv]
  · intro hn hvalid zero zero'
    have hsrc : t.keys.map src = (t.keys.filterMap src).map some := map_eq_map_some_filterMap src t.keys hvalid
    rw [tree_value_eq_fold f hf hasZero zero src t hs _ hsrc (Or.inr hn),
      tree_value_eq_fold f hf hasZero zero' src t hs _ hsrc (Or.inr hn)]

/-! ## order independence -/

/-- With a commutative and associative combiner the fold does not depend on the order of the elements. -/
theorem foldOpt_perm (f : α → α → α) (hf : ∀ a b c, f (f a b) c = f a (f b c)) (hc : ∀ a b, f a b = f b a)
    (l1 l2 : List α) (h : l1.Perm l2) : foldOpt f l1 = foldOpt f l2 := by
  unfold foldOpt
  apply List.Perm.foldl_eq' h
  intro x _ y _ z
  cases z with
  | none => simp [foldStep, hc x y]
  | some a => simp only [foldStep]; rw [hf, hf, hc x y]

/-- C11 (floor), `reduce_history_free`: two states of the tree — reached by ANY two histories of adds,
    removes and ticks, with ANY capacities / growth histories (`Shape` is all that is used, and every
    reachable state has it) — that hold the same set of live keys (as dense arrays: one a permutation
    of the other) publish the same value, for a commutative associative combiner. -/
theorem reduce_history_free (f : α → α → α) (hf : ∀ a b c, f (f a b) c = f a (f b c)) (hc : ∀ a b, f a b = f b a)
    (hasZero : Bool) (zero : Option α) (src : κ → Option α) (t1 t2 : Tree κ)
    (h1 : Shape hasZero t1) (h2 : Shape hasZero t2) (hp : t1.keys.Perm t2.keys)
    (hvalid : ∀ k ∈ t1.keys, (src k).isSome) :
    rootOut f hasZero zero src t1 = rootOut f hasZero zero src t2 := by
  have hvalid2 : ∀ k ∈ t2.keys, (src k).isSome := fun k hk => hvalid k (hp.mem_iff.mpr hk)
  have hlen := hp.length_eq
  by_cases hone : hasZero = true ∧ t1.keys.length = 1
  · obtain ⟨hz, hn⟩ := hone
    subst hz
    obtain ⟨k, hk⟩ : ∃ k, t1.keys = [k] := by
      match hkk : t1.keys, hn with
      | [k], _ => exact ⟨k, rfl⟩
    have hk2 : t2.keys = [k] := by
      rw [hk] at hp
      exact List.perm_singleton.mp hp.symm
    rw [singleton_zero_value f zero src t1 h1 k hk, singleton_zero_value f zero src t2 h2 k hk2]
  · by_cases h0 : t1.keys.length = 0
    · have e1 : t1.keys = [] := List.eq_nil_of_length_eq_zero h0
      have e2 : t2.keys = [] := List.eq_nil_of_length_eq_zero (by omega)
      simp [rootOut, rootAgg, e1, e2, aggOut]
    · have hn1 : hasZero = false ∨ 2 ≤ t1.keys.length := by
        cases hasZero
        · exact Or.inl rfl
        · right
          have : ¬ t1.keys.length = 1 := fun h => hone ⟨rfl, h⟩
          omega
      have hn2 : hasZero = false ∨ 2 ≤ t2.keys.length := by rw [← hlen]; exact hn1
      rw [tree_value_eq_fold f hf hasZero zero src t1 h1 _ (map_eq_map_some_filterMap src t1.keys hvalid) hn1,
        tree_value_eq_fold f hf hasZero zero src t2 h2 _ (map_eq_map_some_filterMap src t2.keys hvalid2) hn2]
      exact foldOpt_perm f hf hc _ _ (hp.filterMap src)

/-- the fixed-`TSL` lifted fast path (`reduce_lifted_tsl`) computes the same fold over the valid items -/
theorem lifted_tsl_eq_fold (f : α → α → α) (items : List (Option α)) :
    liftedTslEval f items = foldOpt f (items.filterMap id) := by
  unfold liftedTslEval foldOpt
  generalize (none : Option α) = acc
  induction items generalizing acc with
  | nil => rfl
  | cons x xs ih =>
    cases x with
    | none => simpa using ih acc
    | some v => simpa using ih (foldStep f acc v)

end Value

/-! ## the invariant holds after every history -/

section Reach
set_option linter.unusedSectionVars false
variable {κ : Type} [DecidableEq κ]

/-- C11 (ceiling): `rebuild_structure` — including the bank swap on capacity growth — never touches the
    dense leaves: no leaf is lost or duplicated by growth. -/
theorem rebuild_keeps_leaves (hasZero : Bool) (now : Nat) (t : Tree κ) (full : Bool) :
    (rebuild hasZero now t full).keys = t.keys := rfl

/-- C11: swap-remove (`remove_leaf_at`) removes exactly the addressed leaf: the old dense array is a
    permutation of the removed key followed by the new dense array. -/
theorem removeLeafAt_perm (keys : List κ) (i : Nat) (hi : i < keys.length) :
    keys.Perm (keys[i] :: removeLeafAt keys i) := removeLeafAt_perm' keys i hi

/-- the states of the reduce node's storage reachable by any history of evaluations: any deltas
    (several adds / removes per cycle, in any order), with or without the collection being available
    or modified -/
inductive Reachable (hasZero : Bool) : Tree κ → Prop
  | init : Reachable hasZero {}
  | eval (t : Tree κ) (now : Nat) (available modified : Bool) (removed present : List κ) :
      Reachable hasZero t → Reachable hasZero (evalStructure hasZero now t available modified removed present)

/-- C11: every reachable state satisfies the representation invariant — whatever the history of adds,
    removes, ticks and capacity growth, including the incremental (ancestor paths only) update of the
    combiner set. -/
theorem shape_reachable (hasZero : Bool) (t : Tree κ) (h : Reachable hasZero t) : Shape hasZero t := by
  induction h with
  | init => exact shape_init hasZero
  | eval t now available modified removed present _ ih =>
    exact evalStructure_shape hasZero now t available modified removed present ih

/-- C11: after ANY history of reduce-node evaluations the published value is the fold of the combiner over
    the current values of exactly the live leaves (no zero, or two or more leaves); the other
    cardinalities are `zero_contract` applied to `shape_reachable`. -/
theorem reachable_value {α : Type} (f : α → α → α) (hf : ∀ a b c, f (f a b) c = f a (f b c))
    (hasZero : Bool) (zero : Option α) (src : κ → Option α) (t : Tree κ) (hr : Reachable hasZero t)
    (hvalid : ∀ k ∈ t.keys, (src k).isSome) (hn : hasZero = false ∨ 2 ≤ t.keys.length) :
    rootOut f hasZero zero src t = foldOpt f (t.keys.filterMap src) :=
  tree_value_eq_fold f hf hasZero zero src t (shape_reachable hasZero t hr) _
    (map_eq_map_some_filterMap src t.keys hvalid) hn

/-- C11, history independence end to end: two ARBITRARY histories of evaluations (different orders of
    adds, removes and ticks, different numbers of cycles, different capacities reached) that end with
    the same set of live keys publish the same value, for a commutative associative combiner.  (The
    value is a function of the storage and the *current* element values `src` only, so the order of
    value ticks cannot matter either.) -/
theorem reachable_history_free {α : Type} (f : α → α → α) (hf : ∀ a b c, f (f a b) c = f a (f b c))
    (hc : ∀ a b, f a b = f b a) (hasZero : Bool) (zero : Option α) (src : κ → Option α) (t1 t2 : Tree κ)
    (h1 : Reachable hasZero t1) (h2 : Reachable hasZero t2) (hsame : ∀ k, k ∈ t1.keys ↔ k ∈ t2.keys)
    (hvalid : ∀ k ∈ t1.keys, (src k).isSome) :
    rootOut f hasZero zero src t1 = rootOut f hasZero zero src t2 := by
  have s1 := shape_reachable hasZero t1 h1
  have s2 := shape_reachable hasZero t2 h2
  exact reduce_history_free f hf hc hasZero zero src t1 t2 s1 s2
    ((List.perm_ext_iff_of_nodup s1.nodup s2.nodup).mpr hsame) hvalid

/-- C11, "exactly the currently valid elements": after a reconcile the dense leaves are the previous
    leaves that were not removed plus the added / newly valid elements (sparse delta), or exactly the
    currently valid elements (full reconcile). -/
theorem keys_track_source (t : Tree κ) (hn : t.keys.Nodup) (removed present : List κ) (k : κ) :
    (k ∈ (reconcileLeaves t false removed present).1.keys ↔ (k ∈ t.keys ∧ k ∉ removed) ∨ k ∈ present) ∧
    (k ∈ (reconcileLeaves t true removed present).1.keys ↔ k ∈ present) := by
  unfold reconcileLeaves
  simp only [Bool.false_eq_true, ↓reduceIte]
  constructor
  · rw [mem_foldl_addKey, mem_foldl_removeKey hn]
  · rw [mem_foldl_addKey]; simp [clearLeaves]

/-- C11 (ceiling): the number of live combiners is `max(n - 1, [n = 1 ∧ zero])`: `n - 1` normally, one
    for a singleton with a supplied zero, none for an empty tree or a singleton without zero —
    whatever the capacity. -/
theorem combiner_count (hasZero : Bool) (t : Tree κ) (hs : Shape hasZero t) :
    combinerCount t = if hasZero = true ∧ t.keys.length = 1 then 1 else t.keys.length - 1 := by
  unfold combinerCount
  have hcn := hs.comb_needed
  rw [← hs.comb_len] at hcn
  rw [count_true_eq t.combiners _ hcn, hs.comb_len]
  rcases hs.cap_pow with h0 | ⟨k, hk⟩
  · have := hs.live_le
    rw [h0] at this ⊢
    have hl : t.keys.length = 0 := by omega
    simp [internalCount, hl]
  · have hle := hs.live_le
    have hz2 := hs.zero_cap
    rw [hk] at hle hz2 ⊢
    rw [internalCount_pow]
    by_cases hone : hasZero = true ∧ t.keys.length = 1
    · obtain ⟨hz, hn⟩ := hone
      have hcap := hz2 hz (by omega)
      simp only [hz, hn, and_self, ↓reduceIte]
      have hcongr : (List.range (2 ^ k - 1)).countP (neededAt true (2 ^ k) 1) =
          (List.range (2 ^ k - 1)).countP (fun q => q == 0) := by
        apply List.countP_congr
        intro q hq
        have hq : q < 2 ^ k - 1 := by simpa using hq
        rw [neededAt_rfirst true k 1 q hq]
        have := rfirst_pos k q
        have hnot : ¬ rfirst k q < 1 := by omega
        simp [hnot]
      rw [hcongr]
      have hsplit : 2 ^ k - 1 = 1 + (2 ^ k - 2) := by omega
      rw [hsplit, List.range_add, List.countP_append, List.countP_map]
      have : (List.range (2 ^ k - 2)).countP ((fun q => q == 0) ∘ fun x => 1 + x) = 0 := by
        rw [List.countP_eq_zero]; intro a _; simp
      rw [this]; rfl
    · simp only [hone, ↓reduceIte]
      have hcongr : (List.range (2 ^ k - 1)).countP (neededAt hasZero (2 ^ k) t.keys.length) =
          (List.range (2 ^ k - 1)).countP (fun q => decide (rfirst k q < t.keys.length)) := by
        apply List.countP_congr
        intro q hq
        have hq : q < 2 ^ k - 1 := by simpa using hq
        rw [neededAt_rfirst hasZero k _ q hq]
        have : (q == 0 && hasZero && t.keys.length == 1) = false := by
          cases hasZero
          · simp
          · have : ¬ t.keys.length = 1 := fun h => hone ⟨rfl, h⟩
            simp [this]
        rw [this]; simp
      rw [hcongr, countP_rfirst k _ hle]

/-- C11 (ceiling): the combiner count holds after every history -/
theorem reachable_combiner_count (hasZero : Bool) (t : Tree κ) (hr : Reachable hasZero t) :
    combinerCount t = if hasZero = true ∧ t.keys.length = 1 then 1 else t.keys.length - 1 :=
  combiner_count hasZero t (shape_reachable hasZero t hr)

/-! ## non-vacuity: a concrete non-trivial history -/

/-- three keys arrive in one cycle, then the middle one is removed while two more arrive (growth over
    the capacity boundary 4), then the last two are removed: with a supplied zero -/
def exampleTree : Tree Nat :=
  evalStructure true 3
    (evalStructure true 2
      (evalStructure true 1 ({} : Tree Nat) true true [] [10, 20, 30])
      true true [20] [40, 50])
    true true [50, 10] []

theorem exampleTree_reachable : Reachable true exampleTree :=
  .eval _ _ _ _ _ _ (.eval _ _ _ _ _ _ (.eval _ _ _ _ _ _ .init))

/-- swap-remove moved the last leaf into the holes: dense order differs from arrival order -/
example : exampleTree.keys = [40, 30] := by decide +kernel

example : Shape true exampleTree := shape_reachable _ _ exampleTree_reachable

/-- the hypotheses of `reachable_value` are satisfiable and give the sum of exactly the live values,
    the zero `1000` not being an operand -/
example : rootOut (· + ·) true (some 1000) (fun k => some k) exampleTree = some 70 := by
  rw [reachable_value (· + ·) Nat.add_assoc true (some 1000) (fun k => some k) exampleTree
    exampleTree_reachable (by intro k _; rfl) (Or.inr (by decide +kernel))]
  decide +kernel

example : combinerCount exampleTree = 1 := by
  rw [reachable_combiner_count true exampleTree exampleTree_reachable]; decide +kernel

/-- the singleton-with-zero case of `zero_contract` on a reachable state -/
def exampleSingleton : Tree Nat :=
  evalStructure true 2 (evalStructure true 1 ({} : Tree Nat) true true [] [7, 8]) true true [7] []

example : rootOut (· + ·) true (some 1000) (fun k => some k) exampleSingleton = some 1008 :=
  (zero_contract (· + ·) Nat.add_assoc true (fun k => some k) exampleSingleton
    (shape_reachable _ _ (.eval _ _ _ _ _ _ (.eval _ _ _ _ _ _ .init)))).2.2.1 8 8 (by decide +kernel) rfl rfl 1000

/-- `reduce_history_free` on two different histories (different arrival order, different capacities:
    the first grew to 8 leaves and shrank, the second never held more than two) -/
def historyA : Tree Nat :=
  evalStructure false 2 (evalStructure false 1 ({} : Tree Nat) true true [] [1, 2, 3, 4, 5]) true true [1, 3, 5] []

def historyB : Tree Nat :=
  evalStructure false 2 (evalStructure false 1 ({} : Tree Nat) true true [] [2]) true true [] [4]

example : historyA.keys = [4, 2] ∧ historyB.keys = [2, 4] ∧ historyA.cap = 8 ∧ historyB.cap = 2 := by decide +kernel

example (src : Nat → Option Int) (h2 : (src 2).isSome) (h4 : (src 4).isSome) (f : Int → Int → Int)
    (hf : ∀ a b c, f (f a b) c = f a (f b c)) (hc : ∀ a b, f a b = f b a) (zero : Option Int) :
    rootOut f false zero src historyA = rootOut f false zero src historyB := by
  apply reduce_history_free f hf hc false zero src historyA historyB
    (shape_reachable _ _ (.eval _ _ _ _ _ _ (.eval _ _ _ _ _ _ .init)))
    (shape_reachable _ _ (.eval _ _ _ _ _ _ (.eval _ _ _ _ _ _ .init)))
  · have : historyA.keys = [4, 2] ∧ historyB.keys = [2, 4] := by decide +kernel
    rw [this.1, this.2]; exact List.Perm.swap 2 4 []
  · have : historyA.keys = [4, 2] := by decide +kernel
    rw [this]; intro k hk
    simp at hk
    rcases hk with rfl | rfl <;> assumption

end Reach

end HgVerif.Reduce
