import HgVerif.Lemmas.NestFlowRoot
/-!
# C09 — a flat dataflow sub-graph behaves the same inlined or nested, at any depth (run level, unbounded)

Model: `Model/NestFlow.lean`.  One dataflow program `F : Flow S` (arbitrary node functions, states, self-schedules) is
executed (a) inlined — `beh F ρ` scanned by `Sched.cycle`/`simLoop` under ANY topological rank `ρ` — and (b) as a
chain of nested graphs `T : Tree` (depth 1 = `nest1 c ρp ρc`: a parent with one nested node whose child is flat):
every graph runs `Sched.cycle` on its own schedule, the nested node's position runs the child's `cycle` and
pull-propagates (`Nest.eval`), a write that a deeper node subscribes to goes through `nested_schedule_node_impl`
(`Nest.push`, clamped) and wakes the nested node, a child write that an outer node subscribes to schedules it in its
own graph for this cycle.

* `push_fold_is_Nest_push`, `nested_eval_is_Nest_eval` : the two boundary steps of the model ARE `Nest.push` / `Nest.eval`.
* `nested_cycle_eq_inlined`  : from corresponding idle states, one root cycle at `t` leaves every node in the same
  state as the inlined cycle, with the same user-code runs, the same writers, corresponding slots and next time.
* `nested_run_eq_inlined` (`nested_sim_inlined_flow`) : whole simulation runs have the same cycle times, the same
  final node states and the same completion flag — any depth, any ranks of the graphs, any rank of the inlined flow.
* `nested_depth_irrelevant_flow` : two nestings of one program (any depths, cut points, ranks) run alike.
* `topo_nest1` : at depth 1 the order hypothesis is the level-wise one (parent and child ranks topological).

Scope: a `Tree` is a CHAIN — every graph holds at most one nested node; several nested siblings in one graph, and
nested nodes with their own policy (map_/switch_/try_except), are not in this model.

Hypotheses: `Tree.WF` (every level has a valid rank), `Topo`/`TopoR` of the composed rank (= every level's rank is
topological for active resp. all inputs, the nested node after the producers its child reads and before the
consumers of its child's outputs), `SelfFuture`, `Frame`, and `Corr` — corresponding states AFTER start (`QI`: every
graph's cached next time is the minimum of its pending slots; every nested node's slot is its child's next time).
Start-time sampling (finding F2) is outside: the theorems start from states that correspond after `start`.
-/
namespace HgVerif.NestFlow
open HgVerif.Sched HgVerif.Flow

variable {S : Type}

/-! ## the boundary steps of the model are `Nest.push` and `Nest.eval` -/

theorem Nest_push_eq (s : Nest) (j : Nat) (w : Time) :
    s.push j w = { s with gc := pushC s.gp.now s.gc j w, gp := scheduleNode s.gp ⟨s.k, max w s.gp.now⟩ } := rfl

/-- a write of an outer node at `t` (the parent evaluating at `t`) to the child nodes `L` that subscribe to it: what
    `behT` does — `pushT` on the child's schedule, one request `⟨k, max t t⟩` per subscriber to the parent — is the
    fold of `Nest.push` (`nested_schedule_node_impl`) over the subscribers -/
theorem push_fold_is_Nest_push (k : Nat) (rc : Rk) (hi t : Time) (L : List Nat) (gp gc : G) (gs : List G) (hnow : gp.now = t) :
    L.foldl (fun s c => s.push (rc.posOf (c - hi)) t) (⟨gp, gc, k⟩ : Nest) =
      ⟨(L.map (fun _ => (⟨k, max t t⟩ : Req))).foldl scheduleNode gp,
       (L.foldl (fun x c => pushT (.leaf rc) hi t x c t) (gc, gs)).1, k⟩ := by
  induction L generalizing gp gc with
  | nil => rfl
  | cons c rest ih =>
    simp only [List.foldl_cons, List.map_cons]
    rw [Nest_push_eq]
    simp only [hnow]
    exact ih _ _ (by rw [scheduleNode_now]; exact hnow)

/-- the evaluation of the nested node is `Nest.eval`: the child's `cycle`, then — only if it completed and has
    something pending — the parent's slot of the nested node is re-armed at the child's next time -/
theorem nested_eval_is_Nest_eval (F : Flow S) (fx : Bool) (hi lo : Nat) (rk : Rk) (ch : Tree) (t : Time) (u : CSt S) (gp : G) :
    let e := (behT F fx (.node hi rk ch) lo).eval (rk.posOf (hi - lo)) t u
    let ne := Nest.eval fx (behT F fx ch hi) (ch.size F.n hi) t ⟨gp, (sub u.gs).1, rk.posOf (hi - lo)⟩
                { u with gs := (sub u.gs).2, up := [] }
    ne.1.gc = (sub e.st.gs).1 ∧ ne.2.2 = e.ok ∧ ne.2.1.σ = e.st.σ ∧
    ne.1.gp = (propagate (rk.posOf (hi - lo)) ne.1.gc.next ne.2.2).foldl scheduleNode gp := by
  intro e ne
  have he : e = _ := node_nested_eval F fx hi lo rk ch t u
  refine ⟨by rw [he]; rfl, by rw [he]; rfl, by rw [he]; rfl, ?_⟩
  show (match (cycle fx (behT F fx ch hi) (ch.size F.n hi) t (sub u.gs).1 { u with gs := (sub u.gs).2, up := [] }).g.next with
      | some nx => if (cycle fx (behT F fx ch hi) (ch.size F.n hi) t (sub u.gs).1 { u with gs := (sub u.gs).2, up := [] }).ok
          then scheduleNode gp ⟨rk.posOf (hi - lo), nx⟩ else gp
      | none => gp) = _
  show _ = (propagate (rk.posOf (hi - lo))
    (cycle fx (behT F fx ch hi) (ch.size F.n hi) t (sub u.gs).1 { u with gs := (sub u.gs).2, up := [] }).g.next
    (cycle fx (behT F fx ch hi) (ch.size F.n hi) t (sub u.gs).1 { u with gs := (sub u.gs).2, up := [] }).ok).foldl scheduleNode gp
  cases (cycle fx (behT F fx ch hi) (ch.size F.n hi) t (sub u.gs).1 { u with gs := (sub u.gs).2, up := [] }).g.next with
  | none => rfl
  | some nx =>
    cases (cycle fx (behT F fx ch hi) (ch.size F.n hi) t (sub u.gs).1 { u with gs := (sub u.gs).2, up := [] }).ok <;> rfl

/-! ## corresponding states -/

/-- the composed rank of a nesting, as a rank of the inlined program -/
abbrev starRank (F : Flow S) (T : Tree) (h : T.WF F.n 0) : Rank F.n :=
  (flatRk F.n T 0).toRank F.n (flatRk_ok F.n T 0 h)

/-- the nesting's schedules `x` (root first) and the inlined schedule `gI` (arranged by `ρ`) correspond: the nesting
    is in a consistent idle state, every node sees the same slot, the root's cached next time is the inlined one -/
structure Corr (F : Flow S) (T : Tree) (ρ : Rank F.n) (x : G × List G) (gI : G) : Prop where
  qi : QI F.n T 0 x
  lenI : gI.slots.length = F.n
  curI : gI.cursor = 0
  view : ∀ i, i < F.n → viewT T 0 x i = slotOf gI (ρ.posOf i)
  next : x.1.next = gI.next

theorem topoT_of_topo (F : Flow S) (T : Tree) (hwf : T.WF F.n 0) (hTs : Topo F (starRank F T hwf)) : TopoT F T 0 := by
  intro c _ hc p hp
  have := hTs c hc p hp
  exact ⟨this.1, fun _ => this.2⟩

/-- one cycle against the inlined program under the composed rank -/
theorem star_cycle (F : Flow S) (fx : Bool) (T : Tree) (hwf : T.WF F.n 0) (hTs : Topo F (starRank F T hwf)) (hS : SelfFuture F)
    (t : Time) (x : G × List G) (gI : G) (hC : Corr F T (starRank F T hwf) x gI) (hnow : x.1.now < t)
    (hnx : ∀ nx, x.1.next = some nx → t ≤ nx) (σ : Nat → S) (up fl wl : List Nat) :
    (cycleT F fx T t x.1 ⟨σ, x.2, up, fl, wl⟩).ok = true ∧
    (cycle fx (beh F (starRank F T hwf)) F.n t gI σ).ok = true ∧
    (cycleT F fx T t x.1 ⟨σ, x.2, up, fl, wl⟩).st.σ = (cycle fx (beh F (starRank F T hwf)) F.n t gI σ).st ∧
    (cycleT F fx T t x.1 ⟨σ, x.2, up, fl, wl⟩).st.up = up ∧
    (cycleT F fx T t x.1 ⟨σ, x.2, up, fl, wl⟩).st.fl =
      fl ++ (cycle fx (beh F (starRank F T hwf)) F.n t gI σ).evaluated.map (starRank F T hwf).node ∧
    (cycleT F fx T t x.1 ⟨σ, x.2, up, fl, wl⟩).st.wl =
      (denSeq F (starRank F T hwf) t (dueN F (starRank F T hwf) gI t) F.n 0 σ [] []).2.1 ++ wl ∧
    Corr F T (starRank F T hwf) ((cycleT F fx T t x.1 ⟨σ, x.2, up, fl, wl⟩).g, (cycleT F fx T t x.1 ⟨σ, x.2, up, fl, wl⟩).st.gs)
      (cycle fx (beh F (starRank F T hwf)) F.n t gI σ).g ∧
    (cycleT F fx T t x.1 ⟨σ, x.2, up, fl, wl⟩).g.now = t := by
  have hrk : RkOK F.n (flatRk F.n T 0) := flatRk_ok F.n T 0 hwf
  have hW := ready_of_QI F.n T 0 x t hC.qi hnow hnx
  have hV : ViewEq F.n T 0 x gI := fun i _ hi => hC.view i hi
  have R := nest_cycle F fx hS T 0 hwf (topoT_of_topo F T hwf hTs) t x hW gI hV hC.lenI hC.curI σ [] up fl wl
  have hfrL := cycle_fresh fx (behT F fx (.leaf (flatRk F.n T 0)) 0) F.n t gI ⟨σ, [], up, fl, wl⟩ hC.curI
  have hfrS := cycle_fresh fx (beh F (starRank F T hwf)) F.n t gI σ hC.curI
  have L := leaf0_scan F fx (flatRk F.n T 0) hrk t F.n 0 { gI with now := t, failed := false, next := none, cursor := 0 }
    ⟨σ, [], up, fl, wl⟩ [] fl (by simp)
  have Lw := leaf0_wl F fx (flatRk F.n T 0) hrk hTs hS t (dueN F (starRank F T hwf) gI t) F.n 0
    { gI with now := t, failed := false, next := none, cursor := 0 } ⟨σ, [], up, fl, wl⟩ [] [] wl (by omega) hC.lenI rfl
    (by simp) (by
      intro q _ hq
      show slotOf gI q = t ↔ (dueN F (starRank F T hwf) gI t ((starRank F T hwf).node q) = true ∨
        ∃ p ∈ F.prods ((starRank F T hwf).node q), p ∈ [])
      unfold dueN
      rw [((starRank F T hwf).left q hq).1]
      simp [((starRank F T hwf).left q hq).2])
  have R' : CycRel F T 0 t (cycleT F fx T t x.1 ⟨σ, x.2, up, fl, wl⟩)
      (scanFrom (behT F fx (.leaf (flatRk F.n T 0)) 0) t F.n 0 { gI with now := t, failed := false, next := none, cursor := 0 }
        ⟨σ, [], up, fl, wl⟩ []) := by
    rw [← hfrL]; exact R
  rw [hfrS]
  obtain ⟨L1, L2, L3, L4, L5, L6, L7⟩ := L
  have hlenS := scanFrom_length (beh F (starRank F T hwf)) F.n t F.n 0
    { gI with now := t, failed := false, next := none, cursor := 0 } σ [] hC.lenI L7
  have hciS : CInv t F.n (scanFrom (beh F (starRank F T hwf)) t F.n 0
      { gI with now := t, failed := false, next := none, cursor := 0 } σ []).g :=
    cinv_scanFrom _ F.n (disc_beh F _ hTs hS) t F.n 0 _ σ [] (by omega) (cinv_init t gI) hC.lenI L7
  have hview : ∀ i, i < F.n → viewT T 0 ((cycleT F fx T t x.1 ⟨σ, x.2, up, fl, wl⟩).g, (cycleT F fx T t x.1 ⟨σ, x.2, up, fl, wl⟩).st.gs) i =
      slotOf (scanFrom (beh F (starRank F T hwf)) t F.n 0 { gI with now := t, failed := false, next := none, cursor := 0 } σ []).g
        ((starRank F T hwf).posOf i) := by
    intro i hi
    rw [R'.view i (Nat.zero_le _) hi, L1]; rfl
  refine ⟨R'.okN, L7, by rw [R'.σ, L2], by rw [R'.up, L4], by rw [R'.fl, L5]; rfl, by rw [R'.wl, Lw], ⟨R'.qi, hlenS, ?_, hview, ?_⟩, R'.now⟩
  · exact scanFrom_cursor_zero _ t F.n 0 _ σ [] L7
  · -- the root's cached next time is the inlined one: both are the minimum over all pending slots
    have hX := flat_cinv F.n T 0 hwf _ R'.qi
      { (scanFrom (beh F (starRank F T hwf)) t F.n 0 { gI with now := t, failed := false, next := none, cursor := 0 } σ []).g with
        next := (cycleT F fx T t x.1 ⟨σ, x.2, up, fl, wl⟩).g.next }
      (fun i _ hi => hview i hi) (by rw [R'.now]; exact hciS.now) rfl
    rw [R'.now] at hX
    have := cinv_next_unique t F.n
      { (scanFrom (beh F (starRank F T hwf)) t F.n 0 { gI with now := t, failed := false, next := none, cursor := 0 } σ []).g with
        next := (cycleT F fx T t x.1 ⟨σ, x.2, up, fl, wl⟩).g.next }
      (scanFrom (beh F (starRank F T hwf)) t F.n 0 { gI with now := t, failed := false, next := none, cursor := 0 } σ []).g
      hX hciS (fun _ _ => rfl)
    exact this

/-! ## one cycle, any rank of the inlined program -/

theorem mem_map_node_iff {n : Nat} (ρ : Rank n) (ev : List Nat) (hev : ∀ q ∈ ev, q < n) (i : Nat) (hi : i < n) :
    i ∈ ev.map ρ.node ↔ ρ.posOf i ∈ ev := by
  constructor
  · intro h
    obtain ⟨q, hq, e⟩ := List.mem_map.mp h
    rw [← e, (ρ.left q (hev q hq)).1]; exact hq
  · intro h
    exact List.mem_map.mpr ⟨ρ.posOf i, h, (ρ.right i hi).1⟩

/-- the inlined schedule arranged by the composed rank, read off a nesting -/
def starG (F : Flow S) (T : Tree) (x : G × List G) : G :=
  mkG F.n (fun p => viewT T 0 x ((flatRk F.n T 0).node p)) x.1.now x.1.next

theorem corr_starG (F : Flow S) (T : Tree) (hwf : T.WF F.n 0) (x : G × List G) (hQ : QI F.n T 0 x) :
    Corr F T (starRank F T hwf) x (starG F T x) := by
  refine ⟨hQ, mkG_len .., rfl, ?_, rfl⟩
  intro i hi
  have := (starRank F T hwf).right i hi
  show _ = slotOf (mkG F.n _ _ _) _
  rw [mkG_slot _ _ _ _ _ this.2]
  show _ = viewT T 0 x ((starRank F T hwf).node ((starRank F T hwf).posOf i))
  rw [this.1]

theorem rel_starG (F : Flow S) (T : Tree) (hwf : T.WF F.n 0) (ρ : Rank F.n) (x : G × List G) (gI : G) (hC : Corr F T ρ x gI) :
    Rel F (starRank F T hwf) ρ (starG F T x) gI := by
  have hS := corr_starG F T hwf x hC.qi
  exact ⟨mkG_len .., hC.lenI, rfl, hC.curI, fun i hi => by rw [← hS.view i hi, hC.view i hi], hC.next⟩

/-- **nested = inlined, one cycle.**  From corresponding idle states (`Corr`), a root cycle of the nesting at a time
    `t` after the root's clock and not after its cached next time — what the run loop always picks — and a cycle of
    the inlined program under ANY topological rank `ρ`: both complete; every node (outer or child, any depth) ends in
    the same state; the same nodes ran their user code; the same nodes wrote; afterwards the states correspond again
    (every node sees the same slot, the root's next time is the inlined next time = the minimum over all graphs). -/
theorem nested_cycle_eq_inlined (F : Flow S) (fx : Bool) (T : Tree) (hwf : T.WF F.n 0)
    (hTs : Topo F (starRank F T hwf)) (hRs : TopoR F (starRank F T hwf))
    (ρ : Rank F.n) (hTρ : Topo F ρ) (hRρ : TopoR F ρ) (hS : SelfFuture F) (hF : Frame F)
    (t : Time) (x : G × List G) (gI : G) (hC : Corr F T ρ x gI) (hnow : x.1.now < t)
    (hnx : ∀ nx, x.1.next = some nx → t ≤ nx) (σ : Nat → S) :
    (cycleT F fx T t x.1 ⟨σ, x.2, [], [], []⟩).ok = true ∧
    (cycle fx (beh F ρ) F.n t gI σ).ok = true ∧
    (cycleT F fx T t x.1 ⟨σ, x.2, [], [], []⟩).st.σ = (cycle fx (beh F ρ) F.n t gI σ).st ∧
    (∀ i, i < F.n → (i ∈ (cycleT F fx T t x.1 ⟨σ, x.2, [], [], []⟩).st.fl ↔ ρ.posOf i ∈ (cycle fx (beh F ρ) F.n t gI σ).evaluated)) ∧
    (∀ i, i < F.n → (i ∈ (cycleT F fx T t x.1 ⟨σ, x.2, [], [], []⟩).st.wl ↔
      i ∈ (denSeq F ρ t (dueN F ρ gI t) F.n 0 σ [] []).2.1)) ∧
    Corr F T ρ ((cycleT F fx T t x.1 ⟨σ, x.2, [], [], []⟩).g, (cycleT F fx T t x.1 ⟨σ, x.2, [], [], []⟩).st.gs)
      (cycle fx (beh F ρ) F.n t gI σ).g ∧
    (cycleT F fx T t x.1 ⟨σ, x.2, [], [], []⟩).g.now = t ∧
    (cycleT F fx T t x.1 ⟨σ, x.2, [], [], []⟩).st.up = [] := by
  have hCS := corr_starG F T hwf x hC.qi
  have hRel := rel_starG F T hwf ρ x gI hC
  obtain ⟨s1, s2, s3, s4, s5, s6, s7, s8⟩ := star_cycle F fx T hwf hTs hS t x (starG F T x) hCS hnow hnx σ [] [] []
  obtain ⟨hRel', hst⟩ := cycle_rel F (starRank F T hwf) ρ hTs hTρ hRs hRρ hS hF fx t (starG F T x) gI σ hRel
  have hokI := cycle_ok F ρ hTρ hS fx t gI σ hC.lenI hC.curI
  have hdue := dueN_eq F (starRank F T hwf) ρ (starG F T x) gI t hRel.view
  have sol1 := denSeq_sol F (starRank F T hwf) hTs hRs hF t σ (dueN F (starRank F T hwf) (starG F T x) t)
  have sol2 := denSeq_sol F ρ hTρ hRρ hF t σ (dueN F ρ gI t)
  rw [← hdue] at sol2
  have hu := sol_unique F (starRank F T hwf) hTs hRs hF t σ _ _ _ _ _ sol1 sol2
  refine ⟨s1, hokI, by rw [s3, hst], ?_, ?_, ⟨s7.qi, hRel'.len₂, hRel'.cur₂, ?_, ?_⟩, s8, s4⟩
  · intro i hi
    rw [s5, List.nil_append, mem_map_node_iff (starRank F T hwf) _ ?_ i hi]
    · rw [activation_exact F (starRank F T hwf) hTs hS fx t (starG F T x) σ hCS.lenI hCS.curI i hi,
        activation_exact F ρ hTρ hS fx t gI σ hC.lenI hC.curI i hi, hRel.view i hi, ← hdue]
      constructor
      · rintro (h | ⟨p, hp, hw⟩)
        · exact Or.inl h
        · exact Or.inr ⟨p, hp, (hu p (hTs i hi p hp).1).2.mp hw⟩
      · rintro (h | ⟨p, hp, hw⟩)
        · exact Or.inl h
        · exact Or.inr ⟨p, hp, (hu p (hTs i hi p hp).1).2.mpr hw⟩
    · intro q hq
      rw [cycle_fresh _ _ _ _ _ _ hCS.curI] at hq
      rcases scanFrom_evaluated_lt _ t F.n 0 _ σ [] q hq with h | h
      · simp at h
      · omega
  · intro i hi
    rw [s6, List.append_nil, ← hdue]
    exact (hu i hi).2
  · intro i hi
    rw [s7.view i hi]; exact hRel'.view i hi
  · rw [s7.next]; exact hRel'.next

/-! ## whole runs -/

theorem star_run (F : Flow S) (fx : Bool) (T : Tree) (hwf : T.WF F.n 0) (hTs : Topo F (starRank F T hwf)) (hS : SelfFuture F)
    (endT : Time) (fuel : Nat) (x : G × List G) (gI : G) (hC : Corr F T (starRank F T hwf) x gI)
    (σ : Nat → S) (up fl wl : List Nat) (ts : List Time) :
    (simT F fx T endT fuel x.1 ⟨σ, x.2, up, fl, wl⟩ ts).times = (simLoop fx (beh F (starRank F T hwf)) F.n endT fuel gI σ ts).times ∧
    (simT F fx T endT fuel x.1 ⟨σ, x.2, up, fl, wl⟩ ts).st.σ = (simLoop fx (beh F (starRank F T hwf)) F.n endT fuel gI σ ts).st ∧
    (simT F fx T endT fuel x.1 ⟨σ, x.2, up, fl, wl⟩ ts).ok = (simLoop fx (beh F (starRank F T hwf)) F.n endT fuel gI σ ts).ok ∧
    Corr F T (starRank F T hwf)
      ((simT F fx T endT fuel x.1 ⟨σ, x.2, up, fl, wl⟩ ts).g, (simT F fx T endT fuel x.1 ⟨σ, x.2, up, fl, wl⟩ ts).st.gs)
      (simLoop fx (beh F (starRank F T hwf)) F.n endT fuel gI σ ts).g := by
  induction fuel generalizing x gI σ up fl wl ts with
  | zero => exact ⟨rfl, rfl, rfl, hC⟩
  | succ fuel ih =>
    have hnc : nextCycle x.1 endT = nextCycle gI endT := by unfold nextCycle; rw [hC.next]
    unfold simT at ih ⊢
    rw [simLoop, simLoop, hnc]
    cases hn : nextCycle gI endT with
    | none => exact ⟨rfl, rfl, rfl, hC⟩
    | some t =>
      simp only
      -- the loop picks the root's cached next time
      have hnext : x.1.next = some t := by
        rw [← hnc] at hn
        unfold nextCycle at hn
        cases hx : x.1.next with
        | none => simp [hx] at hn
        | some nx =>
          simp only [hx] at hn
          split at hn
          · cases hn
          · injection hn with hn; rw [hn]
      have hnow : x.1.now < t := ((QI_len F.n T 0 x hC.qi).2.2.isSlot t hnext).1
      obtain ⟨s1, s2, s3, s4, s5, s6, s7, s8⟩ := star_cycle F fx T hwf hTs hS t x gI hC hnow
        (fun nx h => by rw [hnext] at h; injection h with h; omega) σ up fl wl
      unfold cycleT at s1 s3 s7
      rw [s1, s2]
      simp only [↓reduceIte]
      rw [← s3]
      exact ih (_, _) _ s7 (cycle fx (behT F fx T 0) (T.size F.n 0) t x.1 ⟨σ, x.2, up, fl, wl⟩).st.σ
        (cycle fx (behT F fx T 0) (T.size F.n 0) t x.1 ⟨σ, x.2, up, fl, wl⟩).st.up
        (cycle fx (behT F fx T 0) (T.size F.n 0) t x.1 ⟨σ, x.2, up, fl, wl⟩).st.fl
        (cycle fx (behT F fx T 0) (T.size F.n 0) t x.1 ⟨σ, x.2, up, fl, wl⟩).st.wl (ts ++ [t])

/-- **nested = inlined, whole runs (`nested_sim_inlined_flow`).**  One dataflow program, run (a) as a nesting of any
    depth with any ranks of the individual graphs and (b) inlined under any topological rank, from corresponding
    states: the simulation loops visit the same cycle times, end with the same state of every node, and complete
    alike.  Node functions, states and self-schedules are arbitrary (`Frame`, `SelfFuture`); the histories are
    unbounded (`fuel` bounds only the number of cycles of both loops). -/
theorem nested_run_eq_inlined (F : Flow S) (fx : Bool) (T : Tree) (hwf : T.WF F.n 0)
    (hTs : Topo F (starRank F T hwf)) (hRs : TopoR F (starRank F T hwf))
    (ρ : Rank F.n) (hTρ : Topo F ρ) (hRρ : TopoR F ρ) (hS : SelfFuture F) (hF : Frame F)
    (endT : Time) (fuel : Nat) (x : G × List G) (gI : G) (hC : Corr F T ρ x gI)
    (σ : Nat → S) (up fl wl : List Nat) (ts : List Time) :
    (simT F fx T endT fuel x.1 ⟨σ, x.2, up, fl, wl⟩ ts).times = (simLoop fx (beh F ρ) F.n endT fuel gI σ ts).times ∧
    (simT F fx T endT fuel x.1 ⟨σ, x.2, up, fl, wl⟩ ts).st.σ = (simLoop fx (beh F ρ) F.n endT fuel gI σ ts).st ∧
    (simT F fx T endT fuel x.1 ⟨σ, x.2, up, fl, wl⟩ ts).ok = (simLoop fx (beh F ρ) F.n endT fuel gI σ ts).ok := by
  obtain ⟨a1, a2, a3, _⟩ := star_run F fx T hwf hTs hS endT fuel x (starG F T x) (corr_starG F T hwf x hC.qi) σ up fl wl ts
  obtain ⟨b1, b2, b3⟩ := run_rank_independent F (starRank F T hwf) ρ hTs hTρ hRs hRρ hS hF fx endT fuel (starG F T x) gI σ ts
    (rel_starG F T hwf ρ x gI hC)
  exact ⟨a1.trans b1, a2.trans b2, a3.trans b3⟩

/-- the statement that `Props/C09.lean` left open (`NestedSimInlined`), for flat dataflow sub-graphs -/
theorem nested_sim_inlined_flow (F : Flow S) (fx : Bool) (T : Tree) (hwf : T.WF F.n 0)
    (hTs : Topo F (starRank F T hwf)) (hRs : TopoR F (starRank F T hwf))
    (ρ : Rank F.n) (hTρ : Topo F ρ) (hRρ : TopoR F ρ) (hS : SelfFuture F) (hF : Frame F)
    (endT : Time) (fuel : Nat) (x : G × List G) (gI : G) (hC : Corr F T ρ x gI)
    (σ : Nat → S) (up fl wl : List Nat) (ts : List Time) :
    (simT F fx T endT fuel x.1 ⟨σ, x.2, up, fl, wl⟩ ts).times = (simLoop fx (beh F ρ) F.n endT fuel gI σ ts).times ∧
    (simT F fx T endT fuel x.1 ⟨σ, x.2, up, fl, wl⟩ ts).st.σ = (simLoop fx (beh F ρ) F.n endT fuel gI σ ts).st ∧
    (simT F fx T endT fuel x.1 ⟨σ, x.2, up, fl, wl⟩ ts).ok = (simLoop fx (beh F ρ) F.n endT fuel gI σ ts).ok :=
  nested_run_eq_inlined F fx T hwf hTs hRs ρ hTρ hRρ hS hF endT fuel x gI hC σ up fl wl ts

/-- **nesting depth is not observable.**  Two nestings of one program — any depths, any cut points, any ranks of
    their graphs — whose states correspond to one inlined state run alike: same cycle times, same final node states.
    (In particular a child that is itself a nested composition, `T₂ = node c ρp (node c' ρc T')`, against the flat
    child `T₁ = node c ρp (leaf ρ')`.) -/
theorem nested_depth_irrelevant_flow (F : Flow S) (fx : Bool) (T₁ T₂ : Tree) (hwf₁ : T₁.WF F.n 0) (hwf₂ : T₂.WF F.n 0)
    (hT₁ : Topo F (starRank F T₁ hwf₁)) (hR₁ : TopoR F (starRank F T₁ hwf₁))
    (hT₂ : Topo F (starRank F T₂ hwf₂)) (hR₂ : TopoR F (starRank F T₂ hwf₂))
    (ρ : Rank F.n) (hTρ : Topo F ρ) (hRρ : TopoR F ρ)
    (hS : SelfFuture F) (hF : Frame F) (endT : Time) (fuel : Nat) (x₁ x₂ : G × List G) (gI : G)
    (hC₁ : Corr F T₁ ρ x₁ gI) (hC₂ : Corr F T₂ ρ x₂ gI)
    (σ : Nat → S) (up₁ fl₁ wl₁ up₂ fl₂ wl₂ : List Nat) (ts : List Time) :
    (simT F fx T₁ endT fuel x₁.1 ⟨σ, x₁.2, up₁, fl₁, wl₁⟩ ts).times = (simT F fx T₂ endT fuel x₂.1 ⟨σ, x₂.2, up₂, fl₂, wl₂⟩ ts).times ∧
    (simT F fx T₁ endT fuel x₁.1 ⟨σ, x₁.2, up₁, fl₁, wl₁⟩ ts).st.σ = (simT F fx T₂ endT fuel x₂.1 ⟨σ, x₂.2, up₂, fl₂, wl₂⟩ ts).st.σ ∧
    (simT F fx T₁ endT fuel x₁.1 ⟨σ, x₁.2, up₁, fl₁, wl₁⟩ ts).ok = (simT F fx T₂ endT fuel x₂.1 ⟨σ, x₂.2, up₂, fl₂, wl₂⟩ ts).ok := by
  obtain ⟨a1, a2, a3⟩ := nested_run_eq_inlined F fx T₁ hwf₁ hT₁ hR₁ ρ hTρ hRρ hS hF endT fuel x₁ gI hC₁ σ up₁ fl₁ wl₁ ts
  obtain ⟨b1, b2, b3⟩ := nested_run_eq_inlined F fx T₂ hwf₂ hT₂ hR₂ ρ hTρ hRρ hS hF endT fuel x₂ gI hC₂ σ up₂ fl₂ wl₂ ts
  exact ⟨a1.trans b1.symm, a2.trans b2.symm, a3.trans b3.symm⟩

end HgVerif.NestFlow

/-! ## depth 1: a parent dataflow with ONE nested node whose child is a flat dataflow -/
namespace HgVerif.NestFlow
open HgVerif.Sched HgVerif.Flow

variable {S : Type}

/-- the order hypothesis, level by level, for the edge relation `E` (`F.prods`: active inputs, `F.reads`: all inputs)
    of a parent with outer nodes `[0, c)`, the nested node at parent-local id `c`, child nodes `[c, n)`:
    parent and child ranks are topological for their own edges, the nested node comes after every outer producer
    its child reads (boundary inputs) and before every outer consumer of a child output (forwarded result) -/
def Level1 (n c : Nat) (ρp ρc : Rk) (E : Nat → List Nat) : Prop :=
  ∀ c', c' < n → ∀ p ∈ E c', p < n ∧
    (p < c → c' < c → ρp.posOf p < ρp.posOf c') ∧
    (p < c → c ≤ c' → ρp.posOf p < ρp.posOf c) ∧
    (c ≤ p → c' < c → ρp.posOf c < ρp.posOf c') ∧
    (c ≤ p → c ≤ c' → ρc.posOf (p - c) < ρc.posOf (c' - c))

/-- level-wise topological ranks give a topological composed rank -/
theorem order_nest1 (n c : Nat) (ρp ρc : Rk) (hwf : (nest1 c ρp ρc).WF n 0) (E : Nat → List Nat) (h : Level1 n c ρp ρc E) :
    ∀ c', c' < n → ∀ p ∈ E c', p < n ∧
      (flatRk n (nest1 c ρp ρc) 0).posOf p < (flatRk n (nest1 c ρp ρc) 0).posOf c' := by
  intro c' hc' p hp
  obtain ⟨_, hcn, hrk, _, hrc⟩ := hwf
  have hrk' : RkOK (c + 1) ρp := hrk
  obtain ⟨hk, hout, _⟩ := level_facts hrk'
  obtain ⟨hpn, h1, h2, h3, h4⟩ := h c' hc' p hp
  refine ⟨hpn, ?_⟩
  unfold nest1
  by_cases hpc : p < c
  · have a := hout p hpc
    rw [star_pos_outer n c 0 ρp (.leaf ρc) p (by omega)]
    by_cases hcc : c' < c
    · have b := hout c' hcc
      have := h1 hpc hcc
      rw [star_pos_outer n c 0 ρp (.leaf ρc) c' (by omega)]
      simp only [Nat.sub_zero]
      split <;> split <;> omega
    · have := h2 hpc (by omega)
      rw [star_pos_deep n c 0 ρp (.leaf ρc) c' (by omega)]
      simp only [Nat.sub_zero]
      split <;> omega
  · by_cases hcc : c' < c
    · have b := hout c' hcc
      have := h3 (by omega) hcc
      have hq := (hrc.2 (p - c) (by omega)).2
      rw [star_pos_deep n c 0 ρp (.leaf ρc) p (by omega), star_pos_outer n c 0 ρp (.leaf ρc) c' (by omega)]
      simp only [Nat.sub_zero, flatRk]
      split <;> omega
    · have := h4 (by omega) (by omega)
      rw [star_pos_deep n c 0 ρp (.leaf ρc) p (by omega), star_pos_deep n c 0 ρp (.leaf ρc) c' (by omega)]
      simp only [Nat.sub_zero, flatRk]
      omega

theorem wf_nest1 (n c : Nat) (hc : c ≤ n) (ρp : Rank (c + 1)) (ρc : Rank (n - c)) :
    (nest1 c (Rk.ofRank ρp) (Rk.ofRank ρc)).WF n 0 :=
  ⟨Nat.zero_le _, hc, rkOK_ofRank ρp, hc, rkOK_ofRank ρc⟩

/-- **depth 1, whole runs, any ranks.**  A parent dataflow (outer nodes `[0,c)`, any rank `ρp` of its `c+1` positions)
    with one nested node whose child is the flat dataflow on the nodes `[c, F.n)` (any rank `ρc`), both ranks
    topological in the level-wise sense, against the inlined dataflow under any topological rank `ρ`: same cycle
    times, same final state of every outer and child node, same completion. -/
theorem nested1_run_eq_inlined (F : Flow S) (fx : Bool) (c : Nat) (hc : c ≤ F.n) (ρp : Rank (c + 1)) (ρc : Rank (F.n - c))
    (hP : Level1 F.n c (Rk.ofRank ρp) (Rk.ofRank ρc) F.prods) (hR : Level1 F.n c (Rk.ofRank ρp) (Rk.ofRank ρc) F.reads)
    (ρ : Rank F.n) (hTρ : Topo F ρ) (hRρ : TopoR F ρ) (hS : SelfFuture F) (hF : Frame F)
    (endT : Time) (fuel : Nat) (x : G × List G) (gI : G)
    (hC : Corr F (nest1 c (Rk.ofRank ρp) (Rk.ofRank ρc)) ρ x gI) (σ : Nat → S) (up fl wl : List Nat) (ts : List Time) :
    (simT F fx (nest1 c (Rk.ofRank ρp) (Rk.ofRank ρc)) endT fuel x.1 ⟨σ, x.2, up, fl, wl⟩ ts).times =
      (simLoop fx (beh F ρ) F.n endT fuel gI σ ts).times ∧
    (simT F fx (nest1 c (Rk.ofRank ρp) (Rk.ofRank ρc)) endT fuel x.1 ⟨σ, x.2, up, fl, wl⟩ ts).st.σ =
      (simLoop fx (beh F ρ) F.n endT fuel gI σ ts).st ∧
    (simT F fx (nest1 c (Rk.ofRank ρp) (Rk.ofRank ρc)) endT fuel x.1 ⟨σ, x.2, up, fl, wl⟩ ts).ok =
      (simLoop fx (beh F ρ) F.n endT fuel gI σ ts).ok :=
  nested_run_eq_inlined F fx _ (wf_nest1 F.n c hc ρp ρc)
    (order_nest1 F.n c _ _ (wf_nest1 F.n c hc ρp ρc) F.prods hP)
    (order_nest1 F.n c _ _ (wf_nest1 F.n c hc ρp ρc) F.reads hR)
    ρ hTρ hRρ hS hF endT fuel x gI hC σ up fl wl ts

end HgVerif.NestFlow

/-! ## non-vacuity: `src → nested{acc → pass ← timer} → sink`

Nodes: `0` src (re-arms itself every 2), `1` sink (reads the child's output `3`), and the sub-graph `2` acc (reads the
boundary input `0`), `3` pass (reads `2`, `4` and the boundary input `0`; the forwarded output), `4` timer (a
self-scheduling child node, every 3, no input).  Depth 1: outer `[0,2)`, child `[2,5)`.  Depth 2: outer `[0,2)`,
middle graph `{2}`, inner graph `{3,4}` — node `3` receives the push of node `0` through two boundaries and its
write is delivered to node `1` two levels up. -/
namespace HgVerif.NestFlow.Ex
open HgVerif.Sched HgVerif.Flow HgVerif.NestFlow

def exN : Flow Nat :=
  { n := 5,
    prods := fun i => if i = 1 then [3] else if i = 2 then [0] else if i = 3 then [2, 4, 0] else [],
    reads := fun i => if i = 1 then [3] else if i = 2 then [0] else if i = 3 then [2, 4, 0] else [],
    f := fun i σ _ => if i = 0 then (σ 0 + 1, true) else if i = 1 then (σ 1 + σ 3, true)
                      else if i = 2 then (σ 2 + σ 0, true) else if i = 3 then (σ 2 + σ 4 + σ 0, true)
                      else if i = 4 then (σ 4 + 10, true) else (σ i, false),
    selfReq := fun i _ t => if i = 0 then [t + 2] else if i = 4 then [t + 3] else [] }

def perm (l : List Nat) : Nat → Nat := fun i => l.getD i i
/-- parent positions: src, nested node, sink -/
def rkP : Rk := ⟨perm [0, 2, 1], perm [0, 2, 1]⟩
/-- child positions: acc, timer, pass -/
def rkC : Rk := ⟨perm [0, 2, 1], perm [0, 2, 1]⟩
def T1 : Tree := nest1 2 rkP rkC
/-- depth 2: middle graph positions acc, nested node; inner graph positions timer, pass -/
def rkQ : Rk := ⟨id, id⟩
def rkR : Rk := ⟨perm [1, 0], perm [1, 0]⟩
def T2 : Tree := .node 2 rkP (.node 3 rkQ (.leaf rkR))

theorem wfT1 : T1.WF exN.n 0 := by unfold T1 nest1 Tree.WF Tree.WF RkOK; decide
theorem wfT2 : T2.WF exN.n 0 := by unfold T2 Tree.WF Tree.WF Tree.WF RkOK; decide

example : Level1 exN.n 2 rkP rkC exN.prods := by unfold Level1; decide
example : Topo exN (starRank exN T1 wfT1) := by unfold Topo; decide
example : TopoR exN (starRank exN T1 wfT1) := by unfold TopoR; decide
example : Topo exN (starRank exN T2 wfT2) := by unfold Topo; decide
example : TopoR exN (starRank exN T2 wfT2) := by unfold TopoR; decide
example : SelfFuture exN := by
  intro i s t T h
  simp only [exN] at h
  split at h
  · simp at h; omega
  · split at h
    · simp at h; omega
    · simp at h
example : Frame exN := by
  intro i σ σ' t h
  simp only [exN] at h ⊢
  by_cases h0 : i = 0
  · subst h0; simp [h 0 (Or.inl rfl)]
  · by_cases h1 : i = 1
    · subst h1
      have a := h 1 (Or.inl rfl); have b := h 3 (Or.inr (by simp))
      simp [a, b]
    · by_cases h2 : i = 2
      · subst h2
        have a := h 2 (Or.inl rfl); have b := h 0 (Or.inr (by simp))
        simp [a, b]
      · by_cases h3 : i = 3
        · subst h3
          have a := h 2 (Or.inr (by simp)); have b := h 4 (Or.inr (by simp)); have c := h 0 (Or.inr (by simp))
          simp [a, b, c]
        · by_cases h4 : i = 4
          · subst h4; simp [h 4 (Or.inl rfl)]
          · simp [h0, h1, h2, h3, h4, h i (Or.inl rfl)]

/-- root graph: src due at 1, nested node armed at the child's next time 1, sink idle -/
def g0 : G := { slots := [1, 1, 0], next := some 1 }
/-- depth 1 child: timer due at 1 -/
def gc0 : G := { slots := [0, 1, 0], next := some 1 }
/-- depth 2: middle graph (acc idle, inner nested node armed at 1) and inner graph (timer due at 1, pass idle) -/
def g1 : G := { slots := [0, 1], next := some 1 }
def g2 : G := { slots := [1, 0], next := some 1 }
/-- the inlined schedule under the composed rank (positions src, acc, timer, pass, sink) -/
def gI0 : G := { slots := [1, 0, 1, 0, 0], next := some 1 }

theorem cinv_ex (g : G) (sz : Nat) (hnow : g.now = 0) (hnext : g.next = some 1)
    (hl : ∀ j, j < sz → 0 < slotOf g j → 1 ≤ slotOf g j) (hs : ∃ j, j < sz ∧ slotOf g j = 1) : CInv g.now sz g := by
  rw [hnow]
  refine ⟨hnow, fun j hj h => ⟨1, hnext, hl j hj h⟩, fun nx h => ?_⟩
  rw [hnext] at h; injection h with h; subst h
  exact ⟨by omega, hs⟩

theorem corrT1 : Corr exN T1 (starRank exN T1 wfT1) (g0, [gc0]) gI0 := by
  refine ⟨⟨rfl, rfl, cinv_ex g0 3 rfl rfl (by decide) ⟨0, by decide, rfl⟩, Nat.le_refl _, ?_,
    ⟨rfl, rfl, cinv_ex gc0 3 rfl rfl (by decide) ⟨1, by decide, rfl⟩⟩⟩, rfl, rfl, by decide, rfl⟩
  refine ⟨fun nx h => ?_, fun h => by cases h⟩
  have : nx = 1 := by
    have h' : (some 1 : Option Time) = some nx := h
    injection h' with h'; exact h'.symm
  subst this; exact ⟨rfl, by decide⟩

theorem corrT2 : Corr exN T2 (starRank exN T2 wfT2) (g0, [g1, g2]) gI0 := by
  have kinv : ∀ (sk gnow : Time) (gc : G), gc.next = some 1 → sk = 1 → gnow = 0 → Kinv sk gnow gc := by
    intro sk gnow gc h1 h2 h3
    refine ⟨fun nx h => ?_, fun h => by rw [h1] at h; cases h⟩
    rw [h1] at h; injection h with h; subst h; exact ⟨h2, by omega⟩
  exact ⟨⟨rfl, rfl, cinv_ex g0 3 rfl rfl (by decide) ⟨0, by decide, rfl⟩, Nat.le_refl _, kinv _ _ _ rfl rfl rfl,
    ⟨rfl, rfl, cinv_ex g1 2 rfl rfl (by decide) ⟨1, by decide, rfl⟩, Nat.le_refl _, kinv _ _ _ rfl rfl rfl,
      ⟨rfl, rfl, cinv_ex g2 2 rfl rfl (by decide) ⟨0, by decide, rfl⟩⟩⟩⟩, rfl, rfl, by decide, rfl⟩

/-- the first cycle (t = 1) of the depth-1 nesting: src, then inside the nested node acc, timer, pass, then sink;
    all five wrote; the nested node is re-armed at the child's next time 4, the root's next time is 3 -/
example :
    let c := cycleT exN true T1 1 g0 { σ := fun _ => 0, gs := [gc0] }
    (c.st.fl, c.st.wl, c.g.slots, c.st.gs.map (·.slots), c.g.next) =
      ([0, 2, 4, 3, 1], [1, 3, 4, 2, 0], [3, 4, 1], [[1, 4, 1]], some 3) := by decide

/-- a few cycles: nested at depth 1, nested at depth 2 and inlined visit the same times … -/
example : (simT exN true T1 8 20 g0 { σ := fun _ => 0, gs := [gc0] } []).times = [1, 3, 4, 5, 7] := by decide
example : (simT exN true T2 8 20 g0 { σ := fun _ => 0, gs := [g1, g2] } []).times = [1, 3, 4, 5, 7] := by decide
example : (simLoop true (beh exN (starRank exN T1 wfT1)) 5 8 20 gI0 (fun _ => 0) []).times = [1, 3, 4, 5, 7] := by decide
/-- … and end with the same node states and corresponding schedules -/
example : (List.range 5).map (simT exN true T1 8 20 g0 { σ := fun _ => 0, gs := [gc0] } []).st.σ = [4, 125, 10, 44, 30] := by decide
example : (List.range 5).map (simT exN true T2 8 20 g0 { σ := fun _ => 0, gs := [g1, g2] } []).st.σ = [4, 125, 10, 44, 30] := by decide
example : (List.range 5).map (simLoop true (beh exN (starRank exN T1 wfT1)) 5 8 20 gI0 (fun _ => 0) []).st = [4, 125, 10, 44, 30] := by
  decide
example : ((simT exN true T2 8 20 g0 { σ := fun _ => 0, gs := [g1, g2] } []).g.slots,
           (simT exN true T2 8 20 g0 { σ := fun _ => 0, gs := [g1, g2] } []).st.gs.map (·.slots)) =
          ([9, 10, 7], [[7, 10], [10, 7]]) := by decide

end HgVerif.NestFlow.Ex
