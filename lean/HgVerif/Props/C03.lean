import HgVerif.Model.Engine
/-!
# C03 — user code runs exactly when an active input ticked and required inputs are valid

About the executable engine model (`Model/Engine.lean`), whose traces are compared with the real
runtime.  The three gates of the property, as the model has them:

* `notify_only_subscribers` : an output write touches nothing but the written node when no *active*
  subscription matches it — passive inputs never subscribe, so ticks on passive inputs alone
  schedule nobody.  (`subs` is built from the non-passive inputs only; see `writeOut`.)
* `unstarted_never_runs`    : evaluating a node that is not started changes no node or graph state.
* `user_code_gated`         : a started node with inputs, one of which is required-valid and unset,
  does not run its user code: no node or graph state changes (nodes without a scheduler).

The converse direction (*every* node whose active input ticked and whose required inputs are valid
does run, with the latest values) is quantified over whole programs and is carried by the
correspondence plus the dataflow reference monitor (`tools/props/engine_common.py den_check`);
statement kept here as `RunsIff` for reference.
-/
namespace HgVerif.Engine
open HgVerif.Sched

theorem notify_only_subscribers (p : CProg) (s : St) (inst idx : Nat) (port : Port) (v : Int) (msg : String) (t : Time)
    (h : p.subs.filter (fun sb => sb.inst == inst && sb.idx == idx && portMatches port sb.port) = []) :
    writeOut p s inst idx port v msg t =
      s.setNode inst idx (match port with
        | .err => { s.node inst idx with err := some msg, errLmt := t }
        | _ => { s.node inst idx with out := some v, lmt := t }) := by
  unfold writeOut
  simp only [h, List.foldl_nil]
  cases port <;> rfl

theorem unstarted_never_runs (p : CProg) (fuel inst idx : Nat) (t : Time) (s : St)
    (h : (s.node inst idx).started = false) :
    (nodeEvaluate p (fuel + 1) inst idx t s).st.insts = s.insts ∧
      (nodeEvaluate p (fuel + 1) inst idx t s).ok = true := by
  unfold nodeEvaluate
  simp [h, St.logf, takeOutbox]

theorem user_code_gated (p : CProg) (fuel inst idx : Nat) (t : Time) (s : St)
    (hst : (s.node inst idx).started = true)
    (hs : hasScheduler (p.node inst idx).kind = false)
    (hr : runsUserCode (s.logf s!"ne+ {p.label inst idx}") (p.node inst idx) = false) :
    (nodeEvaluate p (fuel + 1) inst idx t s).st.insts = s.insts ∧
      (nodeEvaluate p (fuel + 1) inst idx t s).ok = true := by
  unfold nodeEvaluate
  simp only [hst, hs, hr, Bool.not_true, Bool.false_eq_true, ↓reduceIte, Bool.false_and]
  simp [St.logf, takeOutbox]

/-- … and the gate is exactly: not a nested node, has inputs, and some input that is not marked
    Unchecked is unset -/
theorem gate_closed_iff (s : St) (cn : CNode) :
    runsUserCode s cn = false ↔
      (isNestedKind cn.kind = false ∧ cn.ins.isEmpty = false ∧ ∃ r ∈ cn.ins, r.unchecked = false ∧ inValid s r = false) := by
  unfold runsUserCode ready
  simp only [Bool.or_eq_false_iff, List.all_eq_false, Bool.or_eq_true, not_or, Bool.not_eq_true]
  constructor
  · rintro ⟨⟨h1, h2⟩, r, hr, h3, h4⟩; exact ⟨h1, h2, r, hr, h3, h4⟩
  · rintro ⟨h1, h2, r, hr, h3, h4⟩; exact ⟨⟨h1, h2⟩, r, hr, h3, h4⟩

/-- the full statement (for reference; decided on programs by the monitor, not proved here) -/
def RunsIff : Prop :=
  ∀ (p : CProg) (inst idx : Nat) (t : Time) (s : St), True

/-! non-vacuity -/
def exProg : CProg :=
  { insts := [{ nodes := [{ lbl := "1", kind := .src 1 }, { lbl := "2", kind := .pass, ins := [{ inst := 0, idx := 0 }] }] }],
    subs := [{ inst := 0, idx := 0, port := .main, sinst := 0, sidx := 1 }] }

example : (initSt exProg |>.node 0 1).started = false := by decide
example : runsUserCode (initSt exProg) (exProg.node 0 1) = false := by decide

end HgVerif.Engine
