import HgVerif.Lemmas.PushQueue
/-!
# C16 — push queue: accepted values are delivered once, in order, within capacity

Model: `HgVerif/Model/PushQueue.lean`, a labelled transition system whose atomic steps are the
mutex-protected sections of `push_source_node.cpp` / `executor.cpp` / the push phase of
`graph.cpp`.  `Reach cfg s` ranges over ALL interleavings of any number of producer threads
(indexed by `Nat`, any number of messages each), the evaluation thread and stop requests, for
any capacity `cfg.cap` (`0` = unbounded) and policy.  The theorems are invariants of every
reachable state (proved once, by induction over the steps: `inv_reach`).
-/
namespace HgVerif.PushQueue

/-- **C16.** The values handed to the graph (for burst: the tuples, flattened) are, in order, a
    prefix of the values whose send was accepted. -/
theorem delivered_prefix_of_accepted {cfg : Cfg} {s : St} (h : Reach cfg s) (hp : cfg.policy ≠ .conflating) :
    flat s.delivered <+: s.accepted := by
  obtain ⟨dr, h1, _⟩ := (inv_reach h).pre hp
  exact ⟨s.deque ++ dr, by rw [h1]; simp⟩

/-- **C16.** … hence each producer's own order is preserved: what was delivered of producer `i` is
    a prefix of what was accepted from producer `i`. -/
theorem per_producer_order {cfg : Cfg} {s : St} (h : Reach cfg s) (hp : cfg.policy ≠ .conflating) (i : Nat) :
    (flat s.delivered).filter (fun x => x.1 == i) <+: s.accepted.filter (fun x => x.1 == i) := by
  obtain ⟨t, ht⟩ := delivered_prefix_of_accepted h hp
  exact ⟨t.filter (fun x => x.1 == i), by rw [← ht]; simp⟩

/-- **C16.** Nothing is pending beyond the configured capacity. -/
theorem pending_le_capacity {cfg : Cfg} {s : St} (h : Reach cfg s) (hp : cfg.policy ≠ .conflating)
    (hc : cfg.cap ≠ 0) : s.deque.length ≤ cfg.cap :=
  (inv_reach h).cap hp hc

/-- **C16.** No lost wake-up: whenever values are pending, the executor flag is set, or a producer
    is between its admission and its mark, or the evaluation thread is between the flag reset and
    its pop / between its pop and the re-arm it owes, or a stop has been requested (after which
    nothing needs to be delivered). -/
theorem no_lost_wakeup {cfg : Cfg} {s : St} (h : Reach cfg s) (hd : s.deque ≠ []) :
    s.flag = true ∨ (∃ i k v, s.pcs i = .admitted k v true) ∨ s.cpc = .reset ∨ s.cpc = .popped true ∨
    s.stopReq = true :=
  (inv_reach h).wake hd

/-! ### one delivery per cycle, strictly increasing times -/

/-- the only step that hands values to the graph is `pop`: it appends one entry stamped with the
    current cycle time; for the queue policy the entry holds exactly one value -/
theorem step_delivered {cfg : Cfg} {s s' : St} {l : Label} (hs : step cfg s l = some s') :
    s'.delivered = s.delivered ∨
    (l = .pop ∧ s.cpc = .reset ∧ ∃ vs, vs ≠ [] ∧ s'.delivered = s.delivered ++ [(s.time, vs)] ∧
      (cfg.policy = .queue → ∃ x, vs = [x])) := by
  cases l with
  | start => simp only [step] at hs; split at hs <;> simp at hs; subst hs; exact Or.inl rfl
  | enter i k v =>
    simp only [step] at hs
    split at hs
    · split at hs <;> (simp only [Option.some.injEq] at hs; subst hs; exact Or.inl rfl)
    · simp at hs
  | check i =>
    simp only [step] at hs
    split at hs
    · split at hs <;> (simp only [Option.some.injEq] at hs; subst hs; exact Or.inl rfl)
    · simp at hs
  | admitQ i =>
    simp only [step] at hs
    split at hs
    · split at hs
      · simp only [Option.some.injEq] at hs; subst hs; exact Or.inl rfl
      · split at hs <;> (simp only [Option.some.injEq] at hs; subst hs; exact Or.inl rfl)
    · split at hs
      · simp only [Option.some.injEq] at hs; subst hs; exact Or.inl rfl
      · split at hs <;> (simp only [Option.some.injEq] at hs; subst hs; exact Or.inl rfl)
    · simp at hs
  | wake i =>
    simp only [step] at hs
    split at hs
    · split at hs
      · simp only [Option.some.injEq] at hs; subst hs; exact Or.inl rfl
      · split at hs <;> (simp only [Option.some.injEq] at hs; subst hs; exact Or.inl rfl)
    · simp at hs
  | mark i =>
    simp only [step] at hs
    split at hs
    · simp only [Option.some.injEq] at hs; subst hs
      left; simp only; split <;> simp [(markFlag_fields s).2.2.1]
    · simp at hs
  | beginCycle dt =>
    simp only [step] at hs
    split at hs
    · split at hs
      · simp at hs
      · simp only [Option.some.injEq] at hs; subst hs; exact Or.inl rfl
    · simp at hs
  | pop =>
    simp only [step] at hs
    split at hs
    · rename_i hc
      split at hs
      · simp only [Option.some.injEq] at hs; subst hs; exact Or.inl rfl
      · rename_i v rest _ _
        simp only [Option.some.injEq] at hs; subst hs
        exact Or.inr ⟨rfl, hc, [v], by simp, rfl, fun _ => ⟨v, rfl⟩⟩
      · rename_i v rest _ hnq
        simp only [Option.some.injEq] at hs; subst hs
        refine Or.inr ⟨rfl, hc, v :: rest, by simp, rfl, ?_⟩
        intro hq
        exact absurd hq (by intro hq; exact hnq hq)
    · simp at hs
  | rearm =>
    simp only [step] at hs
    split at hs
    · simp only [Option.some.injEq] at hs; subst hs
      left; simp only; split <;> simp [(markFlag_fields s).2.2.1]
    · simp at hs
  | reqStop => simp only [step, Option.some.injEq] at hs; subst hs; exact Or.inl rfl
  | closeBegin =>
    simp only [step] at hs
    split at hs
    · split at hs
      · simp only [Option.some.injEq] at hs; subst hs; exact Or.inl rfl
      · simp at hs
    · simp at hs
  | queueStop =>
    simp only [step] at hs
    split at hs
    · simp only [Option.some.injEq] at hs; subst hs; exact Or.inl rfl
    · simp at hs

/-- **C16.** Every delivery happens in its own engine cycle and the cycle times are strictly
    increasing (so no cycle delivers twice from one queue node); with the queue policy a delivery
    is exactly one value. -/
theorem delivered_once {cfg : Cfg} {s : St} (h : Reach cfg s) :
    List.Pairwise (fun a b => a < b) (s.delivered.map (·.1)) ∧
    (cfg.policy = .queue → ∀ d ∈ s.delivered, ∃ x, d.2 = [x]) := by
  refine ⟨(inv_reach h).times.1, ?_⟩
  intro hq
  induction h with
  | init => simp
  | step l _ hs ih =>
    rcases step_delivered hs with h1 | ⟨_, _, vs, _, h2, h3⟩
    · rw [h1]; exact ih
    · rw [h2]
      intro d hd
      simp only [List.mem_append, List.mem_singleton] at hd
      rcases hd with hd | rfl
      · exact ih d hd
      · exact h3 hq

/-! ### refusals -/

/-- the gates of a send, in program order: the control block (never started / closing), the
    executor stop request, the policy (not accepting), the capacity -/
def sourceStopped (s : St) : Prop := s.started = false ∨ s.closing = true ∨ s.stopReq = true ∨ s.accepting = false

/-- **C16.** A non-blocking send is refused only when the queue is full or the source has stopped
    (never started, closing, stop requested, policy not accepting) — and it IS admitted when none of
    that holds.  Stated per atomic step of `try_send`, for every state `s` (reachable or not):
    * `enter` refuses iff the control block is closed;
    * `check` refuses iff the executor has a stop request;
    * `admitQ` refuses iff the policy is not accepting or the bounded queue is at capacity, and
      otherwise appends the value to the accepted sequence. -/
theorem try_send_refused_iff_full_or_stopped (cfg : Cfg) (s : St) (i v : Nat) :
    (s.pcs i = .idle →
      ∃ s', step cfg s (.enter i .try_ v) = some s' ∧
        ((s.started = false ∨ s.closing = true) → s' = refuse s i .try_ v .refusedClosed) ∧
        (¬(s.started = false ∨ s.closing = true) → s'.pcs i = .entered .try_ v ∧ s'.results = s.results)) ∧
    (s.pcs i = .entered .try_ v →
      ∃ s', step cfg s (.check i) = some s' ∧
        (s.stopReq = true → s' = refuse s i .try_ v .refusedStopReq) ∧
        (s.stopReq = false → s'.pcs i = .checked .try_ v ∧ s'.results = s.results)) ∧
    (s.pcs i = .checked .try_ v →
      ∃ s', step cfg s (.admitQ i) = some s' ∧
        (s.accepting = false → s' = refuse s i .try_ v .refusedNotAccepting) ∧
        (s.accepting = true → full cfg s = true → s' = refuse s i .try_ v .refusedFull) ∧
        (s.accepting = true → full cfg s = false →
          s' = accept cfg s i .try_ v ∧ s'.accepted = s.accepted ++ [(i, v)] ∧ s'.results = s.results)) := by
  refine ⟨?_, ?_, ?_⟩
  · intro hpc
    simp only [step, hpc]
    by_cases hc : s.started = false ∨ s.closing = true
    · have : (!s.started || s.closing) = true := by rcases hc with h | h <;> simp [h]
      simp only [this, if_true]
      exact ⟨_, rfl, fun _ => rfl, fun h => absurd hc h⟩
    · have : (!s.started || s.closing) = false := by
        simp only [not_or, Bool.not_eq_false, Bool.not_eq_true] at hc; simp [hc.1, hc.2]
      simp only [this, Bool.false_eq_true, if_false]
      exact ⟨_, rfl, fun h => absurd h hc, fun _ => ⟨by simp [upd], rfl⟩⟩
  · intro hpc
    simp only [step, hpc]
    cases hsr : s.stopReq with
    | true => simp only [if_true]; exact ⟨_, rfl, fun _ => rfl, fun h => by simp at h⟩
    | false =>
      simp only [Bool.false_eq_true, if_false]
      exact ⟨_, rfl, fun h => by simp at h, fun _ => ⟨by simp [upd], rfl⟩⟩
  · intro hpc
    simp only [step, hpc]
    cases hacc : s.accepting with
    | false => simp only [Bool.not_false, if_true]; exact ⟨_, rfl, fun _ => rfl, by simp, by simp⟩
    | true =>
      simp only [Bool.not_true, Bool.false_eq_true, if_false]
      cases hf : full cfg s with
      | true => simp only [if_true]; exact ⟨_, rfl, by simp, fun _ _ => rfl, by simp⟩
      | false =>
        simp only [Bool.false_eq_true, if_false]
        exact ⟨_, rfl, by simp, by simp, fun _ _ => ⟨rfl, by simp [accept], by simp [accept]⟩⟩

/-- every logged refusal was justified in the state in which it was decided -/
theorem refusal_sound {cfg : Cfg} {s s' : St} {l : Label} (hs : step cfg s l = some s')
    {i : Nat} {k : SendKind} {v : Nat} {o : Outcome} (hr : s'.results = s.results ++ [(i, k, v, o)]) :
    match o with
    | .accepted => True
    | .refusedClosed => s.started = false ∨ s.closing = true
    | .refusedStopReq => s.stopReq = true
    | .refusedNotAccepting => s.accepting = false
    | .refusedFull => k = .try_ ∧ s.accepting = true ∧ full cfg s = true := by
  have hne : ∀ (x : List (Nat × SendKind × Nat × Outcome)), x = x ++ [(i, k, v, o)] → False := by
    intro x hx
    have := congrArg List.length hx
    simp at this
  have hinj : ∀ (a b : Nat × SendKind × Nat × Outcome), s.results ++ [a] = s.results ++ [b] → a = b := by
    intro a b hab; simpa using hab
  cases l with
  | start => simp only [step] at hs; split at hs <;> simp at hs; subst hs; exact absurd hr (hne _)
  | enter i' k' v' =>
    simp only [step] at hs
    split at hs
    · split at hs
      · rename_i hc
        simp only [Option.some.injEq] at hs; subst hs
        have := hinj _ _ hr
        simp only [Prod.mk.injEq] at this
        obtain ⟨_, _, _, rfl⟩ := this
        simp only [Bool.or_eq_true, Bool.not_eq_true'] at hc
        exact hc
      · simp only [Option.some.injEq] at hs; subst hs; exact absurd hr (hne _)
    · simp at hs
  | check i' =>
    simp only [step] at hs
    split at hs
    · split at hs
      · rename_i hc
        simp only [Option.some.injEq] at hs; subst hs
        have := hinj _ _ hr
        simp only [Prod.mk.injEq] at this
        obtain ⟨_, _, _, rfl⟩ := this
        exact hc
      · simp only [Option.some.injEq] at hs; subst hs; exact absurd hr (hne _)
    · simp at hs
  | admitQ i' =>
    simp only [step] at hs
    split at hs
    · split at hs
      · rename_i hc
        simp only [Option.some.injEq] at hs; subst hs
        have := hinj _ _ hr
        simp only [Prod.mk.injEq] at this
        obtain ⟨_, _, _, rfl⟩ := this
        simpa using hc
      · rename_i hacc
        split at hs
        · rename_i hf
          simp only [Option.some.injEq] at hs; subst hs
          have := hinj _ _ hr
          simp only [Prod.mk.injEq] at this
          obtain ⟨_, rfl, _, rfl⟩ := this
          exact ⟨rfl, by simpa using hacc, hf⟩
        · simp only [Option.some.injEq] at hs; subst hs
          simp only [accept] at hr; exact absurd hr (hne _)
    · split at hs
      · rename_i hc
        simp only [Option.some.injEq] at hs; subst hs
        have := hinj _ _ hr
        simp only [Prod.mk.injEq] at this
        obtain ⟨_, _, _, rfl⟩ := this
        simpa using hc
      · split at hs
        · simp only [Option.some.injEq] at hs; subst hs; exact absurd hr (hne _)
        · simp only [Option.some.injEq] at hs; subst hs
          simp only [accept] at hr; exact absurd hr (hne _)
    · simp at hs
  | wake i' =>
    simp only [step] at hs
    split at hs
    · split at hs
      · rename_i hc
        simp only [Option.some.injEq] at hs; subst hs
        have := hinj _ _ hr
        simp only [Prod.mk.injEq] at this
        obtain ⟨_, _, _, rfl⟩ := this
        simpa using hc
      · split at hs
        · simp only [Option.some.injEq] at hs; subst hs; exact absurd hr (hne _)
        · simp only [Option.some.injEq] at hs; subst hs
          simp only [accept] at hr; exact absurd hr (hne _)
    · simp at hs
  | mark i' =>
    simp only [step] at hs
    split at hs
    · rename_i k' v' wk _
      simp only [Option.some.injEq] at hs; subst hs
      have hres : (if wk = true then markFlag s else s).results = s.results := by
        split
        · exact (markFlag_fields s).2.2.2.2.2.2.2.2.2.1
        · rfl
      simp only [hres] at hr
      have := hinj _ _ hr
      simp only [Prod.mk.injEq] at this
      obtain ⟨_, _, _, rfl⟩ := this
      trivial
    · simp at hs
  | beginCycle dt =>
    simp only [step] at hs
    split at hs
    · split at hs
      · simp at hs
      · simp only [Option.some.injEq] at hs; subst hs; exact absurd hr (hne _)
    · simp at hs
  | pop =>
    simp only [step] at hs
    split at hs
    · split at hs <;> (simp only [Option.some.injEq] at hs; subst hs; exact absurd hr (hne _))
    · simp at hs
  | rearm =>
    simp only [step] at hs
    split at hs
    · rename_i more _
      simp only [Option.some.injEq] at hs; subst hs
      have hres : (if more = true then markFlag s else s).results = s.results := by
        split
        · exact (markFlag_fields s).2.2.2.2.2.2.2.2.2.1
        · rfl
      simp only [hres] at hr
      exact absurd hr (hne _)
    · simp at hs
  | reqStop => simp only [step, Option.some.injEq] at hs; subst hs; exact absurd hr (hne _)
  | closeBegin =>
    simp only [step] at hs
    split at hs
    · split at hs
      · simp only [Option.some.injEq] at hs; subst hs; exact absurd hr (hne _)
      · simp at hs
    · simp at hs
  | queueStop =>
    simp only [step] at hs
    split at hs
    · simp only [Option.some.injEq] at hs; subst hs; exact absurd hr (hne _)
    · simp at hs

/-- **C16 (ceiling).** A blocking send fails only if the source stops first: in every reachable
    state no blocking send has ever been refused for lack of capacity (`refusedFull`); by
    `refusal_sound` the remaining refusals were decided in a state where the source was closed,
    stop-requested or not accepting. -/
theorem blocking_fails_only_if_stopped {cfg : Cfg} {s : St} (h : Reach cfg s) :
    ∀ r ∈ s.results, r.2.1 = .blocking →
      r.2.2.2 = .accepted ∨ r.2.2.2 = .refusedClosed ∨ r.2.2.2 = .refusedStopReq ∨ r.2.2.2 = .refusedNotAccepting := by
  intro r hr hk
  have := (inv_reach h).blk r hr hk
  cases ho : r.2.2.2 <;> simp_all

/-- **C16 (ceiling).** A parked blocking sender is not stuck: as soon as the queue has room or the
    policy stopped, its wake step is enabled and takes it out of the wait — admitted (the value joins
    the accepted sequence) or, only if the policy stopped, refused. -/
theorem blocked_sender_released (cfg : Cfg) (s : St) (i v : Nat) (hb : s.pcs i = .blocked v)
    (hroom : s.accepting = false ∨ full cfg s = false) :
    ∃ s', step cfg s (.wake i) = some s' ∧
      ((s.accepting = false ∧ s' = refuse s i .blocking v .refusedNotAccepting) ∨
       (s.accepting = true ∧ s'.pcs i = .admitted .blocking v s.deque.isEmpty ∧ s'.accepted = s.accepted ++ [(i, v)])) := by
  simp only [step, hb]
  cases hacc : s.accepting with
  | false => simp only [Bool.not_false, if_true]; exact ⟨_, rfl, Or.inl ⟨trivial, rfl⟩⟩
  | true =>
    have hf : full cfg s = false := by rcases hroom with h | h; · rw [hacc] at h; simp at h
                                       · exact h
    simp only [Bool.not_true, Bool.false_eq_true, if_false, hf]
    exact ⟨_, rfl, Or.inr ⟨trivial, by simp [accept, upd], by simp [accept]⟩⟩

/-! ### nothing is accepted after stop -/

theorem step_after_stop {cfg : Cfg} {s s' : St} {l : Label} (hst : s.started = true) (hna : s.accepting = false)
    (hs : step cfg s l = some s') :
    s'.accepted = s.accepted ∧ s'.started = true ∧ s'.accepting = false := by
  cases l with
  | start => simp only [step, hst, if_true] at hs; simp at hs
  | enter i k v =>
    simp only [step] at hs
    split at hs
    · split at hs <;> (simp only [Option.some.injEq] at hs; subst hs; simp [refuse, hst, hna])
    · simp at hs
  | check i =>
    simp only [step] at hs
    split at hs
    · split at hs <;> (simp only [Option.some.injEq] at hs; subst hs; simp [refuse, hst, hna])
    · simp at hs
  | admitQ i =>
    simp only [step, hna] at hs
    split at hs
    · simp at hs; subst hs; simp [refuse, hst, hna]
    · simp at hs; subst hs; simp [refuse, hst, hna]
    · simp at hs
  | wake i =>
    simp only [step, hna] at hs
    split at hs
    · simp at hs; subst hs; simp [refuse, hst, hna]
    · simp at hs
  | mark i =>
    simp only [step] at hs
    split at hs
    · simp only [Option.some.injEq] at hs; subst hs
      obtain ⟨m1, m2, _, m4, m5, _⟩ := markFlag_fields s
      simp only
      split <;> simp [m2, m4, m5, hst, hna]
    · simp at hs
  | beginCycle dt =>
    simp only [step] at hs
    split at hs
    · split at hs
      · simp at hs
      · simp only [Option.some.injEq] at hs; subst hs; simp [hst, hna]
    · simp at hs
  | pop =>
    simp only [step] at hs
    split at hs
    · split at hs
      · simp only [Option.some.injEq] at hs; subst hs; simp [hst, hna]
      · simp only [Option.some.injEq] at hs; subst hs; simp [hst, hna]
      · simp only [Option.some.injEq] at hs; subst hs; simp [hst, hna]
    · simp at hs
  | rearm =>
    simp only [step] at hs
    split at hs
    · simp only [Option.some.injEq] at hs; subst hs
      obtain ⟨m1, m2, _, m4, m5, _⟩ := markFlag_fields s
      simp only
      split <;> simp [m2, m4, m5, hst, hna]
    · simp at hs
  | reqStop => simp only [step, Option.some.injEq] at hs; subst hs; simp [hst, hna]
  | closeBegin =>
    simp only [step] at hs
    split at hs
    · split at hs
      · simp only [Option.some.injEq] at hs; subst hs; simp [hst, hna]
      · simp at hs
    · simp at hs
  | queueStop => simp only [step, hna] at hs; simp at hs

/-- **C16.** Nothing is accepted after stop: once the policy has stopped (`QueuePolicyStorage::stop`
    cleared `accepting`; restart is not supported), no continuation of the run — any labels, in
    any order — adds to the accepted sequence. -/
theorem nothing_accepted_after_stop (cfg : Cfg) (s : St) (hst : s.started = true) (hna : s.accepting = false)
    (ls : List Label) : (runLabels cfg s ls).accepted = s.accepted ∧ (runLabels cfg s ls).accepting = false := by
  induction ls generalizing s with
  | nil => exact ⟨rfl, hna⟩
  | cons l ls ih =>
    simp only [runLabels]
    cases hs : step cfg s l with
    | none => exact ih s hst hna
    | some s' =>
      obtain ⟨h1, h2, h3⟩ := step_after_stop hst hna hs
      obtain ⟨i1, i2⟩ := ih s' h2 h3
      exact ⟨by rw [i1, h1], i2⟩

/-- … and a send that starts after the stop has begun (`begin_close`), or that reaches the
    executor check after a stop request, is refused at that gate without touching the queue. -/
theorem send_after_stop_refused (cfg : Cfg) (s : St) (i : Nat) (k : SendKind) (v : Nat) :
    (s.pcs i = .idle → s.closing = true →
      step cfg s (.enter i k v) = some (refuse s i k v .refusedClosed)) ∧
    (s.pcs i = .entered k v → s.stopReq = true →
      step cfg s (.check i) = some (refuse s i k v .refusedStopReq)) := by
  refine ⟨fun h1 h2 => by simp [step, h1, h2], fun h1 h2 => by simp [step, h1, h2]⟩

/-! ### non-vacuity -/

/-- capacity 1, two producers: 1 is admitted and marks; 2 parks in `send_blocking`; the consumer
    resets the flag and pops; 2 wakes up, is admitted (it found the queue empty: mark due) -/
def exLabels : List Label :=
  [.start, .enter 1 .try_ 10, .check 1, .admitQ 1, .enter 2 .blocking 20, .check 2, .mark 1, .admitQ 2,
   .beginCycle 0, .pop, .wake 2]

def exSt : St := runLabels { cap := 1 } {} exLabels

theorem reach_runLabels (cfg : Cfg) (s : St) (h : Reach cfg s) (ls : List Label) : Reach cfg (runLabels cfg s ls) := by
  induction ls generalizing s with
  | nil => exact h
  | cons l ls ih =>
    simp only [runLabels]
    cases hs : step cfg s l with
    | none => exact ih s h
    | some s' => exact ih s' (.step l h hs)

example : Reach { cap := 1 } exSt := reach_runLabels _ _ .init _
example : exSt.deque = [(2, 20)] ∧ exSt.accepted = [(1, 10), (2, 20)] ∧ flat exSt.delivered = [(1, 10)] ∧
    exSt.flag = false ∧ exSt.cpc = .popped false ∧ exSt.pcs 2 = .admitted .blocking 20 true := by decide
/-- a parked sender and a full bounded queue -/
example : (runLabels { cap := 1 } {} (exLabels.take 8)).pcs 2 = .blocked 20 ∧
    full { cap := 1 } (runLabels { cap := 1 } {} (exLabels.take 8)) = true := by decide
/-- a stopped source (hypotheses of `nothing_accepted_after_stop`) -/
example : (runLabels {} {} [.start, .closeBegin, .queueStop]).started = true ∧
    (runLabels {} {} [.start, .closeBegin, .queueStop]).accepting = false := by decide

end HgVerif.PushQueue
