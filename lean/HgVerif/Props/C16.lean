import HgVerif.Lemmas.PushQueue
/-!
# C16 — push queue: accepted values are delivered once, in order, within capacity

Model: `HgVerif/Model/PushQueue.lean`, a labelled transition system whose atomic steps are the
mutex-protected sections of `push_source_node.cpp` / `executor.cpp` / the push phase of
`graph.cpp`.  `Reach cfg s` ranges over ALL interleavings of any number of producer threads
(indexed by `Nat`, any number of messages each), the evaluation thread and stop requests, for
any capacity `cfg.cap` (`0` = unbounded) and policy.  The theorems are invariants of every
reachable state (proved once, by induction over the steps: `inv_reach`).
-/
namespace HgVerif.PushQueue

/-- **C16.** The values handed to the graph (for burst: the tuples, flattened) are, in order, a
    prefix of the values whose send was accepted. -/
theorem delivered_prefix_of_accepted {cfg : Cfg} {s : St} (h : Reach cfg s) (hp : cfg.policy ≠ .conflating) :
    flat s.delivered <+: s.accepted := by
  obtain ⟨dr, h1, _⟩ := (inv_reach h).pre hp
  exact ⟨s.deque ++ dr, by rw [h1]; simp⟩

/-- **C16.** … hence each producer's own order is preserved: what was delivered of producer `i` is
    a prefix of what was accepted from producer `i`. -/
theorem per_producer_order {cfg : Cfg} {s : St} (h : Reach cfg s) (hp : cfg.policy ≠ .conflating) (i : Nat) :
    (flat s.delivered).filter (fun x => x.1 == i) <+: s.accepted.filter (fun x => x.1 == i) := by
  obtain ⟨t, ht⟩ := delivered_prefix_of_accepted h hp
  exact ⟨t.filter (fun x => x.1 == i), by rw [← ht]; simp⟩

/-- **C16.** Nothing is pending beyond the configured capacity. -/
theorem pending_le_capacity {cfg : Cfg} {s : St} (h : Reach cfg s) (hp : cfg.policy ≠ .conflating)
    (hc : cfg.cap ≠ 0) : s.deque.length ≤ cfg.cap :=
  (inv_reach h).cap hp hc

/-- **C16.** No lost wake-up: whenever values are pending, the executor flag is set, or a producer
    is between its admission and its mark, or the evaluation thread is between the flag reset and
    its pop / between its pop and the re-arm it owes, or a stop has been requested (after which
    nothing needs to be delivered). -/
theorem no_lost_wakeup {cfg : Cfg} {s : St} (h : Reach cfg s) (hd : s.deque ≠ []) :
    s.flag = true ∨ (∃ i k v, s.pcs i = .admitted k v true) ∨ s.cpc = .reset ∨ s.cpc = .popped true ∨
    s.stopReq = true :=
  (inv_reach h).wake hd

/-! ### one delivery per cycle, strictly increasing times -/

/-- the only step that hands values to the graph is `pop`: it appends one entry stamped with the
    current cycle time; for the queue policy the entry holds exactly one value -/
theorem step_delivered {cfg : Cfg} {s s' : St} {l : Label} (hs : step cfg s l = some s') :
    s'.delivered = s.delivered ∨
    (l = .pop ∧ s.cpc = .reset ∧ ∃ vs, vs ≠ [] ∧ s'.delivered = s.delivered ++ [(s.time, vs)] ∧
      (cfg.policy = .queue → ∃ x, vs = [x])) := by
  cases l with
  | start => simp only [step] at hs; split at hs <;> simp at hs; subst hs; exact Or.inl rfl
  | enter i k v =>
    simp only [step] at hs
    split at hs
    · split at hs <;> (simp only [Option.some.injEq] at hs; subst hs; exact Or.inl rfl)
    · simp at hs
  | check i =>
    simp only [step] at hs
    split at hs
    · split at hs <;> (simp only [Option.some.injEq] at hs; subst hs; exact Or.inl rfl)
    · simp at hs
  | admitQ i =>
    simp only [step] at hs
    split at hs
    · split at hs
      · simp only [Option.some.injEq] at hs; subst hs; exact Or.inl rfl
      · split at hs <;> (simp only [Option.some.injEq] at hs; subst hs; exact Or.inl rfl)
    · split at hs
      · simp only [Option.some.injEq] at hs; subst hs; exact Or.inl rfl
      · split at hs <;> (simp only [Option.some.injEq] at hs; subst hs; exact Or.inl rfl)
    · simp at hs
  | wake i =>
    simp only [step] at hs
    split at hs
    · split at hs
      · simp only [Option.some.injEq] at hs; subst hs; exact Or.inl rfl
      · split at hs <;> (simp only [Option.some.injEq] at hs; subst hs; exact Or.inl rfl)
    · simp at hs
  | mark i =>
    simp only [step] at hs
    split at hs
    · simp only [Option.some.injEq] at hs; subst hs
      left; simp only; split <;> simp [(markFlag_fields s).2.2.1]
    · simp at hs
  | beginCycle dt =>
    simp only [step] at hs
    split at hs
    · split at hs
      · simp at hs
      · simp only [Option.some.injEq] at hs; subst hs; exact Or.inl rfl
    · simp at hs
  | pop =>
    simp only [step] at hs
    split at hs
    · rename_i hc
      split at hs
      · simp only [Option.some.injEq] at hs; subst hs; exact Or.inl rfl
      · rename_i v rest _ _
        simp only [Option.some.injEq] at hs; subst hs
        exact Or.inr ⟨rfl, hc, [v], by simp, rfl, fun _ => ⟨v, rfl⟩⟩
      · rename_i v rest _ hnq
        simp only [Option.some.injEq] at hs; subst hs
        refine Or.inr ⟨rfl, hc, v :: rest, by simp, rfl, ?_⟩
        intro hq
        exact absurd hq (by intro hq; exact hnq hq)
    · simp at hs
  | rearm =>
    simp only [step] at hs
    split at hs
    · simp only [Option.some.injEq] at hs; subst hs
      left; simp only; split <;> simp [(markFlag_fields s).2.2.1]
    · simp at hs
  | reqStop => simp only [step, Option.some.injEq] at hs; subst hs; exact Or.inl rfl
  | closeBegin =>
    simp only [step] at hs
    split at hs
    · split at hs
      · simp only [Option.some.injEq] at hs; subst hs; exact Or.inl rfl
      · simp at hs
    · simp at hs
  | queueStop =>
    simp only [step] at hs
    split at hs
    · simp only [Option.some.injEq] at hs; subst hs; exact Or.inl rfl
    · simp at hs

/-- **C16.** Every delivery happens in its own engine cycle and the cycle times are strictly
    increasing (so no cycle delivers twice from one queue node); with the queue policy a delivery
    is exactly one value. -/
theorem delivered_once {cfg : Cfg} {s : St} (h : Reach cfg s) :
    List.Pairwise (fun a b => a < b) (s.delivered.map (·.1)) ∧
    (cfg.policy = .queue → ∀ d ∈ s.delivered, ∃ x, d.2 = [x]) := by
  refine ⟨(inv_reach h).times.1, ?_⟩
  intro hq
  induction h with
  | init => simp
  | step l _ hs ih =>
    rcases step_delivered hs with h1 | ⟨_, _, vs, _, h2, h3⟩
    · rw [h1]; exact ih
    · rw [h2]
      intro d hd
      simp only [List.mem_append, List.mem_singleton] at hd
      rcases hd with hd | rfl
      · exact ih d hd
      · exact h3 hq

/-! ### refusals -/

/-- the gates of a send, in program order: the control block (never started / closing), the
    executor stop request, the policy (not accepting), the capacity -/
def sourceStopped (s : St) : Prop := s.started = false ∨ s.closing = true ∨ s.stopReq = true ∨ s.accepting = false

/-- **C16.** A non-blocking send is refused only when the queue is full or the source has stopped
    (never started, closing, stop requested, policy not accepting) — and it IS admitted when none of
    that holds.  Stated per atomic step of `try_send`, for every state `s` (reachable or not):
    * `enter` refuses iff the control block is closed;
    * `check` refuses iff the executor has a stop request;
    * `admitQ` refuses iff the policy is not accepting or the bounded queue is at capacity, and
      otherwise appends the value to the accepted sequence. -/
theorem try_send_refused_iff_full_or_stopped (cfg : Cfg) (s : St) (i v : Nat) :
    (s.pcs i = .idle →
      ∃ s', step cfg s (.enter i .try_ v) = some s' ∧
        ((s.started = false ∨ s.closing = true) → s' = refuse s i .try_ v .refusedClosed) ∧
        (¬(s.started = false ∨ s.closing = true) → s'.pcs i = .entered .try_ v ∧ s'.results = s.results)) ∧
    (s.pcs i = .entered .try_ v →
      ∃ s', step cfg s (.check i) = some s' ∧
        (s.stopReq = true → s' = refuse s i .try_ v .refusedStopReq) ∧
        (s.stopReq = false → s'.pcs i = .checked .try_ v ∧ s'.results = s.results)) ∧
    (s.pcs i = .checked .try_ v →
      ∃ s', step cfg s (.admitQ i) = some s' ∧
        (s.accepting = false → s' = refuse s i .try_ v .refusedNotAccepting) ∧
        (s.accepting = true → full cfg s = true → s' = refuse s i .try_ v .refusedFull) ∧
        (s.accepting = true → full cfg s = false →
          s' = accept cfg s i .try_ v ∧ s'.accepted = s.accepted ++ [(i, v)] ∧ s'.results = s.results)) := by
  refine ⟨?_, ?_, ?_⟩
  · intro hpc
    simp only [step, hpc]
    by_cases hc : s.started = false ∨ s.closing = true
    · have : (!s.started || s.closing) = true := by rcases hc with h | h <;> simp [h]
      simp only [this, if_true]
      exact ⟨_, rfl, fun _ => rfl, fun h => absurd hc h⟩
    · have : (!s.started || s.closing) = false := by
        simp only [not_or, Bool.not_eq_false, Bool.not_eq_true] at hc; simp [hc.1, hc.2]
      simp only [this, Bool.false_eq_true, if_false]
      exact ⟨_, rfl, fun h => absurd h hc, fun _ => ⟨by simp [upd], rfl⟩⟩
  · intro hpc
    simp only [step, hpc]
    cases hsr : s.stopReq with
    | true => simp only [if_true]; exact ⟨_, rfl, fun _ => rfl, fun h => by simp at h⟩
    | false =>
      simp only [Bool.false_eq_true, if_false]
      exact ⟨_, rfl, fun h => by simp at h, fun _ => ⟨by simp [upd], rfl⟩⟩
  · intro hpc
    simp only [step, hpc]
    cases hacc : s.accepting with
    | false => simp only [Bool.not_false, if_true]; exact ⟨_, rfl, fun _ => rfl, by simp, by simp⟩
    | true =>
      simp only [Bool.not_true, Bool.false_eq_true, if_false]
      cases hf : full cfg s with
      | true => simp only [if_true]; exact ⟨_, rfl, by simp, fun _ _ => rfl, by simp⟩
      | false =>
        simp only [Bool.false_eq_true, if_false]
        exact ⟨_, rfl, by simp, by simp, fun _ _ => ⟨rfl, by simp [accept], by simp [accept]⟩⟩

/-- every logged refusal was justified in the state in which it was decided -/
theorem refusal_sound {cfg : Cfg} {s s' : St} {l : Label} (hs : step cfg s l = some s')
    {i : Nat} {k : SendKind} {v : Nat} {o : Outcome} (hr : s'.results = s.results ++ [(i, k, v, o)]) :
    match o with
    | .accepted => True
    | .refusedClosed => s.started = false ∨ s.closing = true
    | .refusedStopReq => s.stopReq = true
    | .refusedNotAccepting => s.accepting = false
    | .refusedFull => k = .try_ ∧ s.accepting = true ∧ full cfg s = true := by
  have hne : ∀ (x : List (Nat × SendKind × Nat × Outcome)), x = x ++ [(i, k, v, o)] → False := by
    intro x hx
    have := congrArg List.length hx
    simp at this
  have hinj : ∀ (a b : Nat × SendKind × Nat × Outcome), s.results ++ [a] = s.results ++ [b] → a = b := by
    intro a b hab; simpa using hab
  cases l with
  | start => simp only [step] at hs; split at hs <;> simp at hs; subst hs; exact absurd hr (hne _)
  | enter i' k' v' =>
    simp only [step] at hs
    split at hs
    · split at hs
      · rename_i hc
        simp only [Option.some.injEq] at hs; subst hs
        have := hinj _ _ hr
        simp only [Prod.mk.injEq] at this
        obtain ⟨_, _, _, rfl⟩ := this
        simp only [Bool.or_eq_true, Bool.not_eq_true'] at hc
        exact hc
      · simp only [Option.some.injEq] at hs; subst hs; exact absurd hr (hne _)
    · simp at hs
  | check i' =>
    simp only [step] at hs
    split at hs
    · split at hs
      · rename_i hc
        simp only [Option.some.injEq] at hs; subst hs
        have := hinj _ _ hr
        simp only [Prod.mk.injEq] at this
        obtain ⟨_, _, _, rfl⟩ := this
        exact hc
      · simp only [Option.some.injEq] at hs; subst hs; exact absurd hr (hne _)
    · simp at hs
  | admitQ i' =>
    simp only [step] at hs
    split at hs
    · split at hs
      · rename_i hc
        simp only [Option.some.injEq] at hs; subst hs
        have := hinj _ _ hr
        simp only [Prod.mk.injEq] at this
        obtain ⟨_, _, _, rfl⟩ := this
        simpa using hc
      · rename_i hacc
        split at hs
        · rename_i hf
          simp only [Option.some.injEq] at hs; subst hs
          have := hinj _ _ hr
          simp only [Prod.mk.injEq] at this
          obtain ⟨_, rfl, _, rfl⟩ := this
          exact ⟨rfl, by simpa using hacc, hf⟩
        · simp only [Option.some.injEq] at hs; subst hs
          simp only [accept] at hr; exact absurd hr (hne _)
    · split at hs
      · rename_i hc
        simp only [Option.some.injEq] at hs; subst hs
        have := hinj _ _ hr
        simp only [Prod.mk.injEq] at this
        obtain ⟨_, _, _, rfl⟩ := this
        simpa using hc
      · split at hs
        · simp only [Option.some.injEq] at hs; subst hs; exact absurd hr (hne _)
        · simp only [Option.some.injEq] at hs; subst hs
          simp only [accept] at hr; exact absurd hr (hne _)
    · simp at hs
  | wake i' =>
    simp only [step] at hs
    split at hs
    · split at hs
      · rename_i hc
        simp only [Option.some.injEq] at hs; subst hs
        have := hinj _ _ hr
        simp only [Prod.mk.injEq] at this
        obtain ⟨_, _, _, rfl⟩ := this
        simpa using hc
      · split at hs
        · simp only [Option.some.injEq] at hs; subst hs; exact absurd hr (hne _)
        · simp only [Option.some.injEq] at hs; subst hs
          simp only [accept] at hr; exact absurd hr (hne _)
    · simp at hs
  | mark i' =>
    simp only [step] at hs
    split at hs
    · rename_i k' v' wk _
      simp only [Option.some.injEq] at hs; subst hs
      have hres : (if wk = true then markFlag s else s).results = s.results := by
        split
        · exact (markFlag_fields s).2.2.2.2.2.2.2.2.2.1
        · rfl
      simp only [hres] at hr
      have := hinj _ _ hr
      simp only [Prod.mk.injEq] at this
      obtain ⟨_, _, _, rfl⟩ := this
      trivial
    · simp at hs
  | beginCycle dt =>
    simp only [step] at hs
    split at hs
    · split at hs
      · simp at hs
      · simp only [Option.some.injEq] at hs; subst hs; exact absurd hr (hne _)
    · simp at hs
  | pop =>
    simp only [step] at hs
    split at hs
    · split at hs <;> (simp only [Option.some.injEq] at hs; subst hs; exact absurd hr (hne _))
    · simp at hs
  | rearm =>
    simp only [step] at hs
    split at hs
    · rename_i more _
      simp only [Option.some.injEq] at hs; subst hs
      have hres : (if more = true then markFlag s else s).results = s.results := by
        split
        · exact (markFlag_fields s).2.2.2.2.2.2.2.2.2.1
        · rfl
      simp only [hres] at hr
      exact absurd hr (hne _)
    · simp at hs
  | reqStop => simp only [step, Option.some.injEq] at hs; subst hs; exact absurd hr (hne _)
  | closeBegin =>
    simp only [step] at hs
    split at hs
    · split at hs
      · simp only [Option.some.injEq] at hs; subst hs; exact absurd hr (hne _)
      · simp at hs
    · simp at hs
  | queueStop =>
    simp only [step] at hs
    split at hs
    · simp only [Option.some.injEq] at hs; subst hs; exact absurd hr (hne _)
    · simp at hs

/-- **C16 (ceiling).** A blocking send fails only if the source stops first: in every reachable
    state no blocking send has ever been refused for lack of capacity (`refusedFull`); by
    `refusal_sound` the remaining refusals were decided in a state where the source was closed,
    stop-requested or not accepting. -/
theorem blocking_fails_only_if_stopped {cfg : Cfg} {s : St} (h : Reach cfg s) :
    ∀ r ∈ s.results, r.2.1 = .blocking →
      r.2.2.2 = .accepted ∨ r.2.2.2 = .refusedClosed ∨ r.2.2.2 = .refusedStopReq ∨ r.2.2.2 = .refusedNotAccepting := by
  intro r hr hk
  have := (inv_reach h).blk r hr hk
  cases ho : r.2.2.2 <;> simp_all

/-- **C16 (ceiling).** A parked blocking sender is not stuck: as soon as the queue has room or the
    policy stopped, its wake step is enabled and takes it out of the wait — admitted (the value joins
    the accepted sequence) or, only if the policy stopped, refused. -/
theorem blocked_sender_released (cfg : Cfg) (s : St) (i v : Nat) (hb : s.pcs i = .blocked v)
    (hroom : s.accepting = false ∨ full cfg s = false) :
    ∃ s', step cfg s (.wake i) = some s' ∧
      ((s.accepting = false ∧ s' = refuse s i .blocking v .refusedNotAccepting) ∨
       (s.accepting = true ∧ s'.pcs i = .admitted .blocking v s.deque.isEmpty ∧ s'.accepted = s.accepted ++ [(i, v)])) := by
  simp only [step, hb]
  cases hacc : s.accepting with
  | false => simp only [Bool.not_false, if_true]; exact ⟨_, rfl, Or.inl ⟨trivial, rfl⟩⟩
  | true =>
    have hf : full cfg s = false := by rcases hroom with h | h; · rw [hacc] at h; simp at h
                                       · exact h
    simp only [Bool.not_true, Bool.false_eq_true, if_false, hf]
    exact ⟨_, rfl, Or.inr ⟨trivial, by simp [accept, upd], by simp [accept]⟩⟩

/-! ### nothing is accepted after stop -/

theorem step_after_stop {cfg : Cfg} {s s' : St} {l : Label} (hst : s.started = true) (hna : s.accepting = false)
    (hs : step cfg s l = some s') :
    s'.accepted = s.accepted ∧ s'.started = true ∧ s'.accepting = false := by
  cases l with
  | start => simp only [step, hst, if_true] at hs; simp at hs
  | enter i k v =>
    simp only [step] at hs
    split at hs
    · split at hs <;> (simp only [Option.some.injEq] at hs; subst hs; simp [refuse, hst, hna])
    · simp at hs
  | check i =>
    simp only [step] at hs
    split at hs
    · split at hs <;> (simp only [Option.some.injEq] at hs; subst hs; simp [refuse, hst, hna])
    · simp at hs
  | admitQ i =>
    simp only [step, hna] at hs
    split at hs
    · simp at hs; subst hs; simp [refuse, hst, hna]
    · simp at hs; subst hs; simp [refuse, hst, hna]
    · simp at hs
  | wake i =>
    simp only [step, hna] at hs
    split at hs
    · simp at hs; subst hs; simp [refuse, hst, hna]
    · simp at hs
  | mark i =>
    simp only [step] at hs
    split at hs
    · simp only [Option.some.injEq] at hs; subst hs
      obtain ⟨m1, m2, _, m4, m5, _⟩ := markFlag_fields s
      simp only
      split <;> simp [m2, m4, m5, hst, hna]
    · simp at hs
  | beginCycle dt =>
    simp only [step] at hs
    split at hs
    · split at hs
      · simp at hs
      · simp only [Option.some.injEq] at hs; subst hs; simp [hst, hna]
    · simp at hs
  | pop =>
    simp only [step] at hs
    split at hs
    · split at hs
      · simp only [Option.some.injEq] at hs; subst hs; simp [hst, hna]
      · simp only [Option.some.injEq] at hs; subst hs; simp [hst, hna]
      · simp only [Option.some.injEq] at hs; subst hs; simp [hst, hna]
    · simp at hs
  | rearm =>
    simp only [step] at hs
    split at hs
    · simp only [Option.some.injEq] at hs; subst hs
      obtain ⟨m1, m2, _, m4, m5, _⟩ := markFlag_fields s
      simp only
      split <;> simp [m2, m4, m5, hst, hna]
    · simp at hs
  | reqStop => simp only [step, Option.some.injEq] at hs; subst hs; simp [hst, hna]
  | closeBegin =>
    simp only [step] at hs
    split at hs
    · split at hs
      · simp only [Option.some.injEq] at hs; subst hs; simp [hst, hna]
      · simp at hs
    · simp at hs
  | queueStop => simp only [step, hna] at hs; simp at hs

/-- **C16.** Nothing is accepted after stop: once the policy has stopped (`QueuePolicyStorage::stop`
    cleared `accepting`; restart is not supported), no continuation of the run — any labels, in
    any order — adds to the accepted sequence. -/
theorem nothing_accepted_after_stop (cfg : Cfg) (s : St) (hst : s.started = true) (hna : s.accepting = false)
    (ls : List Label) : (runLabels cfg s ls).accepted = s.accepted ∧ (runLabels cfg s ls).accepting = false := by
  induction ls generalizing s with
  | nil => exact ⟨rfl, hna⟩
  | cons l ls ih =>
    simp only [runLabels]
    cases hs : step cfg s l with
    | none => exact ih s hst hna
    | some s' =>
      obtain ⟨h1, h2, h3⟩ := step_after_stop hst hna hs
      obtain ⟨i1, i2⟩ := ih s' h2 h3
      exact ⟨by rw [i1, h1], i2⟩

/-- … and a send that starts after the stop has begun (`begin_close`), or that reaches the
    executor check after a stop request, is refused at that gate without touching the queue. -/
theorem send_after_stop_refused (cfg : Cfg) (s : St) (i : Nat) (k : SendKind) (v : Nat) :
    (s.pcs i = .idle → s.closing = true →
      step cfg s (.enter i k v) = some (refuse s i k v .refusedClosed)) ∧
    (s.pcs i = .entered k v → s.stopReq = true →
      step cfg s (.check i) = some (refuse s i k v .refusedStopReq)) := by
  refine ⟨fun h1 h2 => by simp [step, h1, h2], fun h1 h2 => by simp [step, h1, h2]⟩

/-! ### liveness: every accepted value is eventually delivered (weak fairness) -/

/-- an infinite execution of the transition system -/
structure Exec (cfg : Cfg) where
  σ : Nat → St
  lab : Nat → Label
  init : Reach cfg (σ 0)
  next : ∀ n, step cfg (σ n) (lab n) = some (σ (n + 1))

/-- the run continues: no stop request and no graph stop, now or later -/
def Exec.Continues {cfg : Cfg} (e : Exec cfg) : Prop :=
  (e.σ 0).stopReq = false ∧ (e.σ 0).closing = false ∧ ∀ n, isStopLabel (e.lab n) = false

/-- weak fairness of the steps the argument relies on: a producer that has been admitted
    eventually performs its mark; the evaluation thread eventually performs the pop and the re-arm
    of a push phase it has begun; and it eventually begins a cycle when the flag stays set while it
    is idle (the real-time loop: C17 `rt_no_missed_signal`, `rt_wait_returns_on_signal`) -/
structure Exec.Fair {cfg : Cfg} (e : Exec cfg) : Prop where
  mark : ∀ i n, (∀ m, n ≤ m → ∃ k v w, (e.σ m).pcs i = .admitted k v w) → ∃ m, n ≤ m ∧ e.lab m = .mark i
  pop : ∀ n, (∀ m, n ≤ m → (e.σ m).cpc = .reset) → ∃ m, n ≤ m ∧ e.lab m = .pop
  rearm : ∀ n, (∀ m, n ≤ m → ∃ b, (e.σ m).cpc = .popped b) → ∃ m, n ≤ m ∧ e.lab m = .rearm
  cycle : ∀ n, (∀ m, n ≤ m → (e.σ m).cpc = .idle ∧ (e.σ m).flag = true) → ∃ m dt, n ≤ m ∧ e.lab m = .beginCycle dt

/-- "`P` holds until the step `T` is taken, and `T` is taken": the weak-fairness rule -/
theorem stays_until {P T : Nat → Prop} (n : Nat) (h0 : P n) (hstep : ∀ q, n ≤ q → P q → ¬T q → P (q + 1))
    (hfair : (∀ q, n ≤ q → P q) → ∃ m, n ≤ m ∧ T m) : ∃ m, n ≤ m ∧ T m ∧ P m := by
  apply Classical.byContradiction
  intro hno
  have hall : ∀ q, n ≤ q → P q := by
    intro q hq
    induction q with
    | zero => have : n = 0 := by omega
              subst this; exact h0
    | succ q ih =>
      by_cases hqn : n ≤ q
      · have hp := ih hqn
        apply hstep q hqn hp
        intro ht
        exact hno ⟨q, hqn, ht, hp⟩
      · have : n = q + 1 := by omega
        subst this; exact h0
  obtain ⟨m, hm, ht⟩ := hfair hall
  exact hno ⟨m, hm, ht, hall m hm⟩

section Live
variable {cfg : Cfg} (e : Exec cfg)

theorem exec_reach (n : Nat) : Reach cfg (e.σ n) := by
  induction n with
  | zero => exact e.init
  | succ n ih => exact .step _ ih (e.next n)

theorem exec_quiet (hc : e.Continues) (n : Nat) : (e.σ n).stopReq = false ∧ (e.σ n).closing = false := by
  induction n with
  | zero => exact ⟨hc.1, hc.2.1⟩
  | succ n ih =>
    obtain ⟨h1, h2, _⟩ := step_keeps_stop (e.next n) (hc.2.2 n)
    exact ⟨by rw [h1]; exact ih.1, by rw [h2]; exact ih.2⟩

theorem exec_dcount_mono {n m : Nat} (h : n ≤ m) : dcount (e.σ n) ≤ dcount (e.σ m) := by
  induction m with
  | zero => have : n = 0 := by omega
            subst this; exact Nat.le_refl _
  | succ m ih =>
    by_cases hm : n ≤ m
    · exact Nat.le_trans (ih hm) (step_dcount (e.next m)).1
    · have : n = m + 1 := by omega
      subst this; exact Nat.le_refl _

theorem exec_accepted_mono {n m : Nat} (h : n ≤ m) : ∃ t, (e.σ m).accepted = (e.σ n).accepted ++ t := by
  induction m with
  | zero => have : n = 0 := by omega
            subst this; exact ⟨[], by simp⟩
  | succ m ih =>
    by_cases hm : n ≤ m
    · obtain ⟨t, ht⟩ := ih hm
      obtain ⟨u, hu⟩ := step_accepted_mono (e.next m)
      exact ⟨t ++ u, by rw [hu, ht]; simp⟩
    · have : n = m + 1 := by omega
      subst this; exact ⟨[], by simp⟩

/-- a started state: pending values imply a started source -/
theorem deque_started {s : St} (h : Reach cfg s) (hd : s.deque ≠ []) : s.started = true := by
  cases hst : s.started with
  | true => rfl
  | false => exact absurd ((inv_reach h).life.2.2 hst).1 hd

/-- progress goal: strictly more values have been handed to the graph at some later point -/
def Goal (n : Nat) : Prop := ∃ m, n < m ∧ dcount (e.σ n) < dcount (e.σ m)

theorem goal_of_later {n m : Nat} (h : n ≤ m) (hg : Goal e m) : Goal e n := by
  obtain ⟨q, hq, hlt⟩ := hg
  have := exec_dcount_mono e h
  exact ⟨q, by omega, by omega⟩

/-- the push phase has been entered (flag reset) with values pending: the pop delivers -/
theorem goal_reset (hc : e.Continues) (hf : e.Fair) (n : Nat) (h1 : (e.σ n).cpc = .reset) (h2 : (e.σ n).deque ≠ []) :
    Goal e n := by
  obtain ⟨m, hm, ht, hp1, hp2⟩ := stays_until (P := fun q => (e.σ q).cpc = .reset ∧ (e.σ q).deque ≠ [])
    (T := fun q => e.lab q = .pop) n ⟨h1, h2⟩
    (by
      intro q _ ⟨p1, p2⟩ hnt
      have hcpc := (step_cpc (e.next q)).1
      refine ⟨?_, step_deque_ne (e.next q) (hc.2.2 q) hnt (deque_started (exec_reach e q) p2) p2⟩
      rw [← p1]
      apply hcpc
      · intro dt hl
        have := (step_cpc (e.next q)).2.2.2 ⟨dt, hl⟩
        rw [p1] at this; simp at this
      · exact hnt
      · intro hl
        obtain ⟨b, hb⟩ := (step_cpc (e.next q)).2.2.1 hl
        rw [p1] at hb; simp at hb)
    (fun hall => hf.pop n (fun m hm => (hall m hm).1))
  have hlt := (step_dcount (e.next m)).2
  rw [ht] at hlt
  have := hlt rfl hp2
  have := exec_dcount_mono e hm
  exact ⟨m + 1, by omega, by omega⟩

/-- idle with the flag set and values pending: a cycle begins, then `goal_reset` -/
theorem goal_idle_flag (hc : e.Continues) (hf : e.Fair) (n : Nat) (h1 : (e.σ n).cpc = .idle) (h2 : (e.σ n).flag = true)
    (h3 : (e.σ n).deque ≠ []) : Goal e n := by
  obtain ⟨m, hm, ⟨dt, ht⟩, hp1, hp2, hp3⟩ := stays_until
    (P := fun q => (e.σ q).cpc = .idle ∧ (e.σ q).flag = true ∧ (e.σ q).deque ≠ [])
    (T := fun q => ∃ dt, e.lab q = .beginCycle dt) n ⟨h1, h2, h3⟩
    (by
      intro q _ ⟨p1, p2, p3⟩ hnt
      have hnb : ∀ dt, e.lab q ≠ .beginCycle dt := fun dt hl => hnt ⟨dt, hl⟩
      have hnp : e.lab q ≠ .pop := by
        intro hl
        have := (step_cpc (e.next q)).2.1 hl
        rw [p1] at this; simp at this
      have hnr : e.lab q ≠ .rearm := by
        intro hl
        obtain ⟨b, hb⟩ := (step_cpc (e.next q)).2.2.1 hl
        rw [p1] at hb; simp at hb
      refine ⟨?_, step_flag (e.next q) hnb p2,
        step_deque_ne (e.next q) (hc.2.2 q) hnp (deque_started (exec_reach e q) p3) p3⟩
      rw [← p1]
      exact (step_cpc (e.next q)).1 hnb hnp hnr)
    (fun hall => by
      obtain ⟨m, dt, hm, hl⟩ := hf.cycle n (fun m hm => ⟨(hall m hm).1, (hall m hm).2.1⟩)
      exact ⟨m, hm, dt, hl⟩)
  have hnext := e.next m
  rw [ht] at hnext
  obtain ⟨c1, c2⟩ := step_beginCycle hnext hp2
  have hg := goal_reset e hc hf (m + 1) c1 (by rw [c2]; exact hp3)
  exact goal_of_later e (by omega) hg

/-- between pop and re-arm with the flag set (or a re-arm owed): the re-arm, then `goal_idle_flag` -/
theorem goal_popped (hc : e.Continues) (hf : e.Fair) (n : Nat) (b : Bool) (h1 : (e.σ n).cpc = .popped b)
    (h2 : b = true ∨ (e.σ n).flag = true) (h3 : (e.σ n).deque ≠ []) : Goal e n := by
  obtain ⟨m, hm, ht, hp1, hp2, hp3⟩ := stays_until
    (P := fun q => (e.σ q).cpc = .popped b ∧ (b = true ∨ (e.σ q).flag = true) ∧ (e.σ q).deque ≠ [])
    (T := fun q => e.lab q = .rearm) n ⟨h1, h2, h3⟩
    (by
      intro q _ ⟨p1, p2, p3⟩ hnt
      have hnb : ∀ dt, e.lab q ≠ .beginCycle dt := by
        intro dt hl
        have := (step_cpc (e.next q)).2.2.2 ⟨dt, hl⟩
        rw [p1] at this; simp at this
      have hnp : e.lab q ≠ .pop := by
        intro hl
        have := (step_cpc (e.next q)).2.1 hl
        rw [p1] at this; simp at this
      refine ⟨?_, ?_, step_deque_ne (e.next q) (hc.2.2 q) hnp (deque_started (exec_reach e q) p3) p3⟩
      · rw [← p1]; exact (step_cpc (e.next q)).1 hnb hnp hnt
      · rcases p2 with p2 | p2
        · exact Or.inl p2
        · exact Or.inr (step_flag (e.next q) hnb p2))
    (fun hall => hf.rearm n (fun m hm => ⟨b, (hall m hm).1⟩))
  have hnext := e.next m
  rw [ht] at hnext
  obtain ⟨c1, c2, c3⟩ := step_rearm hnext
  have hfl : (e.σ (m + 1)).flag = true := by
    apply c3 (exec_quiet e hc m).1
    rcases hp2 with hp2 | hp2
    · left; rw [hp1, hp2]
    · right; exact hp2
  have hg := goal_idle_flag e hc hf (m + 1) c1 hfl (by rw [c2]; exact hp3)
  exact goal_of_later e (by omega) hg

/-- the flag is set and values are pending: whatever the evaluation thread is doing, it delivers -/
theorem goal_flag (hc : e.Continues) (hf : e.Fair) (n : Nat) (h2 : (e.σ n).flag = true) (h3 : (e.σ n).deque ≠ []) :
    Goal e n := by
  cases hcpc : (e.σ n).cpc with
  | idle => exact goal_idle_flag e hc hf n hcpc h2 h3
  | reset => exact goal_reset e hc hf n hcpc h3
  | popped b => exact goal_popped e hc hf n b hcpc (Or.inr h2) h3

/-- if nothing was delivered in between, the queue is still non-empty -/
theorem deque_ne_of_no_delivery (hc : e.Continues) {n m : Nat} (h : n ≤ m) (hd : (e.σ n).deque ≠ [])
    (heq : dcount (e.σ m) = dcount (e.σ n)) : (e.σ m).deque ≠ [] := by
  induction m with
  | zero => have : n = 0 := by omega
            subst this; exact hd
  | succ m ih =>
    by_cases hm : n ≤ m
    · have hmono1 := exec_dcount_mono e hm
      have hmono2 := (step_dcount (e.next m)).1
      have heqm : dcount (e.σ m) = dcount (e.σ n) := by omega
      have hdm := ih hm heqm
      by_cases hl : e.lab m = .pop
      · have := (step_dcount (e.next m)).2 hl hdm
        omega
      · exact step_deque_ne (e.next m) (hc.2.2 m) hl (deque_started (exec_reach e m) hdm) hdm
    · have : n = m + 1 := by omega
      subst this; exact hd

/-- **progress**: whenever values are pending, strictly more values are eventually delivered -/
theorem progress (hc : e.Continues) (hf : e.Fair) (n : Nat) (hd : (e.σ n).deque ≠ []) : Goal e n := by
  rcases no_lost_wakeup (exec_reach e n) hd with h | ⟨i, k, v, h⟩ | h | h | h
  · exact goal_flag e hc hf n h hd
  · -- a producer owes its mark: it is eventually performed and sets the flag
    obtain ⟨m, hm, ht, hp⟩ := stays_until (P := fun q => (e.σ q).pcs i = .admitted k v true)
      (T := fun q => e.lab q = .mark i) n h
      (fun q _ p hnt => step_pcs_admitted (e.next q) i k v true hnt p)
      (fun hall => hf.mark i n (fun m hm => ⟨k, v, true, hall m hm⟩))
    have hnext := e.next m
    rw [ht] at hnext
    obtain ⟨c1, c2, c3⟩ := step_mark hnext hp (exec_quiet e hc m).1
    have hmono := exec_dcount_mono e (show n ≤ m + 1 by omega)
    by_cases heq : dcount (e.σ (m + 1)) = dcount (e.σ n)
    · have hdm := deque_ne_of_no_delivery e hc (show n ≤ m + 1 by omega) hd heq
      exact goal_of_later e (by omega) (goal_flag e hc hf (m + 1) c1 hdm)
    · exact ⟨m + 1, by omega, by omega⟩
  · exact goal_reset e hc hf n h hd
  · exact goal_popped e hc hf n true h (Or.inl rfl) hd
  · rw [(exec_quiet e hc n).1] at h; simp at h

/-- **C16 (ceiling).** Every accepted value is delivered if the run continues long enough: in every
    infinite execution without a stop request or graph stop, under weak fairness of the threads'
    steps, for every position `j` of the accepted sequence at time `n` there is a later time at
    which at least `j+1` values have been handed to the graph — and by
    `delivered_prefix_of_accepted` the `j`-th of them is exactly the `j`-th accepted value. -/
theorem eventually_delivered (hp : cfg.policy ≠ .conflating) (hc : e.Continues) (hf : e.Fair) (n j : Nat)
    (hj : j < (e.σ n).accepted.length) :
    ∃ m, n ≤ m ∧ j < (flat (e.σ m).delivered).length ∧
      (flat (e.σ m).delivered)[j]? = (e.σ n).accepted[j]? := by
  -- first: enough deliveries
  have key : ∀ k n, j + 1 - dcount (e.σ n) ≤ k → j < (e.σ n).accepted.length → ∃ m, n ≤ m ∧ j < dcount (e.σ m) := by
    intro k
    induction k with
    | zero => intro n hk _; exact ⟨n, Nat.le_refl _, by omega⟩
    | succ k ih =>
      intro n hk hj
      by_cases hdone : j < dcount (e.σ n)
      · exact ⟨n, Nat.le_refl _, hdone⟩
      · -- the queue is non-empty: accepted = delivered ++ pending
        have hr := exec_reach e n
        obtain ⟨dr, h1, h2⟩ := (inv_reach hr).pre hp
        have hst : (e.σ n).started = true := by
          cases hs : (e.σ n).started with
          | true => rfl
          | false =>
            have := ((inv_reach hr).life.2.2 hs).2.1
            rw [this] at hj; simp at hj
        have hacc := running_accepting hr hst (exec_quiet e hc n).2
        have hdr := h2 hacc
        subst hdr
        have hne : (e.σ n).deque ≠ [] := by
          intro hemp
          rw [h1, hemp] at hj
          simp only [List.append_nil] at hj
          exact hdone hj
        obtain ⟨m, hm, hlt⟩ := progress e hc hf n hne
        obtain ⟨t, ht⟩ := exec_accepted_mono e (show n ≤ m by omega)
        obtain ⟨m', hm', hres⟩ := ih m (by omega) (by rw [ht]; simp; omega)
        exact ⟨m', by omega, hres⟩
  obtain ⟨m, hm, hlt⟩ := key (j + 1) n (by omega) hj
  refine ⟨m, hm, hlt, ?_⟩
  obtain ⟨t, ht⟩ := delivered_prefix_of_accepted (exec_reach e m) hp
  obtain ⟨u, hu⟩ := exec_accepted_mono e hm
  have h1 : (e.σ m).accepted[j]? = (flat (e.σ m).delivered)[j]? := by
    rw [← ht]; exact List.getElem?_append_left hlt
  have h2 : (e.σ m).accepted[j]? = (e.σ n).accepted[j]? := by
    rw [hu]; exact List.getElem?_append_left hj
  rw [← h1, h2]

end Live

/-! ### the conflating policy: the merged latest state -/

/-- invariant of the conflating policy (for a scalar output: merging = keeping the last value) -/
def ConflInv (s : St) : Prop :=
  (s.deque = [] ∨ ∃ x, s.deque = [x] ∧ s.accepted.getLast? = some x) ∧
  (flat s.delivered ++ s.deque).Sublist s.accepted

theorem conflInv_step {cfg : Cfg} (hp : cfg.policy = .conflating) {s s' : St} {l : Label} (h : ConflInv s)
    (hs : step cfg s l = some s') : ConflInv s' := by
  obtain ⟨h1, h2⟩ := h
  have hacc : ∀ i k v, ConflInv (accept cfg s i k v) := by
    intro i k v
    unfold accept
    simp only [hp]
    refine ⟨Or.inr ⟨(i, v), rfl, by simp⟩, ?_⟩
    have : (flat s.delivered).Sublist s.accepted :=
      List.Sublist.trans (List.sublist_append_left _ _) h2
    exact List.Sublist.append this (List.Sublist.refl _)
  have hsame : ∀ t : St, t.deque = s.deque → t.accepted = s.accepted → t.delivered = s.delivered → ConflInv t := by
    intro t e1 e2 e3
    unfold ConflInv; rw [e1, e2, e3]; exact ⟨h1, h2⟩
  cases l with
  | start =>
    step_cases hs
    refine ⟨Or.inl rfl, ?_⟩
    simp only [List.append_nil]
    exact List.Sublist.trans (List.sublist_append_left _ _) h2
  | enter i k v => step_cases hs <;> exact hsame _ rfl rfl rfl
  | check i => step_cases hs <;> exact hsame _ rfl rfl rfl
  | admitQ i =>
    step_cases hs <;> first | exact hsame _ rfl rfl rfl | exact hacc _ _ _
  | wake i =>
    step_cases hs <;> first | exact hsame _ rfl rfl rfl | exact hacc _ _ _ | exact ⟨h1, h2⟩
  | mark i =>
    step_cases hs
    obtain ⟨m1, m2, m3, _⟩ := markFlag_fields s
    all_goals (apply hsame <;> (try simp only) <;> (try split) <;> simp [m1, m2, m3])
  | beginCycle dt => step_cases hs <;> exact hsame _ rfl rfl rfl
  | pop =>
    step_cases hs
    · exact hsame _ rfl rfl rfl
    · rename_i v rest hq hd
      exact absurd hq (by rw [hp]; simp)
    · rename_i v rest hd _
      refine ⟨Or.inl rfl, ?_⟩
      simp only [flat_append, flat_single, List.append_nil]
      rw [hd] at h2; exact h2
  | rearm =>
    step_cases hs
    obtain ⟨m1, m2, m3, _⟩ := markFlag_fields s
    all_goals (apply hsame <;> (try simp only) <;> (try split) <;> simp [m1, m2, m3])
  | reqStop => step_cases hs; exact hsame _ rfl rfl rfl
  | closeBegin => step_cases hs; exact hsame _ rfl rfl rfl
  | queueStop =>
    step_cases hs
    refine ⟨Or.inl rfl, ?_⟩
    simp only [List.append_nil]
    exact List.Sublist.trans (List.sublist_append_left _ _) h2

/-- **C16 (conflating).** With the conflating policy at most one merged state is pending, it is the
    most recently accepted value, and what was delivered is an in-order subsequence of what was
    accepted (every delivery is the latest state at the time of its cycle). -/
theorem conflating_delivers_latest {cfg : Cfg} (hp : cfg.policy = .conflating) {s : St} (h : Reach cfg s) :
    (s.deque = [] ∨ ∃ x, s.deque = [x] ∧ s.accepted.getLast? = some x) ∧
    (flat s.delivered ++ s.deque).Sublist s.accepted := by
  induction h with
  | init => exact ⟨Or.inl rfl, by simp [flat]⟩
  | step l _ hs ih => exact conflInv_step hp ih hs

/-! ### non-vacuity -/

/-- capacity 1, two producers: 1 is admitted and marks; 2 parks in `send_blocking`; the consumer
    resets the flag and pops; 2 wakes up, is admitted (it found the queue empty: mark due) -/
def exLabels : List Label :=
  [.start, .enter 1 .try_ 10, .check 1, .admitQ 1, .enter 2 .blocking 20, .check 2, .mark 1, .admitQ 2,
   .beginCycle 0, .pop, .wake 2]

def exSt : St := runLabels { cap := 1 } {} exLabels

theorem reach_runLabels (cfg : Cfg) (s : St) (h : Reach cfg s) (ls : List Label) : Reach cfg (runLabels cfg s ls) := by
  induction ls generalizing s with
  | nil => exact h
  | cons l ls ih =>
    simp only [runLabels]
    cases hs : step cfg s l with
    | none => exact ih s h
    | some s' => exact ih s' (.step l h hs)

example : Reach { cap := 1 } exSt := reach_runLabels _ _ .init _
example : exSt.deque = [(2, 20)] ∧ exSt.accepted = [(1, 10), (2, 20)] ∧ flat exSt.delivered = [(1, 10)] ∧
    exSt.flag = false ∧ exSt.cpc = .popped false ∧ exSt.pcs 2 = .admitted .blocking 20 true := by decide
/-- a parked sender and a full bounded queue -/
example : (runLabels { cap := 1 } {} (exLabels.take 8)).pcs 2 = .blocked 20 ∧
    full { cap := 1 } (runLabels { cap := 1 } {} (exLabels.take 8)) = true := by decide
/-- a stopped source (hypotheses of `nothing_accepted_after_stop`) -/
example : (runLabels {} {} [.start, .closeBegin, .queueStop]).started = true ∧
    (runLabels {} {} [.start, .closeBegin, .queueStop]).accepting = false := by decide

/-! a concrete infinite execution that continues and is fair: one send is performed, delivered by
    one evaluation cycle, and the evaluation thread keeps running (empty) cycles for ever -/

def xLabs : List Label := [.enter 0 .try_ 5, .check 0, .admitQ 0, .mark 0, .beginCycle 0, .pop, .rearm]
def xS0 : St := runLabels {} {} [.start]
def xEnd : St := runLabels {} xS0 xLabs
def xσ (n : Nat) : St := if n ≤ 7 then runLabels {} xS0 (xLabs.take n) else { xEnd with time := xEnd.time + (n - 7) }
def xLab (n : Nat) : Label := xLabs.getD n (.beginCycle 0)

theorem xEnd_fields : xEnd.flag = false ∧ xEnd.cpc = .idle ∧ xEnd.started = true ∧ xEnd.closing = false ∧
    xEnd.stopReq = false ∧ (∀ i, xEnd.pcs i = .idle) ∧ xEnd.accepted = [(0, 5)] ∧ flat xEnd.delivered = [(0, 5)] := by
  refine ⟨by decide, by decide, by decide, by decide, by decide, ?_, by decide, by decide⟩
  intro i
  simp [xEnd, xS0, xLabs, runLabels, step, accept, markFlag, upd, full]
  split
  · intro h; contradiction
  · intro _; rfl

theorem xnext (n : Nat) : step {} (xσ n) (xLab n) = some (xσ (n + 1)) := by
  by_cases h : n < 7
  · have : n = 0 ∨ n = 1 ∨ n = 2 ∨ n = 3 ∨ n = 4 ∨ n = 5 ∨ n = 6 := by omega
    rcases this with rfl | rfl | rfl | rfl | rfl | rfl | rfl <;> rfl
  · have h7 : 7 ≤ n := by omega
    obtain ⟨f1, f2, f3, f4, _⟩ := xEnd_fields
    have hl : xLab n = .beginCycle 0 := by
      unfold xLab xLabs
      simp [List.getD, h7]
    have hs : xσ n = { xEnd with time := xEnd.time + (n - 7) } := by
      unfold xσ
      by_cases h8 : n = 7
      · subst h8; rfl
      · simp [show ¬ n ≤ 7 by omega]
    have hs' : xσ (n + 1) = { xEnd with time := xEnd.time + (n + 1 - 7) } := by
      unfold xσ; simp [show ¬ n + 1 ≤ 7 by omega]
    rw [hl, hs, hs']
    simp only [step, f1, f2, f3, f4]
    simp
    omega

def xExec : Exec {} := { σ := xσ, lab := xLab, init := reach_runLabels _ _ .init _, next := xnext }

theorem xσ_tail (n : Nat) (h : 7 ≤ n) : (xσ n).cpc = .idle ∧ (xσ n).flag = false ∧ ∀ i, (xσ n).pcs i = .idle := by
  obtain ⟨f1, f2, _, _, _, f6, _⟩ := xEnd_fields
  by_cases h8 : n = 7
  · subst h8; exact ⟨f2, f1, f6⟩
  · unfold xσ; simp only [show ¬ n ≤ 7 by omega, if_false]; exact ⟨f2, f1, f6⟩

example : xExec.Continues := by
  refine ⟨by decide, by decide, ?_⟩
  intro n
  show isStopLabel (xLab n) = false
  unfold xLab xLabs
  by_cases h : n < 7
  · have : n = 0 ∨ n = 1 ∨ n = 2 ∨ n = 3 ∨ n = 4 ∨ n = 5 ∨ n = 6 := by omega
    rcases this with rfl | rfl | rfl | rfl | rfl | rfl | rfl <;> rfl
  · simp [List.getD, show 7 ≤ n by omega, isStopLabel]

/-- the execution is fair: every helpful step that stays enabled is taken (here: none stays
    enabled for ever, because each one IS taken within the first seven steps) -/
example : xExec.Fair := by
  refine ⟨?_, ?_, ?_, ?_⟩
  · intro i n hall
    obtain ⟨k, v, w, h⟩ := hall (n + 7) (by omega)
    have := (xσ_tail (n + 7) (by omega)).2.2 i
    rw [show xExec.σ (n + 7) = xσ (n + 7) from rfl, this] at h; simp at h
  · intro n hall
    have h := hall (n + 7) (by omega)
    rw [show xExec.σ (n + 7) = xσ (n + 7) from rfl, (xσ_tail (n + 7) (by omega)).1] at h; simp at h
  · intro n hall
    obtain ⟨b, h⟩ := hall (n + 7) (by omega)
    rw [show xExec.σ (n + 7) = xσ (n + 7) from rfl, (xσ_tail (n + 7) (by omega)).1] at h; simp at h
  · intro n hall
    have h := (hall (n + 7) (by omega)).2
    rw [show xExec.σ (n + 7) = xσ (n + 7) from rfl, (xσ_tail (n + 7) (by omega)).2.1] at h; simp at h

/-- … and the accepted value (position 0, accepted by step 3) has been delivered by step 6 -/
example : (xσ 3).accepted = [(0, 5)] ∧ flat (xσ 6).delivered = [(0, 5)] := by decide

end HgVerif.PushQueue
