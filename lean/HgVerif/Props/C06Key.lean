import HgVerif.Props.C06
/-!
# C06 (interning key) — which declarations denote one node, and how many nodes there are

`Props/C06.lean` proves the two directions separately for a declaration `d`, a middle part and a later
declaration `d'`.  Here they are combined into the statements the direct interning stream
(`tools/props/c06intern.py`, `harness/drv_intern.cpp`, `Drivers/Intern.lean`) observes, for every key
type, every declaration list and every position:

* `pair_same_iff`         : a later declaration denotes the node of an earlier one **iff** both are
                            value-producing and their keys are equal (from any reachable table).
* `wireAll_same_iff`      : the same for two positions of a declaration list wired from the empty table.
* `wireAll_perm_same_iff` : whether two declarations denote one node depends on nothing but the two
                            declarations: not on what is wired before, between or after them, and not on
                            which of the two comes first.  In particular the partition "denotes the same
                            node" is the same for every permutation of a declaration list (keys resolved).
* `wireAll_count`         : the number of nodes created = number of sink declarations + number of
                            distinct keys of the value-producing declarations.
-/
namespace HgVerif.Intern

variable {κ : Type} [DecidableEq κ]

/-! ## table values -/

theorem tbl_vals_addNode (s : St κ) (d : Decl κ) (k : κ) (v : Nat)
    (h : lookup (addNode s d).1.tbl k = some v) : lookup s.tbl k = some v ∨ s.next ≤ v := by
  unfold addNode at h
  split at h
  · exact Or.inl h
  · split at h
    · exact Or.inl h
    · rw [lookup_cons] at h
      split at h
      · injection h with h; exact Or.inr (Nat.le_of_eq h)
      · exact Or.inl h

theorem tbl_vals_wireAll (s : St κ) (ds : List (Decl κ)) (k : κ) (v : Nat)
    (h : lookup (wireAll s ds).1.tbl k = some v) : lookup s.tbl k = some v ∨ s.next ≤ v := by
  induction ds generalizing s with
  | nil => exact Or.inl h
  | cons d rest ih =>
    rcases ih (addNode s d).1 h with h1 | h1
    · exact tbl_vals_addNode s d k v h1
    · exact Or.inr (Nat.le_trans (next_mono_addNode s d) h1)

/-! ## two declarations -/

/-- **same node iff same key**: from a reachable table, a later declaration `d'` denotes the node of an
    earlier declaration `d` exactly when both are value-producing and their keys are equal -/
theorem pair_same_iff {s : St κ} (hs : Inv s) (d : Decl κ) (mid : List (Decl κ)) (d' : Decl κ) :
    (addNode (wireAll (addNode s d).1 mid).1 d').2 = (addNode s d).2 ↔
      (d.sink = false ∧ d'.sink = false ∧ d'.key = d.key) := by
  constructor
  · intro heq
    cases hd' : d'.sink with
    | true =>
      -- a sink gets a fresh id, above every earlier id
      exfalso
      have h1 := (sinks_never_merged (wireAll (addNode s d).1 mid).1 d' hd').1
      have h2 := addNode_id_lt hs d
      have h3 := next_mono_wireAll (addNode s d).1 mid
      omega
    | false =>
      cases hd : d.sink with
      | true =>
        -- an earlier sink is never in the table
        exfalso
        have h1 := sinks_never_merged s d hd
        have h2 := addNode_lookup (wireAll (addNode s d).1 mid).1 d' hd'
        have htbl : (addNode s d).1.tbl = s.tbl := by unfold addNode; simp [hd]
        rcases tbl_vals_addNode _ d' _ _ h2 with h3 | h3
        · rcases tbl_vals_wireAll _ mid _ _ h3 with h4 | h4
          · rw [htbl] at h4
            have := hs.bound _ _ h4
            omega
          · omega
        · have := next_mono_wireAll (addNode s d).1 mid
          omega
      | false =>
        refine ⟨rfl, rfl, ?_⟩
        by_cases hk : d'.key = d.key
        · exact hk
        · exact absurd heq (intern_distinct_keys_differ hs d mid d' hd hd' hk)
  · rintro ⟨hd, hd', hk⟩
    exact intern_equal_keys_share s d mid d' hd hd' hk

/-! ## positions of a declaration list -/

theorem wireAll_append (s : St κ) (a b : List (Decl κ)) :
    wireAll s (a ++ b) = ((wireAll (wireAll s a).1 b).1, (wireAll s a).2 ++ (wireAll (wireAll s a).1 b).2) := by
  induction a generalizing s with
  | nil => simp [wireAll]
  | cons d rest ih => simp [wireAll, ih]

theorem wireAll_length (s : St κ) (ds : List (Decl κ)) : (wireAll s ds).2.length = ds.length := by
  induction ds generalizing s with
  | nil => simp [wireAll]
  | cons d rest ih => simp [wireAll, ih]

/-- the node each declaration of a program denotes, wired from the empty table -/
def ids (ds : List (Decl κ)) : List Nat := (wireAll ({} : St κ) ds).2

theorem wireAll_at (s : St κ) (pre : List (Decl κ)) (d : Decl κ) (post : List (Decl κ)) :
    (wireAll s (pre ++ d :: post)).2[pre.length]? = some (addNode (wireAll s pre).1 d).2 := by
  rw [wireAll_append]
  simp only
  rw [List.getElem?_append_right (by rw [wireAll_length]; exact Nat.le_refl _)]
  simp [wireAll_length, wireAll]

/-- **the partition**: in `pre ++ d :: mid ++ d' :: post` the declarations `d` and `d'` denote the same
    node iff both are value-producing with equal keys -/
theorem wireAll_same_iff (pre mid post : List (Decl κ)) (d d' : Decl κ) :
    (ids (pre ++ d :: (mid ++ d' :: post)))[pre.length + 1 + mid.length]? = (ids (pre ++ d :: (mid ++ d' :: post)))[pre.length]? ↔
      (d.sink = false ∧ d'.sink = false ∧ d'.key = d.key) := by
  unfold ids
  rw [wireAll_at]
  have h2 : pre ++ d :: (mid ++ d' :: post) = (pre ++ d :: mid) ++ d' :: post := by simp
  have hl : pre.length + 1 + mid.length = (pre ++ d :: mid).length := by simp; omega
  rw [h2, hl, wireAll_at]
  have hw : (wireAll ({} : St κ) (pre ++ d :: mid)).1 = (wireAll (addNode (wireAll ({} : St κ) pre).1 d).1 mid).1 := by
    rw [wireAll_append]; simp [wireAll]
  rw [hw]
  have hI : Inv (wireAll ({} : St κ) pre).1 := inv_wireAll inv_init pre
  constructor
  · intro h; injection h with h; exact (pair_same_iff hI d mid d').1 h
  · intro h; rw [(pair_same_iff hI d mid d').2 h]

/-- **order and context are irrelevant**: take the same two declarations in any two programs, in either
    relative order; they denote one node in the first program iff they do in the second.  (Every
    permutation of a declaration list is an instance: `l' ` is the permuted list.) -/
theorem wireAll_perm_same_iff (pre mid post pre' mid' post' : List (Decl κ)) (d d' : Decl κ) :
    ((ids (pre ++ d :: (mid ++ d' :: post)))[pre.length + 1 + mid.length]? = (ids (pre ++ d :: (mid ++ d' :: post)))[pre.length]?) ↔
      ((ids (pre' ++ d' :: (mid' ++ d :: post')))[pre'.length + 1 + mid'.length]? =
        (ids (pre' ++ d' :: (mid' ++ d :: post')))[pre'.length]?) := by
  rw [wireAll_same_iff, wireAll_same_iff]
  constructor
  · rintro ⟨a, b, c⟩; exact ⟨b, a, c.symm⟩
  · rintro ⟨a, b, c⟩; exact ⟨b, a, c.symm⟩

theorem wireAll_ctx_same_iff (pre mid post pre' mid' post' : List (Decl κ)) (d d' : Decl κ) :
    ((ids (pre ++ d :: (mid ++ d' :: post)))[pre.length + 1 + mid.length]? = (ids (pre ++ d :: (mid ++ d' :: post)))[pre.length]?) ↔
      ((ids (pre' ++ d :: (mid' ++ d' :: post')))[pre'.length + 1 + mid'.length]? =
        (ids (pre' ++ d :: (mid' ++ d' :: post')))[pre'.length]?) := by
  rw [wireAll_same_iff, wireAll_same_iff]

/-! ## node count -/

theorem lookup_none_iff (t : List (κ × Nat)) (k : κ) : lookup t k = none ↔ k ∉ t.map Prod.fst := by
  induction t with
  | nil => simp [lookup]
  | cons p rest ih =>
    obtain ⟨k0, v0⟩ := p
    rw [lookup_cons]
    by_cases h : k0 = k
    · simp [h]
    · simp only [h, ↓reduceIte, List.map_cons, List.mem_cons, not_or]
      rw [ih]
      exact ⟨fun hh => ⟨fun e => h e.symm, hh⟩, fun hh => hh.2⟩

/-- what is known about a table reached by wiring `ds0` from the empty table -/
structure Cnt (s : St κ) (ds0 : List (Decl κ)) : Prop where
  nodup : (s.tbl.map Prod.fst).Nodup
  keys : ∀ k, k ∈ s.tbl.map Prod.fst ↔ ∃ d ∈ ds0, d.sink = false ∧ d.key = k
  count : s.next = (ds0.filter (·.sink)).length + s.tbl.length

omit [DecidableEq κ] in
theorem cnt_init : Cnt ({} : St κ) [] := ⟨by simp, by simp, by simp⟩

theorem cnt_addNode {s : St κ} {ds0 : List (Decl κ)} (h : Cnt s ds0) (d : Decl κ) :
    Cnt (addNode s d).1 (ds0 ++ [d]) := by
  unfold addNode
  cases hd : d.sink with
  | true =>
    simp only [↓reduceIte]
    refine ⟨h.nodup, ?_, ?_⟩
    · intro k
      rw [h.keys k]
      constructor
      · rintro ⟨e, he, h1, h2⟩; exact ⟨e, by simp [he], h1, h2⟩
      · rintro ⟨e, he, h1, h2⟩
        simp only [List.mem_append, List.mem_singleton] at he
        rcases he with he | he
        · exact ⟨e, he, h1, h2⟩
        · subst he; rw [hd] at h1; cases h1
    · simp only [List.filter_append, List.length_append, List.filter_cons, hd, List.filter_nil, ↓reduceIte,
        List.length_cons, List.length_nil]
      have := h.count
      omega
  | false =>
    simp only [Bool.false_eq_true, ↓reduceIte]
    cases hl : lookup s.tbl d.key with
    | some id =>
      simp only
      have hmem : d.key ∈ s.tbl.map Prod.fst := by
        by_cases hm : d.key ∈ s.tbl.map Prod.fst
        · exact hm
        · rw [(lookup_none_iff s.tbl d.key).2 hm] at hl; cases hl
      refine ⟨h.nodup, ?_, ?_⟩
      · intro k
        constructor
        · intro hk
          obtain ⟨e, he, h1, h2⟩ := (h.keys k).1 hk
          exact ⟨e, by simp [he], h1, h2⟩
        · rintro ⟨e, he, h1, h2⟩
          simp only [List.mem_append, List.mem_singleton] at he
          rcases he with he | he
          · exact (h.keys k).2 ⟨e, he, h1, h2⟩
          · subst he; rw [← h2]; exact hmem
      · simp only [List.filter_append, List.length_append, List.filter_cons, hd, List.filter_nil,
          Bool.false_eq_true, ↓reduceIte, List.length_nil]
        have := h.count
        omega
    | none =>
      simp only
      have hnot : d.key ∉ s.tbl.map Prod.fst := (lookup_none_iff s.tbl d.key).1 hl
      refine ⟨?_, ?_, ?_⟩
      · simp only [List.map_cons, List.nodup_cons]
        exact ⟨hnot, h.nodup⟩
      · intro k
        simp only [List.map_cons, List.mem_cons]
        constructor
        · rintro (hk | hk)
          · exact ⟨d, by simp, hd, hk.symm⟩
          · obtain ⟨e, he, h1, h2⟩ := (h.keys k).1 hk
            exact ⟨e, by simp [he], h1, h2⟩
        · rintro ⟨e, he, h1, h2⟩
          simp only [List.mem_append, List.mem_singleton] at he
          rcases he with he | he
          · exact Or.inr ((h.keys k).2 ⟨e, he, h1, h2⟩)
          · subst he; exact Or.inl h2.symm
      · simp only [List.filter_append, List.length_append, List.filter_cons, hd, List.filter_nil,
          Bool.false_eq_true, ↓reduceIte, List.length_nil, List.length_cons]
        have := h.count
        omega

theorem cnt_wireAll {s : St κ} {ds0 : List (Decl κ)} (h : Cnt s ds0) (ds : List (Decl κ)) :
    Cnt (wireAll s ds).1 (ds0 ++ ds) := by
  induction ds generalizing s ds0 with
  | nil => simpa [wireAll] using h
  | cons d rest ih =>
    have := ih (cnt_addNode h d)
    simpa [wireAll, List.append_assoc] using this

/-- **node count**: wiring `ds` from the empty table creates one node per sink declaration plus one node
    per distinct key of the value-producing declarations (`ks` lists those keys without repetition; any
    two such lists have the same length) -/
theorem wireAll_count (ds : List (Decl κ)) :
    ∃ ks : List κ, ks.Nodup ∧ (∀ k, k ∈ ks ↔ ∃ d ∈ ds, d.sink = false ∧ d.key = k) ∧
      (wireAll ({} : St κ) ds).1.next = (ds.filter (·.sink)).length + ks.length := by
  have h := cnt_wireAll (cnt_init (κ := κ)) ds
  simp only [List.nil_append] at h
  exact ⟨(wireAll ({} : St κ) ds).1.tbl.map Prod.fst, h.nodup, h.keys, by simpa using h.count⟩

/-! non-vacuity: `f(a)`, a sink, `f(a)` again, `f(b)`, the same sink again -/
example :
    ids [(⟨(1, 10), false⟩ : Decl (Nat × Nat)), ⟨(9, 0), true⟩, ⟨(1, 10), false⟩, ⟨(1, 20), false⟩, ⟨(9, 0), true⟩]
      = [0, 1, 0, 2, 3] := by decide

example : (⟨(1, 10), false⟩ : Decl (Nat × Nat)).sink = false ∧
    (⟨(1, 10), false⟩ : Decl (Nat × Nat)).key = (⟨(1, 10), false⟩ : Decl (Nat × Nat)).key := ⟨rfl, rfl⟩

end HgVerif.Intern
