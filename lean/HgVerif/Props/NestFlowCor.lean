import HgVerif.Props.C09Flow
import HgVerif.Props.C02Reach
import HgVerif.Props.C03Flow
import HgVerif.Props.C15Flow
/-!
# The flat-dataflow theorems of C02 / C03 / C06 / C15 hold for nested compositions

Each statement is about the NESTED execution of `Model/NestFlow.lean` (any `Tree`: any depth, any per-level ranks,
arbitrary node functions, all histories) and is obtained from the flat theorem through `nested_cycle_eq_inlined`
/ `nested_run_eq_inlined` (`Props/C09Flow.lean`).  Hypotheses are those of the flat theorem plus those of C09Flow
(`Tree.WF`, `Topo`/`TopoR` of the composed rank, a consistent idle nesting state `QI`).

* C02 `nested_wakeup_reached`       : a pending wake-up of a node of any nesting level is reached by the root's run
                                      loop: a root cycle at a time `≤` it (at it, unless an input wakes the node
                                      earlier) runs the node's user code — the loop neither ends nor passes it.
* C03 `nested_activation_exact`, `nested_writers_exact`, `nested_idle_cycle_keeps`.
* C06 `nested_run_rank_independent` : same partition into levels, different ranks at every level — same run.
* C15 `nested_noninterference`      : changing the node functions outside a producer-closed set `U` (spanning any
                                      levels) leaves state and slot of every node of `U` after a nested cycle unchanged.
-/
namespace HgVerif.NestFlow
open HgVerif.Sched HgVerif.Flow

variable {S : Type}

/-! ## C03 — activation, exactly, across boundaries -/

/-- **C03, nested**: in a root cycle at `t` the user code of node `i` (of any level) runs iff its slot — in its own
    graph — was `t`, or one of its ACTIVE producers (in this graph, an outer one, or a deeper one) ran and wrote in
    this cycle.  A passive producer (`reads` but not `prods`) or a producer that runs without writing never does. -/
theorem nested_activation_exact (F : Flow S) (fx : Bool) (T : Tree) (hwf : T.WF F.n 0)
    (hTs : Topo F (starRank F T hwf)) (hRs : TopoR F (starRank F T hwf)) (hS : SelfFuture F) (hF : Frame F)
    (t : Time) (x : G × List G) (hQ : QI F.n T 0 x) (hnow : x.1.now < t) (hnx : ∀ nx, x.1.next = some nx → t ≤ nx)
    (σ : Nat → S) (i : Nat) (hi : i < F.n) :
    i ∈ (cycleT F fx T t x.1 ⟨σ, x.2, [], [], []⟩).st.fl ↔
      (viewT T 0 x i = t ∨ ∃ p ∈ F.prods i, p ∈ (cycleT F fx T t x.1 ⟨σ, x.2, [], [], []⟩).st.wl) := by
  have hC := corr_starG F T hwf x hQ
  obtain ⟨_, _, _, c4, c5, _, _, _⟩ := nested_cycle_eq_inlined F fx T hwf hTs hRs (starRank F T hwf) hTs hRs hS hF t x
    (starG F T x) hC hnow hnx σ
  rw [c4 i hi, activation_exact F (starRank F T hwf) hTs hS fx t (starG F T x) σ hC.lenI hC.curI i hi, hC.view i hi]
  constructor
  · rintro (h | ⟨p, hp, hw⟩)
    · exact Or.inl h
    · exact Or.inr ⟨p, hp, (c5 p (hTs i hi p hp).1).mpr hw⟩
  · rintro (h | ⟨p, hp, hw⟩)
    · exact Or.inl h
    · exact Or.inr ⟨p, hp, (c5 p (hTs i hi p hp).1).mp hw⟩

/-- **C03, nested — who wrote**: exactly the nodes whose user code ran and returned a tick -/
theorem nested_writers_exact (F : Flow S) (fx : Bool) (T : Tree) (hwf : T.WF F.n 0)
    (hTs : Topo F (starRank F T hwf)) (hRs : TopoR F (starRank F T hwf)) (hS : SelfFuture F) (hF : Frame F)
    (t : Time) (x : G × List G) (hQ : QI F.n T 0 x) (hnow : x.1.now < t) (hnx : ∀ nx, x.1.next = some nx → t ≤ nx)
    (σ : Nat → S) (i : Nat) (hi : i < F.n) :
    i ∈ (cycleT F fx T t x.1 ⟨σ, x.2, [], [], []⟩).st.wl ↔
      (i ∈ (cycleT F fx T t x.1 ⟨σ, x.2, [], [], []⟩).st.fl ∧
        (evalAt F t σ (cycleT F fx T t x.1 ⟨σ, x.2, [], [], []⟩).st.σ i).2 = true) := by
  have hC := corr_starG F T hwf x hQ
  obtain ⟨_, _, c3, c4, c5, _, _, _⟩ := nested_cycle_eq_inlined F fx T hwf hTs hRs (starRank F T hwf) hTs hRs hS hF t x
    (starG F T x) hC hnow hnx σ
  rw [c5 i hi, writers_exact F (starRank F T hwf) hTs hRs hF t σ _ i hi, c4 i hi,
    activation_exact F (starRank F T hwf) hTs hS fx t (starG F T x) σ hC.lenI hC.curI i hi, c3,
    cycle_st F (starRank F T hwf) hTs hS fx t (starG F T x) σ hC.lenI hC.curI]
  unfold fires dueN
  simp [hi]

/-- **C03/C15, nested — a cycle in which a node does not take part is invisible to it**: state and slot kept -/
theorem nested_idle_cycle_keeps (F : Flow S) (fx : Bool) (T : Tree) (hwf : T.WF F.n 0)
    (hTs : Topo F (starRank F T hwf)) (hRs : TopoR F (starRank F T hwf)) (hS : SelfFuture F) (hF : Frame F)
    (t : Time) (x : G × List G) (hQ : QI F.n T 0 x) (hnow : x.1.now < t) (hnx : ∀ nx, x.1.next = some nx → t ≤ nx)
    (σ : Nat → S) (i : Nat) (hi : i < F.n) (hidle : i ∉ (cycleT F fx T t x.1 ⟨σ, x.2, [], [], []⟩).st.fl) :
    (cycleT F fx T t x.1 ⟨σ, x.2, [], [], []⟩).st.σ i = σ i ∧
    viewT T 0 ((cycleT F fx T t x.1 ⟨σ, x.2, [], [], []⟩).g, (cycleT F fx T t x.1 ⟨σ, x.2, [], [], []⟩).st.gs) i = viewT T 0 x i := by
  have hC := corr_starG F T hwf x hQ
  obtain ⟨_, _, c3, c4, _, c6, _, _⟩ := nested_cycle_eq_inlined F fx T hwf hTs hRs (starRank F T hwf) hTs hRs hS hF t x
    (starG F T x) hC hnow hnx σ
  have hnf : ¬ fires F (dueN F (starRank F T hwf) (starG F T x) t)
      (denSeq F (starRank F T hwf) t (dueN F (starRank F T hwf) (starG F T x) t) F.n 0 σ [] []).2.1 i := by
    intro hf
    apply hidle
    rw [c4 i hi, activation_exact F (starRank F T hwf) hTs hS fx t (starG F T x) σ hC.lenI hC.curI i hi]
    unfold fires at hf
    rcases hf with hd | hp
    · left
      unfold dueN at hd
      simpa [hi] using hd
    · exact Or.inr hp
  obtain ⟨k1, k2⟩ := idle_cycle_keeps F (starRank F T hwf) hTs hRs hS hF fx t (starG F T x) σ hC.lenI hC.curI i hi hnf
  exact ⟨by rw [c3]; exact k1, by rw [c6.view i hi, k2, hC.view i hi]⟩

/-! ## C06 — the ranks of the levels are not observable -/

/-- the nesting with cut points `cuts` (outermost first), level ranks `rks` and leaf rank `rl` -/
def chain : List Nat → List Rk → Rk → Tree
  | [], _, rl => .leaf rl
  | c :: cs, rks, rl => .node c (rks.headD ⟨id, id⟩) (chain cs rks.tail rl)

/-- **C06, nested**: ONE partition of the program into nesting levels (`cuts`), TWO assignments of ranks to the
    levels (`rks₁`/`rl₁` and `rks₂`/`rl₂`, every one topological in the composed sense): the runs visit the same
    cycle times and end with the same state of every node — as does the inlined program under any rank `ρ`. -/
theorem nested_run_rank_independent (F : Flow S) (fx : Bool) (cuts : List Nat) (rks₁ rks₂ : List Rk) (rl₁ rl₂ : Rk)
    (hwf₁ : (chain cuts rks₁ rl₁).WF F.n 0) (hwf₂ : (chain cuts rks₂ rl₂).WF F.n 0)
    (hT₁ : Topo F (starRank F (chain cuts rks₁ rl₁) hwf₁)) (hR₁ : TopoR F (starRank F (chain cuts rks₁ rl₁) hwf₁))
    (hT₂ : Topo F (starRank F (chain cuts rks₂ rl₂) hwf₂)) (hR₂ : TopoR F (starRank F (chain cuts rks₂ rl₂) hwf₂))
    (ρ : Rank F.n) (hTρ : Topo F ρ) (hRρ : TopoR F ρ) (hS : SelfFuture F) (hF : Frame F)
    (endT : Time) (fuel : Nat) (x₁ x₂ : G × List G) (gI : G)
    (hC₁ : Corr F (chain cuts rks₁ rl₁) ρ x₁ gI) (hC₂ : Corr F (chain cuts rks₂ rl₂) ρ x₂ gI)
    (σ : Nat → S) (ts : List Time) :
    (simT F fx (chain cuts rks₁ rl₁) endT fuel x₁.1 ⟨σ, x₁.2, [], [], []⟩ ts).times =
      (simT F fx (chain cuts rks₂ rl₂) endT fuel x₂.1 ⟨σ, x₂.2, [], [], []⟩ ts).times ∧
    (simT F fx (chain cuts rks₁ rl₁) endT fuel x₁.1 ⟨σ, x₁.2, [], [], []⟩ ts).st.σ =
      (simT F fx (chain cuts rks₂ rl₂) endT fuel x₂.1 ⟨σ, x₂.2, [], [], []⟩ ts).st.σ ∧
    (simT F fx (chain cuts rks₁ rl₁) endT fuel x₁.1 ⟨σ, x₁.2, [], [], []⟩ ts).ok =
      (simT F fx (chain cuts rks₂ rl₂) endT fuel x₂.1 ⟨σ, x₂.2, [], [], []⟩ ts).ok ∧
    (simT F fx (chain cuts rks₁ rl₁) endT fuel x₁.1 ⟨σ, x₁.2, [], [], []⟩ ts).times =
      (simLoop fx (beh F ρ) F.n endT fuel gI σ ts).times :=
  ⟨(nested_depth_irrelevant_flow F fx _ _ hwf₁ hwf₂ hT₁ hR₁ hT₂ hR₂ ρ hTρ hRρ hS hF endT fuel x₁ x₂ gI hC₁ hC₂ σ
      [] [] [] [] [] [] ts).1,
   (nested_depth_irrelevant_flow F fx _ _ hwf₁ hwf₂ hT₁ hR₁ hT₂ hR₂ ρ hTρ hRρ hS hF endT fuel x₁ x₂ gI hC₁ hC₂ σ
      [] [] [] [] [] [] ts).2.1,
   (nested_depth_irrelevant_flow F fx _ _ hwf₁ hwf₂ hT₁ hR₁ hT₂ hR₂ ρ hTρ hRρ hS hF endT fuel x₁ x₂ gI hC₁ hC₂ σ
      [] [] [] [] [] [] ts).2.2,
   (nested_run_eq_inlined F fx _ hwf₁ hT₁ hR₁ ρ hTρ hRρ hS hF endT fuel x₁ gI hC₁ σ [] [] [] ts).1⟩

/-! ## C15 — non-interference across boundaries -/

/-- **C15, nested**: `U` is closed under "producer of"/"read by" (it may span several nesting levels).  The second
    program has the same nodes and edges, the same node functions and self-schedules ON `U`, anything elsewhere; it
    may be nested differently (`T₂`).  From nesting states that show every node of `U` the same slot and node states
    that agree on `U`, after a root cycle at `t` every node of `U` holds the same state and sees the same slot. -/
theorem nested_noninterference (F : Flow S) (f' : Nat → (Nat → S) → Time → S × Bool) (s' : Nat → S → Time → List Time)
    (fx : Bool) (T₁ T₂ : Tree) (hwf₁ : T₁.WF F.n 0) (hwf₂ : T₂.WF F.n 0)
    (hT₁ : Topo F (starRank F T₁ hwf₁)) (hR₁ : TopoR F (starRank F T₁ hwf₁))
    (hT₂ : Topo F (starRank F T₂ hwf₂)) (hR₂ : TopoR F (starRank F T₂ hwf₂))
    (hS : SelfFuture F) (hS' : SelfFuture (withF F f' s')) (hF : Frame F) (hF' : Frame (withF F f' s'))
    (U : Nat → Prop) (hU : UpClosed F U) (hagree : ∀ i, U i → F.f i = f' i) (hagreeS : ∀ i, U i → F.selfReq i = s' i)
    (t : Time) (x₁ x₂ : G × List G) (hQ₁ : QI F.n T₁ 0 x₁) (hQ₂ : QI F.n T₂ 0 x₂)
    (hnow₁ : x₁.1.now < t) (hnx₁ : ∀ nx, x₁.1.next = some nx → t ≤ nx)
    (hnow₂ : x₂.1.now < t) (hnx₂ : ∀ nx, x₂.1.next = some nx → t ≤ nx)
    (σ σ' : Nat → S) (h0 : ∀ i, U i → σ i = σ' i)
    (hV : ∀ i, i < F.n → U i → viewT T₁ 0 x₁ i = viewT T₂ 0 x₂ i) :
    (∀ i, i < F.n → U i →
      (cycleT F fx T₁ t x₁.1 ⟨σ, x₁.2, [], [], []⟩).st.σ i =
        (cycleT (withF F f' s') fx T₂ t x₂.1 ⟨σ', x₂.2, [], [], []⟩).st.σ i) ∧
    (∀ i, i < F.n → U i →
      viewT T₁ 0 ((cycleT F fx T₁ t x₁.1 ⟨σ, x₁.2, [], [], []⟩).g, (cycleT F fx T₁ t x₁.1 ⟨σ, x₁.2, [], [], []⟩).st.gs) i =
        viewT T₂ 0 ((cycleT (withF F f' s') fx T₂ t x₂.1 ⟨σ', x₂.2, [], [], []⟩).g,
          (cycleT (withF F f' s') fx T₂ t x₂.1 ⟨σ', x₂.2, [], [], []⟩).st.gs) i) := by
  have hwf₂' : T₂.WF (withF F f' s').n 0 := hwf₂
  have hT₂' : Topo (withF F f' s') (starRank (withF F f' s') T₂ hwf₂') := hT₂
  have hR₂' : TopoR (withF F f' s') (starRank (withF F f' s') T₂ hwf₂') := hR₂
  have hC₁ := corr_starG F T₁ hwf₁ x₁ hQ₁
  have hC₂ := corr_starG (withF F f' s') T₂ hwf₂' x₂ hQ₂
  obtain ⟨_, _, a3, _, _, a6, _, _⟩ := nested_cycle_eq_inlined F fx T₁ hwf₁ hT₁ hR₁ (starRank F T₁ hwf₁) hT₁ hR₁ hS hF t x₁
    (starG F T₁ x₁) hC₁ hnow₁ hnx₁ σ
  obtain ⟨_, _, b3, _, _, b6, _, _⟩ := nested_cycle_eq_inlined (withF F f' s') fx T₂ hwf₂' hT₂' hR₂'
    (starRank (withF F f' s') T₂ hwf₂') hT₂' hR₂' hS' hF' t x₂ (starG (withF F f' s') T₂ x₂) hC₂ hnow₂ hnx₂ σ'
  have hVI : SameViewOn F U (starRank F T₁ hwf₁) (starRank F T₂ hwf₂) (starG F T₁ x₁) (starG (withF F f' s') T₂ x₂) := by
    intro i hi hUi
    rw [← hC₁.view i hi, hV i hi hUi]
    exact hC₂.view i hi
  obtain ⟨n1, n2⟩ := cycle_noninterference F f' s' (starRank F T₁ hwf₁) (starRank F T₂ hwf₂) hT₁ hT₂ hR₁ hR₂ hS hS' hF hF'
    U hU hagree hagreeS fx t (starG F T₁ x₁) (starG (withF F f' s') T₂ x₂) σ σ' hC₁.lenI hC₂.lenI hC₁.curI hC₂.curI h0 hVI
  refine ⟨fun i hi hUi => ?_, fun i hi hUi => ?_⟩
  · rw [a3, b3]; exact n1 i hi hUi
  · rw [a6.view i hi, b6.view i hi]; exact n2 i hi hUi

/-! ## C02 — a pending wake-up of a node of any level is reached -/

/-- what happens first to node `i` along the ROOT's run loop (the loop of `simT`; the ghost logs are read per cycle) -/
def firstRunT (F : Flow S) (fx : Bool) (T : Tree) (endT : Time) (i : Nat) : Nat → G × List G → (Nat → S) → Outcome
  | 0, _, _ => .fuel
  | fuel + 1, x, σ =>
    match nextCycle x.1 endT with
    | none => .ended
    | some t =>
      let r := cycleT F fx T t x.1 ⟨σ, x.2, [], [], []⟩
      if i ∈ r.st.fl then .evaluated t
      else if r.ok then firstRunT F fx T endT i fuel (r.g, r.st.gs) r.st.σ
      else .failed t

theorem ownFuture_beh (F : Flow S) (ρ : Rank F.n) (j : Nat) : OwnFuture (beh F ρ) F.n j := by
  intro i hi hne t u r hr hrj
  simp only [beh, List.mem_append, List.mem_map] at hr
  rcases hr with hr | ⟨T', _, rfl⟩
  · split at hr
    · obtain ⟨c, hc, rfl⟩ := List.mem_map.mp hr
      rfl
    · simp at hr
  · exact absurd hrj hne

/-- the root's loop and the inlined loop meet node `i` first in the same way -/
theorem firstRunT_eq_firstEval (F : Flow S) (fx : Bool) (T : Tree) (hwf : T.WF F.n 0)
    (hTs : Topo F (starRank F T hwf)) (hRs : TopoR F (starRank F T hwf))
    (ρ : Rank F.n) (hTρ : Topo F ρ) (hRρ : TopoR F ρ) (hS : SelfFuture F) (hF : Frame F)
    (endT : Time) (i : Nat) (hi : i < F.n) (fuel : Nat) (x : G × List G) (gI : G) (hC : Corr F T ρ x gI) (σ : Nat → S) :
    firstRunT F fx T endT i fuel x σ = firstEval fx (beh F ρ) F.n endT (ρ.posOf i) fuel gI σ := by
  induction fuel generalizing x gI σ with
  | zero => rfl
  | succ fuel ih =>
    have hnc : nextCycle x.1 endT = nextCycle gI endT := by unfold nextCycle; rw [hC.next]
    rw [firstRunT, firstEval, hnc]
    cases hn : nextCycle gI endT with
    | none => rfl
    | some t =>
      simp only
      have hnext : x.1.next = some t := by
        rw [← hnc] at hn
        unfold nextCycle at hn
        cases hx : x.1.next with
        | none => simp [hx] at hn
        | some nx =>
          simp only [hx] at hn
          split at hn
          · cases hn
          · injection hn with hn; rw [hn]
      have hnow : x.1.now < t := ((QI_len F.n T 0 x hC.qi).2.2.isSlot t hnext).1
      obtain ⟨c1, c2, c3, c4, _, c6, _, _⟩ := nested_cycle_eq_inlined F fx T hwf hTs hRs ρ hTρ hRρ hS hF t x gI hC hnow
        (fun nx h => by rw [hnext] at h; injection h with h; omega) σ
      by_cases hev : ρ.posOf i ∈ (cycle fx (beh F ρ) F.n t gI σ).evaluated
      · rw [if_pos ((c4 i hi).mpr hev), if_pos hev]
      · rw [if_neg (fun h => hev ((c4 i hi).mp h)), if_neg hev, c1, c2]
        simp only [↓reduceIte]
        rw [c3]
        exact ih _ _ c6 _

/-- **C02, nested**: the nesting is in a consistent idle state, node `i` — of any nesting level — is armed (the slot
    it has in its own graph) for `s` with `now < s < end`.  Then along the ROOT's run loop, for every cycle budget
    `≥ s - now`, the first thing that happens to `i` is a root cycle at some `t'` with `now < t' ≤ s` in which `i`'s
    user code runs — at `s` itself unless an input wakes it earlier.  The loop neither ends, nor passes `s`, nor
    fails before that. -/
theorem nested_wakeup_reached (F : Flow S) (fx : Bool) (T : Tree) (hwf : T.WF F.n 0)
    (hTs : Topo F (starRank F T hwf)) (hRs : TopoR F (starRank F T hwf)) (hS : SelfFuture F) (hF : Frame F)
    (endT s : Time) (hse : s < endT) (fuel : Nat) (x : G × List G) (hQ : QI F.n T 0 x) (σ : Nat → S)
    (i : Nat) (hi : i < F.n) (hs : viewT T 0 x i = s) (hnow : x.1.now < s) (hfuel : s - x.1.now ≤ fuel) :
    ∃ t', firstRunT F fx T endT i fuel x σ = .evaluated t' ∧ x.1.now < t' ∧ t' ≤ s := by
  have hC := corr_starG F T hwf x hQ
  have hci := flat_cinv F.n T 0 hwf x hQ (starG F T x) (fun j _ hj => hC.view j hj) rfl rfl
  have hpos := ((starRank F T hwf).right i hi).2
  have hslot : slotOf (starG F T x) ((starRank F T hwf).posOf i) = s := by rw [← hC.view i hi]; exact hs
  obtain ⟨nx, h1, h2⟩ := hci.lower _ hpos (by rw [hslot]; exact hnow)
  have h3 := (hci.isSlot nx h1).1
  rw [hslot] at h2
  rw [firstRunT_eq_firstEval F fx T hwf hTs hRs (starRank F T hwf) hTs hRs hS hF endT i hi fuel x (starG F T x) hC σ]
  have W := wakeup_reached fx (beh F (starRank F T hwf)) F.n (disc_beh F _ hTs hS) _ hpos (ownFuture_beh F _ _)
    endT s hse fuel (starG F T x) σ hC.lenI hC.curI hslot hnow ⟨nx, h1, h3, h2⟩ hfuel
  rcases W with W | ⟨t', hf, _, _⟩
  · exact W
  · -- a flat dataflow cycle never fails
    exfalso
    have key : ∀ (fuel : Nat) (g : G) (u : Nat → S), g.slots.length = F.n → g.cursor = 0 → ∀ t',
        firstEval fx (beh F (starRank F T hwf)) F.n endT ((starRank F T hwf).posOf i) fuel g u ≠ .failed t' := by
      intro fuel
      induction fuel with
      | zero => intro g u _ _ t' h; simp [firstEval] at h
      | succ fuel ih =>
        intro g u hl hc t' h
        rw [firstEval] at h
        cases hn : nextCycle g endT with
        | none => rw [hn] at h; simp at h
        | some t =>
          rw [hn] at h
          simp only at h
          have hok := cycle_ok F (starRank F T hwf) hTs hS fx t g u hl hc
          by_cases hev : (starRank F T hwf).posOf i ∈ (cycle fx (beh F (starRank F T hwf)) F.n t g u).evaluated
          · rw [if_pos hev] at h; cases h
          · rw [if_neg hev, hok] at h
            simp only [↓reduceIte] at h
            rw [cycle_fresh _ _ _ _ _ _ hc] at hok h
            exact ih _ _ (scanFrom_length _ F.n t F.n 0 _ u [] (by simpa using hl) hok)
              (scanFrom_cursor_zero _ t F.n 0 _ u [] hok) t' h
    exact key fuel _ σ hC.lenI hC.curI t' hf

end HgVerif.NestFlow

/-! ## non-vacuity, on `exN` / `T1` / `T2` of `Props/C09Flow.lean` -/
namespace HgVerif.NestFlow.Ex
open HgVerif.Sched HgVerif.Flow HgVerif.NestFlow

theorem topoT1 : Topo exN (starRank exN T1 wfT1) := by unfold Topo; decide
theorem topoRT1 : TopoR exN (starRank exN T1 wfT1) := by unfold TopoR; decide
theorem topoT2 : Topo exN (starRank exN T2 wfT2) := by unfold Topo; decide
theorem topoRT2 : TopoR exN (starRank exN T2 wfT2) := by unfold TopoR; decide
theorem sfN : SelfFuture exN := by
  intro i s t T h
  simp only [exN] at h
  split at h
  · simp at h; omega
  · split at h
    · simp at h; omega
    · simp at h
/-- `exN` with node 4 (the child's timer) replaced by `f4` -/
def fWith (f4 : (Nat → Nat) → Time → Nat × Bool) : Nat → (Nat → Nat) → Time → Nat × Bool :=
  fun i σ t => if i = 4 then f4 σ t else exN.f i σ t
theorem frame_with (f4 : (Nat → Nat) → Time → Nat × Bool) (h4 : ∀ σ σ' t, σ 4 = σ' 4 → f4 σ t = f4 σ' t) :
    Frame (withF exN (fWith f4) exN.selfReq) := by
  intro i σ σ' t h
  show fWith f4 i σ t = fWith f4 i σ' t
  unfold fWith
  by_cases h4' : i = 4
  · subst h4'; simp only [↓reduceIte]; exact h4 σ σ' t (h 4 (Or.inl rfl))
  · rw [if_neg h4', if_neg h4']
    have hr : ∀ j, (j = i ∨ j ∈ exN.reads i) → σ j = σ' j := h
    simp only [exN] at hr ⊢
    by_cases h0 : i = 0
    · subst h0; simp [hr 0 (Or.inl rfl)]
    · by_cases h1 : i = 1
      · subst h1
        have a := hr 1 (Or.inl rfl); have b := hr 3 (Or.inr (by simp))
        simp [a, b]
      · by_cases h2 : i = 2
        · subst h2
          have a := hr 2 (Or.inl rfl); have b := hr 0 (Or.inr (by simp))
          simp [a, b]
        · by_cases h3 : i = 3
          · subst h3
            have a := hr 2 (Or.inr (by simp)); have b := hr 4 (Or.inr (by simp)); have c := hr 0 (Or.inr (by simp))
            simp [a, b, c]
          · simp [h0, h1, h2, h3, h4', hr i (Or.inl rfl)]
theorem fWith_self : fWith (exN.f 4) = exN.f := by
  funext i σ t; unfold fWith; split
  · rename_i h; rw [h]
  · rfl
theorem frN : Frame exN := by
  have := frame_with (exN.f 4) (by intro σ σ' t h; simp [exN, h])
  rw [fWith_self] at this
  exact this

theorem cinv_any (g : G) (sz : Nat) (a : Time) (hnow : g.now = 0) (hnext : g.next = some a) (ha : 0 < a)
    (hl : ∀ j, j < sz → 0 < slotOf g j → a ≤ slotOf g j) (hs : ∃ j, j < sz ∧ slotOf g j = a) : CInv g.now sz g := by
  rw [hnow]
  refine ⟨hnow, fun j hj h => ⟨a, hnext, hl j hj h⟩, fun nx h => ?_⟩
  rw [hnext] at h; injection h with h; subst h
  exact ⟨ha, hs⟩

/-- C02: src due at 1, the child's timer (node 4) armed for 4, so the nested node's slot is 4 -/
def gA : G := { slots := [1, 4, 0], next := some 1 }
def gcA : G := { slots := [0, 4, 0], next := some 4 }
theorem qiA : QI exN.n T1 0 (gA, [gcA]) := by
  refine ⟨rfl, rfl, cinv_any gA 3 1 rfl rfl (by decide) (by decide) ⟨0, by decide, rfl⟩, Nat.le_refl _, ?_,
    ⟨rfl, rfl, cinv_any gcA 3 4 rfl rfl (by decide) (by decide) ⟨1, by decide, rfl⟩⟩⟩
  refine ⟨fun nx h => ?_, fun h => by cases h⟩
  have : nx = 4 := by
    have h' : (some 4 : Option Time) = some nx := h
    injection h' with h'; exact h'.symm
  subst this; exact ⟨rfl, by decide⟩
/-- the root cycles at 1 and 3 (src) without the child, then at 4 — where the timer inside the nested graph runs -/
example : firstRunT exN true T1 20 4 10 (gA, [gcA]) (fun _ => 0) = .evaluated 4 := by decide
example : ∃ t', firstRunT exN true T1 20 4 10 (gA, [gcA]) (fun _ => 0) = .evaluated t' ∧ 0 < t' ∧ t' ≤ 4 :=
  nested_wakeup_reached exN true T1 wfT1 topoT1 topoRT1 sfN frN 20 4 (by decide) 10 (gA, [gcA]) qiA _ 4 (by decide)
    (by decide) (by decide) (by decide)

/-- C03: at depth 2, in the first cycle the sink (node 1, root graph) was not due; it runs because its active producer
    3 — two levels down — ran and wrote -/
example :
    let c := cycleT exN true T2 1 g0 ⟨fun _ => 0, [g1, g2], [], [], []⟩
    (1 ∈ c.st.fl ∧ viewT T2 0 (g0, [g1, g2]) 1 ≠ 1 ∧ 3 ∈ exN.prods 1 ∧ 3 ∈ c.st.wl) := by decide
example : 1 ∈ (cycleT exN true T2 1 g0 ⟨fun _ => 0, [g1, g2], [], [], []⟩).st.fl ↔
    (viewT T2 0 (g0, [g1, g2]) 1 = 1 ∨ ∃ p ∈ exN.prods 1, p ∈ (cycleT exN true T2 1 g0 ⟨fun _ => 0, [g1, g2], [], [], []⟩).st.wl) :=
  nested_activation_exact exN true T2 wfT2 topoT2 topoRT2 sfN frN 1 (g0, [g1, g2]) corrT2.qi (by decide)
    (fun nx h => by cases h; exact Nat.le_refl _) _ 1 (by decide)

/-- C06: the same partition `[2]`, the child ranked acc, timer, pass (`rkC`) or timer, acc, pass (`rkC'`) -/
def rkC' : Rk := ⟨perm [2, 0, 1], perm [1, 2, 0]⟩
def gc0' : G := { slots := [1, 0, 0], next := some 1 }
example : chain [2] [rkP] rkC = T1 := rfl
theorem wfT1' : (chain [2] [rkP] rkC').WF exN.n 0 := by unfold chain chain Tree.WF Tree.WF RkOK; decide
theorem corrT1' : Corr exN (chain [2] [rkP] rkC') (starRank exN T1 wfT1) (g0, [gc0']) gI0 := by
  refine ⟨⟨rfl, rfl, cinv_ex g0 3 rfl rfl (by decide) ⟨0, by decide, rfl⟩, Nat.le_refl _, ?_,
    ⟨rfl, rfl, cinv_ex gc0' 3 rfl rfl (by decide) ⟨0, by decide, rfl⟩⟩⟩, rfl, rfl, by decide, rfl⟩
  refine ⟨fun nx h => ?_, fun h => by cases h⟩
  have : nx = 1 := by
    have h' : (some 1 : Option Time) = some nx := h
    injection h' with h'; exact h'.symm
  subst this; exact ⟨rfl, by decide⟩
example : (simT exN true (chain [2] [rkP] rkC) 8 20 g0 ⟨fun _ => 0, [gc0], [], [], []⟩ []).times =
    (simT exN true (chain [2] [rkP] rkC') 8 20 g0 ⟨fun _ => 0, [gc0'], [], [], []⟩ []).times :=
  (nested_run_rank_independent exN true [2] [rkP] [rkP] rkC rkC' wfT1 wfT1' topoT1 topoRT1
    (by unfold Topo; decide) (by unfold TopoR; decide) (starRank exN T1 wfT1) topoT1 topoRT1 sfN frN 8 20
    (g0, [gc0]) (g0, [gc0']) gI0 corrT1 corrT1' (fun _ => 0) []).1
example : (simT exN true (chain [2] [rkP] rkC') 8 20 g0 ⟨fun _ => 0, [gc0'], [], [], []⟩ []).times = [1, 3, 4, 5, 7] := by decide

/-- C15: `U = {0, 2}` (src and acc — the outer producer and the child node that reads it) is closed under producers;
    the child's timer (node 4) is replaced by a node that keeps its state and writes nothing; the second program is
    nested two deep, the first one deep -/
def idle4 : (Nat → Nat) → Time → Nat × Bool := fun σ _ => (σ 4, false)
theorem upU : UpClosed exN (fun i => i = 0 ∨ i = 2) := by
  intro i hi hU
  rcases hU with rfl | rfl
  · exact ⟨fun p hp => by simp [exN] at hp, fun p hp => by simp [exN] at hp⟩
  · exact ⟨fun p hp => by simp [exN] at hp; exact Or.inl hp, fun p hp => by simp [exN] at hp; exact Or.inl hp⟩
example : ∀ i, i < exN.n → (i = 0 ∨ i = 2) →
    (cycleT exN true T1 1 g0 ⟨fun _ => 0, [gc0], [], [], []⟩).st.σ i =
      (cycleT (withF exN (fWith idle4) exN.selfReq) true T2 1 g0 ⟨fun _ => 0, [g1, g2], [], [], []⟩).st.σ i :=
  (nested_noninterference exN (fWith idle4) exN.selfReq true T1 T2 wfT1 wfT2 topoT1 topoRT1 topoT2 topoRT2 sfN sfN frN
    (frame_with idle4 (by intro σ σ' t h; simp [idle4, h])) (fun i => i = 0 ∨ i = 2) upU
    (by intro i h; funext σ t; unfold fWith; rcases h with rfl | rfl <;> simp) (fun _ _ => rfl)
    1 (g0, [gc0]) (g0, [g1, g2]) corrT1.qi corrT2.qi (by decide) (fun nx h => by cases h; exact Nat.le_refl _)
    (by decide) (fun nx h => by cases h; exact Nat.le_refl _) (fun _ => 0) (fun _ => 0) (fun _ _ => rfl) (by decide)).1
example : [0, 2].map (cycleT exN true T1 1 g0 ⟨fun _ => 0, [gc0], [], [], []⟩).st.σ =
    [0, 2].map (cycleT (withF exN (fWith idle4) exN.selfReq) true T2 1 g0 ⟨fun _ => 0, [g1, g2], [], [], []⟩).st.σ := by decide

end HgVerif.NestFlow.Ex
