import HgVerif.Lemmas.Sched
import HgVerif.Model.Tie
/-!
# C15 — captured errors do not disturb later cycles (the scan's cursor / resume rule)

`evaluate_impl` keeps the evaluation cursor on the failing node when an exception escapes a node.
A captured failure (try_except, map_ error capture) therefore leaves a nested graph with a
non-zero cursor.  The repaired rule (`fix:` commit, tied by `Tie.tie_resumeChecksFailed`) never
takes a failed evaluation for a paused one:

* `failed_cycle_restarts` — after a failed evaluation the next one is a fresh full scan from node 0
  with the per-cycle set-up redone, for arbitrary node behaviours (*later cycles are normal*).
* `fresh_cycle_scans_all` — what "fresh full scan" gives: only indices `< n`, starting at 0.
* `stale_cursor_skips_prefix` — the pre-fix rule, for every behaviour: with the cursor left on
  `k > 0` no node below `k` is evaluated in the next cycle (the defect F1), and
  `stale_cursor_witness` exhibits it concretely.
-/
namespace HgVerif.Sched

/-- **later cycles are normal**: with the repaired rule a failed evaluation is followed by a fresh
    scan of the whole node array, whatever the cursor was left on. -/
theorem failed_cycle_restarts {σ : Type} (β : Beh σ) (n : Nat) (t : Time) (g : G) (u : σ) (hf : g.failed = true) :
    cycle true β n t g u =
      scanFrom β t n 0 { g with now := t, failed := false, next := none, cursor := 0 } u [] := by
  simp [cycle, resuming, hf]

/-- a completed evaluation leaves the cursor at 0, so the next one is fresh under either rule -/
theorem fresh_when_cursor_zero {σ : Type} (fx : Bool) (β : Beh σ) (n : Nat) (t : Time) (g : G) (u : σ)
    (hc : g.cursor = 0) :
    cycle fx β n t g u =
      scanFrom β t n 0 { g with now := t, failed := false, next := none, cursor := 0 } u [] := by
  cases fx <;> simp [cycle, resuming, hc]

/-- a fresh scan evaluates only nodes of the graph -/
theorem fresh_cycle_scans_all {σ : Type} (β : Beh σ) (n : Nat) (t : Time) (g : G) (u : σ) :
    ∀ x ∈ (scanFrom β t n 0 g u []).evaluated, x < n := by
  intro x hx
  rcases scanFrom_evaluated_lt β t n 0 g u [] x hx with h | h
  · simp at h
  · omega

/-- **the defect F1, in general**: under the pre-fix rule a cursor left on `k` makes the next
    evaluation skip every node below `k`, for every node behaviour. -/
theorem stale_cursor_skips_prefix {σ : Type} (β : Beh σ) (n : Nat) (t : Time) (g : G) (u : σ)
    (hk : g.cursor ≠ 0) : ∀ x ∈ (cycle false β n t g u).evaluated, g.cursor ≤ x := by
  intro x hx
  have hres : resuming false g = true := by simp [resuming, hk]
  simp only [cycle, hres, ↓reduceIte] at hx
  rcases scanFrom_evaluated_ge β t _ _ _ u [] x hx with h | h
  · simp at h
  · exact h

/-- two nodes both due at `t`; the previous evaluation failed on node 1 -/
def witnessG : G := { slots := [5, 5], next := none, now := 4, cursor := 1, failed := true }
def witnessBeh : Beh Unit := ⟨fun _ _ u => { st := u }⟩

/-- concrete witness: the old rule evaluates only node 1, the repaired rule evaluates 0 and 1 -/
theorem stale_cursor_witness :
    (cycle false witnessBeh 2 5 witnessG ()).evaluated = [1] ∧
    (cycle true witnessBeh 2 5 witnessG ()).evaluated = [0, 1] := by decide

end HgVerif.Sched
