import HgVerif.Model.Runs
import HgVerif.Model.Engine
/-!
# C07 — simulation runs are reproducible and isolated (the part a theorem can carry)

* `interleave_independent` : executors that own their state produce, under EVERY interleaving of
  their steps, exactly the trace each would produce running alone.
* `intern_history_free`    : what a registry lookup returns is determined by the key alone, whatever was
  registered before and in whatever order.
* `run_is_function`        : the engine model's run is a function of the compiled program (no wall-clock
  term occurs in it at all): two executors made from one recipe give the same trace.

**Partial.** That the C++ runtime really has no hidden shared mutable state (statics, caches, data
races) is established only by the differential runs of the correspondence (same case re-run from
one builder, after other builds/runs, and on several threads at once — `rerun` / `runpar` lines);
no ThreadSanitizer build is part of the check.
-/
namespace HgVerif.Runs

theorem project_cons_same {ο : Type} (i : Nat) (o : ο) (tr : List (Nat × ο)) :
    project i ((i, o) :: tr) = o :: project i tr := by simp [project]

theorem project_cons_other {ο : Type} (i j : Nat) (o : ο) (tr : List (Nat × ο)) (h : j ≠ i) :
    project i ((j, o) :: tr) = project i tr := by simp [project, h]

/-- **isolation**: for every schedule, the projection of the interleaved run onto executor `i` is the
    run of `i` alone for as many steps as `i` was scheduled -/
theorem interleave_independent {σ ο : Type} (e : Nat → Exec σ ο) (st : Nat → σ) (sched : List Nat) (i : Nat) :
    project i (runInterleaved e st sched) = runAlone (e i) (sched.count i) (st i) := by
  induction sched generalizing st with
  | nil => simp [runInterleaved, project, runAlone]
  | cons j rest ih =>
    unfold runInterleaved
    simp only
    by_cases hji : j = i
    · subst hji
      rw [project_cons_same, List.count_cons_self, runAlone]
      rw [ih]
      first | rfl | simp
    · rw [project_cons_other i j _ _ hji, List.count_cons_of_ne (by simpa using hji), ih]
      have : ¬ i = j := fun h => hji h.symm
      simp only [this, ↓reduceIte]

theorem find_internAll {κ ν : Type} [DecidableEq κ] (mk : κ → ν) (t : List (κ × ν)) (ks : List κ) (k : κ)
    (ht : ∀ k' v, find t k' = some v → v = mk k') :
    (∀ k' v, find (internAll mk t ks) k' = some v → v = mk k') := by
  induction ks generalizing t with
  | nil => exact ht
  | cons k0 rest ih =>
    apply ih
    intro k' v hv
    have hv' : find (intern mk t k0).1 k' = some v := hv
    unfold intern at hv'
    cases hf : find t k0 with
    | some v0 => rw [hf] at hv'; exact ht k' v hv'
    | none =>
      rw [hf] at hv'
      have hv := hv'
      simp only [find] at hv
      by_cases h : k0 = k'
      · subst h; simp at hv; exact hv.symm
      · simp [h] at hv; exact ht k' v hv

/-- **registries do not leak history**: after any sequence of earlier registrations, interning `k`
    returns `mk k` -/
theorem intern_history_free {κ ν : Type} [DecidableEq κ] (mk : κ → ν) (ks : List κ) (k : κ) :
    (intern mk (internAll mk [] ks) k).2 = mk k := by
  unfold intern
  cases hf : find (internAll mk [] ks) k with
  | none => rfl
  | some v =>
    exact find_internAll mk [] ks k (by intro k' v h; simp [find] at h) k v hf

/-- the engine model's run depends on nothing but the compiled program and the cycle bound -/
theorem run_is_function (p q : HgVerif.Engine.CProg) (n : Nat) (h : p = q) :
    HgVerif.Engine.runProg p n = HgVerif.Engine.runProg q n := by rw [h]

/-! non-vacuity -/
example : project 1 (runInterleaved (fun _ => (⟨fun s => (s + 1, s)⟩ : Exec Nat Nat)) (fun j => 10 * j) [0, 1, 1, 0, 2, 1]) =
    [10, 11, 12] := by decide
example : runAlone (⟨fun s => (s + 1, s)⟩ : Exec Nat Nat) 3 10 = [10, 11, 12] := by decide

end HgVerif.Runs
