import HgVerif.Lemmas.Dispatch
import HgVerif.Lemmas.DispatchRank
import HgVerif.Lemmas.DispatchNamed
import HgVerif.Model.DispatchStruct
/-!
# C19 — operator resolution picks the unique most specific match, whatever the registration order

Property theorems only (helpers live in `Lemmas/Dispatch.lean`, `Lemmas/DispatchRank.lean`).
The model is `Model/Dispatch.lean`: `resolveCall` = candidate loop (`survivors`), stable sort by
rank, tie at the best rank is an error.

Floor
* `resolve_perm_invariant`  : for every overload list and every permutation of it, `resolveCall`
                              returns the same winner (same candidate, same bindings, same rank, same
                              output) / the same error class (the tied sets are permutations).
* `winner_unique_min`       : the winner matches the arguments and its rank is strictly below every
                              other survivor's; no survivor ⇒ no-match; a shared minimum ⇒ ambiguity.
  `resolve_noMatch_iff`, `resolve_winner_iff`, `resolve_ambiguous_iff`, `resolve_total` make this an
  exact characterisation (`resolveCall` *is* "the unique strict minimum of the survivors").
* `match_sound`             : `inMatch p c m = some m'` ⇒ `m ⊆ m'`, every variable of `p` is bound in
                              `m'`, and `p` accepts `c` under `m'` (`inst`); `matchArgs_sound` /
                              `survivor_sound`: ONE map does that for every parameter position.
  `inst_subst_deref` / `inst_subst_exact`: substituting that map into the pattern gives the supplied
                              schema up to REF transparency (`derefAll`) — exactly, unless the resolved
                              type contains one of the code's two wildcards (`SIGNAL`, size-0 `TSL`).
* bundles are NOMINAL (a bundle type = optional name + field list; `Model/Dispatch.lean`): `inst` demands of a
  whole-time-series variable `~T` that it is bound to EXACTLY the schema at its position.
  `var_bound_to_position_type` / `repeated_var_same_type` / `winner_var_one_type`: after a successful match the ONE
                              map binds `~T` to the (REF-stripped) argument sub-schema at EVERY position of `~T`
                              (`varSites`: top level, under TSL / TSD / REF / bundle fields, across parameters), so all
                              those sub-schemas are the same type - for bundles the same NAME and the same fields -
                              and an output `~T` is that type.
  `structural_rebinding_unsound`: the variant matcher of `Model/DispatchStruct.lean` (re-binding compared with
                              `time_series_schema_equivalent`) does NOT have this property: `f(~T,~T)` accepts
                              `(TSB<A>[x,y], TSB<B>[x,y])` with `T := TSB<A>[x,y]` (kernel-checked witness), beats the
                              fallback `f(~X,~Y)`, turns a no-match into a match, and its output follows argument order.
  `schema_var_rebinding_is_structural` [C19-schemavar]: the code itself compares a re-used `TSB[~S]` SCHEMA variable
                              structurally, so for it only "same field list" holds (`inst`), not "same type" (`instX`);
                              `match_complete` is stated for the strict reading `instX` and
                              `match_complete_fails_for_inst` shows it cannot be had for `inst`; the readings coincide
                              without a schema variable (`inst_eq_instX_of_noSchemaVar`).
* `tsb_pattern_requires_same_fields`: a field-listing bundle pattern only accepts a bundle with exactly its
                              field names, in its order (so the same count) — no trailing extra field.
* `output_is_substitution`  : the reported output schema is the substitution of the winner's bindings
                              into its declared output pattern, and it exists.

* `match_complete`, `candidate_complete`, `noMatch_no_candidate`: the matcher finds the *least*
                              bindings whenever any exist, so "no survivor" really means that no
                              candidate can match.

* `addVar_min`, `rank_repeated_var_most_specific`: the rank accumulator keeps ONE entry per variable and
                              that entry is the minimum over the variable's occurrences (≤ each, attained
                              by one) — docs/source/developer_guide/operators.rst l.348 "candidate rank =
                              structural rank + per-variable min(rank)".

Ceiling (`rank_respects_instantiation`: "a substitution instance never ranks worse")
* `RankRespectsInstantiation` (the full statement) is kept visible and is **refuted** for the rank
  the code computes: `rank_respects_instantiation_refuted` (`TSB[a:~A,b:~B]` is an instance of `~T`
  and ranks 10001 > 10000).  What holds instead (`…_partial`):
* `rank_ground_instance_le` / `rank_ground_instance_strict`: replacing type variables by concrete
  types (`Concrete` leaves / concrete scalars / sizes) never raises the rank and strictly lowers it
  as soon as one replaced variable occurs — all parameter lists, all depths, repeated variables.
* `rank_structure_instance_le` / `rank_structure_instance_strict`: instantiating ONE variable `~x`
  by a structure `r` over fresh variables does not rank worse (ranks strictly better) provided
  `occurrences(x) · structural(r) + varCost(r, budget(x)) ≤ (<) budget(x)`;
  `rank_structure_instance_bound` is the exact accounting.  The side condition is what the code's
  numbers need; it fails for a bundle with two whole-time-series variables and below nesting depth 6.
All three are proved against `LARGE_RANK`, `SCALAR_VAR_RANK`, `SCALAR_PARAM_VAR_RANK`, `decay` of
`Model/Dispatch.lean` (the ground half only needs every budget to be ≥ 1).
-/
namespace HgVerif.Dispatch

/-! ## matching is sound -/

/-- **match_sound.** A successful match extends the map it was given, binds every variable of the
    pattern, and under the resulting bindings the pattern accepts the supplied schema. -/
theorem match_sound {p : TP} {c : CT} {m m' : RMap} (h : inMatch p c m = some m') :
    MapLe m m' ∧ bound p m' = true ∧ inst p m' c = true :=
  have hs := inMatch_sound p c m m' h
  ⟨hs.1, inst_bound p c hs.2, hs.2⟩

/-- the argument loop: ONE final map makes every parameter position accept its argument, so every
    type variable has one binding across all positions -/
theorem matchArgs_sound {ps : List Param} {as : List Arg} {m m' : RMap} {adj adj' : Nat}
    (h : matchArgs ps as m adj = (some m', adj')) : MapLe m m' ∧ instArgs ps as m' = true :=
  have hs := matchArgs_sound' ps as m adj m' adj' h
  ⟨hs.1, hs.2.1⟩

/-- bindings are functional: a variable that is bound keeps its binding in every extension -/
theorem binding_functional {m m' : RMap} (h : MapLe m m') {n : Name} {c c' : CT}
    (h1 : m.findTs n = some c) (h2 : m'.findTs n = some c') : c = c' := by
  have := h.ts n c h1
  rw [this] at h2
  exact Option.some.inj h2

/-- **substitution instance, up to REF transparency.** If `p` accepts `c` under `m` and `p` resolves
    to `d`, then `d` and `c` dereference to the same schema except where `d` has a wildcard. -/
theorem inst_subst_deref {p : TP} {m : RMap} {c d : CT} (hi : inst p m c = true) (hs : subst p m = some d) :
    wildEq (derefAll d) (derefAll c) = true :=
  inst_subst_wild p m c d hi hs

/-- … and the same schema - same structure, same field names and field types all the way down - when the resolved
    type has no `SIGNAL` and no size-0 `TSL` -/
theorem inst_subst_exact {p : TP} {m : RMap} {c d : CT} (hi : inst p m c = true) (hs : subst p m = some d)
    (hn : noWild (derefAll d) = true) : equiv (derefAll d) (derefAll c) = true :=
  inst_subst_noWild hi hs hn

/-- … and literally the same schema when, in addition, neither side mentions a named bundle (bundle names are the
    one thing `time_series_schema_equivalent` does not compare: an un-named pattern `TSB[a:..]` accepts the named
    `TSB<A>[a:..]` and resolves to the un-named bundle, a concrete leaf `=TSB<A>[..]` accepts `TSB<B>[..]`) -/
theorem inst_subst_exact_nameless {p : TP} {m : RMap} {c d : CT} (hi : inst p m c = true)
    (hs : subst p m = some d) (hn : noWild (derefAll d) = true) (hd : nameless (derefAll d) = true)
    (hc : nameless (derefAll c) = true) : derefAll d = derefAll c :=
  equiv_eq_of_nameless _ _ hd hc (inst_subst_exact hi hs hn)

/-- **match_complete.** Whatever bindings `mf ⊇ m` make the pattern accept the schema - every variable, a
    `TSB[~S]` schema variable included, bound to exactly the type at its position (`instX`) - the matcher succeeds
    from `m` and returns bindings below `mf`: it finds the *least* extension.  (For the code's weaker reading `inst`
    of a re-used `TSB[~S]` this is false: see `schema_var_order_dependent` below.) -/
theorem match_complete {p : TP} {c : CT} {m mf : RMap} (h : MapLe m mf) (hi : instX p mf c = true) :
    ∃ m', inMatch p c m = some m' ∧ MapLe m' mf :=
  inMatch_complete p c m mf h hi

/-! ## a field-listing bundle pattern accepts exactly its own field list -/

/-- the field names a bundle pattern lists, in order -/
def pFieldNames : PFields → List Name
  | .nil => []
  | .cons f _ rest => f :: pFieldNames rest

/-- the field names of a bundle schema, in order -/
def cFieldNames : CFields → List Name
  | .nil => []
  | .cons f _ rest => f :: cFieldNames rest

/-- the field loop of `input_ts_pattern_match`'s `TSB` arm (type_pattern.cpp l.298-304, guarded by
    `field_count() != children.size()`): a match means the two name lists are EQUAL -/
theorem inMatchFields_same_names : ∀ (fs : PFields) (cfs : CFields) (m m' : RMap),
    inMatchFields fs cfs m = some m' → pFieldNames fs = cFieldNames cfs
  | .nil, .nil, _, _, _ => rfl
  | .cons f p rest, .cons g c crest, m, m', h => by
    simp only [inMatchFields] at h
    split at h
    · rename_i hfg
      split at h
      · rename_i m1 h1
        have := inMatchFields_same_names rest crest m1 m' h
        simp [pFieldNames, cFieldNames, hfg, this]
      · cases h
    · cases h
  | .nil, .cons _ _ _, m, m', h => by simp [inMatchFields] at h
  | .cons _ _ _, .nil, m, m', h => by simp [inMatchFields] at h

/-- **tsb_pattern_requires_same_fields.**  If the field-listing bundle pattern `TSB[f₁:p₁, …, f_k:p_k]` accepts an
    argument schema, then (behind any `REF`s) that schema is a bundle with the SAME field names in the same order —
    hence the same number of fields: no trailing extra field, none missing, none re-ordered, none re-named — and each
    field's schema is accepted by the corresponding child pattern under the returned bindings (`instFields`); a NAMED
    pattern `TSB<n>[…]` moreover only accepts the named bundle `n` (an un-named pattern accepts every name). -/
theorem tsb_pattern_requires_same_fields {pn : Option Name} {fs : PFields} {c : CT} {m m' : RMap}
    (h : inMatch (.tsb pn fs) c m = some m') :
    ∃ cn cfs, stripRefs c = .tsb cn cfs ∧ (∀ n, pn = some n → cn = some n) ∧ pFieldNames fs = cFieldNames cfs ∧
      (pFieldNames fs).length = (cFieldNames cfs).length ∧ instFields fs m' cfs = true := by
  simp only [inMatch] at h
  split at h
  · rename_i cn cfs hc
    split at h
    · rename_i hnm
      have hn := inMatchFields_same_names fs cfs m m' h
      refine ⟨cn, cfs, hc, ?_, hn, by rw [hn], (inMatchFields_sound fs cfs m m' h).2⟩
      intro n hpn
      subst hpn
      simpa [nameOk] using hnm
    · cases h
  · cases h

/-! ## survivors -/

theorem mem_survivors {os : List Overload} {args : List Arg} {s : Survivor} :
    s ∈ survivors os args ↔ ∃ o ∈ os, survivorOf args o = some s := by
  simp [survivors, List.mem_filterMap]

/-- every survivor is a registered candidate whose parameters all accept the arguments under its one
    map, whose rank is `operator_rank + adjustment`, and whose output can be produced -/
theorem survivor_sound {os : List Overload} {args : List Arg} {s : Survivor} (h : s ∈ survivors os args) :
    s.ov ∈ os ∧ instArgs s.ov.params args s.map = true ∧ outResolvable s.ov.out s.map = true ∧
      ∃ adj, tryMatch s.ov args = (some s.map, adj) ∧ s.rank = operatorRank s.ov.params + adj := by
  obtain ⟨o, ho, hso⟩ := mem_survivors.mp h
  unfold survivorOf at hso
  split at hso
  · rename_i m adj htm
    cases hso
    refine ⟨ho, ?_, ?_, adj, htm, rfl⟩
    · unfold tryMatch at htm
      split at htm
      · cases htm
      · split at htm
        · rename_i m1 adj1 hma
          split at htm
          · simp only [Prod.mk.injEq, Option.some.injEq] at htm
            obtain ⟨rfl, rfl⟩ := htm
            exact (matchArgs_sound hma).2
          · cases htm
        · cases htm
    · unfold tryMatch at htm
      split at htm
      · cases htm
      · split at htm
        · split at htm
          · rename_i hres
            simp only [Prod.mk.injEq, Option.some.injEq] at htm
            obtain ⟨rfl, rfl⟩ := htm
            exact hres
          · cases htm
        · cases htm
  · cases hso

/-- a candidate whose parameters accept the arguments under *some* bindings `mf` is matched by the
    candidate loop with the least such bindings `m' ⊆ mf`; it survives exactly when its output can
    be produced from them -/
theorem candidate_complete {o : Overload} {args : List Arg} {mf : RMap}
    (hi : instArgsX o.params args mf = true) :
    ∃ m' adj, MapLe m' mf ∧ instArgs o.params args m' = true ∧
      (outResolvable o.out m' = true → survivorOf args o = some ⟨o, m', operatorRank o.params + adj⟩) ∧
      (outResolvable o.out m' = false → survivorOf args o = none) := by
  have hempty : MapLe RMap.empty mf :=
    ⟨fun _ _ h => by simp [RMap.empty, RMap.findTs, lookup] at h,
     fun _ _ h => by simp [RMap.empty, RMap.findSc, lookup] at h,
     fun _ _ h => by simp [RMap.empty, RMap.findSz, lookup] at h⟩
  obtain ⟨m', adj, hm, hle⟩ := matchArgs_complete' o.params args RMap.empty mf (kwAdjust o.kw) hempty hi
  have hlen := instArgs_length _ _ _ hi
  refine ⟨m', adj, hle, (matchArgs_sound hm).2, ?_, ?_⟩
  · intro hres
    simp [survivorOf, tryMatch, hlen, hm, hres]
  · intro hres
    simp [survivorOf, tryMatch, hlen, hm, hres]

/-- **no-match really means no candidate matches**: when resolution reports the resolution error,
    every candidate either accepts the arguments under no bindings at all, or its output cannot be
    produced from the least bindings under which it does -/
theorem noMatch_no_candidate {os : List Overload} {args : List Arg} (h : resolveCall os args = .noMatch)
    {o : Overload} (ho : o ∈ os) {mf : RMap} (hi : instArgsX o.params args mf = true) :
    ∃ m', MapLe m' mf ∧ instArgs o.params args m' = true ∧ outResolvable o.out m' = false := by
  obtain ⟨m', adj, hle, hi', hyes, _⟩ := candidate_complete (o := o) hi
  refine ⟨m', hle, hi', ?_⟩
  cases hres : outResolvable o.out m' with
  | false => rfl
  | true =>
    exfalso
    have hs := hyes hres
    have hmem : (⟨o, m', operatorRank o.params + adj⟩ : Survivor) ∈ survivors os args :=
      mem_survivors.mpr ⟨o, ho, hs⟩
    have hnil : survivors os args = [] := by
      have hnil' : stableSort (survivors os args) = [] := decide_noMatch h
      have hp := perm_stableSort (survivors os args)
      rw [hnil'] at hp
      exact hp.symm.eq_nil
    rw [hnil] at hmem
    cases hmem

/-! ## the winner is the unique strict minimum -/

theorem resolve_noMatch_iff (os : List Overload) (args : List Arg) :
    resolveCall os args = .noMatch ↔ survivors os args = [] := by
  constructor
  · intro h
    have hnil : stableSort (survivors os args) = [] := decide_noMatch h
    have hp := perm_stableSort (survivors os args)
    rw [hnil] at hp
    exact hp.symm.eq_nil
  · intro h
    simp [resolveCall, h, stableSort, decide_]

theorem resolve_winner_spec {os : List Overload} {args : List Arg} {s : Survivor} {o : Option CT}
    (h : resolveCall os args = .winner s o) : o = outputOf s ∧ UniqueMin (survivors os args) s := by
  have := decide_winner (sorted_stableSort _) h
  exact ⟨this.1, uniqueMin_perm (perm_stableSort _) this.2⟩

theorem resolve_ambiguous_spec {os : List Overload} {args : List Arg} {tied : List Survivor}
    (h : resolveCall os args = .ambiguous tied) :
    ∃ r, SharedMin (survivors os args) r ∧
      tied.Perm ((survivors os args).filter (fun t => decide (t.rank = r))) := by
  obtain ⟨r, hr, ht⟩ := decide_ambiguous (sorted_stableSort _) h
  exact ⟨r, sharedMin_perm (perm_stableSort _) hr, by rw [ht]; exact (perm_stableSort _).filter _⟩

/-- `resolveCall` always lands in exactly one of the three outcomes described above -/
theorem resolve_total (os : List Overload) (args : List Arg) :
    (resolveCall os args = .noMatch ∧ survivors os args = []) ∨
    (∃ s, resolveCall os args = .winner s (outputOf s) ∧ UniqueMin (survivors os args) s) ∨
    (∃ tied r, resolveCall os args = .ambiguous tied ∧ SharedMin (survivors os args) r) := by
  cases h : resolveCall os args with
  | noMatch => exact Or.inl ⟨rfl, (resolve_noMatch_iff os args).mp h⟩
  | winner s o =>
    have := resolve_winner_spec h
    exact Or.inr (Or.inl ⟨s, by rw [this.1], this.2⟩)
  | ambiguous tied =>
    obtain ⟨r, hr, _⟩ := resolve_ambiguous_spec h
    exact Or.inr (Or.inr ⟨tied, r, rfl, hr⟩)

theorem resolve_winner_iff (os : List Overload) (args : List Arg) (s : Survivor) (o : Option CT) :
    resolveCall os args = .winner s o ↔ o = outputOf s ∧ UniqueMin (survivors os args) s := by
  constructor
  · exact resolve_winner_spec
  · rintro ⟨rfl, hu⟩
    rcases resolve_total os args with ⟨_, h0⟩ | ⟨s', hs', hu'⟩ | ⟨tied, r, _, hr⟩
    · have := uniqueMin_mem hu
      rw [h0] at this
      cases this
    · rw [uniqueMin_unique hu hu']
      exact hs'
    · exact (uniqueMin_not_shared hu hr).elim

theorem resolve_ambiguous_iff (os : List Overload) (args : List Arg) :
    (∃ tied, resolveCall os args = .ambiguous tied) ↔ ∃ r, SharedMin (survivors os args) r := by
  constructor
  · rintro ⟨tied, h⟩
    obtain ⟨r, hr, _⟩ := resolve_ambiguous_spec h
    exact ⟨r, hr⟩
  · rintro ⟨r, hr⟩
    rcases resolve_total os args with ⟨_, h0⟩ | ⟨s', _, hu'⟩ | ⟨tied, _, ht, _⟩
    · have := hr.2
      rw [h0] at this
      simp at this
    · exact (uniqueMin_not_shared hu' hr).elim
    · exact ⟨tied, ht⟩

/-- **winner_unique_min.**
    (1) a winner is a registered candidate that matches the arguments (one map for all positions),
        and every other survivor has a strictly larger rank;
    (2) no survivor ⇒ the resolution error;
    (3) the least rank shared by two survivors ⇒ the ambiguity error, listing exactly the tied ones. -/
theorem winner_unique_min (os : List Overload) (args : List Arg) :
    (∀ s o, resolveCall os args = .winner s o →
        s.ov ∈ os ∧ instArgs s.ov.params args s.map = true ∧
        ∃ l1 l2, survivors os args = l1 ++ s :: l2 ∧ ∀ t ∈ l1 ++ l2, s.rank < t.rank) ∧
    (survivors os args = [] → resolveCall os args = .noMatch) ∧
    (∀ r, (∀ t ∈ survivors os args, r ≤ t.rank) →
        2 ≤ ((survivors os args).filter (fun t => decide (t.rank = r))).length →
        ∃ tied, resolveCall os args = .ambiguous tied ∧
          tied.Perm ((survivors os args).filter (fun t => decide (t.rank = r)))) := by
  refine ⟨?_, (resolve_noMatch_iff os args).mpr, ?_⟩
  · intro s o h
    have hw := resolve_winner_spec h
    have hs := survivor_sound (uniqueMin_mem hw.2)
    exact ⟨hs.1, hs.2.1, hw.2⟩
  · intro r hmin hlen
    have hr : SharedMin (survivors os args) r := ⟨hmin, hlen⟩
    obtain ⟨tied, ht⟩ := (resolve_ambiguous_iff os args).mpr ⟨r, hr⟩
    obtain ⟨r', hr', hp⟩ := resolve_ambiguous_spec ht
    rw [sharedMin_unique hr' hr] at hp
    exact ⟨tied, ht, hp⟩

/-! ## registration order does not matter -/

/-- same winner (candidate, bindings, rank, output) / same error class (tied sets up to order) -/
def Outcome.Same : Outcome → Outcome → Prop
  | .noMatch, .noMatch => True
  | .winner s o, .winner s' o' => s = s' ∧ o = o'
  | .ambiguous t, .ambiguous t' => t.Perm t'
  | _, _ => False

/-- **resolve_perm_invariant.** -/
theorem resolve_perm_invariant {os os' : List Overload} (hp : os.Perm os') (args : List Arg) :
    (resolveCall os args).Same (resolveCall os' args) := by
  have hL : (survivors os args).Perm (survivors os' args) := hp.filterMap _
  rcases resolve_total os args with ⟨h, h0⟩ | ⟨s, h, hu⟩ | ⟨tied, r, h, hr⟩
  · have h0' : survivors os' args = [] := by
      have := hL.symm
      rw [h0] at this
      exact this.eq_nil
    rw [h, (resolve_noMatch_iff os' args).mpr h0']
    trivial
  · have hu' := uniqueMin_perm hL hu
    rw [h, (resolve_winner_iff os' args s (outputOf s)).mpr ⟨rfl, hu'⟩]
    exact ⟨rfl, rfl⟩
  · have hr' := sharedMin_perm hL hr
    obtain ⟨tied', ht'⟩ := (resolve_ambiguous_iff os' args).mpr ⟨r, hr'⟩
    obtain ⟨r1, hr1, hp1⟩ := resolve_ambiguous_spec h
    obtain ⟨r2, hr2, hp2⟩ := resolve_ambiguous_spec ht'
    rw [sharedMin_unique hr1 hr] at hp1
    rw [sharedMin_unique hr2 hr'] at hp2
    rw [h, ht']
    exact hp1.trans ((hL.filter _).trans hp2.symm)

/-- the executable form of `Outcome.Same` -/
def Outcome.sameB : Outcome → Outcome → Bool
  | .noMatch, .noMatch => true
  | .winner s o, .winner s' o' => decide (s = s') && decide (o = o')
  | .ambiguous t, .ambiguous t' => t.isPerm t'
  | _, _ => false

theorem Outcome.sameB_iff (a b : Outcome) : a.sameB b = true ↔ a.Same b := by
  cases a <;> cases b <;> simp [Outcome.sameB, Outcome.Same, List.isPerm_iff]

/-- the monitor of C19 on model traces: the same family registered under several orders gives the
    same outcome for the same arguments -/
def P_C19 (os : List Overload) (orders : List (List Overload)) (args : List Arg) : Bool :=
  orders.all fun os' => (resolveCall os args).sameB (resolveCall os' args)

/-- the monitor holds on every run of the model: for every family, every set of registration orders
    of it and every argument tuple -/
theorem P_C19_holds (os : List Overload) (orders : List (List Overload)) (args : List Arg)
    (h : ∀ os' ∈ orders, os.Perm os') : P_C19 os orders args = true := by
  simp only [P_C19, List.all_eq_true]
  intro os' hmem
  exact (Outcome.sameB_iff _ _).mpr (resolve_perm_invariant (h os' hmem) args)

/-! ## the output type is the substitution of the winner's bindings -/

/-- **output_is_substitution.** The output reported for the winner is `subst` of its declared output
    pattern under the very map that makes all its parameters accept the arguments; it exists
    whenever an output is declared, and there is none for a sink. -/
theorem output_is_substitution {os : List Overload} {args : List Arg} {s : Survivor} {o : Option CT}
    (h : resolveCall os args = .winner s o) :
    instArgs s.ov.params args s.map = true ∧
    (∀ p, s.ov.out = some p → ∃ d, subst p s.map = some d ∧ o = some d) ∧
    (s.ov.out = none → o = none) := by
  have hw := resolve_winner_spec h
  have hs := survivor_sound (uniqueMin_mem hw.2)
  refine ⟨hs.2.1, ?_, ?_⟩
  · intro p hp
    have hres := hs.2.2.1
    simp only [outResolvable, hp] at hres
    obtain ⟨d, hd⟩ := Option.isSome_iff_exists.mp hres
    exact ⟨d, hd, by rw [hw.1]; simp [outputOf, hp, hd]⟩
  · intro hn
    rw [hw.1]
    simp [outputOf, hn]

/-! ## a repeated variable counts once, at its most specific occurrence -/

/-- **addVar_min.** `RankAccumulator::add_var` (operator_dispatch.h l.1106-1110) stores under its key the
    MINIMUM of what was stored before and the new cost (the new cost when the key is new), and leaves every
    other key alone: the documented "per-variable min(rank)". -/
theorem addVar_min (a : RankAcc) (k : Key) (r : Nat) :
    lookup (a.addVar k r).vars k
        = some (match lookup a.vars k with
                | none => r
                | some old => min old r) ∧
      (a.addVar k r).structural = a.structural ∧
      ∀ k', k' ≠ k → lookup (a.addVar k r).vars k' = lookup a.vars k' := by
  refine ⟨?_, addVar_structural a k r, fun k' h => by rw [lookup_addVar]; simp [h]⟩
  rw [lookup_addVar]
  simp only [if_true]
  cases lookup a.vars k <;> simp [optMin]

theorem optMin_some {a b : Option Nat} {m : Nat} (h : optMin a b = some m) :
    (a = some m ∨ b = some m) ∧ (∀ x, a = some x → m ≤ x) ∧ (∀ y, b = some y → m ≤ y) := by
  cases a with
  | none =>
    simp only [optMin_none_left] at h
    subst h
    exact ⟨Or.inr rfl, fun x hx => (by cases hx), fun y hy => (by cases hy; exact Nat.le_refl _)⟩
  | some x =>
    cases b with
    | none =>
      simp only [optMin_none_right, Option.some.injEq] at h
      subst h
      exact ⟨Or.inl rfl, fun x' hx => (by cases hx; exact Nat.le_refl _), fun y hy => (by cases hy)⟩
    | some y =>
      simp only [optMin, Option.some.injEq] at h
      refine ⟨?_, fun x' hx => (by cases hx; omega), fun y' hy => (by cases hy; omega)⟩
      by_cases hxy : x ≤ y
      · left; congr 1; omega
      · right; congr 1; omega

/-- the stored cost of a variable is at most its cost in any one parameter -/
theorem keyRankParams_le_mem {k : Key} : ∀ {ps : List Param} {p : Param} {b : Nat}, p ∈ ps →
    keyRankParam k p = some b → ∃ m, keyRankParams k ps = some m ∧ m ≤ b
  | [], _, _, hp, _ => by cases hp
  | q :: qs, p, b, hp, hb => by
    simp only [keyRankParams]
    rcases List.mem_cons.mp hp with rfl | hin
    · cases hq : optMin (keyRankParam k p) (keyRankParams k qs) with
      | none => rw [hb] at hq; cases hr : keyRankParams k qs <;> simp [hr, optMin] at hq
      | some m => exact ⟨m, rfl, (optMin_some hq).2.1 b hb⟩
    · obtain ⟨m0, hm0, hle⟩ := keyRankParams_le_mem (k := k) hin hb
      cases hq : optMin (keyRankParam k q) (keyRankParams k qs) with
      | none => rw [hm0] at hq; cases hr : keyRankParam k q <;> simp [hr, optMin] at hq
      | some m =>
        have := (optMin_some hq).2.2 m0 hm0
        exact ⟨m, rfl, by omega⟩

/-- … and it is the cost of the variable in one of the parameters -/
theorem keyRankParams_attained {k : Key} : ∀ {ps : List Param} {m : Nat}, keyRankParams k ps = some m →
    ∃ p, p ∈ ps ∧ keyRankParam k p = some m
  | [], _, h => by simp [keyRankParams] at h
  | q :: qs, m, h => by
    simp only [keyRankParams] at h
    rcases (optMin_some h).1 with hq | hr
    · exact ⟨q, List.mem_cons_self, hq⟩
    · obtain ⟨p, hp, hpm⟩ := keyRankParams_attained (k := k) hr
      exact ⟨p, List.mem_cons_of_mem _ hp, hpm⟩

/-- **rank_repeated_var_most_specific.**  `operator_rank` is the structural count plus ONE entry per variable
    (unique keys), and the entry of a variable that occurs in several parameters — at whatever nesting depths —
    is the minimum of its per-parameter costs (`keyRankParam`, itself the minimum over the occurrences inside
    one pattern): it is ≤ the cost of every occurrence and it is attained by one of them.  So a variable that
    occurs bare (10000) and inside a `TSL` (5000) counts 5000, never 10000 — for every parameter list. -/
theorem rank_repeated_var_most_specific (ps : List Param) (k : Key) :
    operatorRank ps = structParams ps + sumVals (rankAcc ps).vars ∧
      (keysOf (rankAcc ps).vars).Nodup ∧
      lookup (rankAcc ps).vars k = keyRankParams k ps ∧
      (∀ p ∈ ps, ∀ b, keyRankParam k p = some b → ∃ m, lookup (rankAcc ps).vars k = some m ∧ m ≤ b) ∧
      (∀ m, lookup (rankAcc ps).vars k = some m → ∃ p, p ∈ ps ∧ keyRankParam k p = some m) := by
  have h := rankAcc_spec ps
  refine ⟨operatorRank_eq ps, h.1, h.2.2 k, ?_, ?_⟩
  · intro p hp b hb
    rw [h.2.2 k]
    exact keyRankParams_le_mem hp hb
  · intro m hm
    rw [h.2.2 k] at hm
    exact keyRankParams_attained hm

/-! ## ceiling: does the rank respect instantiation? -/

/-- the variable behind key `k` occurs in the parameter list -/
def varOccurs (k : Key) (ps : List Param) : Prop := (keyRankParams k ps).isSome = true
instance (k : Key) (ps : List Param) : Decidable (varOccurs k ps) := by unfold varOccurs; infer_instance

/-- ground instantiation never raises the rank -/
theorem rank_ground_instance_le (σ : GSubst) (ps : List Param) :
    operatorRank (ps.map (applyParam σ)) ≤ operatorRank ps := by
  rw [operatorRank_eq, operatorRank_eq]
  have hs := structParams_apply σ ps
  have h' := rankAcc_spec (ps.map (applyParam σ))
  have h := rankAcc_spec ps
  have := sumVals_le_of_submap (rankAcc (ps.map (applyParam σ))).vars (rankAcc ps).vars h'.1 (by
    intro k v hk
    rw [h'.2.2 k, keyRankParams_apply] at hk
    rw [h.2.2 k]
    split at hk
    · cases hk
    · exact hk)
  omega

/-- **rank_respects_instantiation, the part that holds (`…_partial`).**  Replacing type variables by
    concrete types (time-series variables by `Concrete` leaves, scalar variables by concrete scalars,
    size variables by sizes) never raises `operator_rank`, and strictly lowers it as soon as one of
    the replaced variables occurs — for every parameter list, every nesting depth, every repetition
    of variables.  Proved against the constants `LARGE_RANK`, `SCALAR_VAR_RANK`,
    `SCALAR_PARAM_VAR_RANK` and `decay` of the model (it only needs them to be ≥ 1). -/
theorem rank_ground_instance_strict (σ : GSubst) (ps : List Param) (k : Key) (hd : σ.dom k = true)
    (ho : varOccurs k ps) : operatorRank (ps.map (applyParam σ)) < operatorRank ps := by
  rw [operatorRank_eq, operatorRank_eq]
  have hs := structParams_apply σ ps
  have h' := rankAcc_spec (ps.map (applyParam σ))
  have h := rankAcc_spec ps
  obtain ⟨v0, hv0⟩ := Option.isSome_iff_exists.mp ho
  have := sumVals_lt_of_submap (l' := (rankAcc (ps.map (applyParam σ))).vars) (l := (rankAcc ps).vars) h'.1 (by
    intro k' v hk
    rw [h'.2.2 k', keyRankParams_apply] at hk
    rw [h.2.2 k']
    split at hk
    · cases hk
    · exact hk) (k0 := k) (v0 := v0) (by rw [h.2.2 k]; exact hv0) (keyRankParams_pos ps v0 hv0)
    (by rw [h'.2.2 k, keyRankParams_apply]; simp [hd])
  omega

/-- the accounting behind the structural half: after `x ↦ r` every stored budget is either one that
    was stored before (other than `x`'s) or one of `r`'s own at `x`'s budget -/
theorem rank_structure_instance_bound {ps : List Param} {x : Name} {r : TP} {b : Nat}
    (hplain : plainParams x ps = true) (hb : keyRankParams (.ts x) ps = some b)
    (hfresh : ∀ k v w, keyRankT k r v = some w → keyRankParams k ps = none) :
    operatorRank (ps.map (instantiateParam (single x r))) + b ≤
      operatorRank ps + occParams x ps * structT r + varCost r b := by
  rw [operatorRank_eq, operatorRank_eq, structParams_instantiate]
  have h' := rankAcc_spec (ps.map (instantiateParam (single x r)))
  have h := rankAcc_spec ps
  have hx : lookup (rankAcc ps).vars (.ts x) = some b := by rw [h.2.2]; exact hb
  have hsum := sumVals_erase hx
  have hcover := sumVals_le_of_cover (rankAcc (ps.map (instantiateParam (single x r)))).vars
    (eraseKey (.ts x) (rankAcc ps).vars) (collectT r {} b).vars h'.1 (by
      intro k v hk
      rw [h'.2.2 k, keyRankParams_instantiate x r k ps hplain, hb] at hk
      simp only [Option.bind_some] at hk
      cases hg : keyRankT k r b with
      | none =>
        rw [hg, optMin_none_right] at hk
        unfold mask at hk
        split at hk
        · cases hk
        · rename_i hne
          left
          rw [lookup_erase_ne hne, h.2.2 k]
          exact hk
      | some w =>
        rw [hg, hfresh k b w hg] at hk
        right
        rw [lookup_collect_fresh, hg]
        unfold mask at hk
        split at hk <;> simpa using hk)
  unfold varCost
  omega

/-- **rank_respects_instantiation, one variable instantiated by structure (`…_partial`).**
    Let `~x` occur in the parameter list only as an unconstrained variable, with (smallest) budget
    `b`, and let `r` be any pattern whose variables are fresh.  If `r`'s structural count, once per
    occurrence of `~x`, plus the cost of `r`'s own variables collected at budget `b` fits into `b`,
    then the instance `ps[x ↦ r]` does not rank worse — and ranks strictly better when it fits
    strictly.  (At the top level `b = 10000`: any single-variable structure such as `TSL[~U,~N]`,
    `TSD[~k,~U]`, `TS[~s]` fits strictly; `TSB[a:~U,b:~V]` does not — see the refutation below.) -/
theorem rank_structure_instance_le {ps : List Param} {x : Name} {r : TP} {b : Nat}
    (hplain : plainParams x ps = true) (hb : keyRankParams (.ts x) ps = some b)
    (hfresh : ∀ k v w, keyRankT k r v = some w → keyRankParams k ps = none)
    (hbudget : occParams x ps * structT r + varCost r b ≤ b) :
    operatorRank (ps.map (instantiateParam (single x r))) ≤ operatorRank ps := by
  have := rank_structure_instance_bound hplain hb hfresh
  omega

theorem rank_structure_instance_strict {ps : List Param} {x : Name} {r : TP} {b : Nat}
    (hplain : plainParams x ps = true) (hb : keyRankParams (.ts x) ps = some b)
    (hfresh : ∀ k v w, keyRankT k r v = some w → keyRankParams k ps = none)
    (hbudget : occParams x ps * structT r + varCost r b < b) :
    operatorRank (ps.map (instantiateParam (single x r))) < operatorRank ps := by
  have := rank_structure_instance_bound hplain hb hfresh
  omega

/-- **rank_respects_instantiation, the full statement** (kept visible): instantiating whole-time-series
    variables by arbitrary patterns never raises the rank. -/
def RankRespectsInstantiation : Prop :=
  ∀ (σ : Name → Option TP) (ps : List Param), operatorRank (ps.map (instantiateParam σ)) ≤ operatorRank ps

/-- The full statement is **false** for the rank the code computes: `TSB[a:~A, b:~B]` is an instance
    of `~T`, yet `operator_rank` gives it `1 + 5000 + 5000 = 10001 > 10000`; so of `f(~T)` and
    `f(TSB[a:~A,b:~B])`, both matching a two-field bundle, resolution selects the *less* specific.
    What is missing for non-ground instantiation is a budget side condition (the replacement's
    structural count times the number of occurrences plus its variables' decayed budgets must not
    exceed the replaced variable's budget); it fails for a bundle pattern with two or more
    whole-time-series variables at any depth, and for any structure below nesting depth 6. -/
theorem rank_respects_instantiation_refuted : ¬ RankRespectsInstantiation := by
  intro h
  have := h (fun n => if n = 0 then some (.tsb none (.cons 7 (.var 1 []) (.cons 8 (.var 2 []) .nil))) else none)
    [.input (.var 0 [])]
  revert this
  decide

/-! ## a repeated variable is bound to ONE type: for bundles the same name and the same fields -/

/-- **var_bound_to_position_type.**  After a successful match of ONE pattern, the returned map binds the variable
    `~n` to exactly the (REF-stripped) argument sub-schema at each of its positions in the pattern. -/
theorem var_bound_to_position_type {p : TP} {c : CT} {m m' : RMap} (h : inMatch p c m = some m') {n : Name}
    {d : CT} (hd : d ∈ varSites n p c) : m'.findTs n = some d :=
  inst_varSites p c (match_sound h).2.2 d hd

/-- **repeated_var_same_type.**  After the argument loop succeeded, the ONE final map binds the whole-time-series
    variable `~n` to the argument sub-schema at EVERY position where `~n` occurs (in any parameter, at top level or
    under `TSL` / `TSD` / `REF` / bundle fields).  Hence all those sub-schemas are one and the same type; when they
    are bundles they have the same NAME (or are all un-named) and the same field list. -/
theorem repeated_var_same_type {ps : List Param} {as : List Arg} {m m' : RMap} {adj adj' : Nat}
    (h : matchArgs ps as m adj = (some m', adj')) (n : Name) :
    (∀ d ∈ varSitesArgs n ps as, m'.findTs n = some d) ∧
    (∀ d ∈ varSitesArgs n ps as, ∀ d' ∈ varSitesArgs n ps as, d = d') ∧
    (∀ nm fs nm' fs', CT.tsb nm fs ∈ varSitesArgs n ps as → CT.tsb nm' fs' ∈ varSitesArgs n ps as →
      nm = nm' ∧ fs = fs') := by
  have hb : ∀ d ∈ varSitesArgs n ps as, m'.findTs n = some d :=
    instArgs_varSites ps as (matchArgs_sound h).2
  have heq : ∀ d ∈ varSitesArgs n ps as, ∀ d' ∈ varSitesArgs n ps as, d = d' := by
    intro d hd d' hd'
    have h1 := hb d hd
    rw [hb d' hd'] at h1
    exact (Option.some.inj h1).symm
  refine ⟨hb, heq, ?_⟩
  intro nm fs nm' fs' h1 h2
  have := heq _ h1 _ h2
  simp only [CT.tsb.injEq] at this
  exact this

/-- **winner_var_one_type.**  The selected candidate's bindings give every whole-time-series variable the type found
    at every one of its positions in the supplied arguments, and an output declared as `~n` IS that type. -/
theorem winner_var_one_type {os : List Overload} {args : List Arg} {s : Survivor} {o : Option CT}
    (h : resolveCall os args = .winner s o) (n : Name) :
    (∀ d ∈ varSitesArgs n s.ov.params args, s.map.findTs n = some d) ∧
    (∀ cs, s.ov.out = some (.var n cs) → ∀ d ∈ varSitesArgs n s.ov.params args, o = some d) := by
  have ho := output_is_substitution h
  have hb := instArgs_varSites (n := n) s.ov.params args ho.1
  refine ⟨hb, ?_⟩
  intro cs hout d hd
  obtain ⟨d0, hd0, ho0⟩ := ho.2.1 _ hout
  simp only [subst] at hd0
  rw [hb d hd] at hd0
  rw [ho0, ← Option.some.inj hd0]

/-- without a `TSB[~S]` schema variable the code's reading and the strict reading of a pattern are the same -/
theorem inst_eq_instX_of_noSchemaVar {p : TP} {m : RMap} {c : CT} (h : noSchemaVar p = true) :
    inst p m c = instX p m c :=
  instG_flag_irrelevant p c h

/-- the strict reading is the stronger one -/
theorem instX_implies_inst {p : TP} {m : RMap} {c : CT} (h : instX p m c = true) : inst p m c = true :=
  instX_inst p c h

/-! ### the variant with a structural comparison on re-binding does not have the property -/

-- names: T = 0, X = 1, Y = 2; fields x = 7, y = 8; bundle names A = 100, B = 101
private def xyFields : CFields := .cons 7 (.ts 1) (.cons 8 (.ts 2) .nil)
private def bA : CT := .tsb (some 100) xyFields
private def bB : CT := .tsb (some 101) xyFields
private def bU : CT := .tsb none xyFields
private def ovSame : Overload := { label := 40, params := [.input (.var 0 []), .input (.var 0 [])], out := some (.var 0 []) }
private def ovAnyTwo : Overload := { label := 41, params := [.input (.var 1 []), .input (.var 2 [])], out := some (.var 1 []) }
private def ovPairOnly : Overload :=
  { label := 42, params := [.input (.var 0 []), .input (.var 0 [])], out := some (.tsl (.var 0 []) (.fixed 2)) }

/-- "the variant matcher binds a variable to the type at each of its positions" (the statement that
    `repeated_var_same_type` proves for the code's matcher) -/
def StructuralRebindingSound : Prop :=
  ∀ (ps : List Param) (as : List Arg) (m' : RMap) (adj' : Nat) (n : Name),
    matchArgsS ps as RMap.empty 0 = (some m', adj') → ∀ d ∈ varSitesArgs n ps as, m'.findTs n = some d

/-- **structural_rebinding_unsound.**  With `time_series_schema_equivalent` instead of identity in the "variable already
    bound" branch, `f(~T,~T)` accepts `(TSB<A>[x:TS[int],y:TS[float]], TSB<B>[x:TS[int],y:TS[float]])`: the variable
    stays bound to `TSB<A>[..]` although its second position holds the different type `TSB<B>[..]`. -/
theorem structural_rebinding_unsound : ¬ StructuralRebindingSound := by
  intro h
  have := h [.input (.var 0 []), .input (.var 0 [])] [.ts bA, .ts bB] { ts := [(0, bA)] } 0 0 (by decide) bB (by decide)
  revert this
  decide

/-- the witness, spelled out: the code's matcher rejects, the variant accepts; same for a named against the un-named
    bundle of the same fields, and under `TSL` / `TSD` / `REF` -/
example : matchArgs [.input (.var 0 []), .input (.var 0 [])] [.ts bA, .ts bB] RMap.empty 0 = (none, 0) ∧
    matchArgsS [.input (.var 0 []), .input (.var 0 [])] [.ts bA, .ts bB] RMap.empty 0 = (some { ts := [(0, bA)] }, 0) ∧
    varSitesArgs 0 [.input (.var 0 []), .input (.var 0 [])] [.ts bA, .ts bB] = [bA, bB] ∧ bA ≠ bB ∧
    equiv bA bB = true ∧ equiv bA bU = true ∧
    matchArgs [.input (.var 0 []), .input (.var 0 [])] [.ts bU, .ts bA] RMap.empty 0 = (none, 0) ∧
    matchArgsS [.input (.var 0 []), .input (.var 0 [])] [.ts bU, .ts bA] RMap.empty 0 = (some { ts := [(0, bU)] }, 0) ∧
    matchArgs [.input (.tsd (.var 3 []) (.var 0 [])), .input (.var 0 [])] [.ts (.tsd 1 bA), .ts (.ref bB)] RMap.empty 0
      = (none, 0) ∧
    matchArgsS [.input (.tsd (.var 3 []) (.var 0 [])), .input (.var 0 [])] [.ts (.tsd 1 bA), .ts (.ref bB)] RMap.empty 0
      = (some { ts := [(0, bA)], sc := [(3, 1)] }, 0) ∧
    matchArgs [.input (.tsl (.var 0 []) (.var 5 [])), .input (.tsl (.var 0 []) (.var 5 []))]
      [.ts (.tsl bA 2), .ts (.tsl bB 2)] RMap.empty 0 = (none, 0) ∧
    matchArgsS [.input (.tsl (.var 0 []) (.var 5 [])), .input (.tsl (.var 0 []) (.var 5 []))]
      [.ts (.tsl bA 2), .ts (.tsl bB 2)] RMap.empty 0 = (some { ts := [(0, bA)], sz := [(5, 2)] }, 0) := by decide

/-- what it does to resolution: with the code's matcher `(A, B)` goes to the fallback `any(~X,~Y)` in both registration
    orders and `pair(~T,~T)` alone is a resolution error; with the variant the repeated-variable candidate (rank 10000
    against 20000) wins in both orders, the no-match becomes a match, and the output follows the argument order -/
example : resolveCall [ovSame, ovAnyTwo] [.ts bA, .ts bB]
      = .winner ⟨ovAnyTwo, { ts := [(2, bB), (1, bA)] }, 20000⟩ (some bA) ∧
    resolveCall [ovAnyTwo, ovSame] [.ts bA, .ts bB]
      = .winner ⟨ovAnyTwo, { ts := [(2, bB), (1, bA)] }, 20000⟩ (some bA) ∧
    resolveCall [ovPairOnly] [.ts bA, .ts bB] = .noMatch ∧
    resolveCallS [ovSame, ovAnyTwo] [.ts bA, .ts bB] = .winner ⟨ovSame, { ts := [(0, bA)] }, 10000⟩ (some bA) ∧
    resolveCallS [ovAnyTwo, ovSame] [.ts bA, .ts bB] = .winner ⟨ovSame, { ts := [(0, bA)] }, 10000⟩ (some bA) ∧
    resolveCallS [ovPairOnly] [.ts bA, .ts bB] = .winner ⟨ovPairOnly, { ts := [(0, bA)] }, 10000⟩ (some (.tsl bA 2)) ∧
    resolveCallS [ovPairOnly] [.ts bB, .ts bA] = .winner ⟨ovPairOnly, { ts := [(0, bB)] }, 10000⟩ (some (.tsl bB 2)) ∧
    resolveCall [ovSame, ovAnyTwo] [.ts bA, .ts (.ref bA)] = .winner ⟨ovSame, { ts := [(0, bA)] }, 10000⟩ (some bA) := by
  decide

/-- `repeated_var_same_type` is not vacuous: `at(TSD[~K,~V], ~V)` on `(TSD[int,TSB<B>[..]], REF[TSB<B>[..]])` -/
example : matchArgs [.input (.tsd (.var 3 []) (.var 0 [])), .input (.var 0 [])] [.ts (.tsd 1 bB), .ts (.ref bB)] RMap.empty 0
      = (some { ts := [(0, bB)], sc := [(3, 1)] }, 0) ∧
    varSitesArgs 0 [.input (.tsd (.var 3 []) (.var 0 [])), .input (.var 0 [])] [.ts (.tsd 1 bB), .ts (.ref bB)] = [bB, bB] := by
  decide

/-! ### what the code does NOT guarantee: a re-used `TSB[~S]` schema variable -/

theorem mapLe_empty (mf : RMap) : MapLe RMap.empty mf :=
  ⟨fun _ _ h => by simp [RMap.empty, RMap.findTs, lookup] at h,
   fun _ _ h => by simp [RMap.empty, RMap.findSc, lookup] at h,
   fun _ _ h => by simp [RMap.empty, RMap.findSz, lookup] at h⟩

/-- **schema_var_rebinding_is_structural** ([C19-schemavar], a fact about the unchanged code).  `f(TSB[~S], TSB[~S])`
    accepts `(TSB<A>[x,y], TSB<B>[x,y])`: a re-used schema variable is compared with `time_series_schema_equivalent`
    (type_pattern.cpp l.283-287 / l.366-370).  `S` stays bound to `TSB<A>[..]`; the code's reading `inst` holds (same
    field list), and NO map satisfies the strict reading (one type at both positions). -/
theorem schema_var_rebinding_is_structural :
    matchArgs [.input (.tsbVar 0), .input (.tsbVar 0)] [.ts bA, .ts bB] RMap.empty 0 = (some { ts := [(0, bA)] }, 0) ∧
    instArgs [.input (.tsbVar 0), .input (.tsbVar 0)] [.ts bA, .ts bB] { ts := [(0, bA)] } = true ∧
    bA ≠ bB ∧ ¬ ∃ m, instArgsX [.input (.tsbVar 0), .input (.tsbVar 0)] [.ts bA, .ts bB] m = true := by
  refine ⟨by decide, by decide, by decide, ?_⟩
  rintro ⟨m, hm⟩
  simp only [instArgsX, instArgsG, instParamG, instG, stripRefs, bA, bB, svOk, if_true, Bool.and_eq_true,
    Bool.and_true] at hm
  obtain ⟨h1, h2⟩ := hm
  cases hf : m.findTs 0 with
  | none => simp [hf] at h1
  | some b =>
    simp only [hf, decide_eq_true_eq] at h1 h2
    rw [h1] at h2
    revert h2
    decide

/-- **match_complete_fails_for_inst.**  `match_complete` cannot be stated for the code's reading `inst`: under
    `mf = {S := TSB<A>[..]}` the pattern `TSB[~S]` accepts `TSB<B>[..]` (same fields), but from the empty map the matcher
    binds `S := TSB<B>[..]`, which is not below `mf`. -/
theorem match_complete_fails_for_inst :
    ¬ ∀ (p : TP) (c : CT) (m mf : RMap), MapLe m mf → inst p mf c = true →
        ∃ m', inMatch p c m = some m' ∧ MapLe m' mf := by
  intro h
  obtain ⟨m', hm, hle⟩ := h (.tsbVar 0) bB RMap.empty { ts := [(0, bA)] } (mapLe_empty _) (by decide)
  have hc : inMatch (.tsbVar 0) bB RMap.empty = some { ts := [(0, bB)] } := by decide
  rw [hc] at hm
  cases hm
  have := hle.ts 0 bB (by decide)
  revert this
  decide

/-- a consequence: with a schema variable and a whole-time-series variable of the same name, whether the SAME two
    positions are accepted depends on which one the matcher reaches first -/
example : matchArgs [.input (.var 0 []), .input (.tsbVar 0)] [.ts bA, .ts bB] RMap.empty 0 = (some { ts := [(0, bA)] }, 0) ∧
    matchArgs [.input (.tsbVar 0), .input (.var 0 [])] [.ts bB, .ts bA] RMap.empty 0 = (none, 0) := by decide

/-! ## non-vacuity: concrete families that exercise the hypotheses -/

section Examples
-- names: T = 0, s = 1;  scalars: int = 1, str = 3
private def ovGeneric : Overload := { label := 10, params := [.input (.var 0 []), .input (.var 0 [])], out := some (.var 0 []) }
private def ovScalarGeneric : Overload :=
  { label := 11, params := [.input (.ts (.var 1 [])), .input (.ts (.var 1 []))], out := some (.ts (.var 1 [])) }
private def ovInt : Overload := { label := 12, params := [.input (.conc (.ts 1)), .input (.ts (.conc 1))], out := some (.conc (.ts 1)) }
private def ovIntDup : Overload := { ovInt with label := 13 }
private def argsInt : List Arg := [.ts (.ts 1), .ts (.ref (.ts 1))]
private def argsMixed : List Arg := [.ts (.ts 1), .ts (.ts 3)]
private def psEx : List Param := [.input (.var 0 []), .input (.tsl (.var 0 []) (.var 5 []))]
private def rEx : TP := .tsd (.var 3 []) (.var 9 [])

/-- three candidates match `(TS[int], REF[TS[int]])`; the concrete one wins with rank 1 -/
example : resolveCall [ovGeneric, ovScalarGeneric, ovInt] argsInt
    = .winner ⟨ovInt, RMap.empty, 1⟩ (some (.ts 1)) := by decide
/-- … in another registration order too -/
example : resolveCall [ovInt, ovGeneric, ovScalarGeneric] argsInt
    = .winner ⟨ovInt, RMap.empty, 1⟩ (some (.ts 1)) := by decide
/-- a duplicate signature ties at the best rank: ambiguity, whatever else is registered -/
example : resolveCall [ovGeneric, ovInt, ovIntDup] argsInt
    = .ambiguous [⟨ovInt, RMap.empty, 1⟩, ⟨ovIntDup, RMap.empty, 1⟩] := by decide
/-- inconsistent re-binding of a repeated variable rejects every candidate -/
example : resolveCall [ovGeneric, ovScalarGeneric, ovInt] argsMixed = .noMatch := by decide
/-- `match_sound`'s hypothesis: `TSL[~T, ~N]` against `REF[TSL[REF[TS[int]], 2]]` binds `T := TS[int]`, `N := 2` -/
example : inMatch (.tsl (.var 0 []) (.var 5 [])) (.ref (.tsl (.ref (.ts 1)) 2)) RMap.empty
    = some { ts := [(0, .ts 1)], sz := [(5, 2)] } := by decide
/-- `rank_ground_instance_strict`'s hypotheses: `T` occurs (twice, at budgets 10000 and 5000) in
    `f(~T, TSL[~T,~N])` and is replaced by `TS[int]`: rank 5001 drops to 1 -/
example : varOccurs (.ts 0) [.input (.var 0 []), .input (.tsl (.var 0 []) (.var 5 []))] ∧
    operatorRank [.input (.var 0 []), .input (.tsl (.var 0 []) (.var 5 []))] = 5001 ∧
    operatorRank ([.input (.var 0 []), .input (.tsl (.var 0 []) (.var 5 []))].map
      (applyParam ⟨fun n => if n = 0 then some (.ts 1) else none, fun _ => none, fun _ => none⟩)) = 1 := by
  decide
/-- `rank_structure_instance_strict`'s hypotheses: in `f(~T, TSL[~T,~N])` the variable `T` (two plain
    occurrences, smallest budget 5000) is instantiated by `TSD[~k,~U]` with fresh `k`, `U`:
    `2·1 + (100 + 2500) < 5000`, and indeed the rank drops from 5001 to 2603 -/
example : plainParams 0 psEx = true ∧ keyRankParams (.ts 0) psEx = some 5000 ∧
    occParams 0 psEx * structT rEx + varCost rEx 5000 < 5000 ∧
    operatorRank psEx = 5001 ∧ operatorRank (psEx.map (instantiateParam (single 0 rEx))) = 2603 := by decide
example : ∀ k v w, keyRankT k rEx v = some w → keyRankParams k psEx = none := by
  intro k v w h
  cases k with
  | ts n =>
    have hn : n = 9 := by
      simp [rEx, keyRankT, keyRankS] at h
      exact h.1
    subst hn
    decide
  | sc n =>
    have hn : n = 3 := by
      simp [rEx, keyRankT, keyRankS] at h
      exact h.1
    subst hn
    decide
/-- `addVar_min` / `rank_repeated_var_most_specific` are not vacuous: in `f(~T, TSL[~T,~N])` the variable `T`
    costs 10000 in the first parameter and 5000 in the second, the accumulator keeps 5000 (in either parameter
    order), and the rank is 5001 — not 10001 -/
example : keyRankParam (.ts 0) (.input (.var 0 [])) = some 10000 ∧
    keyRankParam (.ts 0) (.input (.tsl (.var 0 []) (.var 5 []))) = some 5000 ∧
    lookup (rankAcc psEx).vars (.ts 0) = some 5000 ∧ lookup (rankAcc psEx.reverse).vars (.ts 0) = some 5000 ∧
    operatorRank psEx = 5001 ∧ operatorRank psEx.reverse = 5001 := by decide
/-- the critical pair: `A(~T, TSL[~T,~N])` (5001) against `B(TS[~s], TSL[~U,~N])` (5102) on
    `(TS[int], TSL[TS[int],2])`: `A` wins in both registration orders (with 10001 for `A`, `B` would) -/
private def ovDepthA : Overload := { label := 20, params := psEx, out := some (.var 0 []) }
private def ovDepthB : Overload :=
  { label := 21, params := [.input (.ts (.var 1 [])), .input (.tsl (.var 2 []) (.var 5 []))], out := some (.var 2 []) }
private def argsDepth : List Arg := [.ts (.ts 1), .ts (.tsl (.ts 1) 2)]
example : operatorRank ovDepthB.params = 5102 ∧
    resolveCall [ovDepthA, ovDepthB] argsDepth
      = .winner ⟨ovDepthA, { ts := [(0, .ts 1)], sz := [(5, 2)] }, 5001⟩ (some (.ts 1)) ∧
    resolveCall [ovDepthB, ovDepthA] argsDepth
      = .winner ⟨ovDepthA, { ts := [(0, .ts 1)], sz := [(5, 2)] }, 5001⟩ (some (.ts 1)) := by decide
/-- `tsb_pattern_requires_same_fields` is not vacuous, and the count test is what rejects a wider bundle: the pattern
    `TSB[a:~T, b:~T]` (fields 7, 8) accepts `REF[TSB[a:TS[int], b:TS[int]]]`, and rejects the bundle that carries a
    trailing field `c` (9), the one that lacks `b`, the re-ordered one and the one whose second field is named `c` -/
private def pairPat : TP := .tsb none (.cons 7 (.var 0 []) (.cons 8 (.var 0 []) .nil))
example : inMatch pairPat (.ref (.tsb none (.cons 7 (.ts 1) (.cons 8 (.ts 1) .nil)))) RMap.empty = some { ts := [(0, .ts 1)] } ∧
    inMatch pairPat (.tsb none (.cons 7 (.ts 1) (.cons 8 (.ts 1) (.cons 9 (.ts 3) .nil)))) RMap.empty = none ∧
    inMatch pairPat (.tsb none (.cons 7 (.ts 1) .nil)) RMap.empty = none ∧
    inMatch pairPat (.tsb none (.cons 8 (.ts 1) (.cons 7 (.ts 1) .nil))) RMap.empty = none ∧
    inMatch pairPat (.tsb none (.cons 7 (.ts 1) (.cons 9 (.ts 1) .nil))) RMap.empty = none ∧
    inMatch (.tsl pairPat (.fixed 0)) (.tsl (.tsb none (.cons 7 (.ts 1) (.cons 8 (.ts 1) (.cons 9 (.ts 3) .nil)))) 2) RMap.empty
      = none := by decide
/-- so a call with the wider bundle falls through to the `~X` fallback, in both registration orders, and with the
    pair pattern alone it is a resolution error -/
private def ovPair : Overload := { label := 30, params := [.input pairPat], out := some (.var 0 []) }
private def ovAny : Overload := { label := 31, params := [.input (.var 4 [])], out := some (.var 4 []) }
private def wideBundle : CT := .tsb none (.cons 7 (.ts 1) (.cons 8 (.ts 1) (.cons 9 (.ts 3) .nil)))
example : resolveCall [ovPair, ovAny] [.ts wideBundle] = .winner ⟨ovAny, { ts := [(4, wideBundle)] }, 10000⟩ (some wideBundle) ∧
    resolveCall [ovAny, ovPair] [.ts wideBundle] = .winner ⟨ovAny, { ts := [(4, wideBundle)] }, 10000⟩ (some wideBundle) ∧
    resolveCall [ovPair] [.ts wideBundle] = .noMatch := by decide
/-- `inst_subst_exact`'s hypotheses hold there: the resolved type `TSL[TS[int],2]` has no wildcard -/
example : subst (.tsl (.var 0 []) (.var 5 [])) { ts := [(0, .ts 1)], sz := [(5, 2)] } = some (.tsl (.ts 1) 2) ∧
    noWild (derefAll (.tsl (.ts 1) 2)) = true := by decide
end Examples

end HgVerif.Dispatch
