import HgVerif.Lemmas.Realtime
import HgVerif.Props.C18
/-!
# C17 — the real-time loop never runs early, never drops a wake-up, always stops

Model: `HgVerif/Model/Realtime.lean` (`run_storage` with `advance_realtime` of `executor.cpp`,
wall-clock alarm admission of `node_scheduler.h`, the scripted graph of `harness/drv_realtime.cpp`).
All theorems quantify over every configuration `cfg` (run window, slice, node scripts, events
around cycles) and every environment script `evs` played at the wait points — i.e. over all
arrival times of clock advances, pushes, stop requests, time-outs and spurious wake-ups.
The `…_from` forms hold from any loop state satisfying the invariant `Inv` (every reachable
state does: `inv_reachable`), for any number of remaining iterations.

* `rt_times_strict`      evaluation times strictly increase and lie in `[start, end)`.
* `rt_at_exact_T`        a wake-up armed for `T < end` is evaluated in a cycle at exactly `T`, with
                         no cycle at or past `T` before it — unless the run ends first, and then
                         not by reaching `end_time` (a stop request or the drain cut-off).
* `rt_not_early`         under the clock hypothesis every cycle's logical time is ≤ the wall clock;
  `rt_early_without_clock_hypothesis` is the counterexample without it.
* `rt_stop`              no cycle begins after a stop request was recorded; the run then reports `stop`.
  `rt_terminates`        the run always ends (the loop needs at most `end - start + 2` iterations).
* `rt_no_drop`           a run that reaches `end_time` delivered every wake-up armed before `end`;
  `rt_alarm_never_dropped` an `on_wall_clock` request always inserts an event, at the requested
                         time when that is in the future, else at the next evaluatable time;
  `rt_cutoff_only_busy_past_end` the cut-off needs wall ≥ end and ≥ 1024 trailing MIN_TD cycles.
* `rt_wait_returns_on_signal`, `rt_no_missed_signal` the waiting loop never sleeps through a
                         push/stop signal (run-loop level and lock-level protocol model).
-/
namespace HgVerif.Realtime
open HgVerif.NodeSched (NS WF)

/-! ## every reachable loop state satisfies the invariant -/

inductive Reachable (cfg : Cfg) (evs : List WEv) : LoopSt → Prop where
  | init : Reachable cfg evs (initSt cfg evs).1
  | step {st st' : LoopSt} {ents : List Entry} : Reachable cfg evs st → iter cfg st = .cont st' ents →
      Reachable cfg evs st'

theorem inv_reachable (cfg : Cfg) (evs : List WEv) (hse : cfg.start < cfg.endT) {st : LoopSt}
    (h : Reachable cfg evs st) : Inv cfg st := by
  induction h with
  | init => exact (init_spec cfg evs hse).1
  | step _ hit ih =>
    obtain ⟨_, _, _, _, _, _, _, _, _, _, _, _, _, _, _, _, hinv, _⟩ := iter_cont ih hit
    exact hinv

/-! ## strictly increasing evaluation times -/

/-- every time is above the previous one (`strict`) or at least it (first cycle), and below `hi` -/
def StrictFrom : Bool → Nat → Nat → List CycleRec → Prop
  | _, _, _, [] => True
  | strict, lo, hi, c :: cs => (if strict then lo < c.t else lo ≤ c.t) ∧ c.t < hi ∧ StrictFrom true c.t hi cs

theorem strictFrom_gt {lo hi : Nat} {cs : List CycleRec} (h : StrictFrom true lo hi cs) :
    ∀ c ∈ cs, lo < c.t ∧ c.t < hi := by
  induction cs generalizing lo with
  | nil => simp
  | cons c cs ih =>
    obtain ⟨h1, h2, h3⟩ := h
    simp only [if_true] at h1
    intro x hx
    simp only [List.mem_cons] at hx
    rcases hx with rfl | hx
    · exact ⟨h1, h2⟩
    · have := ih h3 x hx; omega

theorem strictFrom_bounds {strict : Bool} {lo hi : Nat} {cs : List CycleRec} (h : StrictFrom strict lo hi cs) :
    (∀ c ∈ cs, lo ≤ c.t ∧ c.t < hi) ∧ List.Pairwise (fun a b => a < b) (cs.map (·.t)) := by
  induction cs generalizing strict lo with
  | nil => simp
  | cons c cs ih =>
    obtain ⟨h1, h2, h3⟩ := h
    have hlo : lo ≤ c.t := by cases strict <;> simp at h1 <;> omega
    have hgt := strictFrom_gt h3
    refine ⟨?_, ?_⟩
    · intro x hx
      simp only [List.mem_cons] at hx
      rcases hx with rfl | hx
      · exact ⟨hlo, h2⟩
      · have := hgt x hx; omega
    · simp only [List.map_cons, List.pairwise_cons, List.mem_map, forall_exists_index, and_imp,
        forall_apply_eq_imp_iff₂]
      exact ⟨fun x hx => (hgt x hx).1, (ih h3).2⟩

theorem rt_times_strict_from (cfg : Cfg) (fuel : Nat) (st : LoopSt) (hinv : Inv cfg st) :
    StrictFrom (decide (st.k ≠ 0)) st.evalTime cfg.endT (cycles (runLoop cfg fuel st).log) := by
  induction fuel generalizing st with
  | zero => simp [runLoop, cycles, StrictFrom]
  | succ fuel ih =>
    simp only [runLoop]
    cases hit : iter cfg st with
    | done r st' ents =>
      simp only
      rw [cycles_waited ents (iter_done hinv hit).1]
      trivial
    | cont st' ents =>
      simp only
      obtain ⟨ws, c, hents, hws, _, hev, hk, hlt, h0, h1, _, _, _, _, _, _, hinv', _⟩ := iter_cont hinv hit
      rw [cycles_append, hents, cycles_append, cycles_waited ws (fun e he => (hws e he).1)]
      simp only [cycles, List.nil_append, List.cons_append]
      refine ⟨?_, hlt, ?_⟩
      · by_cases hk0 : st.k = 0
        · simp [hk0]; exact h0 hk0
        · simp [hk0]; exact h1 hk0
      · have := ih st' hinv'
        rw [hk, hev] at this
        simpa using this

/-- **C17.** In every run the evaluation times are strictly increasing and lie in `[start, end)`. -/
theorem rt_times_strict (cfg : Cfg) (evs : List WEv) (hse : cfg.start < cfg.endT) :
    List.Pairwise (fun a b => a < b) ((cycles (run cfg evs).log).map (·.t)) ∧
    ∀ c ∈ cycles (run cfg evs).log, cfg.start ≤ c.t ∧ c.t < cfg.endT := by
  obtain ⟨hinv, hk, het, hcy, _, _⟩ := init_spec cfg evs hse
  have h := rt_times_strict_from cfg (runFuel cfg) (initSt cfg evs).1 hinv
  rw [het] at h
  have hb := strictFrom_bounds h
  have hlog : cycles (run cfg evs).log = cycles (runLoop cfg (runFuel cfg) (initSt cfg evs).1).log := by
    unfold run
    simp only [cycles_append, hcy, List.nil_append]
    simp [cycles]
  rw [hlog]
  exact ⟨hb.2, hb.1⟩

/-! ## a scheduled wake-up is evaluated at exactly its time -/

/-- **C17.** From any loop state in which node `j` has a wake-up armed for `T < end`:
    the rest of the run contains a cycle at exactly `T` that evaluates the node, and every
    cycle before it is earlier than `T` (the wake-up is neither skipped nor delivered at another
    time) — or the run ends before `T` is reached, and then it did not end by reaching
    `end_time` (only a stop request, the drain cut-off, or running out of the given iterations). -/
theorem rt_at_exact_T (cfg : Cfg) (fuel : Nat) (st : LoopSt) (hinv : Inv cfg st) (j T : Nat)
    (harm : Armed cfg st j T) (hT : T < cfg.endT) :
    (∃ pre c post, cycles (runLoop cfg fuel st).log = pre ++ c :: post ∧ c.t = T ∧
        (∃ k toks, (j + 1, k, toks) ∈ c.nodes) ∧ ∀ c' ∈ pre, c'.t < T) ∨
    ((runLoop cfg fuel st).reason ≠ .endReached ∧ ∀ c ∈ cycles (runLoop cfg fuel st).log, c.t < T) := by
  induction fuel generalizing st with
  | zero => right; simp [runLoop, cycles]
  | succ fuel ih =>
    simp only [runLoop]
    cases hit : iter cfg st with
    | done r st' ents =>
      simp only
      obtain ⟨hw, _, _, _, _, hend, _, _⟩ := iter_done hinv hit
      right
      rw [cycles_waited ents hw]
      refine ⟨?_, by simp⟩
      intro hr
      have := hend hr j T harm
      omega
    | cont st' ents =>
      simp only
      obtain ⟨ws, c, hents, hws, _, _, _, _, _, _, _, _, _, _, _, _, hinv', harmed, _⟩ := iter_cont hinv hit
      obtain ⟨hle, heq, hgt⟩ := harmed j T harm
      rw [cycles_append, hents, cycles_append, cycles_waited ws (fun e he => (hws e he).1)]
      simp only [cycles, List.nil_append, List.cons_append]
      by_cases hc : T = c.t
      · left
        exact ⟨[], c, _, rfl, hc.symm, heq hc, by simp⟩
      · have hlt : c.t < T := by omega
        rcases ih st' hinv' (hgt hlt) with ⟨pre, d, post, h1, h2, h3, h4⟩ | ⟨h1, h2⟩
        · left
          refine ⟨c :: pre, d, post, by rw [h1]; rfl, h2, h3, ?_⟩
          intro x hx
          simp only [List.mem_cons] at hx
          rcases hx with rfl | hx
          · exact hlt
          · exact h4 x hx
        · right
          refine ⟨h1, ?_⟩
          intro x hx
          simp only [List.mem_cons] at hx
          rcases hx with rfl | hx
          · exact hlt
          · exact h2 x hx

/-- **C17.** A run that ends by reaching `end_time` has delivered every wake-up that was armed for
    a time before `end_time` at any point of the run, at exactly its time — late on the wall clock
    if the graph lags, but never dropped. -/
theorem rt_no_drop (cfg : Cfg) (fuel : Nat) (st : LoopSt) (hinv : Inv cfg st) (j T : Nat)
    (harm : Armed cfg st j T) (hT : T < cfg.endT) (hend : (runLoop cfg fuel st).reason = .endReached) :
    ∃ c ∈ cycles (runLoop cfg fuel st).log, c.t = T ∧ ∃ k toks, (j + 1, k, toks) ∈ c.nodes := by
  rcases rt_at_exact_T cfg fuel st hinv j T harm hT with ⟨pre, c, post, h1, h2, h3, _⟩ | ⟨h1, _⟩
  · exact ⟨c, by rw [h1]; simp, h2, h3⟩
  · exact absurd hend h1

/-! ## never early -/

/-- what the formula `min(target, max(wall_now, previous + MIN_TD))` gives per cycle -/
def Chain : Nat → List CycleRec → Prop
  | _, [] => True
  | p, c :: cs => c.t ≤ max c.wall (p + 1) ∧ Chain c.t cs

theorem chain_from (cfg : Cfg) (fuel : Nat) (st : LoopSt) (hinv : Inv cfg st) :
    Chain st.evalTime (cycles (runLoop cfg fuel st).log) := by
  induction fuel generalizing st with
  | zero => simp [runLoop, cycles, Chain]
  | succ fuel ih =>
    simp only [runLoop]
    cases hit : iter cfg st with
    | done r st' ents =>
      simp only
      rw [cycles_waited ents (iter_done hinv hit).1]
      trivial
    | cont st' ents =>
      simp only
      obtain ⟨ws, c, hents, hws, _, hev, _, _, _, _, hmax, _, _, _, _, _, hinv', _⟩ := iter_cont hinv hit
      rw [cycles_append, hents, cycles_append, cycles_waited ws (fun e he => (hws e he).1)]
      simp only [cycles, List.nil_append, List.cons_append]
      refine ⟨hmax, ?_⟩
      have := ih st' hinv'
      rw [hev] at this
      exact this

/-- successive cycles' clock reads differ by at least `MIN_TD` -/
def Gaps : List CycleRec → Prop
  | c1 :: c2 :: cs => c1.wall + 1 ≤ c2.wall ∧ Gaps (c2 :: cs)
  | _ => True

/-- The environment hypothesis of `rt_not_early`: the run does not start in the future
    (`start ≤ wall0`, the clock is monotone), a cycle takes at least a microsecond of wall-clock
    time, and the same holds between the start of the run and the first cycle unless that cycle
    is the start cycle itself. -/
def ClockHyp (start wall0 : Nat) : List CycleRec → Prop
  | [] => True
  | c :: cs => start ≤ wall0 ∧ wall0 ≤ c.wall ∧ (c.t = start ∨ wall0 + 1 ≤ c.wall) ∧ Gaps (c :: cs)

instance decGaps : (l : List CycleRec) → Decidable (Gaps l)
  | [] => isTrue trivial
  | [_] => isTrue trivial
  | c1 :: c2 :: cs =>
    have : Decidable (Gaps (c2 :: cs)) := decGaps (c2 :: cs)
    inferInstanceAs (Decidable (c1.wall + 1 ≤ c2.wall ∧ Gaps (c2 :: cs)))

instance decClockHyp (start wall0 : Nat) : (l : List CycleRec) → Decidable (ClockHyp start wall0 l)
  | [] => isTrue trivial
  | c :: cs =>
    inferInstanceAs (Decidable (start ≤ wall0 ∧ wall0 ≤ c.wall ∧ (c.t = start ∨ wall0 + 1 ≤ c.wall) ∧ Gaps (c :: cs)))

theorem not_early_of_chain {pt pw : Nat} {cs : List CycleRec} (hp : pt ≤ pw)
    (hgap : ∀ c, cs.head? = some c → pw + 1 ≤ c.wall) (hch : Chain pt cs) (hg : Gaps cs) :
    ∀ c ∈ cs, c.t ≤ c.wall := by
  induction cs generalizing pt pw with
  | nil => simp
  | cons c cs ih =>
    obtain ⟨h1, h2⟩ := hch
    have hw := hgap c rfl
    have hc : c.t ≤ c.wall := by omega
    intro x hx
    simp only [List.mem_cons] at hx
    rcases hx with rfl | hx
    · exact hc
    · cases cs with
      | nil => simp at hx
      | cons d ds =>
        obtain ⟨g1, g2⟩ := hg
        exact ih hc (by intro e he; simp at he; subst he; exact g1) h2 g2 x hx

/-- **C17.** Under the clock hypothesis no cycle is evaluated before the wall clock has reached
    its logical time (in particular a node scheduled for `T` never runs while the wall clock is
    still before `T`). -/
theorem rt_not_early (cfg : Cfg) (evs : List WEv) (hse : cfg.start < cfg.endT)
    (hyp : ClockHyp cfg.start cfg.wall0 (cycles (run cfg evs).log)) :
    ∀ c ∈ cycles (run cfg evs).log, c.t ≤ c.wall := by
  obtain ⟨hinv, hk, het, hcy, _, _⟩ := init_spec cfg evs hse
  have hch := chain_from cfg (runFuel cfg) (initSt cfg evs).1 hinv
  rw [het] at hch
  have hlog : cycles (run cfg evs).log = cycles (runLoop cfg (runFuel cfg) (initSt cfg evs).1).log := by
    unfold run
    simp only [cycles_append, hcy, List.nil_append]
    simp [cycles]
  rw [hlog] at hyp ⊢
  generalize cycles (runLoop cfg (runFuel cfg) (initSt cfg evs).1).log = cs at hyp hch
  cases cs with
  | nil => simp
  | cons c cs =>
    obtain ⟨h1, h2, h3, h4⟩ := hyp
    obtain ⟨c1, c2⟩ := hch
    have hc : c.t ≤ c.wall := by
      rcases h3 with h3 | h3
      · omega
      · omega
    intro x hx
    simp only [List.mem_cons] at hx
    rcases hx with rfl | hx
    · exact hc
    · cases cs with
      | nil => simp at hx
      | cons d ds =>
        obtain ⟨g1, g2⟩ := h4
        exact not_early_of_chain hc (by intro e he; simp at he; subst he; exact g1) c2 g2 x hx

/-- the run-ahead scenario: the run starts exactly on the clock, is 5 µs into it, and two values
    are pushed within the same microsecond (no clock advance in between, a cycle that costs less
    than a microsecond) -/
def aheadCfg : Cfg := { start := 1000, endT := 1040, slice := 50, wall0 := 1005, cost := 0, scripts := [] }
def aheadEvs : List WEv := [.env (.push 1), .env (.push 2)]

/-- **C17 (counterexample kept).** Without "successive clock reads differ by ≥ MIN_TD" logical
    time runs ahead of the wall clock: the second push is evaluated at logical time 1006 while
    the wall clock still reads 1005. -/
theorem rt_early_without_clock_hypothesis :
    aheadCfg.start ≤ aheadCfg.wall0 ∧
    (cycles (run aheadCfg aheadEvs).log).map (fun c => (c.t, c.wall, c.delivered)) =
      [(1005, 1005, some 1), (1006, 1005, some 2)] := by
  decide

/-! ## stop requests and termination -/

/-- no cycle begins after an entry that records a stop request (the entry may itself be the
    cycle during which the request arrived: that cycle completes) -/
def NoCycleAfterStop : List Entry → Prop
  | [] => True
  | e :: rest => (entryHasStop e = true → cycles rest = []) ∧ NoCycleAfterStop rest

theorem noCycleAfterStop_append_clean (ws l : List Entry) (h : ∀ e ∈ ws, entryHasStop e = false)
    (hl : NoCycleAfterStop l) : NoCycleAfterStop (ws ++ l) := by
  induction ws with
  | nil => exact hl
  | cons e rest ih =>
    refine ⟨?_, ih (fun x hx => h x (by simp [hx]))⟩
    intro hs
    rw [h e (by simp)] at hs
    simp at hs

theorem noCycleAfterStop_waited (l : List Entry) (h : ∀ e ∈ l, isWaited e = true) : NoCycleAfterStop l := by
  induction l with
  | nil => trivial
  | cons e rest ih =>
    have hr : ∀ x ∈ rest, isWaited x = true := fun x hx => h x (by simp [hx])
    exact ⟨fun _ => cycles_waited rest hr, ih hr⟩

theorem rt_stop_from (cfg : Cfg) (fuel : Nat) (st : LoopSt) (hinv : Inv cfg st) :
    NoCycleAfterStop (runLoop cfg fuel st).log ∧
    (st.sh.stopReq = true → cycles (runLoop cfg fuel st).log = []) ∧
    (∀ e ∈ (runLoop cfg fuel st).log, entryHasStop e = true →
      (runLoop cfg fuel st).reason = .stop ∨ (runLoop cfg fuel st).reason = .fuel) ∧
    (st.sh.stopReq = true → (runLoop cfg fuel st).reason = .stop ∨ (runLoop cfg fuel st).reason = .fuel) := by
  induction fuel generalizing st with
  | zero => simp [runLoop, cycles, NoCycleAfterStop]
  | succ fuel ih =>
    simp only [runLoop]
    cases hit : iter cfg st with
    | done r st' ents =>
      simp only
      obtain ⟨hw, _, hemp, hstop, htok, _, _, _⟩ := iter_done hinv hit
      refine ⟨noCycleAfterStop_waited ents hw, fun _ => cycles_waited ents hw, fun e he hs => Or.inl (htok e he hs), ?_⟩
      intro hs
      left
      unfold iter at hit
      simp [hs] at hit
      exact hit.1.symm
    | cont st' ents =>
      simp only
      obtain ⟨ws, c, hents, hws, hnostop, _, _, _, _, _, _, _, _, _, hcstop, _, hinv', _⟩ := iter_cont hinv hit
      obtain ⟨i1, i2, i3, i4⟩ := ih st' hinv'
      refine ⟨?_, ?_, ?_, ?_⟩
      · rw [hents, List.append_assoc]
        apply noCycleAfterStop_append_clean ws _ (fun e he => (hws e he).2)
        exact ⟨fun hs => i2 (hcstop hs), i1⟩
      · intro hs; rw [hnostop] at hs; simp at hs
      · intro e he hs
        simp only [List.mem_append] at he
        rcases he with he | he
        · rw [hents] at he
          simp only [List.mem_append, List.mem_singleton] at he
          rcases he with he | rfl
          · rw [(hws e he).2] at hs; simp at hs
          · exact i4 (hcstop hs)
        · exact i3 e he hs
      · intro hs; rw [hnostop] at hs; simp at hs

/-- the loop needs at most `end - evaluation_time` further iterations (one more before the first
    cycle), whatever the environment does -/
theorem rt_terminates_from (cfg : Cfg) (fuel : Nat) (st : LoopSt) (hinv : Inv cfg st)
    (hf : cfg.endT - st.evalTime + (if st.k = 0 then 1 else 0) < fuel) :
    (runLoop cfg fuel st).reason ≠ .fuel := by
  induction fuel generalizing st with
  | zero => omega
  | succ fuel ih =>
    simp only [runLoop]
    cases hit : iter cfg st with
    | done r st' ents => exact (iter_done hinv hit).2.1
    | cont st' ents =>
      simp only
      obtain ⟨ws, c, _, _, _, hev, hk, hlt, h0, h1, _, _, _, _, _, _, hinv', _⟩ := iter_cont hinv hit
      apply ih st' hinv'
      rw [hk, hev]
      simp only [Nat.add_one_ne_zero, if_false, Nat.add_zero]
      by_cases hk0 : st.k = 0
      · have := h0 hk0; simp only [hk0, if_true] at hf; omega
      · have := h1 hk0; simp only [hk0, if_false] at hf; omega

/-- **C17.** The run always terminates, whatever the environment does. -/
theorem rt_terminates (cfg : Cfg) (evs : List WEv) (hse : cfg.start < cfg.endT) :
    (run cfg evs).reason ≠ .fuel := by
  obtain ⟨hinv, hk, het, _, _, _⟩ := init_spec cfg evs hse
  have := rt_terminates_from cfg (runFuel cfg) (initSt cfg evs).1 hinv
    (by rw [het, hk]; simp only [if_true]; unfold runFuel; omega)
  simpa [run] using this

/-- **C17.** A stop request — arriving while the loop waits, before or after a cycle, or inside
    node evaluation — ends the run after the current cycle: no cycle begins after an entry that
    records a stop request, and the run then reports `stop` (and it always terminates). -/
theorem rt_stop (cfg : Cfg) (evs : List WEv) (hse : cfg.start < cfg.endT) :
    NoCycleAfterStop (run cfg evs).log ∧
    ((∃ e ∈ (run cfg evs).log, entryHasStop e = true) → (run cfg evs).reason = .stop) := by
  obtain ⟨hinv, hk, het, hcy, _, hstart⟩ := init_spec cfg evs hse
  obtain ⟨s1, s2, s3, s4⟩ := rt_stop_from cfg (runFuel cfg) (initSt cfg evs).1 hinv
  have hterm := rt_terminates cfg evs hse
  have hreason : (run cfg evs).reason = (runLoop cfg (runFuel cfg) (initSt cfg evs).1).reason := by simp [run]
  have hlog : (run cfg evs).log = (initSt cfg evs).2 ++
      ((runLoop cfg (runFuel cfg) (initSt cfg evs).1).log ++
        [.fin (runLoop cfg (runFuel cfg) (initSt cfg evs).1).reason (runLoop cfg (runFuel cfg) (initSt cfg evs).1).st.sh.wall]) := by
    simp [run]
  constructor
  · rw [hlog]
    -- start entries: a stop there means the loop never evaluates
    have hfin : ∀ l : List Entry, NoCycleAfterStop l → ∀ r w, NoCycleAfterStop (l ++ [.fin r w]) := by
      intro l hl r w
      induction l with
      | nil => exact ⟨fun h => by simp [entryHasStop] at h, trivial⟩
      | cons e rest ih =>
        refine ⟨fun hs => ?_, ih hl.2⟩
        show cycles (rest ++ [Entry.fin r w]) = []
        rw [cycles_append, hl.1 hs]; simp [cycles]
    have hloop := hfin _ s1 (runLoop cfg (runFuel cfg) (initSt cfg evs).1).reason
      (runLoop cfg (runFuel cfg) (initSt cfg evs).1).st.sh.wall
    generalize hL : (runLoop cfg (runFuel cfg) (initSt cfg evs).1).log ++
        [.fin (runLoop cfg (runFuel cfg) (initSt cfg evs).1).reason (runLoop cfg (runFuel cfg) (initSt cfg evs).1).st.sh.wall] = L
      at hloop
    have hcyL : (∃ e ∈ (initSt cfg evs).2, entryHasStop e = true) → cycles L = [] := by
      rintro ⟨e, he, hs⟩
      rw [← hL, cycles_append, s2 (hstart e he hs)]
      simp [cycles]
    generalize (initSt cfg evs).2 = I at hcy hcyL
    induction I with
    | nil => exact hloop
    | cons e rest ih =>
      have hcr : cycles rest = [] := by
        cases e <;> simp [cycles] at hcy <;> exact hcy
      refine ⟨fun hs => ?_, ih hcr (fun ⟨x, hx, hxs⟩ => hcyL ⟨x, by simp [hx], hxs⟩)⟩
      show cycles (rest ++ L) = []
      rw [cycles_append, hcr, hcyL ⟨e, by simp, hs⟩]
      rfl
  · rintro ⟨e, he, hs⟩
    rw [hlog] at he
    rw [hreason] at hterm ⊢
    simp only [List.mem_append, List.mem_singleton] at he
    rcases he with he | he | rfl
    · rcases s4 (hstart e he hs) with h | h
      · exact h
      · exact absurd h hterm
    · rcases s3 e he hs with h | h
      · exact h
      · exact absurd h hterm
    · simp [entryHasStop] at hs

/-! ## the drain cut-off -/

/-- `consecutive_immediate_cycles` as a function of the trace: the number of trailing cycles that
    advanced the evaluation time by exactly `MIN_TD` -/
def trailing : Nat × Nat → List CycleRec → Nat × Nat
  | pc, [] => pc
  | (p, n), c :: cs => trailing (c.t, if c.t = p + 1 then n + 1 else 0) cs

theorem consec_is_trailing (cfg : Cfg) (fuel : Nat) (st : LoopSt) (hinv : Inv cfg st) :
    (runLoop cfg fuel st).st.consec =
      (trailing (st.evalTime, st.consec) (cycles (runLoop cfg fuel st).log)).2 ∨
    (runLoop cfg fuel st).reason = .fuel := by
  induction fuel generalizing st with
  | zero => right; rfl
  | succ fuel ih =>
    simp only [runLoop]
    cases hit : iter cfg st with
    | done r st' ents =>
      simp only
      left
      rw [cycles_waited ents (iter_done hinv hit).1]
      unfold iter at hit
      simp only [trailing]
      split at hit
      · simp only [Iter.done.injEq] at hit; rw [← hit.2.1]
      · simp only at hit
        split at hit
        · simp only [Iter.done.injEq] at hit; rw [← hit.2.1]
        · split at hit
          · simp only [Iter.done.injEq] at hit; rw [← hit.2.1]
          · simp at hit
    | cont st' ents =>
      simp only
      obtain ⟨ws, c, hents, hws, _, hev, _, _, _, _, _, _, _, _, _, hcon, hinv', _⟩ := iter_cont hinv hit
      rw [cycles_append, hents, cycles_append, cycles_waited ws (fun e he => (hws e he).1)]
      simp only [cycles, List.nil_append, List.cons_append, trailing]
      rcases ih st' hinv' with h | h
      · left; rw [h, hev, hcon]
      · right; exact h

/-- **C17.** The run is cut short (ends with wake-ups still pending before `end_time`, without a
    stop request) only when the wall clock has passed `end_time` and at least
    `max_immediate_drain_cycles` = 1024 trailing cycles each advanced by exactly `MIN_TD`. -/
theorem rt_cutoff_only_busy_past_end (cfg : Cfg) (fuel : Nat) (st : LoopSt) (hinv : Inv cfg st)
    (hcut : (runLoop cfg fuel st).reason = .cutoff) :
    cfg.endT ≤ (runLoop cfg fuel st).st.sh.wall ∧
    1024 ≤ (trailing (st.evalTime, st.consec) (cycles (runLoop cfg fuel st).log)).2 := by
  have htr := consec_is_trailing cfg fuel st hinv
  have key : cfg.endT ≤ (runLoop cfg fuel st).st.sh.wall ∧ drainLimit ≤ (runLoop cfg fuel st).st.consec := by
    clear htr
    induction fuel generalizing st with
    | zero => simp [runLoop] at hcut
    | succ fuel ih =>
      simp only [runLoop] at hcut ⊢
      cases hit : iter cfg st with
      | done r st' ents =>
        simp only [hit] at hcut ⊢
        obtain ⟨_, _, _, _, _, _, _, hc⟩ := iter_done hinv hit
        obtain ⟨c1, c2⟩ := hc hcut
        refine ⟨c1, ?_⟩
        unfold iter at hit
        split at hit
        · simp only [Iter.done.injEq] at hit; rw [← hit.2.1]; exact c2
        · simp only at hit
          split at hit
          · simp only [Iter.done.injEq] at hit; rw [← hit.2.1]; exact c2
          · split at hit
            · simp only [Iter.done.injEq] at hit; rw [← hit.2.1]; exact c2
            · simp at hit
      | cont st' ents =>
        simp only [hit] at hcut ⊢
        obtain ⟨_, _, _, _, _, _, _, _, _, _, _, _, _, _, _, _, hinv', _⟩ := iter_cont hinv hit
        exact ih st' hinv' hcut
  rcases htr with h | h
  · rw [← h]; exact ⟨key.1, key.2⟩
  · rw [h] at hcut; simp at hcut

/-! ## wall-clock alarms are re-timed, never dropped -/

/-- **C17.** An `on_wall_clock` request issued at evaluation time `now` with the wall clock at
    `wall` always inserts an event into the node's scheduler (it is never rejected by the
    future-only guard): at the requested time `w` when that is later than `max(now, wall)`;
    when it is already due, at `max(now + MIN_TD, wall)` for a started node — the next
    evaluatable time — and at `max(now, wall)` during `start`.  The event is strictly after `now`
    for a started node, so the C18 wake-up chain (`armed_after_eval`) and `rt_at_exact_T` deliver it. -/
theorem rt_alarm_never_dropped {s : NS} (h : WF s) (now wall : Nat) (started : Bool) (w : Nat) :
    (wallTime now (max now wall) started w, 0) ∈
      (NodeSched.schedule s now started (wallTime now (max now wall) started w) 0).1.events ∧
    (max now wall < w → wallTime now (max now wall) started w = w) ∧
    (started = true → w ≤ max now wall → wallTime now (max now wall) started w = max (now + 1) (max now wall)) ∧
    (started = false → w < max now wall → wallTime now (max now wall) started w = max now wall) ∧
    (started = true → now < wallTime now (max now wall) started w) ∧
    now ≤ wallTime now (max now wall) started w := by
  have hacc : NodeSched.rejected now started (wallTime now (max now wall) started w) = false := by
    unfold NodeSched.rejected wallTime
    cases started <;> simp <;> split <;> omega
  refine ⟨?_, ?_, ?_, ?_, ?_, ?_⟩
  · rw [NodeSched.mem_schedule h now started _ 0 hacc]
    left; rfl
  · intro hw; unfold wallTime; cases started <;> simp <;> omega
  · intro hs hw; subst hs; unfold wallTime; simp [hw]
  · intro hs hw; subst hs; unfold wallTime; simp [hw]
  · intro hs; subst hs; unfold wallTime; simp only [if_true]; split <;> omega
  · unfold wallTime; cases started <;> simp <;> split <;> omega

/-! ## a signal is never slept through -/

/-- **C17.** The wait reports exactly the predicate (`wait_for` returns `wake_requested()`), it
    ends at the first event after which a push mark or a stop request is visible — without
    consuming a further event and without the clock moving on — and a wait that reports a
    time-out has moved the clock by at least the requested duration. -/
theorem rt_wait_returns_on_signal (r : Nat) (e : WEv) (rest : List WEv) (s : Sh) (toks : List Tok) :
    (waitOnce r (e :: rest) s toks).woken = wakeRequested (waitOnce r (e :: rest) s toks).sh ∧
    (wakeRequested (wevStep r e s).sh = true →
      (waitOnce r (e :: rest) s toks).woken = true ∧ (waitOnce r (e :: rest) s toks).evs = rest ∧
      (waitOnce r (e :: rest) s toks).sh = (wevStep r e s).sh) ∧
    ((waitOnce r (e :: rest) s toks).woken = false → s.wall + r ≤ (waitOnce r (e :: rest) s toks).sh.wall) := by
  refine ⟨waitOnce_woken _ _ _ _, ?_, waitOnce_timeout _ _ _ _⟩
  intro h
  simp [waitOnce, h]

/-- a push accepted while the queue is empty, and a stop request, make the predicate true -/
theorem signal_sets_predicate (s : Sh) (v : Nat) :
    wakeRequested (playEnv .stop s).1 = true ∧
    ((trySend v s).2 = true → s.queue = [] → wakeRequested (trySend v s).1 = true) := by
  constructor
  · simp [playEnv, reqStop, wakeRequested]
  · unfold trySend wakeRequested
    intro h hq
    by_cases hs : s.stopReq = true
    · simp [hs] at h
    · by_cases ha : s.accepting = true
      · simp [hs, ha, hq, mark]
      · simp [hs, ha] at h

namespace Sig

/-- the lock discipline and the no-missed-signal invariant of the protocol model -/
structure Good (s : P) : Prop where
  loop_owns : s.mutex = some .loop ↔ (s.lpc = .locked ∨ ∃ b, s.lpc = .read b)
  sig_owns : ∀ i, s.mutex = some (.sig i) ↔ (s.spc i = .locked ∨ s.spc i = .set)
  seen_ok : ∀ b, s.lpc = .read b → b = s.flag
  no_missed : s.lpc = .waiting → s.flag = true → s.notified = true ∨ ∃ i, s.spc i = .set ∨ s.spc i = .unlocked

theorem upd_same (f : Nat → SPc) (i : Nat) (v : SPc) : upd f i v i = v := by simp [upd]
theorem upd_other (f : Nat → SPc) (i j : Nat) (v : SPc) (h : j ≠ i) : upd f i v j = f j := by simp [upd, h]

theorem good_step {s s' : P} (hg : Good s) (hs : Step false s s') : Good s' := by
  obtain ⟨g1, g2, g3, g4⟩ := hg
  cases hs with
  | l_lock h1 h2 =>
    refine ⟨by simp, ?_, by simp, by simp⟩
    intro i; have := g2 i; simp [h2] at this ⊢; exact this
  | l_read h1 =>
    refine ⟨?_, ?_, by simp, by simp⟩
    · have := g1; simp [h1] at this ⊢; exact this
    · intro i; exact g2 i
  | l_skip h1 =>
    refine ⟨by simp, ?_, by simp, by simp⟩
    intro i
    have hm := g1.mpr (Or.inr ⟨true, h1⟩)
    have := g2 i; simp [hm] at this ⊢; exact this
  | l_block h1 =>
    refine ⟨by simp, ?_, by simp, ?_⟩
    · intro i
      have hm := g1.mpr (Or.inr ⟨false, h1⟩)
      have := g2 i; simp [hm] at this ⊢; exact this
    · intro _ hf
      have := g3 false h1
      simp at hf; rw [hf] at this; simp at this
  | l_notified h1 h2 =>
    refine ⟨?_, fun i => g2 i, by simp, by simp⟩
    have := g1; simp [h1] at this ⊢; exact this
  | l_timeout h1 =>
    refine ⟨?_, fun i => g2 i, by simp, by simp⟩
    have := g1; simp [h1] at this ⊢; exact this
  | l_relock h1 h2 =>
    refine ⟨by simp, ?_, by simp, by simp⟩
    intro i; have := g2 i; simp [h2] at this ⊢; exact this
  | l_reset h1 h2 =>
    refine ⟨?_, fun i => g2 i, by simp, by simp⟩
    have := g1; simp [h1, h2] at this ⊢
  | s_lock i h1 h2 =>
    refine ⟨?_, ?_, ?_, ?_⟩
    · have := g1; simp [h2] at this ⊢; exact this
    · intro j
      by_cases hj : j = i
      · subst hj; simp [upd_same]
      · have := g2 j; simp [h2] at this
        simp [upd_other _ _ _ _ hj, this]
        exact fun h => hj h.symm
    · exact g3
    · intro hw hf
      rcases g4 hw hf with h | ⟨j, hj⟩
      · exact Or.inl h
      · right
        refine ⟨j, ?_⟩
        have hne : j ≠ i := by rintro rfl; rw [h1] at hj; simp at hj
        simpa [upd_other _ _ _ _ hne] using hj
  | s_set i h1 =>
    have hm := (g2 i).mpr (Or.inl h1)
    refine ⟨?_, ?_, ?_, ?_⟩
    · exact g1
    · intro j
      by_cases hj : j = i
      · subst hj; simp [upd_same, hm]
      · have := g2 j; simp [upd_other _ _ _ _ hj]; exact this
    · intro b hb
      have := g1.mpr (Or.inr ⟨b, hb⟩)
      rw [hm] at this; simp at this
    · intro _ _
      exact Or.inr ⟨i, Or.inl (upd_same _ _ _)⟩
  | s_unlock i h1 =>
    have hm := (g2 i).mpr (Or.inr h1)
    refine ⟨?_, ?_, g3, ?_⟩
    · have := g1; simp [hm] at this ⊢; exact this
    · intro j
      by_cases hj : j = i
      · subst hj; simp [upd_same]
      · have := g2 j
        simp only [upd_other _ _ _ _ hj]
        rw [hm] at this
        constructor
        · intro h; simp at h
        · intro h
          have := this.mpr h
          simp at this; exact absurd this.symm hj
    · intro hw hf
      exact Or.inr ⟨i, Or.inr (upd_same _ _ _)⟩
  | s_notify i h1 =>
    refine ⟨g1, ?_, g3, ?_⟩
    · intro j
      by_cases hj : j = i
      · subst hj
        have := g2 j; simp [h1] at this
        simp [upd_same, this]
      · simp only [upd_other _ _ _ _ hj]; exact g2 j
    · intro hw _
      left; simp only at hw; simp [hw]
  | s_set_nolock i h _ => simp at h

/-- **C17.** In every reachable state of the lock-level protocol — any interleaving of the loop
    thread with any number of signalling threads — there is no missed signal: whenever the loop
    is blocked in the wait and the predicate is true, a notification has reached it or a
    signaller is still between setting the flag and `notify_all`. -/
theorem good_reach {s : P} (h : Reach false s) : Good s := by
  induction h with
  | init => exact ⟨by simp, by simp, by simp, by simp⟩
  | step _ hs ih => exact good_step ih hs

end Sig

theorem rt_no_missed_signal {s : Sig.P} (h : Sig.Reach false s) : ¬ Sig.Missed s := by
  intro ⟨h1, h2, h3, h4⟩
  rcases (Sig.good_reach h).no_missed h1 h2 with hn | ⟨i, hi⟩
  · rw [h3] at hn; simp at hn
  · rcases hi with hi | hi
    · exact (h4 i).1 hi
    · exact (h4 i).2 hi

/-- The mutex matters (counterexample kept): if a signaller may set the flag without holding
    the mutex, the signal can land between the loop's read of the predicate and its blocking,
    and is missed. -/
theorem rt_missed_signal_if_flag_set_outside_mutex : ∃ s, Sig.Reach true s ∧ Sig.Missed s := by
  let s0 : Sig.P := {}
  let s1 : Sig.P := { s0 with mutex := some .loop, lpc := .locked }
  let s2 : Sig.P := { s1 with lpc := .read s1.flag }
  let s3 : Sig.P := { s2 with flag := true, spc := Sig.upd s2.spc 0 .unlocked }
  let s4 : Sig.P := { s3 with notified := (if s3.lpc = .waiting then true else s3.notified), spc := Sig.upd s3.spc 0 .idle }
  let s5 : Sig.P := { s4 with lpc := .waiting, mutex := none, notified := false }
  have r1 : Sig.Reach true s1 := .step .init (.l_lock s0 rfl rfl)
  have r2 : Sig.Reach true s2 := .step r1 (.l_read s1 rfl)
  have r3 : Sig.Reach true s3 := .step r2 (.s_set_nolock s2 0 rfl rfl)
  have r4 : Sig.Reach true s4 := .step r3 (.s_notify s3 0 (by simp [s3, Sig.upd]))
  have r5 : Sig.Reach true s5 := .step r4 (.l_block s4 rfl)
  refine ⟨s5, r5, rfl, rfl, rfl, ?_⟩
  intro i
  simp [s5, s4, s3, s2, s1, s0, Sig.upd]
  split <;> simp

/-! ## non-vacuity: the hypotheses are met by concrete, non-trivial runs -/

/-- one node: start hook arms `start+5`; first evaluation re-arms `+7` and sets a wall-clock
    alarm that is already due; a push, a spurious wake-up and a stop request arrive at the waits -/
def exCfg : Cfg :=
  { start := 1000, endT := 1060, slice := 4, wall0 := 1000, cost := 2,
    scripts := [[[.rel 5], [.rel 7, .wallAbs 990], []]] }
def exEvs : List WEv := [.env (.adv 2), .spur, .env (.push 7), .tmo, .tmo]

example : exCfg.start < exCfg.endT := by decide
example : Armed exCfg (initSt exCfg exEvs).1 0 1005 := ⟨_, rfl, rfl, rfl⟩
example : Reachable exCfg exEvs (initSt exCfg exEvs).1 := .init
/-- the run: a push cycle at 1002, the timer at exactly 1005, the re-timed alarm at 1006 (wall 1007: lagging), the
    second timer at 1012, then idle until `end_time`; the clock hypothesis holds on it -/
example : (cycles (run exCfg exEvs).log).map (fun c => (c.t, c.wall, c.nodes.map (·.1), c.delivered)) =
    [(1002, 1002, [], some 7), (1005, 1005, [1], none), (1006, 1007, [1], none), (1012, 1012, [1], none)] ∧
    (run exCfg exEvs).reason = .endReached := by decide
example : ClockHyp exCfg.start exCfg.wall0 (cycles (run exCfg exEvs).log) := by decide
/-- a stop request during the second wait ends the run: hypotheses of `rt_stop` are inhabited -/
example : (run exCfg [.env (.adv 2), .env (.push 7), .env .stop]).reason = .stop ∧
    (cycles (run exCfg [.env (.adv 2), .env (.push 7), .env .stop]).log).map (·.t) = [1002] := by decide
example : WF NS.empty := NodeSched.wf_empty
/-- a reachable protocol state in which the loop is blocked and a signaller holds the mutex -/
example : ∃ s, Sig.Reach false s ∧ s.lpc = .waiting ∧ s.spc 3 = .locked :=
  ⟨_, .step (.step (.step (.step .init (.l_lock _ rfl rfl)) (.l_read _ rfl)) (.l_block _ rfl)) (.s_lock _ 3 rfl rfl),
   rfl, by simp [Sig.upd]⟩

end HgVerif.Realtime
