import HgVerif.Lemmas.BodyKey
/-!
# C06 (interning key inside a compiled sub-graph body)

`Model/BodyKey.lean`: the statements of a body are wired against a fresh child `Wiring`; a declared argument is the
boundary source `(boundary_arg = k, boundary_path, captured_boundary = false)`, an imported port of the enclosing wiring
is `(boundary_arg = LOCAL capture index, boundary_path, captured_boundary = true)` where the local index is handed out
by `capture_outer_source` in the order of first import - it depends on the statement order.  For every body, every
admissible statement order and every order of `context::get` imports at the top of the body (`pre`):

* `arg_capture_distinct`   : the keys of declared argument #k and of the captured port with local index k (same path, same
                             slot) differ, and ONLY in `captured_boundary`.
* `loc_injective`          : `source_key_for` is injective on the sources of a body (captured ports in the capture table).
* `transK_eq_final`        : keying every statement against the capture table of its moment = keying all of them against
                             the final table (an index never changes once handed out).
* `body_same_iff`          : two labels denote the same node **iff** their order-free expression trees are equal, where a
                             captured input is named by the OUTER PORT.
* `body_tree_eq_iff`, `body_decl_same_iff` : two declarations denote the same node iff same definition + scalars and, input
                             by input, the same kind of source (argument / captured port / node output - never equal
                             across kinds), the same index or outer port, the same path, and for node outputs the same
                             producer node.
* `body_order_irrelevant`  : the partition "denotes the same node" is the same for any two admissible statement orders and
                             any two import orders - although the local capture indices, hence the keys compared, differ.
* `body_values`, `body_label_value`, `body_obs_value` : every built node computes, from the sources it is WIRED to (boundary
                             sources bound through the final capture table, as `finish_subgraph` does), the order-free
                             value of every label that denotes it; every recorder sees the order-free value of its input.
* `body_obs_order_irrelevant` : what a declaration's port carries / what a recorder sees is the same in any two admissible
                             statement orders and import orders.
* `kindless_key_merges`    : with the key that forgets `captured_boundary` (seed s111), `f(arg0)` and `f(capture0)` are ONE
                             node although their values differ; with the key as coded they are two.
-/
namespace HgVerif.BodyKey
open HgVerif.Intern HgVerif.InternKey

variable {Λ δ P : Type}

/-! ## the source key -/

/-- the captured ports an attribute mentions are in the capture table -/
def AttrIn (caps : List P) : PAttr P → Prop
  | .cap _ p _ => p ∈ caps
  | _ => True

/-- **declared argument #k vs captured port with local index k**: different keys, equal up to `captured_boundary` -/
theorem arg_capture_distinct [DecidableEq P] (caps : List P) (slot k : Nat) (p : P) (path : List Nat)
    (h : caps.idxOf p = k) :
    loc caps (.arg slot k path) ≠ loc caps (.cap slot p path) ∧
      forgetKind (loc caps (.arg slot k path)) = forgetKind (loc caps (.cap slot p path)) := by
  constructor
  · intro e; simp [loc] at e
  · simp [loc, forgetKind, h]

theorem getElem?_idxOf_of_mem [DecidableEq P] (l : List P) (p : P) (h : p ∈ l) : l[l.idxOf p]? = some p := by
  have hlt := List.idxOf_lt_length_of_mem h
  rw [List.getElem?_eq_getElem hlt, List.getElem_idxOf hlt]

theorem idxOf_inj_of_mem [DecidableEq P] (l : List P) (p q : P) (hp : p ∈ l) (hq : q ∈ l)
    (h : l.idxOf p = l.idxOf q) : p = q := by
  have e1 := getElem?_idxOf_of_mem l p hp
  have e2 := getElem?_idxOf_of_mem l q hq
  rw [h, e2] at e1
  exact (Option.some.inj e1).symm

/-- **`source_key_for` is injective** on the sources of a body: the key determines the kind of source, the declared
    argument or the OUTER port, the path and the slot -/
theorem loc_injective [DecidableEq P] (caps : List P) (a b : PAttr P) (ha : AttrIn caps a) (hb : AttrIn caps b)
    (h : loc caps a = loc caps b) : a = b := by
  cases a <;> cases b <;> simp [loc] at h
  · obtain ⟨h1, h2, h3⟩ := h; simp [h1, h2, h3]
  · obtain ⟨h1, h2, h3⟩ := h
    have := idxOf_inj_of_mem caps _ _ ha hb h2
    simp [h1, this, h3]
  · obtain ⟨h1, h2⟩ := h; simp [h1, h2]

/-! ## the capture table -/

section captures
variable [DecidableEq P]

theorem capture_prefix (caps : List P) (p : P) : ∃ e, capture caps p = caps ++ e := by
  unfold capture
  by_cases h : p ∈ caps
  · exact ⟨[], by simp [h]⟩
  · exact ⟨[p], by simp [h]⟩

theorem mem_capture_self (caps : List P) (p : P) : p ∈ capture caps p := by
  unfold capture
  by_cases h : p ∈ caps <;> simp [h]

theorem captureIns_prefix (caps : List P) (ins : List (Src Λ P)) : ∃ e, captureIns caps ins = caps ++ e := by
  induction ins generalizing caps with
  | nil => exact ⟨[], by simp [captureIns]⟩
  | cons s r ih =>
    cases s with
    | arg k path => exact ih caps
    | out l path => exact ih caps
    | cap p path =>
      obtain ⟨e1, h1⟩ := capture_prefix caps p
      obtain ⟨e2, h2⟩ := ih (capture caps p)
      exact ⟨e1 ++ e2, by rw [captureIns, h2, h1, List.append_assoc]⟩

theorem finalCaps_prefix (caps : List P) (ds : List (BDecl Λ δ P)) : ∃ e, finalCaps caps ds = caps ++ e := by
  induction ds generalizing caps with
  | nil => exact ⟨[], by simp [finalCaps]⟩
  | cons d r ih =>
    obtain ⟨e1, h1⟩ := captureIns_prefix caps d.ins
    obtain ⟨e2, h2⟩ := ih (captureIns caps d.ins)
    exact ⟨e1 ++ e2, by rw [finalCaps, h2, h1, List.append_assoc]⟩

/-- every captured port a statement names is in the table -/
def InsIn (caps : List P) (ins : List (Src Λ P)) : Prop := ∀ p path, Src.cap p path ∈ ins → p ∈ caps

theorem captureIns_mem (caps : List P) (ins : List (Src Λ P)) : InsIn (captureIns caps ins) ins := by
  induction ins generalizing caps with
  | nil => intro p path h; cases h
  | cons s r ih =>
    intro p path h
    rcases List.mem_cons.1 h with e | e
    · subst e
      obtain ⟨x, hx⟩ := captureIns_prefix (capture caps p) r
      show p ∈ captureIns (capture caps p) r
      rw [hx]
      exact List.mem_append_left _ (mem_capture_self caps p)
    · cases s with
      | arg k path' => exact ih caps p path e
      | out l path' => exact ih caps p path e
      | cap q path' => exact ih (capture caps q) p path e

omit [DecidableEq P] in
theorem insIn_append (caps e : List P) (ins : List (Src Λ P)) (h : InsIn caps ins) : InsIn (caps ++ e) ins :=
  fun p path hp => List.mem_append_left _ (h p path hp)

theorem finalCaps_mem (caps : List P) (ds : List (BDecl Λ δ P)) : ∀ d ∈ ds, InsIn (finalCaps caps ds) d.ins := by
  induction ds generalizing caps with
  | nil => intro d hd; cases hd
  | cons d0 r ih =>
    intro d hd
    rcases List.mem_cons.1 hd with e | e
    · subst e
      obtain ⟨x, hx⟩ := finalCaps_prefix (captureIns caps d.ins) r
      show InsIn (finalCaps (captureIns caps d.ins) r) d.ins
      rw [hx]
      exact insIn_append _ _ _ (captureIns_mem caps d.ins)
    · exact ih (captureIns caps d0.ins) d e

/-- a local index never changes once it is handed out -/
theorem loc_append (caps e : List P) (a : PAttr P) (h : AttrIn caps a) : loc (caps ++ e) a = loc caps a := by
  cases a with
  | arg s k path => rfl
  | out s path => rfl
  | cap s p path =>
    have hp : p ∈ caps := h
    simp [loc, List.idxOf_append, hp]

omit [DecidableEq P] in
theorem entries_attrIn (caps : List P) (n : Nat) (ins : List (Src Λ P)) (h : InsIn caps ins) :
    ∀ q ∈ entries n ins, AttrIn caps q.2 := by
  induction ins generalizing n with
  | nil => intro q hq; simp [entries] at hq
  | cons s r ih =>
    have hr : InsIn caps r := fun p path hp => h p path (List.mem_cons_of_mem _ hp)
    intro q hq
    cases s with
    | arg k path =>
      simp only [entries, List.mem_cons] at hq
      rcases hq with hq | hq
      · subst hq; trivial
      · exact ih (n + 1) hr q hq
    | out l path =>
      simp only [entries, List.mem_cons] at hq
      rcases hq with hq | hq
      · subst hq; trivial
      · exact ih (n + 1) hr q hq
    | cap p path =>
      simp only [entries, List.mem_cons] at hq
      rcases hq with hq | hq
      · subst hq; exact h p path (by simp)
      · exact ih (n + 1) hr q hq

theorem toK_append {κ : Type} (π : SAttr → κ) (caps e : List P) (d : BDecl Λ δ P) (h : InsIn caps d.ins) :
    toK π (caps ++ e) d = toK π caps d := by
  unfold toK mapAttr
  congr 1
  apply List.map_congr_left
  intro q hq
  have := loc_append caps e q.2 (entries_attrIn caps 0 d.ins h q hq)
  simp only [this]

/-- **keying statement by statement = keying against the final capture table** -/
theorem transK_eq_final {κ : Type} (π : SAttr → κ) (caps : List P) (ds : List (BDecl Λ δ P)) :
    transK π caps ds = ds.map (toK π (finalCaps caps ds)) := by
  induction ds generalizing caps with
  | nil => rfl
  | cons d r ih =>
    obtain ⟨x, hx⟩ := finalCaps_prefix (captureIns caps d.ins) r
    show toK π (captureIns caps d.ins) d :: transK π (captureIns caps d.ins) r =
      toK π (finalCaps (captureIns caps d.ins) r) d :: r.map (toK π (finalCaps (captureIns caps d.ins) r))
    rw [ih, hx, toK_append π _ x d (captureIns_mem caps d.ins)]

end captures

/-! ## the programs handed to the generic machinery -/

/-- the order-free program of a body -/
def specProg (ds : List (BDecl Λ δ P)) : List (LDecl (Option Λ) (Option δ) (PAttr P)) := nullDecl :: ds.map toP

theorem codedProg_eq [DecidableEq P] {κ : Type} (π : SAttr → κ) (pre : List P) (ds : List (BDecl Λ δ P)) :
    (nullDecl :: transK π (capsOfPre pre) ds : List (LDecl (Option Λ) (Option δ) κ)) =
      (specProg ds).map (mapAttr fun a => π (loc (finalCaps (capsOfPre pre) ds) a)) := by
  rw [transK_eq_final]
  simp only [specProg, List.map_cons, List.map_map]
  congr 1

theorem specProg_attrs [DecidableEq P] (caps : List P) (ds : List (BDecl Λ δ P)) :
    ∀ d ∈ specProg ds, ∀ p ∈ d.ins, AttrIn (finalCaps caps ds) p.2 := by
  intro d hd p hp
  simp only [specProg, List.mem_cons, List.mem_map] at hd
  rcases hd with hd | ⟨b, hb, rfl⟩
  · subst hd; simp [nullDecl] at hp
  · exact entries_attrIn _ 0 b.ins (finalCaps_mem caps ds b hb) p hp

/-- **the interning as coded hands out the same nodes as interning on the order-free attributes** -/
theorem wireB_env [DecidableEq Λ] [DecidableEq δ] [DecidableEq P] (pre : List P) (ds : List (BDecl Λ δ P)) :
    (wireB pre ds).env = (wireL ({} : LSt (Option Λ) (Option δ) (PAttr P)) (specProg ds)).env := by
  unfold wireB wireK
  rw [codedProg_eq]
  exact (rel_wireL (fun a => loc (finalCaps (capsOfPre pre) ds) a) (AttrIn (finalCaps (capsOfPre pre) ds))
    (fun a b ha hb h => loc_injective _ a b ha hb h) (rel_init _) (by intro e he; cases he) (specProg ds)
    (specProg_attrs _ ds)).env

/-! ## which declarations denote one node -/

/-- **same node iff same expression tree** (captured inputs by outer port; an argument leaf and a captured leaf are
    different constructors of `PAttr`, hence never equal) -/
theorem body_same_iff [DecidableEq Λ] [DecidableEq δ] [DecidableEq P] (pre : List P) (ds : List (BDecl Λ δ P))
    (hadm : BAdm ds) (a b : Λ) (ia ib : Nat) (ha : get (wireB pre ds).env (some a) = some ia)
    (hb : get (wireB pre ds).env (some b) = some ib) :
    ia = ib ↔ get (specTrees ds) (some a) = get (specTrees ds) (some b) := by
  rw [wireB_env] at ha hb
  exact wireL_same_iff_tree (specProg ds) hadm (some a) (some b) ia ib ha hb

theorem mem_specProg (ds : List (BDecl Λ δ P)) (d : BDecl Λ δ P) (h : d ∈ ds) : toP d ∈ specProg ds := by
  simp only [specProg, List.mem_cons, List.mem_map]
  exact Or.inr ⟨d, h, rfl⟩

theorem specProg_mem_iff (ds ds' : List (BDecl Λ δ P)) (hmem : ∀ d, d ∈ ds ↔ d ∈ ds') :
    ∀ x, x ∈ specProg ds ↔ x ∈ specProg ds' := by
  intro x
  simp only [specProg, List.mem_cons, List.mem_map]
  constructor
  · rintro (h | ⟨b, hb, rfl⟩)
    · exact Or.inl h
    · exact Or.inr ⟨b, (hmem b).1 hb, rfl⟩
  · rintro (h | ⟨b, hb, rfl⟩)
    · exact Or.inl h
    · exact Or.inr ⟨b, (hmem b).2 hb, rfl⟩

/-- **the partition is order-free**: two admissible statement orders `ds`, `ds'` of the same declarations, wired after
    any two import prologues: two value declarations denote one node in the one iff they do in the other -/
theorem body_order_irrelevant [DecidableEq Λ] [DecidableEq δ] [DecidableEq P] (pre pre' : List P)
    (ds ds' : List (BDecl Λ δ P)) (h : BAdmU ds) (h' : BAdmU ds') (hmem : ∀ d, d ∈ ds ↔ d ∈ ds')
    (a b : BDecl Λ δ P) (ha : a ∈ ds) (hb : b ∈ ds) (hsa : a.sink = false) (hsb : b.sink = false) (ia ib ia' ib' : Nat)
    (e1 : get (wireB pre ds).env (some a.lbl) = some ia) (e2 : get (wireB pre ds).env (some b.lbl) = some ib)
    (e1' : get (wireB pre' ds').env (some a.lbl) = some ia') (e2' : get (wireB pre' ds').env (some b.lbl) = some ib') :
    ia = ib ↔ ia' = ib' := by
  rw [wireB_env] at e1 e2 e1' e2'
  exact wireL_order_irrelevant (specProg ds) (specProg ds') h h' (specProg_mem_iff ds ds' hmem) (toP a) (toP b)
    (mem_specProg ds a ha) (mem_specProg ds b hb) hsa hsb ia ib ia' ib' e1 e2 e1' e2'

/-- every value declaration of an admissible body denotes a node -/
theorem body_declares [DecidableEq Λ] [DecidableEq δ] [DecidableEq P] (pre : List P) (ds : List (BDecl Λ δ P))
    (h : BAdmU ds) (d : BDecl Λ δ P) (hd : d ∈ ds) (hs : d.sink = false) :
    ∃ i, get (wireB pre ds).env (some d.lbl) = some i := by
  rw [wireB_env]
  exact wireL_declares (specProg ds) h (toP d) (mem_specProg ds d hd) hs

/-! ### what "equal trees" means, one level down -/

/-- two sources are the same input: same kind, same argument / same outer port / same producer tree, same path.  An
    argument source and a captured source are never the same. -/
def SrcSame [DecidableEq Λ] (te : List (Option Λ × Tree (Option δ) (PAttr P))) : Src Λ P → Src Λ P → Prop
  | .arg k p, .arg k' p' => k = k' ∧ p = p'
  | .cap q p, .cap q' p' => q = q' ∧ p = p'
  | .out l p, .out l' p' => get te (some l) = get te (some l') ∧ p = p'
  | _, _ => False

def SameIns [DecidableEq Λ] (te : List (Option Λ × Tree (Option δ) (PAttr P))) : List (Src Λ P) → List (Src Λ P) → Prop
  | [], [] => True
  | s :: r, s' :: r' => SrcSame te s s' ∧ SameIns te r r'
  | _, _ => False

/-- the labels a statement reads are declared in `te` -/
def OutsIn [DecidableEq Λ] (te : List (Option Λ × Tree (Option δ) (PAttr P))) (ins : List (Src Λ P)) : Prop :=
  ∀ l path, Src.out l path ∈ ins → ∃ t, get te (some l) = some t

theorem treeIns_entries_eq_iff [DecidableEq Λ] (te : List (Option Λ × Tree (Option δ) (PAttr P)))
    (dflt : Tree (Option δ) (PAttr P)) (n : Nat) (ins ins' : List (Src Λ P)) (h : OutsIn te ins) (h' : OutsIn te ins') :
    treeIns te dflt (entries n ins) = treeIns te dflt (entries n ins') ↔ SameIns te ins ins' := by
  induction ins generalizing n ins' with
  | nil =>
    cases ins' with
    | nil => simp [SameIns, entries, treeIns]
    | cons s' r' => cases s' <;> simp [SameIns, entries, treeIns]
  | cons s r ih =>
    cases ins' with
    | nil => cases s <;> simp [SameIns, entries, treeIns]
    | cons s' r' =>
      have hr : OutsIn te r := fun l path hl => h l path (List.mem_cons_of_mem _ hl)
      have hr' : OutsIn te r' := fun l path hl => h' l path (List.mem_cons_of_mem _ hl)
      have ihr := ih (n + 1) r' hr hr'
      unfold treeIns at ihr
      cases s <;> cases s' <;>
        simp only [SameIns, SrcSame, entries, treeIns, List.map_cons, List.cons.injEq, Prod.mk.injEq, PAttr.arg.injEq,
          PAttr.cap.injEq, PAttr.out.injEq, true_and, false_and, and_false, reduceCtorEq, ihr]
      rename_i l p l' p'
      obtain ⟨t, ht⟩ := h l p (by simp)
      obtain ⟨t', ht'⟩ := h' l' p' (by simp)
      rw [ht, ht']
      simp only [Option.getD_some, Option.some.injEq]

/-- **equal trees, one level down**: same definition + scalars and pairwise the same inputs -/
theorem body_tree_eq_iff [DecidableEq Λ] (te : List (Option Λ × Tree (Option δ) (PAttr P))) (d d' : BDecl Λ δ P)
    (h : OutsIn te d.ins) (h' : OutsIn te d'.ins) :
    treeOf te (toP d) = treeOf te (toP d') ↔ d.defn = d'.defn ∧ SameIns te d.ins d'.ins := by
  unfold treeOf
  simp only [toP, Tree.mk.injEq, Option.some.injEq]
  constructor
  · rintro ⟨h1, h2⟩
    rw [h1] at h2
    exact ⟨h1, (treeIns_entries_eq_iff te _ 0 d.ins d'.ins h h').1 h2⟩
  · rintro ⟨h1, h2⟩
    refine ⟨h1, ?_⟩
    rw [h1]
    exact (treeIns_entries_eq_iff te _ 0 d.ins d'.ins h h').2 h2

/-! ### declarations of one body -/

theorem labels_semL_mono [DecidableEq Λ] {δ' α : Type} (te : List (Λ × Tree δ' α)) (ds : List (LDecl Λ δ' α)) (l : Λ)
    (h : l ∈ te.map Prod.fst) : l ∈ (semL te ds).map Prod.fst := by
  induction ds generalizing te with
  | nil => exact h
  | cons d rest ih =>
    apply ih
    rw [labels_semStep]
    cases d.sink <;> simp [h]

/-- every label a statement of an admissible program reads is declared by the order-free reading -/
theorem semL_ins_declared [DecidableEq Λ] {δ' α : Type} (te : List (Λ × Tree δ' α)) (ds : List (LDecl Λ δ' α))
    (h : AdmU (te.map Prod.fst) ds) (d : LDecl Λ δ' α) (hd : d ∈ ds) (p : Λ × α) (hp : p ∈ d.ins) :
    ∃ t, get (semL te ds) p.1 = some t := by
  induction ds generalizing te with
  | nil => cases hd
  | cons d0 rest ih =>
    obtain ⟨h1, _, h3⟩ := h
    have hA : AdmU ((semStep te d0).map Prod.fst) rest := by rw [labels_semStep]; exact h3
    rcases List.mem_cons.1 hd with e | e
    · subst e
      apply get_of_mem
      apply labels_semL_mono
      exact h1 p hp
    · exact ih _ hA e

theorem entries_out_mem (n : Nat) (ins : List (Src Λ P)) (l : Λ) (path : List Nat) (h : Src.out l path ∈ ins) :
    ∃ m, (some l, PAttr.out m path) ∈ entries n ins := by
  induction ins generalizing n with
  | nil => cases h
  | cons s r ih =>
    rcases List.mem_cons.1 h with e | e
    · subst e; exact ⟨n, by simp [entries]⟩
    · obtain ⟨m, hm⟩ := ih (n + 1) e
      exact ⟨m, by cases s <;> simp [entries, hm]⟩

theorem body_outsIn [DecidableEq Λ] (ds : List (BDecl Λ δ P)) (h : BAdmU ds) (d : BDecl Λ δ P) (hd : d ∈ ds) :
    OutsIn (specTrees ds) d.ins := by
  intro l path hl
  obtain ⟨m, hm⟩ := entries_out_mem 0 d.ins l path hl
  exact semL_ins_declared [] (specProg ds) h (toP d) (mem_specProg ds d hd) (some l, PAttr.out m path) hm

/-- **two value declarations of one body denote the same node iff they have the same definition and scalars and, input
    by input, the same source**: declared argument = declared argument with the same index and path; captured port =
    captured port with the same OUTER port and path; node output = node output of the same producer node and path; a
    declared argument and a captured port are never the same source, whatever their indices -/
theorem body_decl_same_iff [DecidableEq Λ] [DecidableEq δ] [DecidableEq P] (pre : List P) (ds : List (BDecl Λ δ P))
    (h : BAdmU ds) (d d' : BDecl Λ δ P) (hd : d ∈ ds) (hd' : d' ∈ ds) (hs : d.sink = false) (hs' : d'.sink = false)
    (i i' : Nat) (e : get (wireB pre ds).env (some d.lbl) = some i) (e' : get (wireB pre ds).env (some d'.lbl) = some i') :
    i = i' ↔ d.defn = d'.defn ∧ SameIns (specTrees ds) d.ins d'.ins := by
  rw [body_same_iff pre ds (admU_adm _ _ h) d.lbl d'.lbl i i' e e']
  have q1 := semL_equations [] (specProg ds) (show AdmU (([] : List (Option Λ × Tree (Option δ) (PAttr P))).map Prod.fst) (specProg ds) from h) (toP d) (mem_specProg ds d hd) hs
  have q2 := semL_equations [] (specProg ds) (show AdmU (([] : List (Option Λ × Tree (Option δ) (PAttr P))).map Prod.fst) (specProg ds) from h) (toP d') (mem_specProg ds d' hd') hs'
  show get (semL [] (specProg ds)) (toP d).lbl = get (semL [] (specProg ds)) (toP d').lbl ↔ _
  rw [q1, q2, Option.some.injEq]
  exact body_tree_eq_iff (specTrees ds) d d' (body_outsIn ds h d hd) (body_outsIn ds h d' hd')

/-! ## what the built nodes compute -/

section values
variable {σ : Type}

theorem readC_loc [DecidableEq P] (F : Feeds δ P σ) (caps : List P) (v : σ) (a : PAttr P) (h : AttrIn caps a) :
    readC F caps v (loc caps a) = readP F v a := by
  cases a with
  | arg s k path => simp [readC, readP, loc]
  | out s path => simp [readC, readP, loc]
  | cap s p path =>
    have hp : p ∈ caps := h
    simp [readC, readP, loc, getElem?_idxOf_of_mem caps p hp]

/-- reading the sources as coded, bound through the capture table = reading the sources as written -/
theorem algC_loc [DecidableEq P] (F : Feeds δ P σ) (caps : List P) (f : Option δ) (ins : List (σ × PAttr P))
    (h : ∀ q ∈ ins, AttrIn caps q.2) : algC F caps f (ins.map fun q => (q.1, loc caps q.2)) = algP F f ins := by
  cases f with
  | none => rfl
  | some f =>
    simp only [algC, algP, List.map_map]
    congr 1
    apply List.map_congr_left
    intro q hq
    simp only [Function.comp_def]
    exact readC_loc F caps q.1 q.2 (h q hq)

theorem admU_mapAttr {Λ' δ' α β : Type} (g : α → β) (L : List Λ') (ds : List (LDecl Λ' δ' α)) (h : AdmU L ds) :
    AdmU L (ds.map (mapAttr g)) := by
  induction ds generalizing L with
  | nil => trivial
  | cons d rest ih =>
    obtain ⟨h1, h2, h3⟩ := h
    refine ⟨?_, h2, ih _ h3⟩
    intro p hp
    simp only [mapAttr, List.mem_map] at hp
    obtain ⟨q, hq, rfl⟩ := hp
    exact h1 q hq

theorem valOf_mapAttr {Λ' δ' α β : Type} [DecidableEq Λ'] (alg : δ' → List (σ × α) → σ) (alg' : δ' → List (σ × β) → σ)
    (g : α → β) (A : α → Prop)
    (hg : ∀ f (ins : List (σ × α)), (∀ q ∈ ins, A q.2) → alg' f (ins.map fun q => (q.1, g q.2)) = alg f ins)
    (dflt : σ) (sv : List (Λ' × σ)) (d : LDecl Λ' δ' α) (hA : ∀ p ∈ d.ins, A p.2) :
    valOf alg' dflt sv (mapAttr g d) = valOf alg dflt sv d := by
  unfold valOf
  have : valIns sv dflt (mapAttr g d).ins = (valIns sv dflt d.ins).map fun q => (q.1, g q.2) := by
    simp [valIns, mapAttr, List.map_map, Function.comp_def]
  rw [this]
  apply hg
  intro q hq
  simp only [valIns, List.mem_map] at hq
  obtain ⟨p, hp, rfl⟩ := hq
  exact hA p hp

variable [DecidableEq Λ] [DecidableEq δ] [DecidableEq P]

theorem runB_ls (F : Feeds δ P σ) (pre : List P) (ds : List (BDecl Λ δ P)) : (runB F pre ds).ls = wireB pre ds := by
  unfold runB
  rw [wireV_ls]
  rfl

/-- **soundness of the built body**: the interning as coded, every created node computing from the sources it is wired
    to (captured boundary sources bound through the final capture table): every label's node carries the order-free value
    of the label, every observation is the order-free value -/
theorem body_values (F : Feeds δ P σ) (pre : List P) (ds : List (BDecl Λ δ P)) (h : BAdmU ds) :
    KV (algC F (finalCaps (capsOfPre pre) ds)) F.none (runB F pre ds) (specVals F ds) := by
  have hk := kv_wireV (algC F (finalCaps (capsOfPre pre) ds)) F.none (kv_init _ _)
    ((specProg ds).map (mapAttr fun a => id (loc (finalCaps (capsOfPre pre) ds) a))) (admU_mapAttr _ _ _ h)
  rw [semV_mapAttr (algP F) (algC F (finalCaps (capsOfPre pre) ds)) (fun a => id (loc (finalCaps (capsOfPre pre) ds) a))
    (AttrIn (finalCaps (capsOfPre pre) ds))
    (fun f ins hins => algC_loc F _ f ins hins) F.none [] (specProg ds) (specProg_attrs _ ds)] at hk
  unfold runB
  rw [codedProg_eq]
  exact hk

/-- the node a label denotes carries the order-free value of the label -/
theorem body_label_value (F : Feeds δ P σ) (pre : List P) (ds : List (BDecl Λ δ P)) (h : BAdmU ds) (a : Λ) (i : Nat)
    (e : get (wireB pre ds).env (some a) = some i) :
    ∃ v, get (runB F pre ds).vals i = some v ∧ get (specVals F ds) (some a) = some v := by
  have hk := body_values F pre ds h
  rw [← runB_ls F pre ds] at e
  exact hk.link (some a) i e

/-- what a declaration's port carries / what a recorder sees is the order-free value of the declaration -/
theorem body_obs_value (F : Feeds δ P σ) (pre : List P) (ds : List (BDecl Λ δ P)) (h : BAdmU ds) (d : BDecl Λ δ P)
    (hd : d ∈ ds) (v : σ) (hv : (toK id (finalCaps (capsOfPre pre) ds) d, v) ∈ (runB F pre ds).obs) :
    v = valOf (algP F) F.none (specVals F ds) (toP d) := by
  have hk : v = valOf (algC F (finalCaps (capsOfPre pre) ds)) F.none (specVals F ds) (toK id (finalCaps (capsOfPre pre) ds) d) :=
    (body_values F pre ds h).obs _ hv
  rw [hk]
  exact valOf_mapAttr (algP F) (algC F (finalCaps (capsOfPre pre) ds)) (fun a => id (loc (finalCaps (capsOfPre pre) ds) a))
    (AttrIn (finalCaps (capsOfPre pre) ds))
    (fun f ins hins => algC_loc F _ f ins hins) F.none (specVals F ds) (toP d)
    (specProg_attrs _ ds (toP d) (mem_specProg ds d hd))

theorem wireV_obs {Λ' δ' α : Type} [DecidableEq Λ'] [DecidableEq δ'] [DecidableEq α] (alg : δ' → List (σ × α) → σ)
    (dflt : σ) (s : VSt Λ' δ' α σ) (ds : List (LDecl Λ' δ' α)) :
    (wireV alg dflt s ds).obs.map Prod.fst = s.obs.map Prod.fst ++ ds := by
  induction ds generalizing s with
  | nil => simp [wireV]
  | cons d rest ih =>
    show (wireV alg dflt (stepV alg dflt s d) rest).obs.map Prod.fst = _
    rw [ih]
    simp [stepV]

/-- every declaration has exactly one observation, in statement order -/
theorem body_obs_all (F : Feeds δ P σ) (pre : List P) (ds : List (BDecl Λ δ P)) :
    (runB F pre ds).obs.map Prod.fst =
      nullDecl :: ds.map (toK id (finalCaps (capsOfPre pre) ds)) := by
  unfold runB
  rw [wireV_obs, transK_eq_final]
  rfl

/-- **order irrelevance of what is observed**: in two admissible statement orders of the same declarations, after any
    two import prologues, every declaration's port carries the same value and every recorder sees the same value -/
theorem body_obs_order_irrelevant (F : Feeds δ P σ) (pre pre' : List P) (ds ds' : List (BDecl Λ δ P)) (h : BAdmU ds)
    (h' : BAdmU ds') (hmem : ∀ d, d ∈ ds ↔ d ∈ ds') (d : BDecl Λ δ P) (hd : d ∈ ds) (v v' : σ)
    (hv : (toK id (finalCaps (capsOfPre pre) ds) d, v) ∈ (runB F pre ds).obs)
    (hv' : (toK id (finalCaps (capsOfPre pre') ds') d, v') ∈ (runB F pre' ds').obs) : v = v' := by
  rw [body_obs_value F pre ds h d hd v hv, body_obs_value F pre' ds' h' d ((hmem d).1 hd) v' hv']
  exact (semV_order_irrelevant (algP F) F.none (specProg ds) (specProg ds') h h' (specProg_mem_iff ds ds' hmem) (toP d)
    (mem_specProg ds d hd)).2

end values

/-! ## the key without `captured_boundary` (seed s111), and non-vacuity

`x = f(arg0)`, `y = f(capture 7)`, `z = m(x, y)`, a recorder on `z`; definitions are `(id, scalar)`. -/

def exBody : List (BDecl Nat (Nat × Nat) Nat) :=
  [⟨1, (5, 0), [.arg 0 []], false⟩, ⟨2, (5, 0), [.cap 7 []], false⟩, ⟨3, (9, 0), [.out 1 [], .out 2 []], false⟩,
   ⟨4, (0, 0), [.out 3 []], true⟩]

/-- the same declarations, the two `f` statements swapped, the recorder last -/
def exBodyR : List (BDecl Nat (Nat × Nat) Nat) :=
  [⟨2, (5, 0), [.cap 7 []], false⟩, ⟨1, (5, 0), [.arg 0 []], false⟩, ⟨3, (9, 0), [.out 1 [], .out 2 []], false⟩,
   ⟨4, (0, 0), [.out 3 []], true⟩]

/-- `f = a + k`, `m = 10 a + b + k`, recorder = its input; argument 0 carries 1, the outer port 7 carries 20 -/
def exFeeds : Feeds (Nat × Nat) Nat Nat :=
  { fn := fun f ins => match f.1, ins with
      | 5, [a] => a + f.2
      | 9, [a, b] => 10 * a + b + f.2
      | _, [a] => a
      | _, _ => 0,
    argV := fun _ _ => 1, capV := fun _ _ => 20, none := 0 }

/-- **a key without the kind flag merges `f(arg0)` with `f(capture0)`**: one node for the two labels (in both statement
    orders) although the two declarations compute different values; the key as coded keeps them apart and the built body
    computes `m = 10 * 1 + 20` in both orders -/
theorem kindless_key_merges :
    get (wireK forgetKind [] exBody).env (some 1) = get (wireK forgetKind [] exBody).env (some 2) ∧
    get (wireK forgetKind [] exBodyR).env (some 1) = get (wireK forgetKind [] exBodyR).env (some 2) ∧
    get (specVals exFeeds exBody) (some 1) ≠ get (specVals exFeeds exBody) (some 2) ∧
    get (wireB [] exBody).env (some 1) ≠ get (wireB [] exBody).env (some 2) ∧
    get (wireB [] exBodyR).env (some 1) ≠ get (wireB [] exBodyR).env (some 2) ∧
    (runB exFeeds [] exBody).obs.map Prod.snd = [0, 1, 20, 30, 30] ∧
    (runB exFeeds [] exBodyR).obs.map Prod.snd = [0, 20, 1, 30, 30] := by
  decide

theorem exBody_adm : BAdmU exBody := by
  simp [BAdmU, AdmU, nullDecl, toP, entries, exBody]

theorem exBodyR_adm : BAdmU exBodyR := by
  simp [BAdmU, AdmU, nullDecl, toP, entries, exBodyR]

example : ∀ d, d ∈ exBody ↔ d ∈ exBodyR := by
  intro d; simp only [exBody, exBodyR, List.mem_cons, List.not_mem_nil, or_false]
  constructor <;> rintro (h | h | h | h) <;> simp [h]

/-- the local capture index of the outer port 7 is 0 = the index of the declared argument; after importing another port
    first it is 1: the keys differ between the two prologues, the partition does not -/
example : (wireB [] exBody).env = [(some 3, 3), (some 2, 2), (some 1, 1), (none, 0)] ∧
    (wireB [8] exBodyR).env = [(some 3, 3), (some 1, 2), (some 2, 1), (none, 0)] ∧
    finalCaps (capsOfPre [8]) exBodyR = [8, 7] := by decide

end HgVerif.BodyKey
