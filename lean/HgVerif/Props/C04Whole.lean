import HgVerif.Model.TrackingWhole
import HgVerif.Props.C04
/-!
# C04 — whole-value writes of fixed-shape containers tell the truth

About `Model/TrackingWhole.lean` (`copyF` = `fixed_copy_value_from / fixed_move_value_from` as coded, `wholeOut` =
`TSDataMutationView::copy_value_from / move_value_from`), for every finite tree of positions, every (possibly sparse)
source value `pres`, every state reachable by histories of leaf writes, whole-value writes and invalidations:

* `whole_write_modified_iff_present_leaf_below` : when no error is raised, after the write a position reads
  `lmt = t` (modified, valid) iff it did before or a PRESENT LEAF lies at / below it; every other position is
  untouched.
* `whole_write_all_unset_is_noop`, `whole_write_no_present_leaf_is_noop` : a value all of whose fields are unset
  (or whose present containers hold no leaf) changes no record, notifies nobody, answers `false`.
* `whole_write_eq_leaf_writes` : when no error is raised the write IS the sequence of leaf writes of its present
  leaves.
* `whole_write_notifies_once` : every observer is notified at most once, exactly the positions whose record changes.
* `whole_write_error_iff_duplicate` : the `duplicate modification` error is raised iff a present nested container
  that already carries `t` has a present leaf below it that does not.
* `whole_inv`, `runW_inv`, `runW_spec_refines`, `link_step_inv_whole`, `link_inv_runW` : `lmt child ≤ lmt parent ≤ now`,
  the flat reading of every step and the link record invariant of bound inputs survive every mixed history — also
  through a write that fails half-way.
* `first_for_parent_ticks_unwritten_bundle` : the seeded wrong answer (`first_for_parent`) stamps a never written
  bundle on an all-unset value.
-/
namespace HgVerif.Tracking

/-! ## ancestors are linearly ordered -/

theorem anc_linear {T : Tree} {a x : Nat} (ha : Anc T a x) : ∀ {b : Nat}, Anc T b x → Anc T a b ∨ Anc T b a := by
  induction ha with
  | refl => intro b hb; exact Or.inr hb
  | @step x q hp ha' ih =>
    intro b hb
    rcases anc_cases hb with rfl | ⟨q', hq', hbq⟩
    · exact Or.inl (Anc.step hp ha')
    · rw [hp] at hq'; injection hq' with hq'; subst hq'; exact ih hbq

/-- two children of one parent above the same position are the same child -/
theorem anc_child_unique {T : Tree} {p c c' x : Nat} (hc : T.parent c = some p) (hc' : T.parent c' = some p)
    (h : Anc T c x) (h' : Anc T c' x) : c = c' := by
  have key : ∀ {a b : Nat}, T.parent a = some p → T.parent b = some p → Anc T a b → a = b := by
    intro a b ha hb hab
    rcases anc_cases hab with rfl | ⟨q, hq, haq⟩
    · rfl
    · rw [hb] at hq; injection hq with hq; subst hq
      have := anc_le haq; have := T.wf a _ ha; omega
  rcases anc_linear h h' with h1 | h1
  · exact key hc hc' h1
  · exact (key hc' hc h1).symm

theorem anc_parent_of_ne {T : Tree} {a c q : Nat} (hc : T.parent c = some q) (h : Anc T a c) (hne : a ≠ c) : Anc T a q := by
  rcases anc_cases h with rfl | ⟨q', hq', ha⟩
  · exact absurd rfl hne
  · rw [hc] at hq'; injection hq' with hq'; subst hq'; exact ha

/-! ## the present leaves of a source value -/

/-- positions the recursion of the write at `p` visits: every position on the way down from `p` (exclusive) carries
    a value in the value of its parent -/
inductive Reach (K : KTree) (pres : Nat → Bool) (p : Nat) : Nat → Prop where
  | root : Reach K pres p p
  | step {q c : Nat} : Reach K pres p q → K.parent c = some q → pres c = true → Reach K pres p c

/-- a PRESENT LEAF of the value written at `p`: a childless position the recursion reaches -/
def PresLeaf (K : KTree) (pres : Nat → Bool) (p l : Nat) : Prop := Reach K pres p l ∧ K.kids l = []

/-- the present leaves in call order (same recursion as `copyF`) -/
def leavesF (K : KTree) (pres : Nat → Bool) : Nat → Nat → List Nat
  | 0, _ => []
  | fuel + 1, p =>
    if K.kids p = [] then [p]
    else ((K.kids p).filter (fun c => pres c)).flatMap (fun c => leavesF K pres fuel c)

def presLeaves (K : KTree) (pres : Nat → Bool) (p : Nat) : List Nat := leavesF K pres (K.height p + 1) p

theorem reach_anc {K : KTree} {pres : Nat → Bool} {p x : Nat} (h : Reach K pres p x) : Anc K.toTree p x := by
  induction h with
  | root => exact Anc.refl p
  | step _ hc _ ih => exact Anc.step hc ih

theorem reach_of_child {K : KTree} {pres : Nat → Bool} {p c x : Nat} (hc : K.parent c = some p) (hp : pres c = true)
    (h : Reach K pres c x) : Reach K pres p x := by
  induction h with
  | root => exact Reach.step Reach.root hc hp
  | step _ hc' hp' ih => exact Reach.step ih hc' hp'

theorem reach_child {K : KTree} {pres : Nat → Bool} {p x : Nat} (h : Reach K pres p x) :
    x = p ∨ ∃ c, K.parent c = some p ∧ pres c = true ∧ Reach K pres c x := by
  induction h with
  | root => exact Or.inl rfl
  | @step q c _ hc hp ih =>
    rcases ih with rfl | ⟨c0, h0, p0, r0⟩
    · exact Or.inr ⟨c, hc, hp, Reach.root⟩
    · exact Or.inr ⟨c0, h0, p0, Reach.step r0 hc hp⟩

theorem leavesF_succ (K : KTree) (pres : Nat → Bool) (fuel p : Nat) :
    leavesF K pres (fuel + 1) p =
      if K.kids p = [] then [p]
      else ((K.kids p).filter (fun c => pres c)).flatMap (fun c => leavesF K pres fuel c) := rfl

theorem mem_leavesF_succ {K : KTree} {pres : Nat → Bool} {fuel p l : Nat} :
    l ∈ leavesF K pres (fuel + 1) p ↔
      (K.kids p = [] ∧ l = p) ∨ (K.kids p ≠ [] ∧ ∃ c, c ∈ K.kids p ∧ pres c = true ∧ l ∈ leavesF K pres fuel c) := by
  rw [leavesF_succ]
  by_cases hk : K.kids p = []
  · simp [hk]
  · simp only [hk, if_false, List.mem_flatMap, List.mem_filter, false_and, false_or, ne_eq, not_false_eq_true, true_and]
    constructor
    · rintro ⟨c, ⟨h1, h2⟩, h3⟩; exact ⟨c, h1, h2, h3⟩
    · rintro ⟨c, h1, h2, h3⟩; exact ⟨c, ⟨h1, h2⟩, h3⟩

/-- the list is the set of present leaves -/
theorem mem_leavesF_iff (K : KTree) (pres : Nat → Bool) : ∀ (fuel p l : Nat), K.height p < fuel →
    (l ∈ leavesF K pres fuel p ↔ PresLeaf K pres p l) := by
  intro fuel
  induction fuel with
  | zero => intro p l h; omega
  | succ fuel ih =>
    intro p l hf
    rw [mem_leavesF_succ]
    constructor
    · rintro (⟨hk, rfl⟩ | ⟨_, c, hc, hp, hl⟩)
      · exact ⟨Reach.root, hk⟩
      · have hpc := (K.kids_iff p c).mp hc
        have := K.height_lt p c hpc
        obtain ⟨r, lf⟩ := (ih c l (by omega)).mp hl
        exact ⟨reach_of_child hpc hp r, lf⟩
    · rintro ⟨r, lf⟩
      rcases reach_child r with rfl | ⟨c, hc, hp, rc⟩
      · exact Or.inl ⟨lf, rfl⟩
      · have hmem := (K.kids_iff p c).mpr hc
        have := K.height_lt p c hc
        refine Or.inr ⟨fun h => by rw [h] at hmem; exact absurd hmem List.not_mem_nil, c, hmem, hp, ?_⟩
        exact (ih c l (by omega)).mpr ⟨rc, lf⟩

theorem mem_presLeaves_iff (K : KTree) (pres : Nat → Bool) (p l : Nat) :
    l ∈ presLeaves K pres p ↔ PresLeaf K pres p l :=
  mem_leavesF_iff K pres _ p l (Nat.lt_succ_self _)

theorem presLeaf_anc {K : KTree} {pres : Nat → Bool} {p l : Nat} (h : PresLeaf K pres p l) : Anc K.toTree p l :=
  reach_anc h.1

theorem leavesF_anc (K : KTree) (pres : Nat → Bool) : ∀ (fuel p l : Nat), l ∈ leavesF K pres fuel p → Anc K.toTree p l := by
  intro fuel
  induction fuel with
  | zero => intro p l h; simp [leavesF] at h
  | succ fuel ih =>
    intro p l h
    rcases mem_leavesF_succ.mp h with ⟨_, rfl⟩ | ⟨_, c, hc, _, hl⟩
    · exact Anc.refl _
    · exact anc_trans (Anc.step ((K.kids_iff p c).mp hc) (Anc.refl p)) (ih c l hl)

/-! ## the recursion as coded, characterised -/

open Classical

/-- a FRESH present leaf (one that does not carry `t` yet) of the write at `p` lies at / below `x` -/
def Fresh (K : KTree) (pres : Nat → Bool) (t fuel p : Nat) (M : Lmt) (x : Nat) : Prop :=
  ∃ l, l ∈ leavesF K pres fuel p ∧ Anc K.toTree x l ∧ M l ≠ t

/-- `t`-stamps are closed upwards on the edges at / below `p` -/
def TCbelow (K : KTree) (t p : Nat) (M : Lmt) : Prop :=
  ∀ c q, K.parent c = some q → Anc K.toTree p q → M c = t → M q = t

/-- what one `copy_value_from_impl` call at `p` from state `M` does (`o` = its outcome) -/
structure CopySpec (K : KTree) (pres : Nat → Bool) (t fuel p : Nat) (M : Lmt) (o : WOut) : Prop where
  frame : ∀ x, o.L x = M x ∨ (o.L x = t ∧ x ≠ p ∧ Anc K.toTree p x ∧ M x < t)
  closed : ∀ c q, K.parent c = some q → Anc K.toTree p q → q ≠ p → o.L c = t → o.L q = t
  count : ∀ x, o.N.count x = if o.L x = M x then 0 else 1
  ok : ∀ b, o.r = some b →
    (∀ x, o.L x = if x ≠ p ∧ Anc K.toTree p x ∧ Fresh K pres t fuel p M x then t else M x) ∧
    (b = true ↔ ∃ l, l ∈ leavesF K pres fuel p ∧ M l ≠ t) ∧
    (∀ y, y ≠ p → Anc K.toTree p y → M y = t → ¬ Fresh K pres t fuel p M y)
  err : o.r = none → M p = t ∧ ∃ y, y ≠ p ∧ Anc K.toTree p y ∧ M y = t ∧ Fresh K pres t fuel p M y

theorem copyF_succ (K : KTree) (t : Nat) (pres : Nat → Bool) (fuel p : Nat) (L : Lmt) :
    copyF K t pres (fuel + 1) p L =
      if K.kids p = [] then ⟨L, [], [p], some (L p != t)⟩
      else (K.kids p).foldl (childStep t pres (fun c M => copyF K t pres fuel c M)) ⟨L, [], [], some false⟩ := rfl

theorem foldl_childStep_none (t : Nat) (pres : Nat → Bool) (rec : Nat → Lmt → WOut) :
    ∀ (cs : List Nat) (acc : WOut), acc.r = none → cs.foldl (childStep t pres rec) acc = acc := by
  intro cs
  induction cs with
  | nil => intro acc _; rfl
  | cons c cs ih =>
    intro acc h
    have : childStep t pres rec acc c = acc := by simp [childStep, h]
    rw [List.foldl_cons, this]; exact ih acc h

/-- the state of the `for index` loop of `fixed_copy_value_from` at `p`, entered in state `M0`, after the children
    `done`, before the children `rem` -/
structure LoopInv (K : KTree) (pres : Nat → Bool) (t fuel p : Nat) (M0 : Lmt) (done rem : List Nat) (acc : WOut) : Prop where
  frame : ∀ x, acc.L x = M0 x ∨ (acc.L x = t ∧ x ≠ p ∧ Anc K.toTree p x ∧ M0 x < t)
  closed : ∀ c q, K.parent c = some q → Anc K.toTree p q → q ≠ p → acc.L c = t → acc.L q = t
  count : ∀ x, acc.N.count x = if acc.L x = M0 x then 0 else 1
  untouched : ∀ c, c ∈ rem → ∀ x, Anc K.toTree c x → acc.L x = M0 x
  ok : ∀ nm, acc.r = some nm →
    (∀ x, acc.L x = if (∃ c, c ∈ done ∧ pres c = true ∧ Anc K.toTree c x ∧ Fresh K pres t fuel c M0 x) then t else M0 x) ∧
    (nm = true ↔ ∃ c, c ∈ done ∧ pres c = true ∧ ∃ l, l ∈ leavesF K pres fuel c ∧ M0 l ≠ t) ∧
    (∀ c, c ∈ done → pres c = true → ∀ y, Anc K.toTree c y → M0 y = t → ¬ Fresh K pres t fuel c M0 y)
  err : acc.r = none → M0 p = t ∧ ∃ c y, c ∈ K.kids p ∧ pres c = true ∧ Anc K.toTree c y ∧ M0 y = t ∧ Fresh K pres t fuel c M0 y

theorem count_append3 (a b : List Nat) (c x : Nat) :
    (a ++ b ++ [c]).count x = a.count x + b.count x + (if c = x then 1 else 0) := by
  simp only [List.count_append, List.count_cons, List.count_nil, beq_iff_eq]
  split <;> omega

theorem ite_iff_congr {P Q : Prop} [Decidable P] [Decidable Q] (h : P ↔ Q) (a b : Nat) :
    (if P then a else b) = (if Q then a else b) := by
  by_cases hp : P
  · rw [if_pos hp, if_pos (h.mp hp)]
  · rw [if_neg hp, if_neg (fun hq => hp (h.mpr hq))]

/-- one child of the loop -/
theorem loop_step (K : KTree) (pres : Nat → Bool) (t fuel p : Nat) (M0 : Lmt)
    (hb0 : ∀ x, M0 x ≤ t) (htc0 : TCbelow K t p M0)
    (ihc : ∀ c M, K.height c < fuel → (∀ x, M x ≤ t) → TCbelow K t c M →
      CopySpec K pres t fuel c M (copyF K t pres fuel c M))
    (hf : K.height p < fuel + 1)
    (done rem : List Nat) (c : Nat) (acc : WOut)
    (hc : K.parent c = some p) (hrem : ∀ c', c' ∈ rem → K.parent c' = some p)
    (hdone : ∀ c', c' ∈ done → K.parent c' = some p)
    (hcd : c ∉ done) (hcr : c ∉ rem)
    (I : LoopInv K pres t fuel p M0 done (c :: rem) acc) :
    LoopInv K pres t fuel p M0 (done ++ [c]) rem
      (childStep t pres (fun c M => copyF K t pres fuel c M) acc c) := by
  have hpc : p < c := K.wf c p hc
  have hcmem : c ∈ K.kids p := (K.kids_iff p c).mpr hc
  have hApc : Anc K.toTree p c := Anc.step hc (Anc.refl p)
  -- what stays true whatever happens to `c`
  have hun_rem : ∀ (L' : Lmt), (∀ x, ¬ Anc K.toTree c x → L' x = acc.L x) →
      ∀ c', c' ∈ rem → ∀ x, Anc K.toTree c' x → L' x = M0 x := by
    intro L' hL' c' hc' x hx
    have hne : c ≠ c' := fun e => hcr (e ▸ hc')
    have : ¬ Anc K.toTree c x := fun h => hne (anc_child_unique hc (hrem c' hc') h hx)
    rw [hL' x this]; exact I.untouched c' (List.mem_cons_of_mem _ hc') x hx
  cases hr : acc.r with
  | none =>
    have : childStep t pres (fun c M => copyF K t pres fuel c M) acc c = acc := by simp [childStep, hr]
    rw [this]
    exact ⟨I.frame, I.closed, I.count, fun c' h => I.untouched c' (List.mem_cons_of_mem _ h),
      (fun nm h => by rw [hr] at h; cases h), I.err⟩
  | some nm =>
    obtain ⟨okL, okN, okD⟩ := I.ok nm hr
    by_cases hp : pres c = false
    · have : childStep t pres (fun c M => copyF K t pres fuel c M) acc c = acc := by simp [childStep, hr, hp]
      rw [this]
      refine ⟨I.frame, I.closed, I.count, fun c' h => I.untouched c' (List.mem_cons_of_mem _ h), ?_,
        (fun h => by rw [hr] at h; cases h)⟩
      intro nm' hnm'
      rw [hr] at hnm'; injection hnm' with hnm'; subst hnm'
      refine ⟨?_, ?_, ?_⟩
      · intro x
        rw [okL x]
        have : (∃ c', c' ∈ done ++ [c] ∧ pres c' = true ∧ Anc K.toTree c' x ∧ Fresh K pres t fuel c' M0 x) ↔
            (∃ c', c' ∈ done ∧ pres c' = true ∧ Anc K.toTree c' x ∧ Fresh K pres t fuel c' M0 x) := by
          constructor
          · rintro ⟨c', hm, h1, h2⟩
            rcases List.mem_append.mp hm with h | h
            · exact ⟨c', h, h1, h2⟩
            · have : c' = c := by simpa using h
              subst this; rw [hp] at h1; cases h1
          · rintro ⟨c', hm, h1, h2⟩; exact ⟨c', List.mem_append_left _ hm, h1, h2⟩
        exact (ite_iff_congr this t (M0 x)).symm
      · rw [okN]
        constructor
        · rintro ⟨c', hm, h1, h2⟩; exact ⟨c', List.mem_append_left _ hm, h1, h2⟩
        · rintro ⟨c', hm, h1, h2⟩
          rcases List.mem_append.mp hm with h | h
          · exact ⟨c', h, h1, h2⟩
          · have : c' = c := by simpa using h
            subst this; rw [hp] at h1; cases h1
      · intro c' hm h1
        rcases List.mem_append.mp hm with h | h
        · exact okD c' h h1
        · have : c' = c := by simpa using h
          subst this; rw [hp] at h1; cases h1
    · have hp' : pres c = true := by
        rcases Bool.eq_false_or_eq_true (pres c) with h | h
        · exact h
        · exact absurd h hp
      -- the recursive call
      have hbA : ∀ x, acc.L x ≤ t := by
        intro x; rcases I.frame x with h | ⟨h, _⟩
        · rw [h]; exact hb0 x
        · omega
      have htcA : TCbelow K t c acc.L := by
        intro c' q' hc' hq' hct
        have hle := anc_le hq'
        exact I.closed c' q' hc' (anc_trans hApc hq') (by omega) hct
      have hh : K.height c < fuel := by have := K.height_lt p c hc; omega
      have S := ihc c acc.L hh hbA htcA
      have hunc : ∀ x, Anc K.toTree c x → acc.L x = M0 x := I.untouched c List.mem_cons_self
      have hfresh_eq : ∀ x, Fresh K pres t fuel c acc.L x ↔ Fresh K pres t fuel c M0 x := by
        intro x
        constructor
        · rintro ⟨l, hl, ha, hne⟩; exact ⟨l, hl, ha, by rw [← hunc l (leavesF_anc K pres fuel c l hl)]; exact hne⟩
        · rintro ⟨l, hl, ha, hne⟩; exact ⟨l, hl, ha, by rw [hunc l (leavesF_anc K pres fuel c l hl)]; exact hne⟩
      generalize ho : copyF K t pres fuel c acc.L = o at S
      have hoc : o.L c = acc.L c := by
        rcases S.frame c with h | ⟨_, h, _⟩
        · exact h
        · exact absurd rfl h
      have hout : ∀ x, ¬ Anc K.toTree c x → o.L x = acc.L x := by
        intro x hx
        rcases S.frame x with h | ⟨_, _, h, _⟩
        · exact h
        · exact absurd h hx
      -- facts shared by all outcomes: frame and counts of the state `o.L` (before the stamp of `c`)
      have hframe_o : ∀ x, o.L x = M0 x ∨ (o.L x = t ∧ x ≠ p ∧ Anc K.toTree p x ∧ M0 x < t) := by
        intro x
        rcases S.frame x with h | ⟨h1, _, h3, h4⟩
        · rw [h]; exact I.frame x
        · right
          have hle := anc_le h3
          rw [hunc x h3] at h4
          exact ⟨h1, by omega, anc_trans hApc h3, h4⟩
      have hcount_o : ∀ x, (acc.N ++ o.N).count x = if o.L x = M0 x then 0 else 1 := by
        intro x
        rw [List.count_append, I.count x, S.count x]
        rcases S.frame x with h | ⟨h1, _, h3, h4⟩
        · rw [h]; simp
        · have e := hunc x h3
          have hb := hb0 x
          have h5 : ¬ o.L x = acc.L x := by omega
          have h6 : ¬ o.L x = M0 x := by omega
          simp [e, h6]
      -- closure of the edges strictly inside `p`, given the state of `c` itself carries `t` whenever a child of `c` does
      have hclosed_o : (∀ c', K.parent c' = some c → o.L c' = t → o.L c = t) →
          ∀ c' q', K.parent c' = some q' → Anc K.toTree p q' → q' ≠ p → o.L c' = t → o.L q' = t := by
        intro hinto c' q' hc' hq' hne hct
        by_cases hq'c : q' = c
        · subst hq'c; exact hinto c' hc' hct
        · by_cases hcq : Anc K.toTree c q'
          · exact S.closed c' q' hc' hcq hq'c hct
          · have hnc : ¬ (c' ≠ c ∧ Anc K.toTree c c') := fun ⟨h1, h2⟩ => hcq (anc_parent_of_ne hc' h2 (Ne.symm h1))
            have e1 : o.L c' = acc.L c' := by
              rcases S.frame c' with h | ⟨_, h2, h3, _⟩
              · exact h
              · exact absurd ⟨h2, h3⟩ hnc
            rw [hout q' hcq]
            exact I.closed c' q' hc' hq' hne (by rw [← e1]; exact hct)
      have hM0p_of : acc.L c = t → M0 p = t := by
        intro h
        have : M0 c = t := by rw [← hunc c (Anc.refl c)]; exact h
        exact htc0 c p hc (Anc.refl p) this
      have hstep : childStep t pres (fun c M => copyF K t pres fuel c M) acc c =
          (match o.r with
            | none => ⟨o.L, acc.N ++ o.N, acc.V ++ o.V, none⟩
            | some false => ⟨o.L, acc.N ++ o.N, acc.V ++ o.V, some nm⟩
            | some true =>
              if t ≤ o.L c then ⟨o.L, acc.N ++ o.N, acc.V ++ o.V, none⟩
              else ⟨upd o.L c t, acc.N ++ o.N ++ [c], acc.V ++ o.V, some true⟩) := by
        simp only [childStep, hr, hp', ho]
        rfl
      rw [hstep]
      cases hor : o.r with
      | none =>
        obtain ⟨e1, y, hy1, hy2, hy3, hy4⟩ := S.err hor
        simp only
        refine ⟨hframe_o, ?_, hcount_o, hun_rem o.L hout, (fun nm' h => by cases h), fun _ => ?_⟩
        · apply hclosed_o
          intro c' _ _
          rw [hoc]; exact e1
        · refine ⟨hM0p_of e1, c, y, hcmem, hp', hy2, ?_, (hfresh_eq y).mp hy4⟩
          rw [← hunc y hy2]; exact hy3
      | some b =>
        obtain ⟨sL, sB, sD⟩ := S.ok b hor
        cases b with
        | false =>
          simp only
          have nofresh : ¬ ∃ l, l ∈ leavesF K pres fuel c ∧ acc.L l ≠ t := fun h => by
            have := sB.mpr h; cases this
          have hsame : ∀ x, o.L x = acc.L x := by
            intro x
            rw [sL x]
            have : ¬ (x ≠ c ∧ Anc K.toTree c x ∧ Fresh K pres t fuel c acc.L x) := by
              rintro ⟨_, _, l, hl, _, hne⟩; exact nofresh ⟨l, hl, hne⟩
            simp [this]
          have nofresh0 : ∀ x, ¬ Fresh K pres t fuel c M0 x := by
            intro x hx
            obtain ⟨l, hl, _, hne⟩ := (hfresh_eq x).mpr hx
            exact nofresh ⟨l, hl, hne⟩
          refine ⟨hframe_o, ?_, hcount_o, hun_rem o.L hout, ?_, (fun h => by cases h)⟩
          · intro c' q' hc' hq' hne hct
            rw [hsame] at hct ⊢
            exact I.closed c' q' hc' hq' hne hct
          · intro nm' hnm'
            injection hnm' with hnm'; subst hnm'
            refine ⟨?_, ?_, ?_⟩
            · intro x
              rw [hsame x, okL x]
              have : (∃ c', c' ∈ done ++ [c] ∧ pres c' = true ∧ Anc K.toTree c' x ∧ Fresh K pres t fuel c' M0 x) ↔
                  (∃ c', c' ∈ done ∧ pres c' = true ∧ Anc K.toTree c' x ∧ Fresh K pres t fuel c' M0 x) := by
                constructor
                · rintro ⟨c', hm, h1, h2, h3⟩
                  rcases List.mem_append.mp hm with h | h
                  · exact ⟨c', h, h1, h2, h3⟩
                  · have : c' = c := by simpa using h
                    subst this; exact absurd h3 (nofresh0 x)
                · rintro ⟨c', hm, h1, h2⟩; exact ⟨c', List.mem_append_left _ hm, h1, h2⟩
              exact (ite_iff_congr this t (M0 x)).symm
            · rw [okN]
              constructor
              · rintro ⟨c', hm, h1, h2⟩; exact ⟨c', List.mem_append_left _ hm, h1, h2⟩
              · rintro ⟨c', hm, h1, l, hl, hne⟩
                rcases List.mem_append.mp hm with h | h
                · exact ⟨c', h, h1, l, hl, hne⟩
                · have : c' = c := by simpa using h
                  subst this
                  exact absurd ⟨l, hl, by rw [hunc l (leavesF_anc K pres fuel c' l hl)]; exact hne⟩ nofresh
            · intro c' hm h1
              rcases List.mem_append.mp hm with h | h
              · exact okD c' h h1
              · have : c' = c := by simpa using h
                subst this
                intro y _ _; exact nofresh0 y
        | true =>
          obtain ⟨l0, hl0, hne0⟩ := sB.mp rfl
          have hl0' : M0 l0 ≠ t := by rw [← hunc l0 (leavesF_anc K pres fuel c l0 hl0)]; exact hne0
          have hAl0 : Anc K.toTree c l0 := leavesF_anc K pres fuel c l0 hl0
          simp only
          by_cases hdup : t ≤ o.L c
          · -- the duplicate-modification error at `c`
            rw [if_pos hdup]
            have hct : acc.L c = t := by have := hbA c; rw [hoc] at hdup; omega
            refine ⟨hframe_o, ?_, hcount_o, hun_rem o.L hout, (fun nm' h => by cases h), fun _ => ?_⟩
            · apply hclosed_o
              intro c' _ _
              rw [hoc]; exact hct
            · refine ⟨hM0p_of hct, c, c, hcmem, hp', Anc.refl c, ?_, l0, hl0, hAl0, hl0'⟩
              rw [← hunc c (Anc.refl c)]; exact hct
          · rw [if_neg hdup]
            have hlt : acc.L c < t := by rw [hoc] at hdup; omega
            have hM0c : M0 c < t := by rw [← hunc c (Anc.refl c)]; exact hlt
            refine ⟨?_, ?_, ?_, ?_, ?_, (fun h => by cases h)⟩
            · intro x
              by_cases hx : x = c
              · subst hx; right; exact ⟨by simp [upd], by omega, hApc, hM0c⟩
              · simp only [upd, hx, if_false]; exact hframe_o x
            · intro c' q' hc' hq' hne hct
              by_cases hq'c : q' = c
              · subst hq'c; simp [upd]
              · have hc'c : c' ≠ c := by
                  intro e; subst e; rw [hc] at hc'; injection hc' with hc'; exact hne hc'.symm
                simp only [upd, hc'c, hq'c, if_false] at hct ⊢
                by_cases hcq : Anc K.toTree c q'
                · exact S.closed c' q' hc' hcq hq'c hct
                · have hnc : ¬ (c' ≠ c ∧ Anc K.toTree c c') := fun ⟨h1, h2⟩ => hcq (anc_parent_of_ne hc' h2 (Ne.symm h1))
                  have e1 : o.L c' = acc.L c' := by
                    rcases S.frame c' with h | ⟨_, h2, h3, _⟩
                    · exact h
                    · exact absurd ⟨h2, h3⟩ hnc
                  rw [hout q' hcq]
                  exact I.closed c' q' hc' hq' hne (by rw [← e1]; exact hct)
            · intro x
              rw [count_append3, ← List.count_append, hcount_o x]
              by_cases hx : c = x
              · subst hx
                have h1 : o.L c = M0 c := by rw [hoc]; exact hunc c (Anc.refl c)
                have h2 : ¬ upd o.L c t c = M0 c := by simp [upd]; omega
                simp [h1, h2]
              · have hx' : x ≠ c := fun e => hx e.symm
                simp [upd, hx, hx']
            · intro c' hc' x hx
              have hne : c ≠ c' := fun e => hcr (e ▸ hc')
              have hxc : x ≠ c := by
                intro e; subst e
                exact hne (anc_child_unique hc (hrem c' hc') (Anc.refl x) hx)
              simp only [upd, hxc, if_false]
              exact hun_rem o.L hout c' hc' x hx
            · intro nm' hnm'
              injection hnm' with hnm'; subst hnm'
              refine ⟨?_, ?_, ?_⟩
              · intro x
                by_cases hcx : Anc K.toTree c x
                · -- inside the subtree of `c`: no earlier child is above `x`
                  have hnodone : ¬ ∃ c', c' ∈ done ∧ pres c' = true ∧ Anc K.toTree c' x ∧ Fresh K pres t fuel c' M0 x := by
                    rintro ⟨c', hm, _, h2, _⟩
                    have hpar : K.parent c' = some p := hdone c' hm
                    exact absurd (anc_child_unique hc hpar hcx h2) (fun e => hcd (e ▸ hm))
                  by_cases hx : x = c
                  · subst hx
                    have : ∃ c', c' ∈ done ++ [x] ∧ pres c' = true ∧ Anc K.toTree c' x ∧ Fresh K pres t fuel c' M0 x :=
                      ⟨x, by simp, hp', Anc.refl x, l0, hl0, hAl0, hl0'⟩
                    rw [if_pos this]; simp [upd]
                  · simp only [upd, hx, if_false]
                    rw [sL x, hunc x hcx]
                    by_cases hfx : Fresh K pres t fuel c M0 x
                    · have h1 : x ≠ c ∧ Anc K.toTree c x ∧ Fresh K pres t fuel c acc.L x := ⟨hx, hcx, (hfresh_eq x).mpr hfx⟩
                      have h2 : ∃ c', c' ∈ done ++ [c] ∧ pres c' = true ∧ Anc K.toTree c' x ∧ Fresh K pres t fuel c' M0 x :=
                        ⟨c, by simp, hp', hcx, hfx⟩
                      rw [if_pos h1, if_pos h2]
                    · have h1 : ¬ (x ≠ c ∧ Anc K.toTree c x ∧ Fresh K pres t fuel c acc.L x) :=
                        fun ⟨_, _, h⟩ => hfx ((hfresh_eq x).mp h)
                      have h2 : ¬ ∃ c', c' ∈ done ++ [c] ∧ pres c' = true ∧ Anc K.toTree c' x ∧ Fresh K pres t fuel c' M0 x := by
                        rintro ⟨c', hm, h1', h2', h3'⟩
                        rcases List.mem_append.mp hm with h | h
                        · exact hnodone ⟨c', h, h1', h2', h3'⟩
                        · have : c' = c := by simpa using h
                          subst this; exact hfx h3'
                      rw [if_neg h1, if_neg h2]
                · have hxc : x ≠ c := by intro e; subst e; exact hcx (Anc.refl _)
                  simp only [upd, hxc, if_false]
                  rw [hout x hcx, okL x]
                  have : (∃ c', c' ∈ done ++ [c] ∧ pres c' = true ∧ Anc K.toTree c' x ∧ Fresh K pres t fuel c' M0 x) ↔
                      (∃ c', c' ∈ done ∧ pres c' = true ∧ Anc K.toTree c' x ∧ Fresh K pres t fuel c' M0 x) := by
                    constructor
                    · rintro ⟨c', hm, h1, h2, h3⟩
                      rcases List.mem_append.mp hm with h | h
                      · exact ⟨c', h, h1, h2, h3⟩
                      · have : c' = c := by simpa using h
                        subst this; exact absurd h2 hcx
                    · rintro ⟨c', hm, h1, h2⟩; exact ⟨c', List.mem_append_left _ hm, h1, h2⟩
                  exact (ite_iff_congr this t (M0 x)).symm
              · constructor
                · intro _; exact ⟨c, by simp, hp', l0, hl0, hl0'⟩
                · intro _; rfl
              · intro c' hm h1
                rcases List.mem_append.mp hm with h | h
                · exact okD c' h h1
                · have : c' = c := by simpa using h
                  subst this
                  intro y hy hyt hfy
                  by_cases hyc : y = c'
                  · subst hyc; omega
                  · have : acc.L y = t := by rw [hunc y hy]; exact hyt
                    exact sD y hyc hy this ((hfresh_eq y).mpr hfy)

/-- the whole loop -/
theorem loop_spec (K : KTree) (pres : Nat → Bool) (t fuel p : Nat) (M0 : Lmt)
    (hb0 : ∀ x, M0 x ≤ t) (htc0 : TCbelow K t p M0)
    (ihc : ∀ c M, K.height c < fuel → (∀ x, M x ≤ t) → TCbelow K t c M →
      CopySpec K pres t fuel c M (copyF K t pres fuel c M))
    (hf : K.height p < fuel + 1) :
    ∀ (rem done : List Nat) (acc : WOut),
      (∀ c', c' ∈ rem → K.parent c' = some p) → (∀ c', c' ∈ done → K.parent c' = some p) →
      rem.Nodup → (∀ c', c' ∈ rem → c' ∉ done) →
      LoopInv K pres t fuel p M0 done rem acc →
      LoopInv K pres t fuel p M0 (done ++ rem) []
        (rem.foldl (childStep t pres (fun c M => copyF K t pres fuel c M)) acc) := by
  intro rem
  induction rem with
  | nil => intro done acc _ _ _ _ I; simpa using I
  | cons c rem ih =>
    intro done acc hrem hdone hnd hdisj I
    have hc := hrem c List.mem_cons_self
    have hrem' : ∀ c', c' ∈ rem → K.parent c' = some p := fun c' h => hrem c' (List.mem_cons_of_mem _ h)
    have hcr : c ∉ rem := (List.nodup_cons.mp hnd).1
    have hcd : c ∉ done := hdisj c List.mem_cons_self
    have I' := loop_step K pres t fuel p M0 hb0 htc0 ihc hf done rem c acc hc hrem' hdone hcd hcr I
    have := ih (done ++ [c]) _ hrem'
      (fun c' h => by
        rcases List.mem_append.mp h with h | h
        · exact hdone c' h
        · have : c' = c := by simpa using h
          subst this; exact hc)
      (List.nodup_cons.mp hnd).2
      (fun c' h hd => by
        rcases List.mem_append.mp hd with hd | hd
        · exact hdisj c' (List.mem_cons_of_mem _ h) hd
        · have : c' = c := by simpa using hd
          subst this; exact hcr h)
      I'
    simpa [List.foldl_cons, List.append_assoc] using this

/-- **`fixed_copy_value_from` as coded, characterised**: from any state bounded by `t` whose `t`-stamps are closed
    upwards below `p` -/
theorem copyF_spec (K : KTree) (hnd : ∀ q, (K.kids q).Nodup) (pres : Nat → Bool) (t : Nat) :
    ∀ (fuel p : Nat) (M : Lmt), K.height p < fuel → (∀ x, M x ≤ t) → TCbelow K t p M →
      CopySpec K pres t fuel p M (copyF K t pres fuel p M) := by
  intro fuel
  induction fuel with
  | zero => intro p M h; omega
  | succ fuel ih =>
    intro p M hf hb htc
    rw [copyF_succ]
    by_cases hk : K.kids p = []
    · rw [if_pos hk]
      have hleaves : ∀ l, l ∈ leavesF K pres (fuel + 1) p ↔ l = p := by
        intro l; rw [mem_leavesF_succ]; simp [hk]
      have nofresh : ∀ y, y ≠ p → Anc K.toTree p y → ¬ Fresh K pres t (fuel + 1) p M y := by
        rintro y hy hpy ⟨l, hl, hyl, _⟩
        rw [(hleaves l).mp hl] at hyl
        have := anc_le hpy; have := anc_le hyl; omega
      refine ⟨fun x => Or.inl rfl, ?_, fun x => by simp, ?_, fun h => by cases h⟩
      · intro c q hc hq hne hct; exact htc c q hc hq hct
      · intro b hbb
        injection hbb with hbb
        refine ⟨?_, ?_, fun y hy hpy _ => nofresh y hy hpy⟩
        · intro x
          have : ¬ (x ≠ p ∧ Anc K.toTree p x ∧ Fresh K pres t (fuel + 1) p M x) := fun ⟨h1, h2, h3⟩ => nofresh x h1 h2 h3
          rw [if_neg this]
        · rw [← hbb]
          constructor
          · intro h; exact ⟨p, (hleaves p).mpr rfl, by simpa using h⟩
          · rintro ⟨l, hl, hne⟩; rw [(hleaves l).mp hl] at hne; simpa using hne
    · rw [if_neg hk]
      have I0 : LoopInv K pres t fuel p M [] (K.kids p) ⟨M, [], [], some false⟩ := by
        refine ⟨fun x => Or.inl rfl, ?_, fun x => by simp, fun _ _ _ _ => rfl, ?_, fun h => by cases h⟩
        · intro c q hc hq _ hct; exact htc c q hc hq hct
        · intro nm hnm
          injection hnm with hnm; subst hnm
          refine ⟨fun x => ?_, ?_, fun c h => absurd h List.not_mem_nil⟩
          · have : ¬ ∃ c, c ∈ ([] : List Nat) ∧ pres c = true ∧ Anc K.toTree c x ∧ Fresh K pres t fuel c M x := by
              rintro ⟨c, h, _⟩; exact absurd h List.not_mem_nil
            rw [if_neg this]
          · constructor
            · intro h; cases h
            · rintro ⟨c, h, _⟩; exact absurd h List.not_mem_nil
      have I := loop_spec K pres t fuel p M hb htc (fun c M' => ih c M') hf (K.kids p) [] _
        (fun c h => (K.kids_iff p c).mp h) (fun c h => absurd h List.not_mem_nil) (hnd p)
        (fun _ _ h => absurd h List.not_mem_nil) I0
      rw [List.nil_append] at I
      generalize (K.kids p).foldl (childStep t pres (fun c M => copyF K t pres fuel c M)) ⟨M, [], [], some false⟩ = o at I
      -- the children's leaves are the leaves
      have hmemL : ∀ l, l ∈ leavesF K pres (fuel + 1) p ↔ ∃ c, c ∈ K.kids p ∧ pres c = true ∧ l ∈ leavesF K pres fuel c := by
        intro l; rw [mem_leavesF_succ]; simp [hk]
      have hfreshP : ∀ y, y ≠ p → Anc K.toTree p y →
          (Fresh K pres t (fuel + 1) p M y ↔
            ∃ c, c ∈ K.kids p ∧ pres c = true ∧ Anc K.toTree c y ∧ Fresh K pres t fuel c M y) := by
        intro y hy hpy
        constructor
        · rintro ⟨l, hl, hyl, hne⟩
          obtain ⟨c, hc, hpc, hlc⟩ := (hmemL l).mp hl
          rcases anc_down hpy with rfl | ⟨s, hs, hsy⟩
          · exact absurd rfl hy
          · have hcl := leavesF_anc K pres fuel c l hlc
            have : s = c := anc_child_unique hs ((K.kids_iff p c).mp hc) (anc_trans hsy hyl) hcl
            subst this
            exact ⟨s, hc, hpc, hsy, l, hlc, hyl, hne⟩
        · rintro ⟨c, hc, hpc, _, l, hlc, hyl, hne⟩
          exact ⟨l, (hmemL l).mpr ⟨c, hc, hpc, hlc⟩, hyl, hne⟩
      refine ⟨I.frame, I.closed, I.count, ?_, ?_⟩
      · intro b hbb
        obtain ⟨oL, oN, oD⟩ := I.ok b hbb
        refine ⟨?_, ?_, ?_⟩
        · intro x
          rw [oL x]
          apply ite_iff_congr
          constructor
          · rintro ⟨c, hc, hpc, hcx, hf'⟩
            have hpar := (K.kids_iff p c).mp hc
            have hApx : Anc K.toTree p x := anc_trans (Anc.step hpar (Anc.refl p)) hcx
            have hxp : x ≠ p := by have := anc_le hcx; have := K.wf c p hpar; omega
            exact ⟨hxp, hApx, (hfreshP x hxp hApx).mpr ⟨c, hc, hpc, hcx, hf'⟩⟩
          · rintro ⟨hxp, hApx, hf'⟩
            exact (hfreshP x hxp hApx).mp hf'
        · rw [oN]
          constructor
          · rintro ⟨c, hc, hpc, l, hl, hne⟩; exact ⟨l, (hmemL l).mpr ⟨c, hc, hpc, hl⟩, hne⟩
          · rintro ⟨l, hl, hne⟩
            obtain ⟨c, hc, hpc, hlc⟩ := (hmemL l).mp hl
            exact ⟨c, hc, hpc, l, hlc, hne⟩
        · intro y hy hpy hyt hf'
          obtain ⟨c, hc, hpc, hcy, hfc⟩ := (hfreshP y hy hpy).mp hf'
          exact oD c hc hpc y hcy hyt hfc
      · intro hn
        obtain ⟨e1, c, y, hc, hpc, hcy, hyt, hfc⟩ := I.err hn
        have hpar := (K.kids_iff p c).mp hc
        have hApy : Anc K.toTree p y := anc_trans (Anc.step hpar (Anc.refl p)) hcy
        have hyp : y ≠ p := by have := anc_le hcy; have := K.wf c p hpar; omega
        exact ⟨e1, y, hyp, hApy, hyt, (hfreshP y hyp hApy).mpr ⟨c, hc, hpc, hcy, hfc⟩⟩

/-! ## the write itself (`TSDataMutationView::copy_value_from / move_value_from`) -/

theorem tcbelow_of_inv {K : KTree} {now t : Nat} {L : Lmt} (h : Inv K.toTree now L) (ht : now ≤ t) (p : Nat) :
    TCbelow K t p L := by
  intro c q hc _ hct
  have := h.1 c q hc; have := h.2 q; omega

theorem mem_presLeaves_fuel (K : KTree) (pres : Nat → Bool) (p l : Nat) :
    l ∈ leavesF K pres (K.height p + 1) p ↔ PresLeaf K pres p l := mem_presLeaves_iff K pres p l

/-- the outcome of the recursion at the written position, with everything `copyF_spec` says about it -/
theorem whole_core (K : KTree) (hnd : ∀ q, (K.kids q).Nodup) (pres : Nat → Bool) (now t p : Nat) (L : Lmt)
    (h : Inv K.toTree now L) (ht : now ≤ t) :
    CopySpec K pres t (K.height p + 1) p L (copyF K t pres (K.height p + 1) p L) :=
  copyF_spec K hnd pres t (K.height p + 1) p L (Nat.lt_succ_self _) (fun x => Nat.le_trans (h.2 x) ht)
    (tcbelow_of_inv h ht p)

theorem wholeOut_r (K : KTree) (p t : Nat) (pres : Nat → Bool) (L : Lmt) :
    (wholeOut K p t pres L).r = (copyF K t pres (K.height p + 1) p L).r := by
  unfold wholeOut
  cases hr : (copyF K t pres (K.height p + 1) p L).r with
  | none => simp only [hr]
  | some b => cases b <;> simp only [hr]

theorem whole_cases (K : KTree) (p t : Nat) (pres : Nat → Bool) (L : Lmt) :
    ((copyF K t pres (K.height p + 1) p L).r = some true ∧
      wholeOut K p t pres L =
        ⟨markUp K.toTree (p + 1) p t (copyF K t pres (K.height p + 1) p L).L,
         (copyF K t pres (K.height p + 1) p L).N ++ markUpN K.toTree (p + 1) p t (copyF K t pres (K.height p + 1) p L).L,
         (copyF K t pres (K.height p + 1) p L).V, some true⟩) ∨
    ((copyF K t pres (K.height p + 1) p L).r ≠ some true ∧
      wholeOut K p t pres L = copyF K t pres (K.height p + 1) p L) := by
  unfold wholeOut
  cases hr : (copyF K t pres (K.height p + 1) p L).r with
  | none => right; exact ⟨by simp, by simp only [hr]⟩
  | some b =>
    cases b with
    | true => left; exact ⟨rfl, by simp only [hr]⟩
    | false => right; exact ⟨by simp, by simp only [hr]⟩

/-- **`lmt child ≤ lmt parent ≤ now` survives every whole-value write** — also one that fails half-way with the
    duplicate-modification error -/
theorem whole_inv (K : KTree) (hnd : ∀ q, (K.kids q).Nodup) (pres : Nat → Bool) (now t p : Nat) (L : Lmt)
    (h : Inv K.toTree now L) (ht : now ≤ t) : Inv K.toTree t (whole K p t pres L) := by
  have S := whole_core K hnd pres now t p L h ht
  have hb : ∀ x, L x ≤ t := fun x => Nat.le_trans (h.2 x) ht
  have hW := whole_cases K p t pres L
  unfold whole
  generalize copyF K t pres (K.height p + 1) p L = o at S hW
  have hbo : ∀ x, o.L x ≤ t := by
    intro x; rcases S.frame x with e | ⟨e, _⟩
    · rw [e]; exact hb x
    · omega
  have hmono : ∀ x, L x ≤ o.L x := by
    intro x; rcases S.frame x with e | ⟨e, _⟩
    · omega
    · have := hb x; omega
  have hop : o.L p = L p := by
    rcases S.frame p with e | ⟨_, e, _⟩
    · exact e
    · exact absurd rfl e
  have hedge : ∀ c q, K.parent c = some q → o.L c ≤ o.L q ∨ (q = p ∧ o.L c = t ∧ L c < t) := by
    intro c q hc
    rcases S.frame c with e | ⟨e, hcp, hpc, hlt⟩
    · left; rw [e]; exact Nat.le_trans (h.1 c q hc) (hmono q)
    · by_cases hq : q = p
      · exact Or.inr ⟨hq, e, hlt⟩
      · left
        have := S.closed c q hc (anc_parent_of_ne hc hpc (Ne.symm hcp)) hq e
        omega
  rcases hW with ⟨hr, hw⟩ | ⟨hr, hw⟩
  · rw [hw]
    obtain ⟨m1, m2, _, _⟩ := markUp_spec K.toTree t (p + 1) p o.L (Nat.lt_succ_self p) hbo
      (fun c q hc => (hedge c q hc).imp id (fun ⟨a, b, _⟩ => ⟨a, b⟩))
    exact ⟨m1, m2⟩
  · rw [hw]
    refine ⟨?_, hbo⟩
    intro c q hc
    rcases hedge c q hc with h1 | ⟨hq, hct, hlt⟩
    · exact h1
    · subst hq
      cases hor : o.r with
      | none =>
        obtain ⟨ept, _⟩ := S.err hor
        have := hbo c; omega
      | some b =>
        cases b with
        | true => exact absurd hor hr
        | false =>
          exfalso
          obtain ⟨sL, sB, _⟩ := S.ok false hor
          have hx := sL c
          rw [hct] at hx
          by_cases hcond : c ≠ q ∧ Anc K.toTree q c ∧ Fresh K pres t (K.height q + 1) q L c
          · obtain ⟨_, _, l, hl, _, hne⟩ := hcond
            have := sB.mpr ⟨l, hl, hne⟩; cases this
          · rw [if_neg hcond] at hx; omega

/-- when no error is raised, the records after the write are the flat reading: every position at / above a present
    leaf carries `t`, every other position is untouched -/
theorem whole_ok_pointwise (K : KTree) (hnd : ∀ q, (K.kids q).Nodup) (pres : Nat → Bool) (now t p : Nat) (L : Lmt)
    (h : Inv K.toTree now L) (ht : now ≤ t) (hok : (wholeOut K p t pres L).r ≠ none) :
    ∀ x, whole K p t pres L x = if (∃ l, PresLeaf K pres p l ∧ Anc K.toTree x l) then t else L x := by
  have S := whole_core K hnd pres now t p L h ht
  have hb : ∀ x, L x ≤ t := fun x => Nat.le_trans (h.2 x) ht
  have hW := whole_cases K p t pres L
  rw [wholeOut_r] at hok
  have hPL := mem_presLeaves_fuel K pres p
  unfold whole
  generalize copyF K t pres (K.height p + 1) p L = o at S hW hok
  -- a present leaf that is not fresh carries `t`, and so does everything above it
  have hstale : ∀ x l, PresLeaf K pres p l → Anc K.toTree x l → L l = t → L x = t :=
    fun x l _ hxl hlt => anc_eq_of_top hb h.1 hxl hlt
  intro x
  cases hor : o.r with
  | none => exact absurd hor hok
  | some b =>
    obtain ⟨sL, sB, _⟩ := S.ok b hor
    rcases hW with ⟨hr, hw⟩ | ⟨hr, hw⟩
    · -- some fresh leaf: the position and everything above it is stamped by `mark_modified`
      rw [hw]
      have hbo : ∀ x, o.L x ≤ t := by
        intro x; rcases S.frame x with e | ⟨e, _⟩
        · rw [e]; exact hb x
        · omega
      have hedge : ∀ c q, K.parent c = some q → o.L c ≤ o.L q ∨ (q = p ∧ o.L c = t) := by
        intro c q hc
        rcases S.frame c with e | ⟨e, hcp, hpc, hlt⟩
        · left; rw [e]
          have : L q ≤ o.L q := by
            rcases S.frame q with e' | ⟨e', _⟩
            · omega
            · have := hb q; omega
          exact Nat.le_trans (h.1 c q hc) this
        · by_cases hq : q = p
          · exact Or.inr ⟨hq, e⟩
          · left
            have := S.closed c q hc (anc_parent_of_ne hc hpc (Ne.symm hcp)) hq e
            omega
      obtain ⟨_, _, m3, m4⟩ := markUp_spec K.toTree t (p + 1) p o.L (Nat.lt_succ_self p) hbo hedge
      have hbt : b = true := by rw [hor] at hr; injection hr
      obtain ⟨l0, hl0, hne0⟩ := sB.mp hbt
      have hP0 : PresLeaf K pres p l0 := (hPL l0).mp hl0
      by_cases hxp : Anc K.toTree x p
      · show markUp K.toTree (p + 1) p t o.L x = _
        rw [m3 x hxp, if_pos ⟨l0, hP0, anc_trans hxp (presLeaf_anc hP0)⟩]
      · show markUp K.toTree (p + 1) p t o.L x = _
        rw [m4 x hxp, sL x]
        by_cases hex : ∃ l, PresLeaf K pres p l ∧ Anc K.toTree x l
        · rw [if_pos hex]
          obtain ⟨l, hl, hxl⟩ := hex
          have hpx : Anc K.toTree p x := by
            rcases anc_linear hxl (presLeaf_anc hl) with h1 | h1
            · exact absurd h1 hxp
            · exact h1
          have hne : x ≠ p := by intro e; subst e; exact hxp (Anc.refl _)
          by_cases hfr : Fresh K pres t (K.height p + 1) p L x
          · rw [if_pos ⟨hne, hpx, hfr⟩]
          · rw [if_neg (fun hh => hfr hh.2.2)]
            apply hstale x l hl hxl
            have := hb l
            exact Classical.byContradiction fun hlt => hfr ⟨l, (hPL l).mpr hl, hxl, hlt⟩
        · rw [if_neg hex]
          have : ¬ (x ≠ p ∧ Anc K.toTree p x ∧ Fresh K pres t (K.height p + 1) p L x) := by
            rintro ⟨_, _, l, hl, hxl, _⟩; exact hex ⟨l, (hPL l).mp hl, hxl⟩
          rw [if_neg this]
    · -- no fresh leaf: nothing is recorded anywhere
      rw [hw]
      have hbf : b = false := by
        cases b with
        | true => exact absurd hor hr
        | false => rfl
      subst hbf
      have nofresh : ¬ ∃ l, l ∈ leavesF K pres (K.height p + 1) p ∧ L l ≠ t := fun hh => by
        have := sB.mpr hh; cases this
      have : ¬ (x ≠ p ∧ Anc K.toTree p x ∧ Fresh K pres t (K.height p + 1) p L x) := by
        rintro ⟨_, _, l, hl, _, hne⟩; exact nofresh ⟨l, hl, hne⟩
      rw [sL x, if_neg this]
      by_cases hex : ∃ l, PresLeaf K pres p l ∧ Anc K.toTree x l
      · rw [if_pos hex]
        obtain ⟨l, hl, hxl⟩ := hex
        apply hstale x l hl hxl
        exact Classical.byContradiction fun hlt => nofresh ⟨l, (hPL l).mpr hl, hlt⟩
      · rw [if_neg hex]

/-- **a whole-value write modifies / validates exactly the positions with a present leaf at or below them (that is:
    the present leaves and all their ancestors), and touches nothing else** (when no error is raised) -/
theorem whole_write_modified_iff_present_leaf_below (K : KTree) (hnd : ∀ q, (K.kids q).Nodup) (pres : Nat → Bool)
    (now t p : Nat) (L : Lmt) (h : Inv K.toTree now L) (ht : now ≤ t) (h0 : 0 < t)
    (hok : (wholeOut K p t pres L).r ≠ none) :
    (∀ x, modified (whole K p t pres L) x t ↔ modified L x t ∨ ∃ l, PresLeaf K pres p l ∧ Anc K.toTree x l) ∧
    (∀ x, valid (whole K p t pres L) x ↔ valid L x ∨ ∃ l, PresLeaf K pres p l ∧ Anc K.toTree x l) ∧
    (∀ x, ¬ (∃ l, PresLeaf K pres p l ∧ Anc K.toTree x l) → whole K p t pres L x = L x) := by
  have hp := whole_ok_pointwise K hnd pres now t p L h ht hok
  refine ⟨fun x => ?_, fun x => ?_, fun x hx => ?_⟩
  · unfold modified; rw [hp x]
    by_cases hex : ∃ l, PresLeaf K pres p l ∧ Anc K.toTree x l
    · rw [if_pos hex]; exact ⟨fun _ => Or.inr hex, fun _ => rfl⟩
    · rw [if_neg hex]; exact ⟨Or.inl, fun hh => hh.elim id (fun e => absurd e hex)⟩
  · unfold valid; rw [hp x]
    by_cases hex : ∃ l, PresLeaf K pres p l ∧ Anc K.toTree x l
    · rw [if_pos hex]; exact ⟨fun _ => Or.inr hex, fun _ => by omega⟩
    · rw [if_neg hex]; exact ⟨Or.inl, fun hh => hh.elim id (fun e => absurd e hex)⟩
  · rw [hp x, if_neg hx]

/-! ## an all-unset value is a no-op -/

theorem foldl_childStep_unset (t : Nat) (pres : Nat → Bool) (rec : Nat → Lmt → WOut) :
    ∀ (cs : List Nat) (acc : WOut), (∀ c, c ∈ cs → pres c = false) → cs.foldl (childStep t pres rec) acc = acc := by
  intro cs
  induction cs with
  | nil => intro acc _; rfl
  | cons c cs ih =>
    intro acc hcs
    have hc := hcs c List.mem_cons_self
    have : childStep t pres rec acc c = acc := by
      unfold childStep
      cases acc.r with
      | none => rfl
      | some nm => simp [hc]
    rw [List.foldl_cons, this]
    exact ih acc (fun c' h => hcs c' (List.mem_cons_of_mem _ h))

/-- **a whole-value write whose value has EVERY field unset changes no record, notifies no observer and answers
    `false`** — in every state, with no assumption at all (the code path: every child is skipped, `newly_modified`
    stays false, `mark_modified()` is not called) -/
theorem whole_write_all_unset_is_noop (K : KTree) (p t : Nat) (pres : Nat → Bool) (L : Lmt)
    (hcont : K.kids p ≠ []) (hun : ∀ c, K.parent c = some p → pres c = false) :
    wholeOut K p t pres L = ⟨L, [], [], some false⟩ := by
  have : copyF K t pres (K.height p + 1) p L = ⟨L, [], [], some false⟩ := by
    rw [copyF_succ, if_neg hcont]
    exact foldl_childStep_unset t pres _ _ _ (fun c hc => hun c ((K.kids_iff p c).mp hc))
  unfold wholeOut
  rw [this]

/-- the same for every value that holds no leaf at all (present inner containers that are themselves empty, at any
    depth): no record changes, nobody is notified, the answer is `false` -/
theorem whole_write_no_present_leaf_is_noop (K : KTree) (hnd : ∀ q, (K.kids q).Nodup) (pres : Nat → Bool)
    (now t p : Nat) (L : Lmt) (h : Inv K.toTree now L) (ht : now ≤ t)
    (hno : ∀ l, ¬ PresLeaf K pres p l) :
    whole K p t pres L = L ∧ wholeN K p t pres L = [] ∧ (wholeOut K p t pres L).r = some false := by
  have S := whole_core K hnd pres now t p L h ht
  have hW := whole_cases K p t pres L
  have hPL := mem_presLeaves_fuel K pres p
  unfold whole wholeN
  generalize copyF K t pres (K.height p + 1) p L = o at S hW
  have nofresh : ∀ x, ¬ Fresh K pres t (K.height p + 1) p L x := by
    rintro x ⟨l, hl, _⟩; exact hno l ((hPL l).mp hl)
  have hr : o.r = some false := by
    cases hor : o.r with
    | none => obtain ⟨_, y, _, _, _, hf⟩ := S.err hor; exact absurd hf (nofresh y)
    | some b =>
      cases b with
      | false => rfl
      | true =>
        obtain ⟨l, hl, _⟩ := (S.ok true hor).2.1.mp rfl
        exact absurd ((hPL l).mp hl) (hno l)
  rcases hW with ⟨hr', _⟩ | ⟨_, hw⟩
  · rw [hr] at hr'; cases hr'
  · rw [hw]
    have hL : ∀ x, o.L x = L x := by
      intro x
      rw [(S.ok false hr).1 x, if_neg (fun hh => nofresh x hh.2.2)]
    refine ⟨funext hL, ?_, hr⟩
    apply List.eq_nil_iff_forall_not_mem.mpr
    intro x hx
    have := S.count x
    rw [if_pos (hL x)] at this
    exact absurd (List.count_pos_iff.mpr hx) (by omega)

/-! ## a whole-value write is the sequence of the leaf writes of its present leaves -/

theorem run_writes_spec (K : KTree) (t : Nat) : ∀ (ls : List Nat) (now : Nat) (L : Lmt), Inv K.toTree now L → now ≤ t →
    (∀ x, run K (ls.map (fun l => Op.w l t)) L x = if (∃ l, l ∈ ls ∧ Anc K.toTree x l) then t else L x) := by
  intro ls
  induction ls with
  | nil =>
    intro now L _ _ x
    have : ¬ ∃ l, l ∈ ([] : List Nat) ∧ Anc K.toTree x l := by rintro ⟨l, hl, _⟩; exact absurd hl List.not_mem_nil
    rw [if_neg this]; rfl
  | cons l ls ih =>
    intro now L h ht x
    obtain ⟨i1, a1, f1⟩ := write_spec K.toTree now t l L h ht
    have := ih t (write K.toTree l t L) i1 (Nat.le_refl _) x
    show run K (ls.map (fun l => Op.w l t)) (apply K (.w l t) L) x = _
    rw [show apply K (.w l t) L = write K.toTree l t L from rfl, this]
    by_cases h1 : ∃ l', l' ∈ ls ∧ Anc K.toTree x l'
    · obtain ⟨l', hl', ha⟩ := h1
      rw [if_pos ⟨l', hl', ha⟩, if_pos ⟨l', List.mem_cons_of_mem _ hl', ha⟩]
    · rw [if_neg h1]
      by_cases h2 : Anc K.toTree x l
      · rw [if_pos ⟨l, List.mem_cons_self, h2⟩]; exact a1 x h2
      · have : ¬ ∃ l', l' ∈ l :: ls ∧ Anc K.toTree x l' := by
          rintro ⟨l', hl', ha⟩
          rcases List.mem_cons.mp hl' with rfl | hl'
          · exact h2 ha
          · exact h1 ⟨l', hl', ha⟩
        rw [if_neg this]; exact f1 x h2

/-- **whenever no error is raised, the whole-value write leaves exactly the records that the leaf writes of its
    present leaves (in call order — or in any other order, `run_writes_spec`) leave** -/
theorem whole_write_eq_leaf_writes (K : KTree) (hnd : ∀ q, (K.kids q).Nodup) (pres : Nat → Bool) (now t p : Nat)
    (L : Lmt) (h : Inv K.toTree now L) (ht : now ≤ t) (hok : (wholeOut K p t pres L).r ≠ none) :
    whole K p t pres L = run K ((presLeaves K pres p).map (fun l => Op.w l t)) L := by
  funext x
  rw [whole_ok_pointwise K hnd pres now t p L h ht hok x, run_writes_spec K t _ now L h ht x]
  apply ite_iff_congr
  constructor
  · rintro ⟨l, hl, ha⟩; exact ⟨l, (mem_presLeaves_iff K pres p l).mpr hl, ha⟩
  · rintro ⟨l, hl, ha⟩; exact ⟨l, (mem_presLeaves_iff K pres p l).mp hl, ha⟩

/-! ## observers, the error, histories, consumers -/

/-- **every observer is notified at most once, exactly the positions whose record changes** — whatever the outcome
    (also the positions stamped before a duplicate-modification error) -/
theorem whole_write_notifies_once (K : KTree) (hnd : ∀ q, (K.kids q).Nodup) (pres : Nat → Bool) (now t p : Nat)
    (L : Lmt) (h : Inv K.toTree now L) (ht : now ≤ t) :
    ∀ x, (wholeN K p t pres L).count x = if whole K p t pres L x = L x then 0 else 1 := by
  have S := whole_core K hnd pres now t p L h ht
  have hb : ∀ x, L x ≤ t := fun x => Nat.le_trans (h.2 x) ht
  have hW := whole_cases K p t pres L
  unfold whole wholeN
  generalize copyF K t pres (K.height p + 1) p L = o at S hW
  intro x
  rcases hW with ⟨hr, hw⟩ | ⟨hr, hw⟩
  · rw [hw]
    show (o.N ++ markUpN K.toTree (p + 1) p t o.L).count x = if markUp K.toTree (p + 1) p t o.L x = L x then 0 else 1
    have hbo : ∀ x, o.L x ≤ t := by
      intro x; rcases S.frame x with e | ⟨e, _⟩
      · rw [e]; exact hb x
      · omega
    have hedge : ∀ c q, K.parent c = some q → o.L c ≤ o.L q ∨ (q = p ∧ o.L c = t) := by
      intro c q hc
      rcases S.frame c with e | ⟨e, hcp, hpc, hlt⟩
      · left; rw [e]
        have : L q ≤ o.L q := by
          rcases S.frame q with e' | ⟨e', _⟩
          · omega
          · have := hb q; omega
        exact Nat.le_trans (h.1 c q hc) this
      · by_cases hq : q = p
        · exact Or.inr ⟨hq, e⟩
        · left
          have := S.closed c q hc (anc_parent_of_ne hc hpc (Ne.symm hcp)) hq e
          omega
    obtain ⟨_, _, m3, m4⟩ := markUp_spec K.toTree t (p + 1) p o.L (Nat.lt_succ_self p) hbo hedge
    obtain ⟨mem, pw⟩ := markUpN_spec K.toTree t (p + 1) p o.L (Nat.lt_succ_self p) hbo hedge
    have hnodup : (markUpN K.toTree (p + 1) p t o.L).Nodup := pw.imp (fun hab => by omega)
    rw [List.count_append, S.count x]
    by_cases hxp : Anc K.toTree x p
    · have hox : o.L x = L x := by
        rcases S.frame x with e | ⟨_, hne, hpx, _⟩
        · exact e
        · have := anc_le hxp; have := anc_le hpx; omega
      rw [m3 x hxp, if_pos hox]
      by_cases hlt : L x < t
      · have hm : x ∈ markUpN K.toTree (p + 1) p t o.L := (mem x).mpr ⟨hxp, by omega⟩
        rw [List.Nodup.count hnodup, if_pos hm, if_neg (by omega)]
      · have hm : x ∉ markUpN K.toTree (p + 1) p t o.L := fun hh => by have := ((mem x).mp hh).2; omega
        have := hb x
        rw [List.count_eq_zero_of_not_mem hm, if_pos (by omega)]
    · have hm : x ∉ markUpN K.toTree (p + 1) p t o.L := fun hh => hxp ((mem x).mp hh).1
      rw [m4 x hxp, List.count_eq_zero_of_not_mem hm, Nat.add_zero]
  · rw [hw]; exact S.count x

/-- **the duplicate-modification error is raised exactly when a present nested container that already carries `t`
    (a direct write stamped it earlier in this cycle) has a present leaf below it that does not** -/
theorem whole_write_error_iff_duplicate (K : KTree) (hnd : ∀ q, (K.kids q).Nodup) (pres : Nat → Bool) (now t p : Nat)
    (L : Lmt) (h : Inv K.toTree now L) (ht : now ≤ t) :
    (wholeOut K p t pres L).r = none ↔
      ∃ y, y ≠ p ∧ Anc K.toTree p y ∧ L y = t ∧ ∃ l, PresLeaf K pres p l ∧ Anc K.toTree y l ∧ L l ≠ t := by
  have S := whole_core K hnd pres now t p L h ht
  have hPL := mem_presLeaves_fuel K pres p
  rw [wholeOut_r]
  generalize copyF K t pres (K.height p + 1) p L = o at S
  constructor
  · intro hn
    obtain ⟨_, y, h1, h2, h3, l, hl, hyl, hne⟩ := S.err hn
    exact ⟨y, h1, h2, h3, l, (hPL l).mp hl, hyl, hne⟩
  · rintro ⟨y, h1, h2, h3, l, hl, hyl, hne⟩
    cases hor : o.r with
    | none => rfl
    | some b => exact absurd ⟨l, (hPL l).mpr hl, hyl, hne⟩ ((S.ok b hor).2.2 y h1 h2 h3)

/-- whatever the outcome, every record is either untouched or carries `t` afterwards; after an error only positions
    strictly below the written one changed -/
theorem whole_frame (K : KTree) (hnd : ∀ q, (K.kids q).Nodup) (pres : Nat → Bool) (now t p : Nat) (L : Lmt)
    (h : Inv K.toTree now L) (ht : now ≤ t) :
    (∀ x, whole K p t pres L x = L x ∨ whole K p t pres L x = t) ∧
    ((wholeOut K p t pres L).r = none → ∀ x, whole K p t pres L x ≠ L x → x ≠ p ∧ Anc K.toTree p x) := by
  have hi := whole_inv K hnd pres now t p L h ht
  have S := whole_core K hnd pres now t p L h ht
  have hb : ∀ x, L x ≤ t := fun x => Nat.le_trans (h.2 x) ht
  have hW := whole_cases K p t pres L
  rw [wholeOut_r]
  unfold whole at hi ⊢
  generalize copyF K t pres (K.height p + 1) p L = o at S hW
  rcases hW with ⟨hr, hw⟩ | ⟨hr, hw⟩
  · rw [hw] at hi ⊢
    refine ⟨fun x => ?_, fun hn => by rw [hn] at hr; cases hr⟩
    show markUp K.toTree (p + 1) p t o.L x = L x ∨ markUp K.toTree (p + 1) p t o.L x = t
    have hbo : ∀ x, o.L x ≤ t := by
      intro x; rcases S.frame x with e | ⟨e, _⟩
      · rw [e]; exact hb x
      · omega
    have hedge : ∀ c q, K.parent c = some q → o.L c ≤ o.L q ∨ (q = p ∧ o.L c = t) := by
      intro c q hc
      rcases S.frame c with e | ⟨e, hcp, hpc, hlt⟩
      · left; rw [e]
        have : L q ≤ o.L q := by
          rcases S.frame q with e' | ⟨e', _⟩
          · omega
          · have := hb q; omega
        exact Nat.le_trans (h.1 c q hc) this
      · by_cases hq : q = p
        · exact Or.inr ⟨hq, e⟩
        · left
          have := S.closed c q hc (anc_parent_of_ne hc hpc (Ne.symm hcp)) hq e
          omega
    obtain ⟨_, _, m3, m4⟩ := markUp_spec K.toTree t (p + 1) p o.L (Nat.lt_succ_self p) hbo hedge
    by_cases hxp : Anc K.toTree x p
    · exact Or.inr (m3 x hxp)
    · rw [m4 x hxp]
      rcases S.frame x with e | ⟨e, _⟩
      · exact Or.inl e
      · exact Or.inr e
  · rw [hw]
    refine ⟨fun x => ?_, fun _ x hx => ?_⟩
    · rcases S.frame x with e | ⟨e, _⟩
      · exact Or.inl e
      · exact Or.inr e
    · rcases S.frame x with e | ⟨_, h1, h2, _⟩
      · exact absurd e hx
      · exact ⟨h1, h2⟩

/-- times are positive and do not decrease -/
def MonoW : Nat → List WOp → Prop
  | _, [] => True
  | now, o :: os => now ≤ o.time ∧ 0 < o.time ∧ MonoW o.time os

def endTimeW : Nat → List WOp → Nat
  | now, [] => now
  | _, o :: os => endTimeW o.time os

/-- the flat reading of one operation of a mixed history (the reference of the trace monitor in `tools/props/c04.py`):
    leaf writes and invalidations as `SpecStep`; a whole-value write that raises no error stamps exactly the
    positions at / above its present leaves; one that fails changes only records strictly below the written position,
    and only to `t` -/
def SpecStepW (K : KTree) (o : WOp) (L L' : Lmt) : Prop :=
  match o with
  | .w p t => SpecStep K.toTree (.w p t) L L'
  | .inv p t => SpecStep K.toTree (.inv p t) L L'
  | .ws p t pres =>
    ((wholeOut K p t pres L).r ≠ none →
      ∀ x, L' x = if (∃ l, PresLeaf K pres p l ∧ Anc K.toTree x l) then t else L x) ∧
    ((wholeOut K p t pres L).r = none →
      ∀ x, L' x = L x ∨ (L' x = t ∧ x ≠ p ∧ Anc K.toTree p x))

theorem applyW_spec (K : KTree) (hnd : ∀ q, (K.kids q).Nodup) (now : Nat) (o : WOp) (L : Lmt)
    (h : Inv K.toTree now L) (ht : now ≤ o.time) (h0 : 0 < o.time) :
    SpecStepW K o L (applyW K o L) ∧ Inv K.toTree o.time (applyW K o L) := by
  cases o with
  | w p t => exact apply_spec K now (.w p t) L h ht h0
  | inv p t => exact apply_spec K now (.inv p t) L h ht h0
  | ws p t pres =>
    simp only [WOp.time] at ht h0
    refine ⟨⟨fun hok => whole_ok_pointwise K hnd pres now t p L h ht hok, fun hn x => ?_⟩,
      whole_inv K hnd pres now t p L h ht⟩
    obtain ⟨f1, f2⟩ := whole_frame K hnd pres now t p L h ht
    show whole K p t pres L x = L x ∨ _
    by_cases hx : whole K p t pres L x = L x
    · exact Or.inl hx
    · right
      exact ⟨(f1 x).resolve_left hx, f2 hn x hx⟩

/-- **`lmt child ≤ lmt parent ≤ now` holds after every history mixing leaf writes, whole-value writes (dense, sparse,
    all-unset, failing) and invalidations** with non-decreasing times, on every finite tree -/
theorem runW_inv (K : KTree) (hnd : ∀ q, (K.kids q).Nodup) : ∀ (ops : List WOp) (now : Nat) (L : Lmt),
    Inv K.toTree now L → MonoW now ops → Inv K.toTree (endTimeW now ops) (runW K ops L) := by
  intro ops
  induction ops with
  | nil => intro now L h _; exact h
  | cons o os ih =>
    intro now L h hm
    obtain ⟨h1, h2, h3⟩ := hm
    exact ih o.time (applyW K o L) (applyW_spec K hnd now o L h h1 h2).2 h3

theorem monoW_snoc : ∀ (pre : List WOp) (now : Nat) (o : WOp), MonoW now (pre ++ [o]) →
    MonoW now pre ∧ endTimeW now pre ≤ o.time ∧ 0 < o.time := by
  intro pre
  induction pre with
  | nil => intro now o h; exact ⟨trivial, h.1, h.2.1⟩
  | cons a as ih =>
    intro now o h
    obtain ⟨h1, h2, h3⟩ := h
    obtain ⟨i1, i2, i3⟩ := ih a.time o h3
    exact ⟨⟨h1, h2, i1⟩, i2, i3⟩

/-- **every step of every mixed history refines the flat reading** — so `valid` = "written (by a leaf write or as a
    present leaf of a whole-value write) and not invalidated since", `modified` = "written in this cycle" -/
theorem runW_spec_refines (K : KTree) (hnd : ∀ q, (K.kids q).Nodup) (pre : List WOp) (o : WOp) (now : Nat) (L : Lmt)
    (h : Inv K.toTree now L) (hm : MonoW now (pre ++ [o])) :
    SpecStepW K o (runW K pre L) (runW K (pre ++ [o]) L) := by
  obtain ⟨m1, m2, m3⟩ := monoW_snoc pre now o hm
  have hi := runW_inv K hnd pre now L h m1
  have : runW K (pre ++ [o]) L = applyW K o (runW K pre L) := by simp [runW, List.foldl_append]
  rw [this]
  exact (applyW_spec K hnd (endTimeW now pre) o (runW K pre L) hi m2 m3).1

/-- the link record of a bound input through a whole-value write: `link ≤ now`, and `link = lmt root` whenever the
    root is valid — so `consumer_eq_producer_below_root / _valid_root` keep describing every bound input -/
theorem link_step_inv_whole (K : KTree) (hnd : ∀ q, (K.kids q).Nodup) (r : Nat) (now : Nat) (o : WOp) (L : Lmt) (k : Nat)
    (hr : K.parent r = none) (h : Inv K.toTree now L) (hk : LinkInv r L k now) (ht : now ≤ o.time) (h0 : 0 < o.time) :
    LinkInv r (applyW K o L) (linkStepW r o L (applyW K o L) k) o.time := by
  cases o with
  | w p t => exact link_step_inv K r hr now (.w p t) L k h hk ht h0
  | inv p t => exact link_step_inv K r hr now (.inv p t) L k h hk ht h0
  | ws p t pres =>
    simp only [WOp.time] at ht h0
    obtain ⟨k1, k2⟩ := hk
    obtain ⟨f1, _⟩ := whole_frame K hnd pres now t p L h ht
    show LinkInv r (whole K p t pres L) (if whole K p t pres L r = L r then k else linkRecord k t) t
    by_cases heq : whole K p t pres L r = L r
    · rw [if_pos heq]
      exact ⟨Nat.le_trans k1 ht, fun hne => by rw [heq] at hne ⊢; exact k2 hne⟩
    · rw [if_neg heq, linkRecord_now k1 ht]
      exact ⟨Nat.le_refl _, fun _ => ((f1 r).resolve_left heq).symm⟩

/-- producer state and link record of one bound input through a mixed history -/
def runWL (K : KTree) (r : Nat) : List WOp → Lmt × Nat → Lmt × Nat
  | [], s => s
  | o :: os, s => runWL K r os (applyW K o s.1, linkStepW r o s.1 (applyW K o s.1) s.2)

theorem link_inv_runW (K : KTree) (hnd : ∀ q, (K.kids q).Nodup) (r : Nat) (hr : K.parent r = none) :
    ∀ (ops : List WOp) (now : Nat) (L : Lmt) (k : Nat),
    Inv K.toTree now L → LinkInv r L k now → MonoW now ops →
    Inv K.toTree (endTimeW now ops) (runWL K r ops (L, k)).1 ∧
    LinkInv r (runWL K r ops (L, k)).1 (runWL K r ops (L, k)).2 (endTimeW now ops) := by
  intro ops
  induction ops with
  | nil => intro now L k h hk _; exact ⟨h, hk⟩
  | cons o os ih =>
    intro now L k h hk hm
    obtain ⟨h1, h2, h3⟩ := hm
    exact ih o.time _ _ (applyW_spec K hnd now o L h h1 h2).2 (link_step_inv_whole K hnd r now o L k hr h hk h1 h2) h3

/-- a whole-value "write" at a childless position is the leaf write -/
theorem whole_leaf_eq_write (K : KTree) (p t : Nat) (pres : Nat → Bool) (L : Lmt) (hleaf : K.kids p = []) :
    whole K p t pres L = write K.toTree p t L := by
  unfold whole wholeOut
  rw [copyF_succ, if_pos hleaf]
  by_cases hpt : L p = t
  · have : (L p != t) = false := by simp [hpt]
    simp only [this]
    rw [write_coalesces K.toTree t p L hpt]
  · have : (L p != t) = true := by simp [hpt]
    simp only [this]
    rfl

/-! ## the seeded wrong answer -/

theorem markUp_other (T : Tree) (t : Nat) : ∀ (fuel q : Nat) (L : Lmt) (x : Nat), q < x → markUp T fuel q t L x = L x := by
  intro fuel
  induction fuel with
  | zero => intro q L x _; rfl
  | succ fuel ih =>
    intro q L x hqx
    unfold markUp
    split
    · rfl
    · cases hpar : T.parent q with
      | none => simp only; simp [upd]; omega
      | some q' =>
        simp only
        have := T.wf q q' hpar
        rw [ih q' (upd L q t) x (by omega)]
        simp [upd]; omega

/-- **counter-lemma (seeded change s127)**: with the answer "first for parent" instead of "some child was newly
    modified", a whole-value write whose value has every field unset stamps the bundle — it reads modified at `t` and
    valid although nothing was written (as coded, `whole_write_all_unset_is_noop`: nothing changes) -/
theorem first_for_parent_ticks_unwritten_bundle_general (K : KTree) (p t : Nat) (pres : Nat → Bool) (L : Lmt)
    (hcont : K.kids p ≠ []) (hun : ∀ c, K.parent c = some p → pres c = false) (hlt : L p < t) :
    modified (wholeFP K p t pres L) p t ∧ valid (wholeFP K p t pres L) p ∧
    (wholeOut K p t pres L).L = L := by
  have hc : copyFP K t pres (K.height p + 1) p L = ⟨L, [], [], some true⟩ := by
    show (if K.kids p = [] then _ else _) = _
    rw [if_neg hcont]
    have := foldl_childStep_unset t pres (fun c M => copyFP K t pres (K.height p) c M) (K.kids p) ⟨L, [], [], some false⟩
      (fun c hc => hun c ((K.kids_iff p c).mp hc))
    simp only [this]
    have : (L p != t) = true := by simp; omega
    rw [this]
  have hval : wholeFP K p t pres L p = t := by
    unfold wholeFP
    rw [hc]
    simp only
    unfold markUp
    rw [if_neg (by omega)]
    cases hpar : K.parent p with
    | none => simp [upd]
    | some q =>
      simp only
      rw [markUp_other K.toTree t p q (upd L p t) p (K.wf p q hpar)]
      simp [upd]
  refine ⟨hval, ?_, ?_⟩
  · unfold valid; omega
  · rw [whole_write_all_unset_is_noop K p t pres L hcont hun]

/-! ## non-vacuity

`exK` = `TSB{a, b:TSB{c, d}}` = positions 0 (root), 1 (a), 2 (b), 3 (c), 4 (d); `exL` = after `w a@1, w c@2, w d@2`
(`Props/C04.lean`). -/

theorem ofParents_kids_nodup (a : Array (Option Nat)) : ∀ q, ((KTree.ofParents a).kids q).Nodup := by
  intro q
  exact List.Pairwise.filter _ List.nodup_range

example : ∀ q, (exK.kids q).Nodup := ofParents_kids_nodup _

/-- the sparse value `(_, (_, 7))`: only `b` and `b.d` are present -/
def exSparse : Nat → Bool := fun x => x == 2 || x == 4
/-- the value `(_, (_, _))`: the inner bundle is present but empty -/
def exInnerEmpty : Nat → Bool := fun x => x == 2
/-- the all-unset value `(_, _)` -/
def exUnset : Nat → Bool := fun _ => false

example : presLeaves exK exSparse 0 = [4] ∧ presLeaves exK exInnerEmpty 0 = [] ∧ presLeaves exK exUnset 0 = [] ∧
    presLeaves exK (fun _ => true) 0 = [1, 3, 4] := by decide
example : PresLeaf exK exSparse 0 4 := (mem_presLeaves_iff exK exSparse 0 4).mp (by decide)
/-- sparse write at 3 from `exL = [2,1,2,2,2]`: root, `b`, `d` tick; `a` and `c` keep their times -/
example : (List.range 5).map (whole exK 0 3 exSparse exL) = [3, 1, 3, 2, 3] ∧ wholeN exK 0 3 exSparse exL = [4, 2, 0] := by decide
/-- all-unset and inner-present-but-empty values change nothing and notify nobody, on a written bundle ... -/
example : (List.range 5).map (whole exK 0 3 exUnset exL) = [2, 1, 2, 2, 2] ∧ wholeN exK 0 3 exUnset exL = [] ∧
    (List.range 5).map (whole exK 0 3 exInnerEmpty exL) = [2, 1, 2, 2, 2] ∧ wholeN exK 0 3 exInnerEmpty exL = [] := by decide
/-- ... and on a never written one, where the seeded answer stamps the root (and, for the inner-empty value, the
    inner bundle too) -/
example : (List.range 5).map (whole exK 0 3 exUnset (fun _ => 0)) = [0, 0, 0, 0, 0] ∧
    (List.range 5).map (wholeFP exK 0 3 exUnset (fun _ => 0)) = [3, 0, 0, 0, 0] ∧
    (List.range 5).map (wholeFP exK 0 3 exInnerEmpty (fun _ => 0)) = [3, 0, 3, 0, 0] := by decide

/-- **counter-lemma, concrete witness**: the never written two-level bundle, the all-unset value, cycle 3 -/
theorem first_for_parent_ticks_unwritten_bundle :
    modified (wholeFP exK 0 3 exUnset (fun _ => 0)) 0 3 ∧ valid (wholeFP exK 0 3 exUnset (fun _ => 0)) 0 ∧
    ¬ modified (whole exK 0 3 exUnset (fun _ => 0)) 0 3 ∧ ¬ valid (whole exK 0 3 exUnset (fun _ => 0)) 0 ∧
    presLeaves exK exUnset 0 = [] := by decide

/-- the duplicate-modification error: `c` written directly at 5 (stamps `c`, `b`, root), then the value `(_, (_, 7))`
    in the same cycle: `d` is stored and stamped, the inner bundle `b` reports a modification its record already
    has.  The records stay ordered. -/
example : (wholeOut exK 0 5 exSparse (write exK.toTree 3 5 exL)).r = none ∧
    (List.range 5).map (whole exK 0 5 exSparse (write exK.toTree 3 5 exL)) = [5, 1, 5, 5, 5] ∧
    wholeN exK 0 5 exSparse (write exK.toTree 3 5 exL) = [4] := by decide
/-- the same value one cycle later is fine -/
example : (wholeOut exK 0 6 exSparse (write exK.toTree 3 5 exL)).r = some true := by decide

example : MonoW 0 [.w 1 1, .ws 0 2 exSparse, .ws 0 2 exUnset, .inv 2 3, .ws 0 3 exInnerEmpty, .ws 2 4 (fun x => x == 3)] := by
  simp [MonoW, WOp.time]
example : (List.range 5).map (runW exK [.w 1 1, .ws 0 2 exSparse, .ws 0 2 exUnset, .inv 2 3, .ws 0 3 exInnerEmpty,
    .ws 2 4 (fun x => x == 3)] (fun _ => 0)) = [4, 1, 4, 4, 0] := by decide
/-- the link record of an input bound from the start follows the root through whole-value writes -/
example : (runWL exK 0 [.ws 0 2 exUnset, .ws 0 3 exSparse, .ws 0 4 exInnerEmpty] (fun _ => 0, linkBind 0 (fun _ => 0))).2 = 3 := by
  decide

end HgVerif.Tracking
