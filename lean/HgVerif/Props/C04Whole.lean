import HgVerif.Model.TrackingWhole
import HgVerif.Props.C04
/-!
# C04 — whole-value writes of fixed-shape containers tell the truth

About `Model/TrackingWhole.lean` (`copyF` = `fixed_copy_value_from / fixed_move_value_from` as coded, `wholeOut` =
`TSDataMutationView::copy_value_from / move_value_from`), for every finite tree of positions, every (possibly sparse)
source value `pres`, every state reachable by histories of leaf writes, whole-value writes and invalidations:

* `whole_write_modified_iff_present_leaf_below` : when no error is raised, after the write a position reads
  `lmt = t` (modified, valid) iff it did before or a PRESENT LEAF lies at / below it; every other position is
  untouched.
* `whole_write_all_unset_is_noop`, `whole_write_no_present_leaf_is_noop` : a value all of whose fields are unset
  (or whose present containers hold no leaf) changes no record, notifies nobody, answers `false`.
* `whole_write_eq_leaf_writes` : when no error is raised the write IS the sequence of leaf writes of its present
  leaves.
* `whole_write_notifies_once` : every observer is notified at most once, exactly the positions whose record changes.
* `whole_write_error_iff_duplicate` : the `duplicate modification` error is raised iff a present nested container
  that already carries `t` has a present leaf below it that does not.
* `whole_inv`, `runW_inv`, `runW_spec_refines`, `link_step_inv_whole`, `link_inv_runW` : `lmt child ≤ lmt parent ≤ now`,
  the flat reading of every step and the link record invariant of bound inputs survive every mixed history — also
  through a write that fails half-way.
* `first_for_parent_ticks_unwritten_bundle` : the seeded wrong answer (`first_for_parent`) stamps a never written
  bundle on an all-unset value.
-/
namespace HgVerif.Tracking

/-! ## ancestors are linearly ordered -/

theorem anc_linear {T : Tree} {a x : Nat} (ha : Anc T a x) : ∀ {b : Nat}, Anc T b x → Anc T a b ∨ Anc T b a := by
  induction ha with
  | refl => intro b hb; exact Or.inr hb
  | @step x q hp ha' ih =>
    intro b hb
    rcases anc_cases hb with rfl | ⟨q', hq', hbq⟩
    · exact Or.inl (Anc.step hp ha')
    · rw [hp] at hq'; injection hq' with hq'; subst hq'; exact ih hbq

/-- two children of one parent above the same position are the same child -/
theorem anc_child_unique {T : Tree} {p c c' x : Nat} (hc : T.parent c = some p) (hc' : T.parent c' = some p)
    (h : Anc T c x) (h' : Anc T c' x) : c = c' := by
  have key : ∀ {a b : Nat}, T.parent a = some p → T.parent b = some p → Anc T a b → a = b := by
    intro a b ha hb hab
    rcases anc_cases hab with rfl | ⟨q, hq, haq⟩
    · rfl
    · rw [hb] at hq; injection hq with hq; subst hq
      have := anc_le haq; have := T.wf a _ ha; omega
  rcases anc_linear h h' with h1 | h1
  · exact key hc hc' h1
  · exact (key hc' hc h1).symm

theorem anc_parent_of_ne {T : Tree} {a c q : Nat} (hc : T.parent c = some q) (h : Anc T a c) (hne : a ≠ c) : Anc T a q := by
  rcases anc_cases h with rfl | ⟨q', hq', ha⟩
  · exact absurd rfl hne
  · rw [hc] at hq'; injection hq' with hq'; subst hq'; exact ha

/-! ## the present leaves of a source value -/

/-- positions the recursion of the write at `p` visits: every position on the way down from `p` (exclusive) carries
    a value in the value of its parent -/
inductive Reach (K : KTree) (pres : Nat → Bool) (p : Nat) : Nat → Prop where
  | root : Reach K pres p p
  | step {q c : Nat} : Reach K pres p q → K.parent c = some q → pres c = true → Reach K pres p c

/-- a PRESENT LEAF of the value written at `p`: a childless position the recursion reaches -/
def PresLeaf (K : KTree) (pres : Nat → Bool) (p l : Nat) : Prop := Reach K pres p l ∧ K.kids l = []

/-- the present leaves in call order (same recursion as `copyF`) -/
def leavesF (K : KTree) (pres : Nat → Bool) : Nat → Nat → List Nat
  | 0, _ => []
  | fuel + 1, p =>
    if K.kids p = [] then [p]
    else ((K.kids p).filter (fun c => pres c)).flatMap (fun c => leavesF K pres fuel c)

def presLeaves (K : KTree) (pres : Nat → Bool) (p : Nat) : List Nat := leavesF K pres (K.height p + 1) p

theorem reach_anc {K : KTree} {pres : Nat → Bool} {p x : Nat} (h : Reach K pres p x) : Anc K.toTree p x := by
  induction h with
  | root => exact Anc.refl p
  | step _ hc _ ih => exact Anc.step hc ih

theorem reach_of_child {K : KTree} {pres : Nat → Bool} {p c x : Nat} (hc : K.parent c = some p) (hp : pres c = true)
    (h : Reach K pres c x) : Reach K pres p x := by
  induction h with
  | root => exact Reach.step Reach.root hc hp
  | step _ hc' hp' ih => exact Reach.step ih hc' hp'

theorem reach_child {K : KTree} {pres : Nat → Bool} {p x : Nat} (h : Reach K pres p x) :
    x = p ∨ ∃ c, K.parent c = some p ∧ pres c = true ∧ Reach K pres c x := by
  induction h with
  | root => exact Or.inl rfl
  | @step q c _ hc hp ih =>
    rcases ih with rfl | ⟨c0, h0, p0, r0⟩
    · exact Or.inr ⟨c, hc, hp, Reach.root⟩
    · exact Or.inr ⟨c0, h0, p0, Reach.step r0 hc hp⟩

theorem leavesF_succ (K : KTree) (pres : Nat → Bool) (fuel p : Nat) :
    leavesF K pres (fuel + 1) p =
      if K.kids p = [] then [p]
      else ((K.kids p).filter (fun c => pres c)).flatMap (fun c => leavesF K pres fuel c) := rfl

theorem mem_leavesF_succ {K : KTree} {pres : Nat → Bool} {fuel p l : Nat} :
    l ∈ leavesF K pres (fuel + 1) p ↔
      (K.kids p = [] ∧ l = p) ∨ (K.kids p ≠ [] ∧ ∃ c, c ∈ K.kids p ∧ pres c = true ∧ l ∈ leavesF K pres fuel c) := by
  rw [leavesF_succ]
  by_cases hk : K.kids p = []
  · simp [hk]
  · simp only [hk, if_false, List.mem_flatMap, List.mem_filter, false_and, false_or, ne_eq, not_false_eq_true, true_and]
    constructor
    · rintro ⟨c, ⟨h1, h2⟩, h3⟩; exact ⟨c, h1, h2, h3⟩
    · rintro ⟨c, h1, h2, h3⟩; exact ⟨c, ⟨h1, h2⟩, h3⟩

/-- the list is the set of present leaves -/
theorem mem_leavesF_iff (K : KTree) (pres : Nat → Bool) : ∀ (fuel p l : Nat), K.height p < fuel →
    (l ∈ leavesF K pres fuel p ↔ PresLeaf K pres p l) := by
  intro fuel
  induction fuel with
  | zero => intro p l h; omega
  | succ fuel ih =>
    intro p l hf
    rw [mem_leavesF_succ]
    constructor
    · rintro (⟨hk, rfl⟩ | ⟨_, c, hc, hp, hl⟩)
      · exact ⟨Reach.root, hk⟩
      · have hpc := (K.kids_iff p c).mp hc
        have := K.height_lt p c hpc
        obtain ⟨r, lf⟩ := (ih c l (by omega)).mp hl
        exact ⟨reach_of_child hpc hp r, lf⟩
    · rintro ⟨r, lf⟩
      rcases reach_child r with rfl | ⟨c, hc, hp, rc⟩
      · exact Or.inl ⟨lf, rfl⟩
      · have hmem := (K.kids_iff p c).mpr hc
        have := K.height_lt p c hc
        refine Or.inr ⟨fun h => by rw [h] at hmem; exact absurd hmem List.not_mem_nil, c, hmem, hp, ?_⟩
        exact (ih c l (by omega)).mpr ⟨rc, lf⟩

theorem mem_presLeaves_iff (K : KTree) (pres : Nat → Bool) (p l : Nat) :
    l ∈ presLeaves K pres p ↔ PresLeaf K pres p l :=
  mem_leavesF_iff K pres _ p l (Nat.lt_succ_self _)

theorem presLeaf_anc {K : KTree} {pres : Nat → Bool} {p l : Nat} (h : PresLeaf K pres p l) : Anc K.toTree p l :=
  reach_anc h.1

end HgVerif.Tracking
