import HgVerif.Lemmas.NodeSched
import HgVerif.Model.Tie
/-!
# C18 — the node scheduler wakes the node at every pending time and its queries agree

Property theorems only (helpers live in `Lemmas/NodeSched.lean`).

* `WF`                      : the representation invariant (`events` is a strictly sorted set,
                              `tags` indexes exactly the tagged events).
* `wf_ops`                  : every operation preserves it; `wf_reachable` lifts to every op sequence.
* `tag_holds_one_time`      : a tag holds at most one pending time.
* `mem_schedule` …          : each operation refines the obvious operation on the *set* of pending
                              `(time, tag)` requests (`pending s = s.events` as a set).
* `queries_agree_*`         : the scheduler's answers are functions of that set.
* `ignored_after_start`, `now_honoured_in_start`.
* `armed_after_eval`, `run_armed`, `wake_not_late`, `slot_was_requested` : the wake-up half.
-/
namespace HgVerif.NodeSched

structure WF (s : NS) : Prop where
  sorted : Sorted s.events
  tags_iff : ∀ tag t, tagFind s.tags tag = some t ↔ ((t, tag) ∈ s.events ∧ tag ≠ 0)

theorem wf_empty : WF NS.empty := ⟨trivial, by simp [NS.empty, tagFind]⟩

/-- a tag holds at most one pending time -/
theorem tag_holds_one_time {s : NS} (h : WF s) {tag : Tag} {t1 t2 : Time} (ht : tag ≠ 0)
    (h1 : (t1, tag) ∈ s.events) (h2 : (t2, tag) ∈ s.events) : t1 = t2 := by
  have a := (h.tags_iff tag t1).mpr ⟨h1, ht⟩
  have b := (h.tags_iff tag t2).mpr ⟨h2, ht⟩
  rw [a] at b; exact Option.some.inj b

/-! ## refinement: each operation acts on the set of pending requests -/

/-- an accepted `schedule` adds `(w, tag)` and, when tagged, removes the tag's previous request -/
theorem mem_schedule {s : NS} (h : WF s) (now : Time) (started : Bool) (w : Time) (tag : Tag)
    (hacc : rejected now started w = false) (x : Ev) :
    x ∈ (schedule s now started w tag).1.events ↔
      (x = (w, tag) ∨ (x ∈ s.events ∧ (tag = 0 ∨ x.2 ≠ tag))) := by
  unfold schedule
  simp only [hacc, Bool.false_eq_true, ↓reduceIte, mem_insertEv]
  by_cases ht : tag = 0
  · simp [ht]
  · simp only [bne_iff_ne, ne_eq, ht, not_false_eq_true, ↓reduceIte, false_or]
    cases hf : tagFind s.tags tag with
    | none =>
      simp only
      constructor
      · rintro (rfl | hx)
        · exact Or.inl rfl
        · refine Or.inr ⟨hx, ?_⟩
          intro hx2
          have := (h.tags_iff tag x.1).mpr ⟨by rw [← hx2]; exact hx, ht⟩
          rw [hf] at this; cases this
      · rintro (rfl | ⟨hx, _⟩)
        · exact Or.inl rfl
        · exact Or.inr hx
    | some old =>
      simp only [mem_eraseEv]
      have hold := (h.tags_iff tag old).mp hf
      constructor
      · rintro (rfl | ⟨hx, hne⟩)
        · exact Or.inl rfl
        · refine Or.inr ⟨hx, ?_⟩
          intro hx2
          obtain ⟨x1, x2⟩ := x
          simp at hx2; subst hx2
          have := tag_holds_one_time h ht hx hold.1
          subst this; exact hne rfl
      · rintro (rfl | ⟨hx, hne⟩)
        · exact Or.inl rfl
        · refine Or.inr ⟨hx, ?_⟩
          rintro rfl; exact hne rfl

/-- a rejected `schedule` (current/past time once started, past time during start) changes nothing
    and makes no graph call: existing requests are not disturbed -/
theorem ignored_after_start (s : NS) (now w : Time) (tag : Tag) (h : w ≤ now) :
    schedule s now true w tag = (s, none) := by
  simp [schedule, rejected, h]

theorem past_ignored_in_start (s : NS) (now w : Time) (tag : Tag) (h : w < now) :
    schedule s now false w tag = (s, none) := by
  simp [schedule, rejected, h]

/-- during `start` a request for the current time is honoured -/
theorem now_honoured_in_start {s : NS} (h : WF s) (now : Time) (tag : Tag) :
    (now, tag) ∈ (schedule s now false now tag).1.events := by
  rw [mem_schedule h now false now tag (by simp [rejected])]
  exact Or.inl rfl

theorem mem_unscheduleTag {s : NS} (h : WF s) (tag : Tag) (x : Ev) :
    x ∈ (unscheduleTag s tag).events ↔ (x ∈ s.events ∧ (tag = 0 ∨ x.2 ≠ tag)) := by
  unfold unscheduleTag
  cases hf : tagFind s.tags tag with
  | none =>
    simp only
    constructor
    · intro hx
      refine ⟨hx, ?_⟩
      by_cases ht : tag = 0
      · exact Or.inl ht
      · right; intro hx2
        have := (h.tags_iff tag x.1).mpr ⟨by rw [← hx2]; exact hx, ht⟩
        rw [hf] at this; cases this
    · exact fun hx => hx.1
  | some old =>
    have hold := (h.tags_iff tag old).mp hf
    simp only [mem_eraseEv]
    constructor
    · rintro ⟨hx, hne⟩
      refine ⟨hx, Or.inr ?_⟩
      intro hx2
      obtain ⟨x1, x2⟩ := x
      simp at hx2; subst hx2
      have := tag_holds_one_time h hold.2 hx hold.1
      subst this; exact hne rfl
    · rintro ⟨hx, hne⟩
      refine ⟨hx, ?_⟩
      rintro rfl
      rcases hne with h0 | h1
      · exact hold.2 h0
      · exact h1 rfl

theorem popTag_eq_unscheduleTag (s : NS) (tag : Tag) (d : Time) :
    (popTag s tag d).1 = unscheduleTag s tag := by
  unfold popTag unscheduleTag; split <;> rfl

/-- `pop_tag` returns the tag's pending time, or the default when the tag holds none -/
theorem popTag_result {s : NS} (h : WF s) (tag : Tag) (d : Time) :
    (popTag s tag d).2 = tagTime s tag d := by
  unfold popTag tagTime; split <;> simp_all

theorem mem_unscheduleFirst (s : NS) (x : Ev) :
    x ∈ (unscheduleFirst s).events ↔ x ∈ s.events.tail := by
  unfold unscheduleFirst; split <;> simp_all

theorem mem_dropDue (now : Time) (l : List Ev) (tags : List (Tag × Time)) (hs : Sorted l) (x : Ev) :
    x ∈ (dropDue now l tags).1 ↔ (x ∈ l ∧ now < x.1) := by
  induction l generalizing tags with
  | nil => simp [dropDue]
  | cons e rest ih =>
    unfold dropDue
    split
    · rename_i hle
      rw [ih _ hs.tail]
      constructor
      · rintro ⟨hx, hlt⟩; exact ⟨List.mem_cons_of_mem _ hx, hlt⟩
      · rintro ⟨hx, hlt⟩
        simp at hx
        rcases hx with rfl | hx
        · exact absurd hlt (Nat.not_lt.mpr hle)
        · exact ⟨hx, hlt⟩
    · rename_i hgt
      constructor
      · intro hx
        exact ⟨hx, Nat.lt_of_lt_of_le (Nat.not_le.mp hgt) (hs.head_le x hx)⟩
      · exact fun hx => hx.1

/-- `advance` removes exactly the requests whose time has been reached -/
theorem mem_advance {s : NS} (h : WF s) (now : Time) (x : Ev) :
    x ∈ (advance s now).1.events ↔ (x ∈ s.events ∧ now < x.1) := by
  unfold advance; exact mem_dropDue now s.events s.tags h.sorted x

/-! ## the invariant is preserved by every operation -/

theorem wf_schedule {s : NS} (h : WF s) (now : Time) (started : Bool) (w : Time) (tag : Tag) :
    WF (schedule s now started w tag).1 := by
  by_cases hacc : rejected now started w = true
  · simp [schedule, hacc]; exact h
  · have hacc' : rejected now started w = false := by simpa using hacc
    refine ⟨?_, ?_⟩
    · unfold schedule
      simp only [hacc', Bool.false_eq_true, ↓reduceIte]
      apply sorted_insertEv
      split
      · split
        · exact sorted_eraseEv _ _ h.sorted
        · exact h.sorted
      · exact h.sorted
    · intro u t
      rw [mem_schedule h now started w tag hacc']
      have htags : (schedule s now started w tag).1.tags =
          if tag != 0 then tagSet tag w s.tags else s.tags := by
        unfold schedule; simp [hacc']
      rw [htags]
      by_cases ht : tag = 0
      · subst ht
        simp only [bne_self_eq_false, Bool.false_eq_true, ↓reduceIte, true_or, and_true]
        rw [h.tags_iff u t]
        constructor
        · rintro ⟨hm, hu⟩; exact ⟨Or.inr hm, hu⟩
        · rintro ⟨hm | hm, hu⟩
          · simp at hm; exact absurd hm.2 hu
          · exact ⟨hm, hu⟩
      · simp only [bne_iff_ne, ne_eq, ht, not_false_eq_true, ↓reduceIte, false_or]
        rw [tagFind_tagSet]
        by_cases hu : u = tag
        · subst hu
          simp only [↓reduceIte, Option.some.injEq, not_true_eq_false, and_false, or_false]
          constructor
          · rintro rfl; exact ⟨by simp, ht⟩
          · rintro ⟨hm, _⟩; simp at hm; exact hm.symm
        · simp only [hu, ↓reduceIte]
          rw [h.tags_iff u t]
          constructor
          · rintro ⟨hm, hu0⟩; exact ⟨Or.inr ⟨hm, by simpa using hu⟩, hu0⟩
          · rintro ⟨hm | hm, hu0⟩
            · simp at hm; exact absurd hm.2 hu
            · exact ⟨hm.1, hu0⟩

theorem wf_unscheduleTag {s : NS} (h : WF s) (tag : Tag) : WF (unscheduleTag s tag) := by
  refine ⟨?_, ?_⟩
  · unfold unscheduleTag; split
    · exact sorted_eraseEv _ _ h.sorted
    · exact h.sorted
  · intro u t
    rw [mem_unscheduleTag h]
    have htags : tagFind (unscheduleTag s tag).tags u = if u = tag then none else tagFind s.tags u := by
      unfold unscheduleTag
      cases hf : tagFind s.tags tag with
      | none => simp only; split
                · rename_i hu; subst hu; exact hf
                · rfl
      | some old => simp only; exact tagFind_tagErase _ _ _
    rw [htags]
    by_cases hu : u = tag
    · subst hu
      simp only [↓reduceIte, reduceCtorEq, false_iff, not_and, Decidable.not_not, and_imp]
      intro _ h0 ; rcases h0 with h0 | h0
      · exact h0
      · exact absurd rfl h0
    · simp only [hu, ↓reduceIte]
      rw [h.tags_iff u t]
      constructor
      · rintro ⟨hm, hu0⟩; exact ⟨⟨hm, Or.inr hu⟩, hu0⟩
      · rintro ⟨⟨hm, _⟩, hu0⟩; exact ⟨hm, hu0⟩

theorem wf_popTag {s : NS} (h : WF s) (tag : Tag) (d : Time) : WF (popTag s tag d).1 := by
  rw [popTag_eq_unscheduleTag]; exact wf_unscheduleTag h tag

theorem wf_reset (s : NS) : WF (reset s) := wf_empty

/-- removing the head event together with its tag entry keeps the invariant (shared by
    `un_schedule()` and each iteration of `advance`) -/
theorem wf_pop_head {e : Ev} {rest : List Ev} {tags tags' : List (Tag × Time)}
    (h : WF ⟨e :: rest, tags⟩)
    (htags' : ∀ u, tagFind tags' u = if u = e.2 then none else tagFind tags u) :
    WF ⟨rest, tags'⟩ := by
  have hs : Sorted (e :: rest) := h.sorted
  refine ⟨hs.tail, ?_⟩
  intro u t
  rw [htags']
  have hiff := h.tags_iff u t
  simp only at hiff ⊢
  by_cases hu : u = e.2
  · subst hu
    simp only [↓reduceIte, reduceCtorEq, ne_eq, false_iff, not_and, Decidable.not_not]
    intro hm
    by_cases h0 : e.2 = 0
    · exact h0
    · exfalso
      have h1 : (t, e.2) ∈ (⟨e :: rest, tags⟩ : NS).events := List.mem_cons_of_mem _ hm
      have h2 : (e.1, e.2) ∈ (⟨e :: rest, tags⟩ : NS).events := by simp
      have := tag_holds_one_time h h0 h1 h2
      subst this
      have := hs.head_lt _ hm
      rw [evLt_irrefl] at this; cases this
  · simp only [hu, ↓reduceIte]
    rw [hiff]
    constructor
    · rintro ⟨hm, hu0⟩
      simp at hm
      rcases hm with hm | hm
      · exfalso; apply hu; rw [← hm]
      · exact ⟨hm, hu0⟩
    · rintro ⟨hm, hu0⟩; exact ⟨List.mem_cons_of_mem _ hm, hu0⟩

theorem wf_unscheduleFirst {s : NS} (h : WF s) : WF (unscheduleFirst s) := by
  unfold unscheduleFirst
  cases hev : s.events with
  | nil => simp only; exact h
  | cons e rest =>
    simp only
    have h' : WF ⟨e :: rest, s.tags⟩ := by rw [← hev]; exact h
    exact wf_pop_head h' (fun u => tagFind_tagErase _ _ _)

theorem wf_dropDue (now : Time) (l : List Ev) (tags : List (Tag × Time)) (h : WF ⟨l, tags⟩) :
    WF ⟨(dropDue now l tags).1, (dropDue now l tags).2⟩ := by
  induction l generalizing tags with
  | nil => simpa [dropDue] using h
  | cons e rest ih =>
    unfold dropDue
    split
    · apply ih
      apply wf_pop_head h
      intro u
      by_cases h0 : e.2 = 0
      · simp only [h0, bne_self_eq_false, Bool.false_eq_true, ↓reduceIte]
        split
        · rename_i hu; subst hu
          cases hf : tagFind tags 0 with
          | none => rfl
          | some t => exact absurd ((h.tags_iff 0 t).mp hf).2 (by simp)
        · rfl
      · simp only [bne_iff_ne, ne_eq, h0, not_false_eq_true, ↓reduceIte]
        exact tagFind_tagErase _ _ _
    · exact h

theorem wf_advance {s : NS} (h : WF s) (now : Time) : WF (advance s now).1 := by
  unfold advance; exact wf_dropDue now s.events s.tags h

/-- every operation sequence from the empty state keeps the invariant -/
inductive Cmd where
  | sched (now : Time) (started : Bool) (w : Time) (tag : Tag)
  | unschedTag (tag : Tag)
  | unschedFirst
  | popTag (tag : Tag)
  | reset
  | advance (now : Time)

def runCmd (s : NS) : Cmd → NS
  | .sched now st w tag => (schedule s now st w tag).1
  | .unschedTag tag => unscheduleTag s tag
  | .unschedFirst => unscheduleFirst s
  | .popTag tag => (popTag s tag 0).1
  | .reset => reset s
  | .advance now => (advance s now).1

theorem wf_ops {s : NS} (h : WF s) (c : Cmd) : WF (runCmd s c) := by
  cases c with
  | sched now st w tag => exact wf_schedule h now st w tag
  | unschedTag tag => exact wf_unscheduleTag h tag
  | unschedFirst => exact wf_unscheduleFirst h
  | popTag tag => exact wf_popTag h tag 0
  | reset => exact wf_reset s
  | advance now => exact wf_advance h now

theorem wf_reachable (cs : List Cmd) : WF (cs.foldl runCmd NS.empty) := by
  suffices ∀ s, WF s → WF (cs.foldl runCmd s) from this _ wf_empty
  induction cs with
  | nil => exact fun s h => h
  | cons c cs ih => exact fun s h => ih _ (wf_ops h c)


/-! ## the scheduler's answers agree with the set of pending requests -/

theorem isScheduled_iff (s : NS) : isScheduled s = true ↔ ∃ x, x ∈ s.events := by
  unfold isScheduled; cases s.events <;> simp

/-- `next_scheduled_time` is the least pending time (and `MIN_DT` when nothing is pending) -/
theorem next_is_min {s : NS} (h : WF s) :
    (s.events = [] ∧ nextScheduledTime s = 0) ∨
    (∃ e ∈ s.events, nextScheduledTime s = e.1 ∧ ∀ x ∈ s.events, e.1 ≤ x.1) := by
  unfold nextScheduledTime firstTime
  cases hev : s.events with
  | nil => simp
  | cons e rest =>
    right
    exact ⟨e, by simp, by simp, (hev ▸ h.sorted : Sorted (e :: rest)).head_le⟩

/-- `is_scheduled_now` ⇔ some request is pending for exactly `now` and none earlier -/
theorem isScheduledNow_iff {s : NS} (h : WF s) (now : Time) :
    isScheduledNow s now = true ↔ ((∃ e ∈ s.events, e.1 = now) ∧ ∀ x ∈ s.events, now ≤ x.1) := by
  unfold isScheduledNow firstTime
  cases hev : s.events with
  | nil => simp
  | cons e rest =>
    have hle := (hev ▸ h.sorted : Sorted (e :: rest)).head_le
    simp only [List.head?_cons, Option.map_some, beq_iff_eq, Option.some.injEq]
    constructor
    · rintro rfl; exact ⟨⟨e, by simp, rfl⟩, hle⟩
    · rintro ⟨⟨e', he', rfl⟩, hall⟩
      exact Nat.le_antisymm (hle e' he') (hall e (by simp))

theorem hasTag_iff {s : NS} (h : WF s) (tag : Tag) :
    hasTag s tag = true ↔ (tag ≠ 0 ∧ ∃ t, (t, tag) ∈ s.events) := by
  unfold hasTag
  cases hf : tagFind s.tags tag with
  | none =>
    simp only [Option.isSome_none, Bool.false_eq_true, ne_eq, false_iff, not_and, not_exists]
    intro ht t hm
    have := (h.tags_iff tag t).mpr ⟨hm, ht⟩
    rw [hf] at this; cases this
  | some t =>
    have := (h.tags_iff tag t).mp hf
    simp only [Option.isSome_some, ne_eq, true_iff]
    exact ⟨this.2, t, this.1⟩

theorem tagTime_eq {s : NS} (h : WF s) {tag : Tag} {t : Time} (ht : tag ≠ 0)
    (hm : (t, tag) ∈ s.events) (d : Time) : tagTime s tag d = t := by
  unfold tagTime; rw [(h.tags_iff tag t).mpr ⟨hm, ht⟩]; rfl

theorem tagTime_default {s : NS} (h : WF s) {tag : Tag} (hno : ∀ t, (t, tag) ∉ s.events) (d : Time) :
    tagTime s tag d = d := by
  unfold tagTime
  cases hf : tagFind s.tags tag with
  | none => rfl
  | some t => exact absurd ((h.tags_iff tag t).mp hf).1 (hno t)

theorem tagIsScheduledNow_iff {s : NS} (h : WF s) (tag : Tag) (now : Time) :
    tagIsScheduledNow s tag now = true ↔ (tag ≠ 0 ∧ (now, tag) ∈ s.events) := by
  unfold tagIsScheduledNow
  rw [Bool.and_eq_true, hasTag_iff h]
  constructor
  · rintro ⟨⟨ht, t, hm⟩, heq⟩
    rw [tagTime_eq h ht hm] at heq
    have : t = now := by simpa using heq
    subst this; exact ⟨ht, hm⟩
  · rintro ⟨ht, hm⟩
    exact ⟨⟨ht, now, hm⟩, by rw [tagTime_eq h ht hm]; simp⟩

/-! ## the wake-up half: the graph slot of the node stays armed no later than every pending time -/

/-- invariant of the user-code phase of one evaluation at `now` (`lo ∈ {now, now+1}` bounds the
    pending times from below) -/
structure During (now lo : Time) (st : NodeSt) : Prop where
  wf : WF st.ns
  slot_ge : now ≤ st.slot
  ev_ge : ∀ x ∈ st.ns.events, lo ≤ x.1

theorem firstTime_mem {l : List Ev} {t : Time} (h : firstTime l = some t) : ∃ x ∈ l, x.1 = t := by
  unfold firstTime at h
  cases l with
  | nil => simp at h
  | cons e rest => exact ⟨e, by simp, by simpa using h⟩

theorem push_mem (s : NS) (now : Time) (started : Bool) (w : Time) (tag : Tag) (p : Time)
    (h : (schedule s now started w tag).2 = some p) :
    ∃ x ∈ (schedule s now started w tag).1.events, x.1 = p := by
  by_cases hacc : rejected now started w = true
  · simp [schedule, hacc] at h
  · have hacc' : rejected now started w = false := by simpa using hacc
    simp only [schedule, hacc', Bool.false_eq_true, ↓reduceIte] at h ⊢
    split at h
    · rename_i n hn _; simp at h; subst h; exact firstTime_mem hn
    · rename_i n q hn _
      split at h
      · simp at h; subst h; exact firstTime_mem hn
      · simp at h
    · simp at h

theorem slotSchedule_ge {slot now w : Time} (h1 : now ≤ slot) (h2 : now ≤ w) :
    now ≤ slotSchedule slot now w := by
  unfold slotSchedule; split <;> assumption

theorem during_stepOp {now lo : Time} (hlo1 : now ≤ lo) (hlo2 : lo ≤ now + 1) {st : NodeSt}
    (h : During now lo st) (op : Op) : During now lo (stepOp now true st op) := by
  have sched_case : ∀ w tag, During now lo
      { ns := (schedule st.ns now true w tag).1,
        slot := applyPush st.slot now (schedule st.ns now true w tag).2 } := by
    intro w tag
    by_cases hacc : rejected now true w = true
    · have : schedule st.ns now true w tag = (st.ns, none) := by simp [schedule, hacc]
      rw [this]; exact ⟨h.wf, h.slot_ge, h.ev_ge⟩
    · have hacc' : rejected now true w = false := by simpa using hacc
      have hw : now < w := by simpa [rejected] using hacc'
      have hev : ∀ x ∈ (schedule st.ns now true w tag).1.events, lo ≤ x.1 := by
        intro x hx
        rw [mem_schedule h.wf now true w tag hacc'] at hx
        rcases hx with rfl | hx
        · exact Nat.le_trans hlo2 hw
        · exact h.ev_ge x hx.1
      refine ⟨wf_schedule h.wf now true w tag, ?_, hev⟩
      cases hp : (schedule st.ns now true w tag).2 with
      | none => exact h.slot_ge
      | some p =>
        obtain ⟨x, hx, rfl⟩ := push_mem _ _ _ _ _ _ hp
        exact slotSchedule_ge h.slot_ge (Nat.le_trans hlo1 (hev x hx))
  cases op with
  | sched w tag => exact sched_case w tag
  | schedDelta d tag => exact sched_case (now + d) tag
  | unschedTag tag =>
    exact ⟨wf_unscheduleTag h.wf tag, h.slot_ge,
      fun x hx => h.ev_ge x ((mem_unscheduleTag h.wf tag x).mp hx).1⟩
  | unschedFirst =>
    refine ⟨wf_unscheduleFirst h.wf, h.slot_ge, fun x hx => h.ev_ge x ?_⟩
    exact List.mem_of_mem_tail ((mem_unscheduleFirst _ x).mp hx)
  | popTag tag =>
    refine ⟨wf_popTag h.wf tag 0, h.slot_ge, fun x hx => h.ev_ge x ?_⟩
    simp only [stepOp, popTag_eq_unscheduleTag] at hx
    exact ((mem_unscheduleTag h.wf tag x).mp hx).1
  | reset => exact ⟨wf_reset st.ns, h.slot_ge, by simp [stepOp, reset]⟩

theorem during_ops {now lo : Time} (hlo1 : now ≤ lo) (hlo2 : lo ≤ now + 1) (ops : List Op)
    {st : NodeSt} (h : During now lo st) : During now lo (ops.foldl (stepOp now true) st) := by
  induction ops generalizing st with
  | nil => exact h
  | cons op ops ih => exact ih (during_stepOp hlo1 hlo2 h op)

theorem post_armed_adv {now : Time} {S : NodeSt} (hd : During now now S) :
    let st' := postEval true now S
    WF st'.ns ∧ ∀ x ∈ st'.ns.events, now < x.1 ∧ now < st'.slot ∧ st'.slot ≤ x.1 := by
  intro st'
  have hst' : st' = { ns := (advance S.ns now).1, slot := applyPush S.slot now (advance S.ns now).2 } := by
    simp only [st', postEval, ↓reduceIte]
  rw [hst']
  refine ⟨wf_advance hd.wf now, ?_⟩
  intro x hx
  have hxm := (mem_advance hd.wf now x).mp hx
  refine ⟨hxm.2, ?_⟩
  have hsorted := (wf_advance hd.wf now).sorted
  simp only [advance] at hx hsorted ⊢
  cases hl : (dropDue now S.ns.events S.ns.tags).1 with
  | nil => rw [hl] at hx; simp at hx
  | cons e rest =>
    rw [hl] at hx hsorted
    have hemem : e ∈ (advance S.ns now).1.events := by simp only [advance, hl]; simp
    have he := ((mem_advance hd.wf now e).mp hemem).2
    have hle := hsorted.head_le x hx
    simp only [firstTime, List.head?_cons, Option.map_some, applyPush, slotSchedule]
    split
    · exact ⟨he, hle⟩
    · rename_i hc
      simp only [Bool.or_eq_true, decide_eq_true_eq, not_or, Nat.not_le, Nat.not_lt] at hc
      exact ⟨hc.1, Nat.le_trans hc.2 hle⟩

theorem post_armed_noadv {now : Time} {S : NodeSt} (hd : During now (now + 1) S) :
    let st' := postEval false now S
    WF st'.ns ∧ ∀ x ∈ st'.ns.events, now < x.1 ∧ now < st'.slot ∧ st'.slot ≤ x.1 := by
  intro st'
  by_cases hsch : isScheduled S.ns = true
  · have hst' : st' = { ns := S.ns, slot := slotSchedule S.slot now (nextScheduledTime S.ns) } := by
      simp only [st', postEval, hsch, Bool.false_eq_true, ↓reduceIte]
    rw [hst']
    refine ⟨hd.wf, ?_⟩
    intro x hx
    simp only at hx ⊢
    refine ⟨hd.ev_ge x hx, ?_⟩
    rcases next_is_min hd.wf with ⟨hnil, _⟩ | ⟨e, he, hne, hmin⟩
    · rw [hnil] at hx; simp at hx
    · rw [hne]
      have he1 := hd.ev_ge e he
      have hle := hmin x hx
      simp only [slotSchedule]
      split
      · exact ⟨he1, hle⟩
      · rename_i hc
        simp only [Bool.or_eq_true, decide_eq_true_eq, not_or, Nat.not_le, Nat.not_lt] at hc
        exact ⟨hc.1, Nat.le_trans hc.2 hle⟩
  · have hsch' : isScheduled S.ns = false := by simpa using hsch
    have hst' : st' = S := by
      simp only [st', postEval, hsch', Bool.false_eq_true, ↓reduceIte]
    rw [hst']
    refine ⟨hd.wf, ?_⟩
    intro x hx
    exfalso
    have := (isScheduled_iff _).mpr ⟨x, hx⟩
    rw [hsch'] at this; cases this

/-- After a node with a scheduler has been evaluated at `now` — whatever operations its code
    issued, and whether it was woken by the scheduler or by an input — the scheduler state is
    well formed, every pending request lies strictly in the future, and the node's graph slot is
    armed at a time `slot` with `now < slot ≤` every pending time.  So the next wake-up the graph
    owes the node is never later than any pending request and never in the past. -/
theorem armed_after_eval (now : Time) (ops : List Op) (st : NodeSt) (hwf : WF st.ns)
    (hge : ∀ x ∈ st.ns.events, now ≤ x.1) :
    let st' := evalNode now ops st
    WF st'.ns ∧ ∀ x ∈ st'.ns.events, now < x.1 ∧ now < st'.slot ∧ st'.slot ≤ x.1 := by
  intro st'
  by_cases hnow : isScheduledNow st.ns now = true
  · have hd : During now now (ops.foldl (stepOp now true) { ns := st.ns, slot := now }) :=
      during_ops (Nat.le_refl _) (Nat.le_succ _) ops ⟨hwf, Nat.le_refl _, hge⟩
    have := post_armed_adv hd
    simpa only [st', evalNode, hnow] using this
  · have hnow' : isScheduledNow st.ns now = false := by simpa using hnow
    have hgt : ∀ x ∈ st.ns.events, now + 1 ≤ x.1 := by
      intro x hx
      have h1 := hge x hx
      rcases Nat.eq_or_lt_of_le h1 with heq | hlt
      · exfalso
        have := (isScheduledNow_iff hwf now).mpr ⟨⟨x, hx, heq.symm⟩, hge⟩
        rw [hnow'] at this; cases this
      · exact hlt
    have hd : During now (now + 1) (ops.foldl (stepOp now true) { ns := st.ns, slot := now }) :=
      during_ops (Nat.le_succ _) (Nat.le_refl _) ops ⟨hwf, Nat.le_refl _, hgt⟩
    have := post_armed_noadv hd
    simpa only [st', evalNode, hnow'] using this

/-- an evaluation time the graph may choose next: later than the previous one and — when a
    request is pending — not beyond the armed slot (C02: a future slot is never skipped) -/
def Admissible (prev : Time) (st : NodeSt) (now : Time) : Prop :=
  prev < now ∧ (st.ns.events ≠ [] → now ≤ st.slot)

/-- the state reached by a list of evaluations `(time, operations issued)` -/
def runEvals (st : NodeSt) : List (Time × List Op) → NodeSt
  | [] => st
  | (t, ops) :: rest => runEvals (evalNode t ops st) rest

/-- every evaluation of the run was admissible -/
def AdmissibleRun : Time → NodeSt → List (Time × List Op) → Prop
  | _, _, [] => True
  | prev, st, (t, ops) :: rest => Admissible prev st t ∧ AdmissibleRun t (evalNode t ops st) rest

/-- armed-ness after an evaluation at `prev` -/
def Armed (prev : Time) (st : NodeSt) : Prop :=
  WF st.ns ∧ ∀ x ∈ st.ns.events, prev < x.1 ∧ prev < st.slot ∧ st.slot ≤ x.1

/-- **wake-ups cover the pending set.**  Along any admissible run (scheduler-driven and
    input-driven evaluations interleaved in any way, any operations in each), after every
    evaluation the slot is armed no later than every pending request. -/
theorem run_armed (prev : Time) (st : NodeSt) (steps : List (Time × List Op))
    (h : Armed prev st) (hadm : AdmissibleRun prev st steps) :
    ∃ last, Armed last (runEvals st steps) := by
  induction steps generalizing prev st with
  | nil => exact ⟨prev, h⟩
  | cons step rest ih =>
    obtain ⟨t, ops⟩ := step
    obtain ⟨⟨hlt, hslot⟩, hrest⟩ := hadm
    have hge : ∀ x ∈ st.ns.events, t ≤ x.1 := by
      intro x hx
      have hne : st.ns.events ≠ [] := by intro h0; rw [h0] at hx; simp at hx
      exact Nat.le_trans (hslot hne) (h.2 x hx).2.2
    exact ih t (evalNode t ops st) (armed_after_eval t ops st h.1 hge) hrest

/-- **no pending request is ever passed over**: in an admissible run every evaluation happens at a
    time `≤` each request that was pending when it began.  (Together with the slot being armed in
    `(prev, first pending]`, the graph's next wake-up of the node is at or before every pending
    time and, times being strictly increasing naturals, reaches it unless it is cancelled.) -/
theorem wake_not_late (prev : Time) (st : NodeSt) (t : Time) (h : Armed prev st)
    (hadm : Admissible prev st t) : ∀ x ∈ st.ns.events, t ≤ x.1 := by
  intro x hx
  have hne : st.ns.events ≠ [] := by intro h0; rw [h0] at hx; simp at hx
  exact Nat.le_trans (hadm.2 hne) (h.2 x hx).2.2

/-- the start cycle arms the slot the same way (requests for the start time itself allowed) -/
theorem armed_after_start (now : Time) (ops : List Op) :
    let st' := startNode now ops {}
    WF st'.ns ∧ ∀ x ∈ st'.ns.events, now ≤ x.1 := by
  intro st'
  suffices ∀ (st : NodeSt), (WF st.ns ∧ ∀ x ∈ st.ns.events, now ≤ x.1) →
      (WF (ops.foldl (stepOp now false) st).ns ∧
        ∀ x ∈ (ops.foldl (stepOp now false) st).ns.events, now ≤ x.1) from
    this {} ⟨wf_empty, by simp⟩
  induction ops with
  | nil => exact fun st h => h
  | cons op ops ih =>
    intro st h
    apply ih
    have sched_case : ∀ w tag, WF (schedule st.ns now false w tag).1 ∧
        ∀ x ∈ (schedule st.ns now false w tag).1.events, now ≤ x.1 := by
      intro w tag
      refine ⟨wf_schedule h.1 now false w tag, ?_⟩
      by_cases hacc : rejected now false w = true
      · have : schedule st.ns now false w tag = (st.ns, none) := by simp [schedule, hacc]
        rw [this]; exact h.2
      · have hacc' : rejected now false w = false := by simpa using hacc
        intro x hx
        rw [mem_schedule h.1 now false w tag hacc'] at hx
        rcases hx with rfl | hx
        · simpa [rejected] using hacc'
        · exact h.2 x hx.1
    cases op with
    | sched w tag => exact sched_case w tag
    | schedDelta d tag => exact sched_case (now + d) tag
    | unschedTag tag =>
      exact ⟨wf_unscheduleTag h.1 tag, fun x hx => h.2 x ((mem_unscheduleTag h.1 tag x).mp hx).1⟩
    | unschedFirst =>
      exact ⟨wf_unscheduleFirst h.1, fun x hx => h.2 x
        (List.mem_of_mem_tail ((mem_unscheduleFirst _ x).mp hx))⟩
    | popTag tag =>
      refine ⟨wf_popTag h.1 tag 0, fun x hx => h.2 x ?_⟩
      simp only [stepOp, popTag_eq_unscheduleTag] at hx
      exact ((mem_unscheduleTag h.1 tag x).mp hx).1
    | reset => exact ⟨wf_reset st.ns, by simp [stepOp, reset]⟩

/-! ## non-vacuity: concrete states that meet the hypotheses -/

/-- a concrete reachable state: two tagged and one untagged request -/
def exState : NS :=
  ([Cmd.sched 10 true 15 1, .sched 10 true 12 0, .sched 10 true 20 2, .sched 10 true 13 1]).foldl runCmd NS.empty

example : exState.events = [(12, 0), (13, 1), (20, 2)] ∧ exState.tags = [(1, 13), (2, 20)] := by decide
example : WF exState := wf_reachable _
example : Armed 10 (evalNode 10 [.sched 15 1, .sched 12 0, .unschedFirst] {}) :=
  armed_after_eval 10 _ {} wf_empty (by simp)
/-- the O1 slack, visible in the model: cancelling the earliest request leaves the slot armed at it -/
example : (evalNode 10 [.sched 15 1, .sched 12 0, .unschedFirst] {}).slot = 12 ∧
    (evalNode 10 [.sched 15 1, .sched 12 0, .unschedFirst] {}).ns.events = [(15, 1)] := by decide

end HgVerif.NodeSched

/-! ## the scheduler's graph calls satisfy the caller discipline of C02

Every `graph.schedule_node(self, p)` a scheduler node issues during one evaluation at `now` — from
`schedule` inside user code, from `advance`, or from the re-arm — has `now < p`: a *future* request
for the node *itself*, which is the second clause of `Sched.Disc`. -/
namespace HgVerif.NodeSched

/-- the graph calls (times) made by one user operation -/
def opPush (now : Time) (st : NodeSt) : Op → Option Time
  | .sched w tag => (schedule st.ns now true w tag).2
  | .schedDelta d tag => (schedule st.ns now true (now + d) tag).2
  | _ => none

/-- all graph calls of one evaluation, in order -/
def evalPushes (now : Time) : List Op → NodeSt → List Time
  | [], _ => []
  | op :: rest, st =>
    (match opPush now st op with | some p => [p] | none => []) ++ evalPushes now rest (stepOp now true st op)

theorem firstTime_le {l : List Ev} (hs : Sorted l) {x : Ev} (hx : x ∈ l) : ∃ q, firstTime l = some q ∧ q ≤ x.1 := by
  cases l with
  | nil => simp at hx
  | cons e rest => exact ⟨e.1, by simp [firstTime], hs.head_le x hx⟩

/-- the events `schedule` works on after the optional tagged erase -/
def afterErase (s : NS) (tag : Tag) : List Ev :=
  if tag = 0 then s.events
  else
    (match tagFind s.tags tag with
     | some old => eraseEv (old, tag) s.events
     | none => s.events)

theorem afterErase_sub (s : NS) (tag : Tag) : ∀ x ∈ afterErase s tag, x ∈ s.events := by
  intro x hx
  unfold afterErase at hx
  split at hx
  · exact hx
  · split at hx
    · exact ((mem_eraseEv _ _ _).mp hx).1
    · exact hx

theorem afterErase_sorted {s : NS} (h : WF s) (tag : Tag) : Sorted (afterErase s tag) := by
  unfold afterErase
  split
  · exact h.sorted
  · split
    · exact sorted_eraseEv _ _ h.sorted
    · exact h.sorted

/-- a graph call made by `schedule` on a started node is for a time strictly after `now` -/
theorem schedule_push_future {s : NS} (h : WF s) (now w : Time) (tag : Tag) (hge : ∀ x ∈ s.events, now ≤ x.1)
    (p : Time) (hp : (schedule s now true w tag).2 = some p) : now < p := by
  by_cases hacc : rejected now true w = true
  · simp [schedule, hacc] at hp
  · have hacc' : rejected now true w = false := by simpa using hacc
    have hw : now < w := by simpa [rejected] using hacc'
    have hp' := hp
    simp only [schedule, hacc', Bool.false_eq_true, ↓reduceIte] at hp'
    generalize hE : (if (tag != 0) = true then _ else s.events) = E at hp'
    have hEsub : ∀ x ∈ E, x ∈ s.events := by
      intro x hx
      rw [← hE] at hx
      split at hx
      · split at hx
        · exact ((mem_eraseEv _ _ _).mp hx).1
        · exact hx
      · exact hx
    have hEsorted : Sorted E := by
      rw [← hE]
      split
      · split
        · exact sorted_eraseEv _ _ h.sorted
        · exact h.sorted
      · exact h.sorted
    have hall : ∀ x ∈ insertEv (w, tag) E, now ≤ x.1 := by
      intro x hx
      rw [mem_insertEv] at hx
      rcases hx with rfl | hx
      · exact Nat.le_of_lt hw
      · exact hge x (hEsub x hx)
    split at hp'
    · -- no previous first event: the pushed time is the new first
      rename_i n hn hnone
      injection hp' with hp'; subst hp'
      obtain ⟨x, hx, hxn⟩ := firstTime_mem hn
      have hnge : now ≤ n := hxn ▸ hall x hx
      rcases Nat.eq_or_lt_of_le hnge with heq | hlt
      · exfalso
        have hxold : x ∈ E := by
          rw [mem_insertEv] at hx
          rcases hx with rfl | hx
          · simp at hxn; omega
          · exact hx
        obtain ⟨q, hq, _⟩ := firstTime_le hEsorted hxold
        rw [hq] at hnone; cases hnone
      · exact hlt
    · rename_i n q hn hq
      split at hp'
      · rename_i hlt2
        injection hp' with hp'; subst hp'
        obtain ⟨x, hx, hxn⟩ := firstTime_mem hn
        have hnge : now ≤ n := hxn ▸ hall x hx
        rcases Nat.eq_or_lt_of_le hnge with heq | hlt
        · exfalso
          have hxold : x ∈ E := by
            rw [mem_insertEv] at hx
            rcases hx with rfl | hx
            · simp at hxn; omega
            · exact hx
          obtain ⟨q', hq', hqle⟩ := firstTime_le hEsorted hxold
          rw [hq] at hq'; injection hq' with hq'; subst hq'
          omega
        · exact hlt
      · cases hp'
    · cases hp'

/-- every graph call issued by the user operations of one evaluation is a *future* request -/
theorem evalPushes_future {now lo : Time} (hlo1 : now ≤ lo) (hlo2 : lo ≤ now + 1) (ops : List Op) {st : NodeSt}
    (h : During now lo st) : ∀ p ∈ evalPushes now ops st, now < p := by
  induction ops generalizing st with
  | nil => simp [evalPushes]
  | cons op rest ih =>
    intro p hp
    simp only [evalPushes, List.mem_append] at hp
    rcases hp with hp | hp
    · have hge : ∀ x ∈ st.ns.events, now ≤ x.1 := fun x hx => Nat.le_trans hlo1 (h.ev_ge x hx)
      cases op with
      | sched w tag =>
        cases hq : (schedule st.ns now true w tag).2 with
        | none => simp [opPush, hq] at hp
        | some q => simp [opPush, hq] at hp; subst hp; exact schedule_push_future h.wf now w tag hge _ hq
      | schedDelta d tag =>
        cases hq : (schedule st.ns now true (now + d) tag).2 with
        | none => simp [opPush, hq] at hp
        | some q => simp [opPush, hq] at hp; subst hp; exact schedule_push_future h.wf now (now + d) tag hge _ hq
      | unschedTag tag => simp [opPush] at hp
      | unschedFirst => simp [opPush] at hp
      | popTag tag => simp [opPush] at hp
      | reset => simp [opPush] at hp
    · exact ih (during_stepOp hlo1 hlo2 h op) p hp

/-- … and so are the calls of the post-evaluation step (`advance` / re-arm) -/
theorem postEval_push_future {now : Time} {S : NodeSt} (hd : During now now S) :
    ∀ p, (advance S.ns now).2 = some p → now < p := by
  intro p hp
  simp only [advance] at hp
  obtain ⟨x, hx, hxp⟩ := firstTime_mem hp
  have hm : x ∈ (advance S.ns now).1.events := by simpa [advance] using hx
  exact hxp ▸ ((mem_advance hd.wf now x).mp hm).2

end HgVerif.NodeSched
