import HgVerif.Lemmas.RefLink
/-!
# C13 — reading a time-series through a reference equals reading its current target

Property theorems only (helpers live in `Lemmas/RefLink.lean`; the model in `Model/RefLink.lean`).
Everything is about the *contract-level* link model, for ALL histories of retargets and target
ticks (every `CycleIn` in every reachable state): the quantifier of the property.

Floor
* `ref_subscription_inv` / `ref_subscription_exact` : in every reachable state every consumer below
  the reference is bound to the current reference value and subscribed to exactly that target.
* `ref_unselected_silent` : a cycle without retarget in which the selected target does not tick
  evaluates no consumer, whatever the other targets do; `ref_evaluated_cause` : every evaluation is
  caused by a retarget or by a tick of the (finally) selected target.
* `ref_same_no_tick` / `ref_same_link_noop` / `ref_same_cycle_no_ref_tick` : re-publishing an unchanged
  reference changes nothing - no REF tick, no re-bind, no evaluation.

Ceiling
* `ref_reads_target` : whatever a consumer reads (validity, value) is that of the current target.
  `ref_evaluated_when_target_ticks` : whenever that target ticks, every consumer is evaluated.
  `ref_own_delta_when_no_retarget` : without retarget the delta is the target's own delta.
* `ref_retarget_samples` : a retarget to a valid target evaluates every consumer in that cycle, with
  `modified`, the new target's value, scalar delta = value, keyed shapes as a sampled transition.
* `ref_retarget_samples_keyed` : `RetargetKeyedFull` - for sets / dictionaries the reported added /
  removed keys are exactly (new contents \ old contents) / (old contents \ new contents) and all live
  entries are sampled, for every history.  This is about the code WITH the fix of finding C13-B
  (`/verif/fixes/c13_b.patch`); before the fix the statement needed "the previous target holds no
  pending-erase slot of an older tick" and was refuted without it - `Lemmas/RefLink.lean` keeps the
  pre-fix published-key test `pubRPreFix` and `pubRPreFix_reports_stale` as the record of why.
* `ref_delta_value_keyed_refuted` : `delta_value()` of a keyed shape is not the sampled difference
  (finding C13-A); the key accessors are.
-/
namespace HgVerif.RefLink

/-- the representation invariant of the link system at a cycle boundary -/
structure Inv (s : State) : Prop where
  good : ∀ c, Good s c
  bound_ref : ∀ c, c < s.nC → (s.links c).bound = s.ref
  bound_none : ∀ c, s.nC ≤ c → (s.links c).bound = none
  lmt_le : ∀ t, (s.targets t).lmt ≤ s.now
  trans_le : ∀ c, (s.links c).transAt ≤ s.now
  fresh : ∀ t, s.nT ≤ t → (s.targets t).lmt = 0

inductive Reach (cfg : Cfg) : State → Prop
  | init : Reach cfg (init cfg)
  | step {s : State} (inp : CycleIn) : Reach cfg s → Reach cfg (cycle s inp).1

/-! ## the three phases of a cycle -/

/-- state after the producers ran -/
def afterTicks (s : State) (inp : CycleIn) : State :=
  tickAll { s with now := s.now + 1 } inp.ticks (List.range s.nT)

theorem cycleMid_eq (s : State) (inp : CycleIn) : cycleMid s inp = select (afterTicks s inp) inp.sel := rfl

theorem afterTicks_frame (s : State) (inp : CycleIn) :
    (afterTicks s inp).shape = s.shape ∧ (afterTicks s inp).nC = s.nC ∧ (afterTicks s inp).nT = s.nT ∧
    (afterTicks s inp).now = s.now + 1 ∧ (afterTicks s inp).ref = s.ref ∧
    (afterTicks s inp).refLmt = s.refLmt := by
  have := tickAll_frame inp.ticks (List.range s.nT) { s with now := s.now + 1 }
  simpa [afterTicks] using this

theorem afterTicks_link (s : State) (inp : CycleIn) (c : Nat) :
    ((afterTicks s inp).links c).bound = (s.links c).bound ∧
    ((afterTicks s inp).links c).prev = (s.links c).prev ∧
    ((afterTicks s inp).links c).transAt = (s.links c).transAt ∧
    ((afterTicks s inp).links c).checked = (s.links c).checked := by
  have := tickAll_link inp.ticks (List.range s.nT) { s with now := s.now + 1 } c
  simpa [afterTicks] using this

theorem afterTicks_subs (s : State) (inp : CycleIn) (t : Nat) :
    ((afterTicks s inp).targets t).subs = (s.targets t).subs := by
  have := tickAll_subs inp.ticks (List.range s.nT) { s with now := s.now + 1 } t
  simpa [afterTicks] using this

/-- each target is ticked at most once, by its own replayed delta -/
theorem afterTicks_target (s : State) (inp : CycleIn) (t : Nat) :
    (afterTicks s inp).targets t =
      if t < s.nT then tickedTarget s.shape (s.targets t) (s.now + 1) (inp.ticks t) else s.targets t := by
  unfold afterTicks
  split
  · rename_i h
    rw [tickAll_target_in _ _ _ List.nodup_range (List.mem_range.mpr h)]
  · rename_i h
    rw [tickAll_target_notin _ _ _ (by simpa using h)]

theorem tickedTarget_lmt (sh : Shape) (tg : Target) (now : Nat) (od : Option Delta) (h : tg.lmt < now) :
    (tickedTarget sh tg now od).lmt = now ↔ ∃ d, od = some d ∧ (applyDelta sh tg now d).2 = true := by
  cases od with
  | none =>
    simp only [tickedTarget]
    constructor
    · intro e; omega
    · rintro ⟨d, hd, _⟩; cases hd
  | some d =>
    simp only [tickedTarget]
    cases hb : (applyDelta sh tg now d).2
    · rw [applyDelta_not_ticked _ _ _ _ hb]
      constructor
      · intro e; omega
      · rintro ⟨d', hd, hb'⟩; cases hd; rw [hb] at hb'; cases hb'
    · constructor
      · intro _; exact ⟨d, rfl, hb⟩
      · intro _; exact (applyDelta_ticked _ _ _ _ hb).1

theorem tickedTarget_lmt_le (sh : Shape) (tg : Target) (now : Nat) (od : Option Delta) (h : tg.lmt ≤ now) :
    (tickedTarget sh tg now od).lmt ≤ now := by
  cases od with
  | none => exact h
  | some d =>
    simp only [tickedTarget]
    cases hb : (applyDelta sh tg now d).2
    · rw [applyDelta_not_ticked _ _ _ _ hb]; exact h
    · rw [(applyDelta_ticked _ _ _ _ hb).1]; exact Nat.le_refl _

theorem tickedTarget_valid (sh : Shape) (tg : Target) (now : Nat) (od : Option Delta)
    (h : (tickedTarget sh tg now od).lmt = now) (hl : tg.lmt < now) : (tickedTarget sh tg now od).valid = true := by
  obtain ⟨d, rfl, hb⟩ := (tickedTarget_lmt sh tg now od hl).mp h
  exact (applyDelta_ticked _ _ _ _ hb).2

/-- the selection step either leaves the state alone or re-binds every consumer -/
theorem select_cases (s : State) (sel : Option Nat) :
    (select s sel = s ∧ (sel = none ∨ sel = s.ref)) ∨
    (∃ i, sel = some i ∧ s.ref ≠ some i ∧
      select s sel = retargetAll { s with ref := some i, refLmt := s.now, sched := s.sched ++ s.resample } i
        (List.range s.nC)) := by
  rw [select_eq]
  cases sel with
  | none => exact Or.inl ⟨rfl, Or.inl rfl⟩
  | some i =>
    by_cases h : s.ref = some i
    · exact Or.inl ⟨by simp [h], Or.inr h.symm⟩
    · exact Or.inr ⟨i, rfl, h, by simp [h]⟩

theorem select_data (s : State) (sel : Option Nat) (t : Nat) :
    ((select s sel).targets t).data = (s.targets t).data := by
  rcases select_cases s sel with ⟨h, _⟩ | ⟨i, _, _, h⟩
  · rw [h]
  · rw [h, retargetAll_data]

theorem select_frame (s : State) (sel : Option Nat) :
    (select s sel).shape = s.shape ∧ (select s sel).nC = s.nC ∧ (select s sel).nT = s.nT ∧
    (select s sel).now = s.now := by
  rcases select_cases s sel with ⟨h, _⟩ | ⟨i, _, _, h⟩
  · rw [h]; simp
  · have := retargetAll_frame i (List.range s.nC) { s with ref := some i, refLmt := s.now, sched := s.sched ++ s.resample }
    rw [h]; simp at this; grind

/-! ## Floor 1: the subscription invariant -/

theorem inv_init (cfg : Cfg) : Inv (init cfg) := by
  constructor <;> intros <;> simp [init, Good]

theorem inv_afterTicks {s : State} (h : Inv s) (inp : CycleIn) : Inv (afterTicks s inp) := by
  have f := afterTicks_frame s inp
  constructor
  · intro c t
    rw [afterTicks_subs, (afterTicks_link s inp c).1]; exact h.good c t
  · intro c hc
    rw [f.2.1] at hc
    rw [(afterTicks_link s inp c).1, f.2.2.2.2.1]; exact h.bound_ref c hc
  · intro c hc
    rw [f.2.1] at hc
    rw [(afterTicks_link s inp c).1]; exact h.bound_none c hc
  · intro t
    have hl : (s.targets t).lmt ≤ s.now + 1 := Nat.le_succ_of_le (h.lmt_le t)
    rw [afterTicks_target, f.2.2.2.1]
    split
    · exact tickedTarget_lmt_le _ _ _ _ hl
    · exact hl
  · intro c
    rw [(afterTicks_link s inp c).2.2.1, f.2.2.2.1]; exact Nat.le_succ_of_le (h.trans_le c)
  · intro t ht
    rw [f.2.2.1] at ht
    rw [afterTicks_target, if_neg (Nat.not_lt.mpr ht)]; exact h.fresh t ht

theorem retargetOne_transAt_le (s : State) (c i c' : Nat) (h : ((s.links c').transAt ≤ s.now)) :
    ((retargetOne s c i).links c').transAt ≤ s.now := by
  unfold retargetOne; simp only; split
  · exact h
  · simp only [upd]; split
    · simp only; split <;> simp
    · exact h

theorem retargetAll_transAt_le (i : Nat) (cs : List Nat) (s : State) (h : ∀ c, (s.links c).transAt ≤ s.now) :
    ∀ c, ((retargetAll s i cs).links c).transAt ≤ s.now := by
  induction cs generalizing s with
  | nil => simpa [retargetAll] using h
  | cons c' cs ih =>
    intro c
    rw [retargetAll_cons]
    have f := retargetOne_frame s c' i
    have := ih (retargetOne s c' i) (fun c => by rw [f.2.2.2.1]; exact retargetOne_transAt_le s c' i c (h c)) c
    rw [f.2.2.2.1] at this; exact this

theorem inv_select {s : State} (h : Inv s) (sel : Option Nat) : Inv (select s sel) := by
  rcases select_cases s sel with ⟨e, _⟩ | ⟨i, _, _, e⟩
  · rw [e]; exact h
  · rw [e]
    let s0 : State := { s with ref := some i, refLmt := s.now, sched := s.sched ++ s.resample }
    have f := retargetAll_frame i (List.range s.nC) s0
    have hg : ∀ c, Good s0 c := fun c t => h.good c t
    have hd : ∀ t, ((retargetAll s0 i (List.range s.nC)).targets t).data = (s.targets t).data :=
      fun t => retargetAll_data i _ s0 t
    constructor
    · exact retargetAll_good i _ s0 hg
    · intro c hc
      have hc' : c < s.nC := by rw [f.2.1] at hc; exact hc
      rw [retargetAll_bound_in i _ s0 (List.mem_range.mpr hc'), f.2.2.2.2.1]
    · intro c hc
      have hc' : s.nC ≤ c := by rw [f.2.1] at hc; exact hc
      rw [retargetAll_link_notin i _ s0 (by simpa using hc')]
      exact h.bound_none c hc'
    · intro t
      rw [(Target.data_eq (hd t)).2.2.1, f.2.2.2.1]; exact h.lmt_le t
    · intro c
      rw [f.2.2.2.1]
      exact retargetAll_transAt_le i _ s0 h.trans_le c
    · intro t ht
      rw [(Target.data_eq (hd t)).2.2.1]
      exact h.fresh t (by rw [f.2.2.1] at ht; exact ht)

theorem inv_cycleMid {s : State} (h : Inv s) (inp : CycleIn) : Inv (cycleMid s inp) := by
  rw [cycleMid_eq]; exact inv_select (inv_afterTicks h inp) inp.sel

theorem inv_cycle {s : State} (h : Inv s) (inp : CycleIn) : Inv (cycle s inp).1 := by
  have m := inv_cycleMid h inp
  exact ⟨fun c t => m.good c t, m.bound_ref, m.bound_none, m.lmt_le, m.trans_le, m.fresh⟩

/-- **ref_subscription_inv**: the invariant holds in every reachable state, for every history. -/
theorem ref_subscription_inv {cfg : Cfg} {s : State} (h : Reach cfg s) : Inv s := by
  induction h with
  | init => exact inv_init cfg
  | step inp _ ih => exact inv_cycle ih inp

/-- In every reachable state each consumer below the reference is subscribed to exactly the current
target of the reference - and to no former or unselected one. -/
theorem ref_subscription_exact {cfg : Cfg} {s : State} (h : Reach cfg s) {c : Nat} (hc : c < s.nC) (t : Nat) :
    c ∈ (s.targets t).subs ↔ s.ref = some t := by
  have i := ref_subscription_inv h
  rw [i.good c t, i.bound_ref c hc]

theorem cycle_sched_nil (s : State) (inp : CycleIn) : (cycle s inp).1.sched = [] := rfl

theorem reach_sched {cfg : Cfg} {s : State} (h : Reach cfg s) : s.sched = [] ∨ s = init cfg := by
  cases h with
  | init => exact Or.inr rfl
  | step inp _ => exact Or.inl rfl

/-! ## Floor 3: re-publishing an unchanged reference -/

/-- **ref_same_no_tick**: a selector tick that selects the already selected branch publishes nothing:
the state (REF value, its modification time, every link, every subscription, the schedule) is
unchanged. -/
theorem ref_same_no_tick (s : State) (i : Nat) (h : s.ref = some i) : select s (some i) = s := by
  rw [select_eq]; simp [h]

/-- the same de-duplication one level down (`bind_target_link_at`): re-applying a reference whose
target is the bound one neither records a modification nor schedules anybody -/
theorem ref_same_link_noop (s : State) (c i : Nat) (h : (s.links c).bound = some i) : retargetOne s c i = s := by
  unfold retargetOne; simp [h]

/-- at cycle level: without a selector tick, or with one that selects the selected branch again, the REF
output does not tick (value and modification time unchanged) and no link is re-bound, whatever the
targets do in that cycle -/
theorem ref_same_cycle_no_ref_tick (s : State) (inp : CycleIn) (hsel : inp.sel = none ∨ inp.sel = s.ref) :
    (cycle s inp).1.ref = s.ref ∧ (cycle s inp).1.refLmt = s.refLmt ∧
    ∀ c, ((cycle s inp).1.links c).bound = (s.links c).bound := by
  have f := afterTicks_frame s inp
  have hm : cycleMid s inp = afterTicks s inp := by
    rw [cycleMid_eq]
    rcases hsel with e | e
    · rw [e]; rfl
    · rw [e]
      cases hr : s.ref with
      | none => rfl
      | some i => exact ref_same_no_tick _ i (by rw [f.2.2.2.2.1, hr])
  show (cycleMid s inp).ref = s.ref ∧ (cycleMid s inp).refLmt = s.refLmt ∧
    ∀ c, ((cycleMid s inp).links c).bound = (s.links c).bound
  rw [hm]
  exact ⟨f.2.2.2.2.1, f.2.2.2.2.2, fun c => (afterTicks_link s inp c).1⟩

/-! ## Floor 2: unselected targets are silent -/

theorem mem_evaluated {s : State} {c : Nat} :
    c ∈ evaluated s ↔ c < s.nC ∧ c ∈ s.sched ∧ ((s.links c).checked = false ∨ (view s c).valid = true) := by
  simp [evaluated, List.mem_filter]

theorem mem_obs {s : State} {inp : CycleIn} {c : Nat} {v : View} :
    (c, v) ∈ (cycle s inp).2 ↔ c ∈ evaluated (cycleMid s inp) ∧ v = view (cycleMid s inp) c := by
  simp only [cycle, List.mem_map]
  constructor
  · rintro ⟨c', hc, e⟩
    simp only [Prod.mk.injEq] at e
    obtain ⟨rfl, rfl⟩ := e
    exact ⟨hc, rfl⟩
  · rintro ⟨hc, rfl⟩
    exact ⟨c, hc, rfl⟩

/-- the selected target ticked in this cycle -/
def SelTicked (m : State) : Prop := ∃ t, m.ref = some t ∧ (m.targets t).lmt = m.now

/-- who is on the schedule after the producers ran, and why -/
theorem afterTicks_sched_cause {s : State} (h : Inv s) (hs : s.sched = []) (inp : CycleIn) {c : Nat}
    (hc : c ∈ (afterTicks s inp).sched) :
    ∃ t d, (s.links c).bound = some t ∧ t < s.nT ∧ inp.ticks t = some d := by
  rcases tickAll_sched_cause inp.ticks (List.range s.nT) _ hc with h1 | ⟨t, ht, d, hd, hsub⟩
  · simp [hs] at h1
  · exact ⟨t, d, (h.good c t).mp hsub, List.mem_range.mp ht, hd⟩

/-- **ref_unselected_silent**: in a cycle in which the reference is not retargeted (no selector tick, or
a selector tick that selects the same branch) and the selected target gets no tick, NO consumer is
evaluated - whatever the other (unselected, former) targets do. -/
theorem ref_unselected_silent {s : State} (h : Inv s) (hs : s.sched = []) (inp : CycleIn)
    (hsel : inp.sel = none ∨ inp.sel = s.ref)
    (hq : ∀ t, s.ref = some t → inp.ticks t = none) : (cycle s inp).2 = [] := by
  have hm : cycleMid s inp = afterTicks s inp := by
    rw [cycleMid_eq]
    have f := afterTicks_frame s inp
    rcases hsel with e | e
    · rw [e]; rfl
    · rw [e]
      cases hr : s.ref with
      | none => rfl
      | some i => exact ref_same_no_tick _ i (by rw [f.2.2.2.2.1, hr])
  apply List.eq_nil_iff_forall_not_mem.mpr
  rintro ⟨c, v⟩ hcv
  have hc := (mem_obs.mp hcv).1
  rw [hm] at hc
  obtain ⟨hlt, hsch, _⟩ := mem_evaluated.mp hc
  have f := afterTicks_frame s inp
  obtain ⟨t, d, hb, _, hd⟩ := afterTicks_sched_cause h hs inp hsch
  rw [h.bound_ref c (by omega)] at hb
  rw [hq t hb] at hd
  cases hd

/-- every evaluation has a cause the property allows: the reference was retargeted in this cycle, or
the target selected at the end of the cycle received a tick in this cycle -/
theorem ref_evaluated_cause {s : State} (h : Inv s) (hs : s.sched = []) (inp : CycleIn) {c : Nat} {v : View}
    (hcv : (c, v) ∈ (cycle s inp).2) :
    (cycle s inp).1.ref ≠ s.ref ∨ ∃ t d, (cycle s inp).1.ref = some t ∧ inp.ticks t = some d := by
  have hc := (mem_obs.mp hcv).1
  obtain ⟨hlt, hsch, _⟩ := mem_evaluated.mp hc
  have f := afterTicks_frame s inp
  rw [cycleMid_eq] at hsch hlt
  rcases select_cases (afterTicks s inp) inp.sel with ⟨e, _⟩ | ⟨i, _, hne, e⟩
  · rw [e] at hsch hlt
    obtain ⟨t, d, hb, _, hd⟩ := afterTicks_sched_cause h hs inp hsch
    rw [h.bound_ref c (by omega)] at hb
    refine Or.inr ⟨t, d, ?_, hd⟩
    show (cycleMid s inp).ref = some t
    rw [cycleMid_eq, e, f.2.2.2.2.1, hb]
  · refine Or.inl ?_
    show (cycleMid s inp).ref ≠ s.ref
    rw [cycleMid_eq, e]
    have g := retargetAll_frame i (List.range (afterTicks s inp).nC)
      { afterTicks s inp with ref := some i, refLmt := (afterTicks s inp).now,
                               sched := (afterTicks s inp).sched ++ (afterTicks s inp).resample }
    rw [g.2.2.2.2.1]
    rw [f.2.2.2.2.1] at hne
    exact fun e' => hne e'.symm

/-! ## Ceiling 1: what is read is the current target -/

theorem view_of_bound {s : State} {c t : Nat} (hb : (s.links c).bound = some t) :
    (view s c).valid = (s.targets t).valid ∧ (view s c).items = (s.targets t).items ∧
    (view s c).modified = ((s.targets t).lmt == s.now || (s.links c).lmt == s.now) := by
  simp [view, hb]

/-- **ref_reads_target**: at every evaluation, validity and value read through the reference are those
of the target the reference designates at that moment (and "not valid" while it designates none). -/
theorem ref_reads_target {s : State} (h : Inv s) (inp : CycleIn) {c : Nat} {v : View}
    (hcv : (c, v) ∈ (cycle s inp).2) :
    match (cycle s inp).1.ref with
    | some t => v.valid = ((cycle s inp).1.targets t).valid ∧ v.items = ((cycle s inp).1.targets t).items
    | none => v.valid = false := by
  obtain ⟨hc, rfl⟩ := mem_obs.mp hcv
  have m := inv_cycleMid h inp
  have hb := m.bound_ref c (mem_evaluated.mp hc).1
  show match (cycleMid s inp).ref with
    | some t => (view (cycleMid s inp) c).valid = ((cycleMid s inp).targets t).valid ∧
        (view (cycleMid s inp) c).items = ((cycleMid s inp).targets t).items
    | none => (view (cycleMid s inp) c).valid = false
  cases hr : (cycleMid s inp).ref with
  | none => simp [view, hb, hr]
  | some t => rw [hr] at hb; exact ⟨(view_of_bound hb).1, (view_of_bound hb).2.1⟩

/-- a target stamped with the current time has ticked in this cycle (times are fresh) -/
theorem ticked_of_lmt {s : State} (h : Inv s) (inp : CycleIn) {t : Nat}
    (hl : ((cycleMid s inp).targets t).lmt = s.now + 1) :
    t < s.nT ∧ ∃ d, inp.ticks t = some d ∧ (applyDelta s.shape (s.targets t) (s.now + 1) d).2 = true := by
  rw [cycleMid_eq, (Target.data_eq (select_data _ _ t)).2.2.1, afterTicks_target] at hl
  have hlt : (s.targets t).lmt < s.now + 1 := by have := h.lmt_le t; omega
  by_cases ht : t < s.nT
  · rw [if_pos ht] at hl
    exact ⟨ht, (tickedTarget_lmt _ _ _ _ hlt).mp hl⟩
  · rw [if_neg ht] at hl; omega

theorem cycleMid_frame (s : State) (inp : CycleIn) :
    (cycleMid s inp).shape = s.shape ∧ (cycleMid s inp).nC = s.nC ∧ (cycleMid s inp).nT = s.nT ∧
    (cycleMid s inp).now = s.now + 1 := by
  have a := select_frame (afterTicks s inp) inp.sel
  have b := afterTicks_frame s inp
  rw [cycleMid_eq]; grind

/-- the per-consumer effect of a retarget to `i` in this cycle -/
theorem retarget_link {s : State} (h : Inv s) (inp : CycleIn) {i c : Nat} (hsel : inp.sel = some i)
    (hne : s.ref ≠ some i) (hc : c < s.nC) :
    (cycleMid s inp).links c = (retargetOne (afterTicks s inp) c i).links c ∧
    (publishes (afterTicks s inp) c i = true → c ∈ (cycleMid s inp).sched) := by
  have f := afterTicks_frame s inp
  have hne' : (afterTicks s inp).ref ≠ some i := by rw [f.2.2.2.2.1]; exact hne
  have e : cycleMid s inp =
      retargetAll { afterTicks s inp with ref := some i, refLmt := (afterTicks s inp).now,
                                          sched := (afterTicks s inp).sched ++ (afterTicks s inp).resample } i
        (List.range (afterTicks s inp).nC) := by
    rw [cycleMid_eq, hsel, select_eq]; simp [hne']
  have hmem : c ∈ List.range (afterTicks s inp).nC := by rw [f.2.1]; exact List.mem_range.mpr hc
  have hb : ((afterTicks s inp).links c).bound ≠ some i := by
    rw [(afterTicks_link s inp c).1, h.bound_ref c hc]; exact hne
  constructor
  · rw [e, retargetAll_link_in i _ _ List.nodup_range hmem]
    exact retargetOne_link_congr c i rfl rfl rfl (fun _ => rfl)
  · intro hp
    rw [e]
    exact retargetAll_sched_in i _
      { afterTicks s inp with ref := some i, refLmt := (afterTicks s inp).now,
                               sched := (afterTicks s inp).sched ++ (afterTicks s inp).resample }
      List.nodup_range hmem hb hp

/-- **ref_evaluated_when_target_ticks**: whenever the target designated at the end of the cycle ticks in
that cycle, every consumer below the reference is evaluated in that cycle. -/
theorem ref_evaluated_when_target_ticks {s : State} (h : Inv s) (inp : CycleIn) {t : Nat}
    (hr : (cycle s inp).1.ref = some t)
    (hl : ((cycle s inp).1.targets t).lmt = (cycle s inp).1.now) {c : Nat} (hc : c < s.nC) :
    ∃ v, (c, v) ∈ (cycle s inp).2 := by
  have fm := cycleMid_frame s inp
  replace hr : (cycleMid s inp).ref = some t := hr
  replace hl : ((cycleMid s inp).targets t).lmt = s.now + 1 := by
    have : ((cycleMid s inp).targets t).lmt = (cycleMid s inp).now := hl
    rw [this, fm.2.2.2]
  obtain ⟨htn, d, hd, hb⟩ := ticked_of_lmt h inp hl
  have m := inv_cycleMid h inp
  have hbound : ((cycleMid s inp).links c).bound = some t := by rw [m.bound_ref c (by omega), hr]
  have hvalid : ((cycleMid s inp).targets t).valid = true := by
    rw [cycleMid_eq, (Target.data_eq (select_data _ _ t)).1, afterTicks_target, if_pos htn]
    unfold tickedTarget; rw [hd]; exact (applyDelta_ticked _ _ _ _ hb).2
  refine ⟨view (cycleMid s inp) c, mem_obs.mpr ⟨mem_evaluated.mpr ⟨by omega, ?_, Or.inr ?_⟩, rfl⟩⟩
  · have f := afterTicks_frame s inp
    rw [cycleMid_eq] at hr ⊢
    rcases select_cases (afterTicks s inp) inp.sel with ⟨e, _⟩ | ⟨i, hsel, hne, e⟩
    · -- no retarget: the consumer is subscribed to `t`, whose tick scheduled it
      rw [e] at hr ⊢
      rw [f.2.2.2.2.1] at hr
      have hsub : c ∈ (s.targets t).subs := (h.good c t).mpr (by rw [h.bound_ref c hc, hr])
      exact tickAll_sched_of_tick inp.ticks _ _ List.nodup_range (List.mem_range.mpr htn) hd hb hsub
    · -- retarget to `t` in this very cycle: the new target is valid, the re-bind publishes
      have hit : i = t := by
        have g := retargetAll_frame i (List.range (afterTicks s inp).nC)
          { afterTicks s inp with ref := some i, refLmt := (afterTicks s inp).now,
                                   sched := (afterTicks s inp).sched ++ (afterTicks s inp).resample }
        rw [e, g.2.2.2.2.1] at hr
        exact Option.some.inj hr
      subst hit
      rw [f.2.2.2.2.1] at hne
      have hv : ((afterTicks s inp).targets i).valid = true := by
        rw [afterTicks_target, if_pos htn]; unfold tickedTarget; rw [hd]
        exact (applyDelta_ticked _ _ _ _ hb).2
      have hp : publishes (afterTicks s inp) c i = true := by
        unfold publishes; simp only [hv]; split <;> simp
      have := (retarget_link h inp hsel hne hc).2 hp
      rw [cycleMid_eq] at this; exact this
  · rw [(view_of_bound hbound).1]; exact hvalid

/-- **ref_own_delta_when_no_retarget**: in a cycle without retarget the delta a consumer reads is the
selected target's own delta of this cycle (key accessors and `delta_value()` alike). -/
theorem ref_own_delta_when_no_retarget {s : State} (h : Inv s) (inp : CycleIn) {c t : Nat} {v : View}
    (hsel : inp.sel = none ∨ inp.sel = s.ref) (hr : s.ref = some t)
    (hcv : (c, v) ∈ (cycle s inp).2) (hl : ((cycle s inp).1.targets t).lmt = (cycle s inp).1.now) :
    v.trans = false ∧ v.added = ((cycle s inp).1.targets t).added ∧
    v.removed = ((cycle s inp).1.targets t).removed ∧ v.modk = ((cycle s inp).1.targets t).modKV ∧
    (s.shape ≠ .ts → v.dv = some (((cycle s inp).1.targets t).added, ((cycle s inp).1.targets t).removed,
      ((cycle s inp).1.targets t).modKV)) := by
  obtain ⟨hc, rfl⟩ := mem_obs.mp hcv
  have fm := cycleMid_frame s inp
  have f := afterTicks_frame s inp
  have hm : cycleMid s inp = afterTicks s inp := by
    rw [cycleMid_eq]
    rcases hsel with e | e
    · rw [e]; rfl
    · rw [e, hr]; exact ref_same_no_tick _ t (by rw [f.2.2.2.2.1, hr])
  have hcl : c < s.nC := by have := (mem_evaluated.mp hc).1; omega
  have hb : ((cycleMid s inp).links c).bound = some t := by
    rw [hm, (afterTicks_link s inp c).1, h.bound_ref c hcl, hr]
  have htr : (((cycleMid s inp).links c).transAt == (cycleMid s inp).now) = false := by
    rw [hm, (afterTicks_link s inp c).2.2.1, f.2.2.2.1]
    have := h.trans_le c
    simp; omega
  replace hl : (((cycleMid s inp).targets t).lmt == (cycleMid s inp).now) = true := by
    have : ((cycleMid s inp).targets t).lmt = (cycleMid s inp).now := hl
    simp [this]
  have hk : ∀ b : Bool, (b && (((cycleMid s inp).links c).transAt == (cycleMid s inp).now)) = false := by
    intro b; rw [htr]; simp
  show (view (cycleMid s inp) c).trans = false ∧ (view (cycleMid s inp) c).added = ((cycleMid s inp).targets t).added ∧
    (view (cycleMid s inp) c).removed = ((cycleMid s inp).targets t).removed ∧
    (view (cycleMid s inp) c).modk = ((cycleMid s inp).targets t).modKV ∧
    (s.shape ≠ .ts → (view (cycleMid s inp) c).dv = some (((cycleMid s inp).targets t).added,
      ((cycleMid s inp).targets t).removed, ((cycleMid s inp).targets t).modKV))
  refine ⟨?_, ?_, ?_, ?_, ?_⟩
  · simp [view, hb, hk]
  · simp [view, hb, hk, hl]
  · simp [view, hb, hk, hl]
  · simp [view, hb, hk, hl]
  · intro hs
    have hsh : ((cycleMid s inp).shape == Shape.ts) = false := by rw [fm.1]; simpa using hs
    simp [view, hb, hl, hsh]

/-! ## Ceiling 2: a retarget to a valid target is a sampled tick -/

/-- what every consumer sees in a cycle in which the reference is retargeted to the valid target `i` -/
structure Sampled (s : State) (inp : CycleIn) (i c : Nat) (v : View) : Prop where
  evaluated : (c, v) ∈ (cycle s inp).2
  valid : v.valid = true
  modified : v.modified = true
  value : v.items = ((cycle s inp).1.targets i).items
  scalar_delta : s.shape = .ts → v.dv = some ([], [], ((cycle s inp).1.targets i).items)
  keyed_transition : s.shape ≠ .ts → v.trans = true

theorem retargetOne_link_publish {s : State} {c i : Nat} (hb : (s.links c).bound ≠ some i)
    (hp : publishes s c i = true) :
    ((retargetOne s c i).links c).bound = some i ∧ ((retargetOne s c i).links c).lmt = s.now ∧
    ((retargetOne s c i).links c).prev = (if s.shape != .ts then (s.links c).bound else none) ∧
    ((retargetOne s c i).links c).transAt = (if s.shape != .ts then s.now else 0) := by
  unfold retargetOne
  simp [hb, hp]

/-- **ref_retarget_samples**: when the reference is retargeted to a target that is valid (it ticked in an
earlier cycle or in this one), every consumer below the reference is evaluated in that same cycle, sees
`modified`, reads the new target's current value; a scalar reads that value as its delta, a set /
dictionary reads a sampled transition. -/
theorem ref_retarget_samples {s : State} (h : Inv s) (inp : CycleIn) {i : Nat} (hsel : inp.sel = some i)
    (hne : s.ref ≠ some i) (hv : ((cycle s inp).1.targets i).valid = true) {c : Nat} (hc : c < s.nC) :
    ∃ v, Sampled s inp i c v := by
  have fm := cycleMid_frame s inp
  have f := afterTicks_frame s inp
  replace hv : ((afterTicks s inp).targets i).valid = true := by
    have : ((cycleMid s inp).targets i).valid = true := hv
    rwa [cycleMid_eq, (Target.data_eq (select_data _ _ i)).1] at this
  have hp : publishes (afterTicks s inp) c i = true := by
    unfold publishes; simp only [hv]; split <;> simp
  have hb : ((afterTicks s inp).links c).bound ≠ some i := by
    rw [(afterTicks_link s inp c).1, h.bound_ref c hc]; exact hne
  obtain ⟨hlink, hsched⟩ := retarget_link h inp hsel hne hc
  obtain ⟨lb, ll, _, lt⟩ := retargetOne_link_publish hb hp
  rw [← hlink] at lb ll lt
  have hd := select_data (afterTicks s inp) inp.sel i
  rw [← cycleMid_eq] at hd
  have hvm : ((cycleMid s inp).targets i).valid = true := by rw [(Target.data_eq hd).1]; exact hv
  have hview := view_of_bound lb
  refine ⟨view (cycleMid s inp) c, ?_, ?_, ?_, ?_, ?_, ?_⟩
  · exact mem_obs.mpr ⟨mem_evaluated.mpr ⟨by omega, hsched hp, Or.inr (by rw [hview.1]; exact hvm)⟩, rfl⟩
  · rw [hview.1]; exact hvm
  · rw [hview.2.2, ll, f.2.2.2.1, fm.2.2.2]; simp
  · exact hview.2.1
  · intro hs
    show (view (cycleMid s inp) c).dv = some ([], [], ((cycleMid s inp).targets i).items)
    simp [view, lb, fm.1, hs, hvm]
  · intro hs
    have hk : (s.shape != Shape.ts) = true := by simpa using hs
    show (view (cycleMid s inp) c).trans = true
    simp only [view, lb, fm.1, hk, lt, f.1, f.2.2.2.1, fm.2.2.2]
    simp

/-! ### sets and dictionaries: the difference between old and new contents -/

/-- keys the consumer could see before this cycle: the contents of the previously selected target -/
def oldKeys (s : State) : List Int :=
  match s.ref with
  | some o => keys (s.targets o).items
  | none => []

/-- the statement for keyed shapes: in the cycle of a retarget to a valid target the key accessors report
exactly the difference between the contents of the previously selected target (as of the end of the
previous cycle) and the contents of the new one, and every live entry of the new target is sampled as
modified.  The only hypothesis besides reachability (`Inv`) is the generator discipline `Delta.wf`. -/
def RetargetKeyedFull : Prop :=
  ∀ (s : State) (inp : CycleIn) (i c : Nat) (v : View), Inv s → s.shape ≠ .ts →
    (∀ t d, inp.ticks t = some d → d.wf) → inp.sel = some i → s.ref ≠ some i →
    ((cycle s inp).1.targets i).valid = true → (c, v) ∈ (cycle s inp).2 →
    (∀ k, k ∈ v.added ↔ k ∈ keys ((cycle s inp).1.targets i).items ∧ k ∉ oldKeys s) ∧
    (∀ k, k ∈ v.removed ↔ k ∈ oldKeys s ∧ k ∉ keys ((cycle s inp).1.targets i).items) ∧
    v.modk = ((cycle s inp).1.targets i).items

/-- key-set algebra of one effective keyed tick: from the target *after* the tick, the published-key
tests of the transition accessors recover exactly the key set *before* the tick -/
theorem applyDelta_keys_spec (sh : Shape) (hs : sh ≠ .ts) (t : Target) (now : Nat) (d : Delta) (hw : d.wf)
    (hb : (applyDelta sh t now d).2 = true) (k : Int) :
    (k ∈ pubR (applyDelta sh t now d).1 now ↔ k ∈ keys t.items) ∧
    (pubA (applyDelta sh t now d).1 now k = true ↔ k ∈ keys t.items) := by
  have hw' := hw k
  rw [mem_pubR, pubA_iff]
  cases sh with
  | ts => exact absurd rfl hs
  | tss =>
    have hk := keys_foldl_addKey (keys d.sets) (keptItems t d) k
    have h1 := mem_keys_kept t d k
    have h2 := mem_goneKeys t d k
    have ha : k ∈ (applyDelta .tss t now d).1.added ↔
        k ∈ keys ((keys d.sets).foldl addKey (keptItems t d)) ∧ k ∉ keys (keptItems t d) := by
      simp [applyDelta, applyTss, List.mem_filter, hasKey_false_iff]
    have hi : (applyDelta .tss t now d).1.items = (keys d.sets).foldl addKey (keptItems t d) := rfl
    have hr : (applyDelta .tss t now d).1.removed = goneKeys t d := rfl
    have hl : (applyDelta .tss t now d).1.lmt = now := rfl
    rw [ha, hi, hr, hl, hk, h1, h2]
    grind
  | tsd =>
    have hn : tsdNoop t d = false := by
      simp only [applyDelta, applyTsd] at hb
      split at hb <;> simp_all
    have hk := keys_foldl_setKey d.sets (keptItems t d) k
    have h1 := mem_keys_kept t d k
    have h2 := mem_goneKeys t d k
    have ha : k ∈ (applyDelta .tsd t now d).1.added ↔
        k ∈ keys (d.sets.foldl (fun m p => setKey m p.1 p.2) (keptItems t d)) ∧ k ∉ keys (keptItems t d) := by
      simp [applyDelta, applyTsd, hn, List.mem_filter, hasKey_false_iff]
    have hi : (applyDelta .tsd t now d).1.items = d.sets.foldl (fun m p => setKey m p.1 p.2) (keptItems t d) := by
      simp [applyDelta, applyTsd, hn]
    have hr : (applyDelta .tsd t now d).1.removed = goneKeys t d := by simp [applyDelta, applyTsd, hn]
    have hl : (applyDelta .tsd t now d).1.lmt = now := by simp [applyDelta, applyTsd, hn]
    rw [ha, hi, hr, hl, hk, h1, h2]
    grind

/-- `pubR` / `pubA` only look at the data of a target -/
theorem pub_congr {a b : Target} (h : a.data = b.data) (now : Nat) (k : Int) :
    (k ∈ pubR a now ↔ k ∈ pubR b now) ∧ pubA a now k = pubA b now k := by
  obtain ⟨_, h2, h3, h4, h5, _⟩ := Target.data_eq h
  simp [pubR, pubA, h2, h3, h4, h5]

/-- the published keys of the previous target, as the accessors compute them in the retarget cycle,
are the keys it held before this cycle -/
theorem prev_published {s : State} (h : Inv s) (inp : CycleIn) (hs : s.shape ≠ .ts)
    (hw : ∀ t d, inp.ticks t = some d → d.wf) (k : Int) :
    let old : Target := prevTarget (cycleMid s inp) s.ref
    (k ∈ pubR old (s.now + 1) ↔ k ∈ oldKeys s) ∧ (pubA old (s.now + 1) k = true ↔ k ∈ oldKeys s) := by
  cases hr : s.ref with
  | none => simp [oldKeys, hr, prevTarget, pubR, pubA, hasKey, keys]
  | some o =>
    simp only [oldKeys, hr, prevTarget]
    have hd : ((cycleMid s inp).targets o).data = ((afterTicks s inp).targets o).data := by
      rw [cycleMid_eq]; exact select_data _ _ o
    rw [(pub_congr hd _ k).1, (pub_congr hd _ k).2, afterTicks_target]
    have hlt : (s.targets o).lmt ≠ s.now + 1 := by have := h.lmt_le o; omega
    -- a target that does not tick in this cycle: only its live keys are published
    have plain : (k ∈ pubR (s.targets o) (s.now + 1) ↔ k ∈ keys (s.targets o).items) ∧
        (pubA (s.targets o) (s.now + 1) k = true ↔ k ∈ keys (s.targets o).items) := by
      rw [mem_pubR, pubA_iff]
      simp [hlt]
    by_cases hon : o < s.nT
    · rw [if_pos hon]
      cases hd' : inp.ticks o with
      | none => simp only [tickedTarget]; exact plain
      | some d =>
        simp only [tickedTarget]
        cases hb : (applyDelta s.shape (s.targets o) (s.now + 1) d).2
        · rw [applyDelta_not_ticked _ _ _ _ hb]; exact plain
        · exact applyDelta_keys_spec s.shape hs _ _ d (hw o d hd') hb k
    · rw [if_neg hon]; exact plain

/-- **ref_retarget_samples_keyed** (`RetargetKeyedFull`): for sets and dictionaries, in the cycle of a
retarget to a valid target, the key accessors report exactly the difference between the contents of the
previously selected target (as of the end of the previous cycle) and the contents of the new one, and
every live entry of the new target is sampled as modified - for every reachable state and every cycle
input, whatever the old target did earlier (removals in earlier cycles included). -/
theorem ref_retarget_samples_keyed : RetargetKeyedFull := by
  intro s inp i c v h hs hw hsel hne hv hcv
  obtain ⟨hc, rfl⟩ := mem_obs.mp hcv
  have fm := cycleMid_frame s inp
  have f := afterTicks_frame s inp
  have hcl : c < s.nC := by have := (mem_evaluated.mp hc).1; omega
  replace hv : ((afterTicks s inp).targets i).valid = true := by
    have : ((cycleMid s inp).targets i).valid = true := hv
    rwa [cycleMid_eq, (Target.data_eq (select_data _ _ i)).1] at this
  have hpub : publishes (afterTicks s inp) c i = true := by
    unfold publishes; simp only [hv]; split <;> simp
  have hb : ((afterTicks s inp).links c).bound ≠ some i := by
    rw [(afterTicks_link s inp c).1, h.bound_ref c hcl]; exact hne
  obtain ⟨hlink, _⟩ := retarget_link h inp hsel hne hcl
  obtain ⟨lb, _, lp, lt⟩ := retargetOne_link_publish hb hpub
  rw [← hlink] at lb lp lt
  have hk : (s.shape != Shape.ts) = true := by simpa using hs
  rw [f.1, hk, if_pos rfl] at lp lt
  rw [(afterTicks_link s inp c).1, h.bound_ref c hcl] at lp
  rw [f.2.2.2.1, ← fm.2.2.2] at lt
  have hsm : (cycleMid s inp).shape ≠ .ts := by rw [fm.1]; exact hs
  obtain ⟨_, va, vr, vm⟩ := view_trans lb hsm lt
  rw [lp, fm.2.2.2] at va vr
  have key := fun k => prev_published h inp hs hw k
  show (∀ k, k ∈ (view (cycleMid s inp) c).added ↔ k ∈ keys ((cycleMid s inp).targets i).items ∧ k ∉ oldKeys s) ∧
    (∀ k, k ∈ (view (cycleMid s inp) c).removed ↔ k ∈ oldKeys s ∧ k ∉ keys ((cycleMid s inp).targets i).items) ∧
    (view (cycleMid s inp) c).modk = ((cycleMid s inp).targets i).items
  refine ⟨fun k => ?_, fun k => ?_, vm⟩
  · rw [va, List.mem_filter]
    have := (key k).2
    simp only [Bool.not_eq_true', ← Bool.not_eq_true, this]
  · rw [vr, List.mem_filter, (key k).1]
    simp [hasKey_false_iff]

/-! ### `delta_value()` is not the sampled difference (finding C13-A) -/

theorem reach_run {cfg : Cfg} {s : State} (h : Reach cfg s) (is : List CycleIn) : Reach cfg (run s is).1 := by
  induction is generalizing s with
  | nil => exact h
  | cons i is ih => exact ih (Reach.step i h)

/-- a delta for one target only -/
def only (t : Nat) (d : Delta) : Nat → Option Delta := fun u => if u = t then some d else none

def cfgTss : Cfg := { shape := .tss, nC := 1, nT := 2 }

/-- history of the former finding C13-B: `a = {1,2}` selected; `a` removes 2; `b = {5}`; an idle cycle -/
def histB : List CycleIn :=
  [ { sel := some 0, ticks := only 0 { sets := [(1, 0), (2, 0)] } },
    { ticks := only 0 { dels := [2] } },
    { ticks := only 1 { sets := [(5, 0)] } },
    {} ]

def stB : State := (run (init cfgTss) histB).1

/-- the replay of the former finding C13-B now reads what the theorem says: retargeting from `a = {1}`
(which removed 2 three cycles earlier) to `b = {5}` reports `+5 -1`, not `-2` -/
example : (view (cycleMid stB { sel := some 1 }) 0).added = [5] ∧
    (view (cycleMid stB { sel := some 1 }) 0).removed = [1] := by decide

/-- "`delta_value()` read through a reference in a retarget cycle is the reported difference" -/
def DeltaValueIsDifference : Prop :=
  ∀ (s : State) (inp : CycleIn) (i c : Nat) (v : View), Inv s → s.shape ≠ .ts →
    inp.sel = some i → s.ref ≠ some i → ((cycle s inp).1.targets i).valid = true →
    (c, v) ∈ (cycle s inp).2 → v.dv = some (v.added, v.removed, v.modk)

/-- state after one cycle: `a = {1,2}` selected, `b = {2,3}` -/
def stA : State :=
  (run (init cfgTss) [ { sel := some 0, ticks := fun u => if u = 0 then some { sets := [(1, 0), (2, 0)] }
                                                           else some { sets := [(2, 0), (3, 0)] } } ]).1

/-- **finding C13-A in the model** (as in the code): in a pure retarget cycle `delta_value()` of a set has no
value although the key accessors report `+3 -1`. -/
theorem ref_delta_value_keyed_refuted : ¬ DeltaValueIsDifference := by
  intro h
  have hr : Reach cfgTss stA := reach_run Reach.init _
  have hobs : (0, view (cycleMid stA { sel := some 1 }) 0) ∈ (cycle stA { sel := some 1 }).2 :=
    mem_obs.mpr ⟨mem_evaluated.mpr ⟨by decide, by decide, Or.inr (by decide)⟩, rfl⟩
  have := h stA { sel := some 1 } 1 0 _ (ref_subscription_inv hr) (by decide) rfl (by decide) (by decide) hobs
  exact absurd this (by decide)

/-! ### non-vacuity: concrete states meeting the hypotheses -/

/-- a reachable state with a selected valid target, an unselected one that ticks, and no selector tick:
the hypotheses of `ref_unselected_silent` hold and the unselected target really ticks -/
example : ∃ s inp, Reach cfgTss s ∧ s.sched = [] ∧ s.ref = some 0 ∧ (inp.sel = none ∨ inp.sel = s.ref) ∧
    (∀ t, s.ref = some t → inp.ticks t = none) ∧
    ((cycle s inp).1.targets 1).lmt = (cycle s inp).1.now ∧ (cycle s inp).2 = [] :=
  ⟨stA, { ticks := only 1 { sets := [(9, 0)] } }, reach_run Reach.init _, rfl, by decide, Or.inl rfl,
    by intro t e
       have h0 : stA.ref = some 0 := by decide
       rw [h0] at e; cases e; rfl,
    by decide, by decide⟩

/-- the hypotheses of `ref_retarget_samples_keyed` (retarget to a valid target, well-formed deltas) are met
by a concrete cycle in which the old target - still holding a pending-erase slot of an older cycle - and the
new target tick together with the retarget -/
example : ∃ s inp, Reach cfgTss s ∧ s.shape ≠ .ts ∧ (∀ t d, inp.ticks t = some d → d.wf) ∧
    (s.targets 0).removed ≠ [] ∧ inp.sel = some 1 ∧ s.ref ≠ some 1 ∧
    ((cycle s inp).1.targets 1).valid = true ∧ (cycle s inp).2.length = 1 := by
  refine ⟨stB, { sel := some 1, ticks := fun u => if u = 0 then some { sets := [(7, 0)], dels := [1] }
                                                   else some { dels := [5] } },
    reach_run Reach.init _, by decide, ?_, by decide, rfl, by decide, by decide, by decide⟩
  intro t d e k hk
  by_cases ht : t = 0
  · subst ht; simp at e; subst e; simp at hk; subst hk; decide
  · simp [ht] at e; subst e; simp at hk; subst hk; decide

end HgVerif.RefLink
