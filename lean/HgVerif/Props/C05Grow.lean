import HgVerif.Props.C05
import HgVerif.Model.SlotsGrow
/-!
# C05 — growth of the slot table at any point of a cycle (both slot-table representations)

Model: `Model/SlotsGrow.lean` on top of `Model/Slots.lean`.  `Model/Slots.lean` keeps one state per slot and grows by
appending free slots — literally the tagged-pointer table (int64 / str / double / datetime keys).  For narrow key types
(bool, int8/16/32, uint*, float, date) `StableSlotStore` uses `BitmapStableSlotStoreImpl`, which stores the lifecycle
in two planes (`constructed_`, `live_`, `SlotBitmap`s copied word-wise by `resized_bitmap_copy`) and must carry both
across a growth step.  Growth happens inside `insert` when the free list is empty (`acquire_free_slot`), i.e. exactly
when constructed keys = capacity (8, 16, 32, ...) — also while removals of the same cycle are pending erase — and
through `TSS/TSDDataMutationView::reserve` at any time.

Planes (bitmap representation)
* `resizedBitmapCopy_test`, `resizedBitmapCopy_wf` : for EVERY well-formed bitmap and every larger size the word-wise
                              copy answers `test` like its source at every index (needs `clear_unused_bits`).
* `planes_growth_preserves_states`, `planes_growth_preserves_live_and_pending` : **growth preserves the live set and
                              the pending-erase set, for every state** of the planes; new slots are free.
* `planes_growth_refines`   : the planes' `reserve_to` implements `Store.reserveTo` of `Model/Slots.lean`
                              (`Planes.Abs`), so every theorem about the one-state-per-slot model carries over;
  `Planes.markPending_abs`, `Planes.markLive_abs`, `Planes.construct_abs`, `Planes.markFree_abs` : so do the other
                              lifecycle primitives `KeySlotStore` uses (remove, resurrect, construct, physical erase);
  `Planes.Abs_ofSlots`      : every slot list has well-formed planes (hypotheses satisfiable in every state).
* `planes_growth_s83_states`, `planes_growth_s83_refines`, `planes_growth_s83_resurrects` : the seeded rule s83
                              (live plane := constructed plane) turns every pending-erase slot live; concrete state.

TSS / TSD with growth anywhere (`SetOpG` / `DictOpG`: an operation or a `reserve`)
* `TSS.reserve_observables`, `TSD.reserve_observables` : growth changes no observable (value, raw delta bits, times).
* `TSS.reserve_inv`, `TSD.reserve_inv`, `TSD.reserve_vinv` : **growth preserves the delta-coherence invariants in
                              every state** (pending-erase slots or not).
* `tssg_inv_reachable`, `tsdg_inv_reachable` : the invariants hold after EVERY history of operations and reserves.
* `tssg_tick_coherent`      : **value(t) = value(t-1) − removed + added**, added/removed disjoint, added present and
                              previously absent, removed absent and previously present, `size()` = number of iterated
                              elements, `contains()` ⇔ iterated — for every history, growth at any point of any cycle.
* `tsdg_tick_coherent`      : the same for TSD at value level (lookup of every key) and key level, for every history
                              with non-decreasing times.  `tsd_value_delta_state` is its per-state core.
* `tss_size_contains`, `tsd_size_contains` : `size()` / `contains()` against iteration in every well-formed state.
* `tss_s83_incoherent`      : kernel-checked counter-witness: with the seeded growth rule the history
                              `add 0..7 | rem 3, add 9` ends with 3 both in the value and in `removed()` and
                              `size() = 8` for 9 iterated elements; `s83_history_coherent_as_coded` shows the same
                              history on the model as coded.
-/
namespace HgVerif.Slots
local notation "Time" => Nat

/-! ## `SlotBitmap` and `resized_bitmap_copy` -/

/-- representation invariant of `SlotBitmap`: whole words, unused bits of the last word cleared -/
structure Bitmap.WF (b : Bitmap) : Prop where
  len : b.bits.length = 64 * wordsFor b.bitCount
  unused : ∀ i, b.bitCount ≤ i → b.bits.getD i false = false

theorem le_wordsFor (n : Nat) : n ≤ 64 * wordsFor n := by unfold wordsFor; omega

theorem wordsFor_mono {a b : Nat} (h : a ≤ b) : wordsFor a ≤ wordsFor b := by
  unfold wordsFor; exact Nat.div_le_div_right (by omega)

theorem Bitmap.WF_empty : Bitmap.WF {} := ⟨by simp [wordsFor], by simp⟩

theorem getElem?_replicate_false_getD (n i : Nat) : ((List.replicate n false)[i]?).getD false = false := by
  rw [List.getElem?_replicate]; split <;> rfl

theorem Bitmap.WF_zeros (size : Nat) : (Bitmap.zeros size).WF := by
  refine ⟨by simp [Bitmap.zeros], ?_⟩
  intro i _
  simp only [Bitmap.zeros, List.getD_eq_getElem?_getD]
  exact getElem?_replicate_false_getD _ _

theorem getD_set_bool (l : List Bool) (i j : Nat) (v : Bool) :
    (l.set i v).getD j false = if i = j ∧ j < l.length then v else l.getD j false := by
  simp only [List.getD_eq_getElem?_getD, List.getElem?_set]
  by_cases hij : i = j
  · subst hij
    by_cases hl : i < l.length
    · simp [hl]
    · simp [hl]
  · simp [hij]

theorem Bitmap.test_set {b : Bitmap} (i j : Nat) (h : b.WF) :
    (b.set i).test j = if i = j ∧ j < b.bitCount then true else b.test j := by
  unfold Bitmap.set Bitmap.test
  have := le_wordsFor b.bitCount
  by_cases hi : i < b.bitCount
  · simp only [hi, ↓reduceIte, getD_set_bool]
    by_cases hij : i = j
    · subst hij; simp [hi, h.len]; omega
    · simp [hij]
  · simp only [hi, ↓reduceIte]
    by_cases hij : i = j
    · subst hij; simp [hi]
    · simp [hij]

theorem Bitmap.test_reset {b : Bitmap} (i j : Nat) (h : b.WF) :
    (b.reset i).test j = if i = j then false else b.test j := by
  unfold Bitmap.reset Bitmap.test
  have := le_wordsFor b.bitCount
  by_cases hi : i < b.bitCount
  · simp only [hi, ↓reduceIte, getD_set_bool]
    by_cases hij : i = j
    · subst hij; simp [hi, h.len]; omega
    · simp [hij]
  · simp only [hi, ↓reduceIte]
    by_cases hij : i = j
    · subst hij; simp [hi]
    · simp [hij]

theorem Bitmap.WF_set {b : Bitmap} (h : b.WF) (i : Nat) : (b.set i).WF := by
  unfold Bitmap.set
  by_cases hi : i < b.bitCount
  · simp only [hi, ↓reduceIte]
    refine ⟨by simp [h.len], ?_⟩
    intro j hj
    rw [getD_set_bool]
    have : ¬ (i = j ∧ j < b.bits.length) := by intro ⟨e, _⟩; simp at hj; omega
    simp only [this, ↓reduceIte]
    exact h.unused j hj
  · simpa [hi] using h

theorem Bitmap.WF_reset {b : Bitmap} (h : b.WF) (i : Nat) : (b.reset i).WF := by
  unfold Bitmap.reset
  by_cases hi : i < b.bitCount
  · simp only [hi, ↓reduceIte]
    refine ⟨by simp [h.len], ?_⟩
    intro j hj
    rw [getD_set_bool]
    split
    · rfl
    · exact h.unused j hj
  · simpa [hi] using h

@[simp] theorem Bitmap.bitCount_set (b : Bitmap) (i : Nat) : (b.set i).bitCount = b.bitCount := by
  unfold Bitmap.set; split <;> rfl
@[simp] theorem Bitmap.bitCount_reset (b : Bitmap) (i : Nat) : (b.reset i).bitCount = b.bitCount := by
  unfold Bitmap.reset; split <;> rfl

/-- the bits of a grown copy: the source's physical bits followed by zeros -/
theorem resizedBitmapCopy_bits {src : Bitmap} (h : src.WF) {size : Nat} (hs : src.bitCount ≤ size) :
    (resizedBitmapCopy src size).bits =
      src.bits ++ List.replicate (64 * wordsFor size - 64 * wordsFor src.bitCount) false ∧
    (resizedBitmapCopy src size).bitCount = size := by
  have hm := wordsFor_mono hs
  unfold resizedBitmapCopy Bitmap.zeros Bitmap.wordCount
  simp only [Nat.min_eq_left hm]
  refine ⟨?_, trivial⟩
  rw [List.take_of_length_le (by rw [h.len]; exact Nat.le_refl _), List.drop_replicate]

/-- **word-wise copy is bit-exact**: a grown copy answers `test` exactly like its source, for EVERY bit index
    (also for the indices between the old and the new size: this is where `clear_unused_bits` is needed) -/
theorem resizedBitmapCopy_test {src : Bitmap} (h : src.WF) {size : Nat} (hs : src.bitCount ≤ size) (i : Nat) :
    (resizedBitmapCopy src size).test i = src.test i := by
  obtain ⟨hb, hc⟩ := resizedBitmapCopy_bits h hs
  unfold Bitmap.test
  rw [hb, hc]
  simp only [List.getD_eq_getElem?_getD]
  by_cases hi : i < src.bits.length
  · rw [List.getElem?_append_left hi]
    by_cases h1 : i < src.bitCount
    · have : i < size := by omega
      simp [h1, this]
    · have hu := h.unused i (Nat.le_of_not_lt h1)
      simp only [List.getD_eq_getElem?_getD] at hu
      simp [h1, hu]
  · rw [List.getElem?_append_right (Nat.le_of_not_lt hi)]
    have h1 : ¬ i < src.bitCount := by
      have := le_wordsFor src.bitCount
      rw [h.len] at hi; omega
    simp [h1, getElem?_replicate_false_getD]

theorem resizedBitmapCopy_wf {src : Bitmap} (h : src.WF) {size : Nat} (hs : src.bitCount ≤ size) :
    (resizedBitmapCopy src size).WF := by
  obtain ⟨hb, hc⟩ := resizedBitmapCopy_bits h hs
  have hm := wordsFor_mono hs
  refine ⟨?_, ?_⟩
  · rw [hb, hc, List.length_append, List.length_replicate, h.len]; omega
  · intro i hi
    rw [hc] at hi
    have := resizedBitmapCopy_test h hs i
    unfold Bitmap.test at this
    rw [hc] at this
    rw [hb] at this ⊢
    simp only [List.getD_eq_getElem?_getD]
    by_cases h1 : i < src.bits.length
    · rw [List.getElem?_append_left h1]
      have hu := h.unused i (by omega)
      simpa [List.getD_eq_getElem?_getD] using hu
    · rw [List.getElem?_append_right (Nat.le_of_not_lt h1)]
      exact getElem?_replicate_false_getD _ _

/-! ## the two planes of `BitmapStableSlotStoreImpl<ConstructedAndLive>` -/

/-- representation invariant of the two planes: both bitmaps well formed and as long as the slot table,
    every live slot is constructed -/
structure Planes.WF (p : Planes) : Prop where
  cwf : p.constructed.WF
  lwf : p.live.WF
  ccount : p.constructed.bitCount = p.slotCount
  lcount : p.live.bitCount = p.slotCount
  sub : ∀ i, p.isLive i = true → p.isConstructed i = true

theorem Planes.WF_empty : Planes.WF {} := by
  refine ⟨Bitmap.WF_empty, Bitmap.WF_empty, rfl, rfl, ?_⟩
  intro i h; simp [Planes.isLive, Bitmap.test] at h

/-- **growth keeps both planes, bit for bit** (`reserve_to` as coded: `next_live` from the LIVE plane) -/
theorem Planes.reserveTo_planes {p : Planes} (h : p.WF) (cap i : Nat) :
    (p.reserveTo cap).isLive i = p.isLive i ∧ (p.reserveTo cap).isConstructed i = p.isConstructed i := by
  unfold Planes.reserveTo
  by_cases hc : cap ≤ p.slotCount
  · simp [hc]
  · simp only [hc, ↓reduceIte, Planes.isLive, Planes.isConstructed]
    exact ⟨resizedBitmapCopy_test h.lwf (by rw [h.lcount]; omega) i,
           resizedBitmapCopy_test h.cwf (by rw [h.ccount]; omega) i⟩

theorem Planes.reserveTo_wf {p : Planes} (h : p.WF) (cap : Nat) : (p.reserveTo cap).WF := by
  have hpl := Planes.reserveTo_planes h cap
  refine ⟨?_, ?_, ?_, ?_, ?_⟩
  · unfold Planes.reserveTo; split
    · exact h.cwf
    · exact resizedBitmapCopy_wf h.cwf (by rw [h.ccount]; omega)
  · unfold Planes.reserveTo; split
    · exact h.lwf
    · exact resizedBitmapCopy_wf h.lwf (by rw [h.lcount]; omega)
  · unfold Planes.reserveTo; split
    · exact h.ccount
    · exact (resizedBitmapCopy_bits h.cwf (by rw [h.ccount]; omega)).2
  · unfold Planes.reserveTo; split
    · exact h.lcount
    · exact (resizedBitmapCopy_bits h.lwf (by rw [h.lcount]; omega)).2
  · intro i hi
    rw [(hpl i).1] at hi; rw [(hpl i).2]; exact h.sub i hi

theorem Planes.slotCount_reserveTo (p : Planes) (cap : Nat) : (p.reserveTo cap).slotCount = max p.slotCount cap := by
  unfold Planes.reserveTo; split
  · omega
  · show cap = max p.slotCount cap; omega

/-- **growth preserves the state of every slot, for every state of the planes**: in particular the set of live
    slots and the set of pending-erase slots are unchanged and every new slot is free -/
theorem planes_growth_preserves_states {p : Planes} (h : p.WF) (cap i : Nat) :
    (p.reserveTo cap).st i = p.st i := by
  obtain ⟨h1, h2⟩ := Planes.reserveTo_planes h cap i
  simp only [Planes.st, h1, h2]

theorem planes_growth_preserves_live_and_pending {p : Planes} (h : p.WF) (cap : Nat) :
    (∀ i, (p.reserveTo cap).st i = .live ↔ p.st i = .live) ∧
    (∀ i, (p.reserveTo cap).st i = .pending ↔ p.st i = .pending) ∧
    (∀ i, p.slotCount ≤ i → (p.reserveTo cap).st i = .free) := by
  refine ⟨fun i => by rw [planes_growth_preserves_states h], fun i => by rw [planes_growth_preserves_states h], ?_⟩
  intro i hi
  rw [planes_growth_preserves_states h]
  have h1 : p.isLive i = false := by
    simp only [Planes.isLive, Bitmap.test, h.lcount]; simp; intro hlt; omega
  have h2 : p.isConstructed i = false := by
    simp only [Planes.isConstructed, Bitmap.test, h.ccount]; simp; intro hlt; omega
  simp [Planes.st, h1, h2]

/-- what the seeded rule s83 does to the states when the table really grows: every pending-erase slot is live
    afterwards -/
theorem planes_growth_s83_states {p : Planes} (h : p.WF) {cap : Nat} (hc : p.slotCount < cap) (i : Nat) :
    (p.reserveToS83 cap).st i = if p.st i = .pending then .live else p.st i := by
  unfold Planes.reserveToS83
  have hn : ¬ cap ≤ p.slotCount := by omega
  have ht := resizedBitmapCopy_test h.cwf (size := cap) (by rw [h.ccount]; omega) i
  simp only [hn, ↓reduceIte, Planes.st, Planes.isLive, Planes.isConstructed, ht]
  have hs := h.sub i
  simp only [Planes.isLive, Planes.isConstructed] at hs
  by_cases hl : p.live.test i = true <;> by_cases hcn : p.constructed.test i = true
  · simp [hl, hcn]
  · exact absurd (hs hl) hcn
  · simp [hl, hcn]
  · simp [hl, hcn]

/-- the planes `p` implement the `st` fields of the slot list `l` of `Model/Slots.lean` -/
structure Planes.Abs (p : Planes) (l : List Slot) : Prop where
  wf : p.WF
  count : p.slotCount = l.length
  st : ∀ i, p.st i = (sget l i).st

theorem Planes.Abs_empty : Planes.Abs {} [] := by
  refine ⟨Planes.WF_empty, rfl, ?_⟩
  intro i; simp [Planes.st, Planes.isLive, Planes.isConstructed, Bitmap.test]

/-- **the growth step of the planes implements `Store.reserveTo`** (the growth step of `Model/Slots.lean`, which
    `Store.acquireFree` — an insert that finds the free list empty — and the explicit `reserve` share) -/
theorem planes_growth_refines {p : Planes} {s : Store} (h : p.Abs s.slots) (cap : Nat) :
    (p.reserveTo cap).Abs (s.reserveTo cap).slots := by
  refine ⟨Planes.reserveTo_wf h.wf cap, ?_, ?_⟩
  · rw [Planes.slotCount_reserveTo, h.count]
    unfold Store.reserveTo; split
    · omega
    · simp; omega
  · intro i
    rw [planes_growth_preserves_states h.wf, h.st]
    unfold Store.reserveTo; split
    · rfl
    · simp only [sget_append_replicate]

/-- payload updates of a slot (key bits, child) that keep `st` keep the abstraction -/
theorem Planes.Abs_of_same_st {p : Planes} {l l' : List Slot} (h : p.Abs l) (hl : l'.length = l.length)
    (hs : ∀ i, (sget l' i).st = (sget l i).st) : p.Abs l' :=
  ⟨h.wf, by rw [h.count, hl], fun i => by rw [h.st, hs]⟩

theorem Planes.lt_of_st {p : Planes} (h : p.WF) {i : Nat} (hs : p.st i ≠ .free) : i < p.slotCount := by
  by_cases hi : i < p.slotCount
  · exact hi
  · exfalso; apply hs
    have := (planes_growth_preserves_live_and_pending h 0).2.2 i (Nat.le_of_not_lt hi)
    rwa [planes_growth_preserves_states h] at this

/-! ### the lifecycle primitives `KeySlotStore` uses, on the planes -/

theorem Planes.st_eq_live {p : Planes} {i : Nat} : p.st i = .live ↔ p.isLive i = true := by
  unfold Planes.st
  by_cases h1 : p.isLive i = true <;> by_cases h2 : p.isConstructed i = true <;> simp [h1, h2]

theorem Planes.st_eq_pending {p : Planes} {i : Nat} :
    p.st i = .pending ↔ p.isLive i = false ∧ p.isConstructed i = true := by
  unfold Planes.st
  by_cases h1 : p.isLive i = true <;> by_cases h2 : p.isConstructed i = true <;> simp [h1, h2]

theorem Planes.st_eq_free {p : Planes} (h : p.WF) {i : Nat} : p.st i = .free ↔ p.isConstructed i = false := by
  unfold Planes.st
  have := h.sub i
  by_cases h1 : p.isLive i = true <;> by_cases h2 : p.isConstructed i = true <;> simp_all

/-- `remove_slot`: `mark_pending_erase` of a live slot -/
theorem Planes.markPending_abs {p : Planes} {l : List Slot} (h : p.Abs l) {i : Nat} (hl : (sget l i).st = .live) :
    (p.markPending i).2 = true ∧ (p.markPending i).1.Abs (l.modify i (fun x => { x with st := .pending })) := by
  have hil : i < l.length := lt_of_st_ne_free (by rw [hl]; decide)
  have hlive : p.isLive i = true := Planes.st_eq_live.mp (by rw [h.st, hl])
  have hcon : p.isConstructed i = true := h.wf.sub i hlive
  unfold Planes.markPending
  simp only [hlive, Bool.not_true, Bool.false_eq_true, ↓reduceIte, true_and]
  refine ⟨⟨h.wf.cwf, Bitmap.WF_reset h.wf.lwf i, h.wf.ccount, by simp [h.wf.lcount], ?_⟩, by simp [h.count], ?_⟩
  · intro j hj
    simp only [Planes.isLive, Bitmap.test_reset i j h.wf.lwf] at hj
    by_cases hij : i = j
    · simp [hij] at hj
    · simp only [hij, ↓reduceIte] at hj; exact h.wf.sub j hj
  · intro j
    rw [sget_modify]
    by_cases hij : i = j
    · subst hij
      simp only [hil, and_self, ↓reduceIte]
      apply Planes.st_eq_pending.mpr
      simp only [Planes.isLive, Planes.isConstructed, Bitmap.test_reset i i h.wf.lwf, ↓reduceIte, true_and]
      exact hcon
    · have : ¬ (i = j ∧ j < l.length) := fun ⟨e, _⟩ => hij e
      simp only [this, ↓reduceIte]
      rw [← h.st j]
      simp [Planes.st, Planes.isLive, Planes.isConstructed, Bitmap.test_reset i j h.wf.lwf, hij]
      try rfl

/-- `reuse_existing_slot`: `mark_live` of a pending-erase slot -/
theorem Planes.markLive_abs {p : Planes} {l : List Slot} (h : p.Abs l) {i : Nat} (hp : (sget l i).st = .pending) :
    (p.markLive i).2 = true ∧ (p.markLive i).1.Abs (l.modify i (fun x => { x with st := .live })) := by
  have hil : i < l.length := lt_of_st_ne_free (by rw [hp]; decide)
  obtain ⟨hlive, hcon⟩ := Planes.st_eq_pending.mp (by rw [h.st, hp])
  have hic : i < p.slotCount := by rw [h.count]; exact hil
  unfold Planes.markLive
  simp only [hlive, hcon, Bool.not_true, Bool.or_self, Bool.false_eq_true, ↓reduceIte, true_and]
  refine ⟨⟨Bitmap.WF_set h.wf.cwf i, Bitmap.WF_set h.wf.lwf i, by simp [h.wf.ccount], by simp [h.wf.lcount], ?_⟩,
    by simp [h.count], ?_⟩
  · intro j hj
    simp only [Planes.isLive, Planes.isConstructed, Bitmap.test_set i j h.wf.lwf, Bitmap.test_set i j h.wf.cwf] at hj ⊢
    by_cases hij : i = j ∧ j < p.live.bitCount
    · have : i = j ∧ j < p.constructed.bitCount := ⟨hij.1, by rw [h.wf.ccount, ← h.wf.lcount]; exact hij.2⟩
      simp [this]
    · simp only [hij, ↓reduceIte] at hj
      have := h.wf.sub j hj
      simp only [Planes.isConstructed] at this
      split
      · rfl
      · exact this
  · intro j
    rw [sget_modify]
    by_cases hij : i = j
    · subst hij
      simp only [hil, and_self, ↓reduceIte]
      apply Planes.st_eq_live.mpr
      simp only [Planes.isLive, Bitmap.test_set i i h.wf.lwf, h.wf.lcount, hic, and_self, ↓reduceIte]
    · have h1 : ¬ (i = j ∧ j < l.length) := fun ⟨e, _⟩ => hij e
      have h2 : ¬ (i = j ∧ j < p.live.bitCount) := fun ⟨e, _⟩ => hij e
      have h3 : ¬ (i = j ∧ j < p.constructed.bitCount) := fun ⟨e, _⟩ => hij e
      simp only [h1, ↓reduceIte]
      rw [← h.st j]
      simp [Planes.st, Planes.isLive, Planes.isConstructed, Bitmap.test_set i j h.wf.lwf,
        Bitmap.test_set i j h.wf.cwf, h2, h3]
      try rfl

/-- `erase_pending`: `mark_free` of a slot -/
theorem Planes.markFree_abs {p : Planes} {l : List Slot} (h : p.Abs l) (i : Nat) :
    (p.markFree i).Abs (l.modify i (fun x => { x with st := .free })) := by
  unfold Planes.markFree
  refine ⟨⟨Bitmap.WF_reset h.wf.cwf i, Bitmap.WF_reset h.wf.lwf i, by simp [h.wf.ccount], by simp [h.wf.lcount], ?_⟩,
    by simp [h.count], ?_⟩
  · intro j hj
    simp only [Planes.isLive, Planes.isConstructed, Bitmap.test_reset i j h.wf.lwf, Bitmap.test_reset i j h.wf.cwf] at hj ⊢
    by_cases hij : i = j
    · simp [hij] at hj
    · simp only [hij, ↓reduceIte] at hj ⊢; exact h.wf.sub j hj
  · intro j
    rw [sget_modify]
    by_cases hij : i = j
    · subst hij
      by_cases hil : i < l.length
      · simp only [hil, and_self, ↓reduceIte, Planes.st, Planes.isLive, Planes.isConstructed,
          Bitmap.test_reset i i h.wf.lwf, Bitmap.test_reset i i h.wf.cwf, Bool.false_eq_true]
      · simp only [hil, and_false, ↓reduceIte, Planes.st, Planes.isLive, Planes.isConstructed,
          Bitmap.test_reset i i h.wf.lwf, Bitmap.test_reset i i h.wf.cwf, Bool.false_eq_true]
        rw [sget_of_le (Nat.le_of_not_lt hil)]
    · have h1 : ¬ (i = j ∧ j < l.length) := fun ⟨e, _⟩ => hij e
      simp only [h1, ↓reduceIte]
      rw [← h.st j]
      simp [Planes.st, Planes.isLive, Planes.isConstructed, Bitmap.test_reset i j h.wf.lwf,
        Bitmap.test_reset i j h.wf.cwf, hij]
      try rfl

/-- construction of a key in a free slot: `mark_staged` (constructed, not live — indistinguishable from pending
    erase on the planes) followed by `mark_live` -/
theorem Planes.construct_abs {p : Planes} {l : List Slot} (h : p.Abs l) {i : Nat} (hi : i < l.length)
    (f : Slot → Slot) (hf : ∀ x, (f x).st = .live) :
    ((p.markStaged i).markLive i).2 = true ∧ ((p.markStaged i).markLive i).1.Abs (l.modify i f) := by
  -- staged = the slot list with `st := .pending` at `i`
  have hic : i < p.slotCount := by rw [h.count]; exact hi
  have hst : (p.markStaged i).Abs (l.modify i (fun x => { x with st := .pending })) := by
    unfold Planes.markStaged
    refine ⟨⟨Bitmap.WF_set h.wf.cwf i, Bitmap.WF_reset h.wf.lwf i, by simp [h.wf.ccount], by simp [h.wf.lcount], ?_⟩,
      by simp [h.count], ?_⟩
    · intro j hj
      simp only [Planes.isLive, Planes.isConstructed, Bitmap.test_reset i j h.wf.lwf, Bitmap.test_set i j h.wf.cwf] at hj ⊢
      by_cases hij : i = j
      · simp [hij] at hj
      · simp only [hij, ↓reduceIte] at hj
        have h3 : ¬ (i = j ∧ j < p.constructed.bitCount) := fun ⟨e, _⟩ => hij e
        simp only [h3, ↓reduceIte]; exact h.wf.sub j hj
    · intro j
      rw [sget_modify]
      by_cases hij : i = j
      · subst hij
        simp only [hi, and_self, ↓reduceIte]
        apply Planes.st_eq_pending.mpr
        simp only [Planes.isLive, Planes.isConstructed, Bitmap.test_reset i i h.wf.lwf, Bitmap.test_set i i h.wf.cwf,
          h.wf.ccount, hic, and_self, ↓reduceIte]
      · have h1 : ¬ (i = j ∧ j < l.length) := fun ⟨e, _⟩ => hij e
        have h3 : ¬ (i = j ∧ j < p.constructed.bitCount) := fun ⟨e, _⟩ => hij e
        simp only [h1, ↓reduceIte]
        rw [← h.st j]
        simp [Planes.st, Planes.isLive, Planes.isConstructed, Bitmap.test_reset i j h.wf.lwf,
          Bitmap.test_set i j h.wf.cwf, hij]
        try rfl
  have hpend : (sget (l.modify i (fun x => { x with st := .pending })) i).st = .pending := by
    rw [sget_modify_self _ hi]
  obtain ⟨r1, r2⟩ := Planes.markLive_abs hst hpend
  refine ⟨r1, Planes.Abs_of_same_st r2 (by simp) ?_⟩
  intro j
  simp only [sget_modify, List.length_modify]
  by_cases hij : i = j
  · subst hij; simp [hi, hf]
  · have h1 : ¬ (i = j ∧ j < l.length) := fun ⟨e, _⟩ => hij e
    simp [h1]

/-- the seeded growth rule in terms of `Model/Slots.lean`: `Planes.reserveToS83` implements `Store.reserveToS83`
    (every pending-erase slot is live after a growth step) -/
theorem planes_growth_s83_refines {p : Planes} {s : Store} (h : p.Abs s.slots) (cap : Nat) :
    ∀ i, (p.reserveToS83 cap).st i = (sget (s.reserveToS83 cap).slots i).st := by
  intro i
  by_cases hc : cap ≤ s.slots.length
  · have hc' : cap ≤ p.slotCount := by rw [h.count]; exact hc
    simp only [Planes.reserveToS83, Store.reserveToS83, hc, hc', ↓reduceIte]; exact h.st i
  · rw [planes_growth_s83_states h.wf (by rw [h.count]; omega)]
    simp only [Store.reserveToS83, hc, ↓reduceIte]
    rw [h.st i]
    by_cases hi : i < s.slots.length
    · have e : sget (s.slots.map resurrect ++ List.replicate (cap - s.slots.length) ({} : Slot)) i = resurrect (sget s.slots i) := by
        unfold sget
        simp only [List.getD_eq_getElem?_getD]
        rw [List.getElem?_append_left (by simpa using hi)]
        simp [List.getElem?_map, List.getElem?_eq_getElem hi]
      rw [e]
      unfold resurrect
      by_cases hp : (sget s.slots i).st = .pending <;> simp [hp]
    · have e : sget (s.slots.map resurrect ++ List.replicate (cap - s.slots.length) ({} : Slot)) i = {} := by
        unfold sget
        simp only [List.getD_eq_getElem?_getD]
        rw [List.getElem?_append_right (by simpa using Nat.le_of_not_lt hi)]
        rw [List.getElem?_replicate]; split <;> rfl
      rw [e, sget_of_le (Nat.le_of_not_lt hi)]
      rfl

/-! ## growth in the middle of TSS / TSD histories -/

theorem filter_append_replicate_default {p : Slot → Bool} (hp : p ({} : Slot) = false) (l : List Slot) (n : Nat) :
    (l ++ List.replicate n ({} : Slot)).filter p = l.filter p := by
  rw [List.filter_append, List.filter_replicate]
  simp [hp]

theorem Store.reserveTo_slots (s : Store) (cap : Nat) :
    ∃ n, (s.reserveTo cap).slots = s.slots ++ List.replicate n ({} : Slot) := by
  unfold Store.reserveTo; split
  · exact ⟨0, by simp⟩
  · exact ⟨_, rfl⟩

/-- every reader of the slot list that skips default slots is blind to growth -/
theorem Store.reserveTo_filter {p : Slot → Bool} (hp : p ({} : Slot) = false) (s : Store) (cap : Nat) :
    (s.reserveTo cap).slots.filter p = s.slots.filter p := by
  obtain ⟨n, hn⟩ := Store.reserveTo_slots s cap
  rw [hn, filter_append_replicate_default hp]

/-- **growth is unobservable (TSS)**: value, raw delta bits, `size()`, the window and the tick time are
    literally unchanged by `reserve`, at any point of a cycle -/
theorem TSS.reserve_observables (x : TSS) (cap : Nat) :
    (x.reserve cap).value = x.value ∧
    addedKeysRaw (x.reserve cap).keys.slots = addedKeysRaw x.keys.slots ∧
    removedKeysRaw (x.reserve cap).keys.slots = removedKeysRaw x.keys.slots ∧
    (x.reserve cap).deltaTime = x.deltaTime ∧ (x.reserve cap).lmt = x.lmt := by
  refine ⟨?_, ?_, ?_, rfl, rfl⟩
  · simp only [TSS.value, liveKeys, TSS.reserve]; rw [Store.reserveTo_filter (by rfl)]
  · simp only [addedKeysRaw, TSS.reserve]; rw [Store.reserveTo_filter (by rfl)]
  · simp only [removedKeysRaw, TSS.reserve]; rw [Store.reserveTo_filter (by rfl)]

/-- **growth preserves the delta-coherence invariant (TSS)**, whatever the state (pending-erase slots or not) -/
theorem TSS.reserve_inv {x : TSS} {V0 : List Key} (h : x.Inv V0) (cap : Nat) : (x.reserve cap).Inv V0 := by
  obtain ⟨hwf, hget, _⟩ := Store.reserveTo_spec h.wf cap
  refine ⟨hwf, ?_, ?_⟩
  · intro i; simp only [TSS.reserve]; rw [hget i]; exact h.slot i
  · intro k hk
    obtain ⟨i, h1, h2⟩ := h.cover k hk
    exact ⟨i, by simp only [TSS.reserve]; rw [hget i]; exact h1, by simp only [TSS.reserve]; rw [hget i]; exact h2⟩

/-- the window-start value after one operation of an extended history -/
def TSS.ghostG (x : TSS) (V0 : List Key) : SetOpG → List Key
  | .op o => x.ghost V0 o.time
  | .reserve _ _ => V0

theorem TSS.stepG_inv {x : TSS} {V0 : List Key} (h : x.Inv V0) (o : SetOpG) : (x.stepG o).Inv (x.ghostG V0 o) := by
  cases o with
  | op o => exact (TSS.step_inv h o).1
  | reserve t cap =>
    simp only [TSS.stepG, TSS.ghostG]
    split
    · exact h
    · exact TSS.reserve_inv h cap

structure GSetG where
  x : TSS := {}
  v0 : List Key := []

def GSetG.step (g : GSetG) (o : SetOpG) : GSetG := { x := g.x.stepG o, v0 := g.x.ghostG g.v0 o }
def GSetG.run (ops : List SetOpG) : GSetG := ops.foldl GSetG.step {}

theorem GSetG.run_x (ops : List SetOpG) : (GSetG.run ops).x = TSS.runG {} ops := by
  have : ∀ (g : GSetG), (ops.foldl GSetG.step g).x = TSS.runG g.x ops := by
    induction ops with
    | nil => intro g; rfl
    | cons o rest ih => intro g; simp only [List.foldl_cons, TSS.runG]; exact ih _
  exact this {}

/-- **the invariant is reachable with growth anywhere**: for EVERY history of operations and `reserve` calls (any
    times, any capacities, growth forced by inserts included) the reached state satisfies `TSS.Inv` relative to
    the window-start value -/
theorem tssg_inv_reachable (ops : List SetOpG) : (GSetG.run ops).x.Inv (GSetG.run ops).v0 := by
  have : ∀ (g : GSetG), g.x.Inv g.v0 → (ops.foldl GSetG.step g).x.Inv (ops.foldl GSetG.step g).v0 := by
    induction ops with
    | nil => intro g h; exact h
    | cons o rest ih => intro g h; simp only [List.foldl_cons]; exact ih _ (TSS.stepG_inv h o)
  exact this {} TSS.Inv_empty

/-- `size()` is the number of elements that can be iterated, `contains()` agrees with iteration -/
theorem tss_size_contains {x : TSS} (h : x.keys.WF) :
    x.keys.size = x.value.length ∧ ∀ k, x.contains k = true ↔ k ∈ x.value := by
  constructor
  · rw [h.size_eq]
    simp only [TSS.value, liveKeys, List.length_map, nlive, List.countP_eq_length_filter]
    rfl
  · intro k
    simp only [TSS.contains, TSS.value, mem_liveKeys]
    constructor
    · intro hc
      cases hf : findLive x.keys.slots k with
      | none => simp [hf] at hc
      | some i => exact ⟨i, findLive_some hf⟩
    · rintro ⟨i, hl, hk⟩
      cases hf : findLive x.keys.slots k with
      | none => exact absurd hk (findLive_none hf h.uniq i hl)
      | some j => rfl

/-- a cycle at time `T` seen from the value `W` at the previous tick: either no operation of the cycle has run
    yet (only growth steps), or the delta window of the cycle is open and its ghost is `W` -/
def TSS.InCycle (x : TSS) (T : Time) (W : List Key) : Prop :=
  (∃ V, x.Inv V) ∧
  ((x.deltaTime < T ∧ x.lmt < T ∧ x.value = W) ∨ (x.Inv W ∧ x.deltaTime = T ∧ x.lmt = T))

theorem TSS.stepG_inCycle {x : TSS} {T : Time} {W : List Key} (h : x.InCycle T W) (hT : T ≠ 0) {o : SetOpG}
    (ho : o.time = T) : (x.stepG o).InCycle T W := by
  obtain ⟨⟨V, hV⟩, hph⟩ := h
  refine ⟨⟨_, TSS.stepG_inv hV o⟩, ?_⟩
  cases o with
  | reserve t cap =>
    have ht : (t == 0) = false := by
      simp only [SetOpG.time] at ho; subst ho; simpa using hT
    simp only [TSS.stepG, ht, Bool.false_eq_true, ↓reduceIte]
    obtain ⟨e1, _, _, e4, e5⟩ := TSS.reserve_observables x cap
    rcases hph with ⟨h1, h2, h3⟩ | ⟨h1, h2, h3⟩
    · exact Or.inl ⟨by rw [e4]; exact h1, by rw [e5]; exact h2, by rw [e1]; exact h3⟩
    · exact Or.inr ⟨TSS.reserve_inv h1 cap, by rw [e4]; exact h2, by rw [e5]; exact h3⟩
  | op o =>
    simp only [SetOpG.time] at ho
    simp only [TSS.stepG]
    rcases hph with ⟨h1, h2, h3⟩ | ⟨h1, h2, h3⟩
    · obtain ⟨i1, i2, i3⟩ := TSS.step_inv hV o
      have hg : x.ghost V o.time = W := by
        unfold TSS.ghost
        have : ¬ o.time ≤ x.deltaTime := by omega
        simp only [this, ↓reduceIte]; exact h3
      rw [hg] at i1
      exact Or.inr ⟨i1, by rw [i2]; omega, by rw [i3]; omega⟩
    · obtain ⟨i1, i2, i3⟩ := TSS.step_inv h1 o
      rw [TSS.ghost_of_le (by omega)] at i1
      exact Or.inr ⟨i1, by rw [i2]; omega, by rw [i3]; omega⟩

theorem TSS.runG_inCycle (cyc : List SetOpG) {T : Time} {W : List Key} (hT : T ≠ 0) :
    ∀ {x : TSS}, x.InCycle T W → (∀ o ∈ cyc, o.time = T) → (TSS.runG x cyc).InCycle T W := by
  induction cyc with
  | nil => intro x h _; exact h
  | cons o rest ih =>
    intro x h hc
    simp only [TSS.runG, List.foldl_cons]
    exact ih (TSS.stepG_inCycle h hT (hc o (by simp))) (fun a ha => hc a (by simp [ha]))

theorem TSS.stepG_times (x : TSS) (o : SetOpG) {V : List Key} (h : x.Inv V) :
    (x.stepG o).deltaTime ≤ max x.deltaTime o.time ∧ (x.stepG o).lmt ≤ max x.lmt o.time := by
  cases o with
  | op o =>
    obtain ⟨_, i2, i3⟩ := TSS.step_inv h o
    simp only [TSS.stepG, SetOpG.time]; omega
  | reserve t cap =>
    simp only [TSS.stepG, SetOpG.time]
    split
    · omega
    · simp only [TSS.reserve]; omega

/-- before the cycle at `T`: all earlier operations have times below `T` -/
theorem TSS.runG_before (pre : List SetOpG) {T : Time} :
    ∀ {x : TSS} {V : List Key}, x.Inv V → x.deltaTime < T → x.lmt < T → (∀ o ∈ pre, o.time < T) →
      (∃ V', (TSS.runG x pre).Inv V') ∧ (TSS.runG x pre).deltaTime < T ∧ (TSS.runG x pre).lmt < T := by
  induction pre with
  | nil => intro x V h h1 h2 _; exact ⟨⟨V, h⟩, h1, h2⟩
  | cons o rest ih =>
    intro x V h h1 h2 hp
    simp only [TSS.runG, List.foldl_cons]
    have ht := TSS.stepG_times x o h
    have := hp o (by simp)
    exact ih (TSS.stepG_inv h o) (by omega) (by omega) (fun a ha => hp a (by simp [ha]))

/-- **value(t) = value(t-1) − removed + added, with growth anywhere** (TSS).  `pre` is any history of operations
    and `reserve` calls with times below `T`; `cyc` is the cycle at `T ≠ MIN_DT` — again any mixture of operations
    and `reserve` calls, so the table may grow (explicitly, or because an insert finds the free list empty) while
    removals of this cycle are pending erase.  With `prev` the state at the previous tick and `cur` the state at
    the end of the cycle, as read by the output view at `T`:
    the value is the previous value minus `removed()` plus `added()`; `added()` and `removed()` are disjoint;
    added elements are present and were absent; removed elements are absent and were present; `size()` is the
    number of iterated elements; `contains()` agrees with the iterated value. -/
theorem tssg_tick_coherent (pre cyc : List SetOpG) (T : Time) (hT : T ≠ 0)
    (hpre : ∀ o ∈ pre, o.time < T) (hcyc : ∀ o ∈ cyc, o.time = T) :
    let prev := TSS.runG {} pre
    let cur := TSS.runG prev cyc
    (∀ k, k ∈ cur.value ↔ (k ∈ prev.value ∧ k ∉ cur.removedAt T) ∨ k ∈ cur.addedAt T) ∧
    (∀ k, ¬ (k ∈ cur.addedAt T ∧ k ∈ cur.removedAt T)) ∧
    (∀ k, k ∈ cur.addedAt T → k ∈ cur.value ∧ k ∉ prev.value) ∧
    (∀ k, k ∈ cur.removedAt T → k ∉ cur.value ∧ k ∈ prev.value) ∧
    cur.keys.size = cur.value.length ∧ (∀ k, cur.contains k = true ↔ k ∈ cur.value) := by
  intro prev cur
  obtain ⟨⟨V', hV'⟩, hd, hl⟩ := TSS.runG_before pre (x := {}) TSS.Inv_empty
    (show ({} : TSS).deltaTime < T from Nat.pos_of_ne_zero hT) (show ({} : TSS).lmt < T from Nat.pos_of_ne_zero hT) hpre
  have hin : prev.InCycle T prev.value := ⟨⟨V', hV'⟩, Or.inl ⟨hd, hl, rfl⟩⟩
  obtain ⟨⟨V, hV⟩, hph⟩ := TSS.runG_inCycle cyc hT hin hcyc
  obtain ⟨hsz, hcont⟩ := tss_size_contains hV.wf
  rcases hph with ⟨_, h2, h3⟩ | ⟨h1, _, h3⟩
  · -- only growth steps: nothing ticked at `T`, the value is the previous value
    have hm : (TSS.runG prev cyc).modifiedAt T = false := by
      simp only [TSS.modifiedAt]
      have : ((TSS.runG prev cyc).lmt == T) = false := by simp; omega
      simp [this]
    have ha : cur.addedAt T = [] := by simp [cur, TSS.addedAt, hm]
    have hr : cur.removedAt T = [] := by simp [cur, TSS.removedAt, hm]
    refine ⟨?_, ?_, ?_, ?_, hsz, hcont⟩
    · intro k; rw [ha, hr]; simp only [cur]; rw [h3]; simp
    · intro k; rw [ha]; simp
    · intro k; rw [ha]; simp
    · intro k; rw [hr]; simp
  · have hm : (TSS.runG prev cyc).modifiedAt T = true := by simp [TSS.modifiedAt, h3, hT]
    have ha : cur.addedAt T = addedKeysRaw cur.keys.slots := by simp [cur, TSS.addedAt, hm]
    have hr : cur.removedAt T = removedKeysRaw cur.keys.slots := by simp [cur, TSS.removedAt, hm]
    obtain ⟨c1, c2, c3, c4, c5⟩ := tss_delta_coherent h1
    refine ⟨?_, ?_, ?_, ?_, hsz, hcont⟩
    · intro k; rw [ha, hr]; exact c1 k
    · intro k; rw [ha, hr]; exact c2 k
    · intro k; rw [ha]; intro hk; exact ⟨c3 k hk, ((tss_delta_canonical h1 k).1.mp hk).2⟩
    · intro k; rw [hr]; intro hk; exact ⟨c4 k hk, c5 k hk⟩

/-! ### TSD -/

/-- **growth is unobservable (TSD)** -/
theorem TSD.reserve_observables (x : TSD) (cap : Nat) :
    (x.reserve cap).validItems = x.validItems ∧ (x.reserve cap).validKeys = x.validKeys ∧
    liveKeys (x.reserve cap).keys.slots = liveKeys x.keys.slots ∧
    addedKeysRaw (x.reserve cap).keys.slots = addedKeysRaw x.keys.slots ∧
    removedKeysRaw (x.reserve cap).keys.slots = removedKeysRaw x.keys.slots ∧
    modifiedItemsRaw (x.reserve cap).keys.slots = modifiedItemsRaw x.keys.slots ∧
    (x.reserve cap).deltaTime = x.deltaTime ∧ (x.reserve cap).lmt = x.lmt ∧ (x.reserve cap).keySetLmt = x.keySetLmt := by
  refine ⟨?_, ?_, ?_, ?_, ?_, ?_, rfl, rfl, rfl⟩
  · simp only [TSD.validItems, TSD.reserve]; rw [Store.reserveTo_filter (by rfl)]
  · simp only [TSD.validKeys, TSD.reserve]; rw [Store.reserveTo_filter (by rfl)]
  · simp only [liveKeys, TSD.reserve]; rw [Store.reserveTo_filter (by rfl)]
  · simp only [addedKeysRaw, TSD.reserve]; rw [Store.reserveTo_filter (by rfl)]
  · simp only [removedKeysRaw, TSD.reserve]; rw [Store.reserveTo_filter (by rfl)]
  · simp only [modifiedItemsRaw, TSD.reserve]; rw [Store.reserveTo_filter (by rfl)]

/-- **growth preserves the key-level invariant (TSD)** -/
theorem TSD.reserve_inv {x : TSD} {V0 : List Key} (h : x.Inv V0) (cap : Nat) : (x.reserve cap).Inv V0 := by
  obtain ⟨hwf, hget, _⟩ := Store.reserveTo_spec h.wf cap
  refine ⟨hwf, ?_, ?_⟩
  · intro i; simp only [TSD.reserve]; rw [hget i]; exact h.slot i
  · intro k hk
    obtain ⟨i, h1, h2⟩ := h.cover k hk
    exact ⟨i, by simp only [TSD.reserve]; rw [hget i]; exact h1, by simp only [TSD.reserve]; rw [hget i]; exact h2⟩

/-- **growth preserves the value-level invariant (TSD)** -/
theorem TSD.reserve_vinv {x : TSD} {W0 : List (Key × Int)} (h : x.VInv W0) (cap : Nat) : (x.reserve cap).VInv W0 := by
  obtain ⟨_, hget, _⟩ := Store.reserveTo_spec h.inv.wf cap
  refine ⟨TSD.reserve_inv h.inv cap, ?_, h.uniqW, h.lmt_le⟩
  intro i
  show VSlotOK W0 x.deltaTime x.lmt (sget (x.keys.reserveTo cap).slots i)
  rw [hget i]; exact h.vslot i

def TSD.ghostG (x : TSD) (V0 : List Key) : DictOpG → List Key
  | .op o => x.ghost V0 o.time
  | .reserve _ _ => V0

def TSD.vghostG (x : TSD) (W0 : List (Key × Int)) : DictOpG → List (Key × Int)
  | .op o => x.vghost W0 o.time
  | .reserve _ _ => W0

theorem TSD.stepG_inv {x : TSD} {V0 : List Key} (h : x.Inv V0) (o : DictOpG) : (x.stepG o).Inv (x.ghostG V0 o) := by
  cases o with
  | op o => exact (TSD.step_inv h o).1
  | reserve t cap =>
    simp only [TSD.stepG, TSD.ghostG]
    split
    · exact h
    · exact TSD.reserve_inv h cap

theorem TSD.stepG_vinv {x : TSD} {W0 : List (Key × Int)} (h : x.VInv W0) (o : DictOpG)
    (ht : o.time ≠ 0 → x.deltaTime ≤ o.time) : (x.stepG o).VInv (x.vghostG W0 o) := by
  cases o with
  | op o => exact TSD.step_vinv h o ht
  | reserve t cap =>
    simp only [TSD.stepG, TSD.vghostG]
    split
    · exact h
    · exact TSD.reserve_vinv h cap

structure GDictG where
  x : TSD := {}
  v0 : List Key := []

def GDictG.step (g : GDictG) (o : DictOpG) : GDictG := { x := g.x.stepG o, v0 := g.x.ghostG g.v0 o }
def GDictG.run (ops : List DictOpG) : GDictG := ops.foldl GDictG.step {}

theorem GDictG.run_x (ops : List DictOpG) : (GDictG.run ops).x = TSD.runG {} ops := by
  have : ∀ (g : GDictG), (ops.foldl GDictG.step g).x = TSD.runG g.x ops := by
    induction ops with
    | nil => intro g; rfl
    | cons o rest ih => intro g; simp only [List.foldl_cons, TSD.runG]; exact ih _
  exact this {}

/-- **the key-level invariant is reachable with growth anywhere** (any times, any capacities) -/
theorem tsdg_inv_reachable (ops : List DictOpG) : (GDictG.run ops).x.Inv (GDictG.run ops).v0 := by
  have : ∀ (g : GDictG), g.x.Inv g.v0 → (ops.foldl GDictG.step g).x.Inv (ops.foldl GDictG.step g).v0 := by
    induction ops with
    | nil => intro g h; exact h
    | cons o rest ih => intro g h; simp only [List.foldl_cons]; exact ih _ (TSD.stepG_inv h o)
  exact this {} TSD.Inv_empty

theorem tsd_size_contains {x : TSD} (h : x.keys.WF) :
    x.keys.size = (liveKeys x.keys.slots).length ∧ ∀ k, x.contains k = true ↔ k ∈ liveKeys x.keys.slots := by
  constructor
  · rw [h.size_eq]
    simp only [liveKeys, List.length_map, nlive, List.countP_eq_length_filter]
    rfl
  · intro k
    simp only [TSD.contains, mem_liveKeys]
    constructor
    · intro hc
      cases hf : findLive x.keys.slots k with
      | none => simp [hf] at hc
      | some i => exact ⟨i, findLive_some hf⟩
    · rintro ⟨i, hl, hk⟩
      cases hf : findLive x.keys.slots k with
      | none => exact absurd hk (findLive_none hf h.uniq i hl)
      | some j => rfl

/-- value' = previous value with the delta applied, for ONE state: whenever the value-level invariant holds
    relative to `W0` and the delta window is the one of `T` (the statement `tsd_value_delta_coherent` proves for
    the end of a plain history, here for any state so that it can be used after growth steps) -/
theorem tsd_value_delta_state {cur : TSD} {W0 : List (Key × Int)} (h : cur.VInv W0) {T : Time} (h0 : T ≠ 0)
    (hdt : cur.deltaTime = T) (k : Key) :
    dictLookup cur.validItems k =
      dictLookup (applyDictDelta W0 (cur.removedAt T) (cur.modifiedItemsAt T)) k := by
  have hstruct : cur.structAt T = true := by simp [TSD.structAt, hdt, h0]
  have hrem : cur.removedAt T = removedKeysRaw cur.keys.slots := by simp [TSD.removedAt, hstruct]
  have hmod : cur.modifiedItemsAt T = modifiedItemsRaw cur.keys.slots := by
    unfold TSD.modifiedItemsAt
    by_cases hm : cur.modifiedAt T = true
    · simp [hm]
    · simp only [hm, Bool.false_eq_true, ↓reduceIte]
      symm
      apply List.eq_nil_iff_forall_not_mem.mpr
      intro p hp
      simp only [modifiedItemsRaw, List.mem_map, List.mem_filter] at hp
      obtain ⟨s, ⟨hs', hb⟩, _⟩ := hp
      obtain ⟨i, _, rfl⟩ := exists_sget_of_mem hs'
      simp only [Bool.and_eq_true, beq_iff_eq] at hb
      obtain ⟨_, _, _, _, _, v6, v7⟩ := h.vslot i
      have h6 := v6 hb.2
      have h7 := v7 (by rw [hb.1]; decide)
      have hl := h.lmt_le
      apply hm
      simp only [TSD.modifiedAt, Bool.and_eq_true, bne_iff_ne, ne_eq, beq_iff_eq]
      exact ⟨h0, by omega⟩
  rw [hmod, hrem]
  have hmodmem : ∀ q : Key × Int, q ∈ modifiedItemsRaw cur.keys.slots →
      ∃ i, (sget cur.keys.slots i).st = .live ∧ (sget cur.keys.slots i).key = q.1 ∧
        (sget cur.keys.slots i).cval = q.2 := by
    intro q hq
    simp only [modifiedItemsRaw, List.mem_map, List.mem_filter] at hq
    obtain ⟨s, ⟨hs', hb⟩, rfl⟩ := hq
    obtain ⟨i, _, rfl⟩ := exists_sget_of_mem hs'
    simp only [Bool.and_eq_true, beq_iff_eq] at hb
    exact ⟨i, hb.1, rfl, rfl⟩
  have huv : ∀ p ∈ cur.validItems, ∀ q ∈ cur.validItems, p.1 = q.1 → p = q := by
    intro p hp q hq hpq
    obtain ⟨i, hil, _, hik, hiv⟩ := mem_validItems.mp hp
    obtain ⟨j, hjl, _, hjk, hjv⟩ := mem_validItems.mp hq
    have : i = j := h.inv.wf.uniq i j (by rw [hil]; decide) (by rw [hjl]; decide) (by rw [hik, hjk, hpq])
    subst this
    exact Prod.ext hpq (by rw [← hiv, ← hjv])
  have hum : ∀ p ∈ modifiedItemsRaw cur.keys.slots, ∀ q ∈ modifiedItemsRaw cur.keys.slots, p.1 = q.1 → p = q := by
    intro p hp q hq hpq
    obtain ⟨i, hil, hik, hiv⟩ := hmodmem p hp
    obtain ⟨j, hjl, hjk, hjv⟩ := hmodmem q hq
    have : i = j := h.inv.wf.uniq i j (by rw [hil]; decide) (by rw [hjl]; decide) (by rw [hik, hjk, hpq])
    subst this
    exact Prod.ext hpq (by rw [← hiv, ← hjv])
  have huf : ∀ p ∈ W0.filter (fun p => !(removedKeysRaw cur.keys.slots).contains p.1),
      ∀ q ∈ W0.filter (fun p => !(removedKeysRaw cur.keys.slots).contains p.1), p.1 = q.1 → p = q := by
    intro p hp q hq hpq
    exact h.uniqW p (List.mem_filter.mp hp).1 q (List.mem_filter.mp hq).1 hpq
  apply Option.ext
  intro v
  unfold applyDictDelta
  rw [dictLookup_append]
  have hL : dictLookup cur.validItems k = some v ↔ (k, v) ∈ cur.validItems := dictLookup_some_iff huv k v
  have hF := dictLookup_some_iff huf k v
  have hN := dictLookup_none_iff (modifiedItemsRaw cur.keys.slots) k
  have hmain := tsd_value_delta_mem h (k, v)
  rw [hL, hmain]
  cases hlm : dictLookup (modifiedItemsRaw cur.keys.slots) k with
  | none =>
    have hnk := hN.mp hlm
    simp only [Option.none_or] at *
    rw [hF]
    simp only [List.mem_filter, Bool.not_eq_eq_eq_not, Bool.not_true, List.contains_eq_mem, decide_eq_false_iff_not]
    constructor
    · rintro (hm | ⟨hw, hr, _⟩)
      · exact absurd (List.mem_map.mpr ⟨(k, v), hm, rfl⟩) hnk
      · exact ⟨hw, hr⟩
    · rintro ⟨hw, hr⟩; exact Or.inr ⟨hw, hr, hnk⟩
  | some v' =>
    have hmv' : (k, v') ∈ modifiedItemsRaw cur.keys.slots := (dictLookup_some_iff hum k v').mp hlm
    simp only [Option.some_or, Option.some.injEq]
    constructor
    · rintro (hm | ⟨_, _, hnm⟩)
      · exact (congrArg Prod.snd (hum _ hmv' _ hm rfl) : v' = v)
      · exact absurd (List.mem_map.mpr ⟨(k, v'), hmv', rfl⟩) hnm
    · intro e; subst e; exact Or.inl hmv'

/-- a cycle at `T` seen from the valid items `W` at the previous tick -/
def TSD.InCycle (x : TSD) (T : Time) (W : List (Key × Int)) : Prop :=
  (∃ W', x.VInv W') ∧
  ((x.deltaTime < T ∧ x.validItems = W) ∨ (x.VInv W ∧ x.deltaTime = T))

theorem TSD.stepG_inCycle {x : TSD} {T : Time} {W : List (Key × Int)} (h : x.InCycle T W) (hT : T ≠ 0)
    {o : DictOpG} (ho : o.time = T) : (x.stepG o).InCycle T W := by
  obtain ⟨⟨V, hV⟩, hph⟩ := h
  have hle : x.deltaTime ≤ T := by rcases hph with ⟨h1, _⟩ | ⟨_, h2⟩ <;> omega
  refine ⟨⟨_, TSD.stepG_vinv hV o (fun _ => by rw [ho]; exact hle)⟩, ?_⟩
  cases o with
  | reserve t cap =>
    have ht : (t == 0) = false := by
      simp only [DictOpG.time] at ho; subst ho; simpa using hT
    simp only [TSD.stepG, ht, Bool.false_eq_true, ↓reduceIte]
    obtain ⟨e1, _, _, _, _, _, e4, _, _⟩ := TSD.reserve_observables x cap
    rcases hph with ⟨h1, h3⟩ | ⟨h1, h2⟩
    · exact Or.inl ⟨by rw [e4]; exact h1, by rw [e1]; exact h3⟩
    · exact Or.inr ⟨TSD.reserve_vinv h1 cap, by rw [e4]; exact h2⟩
  | op o =>
    simp only [DictOpG.time] at ho
    simp only [TSD.stepG]
    rcases hph with ⟨h1, h3⟩ | ⟨h1, h2⟩
    · have i1 := TSD.step_vinv hV o (fun _ => by omega)
      have i2 := (TSD.step_inv hV.inv o).2
      have hg : x.vghost V o.time = W := by
        unfold TSD.vghost
        have : ¬ o.time ≤ x.deltaTime := by omega
        simp only [this, ↓reduceIte]; exact h3
      rw [hg] at i1
      exact Or.inr ⟨i1, by rw [i2]; omega⟩
    · have i1 := TSD.step_vinv h1 o (fun _ => by omega)
      have i2 := (TSD.step_inv h1.inv o).2
      rw [TSD.vghost_of_le (by omega)] at i1
      exact Or.inr ⟨i1, by rw [i2]; omega⟩

theorem TSD.runG_inCycle (cyc : List DictOpG) {T : Time} {W : List (Key × Int)} (hT : T ≠ 0) :
    ∀ {x : TSD}, x.InCycle T W → (∀ o ∈ cyc, o.time = T) → (TSD.runG x cyc).InCycle T W := by
  induction cyc with
  | nil => intro x h _; exact h
  | cons o rest ih =>
    intro x h hc
    simp only [TSD.runG, List.foldl_cons]
    exact ih (TSD.stepG_inCycle h hT (hc o (by simp))) (fun a ha => hc a (by simp [ha]))

theorem TSD.stepG_deltaTime (x : TSD) (o : DictOpG) {V : List Key} (h : x.Inv V) :
    (x.stepG o).deltaTime ≤ max x.deltaTime o.time := by
  cases o with
  | op o =>
    have i2 := (TSD.step_inv h o).2
    simp only [TSD.stepG, DictOpG.time]; omega
  | reserve t cap =>
    simp only [TSD.stepG, DictOpG.time]
    split
    · omega
    · simp only [TSD.reserve]; omega

/-- before the cycle at `T`: a history with non-decreasing times below `T` -/
theorem TSD.runG_before (pre : List DictOpG) {T : Time} :
    ∀ {x : TSD} {W : List (Key × Int)}, x.VInv W → x.deltaTime < T → (∀ o ∈ pre, x.deltaTime ≤ o.time) →
      pre.Pairwise (fun a b => a.time ≤ b.time) → (∀ o ∈ pre, o.time < T) →
      (∃ W', (TSD.runG x pre).VInv W') ∧ (TSD.runG x pre).deltaTime < T := by
  induction pre with
  | nil => intro x W h h1 _ _ _; exact ⟨⟨W, h⟩, h1⟩
  | cons o rest ih =>
    intro x W h h1 hle hs hp
    simp only [TSD.runG, List.foldl_cons]
    have ht := TSD.stepG_deltaTime x o h.inv
    have hot := hp o (by simp)
    have hxo := hle o (by simp)
    obtain ⟨hs1, hs2⟩ := List.pairwise_cons.mp hs
    refine ih (TSD.stepG_vinv h o (fun _ => hxo)) (by omega) ?_ hs2 (fun a ha => hp a (by simp [ha]))
    intro a ha
    have := hs1 a ha
    omega

/-- **value(t) = value(t-1) with the tick's delta applied, with growth anywhere** (TSD).  `pre` is any history of
    operations and `reserve` calls with non-decreasing times below `T`, `cyc` the cycle at `T ≠ MIN_DT` (any
    mixture of operations and `reserve` calls).  With `prev` the state at the previous tick and `cur` the state at
    the end of the cycle, as read by the output view at `T`:
    value level — looking any key up in the value gives the same as looking it up in the previous value with the
    removed keys dropped and the modified items written;
    key level — keys = previous keys − `removed_keys()` + `added_keys()`, added / removed disjoint, added keys are
    present and were absent, removed keys are absent and were present;
    `size()` is the number of keys that can be iterated and `contains()` agrees with iteration. -/
theorem tsdg_tick_coherent (pre cyc : List DictOpG) (T : Time) (hT : T ≠ 0)
    (hs : pre.Pairwise (fun a b => a.time ≤ b.time)) (hpre : ∀ o ∈ pre, o.time < T) (hcyc : ∀ o ∈ cyc, o.time = T) :
    let prev := TSD.runG {} pre
    let cur := TSD.runG prev cyc
    (∀ k, dictLookup cur.validItems k =
      dictLookup (applyDictDelta prev.validItems (cur.removedAt T) (cur.modifiedItemsAt T)) k) ∧
    (∀ k, k ∈ cur.validKeys ↔ (k ∈ prev.validKeys ∧ k ∉ cur.removedAt T) ∨ k ∈ cur.addedAt T) ∧
    (∀ k, ¬ (k ∈ cur.addedAt T ∧ k ∈ cur.removedAt T)) ∧
    (∀ k, k ∈ cur.addedAt T → k ∈ cur.validKeys ∧ k ∉ prev.validKeys) ∧
    (∀ k, k ∈ cur.removedAt T → k ∉ cur.validKeys ∧ k ∈ prev.validKeys) ∧
    cur.keys.size = (liveKeys cur.keys.slots).length ∧ (∀ k, cur.contains k = true ↔ k ∈ liveKeys cur.keys.slots) := by
  intro prev cur
  obtain ⟨⟨W', hW'⟩, hd⟩ := TSD.runG_before pre (x := {}) TSD.VInv_empty
    (show ({} : TSD).deltaTime < T from Nat.pos_of_ne_zero hT) (fun o _ => Nat.zero_le _) hs hpre
  have hin : prev.InCycle T prev.validItems := ⟨⟨W', hW'⟩, Or.inl ⟨hd, rfl⟩⟩
  obtain ⟨⟨V, hV⟩, hph⟩ := TSD.runG_inCycle cyc hT hin hcyc
  obtain ⟨hsz, hcont⟩ := tsd_size_contains hV.inv.wf
  rcases hph with ⟨h2, h3⟩ | ⟨h1, h3⟩
  · -- only growth steps in the cycle
    have hst : (TSD.runG prev cyc).structAt T = false := by
      simp only [TSD.structAt]
      have : ((TSD.runG prev cyc).deltaTime == T) = false := by simp; omega
      simp [this]
    have hm : (TSD.runG prev cyc).modifiedAt T = false := by
      simp only [TSD.modifiedAt]
      have hl := hV.lmt_le
      have : ((TSD.runG prev cyc).lmt == T) = false := by simp; omega
      simp [this]
    have ha : cur.addedAt T = [] := by simp [cur, TSD.addedAt, hst]
    have hr : cur.removedAt T = [] := by simp [cur, TSD.removedAt, hst]
    have hmi : cur.modifiedItemsAt T = [] := by simp [cur, TSD.modifiedItemsAt, hm]
    have hk : cur.validKeys = prev.validKeys := by
      rw [← validItems_map_fst, ← validItems_map_fst]; simp only [cur]; rw [h3]
    refine ⟨?_, ?_, ?_, ?_, ?_, hsz, hcont⟩
    · intro k; rw [hr, hmi]; simp only [cur]; rw [h3]
      have : applyDictDelta prev.validItems [] [] = prev.validItems := by
        simp only [applyDictDelta, List.nil_append]
        exact List.filter_eq_self.mpr (fun _ _ => by simp)
      rw [this]
    · intro k; rw [ha, hr, hk]; simp
    · intro k; rw [ha]; simp
    · intro k; rw [ha]; simp
    · intro k; rw [hr]; simp
  · have hst : (TSD.runG prev cyc).structAt T = true := by simp [TSD.structAt, h3, hT]
    have ha : cur.addedAt T = addedKeysRaw cur.keys.slots := by simp [cur, TSD.addedAt, hst]
    have hr : cur.removedAt T = removedKeysRaw cur.keys.slots := by simp [cur, TSD.removedAt, hst]
    have hinv : cur.Inv prev.validKeys := by
      have := h1.inv
      rw [validItems_map_fst] at this
      exact this
    obtain ⟨c1, c2, c3, c4, c5⟩ := tsd_delta_coherent hinv
    refine ⟨fun k => tsd_value_delta_state h1 hT h3 k, ?_, ?_, ?_, ?_, hsz, hcont⟩
    · intro k; rw [ha, hr]; exact c1 k
    · intro k; rw [ha, hr]; exact c2 k
    · intro k; rw [ha]; intro hk; exact ⟨c3 k hk, ((tsd_delta_canonical hinv k).1.mp hk).2⟩
    · intro k; rw [hr]; intro hk; exact ⟨c4 k hk, c5 k hk⟩

/-! ## every slot list has planes; the counter-witness for the seeded rule; non-vacuity -/

theorem ofSlots_test (f : Slot → Bool) (l : List Slot) (n i : Nat) :
    ({ bits := l.map f ++ List.replicate n false, bitCount := l.length } : Bitmap).test i =
      (decide (i < l.length) && f (sget l i)) := by
  unfold Bitmap.test
  by_cases hi : i < l.length
  · simp only [hi, decide_true, Bool.true_and, List.getD_eq_getElem?_getD]
    rw [List.getElem?_append_left (by simpa using hi), sget_eq_getElem hi]
    simp [List.getElem?_map, List.getElem?_eq_getElem hi]
  · simp [hi]

theorem ofSlots_bitmap_wf (f : Slot → Bool) (l : List Slot) :
    ({ bits := l.map f ++ List.replicate (64 * wordsFor l.length - l.length) false, bitCount := l.length } : Bitmap).WF := by
  have := le_wordsFor l.length
  refine ⟨by simp; omega, ?_⟩
  intro i hi
  simp only [List.getD_eq_getElem?_getD]
  rw [List.getElem?_append_right (by simpa using hi)]
  exact getElem?_replicate_false_getD _ _

/-- **every slot list is implemented by some planes** (so `Planes.Abs` and `Planes.WF` are satisfiable for every
    state of `Model/Slots.lean`, in particular for every reachable one) -/
theorem Planes.Abs_ofSlots (l : List Slot) : (Planes.ofSlots l).Abs l := by
  have hl : ∀ i, (Planes.ofSlots l).isLive i = (decide (i < l.length) && ((sget l i).st == .live)) :=
    fun i => ofSlots_test (fun s => s.st == .live) l _ i
  have hc : ∀ i, (Planes.ofSlots l).isConstructed i = (decide (i < l.length) && ((sget l i).st != .free)) :=
    fun i => ofSlots_test (fun s => s.st != .free) l _ i
  refine ⟨⟨ofSlots_bitmap_wf _ l, ofSlots_bitmap_wf _ l, rfl, rfl, ?_⟩, rfl, ?_⟩
  · intro i hi
    rw [hl] at hi; rw [hc]
    simp only [Bool.and_eq_true, decide_eq_true_eq, beq_iff_eq] at hi
    simp [hi.1, hi.2]
  · intro i
    simp only [Planes.st, hl, hc]
    by_cases hi : i < l.length
    · cases hs : (sget l i).st <;> simp [hi]
    · simp [hi, sget_of_le (Nat.le_of_not_lt hi)]

/-- **growth at any point of a cycle, on the planes**: after EVERY history of operations and reserves the key store is
    implemented by well-formed planes, and growing those planes as coded implements the grown store and changes
    no slot state -/
theorem planes_growth_at_any_point (ops : List SetOpG) (cap : Nat) :
    ∃ p : Planes, p.Abs (TSS.runG {} ops).keys.slots ∧
      (p.reserveTo cap).Abs ((TSS.runG {} ops).keys.reserveTo cap).slots ∧
      ∀ i, (p.reserveTo cap).st i = p.st i :=
  ⟨_, Planes.Abs_ofSlots _, planes_growth_refines (Planes.Abs_ofSlots _) cap,
    planes_growth_preserves_states (Planes.Abs_ofSlots _).wf cap⟩

/-- eight constructed slots, slot 2 pending erase: the state in which seed s83 manifests -/
def planesFull8 : Planes :=
  Planes.ofSlots ((List.range 8).map fun i => ({ st := if i == 2 then .pending else .live, key := Int.ofNat i } : Slot))

/-- **counter-witness for the seeded rule (planes)**: in a well-formed state with a pending-erase slot the growth
    step as coded keeps the slot pending, the rule of seed s83 (live plane seeded from the constructed plane)
    makes it live again -/
theorem planes_growth_s83_resurrects :
    planesFull8.WF ∧ planesFull8.st 2 = .pending ∧
    (planesFull8.reserveTo 16).st 2 = .pending ∧ (planesFull8.reserveToS83 16).st 2 = .live :=
  ⟨(Planes.Abs_ofSlots _).wf, by decide, by decide, by decide⟩

/-- the relations of `tssg_tick_coherent` that the seeded variant breaks, stated for the model with the seeded
    growth rule (`TSS.runS83`) -/
def TSSTickCoherentS83 : Prop :=
  ∀ (pre cyc : List SetOp) (T : Time), T ≠ 0 → (∀ o ∈ pre, o.time < T) → (∀ o ∈ cyc, o.time = T) →
    let prev := TSS.runS83 {} pre
    let cur := TSS.runS83 prev cyc
    (∀ k, k ∈ cur.value → (k ∈ prev.value ∧ k ∉ cur.removedAt T) ∨ k ∈ cur.addedAt T) ∧
    (∀ k, k ∈ cur.removedAt T → k ∉ cur.value) ∧
    cur.keys.size = cur.value.length

/-- the failing history of seed s83: eight keys fill the first slot block; in the next cycle one is removed and a
    new key is inserted, so the table grows 8 -> 16 while the removal is pending erase -/
def s83Pre : List SetOp := (List.range 8).map fun i => SetOp.add 1 (Int.ofNat i)
def s83Cycle : List SetOp := [.rem 2 3, .add 2 9]

set_option maxRecDepth 20000 in
/-- **counter-witness for the seeded rule (TSS)**: with growth that seeds the live plane from the constructed
    plane the removed key 3 is a member again: it is in the value AND in `removed()`, the value is not the
    previous value with the delta applied, and `size()` (8) is not the number of iterated elements (9).  (Same on
    the real `TSOutput` of a `TSS<date>` built from the seeded tree; the model as coded is coherent on the same
    history, `s83_history_coherent_as_coded`.) -/
theorem tss_s83_incoherent : ¬ TSSTickCoherentS83 := by
  intro h
  have h' := h s83Pre s83Cycle 2 (by decide) (by decide) (by decide)
  exact (h'.2.1 3 (by decide)) (by decide)

set_option maxRecDepth 20000 in
theorem s83_history_coherent_as_coded :
    (TSS.run (TSS.run {} s83Pre) s83Cycle).value = [0, 1, 2, 4, 5, 6, 7, 9] ∧
    (TSS.run (TSS.run {} s83Pre) s83Cycle).removedAt 2 = [3] ∧
    (TSS.run (TSS.run {} s83Pre) s83Cycle).addedAt 2 = [9] ∧
    (TSS.run (TSS.run {} s83Pre) s83Cycle).keys.size = 8 ∧
    (TSS.run (TSS.run {} s83Pre) s83Cycle).keys.slots.length = 16 ∧
    (TSS.runS83 (TSS.runS83 {} s83Pre) s83Cycle).value = [0, 1, 2, 3, 4, 5, 6, 7, 9] ∧
    (TSS.runS83 (TSS.runS83 {} s83Pre) s83Cycle).removedAt 2 = [3] ∧
    (TSS.runS83 (TSS.runS83 {} s83Pre) s83Cycle).keys.size = 8 := by
  decide

/-! ### non-vacuity of the hypotheses -/

set_option maxRecDepth 20000 in
/-- a history in the hypotheses of `tssg_tick_coherent` in which the table grows (explicitly and by an insert)
    while a removal of the cycle is pending erase -/
example :
    let pre : List SetOpG := (List.range 8).map fun i => .op (.add 1 (Int.ofNat i))
    let cyc : List SetOpG := [.op (.rem 2 3), .reserve 2 12, .op (.add 2 9), .op (.add 2 10), .op (.add 2 11), .op (.add 2 12), .op (.add 2 13)]
    (∀ o ∈ pre, o.time < 2) ∧ (∀ o ∈ cyc, o.time = 2) ∧
    (TSS.runG (TSS.runG {} pre) cyc).keys.slots.length = 24 ∧
    (sget (TSS.runG (TSS.runG {} pre) cyc).keys.slots 3).st = .pending ∧
    (TSS.runG (TSS.runG {} pre) cyc).removedAt 2 = [3] := by
  decide

set_option maxRecDepth 20000 in
example :
    let pre : List DictOpG := (List.range 8).map fun i => .op (.set 1 (Int.ofNat i) 5)
    let cyc : List DictOpG := [.op (.erase 2 3), .op (.set 2 9 1), .reserve 2 40]
    pre.Pairwise (fun a b => a.time ≤ b.time) ∧ (∀ o ∈ pre, o.time < 2) ∧ (∀ o ∈ cyc, o.time = 2) ∧
    (TSD.runG (TSD.runG {} pre) cyc).keys.slots.length = 40 ∧
    (TSD.runG (TSD.runG {} pre) cyc).removedAt 2 = [3] ∧
    (TSD.runG (TSD.runG {} pre) cyc).modifiedItemsAt 2 = [(9, 1)] := by
  decide

end HgVerif.Slots
