import HgVerif.Props.C06Run
/-!
# C02 — an armed wake-up is reached: the run-level statement

`armed_wakeup_honoured` (Props/C02.lean) is one step: the next cycle is not later than an armed slot.
Here the whole run is followed, for arbitrary node behaviours under the caller discipline `Disc` and the
hypothesis `OwnFuture j` — *nobody but `j` itself asks for a FUTURE wake-up of `j`* (true of scheduler
nodes and sources; C18 proves what such a node asks for):

* `cycle_keeps_or_evaluates` : a completed cycle that does not evaluate `j` leaves `j`'s slot untouched.
* `wakeup_reached`           : if after a completed cycle `j` is armed for `s` with `now < s < end`, then
  following the run loop (any fuel `≥ s - now`) the first thing that happens to `j` is an evaluation at some
  `t' ≤ s` — at `s` itself unless an input notification evaluates it earlier (after which C18's
  `armed_after_eval` re-arms it for its pending events) — or a cycle at a time `≤ s` fails.  The run can
  neither end, nor pass `s`, nor run out of cycles before that.
-/
namespace HgVerif.Sched
open HgVerif.Flow (foldl_now_requests_slot)

/-- nobody but `j` itself requests a wake-up of `j` for a later time -/
def OwnFuture {σ : Type} (β : Beh σ) (n j : Nat) : Prop :=
  ∀ i, i < n → i ≠ j → ∀ t u, ∀ r ∈ (β.eval i t u).reqs, r.node = j → r.time = t

theorem scanFrom_now {σ : Type} (β : Beh σ) (t : Time) (fuel i : Nat) (g : G) (u : σ) (ev : List Nat)
    (hnow : g.now = t) : (scanFrom β t fuel i g u ev).g.now = t := by
  induction fuel generalizing i g u ev with
  | zero => exact hnow
  | succ fuel ih =>
    rcases Nat.lt_trichotomy (slotOf g i) t with hs | hs | hs
    · rw [scanFrom_skip β t fuel i g u ev hs]; exact ih _ _ _ _ hnow
    · cases hrok : (β.eval i t u).ok with
      | true =>
        rw [scanFrom_eval_ok β t fuel i g u ev hs hrok]
        exact ih _ _ _ _ (by rw [foldl_scheduleNode_now]; exact hnow)
      | false =>
        have hs' : g.slots.getD i 0 = t := hs
        rw [scanFrom]; simp only [hs', ↓reduceIte, hrok, Bool.false_eq_true]
        show ((β.eval i t u).reqs.foldl scheduleNode { g with cursor := i }).now = t
        rw [foldl_scheduleNode_now]; exact hnow
    · rw [scanFrom_fold β t fuel i g u ev hs]; exact ih _ _ _ _ hnow

/-- a completed scan that does not evaluate `j` leaves `j`'s slot as it was -/
theorem scan_keeps_or_evaluates {σ : Type} (β : Beh σ) (n : Nat) (hβ : Disc β n) (j : Nat) (hjn : j < n)
    (hO : OwnFuture β n j) (t : Time) (fuel i : Nat) (g : G) (u : σ) (ev : List Nat)
    (hfi : i + fuel = n) (hlen : g.slots.length = n) (hnow : g.now = t)
    (hok : (scanFrom β t fuel i g u ev).ok = true) (hnot : j ∉ (scanFrom β t fuel i g u ev).evaluated) :
    slotOf (scanFrom β t fuel i g u ev).g j = slotOf g j := by
  induction fuel generalizing i g u ev with
  | zero => rfl
  | succ fuel ih =>
    rcases Nat.lt_trichotomy (slotOf g i) t with hs | hs | hs
    · rw [scanFrom_skip β t fuel i g u ev hs] at hok hnot ⊢
      exact ih (i + 1) _ _ _ (by omega) hlen hnow hok hnot
    · cases hrok : (β.eval i t u).ok with
      | true =>
        rw [scanFrom_eval_ok β t fuel i g u ev hs hrok] at hok hnot ⊢
        have hij : i ≠ j := by
          intro e; subst e
          exact hnot (scanFrom_mem_acc β t fuel _ _ _ _ i (by simp))
        have hreqs := hβ i (by omega) t u
        have hlen' : ((β.eval i t u).reqs.foldl scheduleNode { g with cursor := i }).slots.length = n := by
          rw [foldl_scheduleNode_length]; exact hlen
        have hnow' : ((β.eval i t u).reqs.foldl scheduleNode { g with cursor := i }).now = t := by
          rw [foldl_scheduleNode_now]; exact hnow
        rw [ih (i + 1) _ _ _ (by omega) hlen' hnow' hok hnot]
        rcases Nat.lt_or_gt_of_ne hij with hlt | hgt
        · -- `j` lies ahead: the requests of `i` that target it all ask for the current time
          rcases foldl_now_requests_slot { g with cursor := i } (β.eval i t u).reqs j t
              (fun r hr => by show r.node < g.slots.length; rw [hlen]; exact (hreqs r hr).1)
              (fun r hr hrj => hO i (by omega) hij t u r hr hrj) with h1 | h1
          · -- the slot became `t`: `j` is then evaluated later in this scan — contradiction
            exact absurd (due_scanFrom β n hβ t fuel (i + 1) _ _ _ (by omega) hlen' hnow' j (by omega) hjn h1 hok) hnot
          · exact h1
        · -- `j` was passed already: no request of `i` targets it
          have hnone : ∀ r ∈ (β.eval i t u).reqs, r.node ≠ j := by
            intro r hr hrj
            have ht := hO i (by omega) hij t u r hr hrj
            rcases (hreqs r hr).2 with ⟨_, hl⟩ | ⟨hl, _⟩ <;> omega
          rw [HgVerif.Flow.foldl_other_slot { g with cursor := i } (β.eval i t u).reqs j hnone]
          rfl
      | false =>
        rw [scanFrom_eval_fail β t fuel i g u ev hs hrok] at hok; cases hok
    · rw [scanFrom_fold β t fuel i g u ev hs] at hok hnot ⊢
      exact ih (i + 1) _ _ _ (by omega) hlen hnow hok hnot

/-- a completed fresh cycle that does not evaluate `j` leaves `j`'s slot as it was -/
theorem cycle_keeps_or_evaluates {σ : Type} (fx : Bool) (β : Beh σ) (n : Nat) (hβ : Disc β n) (j : Nat) (hjn : j < n)
    (hO : OwnFuture β n j) (t : Time) (g : G) (u : σ) (hlen : g.slots.length = n) (hc : g.cursor = 0)
    (hok : (cycle fx β n t g u).ok = true) (hnot : j ∉ (cycle fx β n t g u).evaluated) :
    slotOf (cycle fx β n t g u).g j = slotOf g j := by
  have hfresh : cycle fx β n t g u =
      scanFrom β t n 0 { g with now := t, failed := false, next := none, cursor := 0 } u [] := by
    cases fx <;> simp [cycle, resuming, hc]
  rw [hfresh] at hok hnot ⊢
  exact scan_keeps_or_evaluates β n hβ j hjn hO t n 0 _ u [] (by omega) (by simpa using hlen) rfl hok hnot

/-- what happens first to node `j` along the run loop -/
inductive Outcome where
  | evaluated (t : Time)   -- the first cycle that evaluates `j`
  | failed (t : Time)      -- a cycle failed before that
  | ended                  -- the run loop stopped (nothing pending, or end time reached)
  | fuel                   -- the cycle budget of this query ran out
deriving Repr, DecidableEq

def firstEval {σ : Type} (fx : Bool) (β : Beh σ) (n : Nat) (endT : Time) (j : Nat) : Nat → G → σ → Outcome
  | 0, _, _ => .fuel
  | fuel + 1, g, u =>
    match nextCycle g endT with
    | none => .ended
    | some t =>
      let r := cycle fx β n t g u
      if j ∈ r.evaluated then .evaluated t
      else if r.ok then firstEval fx β n endT j fuel r.g r.st
      else .failed t

/-- **an armed wake-up is reached.**  `g` is the state after a completed cycle (cache `nx` is a lower bound of the
    armed slot `s` and lies after `now`); `now < s < end`.  Then, for every cycle budget `≥ s - now`, the first
    event concerning `j` is an evaluation at some `t'` with `now < t' ≤ s`, or the failure of a cycle at such a
    time — the loop neither ends, nor passes `s`, nor idles for more than `s - now` cycles before it. -/
theorem wakeup_reached {σ : Type} (fx : Bool) (β : Beh σ) (n : Nat) (hβ : Disc β n) (j : Nat) (hjn : j < n)
    (hO : OwnFuture β n j) (endT s : Time) (hse : s < endT) (fuel : Nat) (g : G) (u : σ)
    (hlen : g.slots.length = n) (hc : g.cursor = 0) (hs : slotOf g j = s) (hnow : g.now < s)
    (hnx : ∃ nx, g.next = some nx ∧ g.now < nx ∧ nx ≤ s) (hfuel : s - g.now ≤ fuel) :
    (∃ t', firstEval fx β n endT j fuel g u = .evaluated t' ∧ g.now < t' ∧ t' ≤ s) ∨
    (∃ t', firstEval fx β n endT j fuel g u = .failed t' ∧ g.now < t' ∧ t' ≤ s) := by
  induction fuel generalizing g u with
  | zero => omega
  | succ fuel ih =>
    obtain ⟨nx, hnxe, hgt, hle⟩ := hnx
    have hnc : nextCycle g endT = some nx := by
      unfold nextCycle; rw [hnxe]
      have : ¬ nx ≥ endT := by omega
      simp [this]
    rw [firstEval, hnc]
    simp only
    by_cases hev : j ∈ (cycle fx β n nx g u).evaluated
    · left; exact ⟨nx, by simp [hev], hgt, hle⟩
    · by_cases hok : (cycle fx β n nx g u).ok = true
      · -- the cycle completed without `j`: then `nx < s`, the slot is kept and the invariant is re-established
        have hne : nx ≠ s := by
          intro e
          exact hev (due_node_evaluated fx β n hβ nx g u hlen hc j hjn (by rw [hs, e]) hok)
        have hlt : nx < s := by omega
        have hfresh : cycle fx β n nx g u =
            scanFrom β nx n 0 { g with now := nx, failed := false, next := none, cursor := 0 } u [] := by
          cases fx <;> simp [cycle, resuming, hc]
        have hslot : slotOf (cycle fx β n nx g u).g j = s := by
          rw [cycle_keeps_or_evaluates fx β n hβ j hjn hO nx g u hlen hc hok hev]; exact hs
        have hlen1 : (cycle fx β n nx g u).g.slots.length = n := by
          rw [hfresh] at hok ⊢; exact scanFrom_length β n nx n 0 _ u [] hlen hok
        have hc1 : (cycle fx β n nx g u).g.cursor = 0 := by
          rw [hfresh] at hok ⊢; exact scanFrom_cursor_zero β nx n 0 _ u [] hok
        have hnow1 : (cycle fx β n nx g u).g.now = nx := by
          rw [hfresh]; exact scanFrom_now β nx n 0 _ u [] rfl
        obtain ⟨nx', hnx', hle'⟩ := scan_next_lower fx β n hβ nx g u hlen hc hok j hjn (by rw [hslot]; exact hlt)
        have hgt' := cycle_next_gt fx β n hβ nx g u hlen hc hok nx' hnx'
        rw [hslot] at hle'
        have := ih (cycle fx β n nx g u).g (cycle fx β n nx g u).st hlen1 hc1 hslot (by rw [hnow1]; exact hlt)
          ⟨nx', hnx', by rw [hnow1]; exact hgt', hle'⟩ (by rw [hnow1]; omega)
        simp only [hev, ↓reduceIte, hok]
        rw [hnow1] at this
        rcases this with ⟨t', h1, h2, h3⟩ | ⟨t', h1, h2, h3⟩
        · left; exact ⟨t', h1, by omega, h3⟩
        · right; exact ⟨t', h1, by omega, h3⟩
      · right
        refine ⟨nx, ?_, hgt, hle⟩
        simp [hev, hok]

/-! ## non-vacuity: `exBeh` of Props/C02.lean — node 0 re-arms itself, node 1 is only notified -/

example : OwnFuture exBeh 2 0 := by
  intro i hi hne t u r hr hrj
  have : i = 1 := by omega
  subst this
  simp [exBeh] at hr

example : firstEval true exBeh 2 20 0 5 { slots := [7, 0], next := some 7, now := 5 } () = .evaluated 7 := by decide

end HgVerif.Sched
