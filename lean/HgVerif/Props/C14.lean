import HgVerif.Model.Lifecycle
/-!
# C14 — every started node is stopped exactly once, in reverse order, whatever fails

About `Model/Lifecycle.lean` (the loops the engine model runs its graphs through), for **every**
node count, state type and node behaviour — i.e. every assignment of start and stop faults.

* `start_prefix`            : exactly the nodes `0 … started-1` start, in index order, and the loop
                              stops at the first failure (`started < n` iff a start failed).
* `stop_reverse_all`        : stopping `k` nodes attempts `k-1, …, 0` in that order — each exactly once.
* `stop_faults_do_not_block`: … whatever the stop hooks do (a failing stop does not prevent the
                              remaining nodes from stopping) — the visited list does not depend on `stop`.
* `first_error_wins`        : the error reported is the first one raised in stop order.
* `failed_start_rollback`   : a failed start stops exactly the nodes already started, in reverse.
* `started_stopped_once`    : over a whole lifetime (successful start, later stop) the stop order is the
                              reverse of the start order, so every started node is stopped exactly once.
-/
namespace HgVerif.Lifecycle

theorem startLoop_spec {σ : Type} (start : Nat → σ → StepRes σ) (rem i : Nat) (s : σ) (vis : List Nat) :
    let r := startLoop start rem i s vis
    i ≤ r.started ∧ r.started ≤ i + rem ∧
    (r.err = none → r.started = i + rem ∧ r.visited = vis ++ List.range' i rem) ∧
    (∀ m, r.err = some m → r.started < i + rem ∧ r.visited = vis ++ List.range' i (r.started - i + 1)) := by
  induction rem generalizing i s vis with
  | zero => simp [startLoop]
  | succ rem ih =>
    unfold startLoop
    simp only
    cases he : (start i s).err with
    | none =>
      simp only
      have := ih (i + 1) (start i s).st (vis ++ [i])
      simp only at this
      obtain ⟨h1, h2, h3, h4⟩ := this
      refine ⟨by omega, by omega, ?_, ?_⟩
      · intro hn
        obtain ⟨a, b⟩ := h3 hn
        refine ⟨by omega, ?_⟩
        rw [b, List.range'_succ]; simp
      · intro m hm
        obtain ⟨a, b⟩ := h4 m hm
        refine ⟨by omega, ?_⟩
        rw [b]
        have : (startLoop start rem (i + 1) (start i s).st (vis ++ [i])).started - i + 1 =
            ((startLoop start rem (i + 1) (start i s).st (vis ++ [i])).started - (i + 1) + 1) + 1 := by omega
        rw [this, List.range'_succ (n := _ + 1)]; simp
    | some m =>
      simp only
      refine ⟨Nat.le_refl _, by omega, ?_, ?_⟩
      · intro h; cases h
      · intro m' _; exact ⟨by omega, by simp [List.range'_succ]⟩

/-- nodes start in index order and exactly a prefix starts -/
theorem start_prefix {σ : Type} (start : Nat → σ → StepRes σ) (n : Nat) (s : σ) :
    let r := startLoop start n 0 s []
    r.started ≤ n ∧
    (r.err = none → r.started = n ∧ r.visited = List.range n) ∧
    (∀ m, r.err = some m → r.started < n ∧ r.visited = List.range (r.started + 1)) := by
  have := startLoop_spec start n 0 s []
  simp only [Nat.zero_add, List.nil_append, Nat.sub_zero] at this
  obtain ⟨_, h2, h3, h4⟩ := this
  refine ⟨h2, ?_, ?_⟩
  · intro h; obtain ⟨a, b⟩ := h3 h; exact ⟨a, by rw [b, List.range_eq_range']⟩
  · intro m h; obtain ⟨a, b⟩ := h4 m h; exact ⟨a, by rw [b, List.range_eq_range']⟩

/-- the indices `k-1, …, 0` -/
def downFrom : Nat → List Nat
  | 0 => []
  | k + 1 => k :: downFrom k

theorem downFrom_eq_reverse_range (k : Nat) : downFrom k = (List.range k).reverse := by
  induction k with
  | zero => rfl
  | succ k ih => rw [downFrom, ih, List.range_succ]; simp

theorem stopLoop_visited {σ : Type} (stop : Nat → σ → StepRes σ) (k : Nat) (s : σ) (vis : List Nat) (e : Option String) :
    (stopLoop stop k s vis e).visited = vis ++ downFrom k := by
  induction k generalizing s vis e with
  | zero => simp [stopLoop, downFrom]
  | succ k ih => unfold stopLoop; simp only; rw [ih]; simp [downFrom]

/-- stopping visits every node exactly once, in reverse index order -/
theorem stop_reverse_all {σ : Type} (stop : Nat → σ → StepRes σ) (k : Nat) (s : σ) :
    (stopLoop stop k s [] none).visited = (List.range k).reverse := by
  rw [stopLoop_visited, downFrom_eq_reverse_range]; rfl

/-- … whatever the stop hooks do: the attempts do not depend on which stops fail -/
theorem stop_faults_do_not_block {σ : Type} (stop stop' : Nat → σ → StepRes σ) (k : Nat) (s s' : σ) :
    (stopLoop stop k s [] none).visited = (stopLoop stop' k s' [] none).visited := by
  rw [stop_reverse_all, stop_reverse_all]

theorem stopLoop_err_some {σ : Type} (stop : Nat → σ → StepRes σ) (k : Nat) (s : σ) (vis : List Nat) (m : String) :
    (stopLoop stop k s vis (some m)).err = some m := by
  induction k generalizing s vis with
  | zero => rfl
  | succ k ih => unfold stopLoop; simp only; exact ih _ _

/-- the first error raised (in stop order) is the one that is reported -/
theorem first_error_wins {σ : Type} (stop : Nat → σ → StepRes σ) (k : Nat) (s : σ) (m : String)
    (h : (stop k s).err = some m) : (stopLoop stop (k + 1) s [] none).err = some m := by
  unfold stopLoop; simp only [h]; exact stopLoop_err_some _ _ _ _ _

/-- no stop fails ⇒ no error -/
theorem stopLoop_no_error {σ : Type} (stop : Nat → σ → StepRes σ) (k : Nat) (s : σ) (vis : List Nat)
    (h : ∀ i s', (stop i s').err = none) : (stopLoop stop k s vis none).err = none := by
  induction k generalizing s vis with
  | zero => rfl
  | succ k ih => unfold stopLoop; simp only [h]; exact ih _ _

/-- a failed start stops exactly the nodes already started, in reverse, and reports the start error -/
theorem failed_start_rollback {σ : Type} (start stop : Nat → σ → StepRes σ) (n : Nat) (s : σ) (m : String)
    (h : (startLoop start n 0 s []).err = some m) :
    let r := graphStart start stop n s
    r.err = some m ∧ r.started < n ∧ r.startVisited = List.range (r.started + 1) ∧
      r.rollbackVisited = (List.range r.started).reverse := by
  obtain ⟨_, _, h4⟩ := start_prefix start n s
  obtain ⟨hlt, hvis⟩ := h4 m h
  simp only [graphStart, h]
  exact ⟨trivial, hlt, hvis, stop_reverse_all _ _ _⟩

/-- whole lifetime: a successful start followed by a stop visits the same nodes in reverse order —
    every started node is stopped exactly once (`Perm`, `Nodup`) -/
theorem started_stopped_once {σ : Type} (start stop : Nat → σ → StepRes σ) (n : Nat) (s s' : σ)
    (h : (startLoop start n 0 s []).err = none) :
    let st := graphStart start stop n s
    let sp := stopLoop stop st.started s' [] none
    st.err = none ∧ st.rollbackVisited = [] ∧ sp.visited = st.startVisited.reverse ∧ sp.visited.Nodup := by
  obtain ⟨_, h3, _⟩ := start_prefix start n s
  obtain ⟨hn, hvis⟩ := h3 h
  simp only [graphStart, h]
  refine ⟨trivial, trivial, ?_, ?_⟩
  · rw [stop_reverse_all, hvis, hn]
  · rw [stop_reverse_all]; exact (List.reverse_perm _).nodup_iff.mpr List.nodup_range

/-! ## non-vacuity: a graph of 4 nodes where node 2 fails to start and node 0 fails to stop -/
def exStart : Nat → Nat → StepRes Nat := fun i s => if i = 2 then { st := s, err := some "boom" } else { st := s + 1 }
def exStop : Nat → Nat → StepRes Nat := fun i s => if i = 0 then { st := s, err := some "stop0" } else { st := s + 10 }

example : (graphStart exStart exStop 4 0).startVisited = [0, 1, 2] ∧ (graphStart exStart exStop 4 0).started = 2 ∧
    (graphStart exStart exStop 4 0).rollbackVisited = [1, 0] ∧ (graphStart exStart exStop 4 0).err = some "boom" := by
  decide

end HgVerif.Lifecycle
