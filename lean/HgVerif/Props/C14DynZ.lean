import HgVerif.Model.DynLifeReduceZ
import HgVerif.Props.C14Dyn
/-!
# C14, dynamic children — `reduce_` with its pointer table: one rebuild that creates AND sets aside combiners

About `Model/DynLifeReduceZ.lean`: `rebuild_structure` as coded (capacity rule, bank swap, phase 1 create / set aside,
phase 2 bind + start, publication, phase 3 stop, the unwind guard), `reduce_evaluate`, `reduce_node_stop`,
`~ReduceNodeStorage`, run through `run_storage` and released.  Everything is for **all** tree histories
(`List RzIn`: arbitrary live counts, structural / modified leaves, full or partial rebuilds, zero ticks, binding /
publication failures), with and without a zero (`RzCfg.hasZero`), every combiner size `n`, **all** fault assignments
(`Hooks υ`), clean-up on error on and off.

* `rz_run_no_violation`      : no lifecycle violation up to the return of `run()` and up to the release (either guard).
* `rz_clean_at_return`       : (the guard as coded) with clean-up on, or without an error, nothing is started when `run()`
                               returns.
* `rz_clean_at_release`      : nothing is started once the executor is released (either guard).
* `rz_run_node_language`     : per combiner node the hook calls are `[]`, `[start!]` or `start, evaluate*, stop`.
* `rz_first_error`           : a cycle error (phase 1 / bind / the first failing created-combiner start / publication / an
                               evaluation) is what `run()` throws; the guard's and the following stop's errors cannot
                               replace it; otherwise it is the first error of `reduce_node_stop`.
* `rzRebuildIn_error`, `rzStartList_first_error` : what a rebuild throws is the error of phase 1, else of the binding, else
                               of the FIRST created combiner whose start threw, else of the publication; the guard's
                               swallowed stop errors cannot replace it.
* `rzRebuild_spec`, `rzGuardComb_restores` : the invariant and `Tab` survive a rebuild whatever throws; the guard's table
                               is the table phase 1 started from.
* `rz_failed_rebuild_restores_table` : a rebuild that throws leaves the pointer table, its size, the capacity and the bank
                               exactly as they were — every combiner phase 1 had set aside is back in the table — and every
                               bank entry that existed before (the set-aside ones: still started) is untouched.
* `rz_failed_rebuild_then_stop_clean` : … so `reduce_node_stop` after a failed rebuild leaves no bank entry started.
* `rz_guard_early_leaks`     : counter-lemma for the guard of seed s108 (`if (!created.empty()) return;`): concrete run
                               (zero, 3 -> 1 -> 2 live values, the combiner created by the 1 -> 2 rebuild fails to start) where
                               the set-aside root combiner is still started when `run()` returns the start error and is
                               stopped only by the release; the same run with the guard as coded stops it before the return.

Technique: the bank store is a `MapSt` and every operation on it is one of `removeEntry` / `destroySlot` / a child start
(`createGo_spec`), so the invariant `Inv` of `Props/C14Dyn.lean` carries over; what is new is `Tab`: every started bank
entry is reachable through the pointer table.  `rzPhase1_rel` relates the table after phase 1 to the table before it
(created: were null, are needed; set aside: were non-null, are not needed; the rest unchanged), from which the guard
restores the old table (`rzGuardComb_restores`).
-/
namespace HgVerif.DynLife
open HgVerif.Lifecycle HgVerif.Reduce

variable {υ : Type}

/-! ## started bank entries: where they may come from -/

/-- the started entries of `m'` are entries of `m`, or sit in a slot of `T` -/
def Grows (T : Nat → Prop) (m m' : MapSt υ) : Prop :=
  ∀ s e, m'.ent s = some e → e.started = true → m.ent s = some e ∨ T s

theorem Grows.refl (T : Nat → Prop) (m : MapSt υ) : Grows T m m := fun _ _ h _ => Or.inl h

theorem Grows.trans {T : Nat → Prop} {a b c : MapSt υ} (h1 : Grows T a b) (h2 : Grows T b c) : Grows T a c := by
  intro s e h3 h4
  rcases h2 s e h3 h4 with h | h
  · exact h1 s e h h4
  · exact Or.inr h

theorem Grows.mono {T T' : Nat → Prop} {a b : MapSt υ} (h : Grows T a b) (ht : ∀ s, T s → T' s) : Grows T' a b := by
  intro s e h3 h4
  rcases h s e h3 h4 with h | h
  · exact Or.inl h
  · exact Or.inr (ht s h)

theorem Shrinks.grows {m m' : MapSt υ} (h : Shrinks m m') (T : Nat → Prop) : Grows T m m' :=
  fun s e h1 h2 => Or.inl (h.2.2 s e h1 h2)

/-! ## the folds over bank slots -/

/-- `stop_combiner_noexcept` over a list of slots: whatever throws, the invariant survives, nothing gets started, and
    every listed slot ends not started -/
theorem rzStopFold_spec (cfg : Cfg) (h : Hooks υ) (l : List Nat) (m : MapSt υ) (hI : Inv cfg.n m) :
    Inv cfg.n (rzStopFold cfg h l m) ∧ Shrinks m (rzStopFold cfg h l m) ∧
    (∀ s, s ∈ l → ∀ e, (rzStopFold cfg h l m).ent s = some e → e.started = false) := by
  induction l generalizing m with
  | nil => exact ⟨hI, Shrinks.refl m, by intro s hs; cases hs⟩
  | cons s0 rest ih =>
    obtain ⟨a1, a2, _, a4⟩ := removeEntry_spec cfg h s0 m hI
    obtain ⟨b1, b2, b3⟩ := ih (removeEntry cfg h s0 m).1 a1
    have heq : rzStopFold cfg h (s0 :: rest) m = rzStopFold cfg h rest (removeEntry cfg h s0 m).1 := rfl
    rw [heq]
    refine ⟨b1, a2.trans b2, ?_⟩
    intro s hs e he
    rcases List.mem_cons.mp hs with hs | hs
    · subst hs
      cases hst : e.started with
      | false => rfl
      | true =>
        have := a4 e (b2.2.2 s e he hst)
        rw [hst] at this; cases this
    · exact b3 s hs e he

/-- `reset_combiner_noexcept` / `destroy_at` over a list of slots -/
theorem rzResetFold_spec (cfg : Cfg) (h : Hooks υ) (l : List Nat) (m : MapSt υ) (hI : Inv cfg.n m) :
    Inv cfg.n (rzResetFold cfg h l m) ∧ Shrinks m (rzResetFold cfg h l m) ∧
    (∀ s, s ∈ l → ∀ e, (rzResetFold cfg h l m).ent s = some e → e.started = false) := by
  induction l generalizing m with
  | nil => exact ⟨hI, Shrinks.refl m, by intro s hs; cases hs⟩
  | cons s0 rest ih =>
    obtain ⟨a1, a2, a3⟩ := destroySlot_spec cfg h m s0 hI
    obtain ⟨b1, b2, b3⟩ := ih (destroySlot cfg h m s0) a1
    have heq : rzResetFold cfg h (s0 :: rest) m = rzResetFold cfg h rest (destroySlot cfg h m s0) := rfl
    rw [heq]
    refine ⟨b1, a2.trans b2, ?_⟩
    intro s hs e he
    rcases List.mem_cons.mp hs with hs | hs
    · subst hs
      cases hst : e.started with
      | false => rfl
      | true =>
        have := b2.2.2 s e he hst
        rw [a3] at this; cases this
    · exact b3 s hs e he

/-- the state part of `reduce_node_stop`'s scan is the swallowing fold; only the error differs -/
theorem rzStopFrom_state (cfg : Cfg) (h : Hooks υ) (l : List Nat) (m : MapSt υ) (e : Option String) :
    (rzStopFrom cfg h l m e).1 = rzStopFold cfg h l m := by
  induction l generalizing m e with
  | nil => rfl
  | cons s rest ih =>
    show (rzStopFrom cfg h rest (removeEntry cfg h s m).1 _).1 = rzStopFold cfg h rest (removeEntry cfg h s m).1
    exact ih _ _

/-! ## phase 1: the pointer table -/

/-- how the table `s.comb` after (part of) phase 1 relates to the table `comb0` it started from -/
structure P1Rel (hasZero : Bool) (cap live size : Nat) (comb0 : Nat → Bool) (s : RzP1 υ) : Prop where
  cr : ∀ p, p ∈ s.created → p < size ∧ comb0 p = false ∧ s.comb p = true ∧ neededAt hasZero cap live p = true
  rt : ∀ p, p ∈ s.retired → p < size ∧ comb0 p = true ∧ s.comb p = false ∧ neededAt hasZero cap live p = false
  other : ∀ p, p ∉ s.created → p ∉ s.retired → s.comb p = comb0 p

theorem setComb_same (f : Nat → Bool) (p : Nat) (v : Bool) : setComb f p v p = v := by simp [setComb]
theorem setComb_other (f : Nat → Bool) (p q : Nat) (v : Bool) (h : q ≠ p) : setComb f p v q = f q := by simp [setComb, h]

theorem P1Rel.init (hasZero : Bool) (cap live size : Nat) (comb0 : Nat → Bool) (m : MapSt υ) :
    P1Rel hasZero cap live size comb0 ({ m := m, comb := comb0 } : RzP1 υ) :=
  ⟨(by intro p hp; cases hp), (by intro p hp; cases hp), fun _ _ _ => rfl⟩

/-- one position of phase 1 -/
theorem rzPhase1_cons (hasZero : Bool) (bank cap live size : Nat) (p : Nat) (rest : List Nat) (s : RzP1 υ) :
    rzPhase1 hasZero bank cap live size (p :: rest) s =
      (if p < size then
        if (neededAt hasZero cap live p && !s.comb p) = true then
          if (s.m.ent (rzSlot bank p)).isSome = true then (s, some "logic:slot-occupied")
          else rzPhase1 hasZero bank cap live size rest
            { s with m := { s.m with cap := max s.m.cap (rzSlot bank p + 1), ent := setEnt s.m.ent (rzSlot bank p) (some rzBlank) }
                     comb := setComb s.comb p true, created := s.created ++ [p] }
        else if (!neededAt hasZero cap live p && s.comb p) = true then
          rzPhase1 hasZero bank cap live size rest { s with comb := setComb s.comb p false, retired := s.retired ++ [p] }
        else rzPhase1 hasZero bank cap live size rest s
      else rzPhase1 hasZero bank cap live size rest s) := by
  simp only [rzPhase1]

theorem rzPhase1_rel (hasZero : Bool) (bank cap live size : Nat) (comb0 : Nat → Bool) (l : List Nat) (s : RzP1 υ)
    (hr : P1Rel hasZero cap live size comb0 s) :
    P1Rel hasZero cap live size comb0 (rzPhase1 hasZero bank cap live size l s).1 := by
  induction l generalizing s with
  | nil => exact hr
  | cons p rest ih =>
    rw [rzPhase1_cons]
    by_cases hp : p < size
    · simp only [hp, if_true]
      by_cases hc : (neededAt hasZero cap live p && !s.comb p) = true
      · simp only [hc, if_true]
        by_cases ho : (s.m.ent (rzSlot bank p)).isSome = true
        · simp only [ho, if_true]; exact hr
        · simp only [ho]
          have hn : neededAt hasZero cap live p = true := by
            cases hx : neededAt hasZero cap live p <;> simp [hx] at hc ⊢
          have hs : s.comb p = false := by
            cases hx : s.comb p <;> simp [hx] at hc ⊢
          have hpc : p ∉ s.created := by
            intro hm; have := (hr.cr p hm).2.2.1; rw [hs] at this; cases this
          have hpr : p ∉ s.retired := by
            intro hm; have := (hr.rt p hm).2.2.2; rw [hn] at this; cases this
          apply ih
          refine ⟨?_, ?_, ?_⟩
          · intro q hq
            dsimp only at hq ⊢
            rcases List.mem_append.mp hq with hq | hq
            · obtain ⟨a, b, c, d⟩ := hr.cr q hq
              refine ⟨a, b, ?_, d⟩
              by_cases hqp : q = p
              · subst hqp; exact setComb_same _ _ _
              · rw [setComb_other _ _ _ _ hqp]; exact c
            · have hqp : q = p := by simpa using hq
              subst hqp
              refine ⟨hp, ?_, setComb_same _ _ _, hn⟩
              rw [← hr.other q hpc hpr]; exact hs
          · intro q hq
            dsimp only at hq ⊢
            obtain ⟨a, b, c, d⟩ := hr.rt q hq
            have hqp : q ≠ p := by intro heq; subst heq; exact hpr hq
            exact ⟨a, b, by rw [setComb_other _ _ _ _ hqp]; exact c, d⟩
          · intro q h1 h2
            dsimp only at h1 h2 ⊢
            have hqp : q ≠ p := by intro heq; subst heq; exact h1 (List.mem_append.mpr (Or.inr (by simp)))
            rw [setComb_other _ _ _ _ hqp]
            exact hr.other q (fun hm => h1 (List.mem_append.mpr (Or.inl hm))) h2
      · simp only [hc]
        by_cases hd : (!neededAt hasZero cap live p && s.comb p) = true
        · simp only [hd, if_true]
          have hn : neededAt hasZero cap live p = false := by
            cases hx : neededAt hasZero cap live p <;> simp [hx] at hd ⊢
          have hs : s.comb p = true := by
            cases hx : s.comb p <;> simp [hx] at hd ⊢
          have hpc : p ∉ s.created := by
            intro hm; have := (hr.cr p hm).2.2.2; rw [hn] at this; cases this
          have hpr : p ∉ s.retired := by
            intro hm; have := (hr.rt p hm).2.2.1; rw [hs] at this; cases this
          apply ih
          refine ⟨?_, ?_, ?_⟩
          · intro q hq
            dsimp only at hq ⊢
            obtain ⟨a, b, c, d⟩ := hr.cr q hq
            have hqp : q ≠ p := by intro heq; subst heq; exact hpc hq
            exact ⟨a, b, by rw [setComb_other _ _ _ _ hqp]; exact c, d⟩
          · intro q hq
            dsimp only at hq ⊢
            rcases List.mem_append.mp hq with hq | hq
            · obtain ⟨a, b, c, d⟩ := hr.rt q hq
              refine ⟨a, b, ?_, d⟩
              by_cases hqp : q = p
              · subst hqp; exact setComb_same _ _ _
              · rw [setComb_other _ _ _ _ hqp]; exact c
            · have hqp : q = p := by simpa using hq
              subst hqp
              refine ⟨hp, ?_, setComb_same _ _ _, hn⟩
              rw [← hr.other q hpc hpr]; exact hs
          · intro q h1 h2
            dsimp only at h1 h2 ⊢
            have hqp : q ≠ p := by intro heq; subst heq; exact h2 (List.mem_append.mpr (Or.inr (by simp)))
            rw [setComb_other _ _ _ _ hqp]
            exact hr.other q h1 (fun hm => h2 (List.mem_append.mpr (Or.inl hm)))
        · simp only [hd]
          exact ih s hr
    · simp only [hp, if_false]
      exact ih s hr

/-! ### the guard puts the table back -/

theorem foldl_setComb_false (l : List Nat) (c : Nat → Bool) (q : Nat) :
    (l.foldl (fun c p => setComb c p false) c) q = (if q ∈ l then false else c q) := by
  induction l generalizing c with
  | nil => simp
  | cons p rest ih =>
    rw [List.foldl_cons, ih]
    by_cases hq : q ∈ rest
    · simp [hq]
    · by_cases hqp : q = p
      · subst hqp; simp [hq, setComb_same]
      · simp [hq, hqp, setComb_other _ _ _ _ hqp]

theorem foldl_restore (l : List Nat) (c : Nat → Bool) (q : Nat) :
    (l.foldl (fun c p => if c p == false then setComb c p true else c) c) q = (if q ∈ l then true else c q) := by
  induction l generalizing c with
  | nil => simp
  | cons p rest ih =>
    rw [List.foldl_cons, ih]
    by_cases hq : q ∈ rest
    · simp [hq]
    · by_cases hqp : q = p
      · subst hqp
        simp only [hq, if_false, List.mem_cons, true_or, if_true]
        cases hc : c q with
        | false => simp [setComb_same]
        | true => simp [hc]
      · simp only [hq, if_false, List.mem_cons, hqp, false_or]
        cases hc : c p with
        | false => simp [setComb_other _ _ _ _ hqp]
        | true => simp

/-- **The unwind guard restores the pointer table**: after nulling the created pointers and putting the set-aside ones back,
    the table is the one phase 1 started from -/
theorem rzGuardComb_restores (hasZero : Bool) (cap live size : Nat) (comb0 : Nat → Bool) (s : RzP1 υ)
    (hr : P1Rel hasZero cap live size comb0 s) :
    rzGuardComb false s.comb s.created s.retired = comb0 := by
  funext q
  unfold rzGuardComb
  simp only [Bool.false_and, Bool.false_eq_true, if_false]
  rw [foldl_restore, foldl_setComb_false]
  by_cases hq : q ∈ s.retired
  · simp only [hq, if_true]
    exact (hr.rt q hq).2.1.symm
  · simp only [hq, if_false]
    by_cases hc : q ∈ s.created
    · simp only [hc, if_true]
      exact (hr.cr q hc).2.1.symm
    · simp only [hc, if_false]
      exact hr.other q hc hq

/-! ## phase 1 and phase 2: the banks -/

theorem Inv.construct {n : Nat} {m : MapSt υ} (hI : Inv n m) (s : Nat) (hs : m.ent s = none) :
    Inv n { m with cap := max m.cap (s + 1), ent := setEnt m.ent s (some rzBlank) } := by
  refine ⟨hI.ok, ?_, ?_, ?_, hI.fresh⟩
  · intro s' e' h1 h2
    dsimp only at h1
    by_cases hss : s' = s
    · subst hss; rw [setEnt_same] at h1; cases h1; cases h2
    · rw [setEnt_other _ _ _ _ hss] at h1
      obtain ⟨a, b, c⟩ := hI.st s' e' h1 h2
      exact ⟨a, b, Nat.lt_of_lt_of_le c (Nat.le_max_left _ _)⟩
  · intro c i hc
    obtain ⟨hi, s', e', h1, h2, h3⟩ := hI.back c i hc
    have hss : s' ≠ s := by intro heq; subst heq; rw [hs] at h1; cases h1
    exact ⟨hi, s', e', by dsimp only; rw [setEnt_other _ _ _ _ hss]; exact h1, h2, h3⟩
  · intro s1 s2 e1 e2 h1 h2 h3 h4 h5
    dsimp only at h1 h2
    have hs1 : s1 ≠ s := by intro heq; subst heq; rw [setEnt_same] at h1; cases h1; cases h3
    have hs2 : s2 ≠ s := by intro heq; subst heq; rw [setEnt_same] at h2; cases h2; cases h4
    rw [setEnt_other _ _ _ _ hs1] at h1
    rw [setEnt_other _ _ _ _ hs2] at h2
    exact hI.inj s1 s2 e1 e2 h1 h2 h3 h4 h5

/-- bank entries that exist in `m0` are the same in `m` -/
def Keeps (m0 m : MapSt υ) : Prop := ∀ s e, m0.ent s = some e → m.ent s = some e

/-- phase 1 only constructs blank entries in free slots: invariant, no new started entry, every old entry kept, and the
    created slots were free before -/
theorem rzPhase1_store (n : Nat) (hasZero : Bool) (bank cap live size : Nat) (m0 : MapSt υ) (l : List Nat) (s : RzP1 υ)
    (hI : Inv n s.m) (hg : Grows (fun _ => False) m0 s.m) (hk : Keeps m0 s.m)
    (hf : ∀ p, p ∈ s.created → m0.ent (rzSlot bank p) = none) :
    Inv n (rzPhase1 hasZero bank cap live size l s).1.m ∧
    Grows (fun _ => False) m0 (rzPhase1 hasZero bank cap live size l s).1.m ∧
    Keeps m0 (rzPhase1 hasZero bank cap live size l s).1.m ∧
    (∀ p, p ∈ (rzPhase1 hasZero bank cap live size l s).1.created → m0.ent (rzSlot bank p) = none) := by
  induction l generalizing s with
  | nil => exact ⟨hI, hg, hk, hf⟩
  | cons p rest ih =>
    rw [rzPhase1_cons]
    by_cases hp : p < size
    · simp only [hp, if_true]
      by_cases hc : (neededAt hasZero cap live p && !s.comb p) = true
      · simp only [hc, if_true]
        by_cases ho : (s.m.ent (rzSlot bank p)).isSome = true
        · simp only [ho, if_true]; exact ⟨hI, hg, hk, hf⟩
        · simp only [ho]
          have hnone : s.m.ent (rzSlot bank p) = none := by
            cases hx : s.m.ent (rzSlot bank p) with
            | none => rfl
            | some e => rw [hx] at ho; simp at ho
          apply ih
          · exact hI.construct _ hnone
          · intro s' e' h1 h2
            dsimp only at h1
            by_cases hss : s' = rzSlot bank p
            · subst hss; rw [setEnt_same] at h1; cases h1; cases h2
            · rw [setEnt_other _ _ _ _ hss] at h1; exact hg s' e' h1 h2
          · intro s' e' h1
            dsimp only
            have h2 := hk s' e' h1
            have hss : s' ≠ rzSlot bank p := by intro heq; subst heq; rw [hnone] at h2; cases h2
            rw [setEnt_other _ _ _ _ hss]; exact h2
          · intro q hq
            dsimp only at hq
            rcases List.mem_append.mp hq with hq | hq
            · exact hf q hq
            · have hqp : q = p := by simpa using hq
              subst hqp
              cases hx : m0.ent (rzSlot bank q) with
              | none => rfl
              | some e => have := hk _ e hx; rw [hnone] at this; cases this
      · simp only [hc]
        by_cases hd : (!neededAt hasZero cap live p && s.comb p) = true
        · simp only [hd, if_true]
          exact ih _ hI hg hk hf
        · simp only [hd]
          exact ih s hI hg hk hf
    · simp only [hp, if_false]
      exact ih s hI hg hk hf

/-- the created list only grows by positions, so `created` of the result contains `created` of the start (not needed below) -/
theorem rzStart_spec (cfg : Cfg) (h : Hooks υ) (s : Nat) (a : MapSt υ × Nat) (hI : Inv cfg.n a.1) :
    Inv cfg.n (rzStart cfg h s a).1.1 ∧ Grows (fun s' => s' = s) a.1 (rzStart cfg h s a).1.1 ∧
    (∀ s', s' ≠ s → (rzStart cfg h s a).1.1.ent s' = a.1.ent s') := by
  cases hes : a.1.ent s with
  | none =>
    have hr : rzStart cfg h s a = (a, none) := by simp only [rzStart, hes]
    rw [hr]; exact ⟨hI, Grows.refl _ _, fun _ _ => rfl⟩
  | some e =>
    cases hst : e.started with
    | true =>
      have hr : rzStart cfg h s a = (a, none) := by simp [rzStart, hes, hst]
      rw [hr]; exact ⟨hI, Grows.refl _ _, fun _ _ => rfl⟩
    | false =>
      have hI' : Inv cfg.n { a.1 with cap := max a.1.cap (s + 1) } := hI.setCap _ (Nat.le_max_left _ _)
      have hcap : s < ({ a.1 with cap := max a.1.cap (s + 1) } : MapSt υ).cap := by
        show s < max a.1.cap (s + 1)
        have := Nat.le_max_right a.1.cap (s + 1)
        omega
      have hg := createGo_spec cfg h s (Int.ofNat (a.2 + 1)) (some e) { a.1 with cap := max a.1.cap (s + 1) } hI' hes
        (by intro e' he; cases he; exact hst) hcap
      cases hc : (childStart h cfg.n ⟨Int.ofNat (a.2 + 1), a.1.gens (Int.ofNat (a.2 + 1)) + 1⟩ a.1.w).2 with
      | none =>
        have hr : rzStart cfg h s a =
            (({ a.1 with cap := max a.1.cap (s + 1),
                         ent := setEnt a.1.ent s (some ⟨Int.ofNat (a.2 + 1), a.1.gens (Int.ofNat (a.2 + 1)) + 1, true⟩),
                         gens := setGen a.1.gens (Int.ofNat (a.2 + 1)) (a.1.gens (Int.ofNat (a.2 + 1)) + 1),
                         w := (childStart h cfg.n ⟨Int.ofNat (a.2 + 1), a.1.gens (Int.ofNat (a.2 + 1)) + 1⟩ a.1.w).1 }, a.2 + 1), none) := by
          unfold rzStart
          simp only [hes, hst, Bool.false_eq_true, if_false]
          rw [hc]
        rw [hr]
        refine ⟨hg.1 hc, ?_, ?_⟩
        · intro s' e' h1 h2
          dsimp only at h1
          by_cases hss : s' = s
          · exact Or.inr hss
          · rw [setEnt_other _ _ _ _ hss] at h1; exact Or.inl h1
        · intro s' hss
          dsimp only
          exact setEnt_other _ _ _ _ hss
      | some x =>
        have hr : rzStart cfg h s a =
            (({ a.1 with cap := max a.1.cap (s + 1),
                         gens := setGen a.1.gens (Int.ofNat (a.2 + 1)) (a.1.gens (Int.ofNat (a.2 + 1)) + 1),
                         w := (childStart h cfg.n ⟨Int.ofNat (a.2 + 1), a.1.gens (Int.ofNat (a.2 + 1)) + 1⟩ a.1.w).1 }, a.2 + 1), some x) := by
          unfold rzStart
          simp only [hes, hst, Bool.false_eq_true, if_false]
          rw [hc]
        rw [hr]
        have hent : setEnt a.1.ent s (some e) = a.1.ent := funext (fun s' => setEnt_self _ _ _ hes s')
        have hinv := (hg.2 (by rw [hc]; simp)).1
        dsimp only at hinv
        rw [hent] at hinv
        exact ⟨hinv, fun s' e' h1 _ => Or.inl h1, fun _ _ => rfl⟩

theorem rzStartList_spec (cfg : Cfg) (h : Hooks υ) (bank : Nat) (l : List Nat) (a : MapSt υ × Nat) (hI : Inv cfg.n a.1) :
    Inv cfg.n (rzStartList cfg h bank l a).1.1 ∧
    Grows (fun s' => ∃ p, p ∈ l ∧ s' = rzSlot bank p) a.1 (rzStartList cfg h bank l a).1.1 ∧
    (∀ s', (∀ p, p ∈ l → s' ≠ rzSlot bank p) → (rzStartList cfg h bank l a).1.1.ent s' = a.1.ent s') := by
  induction l generalizing a with
  | nil => exact ⟨hI, Grows.refl _ _, fun _ _ => rfl⟩
  | cons p rest ih =>
    obtain ⟨a1, a2, a3⟩ := rzStart_spec cfg h (rzSlot bank p) a hI
    have a2' : Grows (fun s' => ∃ q, q ∈ p :: rest ∧ s' = rzSlot bank q) a.1 (rzStart cfg h (rzSlot bank p) a).1.1 :=
      a2.mono (fun s' hs => ⟨p, by simp, hs⟩)
    cases hr : (rzStart cfg h (rzSlot bank p) a).2 with
    | some x =>
      have heq : rzStartList cfg h bank (p :: rest) a = ((rzStart cfg h (rzSlot bank p) a).1, some x) := by
        simp only [rzStartList, hr]
      rw [heq]
      exact ⟨a1, a2', fun s' hs => a3 s' (hs p (by simp))⟩
    | none =>
      have heq : rzStartList cfg h bank (p :: rest) a = rzStartList cfg h bank rest (rzStart cfg h (rzSlot bank p) a).1 := by
        simp only [rzStartList, hr]
      rw [heq]
      obtain ⟨b1, b2, b3⟩ := ih (rzStart cfg h (rzSlot bank p) a).1 a1
      refine ⟨b1, a2'.trans (b2.mono (fun s' ⟨q, hq, hs⟩ => ⟨q, List.mem_cons_of_mem _ hq, hs⟩)), ?_⟩
      intro s' hs
      rw [b3 s' (fun q hq => hs q (List.mem_cons_of_mem _ hq)), a3 s' (hs p (by simp))]

/-! ## the pointer table covers every started bank entry -/

/-- every started bank entry is reachable through the pointer table: it sits in the current bank at a position whose
    pointer is non-null (so `reduce_node_stop`, which only walks the table, reaches it) -/
def Tab (st : RzSt υ) : Prop :=
  ∀ s e, st.m.ent s = some e → e.started = true → ∃ p, s = rzSlot st.bank p ∧ p < st.size ∧ st.comb p = true

theorem mem_rzLive (size : Nat) (comb : Nat → Bool) (p : Nat) : p ∈ rzLive size comb ↔ p < size ∧ comb p = true := by
  simp [rzLive, List.mem_filter, List.mem_range]

theorem Tab.shrink {st st' : RzSt υ} (hT : Tab st) (hg : Grows (fun _ => False) st.m st'.m) (hb : st'.bank = st.bank)
    (hs : st'.size = st.size) (hc : st'.comb = st.comb) : Tab st' := by
  intro s e h1 h2
  rcases hg s e h1 h2 with h3 | h3
  · rw [hb, hs, hc]; exact hT s e h3 h2
  · exact h3.elim

/-- the unwind guard: the created combiners are reset; with the guard as coded the table is the old one again, and it
    covers every started entry -/
theorem rzGuard_spec (c : RzCfg) (h : Hooks υ) (st : RzSt υ) (bankChanged : Bool) (nb : Nat) (positions : List Nat)
    (p1 : RzP1 υ) (m : MapSt υ) (next : Nat) (cap live size1 : Nat) (comb1 : Nat → Bool)
    (hI : Inv c.base.n m)
    (hg : Grows (fun s => ∃ p, p ∈ p1.created ∧ s = rzSlot nb p) st.m m)
    (hrel : P1Rel c.hasZero cap live size1 comb1 p1)
    (hsame : bankChanged = false → comb1 = st.comb) :
    Inv c.base.n (rzGuard c h st bankChanged nb positions p1 m next).m ∧
    (rzGuard c h st bankChanged nb positions p1 m next).m = rzResetFold c.base h (p1.created.map (rzSlot nb)) m ∧
    (rzGuard c h st bankChanged nb positions p1 m next).size = st.size ∧
    (rzGuard c h st bankChanged nb positions p1 m next).cap = st.cap ∧
    (rzGuard c h st bankChanged nb positions p1 m next).bank = st.bank ∧
    (c.guardEarly = false → (rzGuard c h st bankChanged nb positions p1 m next).comb = st.comb) ∧
    (c.guardEarly = false → Tab st → Tab (rzGuard c h st bankChanged nb positions p1 m next)) := by
  obtain ⟨r1, r2, r3⟩ := rzResetFold_spec c.base h (p1.created.map (rzSlot nb)) m hI
  have hm : (rzGuard c h st bankChanged nb positions p1 m next).m = rzResetFold c.base h (p1.created.map (rzSlot nb)) m := by
    unfold rzGuard; cases bankChanged <;> rfl
  have hsz : (rzGuard c h st bankChanged nb positions p1 m next).size = st.size := by
    unfold rzGuard; cases bankChanged <;> rfl
  have hcp : (rzGuard c h st bankChanged nb positions p1 m next).cap = st.cap := by
    unfold rzGuard; cases bankChanged <;> rfl
  have hbk : (rzGuard c h st bankChanged nb positions p1 m next).bank = st.bank := by
    unfold rzGuard; cases bankChanged <;> rfl
  have hcb : c.guardEarly = false → (rzGuard c h st bankChanged nb positions p1 m next).comb = st.comb := by
    intro hge
    unfold rzGuard
    cases bankChanged with
    | true => rfl
    | false =>
      show rzGuardComb c.guardEarly p1.comb p1.created p1.retired = st.comb
      rw [hge, rzGuardComb_restores c.hasZero cap live size1 comb1 p1 hrel]
      exact hsame rfl
  refine ⟨by rw [hm]; exact r1, hm, hsz, hcp, hbk, hcb, ?_⟩
  intro hge hT s e he hs
  rw [hm] at he
  rw [hbk, hsz, hcb hge]
  have h1 := r2.2.2 s e he hs
  rcases hg s e h1 hs with h2 | ⟨p, hp, hsp⟩
  · exact hT s e h2 hs
  · have := r3 s (by rw [hsp]; exact List.mem_map.mpr ⟨p, hp, rfl⟩) e he
    rw [hs] at this; cases this

/-- phase 3: the set-aside combiners (and, after a capacity growth, the whole old generation) are stopped; every started
    entry that is left is in the new table -/
theorem rzPhase3_spec (c : RzCfg) (h : Hooks υ) (st : RzSt υ) (bankChanged : Bool) (nb cap live size1 : Nat)
    (comb1 : Nat → Bool) (p1 : RzP1 υ) (m : MapSt υ)
    (hI : Inv c.base.n m)
    (hg : Grows (fun s => ∃ p, p ∈ p1.created ∧ s = rzSlot nb p) st.m m)
    (hrel : P1Rel c.hasZero cap live size1 comb1 p1)
    (hsame : bankChanged = false → comb1 = st.comb ∧ nb = st.bank ∧ size1 = st.size) :
    Inv c.base.n (rzStopFold c.base h (if bankChanged then (rzLive st.size st.comb).map (rzSlot st.bank) else [])
      (rzStopFold c.base h (p1.retired.reverse.map (rzSlot nb)) m)) ∧
    (Tab st → ∀ s e, (rzStopFold c.base h (if bankChanged then (rzLive st.size st.comb).map (rzSlot st.bank) else [])
      (rzStopFold c.base h (p1.retired.reverse.map (rzSlot nb)) m)).ent s = some e → e.started = true →
      ∃ p, s = rzSlot nb p ∧ p < size1 ∧ p1.comb p = true) := by
  obtain ⟨a1, a2, a3⟩ := rzStopFold_spec c.base h (p1.retired.reverse.map (rzSlot nb)) m hI
  obtain ⟨b1, b2, b3⟩ := rzStopFold_spec c.base h (if bankChanged then (rzLive st.size st.comb).map (rzSlot st.bank) else [])
    (rzStopFold c.base h (p1.retired.reverse.map (rzSlot nb)) m) a1
  refine ⟨b1, ?_⟩
  intro hT s e he hs
  have h1 := b2.2.2 s e he hs          -- an entry after the first fold
  have h2 := a2.2.2 s e h1 hs          -- an entry of `m`
  rcases hg s e h2 hs with h3 | ⟨p, hp, hsp⟩
  · obtain ⟨p, hsp, hlt, hcomb⟩ := hT s e h3 hs
    cases hbc : bankChanged with
    | true =>
      -- the old generation was stopped wholesale
      have := b3 s (by rw [hbc, hsp]; exact List.mem_map.mpr ⟨p, (mem_rzLive _ _ _).mpr ⟨hlt, hcomb⟩, rfl⟩) e he
      rw [hs] at this; cases this
    | false =>
      obtain ⟨e1, e2, e3⟩ := hsame hbc
      by_cases hr : p ∈ p1.retired
      · have := a3 s (by rw [hsp, e2]; exact List.mem_map.mpr ⟨p, List.mem_reverse.mpr hr, rfl⟩) e h1
        rw [hs] at this; cases this
      · have hnc : p ∉ p1.created := by
          intro hm
          have := (hrel.cr p hm).2.1
          rw [e1, hcomb] at this; cases this
        refine ⟨p, by rw [e2]; exact hsp, by rw [e3]; exact hlt, ?_⟩
        rw [hrel.other p hnc hr, e1]; exact hcomb
  · exact ⟨p, hsp, (hrel.cr p hp).1, (hrel.cr p hp).2.2.1⟩

/-- `rebuild_structure` once the capacity is decided -/
theorem rzRebuildIn_spec (c : RzCfg) (h : Hooks υ) (I : RzIn) (st : RzSt υ) (bankChanged : Bool) (nb capacity size1 : Nat)
    (comb1 : Nat → Bool) (positions : List Nat) (hI : Inv c.base.n st.m)
    (hsame : bankChanged = false → comb1 = st.comb ∧ nb = st.bank ∧ size1 = st.size) :
    Inv c.base.n (rzRebuildIn c h I st bankChanged nb capacity size1 comb1 positions).1.m ∧
    (c.guardEarly = false → Tab st → Tab (rzRebuildIn c h I st bankChanged nb capacity size1 comb1 positions).1) := by
  have hrel := rzPhase1_rel c.hasZero nb capacity I.live size1 comb1 positions ({ m := st.m, comb := comb1 } : RzP1 υ)
    (P1Rel.init _ _ _ _ _ _)
  obtain ⟨q1, q2, _, _⟩ := rzPhase1_store c.base.n c.hasZero nb capacity I.live size1 st.m positions
    ({ m := st.m, comb := comb1 } : RzP1 υ) hI (Grows.refl _ _) (fun _ _ hx => hx) (by intro p hp; cases hp)
  have hgP := q2.mono (T' := fun s => ∃ p, p ∈ (rzPhase1 c.hasZero nb capacity I.live size1 positions
    ({ m := st.m, comb := comb1 } : RzP1 υ)).1.created ∧ s = rzSlot nb p) (fun _ hf => hf.elim)
  obtain ⟨t1, t2, _⟩ := rzStartList_spec c.base h nb
    (rzPhase1 c.hasZero nb capacity I.live size1 positions ({ m := st.m, comb := comb1 } : RzP1 υ)).1.created.reverse
    ((rzPhase1 c.hasZero nb capacity I.live size1 positions ({ m := st.m, comb := comb1 } : RzP1 υ)).1.m, st.next) q1
  have hgS := hgP.trans (t2.mono (T' := fun s => ∃ p, p ∈ (rzPhase1 c.hasZero nb capacity I.live size1 positions
    ({ m := st.m, comb := comb1 } : RzP1 υ)).1.created ∧ s = rzSlot nb p)
    (fun s' ⟨p, hp, hs⟩ => ⟨p, List.mem_reverse.mp hp, hs⟩))
  have hs1 : bankChanged = false → comb1 = st.comb := fun hb => (hsame hb).1
  have gP := fun next => rzGuard_spec c h st bankChanged nb positions _ _ next capacity I.live size1 comb1 q1 hgP hrel hs1
  have gS := fun next => rzGuard_spec c h st bankChanged nb positions _ _ next capacity I.live size1 comb1 t1 hgS hrel hs1
  obtain ⟨f1, f2⟩ := rzPhase3_spec c h st bankChanged nb capacity I.live size1 comb1 _ _ t1 hgS hrel hsame
  unfold rzRebuildIn
  dsimp only
  split
  · exact ⟨(gP _).1, (gP _).2.2.2.2.2.2⟩
  · split
    · exact ⟨(gP _).1, (gP _).2.2.2.2.2.2⟩
    · split
      · exact ⟨(gS _).1, (gS _).2.2.2.2.2.2⟩
      · split
        · exact ⟨(gS _).1, (gS _).2.2.2.2.2.2⟩
        · exact ⟨f1, fun _ hT => f2 hT⟩

/-- `rebuild_structure`: whatever throws — phase 1, the binding, the start of a created combiner, the publication — the
    invariant survives and (with the guard as coded) every started combiner is in the pointer table afterwards -/
theorem rzRebuild_spec (c : RzCfg) (h : Hooks υ) (I : RzIn) (st : RzSt υ) (hI : Inv c.base.n st.m) :
    Inv c.base.n (rzRebuild c h I st).1.m ∧ (c.guardEarly = false → Tab st → Tab (rzRebuild c h I st).1) := by
  unfold rzRebuild
  dsimp only
  split
  · split
    · exact ⟨hI, fun _ hT => hT⟩
    · exact rzRebuildIn_spec c h I st true _ _ _ _ _ hI (by intro hx; cases hx)
  · exact rzRebuildIn_spec c h I st false _ _ _ _ _ hI (fun _ => ⟨rfl, rfl, rfl⟩)

/-! ## the cycle, the node stop, the release, the run -/

theorem evalSlots_ent (cfg : Cfg) (h : Hooks υ) (l : List Nat) (m : MapSt υ) : (evalSlots cfg h l m).1.ent = m.ent := by
  induction l generalizing m with
  | nil => rfl
  | cons s rest ih =>
    cases hes : m.ent s with
    | none =>
      have heq : evalSlots cfg h (s :: rest) m = evalSlots cfg h rest m := by simp [evalSlots, hes]
      rw [heq]; exact ih m
    | some e =>
      cases hst : e.started with
      | false =>
        have heq : evalSlots cfg h (s :: rest) m = evalSlots cfg h rest m := by simp [evalSlots, hes, hst]
        rw [heq]; exact ih m
      | true =>
        cases hr : (childEval h cfg.n e.cid m.w).2 with
        | none =>
          have heq : evalSlots cfg h (s :: rest) m = evalSlots cfg h rest { m with w := (childEval h cfg.n e.cid m.w).1 } := by
            simp [evalSlots, hes, hst, hr]
          rw [heq]; exact ih _
        | some x =>
          have heq : evalSlots cfg h (s :: rest) m = ({ m with w := (childEval h cfg.n e.cid m.w).1 }, some x) := by
            simp [evalSlots, hes, hst, hr]
          rw [heq]

theorem rzCycle_spec (c : RzCfg) (h : Hooks υ) (I : RzIn) (st : RzSt υ) (hI : Inv c.base.n st.m) :
    Inv c.base.n (rzCycle c h I st).1.m ∧ (c.guardEarly = false → Tab st → Tab (rzCycle c h I st).1) := by
  unfold rzCycle
  cases ha : I.active with
  | false => simp only [Bool.not_false, if_true]; exact ⟨hI, fun _ hT => hT⟩
  | true =>
    simp only [Bool.not_true, Bool.false_eq_true, if_false]
    obtain ⟨p1, p2, _⟩ := rzResetFold_spec c.base h st.prev st.m hI
    have hT0 : Tab st → Tab ({ st with m := rzResetFold c.base h st.prev st.m, prev := [] } : RzSt υ) :=
      fun hT => hT.shrink (p2.grows _) rfl rfl rfl
    -- the rebuild (or none)
    have hr : ∀ b : Bool,
        Inv c.base.n (if b = true then rzRebuild c h I ({ st with m := rzResetFold c.base h st.prev st.m, prev := [] } : RzSt υ)
                      else (({ st with m := rzResetFold c.base h st.prev st.m, prev := [] } : RzSt υ), none)).1.m ∧
        (c.guardEarly = false → Tab st →
          Tab (if b = true then rzRebuild c h I ({ st with m := rzResetFold c.base h st.prev st.m, prev := [] } : RzSt υ)
               else (({ st with m := rzResetFold c.base h st.prev st.m, prev := [] } : RzSt υ), none)).1) := by
      intro b
      cases b with
      | true =>
        simp only [if_true]
        obtain ⟨x1, x2⟩ := rzRebuild_spec c h I ({ st with m := rzResetFold c.base h st.prev st.m, prev := [] } : RzSt υ) p1
        exact ⟨x1, fun hge hT => x2 hge (hT0 hT)⟩
      | false =>
        simp only [Bool.false_eq_true, if_false]
        exact ⟨p1, fun _ hT => hT0 hT⟩
    obtain ⟨y1, y2⟩ := hr (I.structural || !st.published)
    split
    · exact ⟨y1, y2⟩
    · refine ⟨evalSlots_inv c.base h _ _ y1, ?_⟩
      intro hge hT
      exact (y2 hge hT).shrink (fun s e h1 _ => Or.inl (by simp only [evalSlots_ent] at h1; exact h1)) rfl rfl rfl

theorem rzRunCycles_spec (c : RzCfg) (h : Hooks υ) (l : List RzIn) (k : Nat) (st : RzSt υ) (hI : Inv c.base.n st.m) :
    Inv c.base.n (rzRunCycles c h l k st).1.m ∧ (c.guardEarly = false → Tab st → Tab (rzRunCycles c h l k st).1) := by
  induction l generalizing k st with
  | nil => exact ⟨hI, fun _ hT => hT⟩
  | cons I rest ih =>
    have hI' : Inv c.base.n ({ st with m := { st.m with w := emit (.cyc k) st.m.w } } : RzSt υ).m :=
      hI.setW _ (emit_mark_Lw _ _ (Or.inr (Or.inr ⟨k, rfl⟩)))
    have hT' : Tab st → Tab ({ st with m := { st.m with w := emit (.cyc k) st.m.w } } : RzSt υ) :=
      fun hT => hT.shrink (Grows.refl _ _) rfl rfl rfl
    obtain ⟨a1, a2⟩ := rzCycle_spec c h I _ hI'
    cases hr : (rzCycle c h I { st with m := { st.m with w := emit (.cyc k) st.m.w } }).2 with
    | none =>
      have heq : rzRunCycles c h (I :: rest) k st =
          rzRunCycles c h rest (k + 1) (rzCycle c h I { st with m := { st.m with w := emit (.cyc k) st.m.w } }).1 := by
        simp [rzRunCycles, hr]
      rw [heq]
      obtain ⟨b1, b2⟩ := ih (k + 1) _ a1
      exact ⟨b1, fun hge hT => b2 hge (a2 hge (hT' hT))⟩
    | some x =>
      have heq : rzRunCycles c h (I :: rest) k st =
          ((rzCycle c h I { st with m := { st.m with w := emit (.cyc k) st.m.w } }).1, some x) := by
        simp [rzRunCycles, hr]
      rw [heq]
      exact ⟨a1, fun hge hT => a2 hge (hT' hT)⟩

/-- `reduce_node_stop`: the invariant survives whatever throws; when the table covers the started entries, none is left -/
theorem rzNodeStop_spec (c : RzCfg) (h : Hooks υ) (st : RzSt υ) (hI : Inv c.base.n st.m) :
    Inv c.base.n (rzNodeStop c h st).1.m ∧ (Tab st → NoStarted (rzNodeStop c h st).1.m) ∧
    (rzNodeStop c h st).1.m = rzStopFold c.base h ((rzLive st.size st.comb).map (rzSlot st.bank)) st.m := by
  have hm : (rzNodeStop c h st).1.m = rzStopFold c.base h ((rzLive st.size st.comb).map (rzSlot st.bank)) st.m := by
    unfold rzNodeStop; dsimp only; exact rzStopFrom_state _ _ _ _ _
  obtain ⟨a1, a2, a3⟩ := rzStopFold_spec c.base h ((rzLive st.size st.comb).map (rzSlot st.bank)) st.m hI
  refine ⟨by rw [hm]; exact a1, ?_, hm⟩
  intro hT s e he
  rw [hm] at he
  cases hs : e.started with
  | false => rfl
  | true =>
    obtain ⟨p, hsp, hlt, hcomb⟩ := hT s e (a2.2.2 s e he hs) hs
    have := a3 s (by rw [hsp]; exact List.mem_map.mpr ⟨p, (mem_rzLive _ _ _).mpr ⟨hlt, hcomb⟩, rfl⟩) e he
    rw [hs] at this; cases this

theorem rzRelease_spec (c : RzCfg) (h : Hooks υ) (b : Bool) (st : RzSt υ) (hI : Inv c.base.n st.m) :
    Inv c.base.n (rzRelease c h b st) ∧ NoStarted (rzRelease c h b st) := by
  unfold rzRelease
  dsimp only
  have h1 : Inv c.base.n (if b = true then st else (rzNodeStop c h st).1).m := by
    cases b with
    | true => exact hI
    | false => exact (rzNodeStop_spec c h st hI).1
  generalize (if b = true then st else (rzNodeStop c h st).1) = st1 at h1 ⊢
  exact destroyAll_spec c.base h _ (rzResetFold_spec c.base h _ _ (rzResetFold_spec c.base h st1.prev st1.m h1).1).1

theorem Tab.init (u0 : υ) : Tab ({ m := { w := { u := u0 } } } : RzSt υ) := by
  intro s e he; cases he

theorem rzRun_spec (c : RzCfg) (h : Hooks υ) (cycles : List RzIn) (u0 : υ) :
    Inv c.base.n (rzRun c h cycles u0).ret.m ∧ Inv c.base.n (rzRun c h cycles u0).fin ∧ NoStarted (rzRun c h cycles u0).fin ∧
    (c.guardEarly = false → (c.base.cleanup = true ∨ (rzRun c h cycles u0).err = none) → NoStarted (rzRun c h cycles u0).ret.m) := by
  obtain ⟨h0, hT0⟩ := rzRunCycles_spec c h cycles 0 { m := { w := { u := u0 } } } (Inv.init c.base.n u0)
  -- the marks do not touch the ledger, the entries, or the table
  have hmark : ∀ (st : RzSt υ) (e : Ev), (e = .stopping ∨ e = .returned ∨ ∃ k, e = .cyc k) → Inv c.base.n st.m →
      Inv c.base.n ({ st with m := { st.m with w := emit e st.m.w } } : RzSt υ).m :=
    fun st e he hI => hI.setW _ (emit_mark_Lw _ _ he)
  have hmarkT : ∀ (st : RzSt υ) (e : Ev), Tab st → Tab ({ st with m := { st.m with w := emit e st.m.w } } : RzSt υ) :=
    fun st e hT => hT.shrink (Grows.refl _ _) rfl rfl rfl
  have hmarkN : ∀ (st : RzSt υ) (e : Ev), NoStarted st.m → NoStarted ({ st with m := { st.m with w := emit e st.m.w } } : RzSt υ).m :=
    fun st e hn => hn
  have h1 := hmark _ .stopping (Or.inl rfl) h0
  obtain ⟨s1, s2, _⟩ := rzNodeStop_spec c h _ h1
  have h2 := hmark _ .returned (Or.inr (Or.inl rfl)) s1
  have h3 := hmark _ .returned (Or.inr (Or.inl rfl)) h0
  unfold rzRun
  dsimp only
  split
  · refine ⟨h2, (rzRelease_spec c h true _ h2).1, (rzRelease_spec c h true _ h2).2, ?_⟩
    intro hge _
    exact hmarkN _ _ (s2 (hmarkT _ _ (hT0 hge (Tab.init u0))))
  · split
    · refine ⟨h2, (rzRelease_spec c h true _ h2).1, (rzRelease_spec c h true _ h2).2, ?_⟩
      intro hge _
      exact hmarkN _ _ (s2 (hmarkT _ _ (hT0 hge (Tab.init u0))))
    · rename_i hcl
      refine ⟨h3, (rzRelease_spec c h false _ h3).1, (rzRelease_spec c h false _ h3).2, ?_⟩
      intro _ hc
      rcases hc with hc | hc
      · exact absurd hc hcl
      · cases hc

/-! ## the theorems -/

/-- **No lifecycle violation, ever** (reduce_ with its pointer table, with or without a zero): in every run — all tree
    histories, all fault assignments, binding / publication failures, clean-up on or off, either guard — every start hook
    runs on a fresh node, every evaluation on a started node, every stop on a started node, up to the return of `run()` and
    up to the release. -/
theorem rz_run_no_violation (c : RzCfg) (h : Hooks υ) (cycles : List RzIn) (u0 : υ) :
    (ledgerOf (rzRun c h cycles u0).ret.m.w.tr).bad = false ∧ (ledgerOf (rzRun c h cycles u0).fin.w.tr).bad = false :=
  ⟨(rzRun_spec c h cycles u0).1.ok, (rzRun_spec c h cycles u0).2.1.ok⟩

/-- **Stopped by the return of `run()`** (the unwind guard as coded): with clean-up on error, or when the run ends without
    an error, no node of any combiner — created, set aside and put back by the guard, retired, or live at the end — is left
    started when `run()` returns, whichever hooks, bindings or publications threw. -/
theorem rz_clean_at_return (c : RzCfg) (hge : c.guardEarly = false) (h : Hooks υ) (cycles : List RzIn) (u0 : υ)
    (hc : c.base.cleanup = true ∨ (rzRun c h cycles u0).err = none) :
    Clean (ledgerOf (rzRun c h cycles u0).ret.m.w.tr) :=
  clean_of_noStarted (rzRun_spec c h cycles u0).1 ((rzRun_spec c h cycles u0).2.2.2 hge hc)

/-- **Stopped by the release of the executor**, in every configuration (also with clean-up off, also with the guard of
    seed s108: the banks' destructors stop what the table lost). -/
theorem rz_clean_at_release (c : RzCfg) (h : Hooks υ) (cycles : List RzIn) (u0 : υ) :
    Clean (ledgerOf (rzRun c h cycles u0).fin.w.tr) :=
  clean_of_noStarted (rzRun_spec c h cycles u0).2.1 (rzRun_spec c h cycles u0).2.2.1

/-- the hook calls of every combiner node over the whole run (up to the release): nothing, a failed start, or
    `start, evaluate*, stop` -/
theorem rz_run_node_language (c : RzCfg) (h : Hooks υ) (cycles : List RzIn) (u0 : υ) (cid : Cid) (i : Nat) :
    proj cid i (rzRun c h cycles u0).fin.w.tr = [] ∨ proj cid i (rzRun c h cycles u0).fin.w.tr = [.hSf] ∨
    ∃ mid last, proj cid i (rzRun c h cycles u0).fin.w.tr = .hS :: (mid ++ [last]) ∧ (∀ t ∈ mid, isEval t) ∧ isStop last :=
  node_language _ (rz_run_no_violation c h cycles u0).2 (rz_clean_at_release c h cycles u0) cid i

/-! ## the first error wins -/

/-- **What a rebuild throws**: the error of phase 1, else of the binding, else of the FIRST created combiner whose start
    threw (`rzStartList` ends at it), else of the publication — the unwind guard resets combiners with swallowed errors and
    cannot replace it; a rebuild that reaches phase 3 does not throw (`stop_combiner_noexcept`). -/
theorem rzRebuildIn_error (c : RzCfg) (h : Hooks υ) (I : RzIn) (st : RzSt υ) (bankChanged : Bool) (nb capacity size1 : Nat)
    (comb1 : Nat → Bool) (positions : List Nat) :
    (rzRebuildIn c h I st bankChanged nb capacity size1 comb1 positions).2 =
      (match (rzPhase1 c.hasZero nb capacity I.live size1 positions ({ m := st.m, comb := comb1 } : RzP1 υ)).2 with
       | some x => some x
       | none =>
         if I.bindThrows then some "bind" else
         match (rzStartList c.base h nb
            (rzPhase1 c.hasZero nb capacity I.live size1 positions ({ m := st.m, comb := comb1 } : RzP1 υ)).1.created.reverse
            ((rzPhase1 c.hasZero nb capacity I.live size1 positions ({ m := st.m, comb := comb1 } : RzP1 υ)).1.m, st.next)).2 with
         | some x => some x
         | none => if I.publishThrows then some "publish" else none) := by
  unfold rzRebuildIn
  dsimp only
  cases hp : (rzPhase1 c.hasZero nb capacity I.live size1 positions ({ m := st.m, comb := comb1 } : RzP1 υ)).2 with
  | some x => rfl
  | none =>
    dsimp only
    cases hb : I.bindThrows with
    | true => rfl
    | false =>
      simp only [Bool.false_eq_true, if_false]
      cases hs : (rzStartList c.base h nb
          (rzPhase1 c.hasZero nb capacity I.live size1 positions ({ m := st.m, comb := comb1 } : RzP1 υ)).1.created.reverse
          ((rzPhase1 c.hasZero nb capacity I.live size1 positions ({ m := st.m, comb := comb1 } : RzP1 υ)).1.m, st.next)).2 with
      | some x => rfl
      | none =>
        dsimp only
        cases hq : I.publishThrows <;> rfl

/-- the start loop of phase 2 ends at the first combiner whose start throws, with that error -/
theorem rzStartList_first_error (cfg : Cfg) (h : Hooks υ) (bank p : Nat) (rest : List Nat) (a : MapSt υ × Nat) :
    (∀ x, (rzStart cfg h (rzSlot bank p) a).2 = some x → rzStartList cfg h bank (p :: rest) a = ((rzStart cfg h (rzSlot bank p) a).1, some x)) ∧
    ((rzStart cfg h (rzSlot bank p) a).2 = none →
      rzStartList cfg h bank (p :: rest) a = rzStartList cfg h bank rest (rzStart cfg h (rzSlot bank p) a).1) := by
  constructor
  · intro x hx; simp only [rzStartList, hx]
  · intro hx; simp only [rzStartList, hx]

/-- **The error `run()` throws**: an error of a cycle (rebuild or evaluation) ends the run and is what the caller sees — the
    node stop that follows cannot replace it; without one it is the first error of `reduce_node_stop`'s scan. -/
theorem rz_first_error (c : RzCfg) (h : Hooks υ) (cycles : List RzIn) (u0 : υ) :
    (∀ x, (rzRunCycles c h cycles 0 { m := { w := { u := u0 } } }).2 = some x → (rzRun c h cycles u0).err = some x) ∧
    ((rzRunCycles c h cycles 0 { m := { w := { u := u0 } } }).2 = none →
      (rzRun c h cycles u0).err =
        (rzNodeStop c h { (rzRunCycles c h cycles 0 { m := { w := { u := u0 } } }).1 with
          m := { (rzRunCycles c h cycles 0 { m := { w := { u := u0 } } }).1.m with
                 w := emit .stopping (rzRunCycles c h cycles 0 { m := { w := { u := u0 } } }).1.m.w } }).2) := by
  constructor
  · intro x hx
    unfold rzRun
    dsimp only
    split
    · rename_i hn; rw [hn] at hx; cases hx
    · rename_i y hy
      rw [hy] at hx; cases hx
      split <;> rfl
  · intro hn
    unfold rzRun
    dsimp only
    split
    · rfl
    · rename_i y hy; rw [hy] at hn; cases hn

/-! ## a failing rebuild leaves the table and the banks' old entries as they were -/

theorem destroySlot_ent_other (cfg : Cfg) (h : Hooks υ) (m : MapSt υ) (s s' : Nat) (hne : s' ≠ s) :
    (destroySlot cfg h m s).ent s' = m.ent s' := by
  unfold destroySlot
  cases hes : m.ent s with
  | none => rfl
  | some e => exact setEnt_other _ _ _ _ hne

theorem rzResetFold_ent_other (cfg : Cfg) (h : Hooks υ) (l : List Nat) (m : MapSt υ) (s' : Nat) (hne : ∀ s, s ∈ l → s' ≠ s) :
    (rzResetFold cfg h l m).ent s' = m.ent s' := by
  induction l generalizing m with
  | nil => rfl
  | cons s rest ih =>
    show (rzResetFold cfg h rest (destroySlot cfg h m s)).ent s' = m.ent s'
    rw [ih _ (fun s0 hs0 => hne s0 (List.mem_cons_of_mem _ hs0)), destroySlot_ent_other _ _ _ _ _ (hne s (by simp))]

theorem rzRebuildIn_fail (c : RzCfg) (hge : c.guardEarly = false) (h : Hooks υ) (I : RzIn) (st : RzSt υ) (bankChanged : Bool)
    (nb capacity size1 : Nat) (comb1 : Nat → Bool) (positions : List Nat) (hI : Inv c.base.n st.m)
    (hsame : bankChanged = false → comb1 = st.comb ∧ nb = st.bank ∧ size1 = st.size) :
    (rzRebuildIn c h I st bankChanged nb capacity size1 comb1 positions).2 ≠ none →
    (rzRebuildIn c h I st bankChanged nb capacity size1 comb1 positions).1.comb = st.comb ∧
    (rzRebuildIn c h I st bankChanged nb capacity size1 comb1 positions).1.size = st.size ∧
    (rzRebuildIn c h I st bankChanged nb capacity size1 comb1 positions).1.cap = st.cap ∧
    (rzRebuildIn c h I st bankChanged nb capacity size1 comb1 positions).1.bank = st.bank ∧
    Keeps st.m (rzRebuildIn c h I st bankChanged nb capacity size1 comb1 positions).1.m := by
  have hrel := rzPhase1_rel c.hasZero nb capacity I.live size1 comb1 positions ({ m := st.m, comb := comb1 } : RzP1 υ)
    (P1Rel.init _ _ _ _ _ _)
  obtain ⟨q1, q2, q3, q4⟩ := rzPhase1_store c.base.n c.hasZero nb capacity I.live size1 st.m positions
    ({ m := st.m, comb := comb1 } : RzP1 υ) hI (Grows.refl _ _) (fun _ _ hx => hx) (by intro p hp; cases hp)
  have hgP := q2.mono (T' := fun s => ∃ p, p ∈ (rzPhase1 c.hasZero nb capacity I.live size1 positions
    ({ m := st.m, comb := comb1 } : RzP1 υ)).1.created ∧ s = rzSlot nb p) (fun _ hf => hf.elim)
  obtain ⟨t1, t2, t3⟩ := rzStartList_spec c.base h nb
    (rzPhase1 c.hasZero nb capacity I.live size1 positions ({ m := st.m, comb := comb1 } : RzP1 υ)).1.created.reverse
    ((rzPhase1 c.hasZero nb capacity I.live size1 positions ({ m := st.m, comb := comb1 } : RzP1 υ)).1.m, st.next) q1
  have hgS := hgP.trans (t2.mono (T' := fun s => ∃ p, p ∈ (rzPhase1 c.hasZero nb capacity I.live size1 positions
    ({ m := st.m, comb := comb1 } : RzP1 υ)).1.created ∧ s = rzSlot nb p)
    (fun s' ⟨p, hp, hs⟩ => ⟨p, List.mem_reverse.mp hp, hs⟩))
  have hs1 : bankChanged = false → comb1 = st.comb := fun hb => (hsame hb).1
  -- an old entry is not in a created slot
  have hfree : ∀ s e, st.m.ent s = some e → ∀ s0, s0 ∈ (rzPhase1 c.hasZero nb capacity I.live size1 positions
      ({ m := st.m, comb := comb1 } : RzP1 υ)).1.created.map (rzSlot nb) → s ≠ s0 := by
    intro s e he s0 hs0 heq
    obtain ⟨p, hp, hsp⟩ := List.mem_map.mp hs0
    rw [heq, ← hsp, q4 p hp] at he; cases he
  -- the start loop keeps the old entries too
  have q3S : Keeps st.m (rzStartList c.base h nb
      (rzPhase1 c.hasZero nb capacity I.live size1 positions ({ m := st.m, comb := comb1 } : RzP1 υ)).1.created.reverse
      ((rzPhase1 c.hasZero nb capacity I.live size1 positions ({ m := st.m, comb := comb1 } : RzP1 υ)).1.m, st.next)).1.1 := by
    intro s e he
    rw [t3 s (fun p hp heq => hfree s e he _ (List.mem_map.mpr ⟨p, List.mem_reverse.mp hp, rfl⟩) heq)]
    exact q3 s e he
  have fin : ∀ (m : MapSt υ) (next : Nat), Inv c.base.n m →
      Grows (fun s => ∃ p, p ∈ (rzPhase1 c.hasZero nb capacity I.live size1 positions
        ({ m := st.m, comb := comb1 } : RzP1 υ)).1.created ∧ s = rzSlot nb p) st.m m → Keeps st.m m →
      (rzGuard c h st bankChanged nb positions (rzPhase1 c.hasZero nb capacity I.live size1 positions
        ({ m := st.m, comb := comb1 } : RzP1 υ)).1 m next).comb = st.comb ∧
      (rzGuard c h st bankChanged nb positions (rzPhase1 c.hasZero nb capacity I.live size1 positions
        ({ m := st.m, comb := comb1 } : RzP1 υ)).1 m next).size = st.size ∧
      (rzGuard c h st bankChanged nb positions (rzPhase1 c.hasZero nb capacity I.live size1 positions
        ({ m := st.m, comb := comb1 } : RzP1 υ)).1 m next).cap = st.cap ∧
      (rzGuard c h st bankChanged nb positions (rzPhase1 c.hasZero nb capacity I.live size1 positions
        ({ m := st.m, comb := comb1 } : RzP1 υ)).1 m next).bank = st.bank ∧
      Keeps st.m (rzGuard c h st bankChanged nb positions (rzPhase1 c.hasZero nb capacity I.live size1 positions
        ({ m := st.m, comb := comb1 } : RzP1 υ)).1 m next).m := by
    intro m next hIm hgm hkm
    obtain ⟨_, g2, g3, g4, g5, g6, _⟩ := rzGuard_spec c h st bankChanged nb positions _ m next capacity I.live size1 comb1
      hIm hgm hrel hs1
    refine ⟨g6 hge, g3, g4, g5, ?_⟩
    intro s e he
    rw [g2, rzResetFold_ent_other _ _ _ _ _ (hfree s e he)]
    exact hkm s e he
  unfold rzRebuildIn
  dsimp only
  split
  · intro _; exact fin _ _ q1 hgP q3
  · split
    · intro _; exact fin _ _ q1 hgP q3
    · split
      · intro _; exact fin _ _ t1 hgS q3S
      · split
        · intro _; exact fin _ _ t1 hgS q3S
        · intro hne; exact absurd rfl hne

/-- **A failing rebuild leaves every set-aside combiner in the table** (the guard as coded).  When `rebuild_structure`
    throws — in particular when a created combiner fails to start while phase 1 has set another one aside — the pointer
    table, its size, the capacity and the current bank are exactly what they were before the rebuild, and every bank entry
    that existed before it (the set-aside combiners: still started) is unchanged.  So the set-aside combiners are reachable
    by `reduce_node_stop` again. -/
theorem rz_failed_rebuild_restores_table (c : RzCfg) (hge : c.guardEarly = false) (h : Hooks υ) (I : RzIn) (st : RzSt υ)
    (hI : Inv c.base.n st.m) (hne : (rzRebuild c h I st).2 ≠ none) :
    (rzRebuild c h I st).1.comb = st.comb ∧ (rzRebuild c h I st).1.size = st.size ∧ (rzRebuild c h I st).1.cap = st.cap ∧
    (rzRebuild c h I st).1.bank = st.bank ∧ Keeps st.m (rzRebuild c h I st).1.m := by
  revert hne
  unfold rzRebuild
  dsimp only
  split
  · split
    · intro _; exact ⟨rfl, rfl, rfl, rfl, fun _ _ hx => hx⟩
    · exact rzRebuildIn_fail c hge h I st true _ _ _ _ _ hI (by intro hx; cases hx)
  · exact rzRebuildIn_fail c hge h I st false _ _ _ _ _ hI (fun _ => ⟨rfl, rfl, rfl⟩)

/-- … and the node stop that follows a failed rebuild (clean-up on error) leaves no bank entry started -/
theorem rz_failed_rebuild_then_stop_clean (c : RzCfg) (hge : c.guardEarly = false) (h : Hooks υ) (I : RzIn) (st : RzSt υ)
    (hI : Inv c.base.n st.m) (hT : Tab st) :
    NoStarted (rzNodeStop c h (rzRebuild c h I st).1).1.m :=
  (rzNodeStop_spec c h _ (rzRebuild_spec c h I st hI).1).2.1 ((rzRebuild_spec c h I st hI).2 hge hT)

/-! ## the guard of seed s108 leaks; non-vacuity -/

/-- a zero, three live values (capacity 4: root combiner `1`, left combiner `2`), then one (the left combiner is retired,
    the root combines the value with the zero), then two (the left position is needed again, the root is not: the rebuild
    creates combiner `3` and sets the root combiner `1` aside).  Full rebuilds, so that the positions are a plain range. -/
def rzUp : List RzIn :=
  [ { structural := true, live := 3, full := true, zeroEvent := true },
    { structural := true, live := 1, full := true },
    { structural := true, live := 2, full := true } ]

/-- the same going down: 3 -> 2 (the root is retired) -> 1 (the singleton root is created, the left combiner set aside) -/
def rzDown : List RzIn :=
  [ { structural := true, live := 3, full := true, zeroEvent := true },
    { structural := true, live := 2, full := true },
    { structural := true, live := 1, full := true } ]

/-- **Counter-lemma (seed s108)**: with `if (!created.empty()) return;` in the unwind guard, the start fault of the combiner
    created by the 1 -> 2 rebuild (start call 3) loses the set-aside root combiner `1#1`: `run()` returns the start error
    with that combiner still started (clean-up on error is ON), and only the release of the executor stops it.  With the
    guard as coded the same run stops it before `run()` returns.  Likewise for the 2 -> 1 rebuild and combiner `2#1`. -/
theorem rz_guard_early_leaks :
    (rzRun { base := { n := 1 }, guardEarly := true } (planHooks 3 0) rzUp 0).err = some "start" ∧
    (ledgerOf (rzRun { base := { n := 1 }, guardEarly := true } (planHooks 3 0) rzUp 0).ret.m.w.tr).st ⟨1, 1⟩ 0 = .started ∧
    (ledgerOf (rzRun { base := { n := 1 }, guardEarly := true } (planHooks 3 0) rzUp 0).fin.w.tr).st ⟨1, 1⟩ 0 = .stopped ∧
    (ledgerOf (rzRun { base := { n := 1 }, guardEarly := true } (planHooks 3 0) rzUp 0).ret.m.w.tr).bad = false ∧
    (rzRun { base := { n := 1 } } (planHooks 3 0) rzUp 0).err = some "start" ∧
    (ledgerOf (rzRun { base := { n := 1 } } (planHooks 3 0) rzUp 0).ret.m.w.tr).st ⟨1, 1⟩ 0 = .stopped ∧
    (ledgerOf (rzRun { base := { n := 1 }, guardEarly := true } (planHooks 3 0) rzDown 0).ret.m.w.tr).st ⟨2, 1⟩ 0 = .started ∧
    (ledgerOf (rzRun { base := { n := 1 } } (planHooks 3 0) rzDown 0).ret.m.w.tr).st ⟨2, 1⟩ 0 = .stopped := by
  decide

/-- the hypotheses are satisfiable and the runs non-trivial: without a fault the 1 -> 2 rebuild starts combiner `3#1`, then
    stops the set-aside `1#1` (phase 3); every combiner node runs `start, evaluate*, stop` -/
example :
    (rzRun { base := { n := 2 } } (planHooks 0 0) rzUp 0).err = none ∧
    proj ⟨1, 1⟩ 1 (rzRun { base := { n := 2 } } (planHooks 0 0) rzUp 0).ret.m.w.tr = [.hS, .hE, .hE, .hX] ∧
    proj ⟨2, 1⟩ 0 (rzRun { base := { n := 2 } } (planHooks 0 0) rzUp 0).ret.m.w.tr = [.hS, .hE, .hX] ∧
    proj ⟨3, 1⟩ 0 (rzRun { base := { n := 2 } } (planHooks 0 0) rzUp 0).ret.m.w.tr = [.hS, .hE, .hX] := by
  decide

/-- a start fault in the SECOND node of the created combiner (start call 6 with two nodes per combiner) plus a throwing
    stop in the child's own rollback: the start error is what `run()` reports, the prefix of `3#1` is rolled back, the
    set-aside `1#1` is put back by the guard and stopped by the node stop; with clean-up OFF it is stopped by the release -/
example :
    (rzRun { base := { n := 2 } } (planHooks 6 3) rzUp 0).err = some "start" ∧
    proj ⟨3, 1⟩ 0 (rzRun { base := { n := 2 } } (planHooks 6 3) rzUp 0).ret.m.w.tr = [.hS, .hXf] ∧
    proj ⟨3, 1⟩ 1 (rzRun { base := { n := 2 } } (planHooks 6 3) rzUp 0).ret.m.w.tr = [.hSf] ∧
    proj ⟨1, 1⟩ 0 (rzRun { base := { n := 2 } } (planHooks 6 3) rzUp 0).ret.m.w.tr = [.hS, .hE, .hE, .hX] ∧
    (ledgerOf (rzRun { base := { n := 2, cleanup := false } } (planHooks 6 3) rzUp 0).ret.m.w.tr).st ⟨1, 1⟩ 0 = .started ∧
    (ledgerOf (rzRun { base := { n := 2, cleanup := false } } (planHooks 6 3) rzUp 0).fin.w.tr).st ⟨1, 1⟩ 0 = .stopped := by
  decide

/-- a failing binding and a failing publication in the 1 -> 2 rebuild (not reachable from the harness): the guard resets
    the created combiner (started already when the publication throws) and puts the root back -/
example :
    (rzRun { base := { n := 1 } } (planHooks 0 0)
      (rzUp.take 2 ++ [{ structural := true, live := 2, full := true, publishThrows := true }]) 0).err = some "publish" ∧
    proj ⟨3, 1⟩ 0 (rzRun { base := { n := 1 } } (planHooks 0 0)
      (rzUp.take 2 ++ [{ structural := true, live := 2, full := true, publishThrows := true }]) 0).ret.m.w.tr = [.hS, .hX] ∧
    (ledgerOf (rzRun { base := { n := 1 } } (planHooks 0 0)
      (rzUp.take 2 ++ [{ structural := true, live := 2, full := true, bindThrows := true }]) 0).ret.m.w.tr).st ⟨1, 1⟩ 0 = .stopped := by
  decide

/-- capacity growth with a zero (2 -> 3 live values: capacity 2 -> 4, the new generation is built in the other bank) whose
    second new combiner fails to start: the first new one is reset, the old generation stays in the table and is stopped -/
example :
    (rzRun { base := { n := 1 } } (planHooks 3 0)
      [{ structural := true, live := 2, full := true, zeroEvent := true }, { structural := true, live := 3, full := true }] 0).err
      = some "start" ∧
    proj ⟨1, 1⟩ 0 (rzRun { base := { n := 1 } } (planHooks 3 0)
      [{ structural := true, live := 2, full := true, zeroEvent := true }, { structural := true, live := 3, full := true }] 0).ret.m.w.tr
      = [.hS, .hE, .hX] ∧
    proj ⟨2, 1⟩ 0 (rzRun { base := { n := 1 } } (planHooks 3 0)
      [{ structural := true, live := 2, full := true, zeroEvent := true }, { structural := true, live := 3, full := true }] 0).ret.m.w.tr
      = [.hS, .hX] := by
  decide

/-- `Tab` and `Inv` hold of a non-trivial state: the state after the first two cycles of `rzUp` has a started root combiner
    in bank 1 (the first growth swapped the banks), slot `rzSlot 1 0`, that the table points to -/
example :
    ((rzRunCycles { base := { n := 1 } } (planHooks 0 0) (rzUp.take 2) 0 { m := { w := { u := 0 } } }).1.m.ent (rzSlot 1 0)
        = some ⟨1, 1, true⟩) ∧
    (rzRunCycles { base := { n := 1 } } (planHooks 0 0) (rzUp.take 2) 0 { m := { w := { u := 0 } } }).1.comb 0 = true ∧
    (rzRunCycles { base := { n := 1 } } (planHooks 0 0) (rzUp.take 2) 0 { m := { w := { u := 0 } } }).1.bank = 1 := by
  decide

/-- the hypotheses of `rz_failed_rebuild_restores_table` / `rz_failed_rebuild_then_stop_clean` hold of a non-trivial state
    and a rebuild that does fail: after the first two cycles of `rzUp` and one more evaluation without a structural change
    (it destroys the previous generation; `Inv` and `Tab` by the run theorems), the 1 -> 2 rebuild whose created combiner
    fails to start throws, and the set-aside root combiner `1#1` is back in the table, still started in its bank slot -/
example :
    Inv 1 (rzRunCycles { base := { n := 1 } } (planHooks 3 0) (rzUp.take 2 ++ [{ live := 1 }]) 0 { m := { w := { u := 0 } } }).1.m ∧
    Tab (rzRunCycles { base := { n := 1 } } (planHooks 3 0) (rzUp.take 2 ++ [{ live := 1 }]) 0 { m := { w := { u := 0 } } }).1 ∧
    (rzRebuild { base := { n := 1 } } (planHooks 3 0) { structural := true, live := 2, full := true }
      (rzRunCycles { base := { n := 1 } } (planHooks 3 0) (rzUp.take 2 ++ [{ live := 1 }]) 0 { m := { w := { u := 0 } } }).1).2
        = some "start" ∧
    (rzRebuild { base := { n := 1 } } (planHooks 3 0) { structural := true, live := 2, full := true }
      (rzRunCycles { base := { n := 1 } } (planHooks 3 0) (rzUp.take 2 ++ [{ live := 1 }]) 0 { m := { w := { u := 0 } } }).1).1.comb 0
        = true ∧
    (rzRebuild { base := { n := 1 } } (planHooks 3 0) { structural := true, live := 2, full := true }
      (rzRunCycles { base := { n := 1 } } (planHooks 3 0) (rzUp.take 2 ++ [{ live := 1 }]) 0 { m := { w := { u := 0 } } }).1).1.m.ent
        (rzSlot 1 0) = some ⟨1, 1, true⟩ :=
  ⟨(rzRunCycles_spec { base := { n := 1 } } (planHooks 3 0) (rzUp.take 2 ++ [{ live := 1 }]) 0 _ (Inv.init 1 0)).1,
   (rzRunCycles_spec { base := { n := 1 } } (planHooks 3 0) (rzUp.take 2 ++ [{ live := 1 }]) 0 _ (Inv.init 1 0)).2 rfl (Tab.init 0),
   by decide, by decide, by decide⟩

end HgVerif.DynLife
