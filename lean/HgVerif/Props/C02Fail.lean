import HgVerif.Props.C02
/-!
# C02 — wake-ups survive a cycle that ends in an exception

When a node throws, the scan of `evaluate_impl` stops at it.  If the exception is captured
(`try_except`, `map_` error capture) the graph keeps running, so the wake-ups that were pending in the
nodes the scan did not reach must still be known to the graph's `next_scheduled_time`
(`keep_unvisited_wakeups` in `graph.cpp`, `keepUnvisited` in the model — the `fix:` of finding F5).

* `cinv_scanFrom_any` : the scan invariant holds at the end of EVERY fresh scan, completed or failed.
* `failed_cycle_next_lower` / `failed_cycle_next_is_slot` : after a failed fresh cycle at `t` the cached
  next time is a lower bound of every slot in the future and is itself such a slot.
* `armed_wakeup_survives_failure` : a wake-up armed for `s` (`t < s < end`) when a cycle fails still
  makes the run loop continue with a cycle at some `t' ≤ s`.
-/
namespace HgVerif.Sched

/-- the accumulator of `keep_unvisited_wakeups` -/
def keepF (t : Time) (acc : Option Time) (s : Time) : Option Time := if s > t && olt s acc then some s else acc

theorem keepF_some (t a s : Time) : keepF t (some a) s = if t < s ∧ s < a then some s else some a := by
  unfold keepF olt; by_cases h1 : t < s <;> by_cases h2 : s < a <;> simp [h1, h2]

theorem keepF_none (t s : Time) : keepF t none s = if t < s then some s else none := by
  unfold keepF olt; by_cases h1 : t < s <;> simp [h1]

/-- a value already in the accumulator only gets smaller -/
theorem foldl_keepF_some (t : Time) (l : List Time) (a : Time) :
    ∃ r, l.foldl (keepF t) (some a) = some r ∧ r ≤ a := by
  induction l generalizing a with
  | nil => exact ⟨a, rfl, Nat.le_refl _⟩
  | cons s rest ih =>
    rw [List.foldl_cons, keepF_some]
    by_cases h : t < s ∧ s < a
    · rw [if_pos h]; obtain ⟨r, hr, hle⟩ := ih s; exact ⟨r, hr, by omega⟩
    · rw [if_neg h]; exact ih a

/-- every future element of the list is bounded below by the result -/
theorem foldl_keepF_lower (t : Time) (l : List Time) (acc : Option Time) (s : Time) (hs : s ∈ l) (hts : t < s) :
    ∃ r, l.foldl (keepF t) acc = some r ∧ r ≤ s := by
  induction l generalizing acc with
  | nil => cases hs
  | cons x rest ih =>
    rw [List.foldl_cons]
    rcases List.mem_cons.mp hs with rfl | hmem
    · cases acc with
      | none =>
        rw [keepF_none, if_pos hts]
        exact foldl_keepF_some t rest s
      | some a =>
        rw [keepF_some]
        by_cases h : t < s ∧ s < a
        · rw [if_pos h]; exact foldl_keepF_some t rest s
        · rw [if_neg h]; obtain ⟨r, hr, hle⟩ := foldl_keepF_some t rest a; exact ⟨r, hr, by omega⟩
    · exact ih _ hmem

/-- the result is the old accumulator or a future element of the list -/
theorem foldl_keepF_origin (t : Time) (l : List Time) (acc : Option Time) (r : Time)
    (h : l.foldl (keepF t) acc = some r) : acc = some r ∨ (r ∈ l ∧ t < r) := by
  induction l generalizing acc with
  | nil => exact Or.inl h
  | cons x rest ih =>
    rw [List.foldl_cons] at h
    rcases ih _ h with h1 | ⟨h1, h2⟩
    · unfold keepF at h1
      split at h1
      · rename_i hc
        injection h1 with h1; subst h1
        simp only [gt_iff_lt, Bool.and_eq_true, decide_eq_true_eq] at hc
        exact Or.inr ⟨by simp, hc.1⟩
      · exact Or.inl h1
    · exact Or.inr ⟨by simp [h1], h2⟩

theorem keepUnvisited_slots (t : Time) (i : Nat) (g : G) (j : Nat) : slotOf (keepUnvisited t i g) j = slotOf g j := rfl

theorem keepUnvisited_next (t : Time) (i : Nat) (g : G) :
    (keepUnvisited t i g).next = (g.slots.drop (i + 1)).foldl (keepF t) g.next := rfl

theorem slotOf_mem_drop (g : G) (k j : Nat) (hk : k ≤ j) (hj : j < g.slots.length) : slotOf g j ∈ g.slots.drop k := by
  unfold slotOf
  rw [List.getD_eq_getElem?_getD, List.getElem?_eq_getElem hj, Option.getD_some]
  rw [List.mem_drop_iff_getElem]
  exact ⟨j - k, by omega, by congr 1; omega⟩

theorem mem_drop_slotOf (g : G) (k : Nat) (x : Time) (hx : x ∈ g.slots.drop k) :
    ∃ j, k ≤ j ∧ j < g.slots.length ∧ slotOf g j = x := by
  rw [List.mem_drop_iff_getElem] at hx
  obtain ⟨m, hm, hx⟩ := hx
  have hm' : k + m < g.slots.length := by omega
  refine ⟨k + m, by omega, hm', ?_⟩
  unfold slotOf
  rw [List.getD_eq_getElem?_getD, List.getElem?_eq_getElem hm', Option.getD_some]; exact hx

/-- folding the unvisited tail extends the scan invariant from `i + 1` to the whole node array -/
theorem cinv_keepUnvisited {t : Time} {i n : Nat} {g : G} (h : CInv t (i + 1) g) (hlen : g.slots.length = n) :
    CInv t n (keepUnvisited t i g) := by
  refine ⟨h.now, ?_, ?_⟩
  · intro j hj hlt
    rw [keepUnvisited_slots] at hlt ⊢
    rw [keepUnvisited_next]
    by_cases hji : j < i + 1
    · obtain ⟨nx, hnx, hle⟩ := h.lower j hji hlt
      rw [hnx]
      obtain ⟨r, hr, hle'⟩ := foldl_keepF_some t (g.slots.drop (i + 1)) nx
      exact ⟨r, hr, by omega⟩
    · exact foldl_keepF_lower t _ _ _ (slotOf_mem_drop g (i + 1) j (by omega) (by omega)) hlt
  · intro nx hnx
    rw [keepUnvisited_next] at hnx
    rcases foldl_keepF_origin t _ _ _ hnx with h1 | ⟨h1, h2⟩
    · obtain ⟨ht, j, hj, hsj⟩ := h.isSlot nx h1
      by_cases hjn : j < n
      · exact ⟨ht, j, hjn, by rw [keepUnvisited_slots]; exact hsj⟩
      · -- a position outside the array reads the default slot 0, which is not in the future
        exfalso
        have : slotOf g j = 0 := by
          unfold slotOf; rw [List.getD_eq_getElem?_getD, List.getElem?_eq_none (by omega)]; rfl
        omega
    · obtain ⟨j, _, hj, hsj⟩ := mem_drop_slotOf g (i + 1) nx h1
      exact ⟨h2, j, by omega, by rw [keepUnvisited_slots]; exact hsj⟩

/-- the scan invariant holds at the end of every scan, whether it completed or stopped at a throwing node -/
theorem cinv_scanFrom_any {σ : Type} (β : Beh σ) (n : Nat) (hβ : Disc β n) (t : Time) (fuel i : Nat) (g : G) (u : σ)
    (ev : List Nat) (hfi : i + fuel = n) (h : CInv t i g) (hlen : g.slots.length = n) :
    CInv t n (scanFrom β t fuel i g u ev).g := by
  induction fuel generalizing i g u ev with
  | zero =>
    have : i = n := by omega
    subst this
    rw [scanFrom_zero]
    exact ⟨h.now, h.lower, h.isSlot⟩
  | succ fuel ih =>
    rcases Nat.lt_trichotomy (slotOf g i) t with hs | hs | hs
    · rw [scanFrom_skip β t fuel i g u ev hs]
      exact ih (i + 1) _ _ _ (by omega) (cinv_step_eval h (by omega) i) hlen
    · have h1 : CInv t (i + 1) { g with cursor := i } := cinv_step_eval h (by omega) i
      have h2 := cinv_requests (β.eval i t u).reqs h1 hlen (hβ i (by omega) t u)
      cases hrok : (β.eval i t u).ok with
      | true =>
        rw [scanFrom_eval_ok β t fuel i g u ev hs hrok]
        exact ih (i + 1) _ _ _ (by omega) h2.1 h2.2
      | false =>
        have hs' : g.slots.getD i 0 = t := hs
        rw [scanFrom]; simp only [hs', ↓reduceIte, hrok, Bool.false_eq_true]
        have h3 : CInv t (i + 1) { (β.eval i t u).reqs.foldl scheduleNode { g with cursor := i } with failed := true } :=
          ⟨h2.1.now, h2.1.lower, h2.1.isSlot⟩
        exact cinv_keepUnvisited h3 h2.2
    · rw [scanFrom_fold β t fuel i g u ev hs]
      exact ih (i + 1) _ _ _ (by omega) (cinv_step_fold h hs i) hlen

/-- **no pending wake-up is lost when a cycle fails**: after any fresh cycle at `t` — completed or ended
    by an exception — the cached next time is a lower bound of every slot in the future -/
theorem failed_cycle_next_lower {σ : Type} (fx : Bool) (β : Beh σ) (n : Nat) (hβ : Disc β n) (t : Time) (g : G) (u : σ)
    (hlen : g.slots.length = n) (hc : g.cursor = 0) :
    ∀ j, j < n → t < slotOf (cycle fx β n t g u).g j →
      ∃ nx, (cycle fx β n t g u).g.next = some nx ∧ nx ≤ slotOf (cycle fx β n t g u).g j := by
  have hfresh : cycle fx β n t g u =
      scanFrom β t n 0 { g with now := t, failed := false, next := none, cursor := 0 } u [] := by
    cases fx <;> simp [cycle, resuming, hc]
  rw [hfresh]
  exact (cinv_scanFrom_any β n hβ t n 0 _ u [] (by omega) (cinv_init t g) (by simpa using hlen)).lower

/-- … and it is the slot of a node and `> t`, also after a failed cycle -/
theorem failed_cycle_next_is_slot {σ : Type} (fx : Bool) (β : Beh σ) (n : Nat) (hβ : Disc β n) (t : Time) (g : G) (u : σ)
    (hlen : g.slots.length = n) (hc : g.cursor = 0) :
    ∀ nx, (cycle fx β n t g u).g.next = some nx →
      t < nx ∧ ∃ j, j < n ∧ slotOf (cycle fx β n t g u).g j = nx := by
  have hfresh : cycle fx β n t g u =
      scanFrom β t n 0 { g with now := t, failed := false, next := none, cursor := 0 } u [] := by
    cases fx <;> simp [cycle, resuming, hc]
  rw [hfresh]
  exact (cinv_scanFrom_any β n hβ t n 0 _ u [] (by omega) (cinv_init t g) (by simpa using hlen)).isSlot

/-- **an armed wake-up survives a captured failure**: whatever the outcome of the fresh cycle at `t`, a node
    armed for `s` with `t < s < end` makes the run loop pick a next cycle at some `t'` with `t < t' ≤ s` -/
theorem armed_wakeup_survives_failure {σ : Type} (fx : Bool) (β : Beh σ) (n : Nat) (hβ : Disc β n) (endT t : Time)
    (g : G) (u : σ) (hlen : g.slots.length = n) (hc : g.cursor = 0)
    (j : Nat) (hjn : j < n) (s : Time) (hs : slotOf (cycle fx β n t g u).g j = s) (hts : t < s) (hse : s < endT) :
    ∃ t', nextCycle (cycle fx β n t g u).g endT = some t' ∧ t < t' ∧ t' ≤ s := by
  obtain ⟨nx, hnx, hle⟩ := failed_cycle_next_lower fx β n hβ t g u hlen hc j hjn (by rw [hs]; exact hts)
  have hgt := (failed_cycle_next_is_slot fx β n hβ t g u hlen hc nx hnx).1
  rw [hs] at hle
  refine ⟨nx, ?_, hgt, hle⟩
  unfold nextCycle; rw [hnx]
  have : ¬ nx ≥ endT := by omega
  simp [this]

/-! ## non-vacuity: node 0 throws at `t = 3` while node 1 is armed for 7 -/

def exFail : Beh Unit := ⟨fun i t u => if i = 0 ∧ t = 3 then { st := u, ok := false } else { st := u }⟩

example : Disc exFail 2 := by
  intro i _ t u r hr
  simp only [exFail] at hr
  split at hr <;> simp at hr

example : (cycle true exFail 2 3 { slots := [3, 7], next := some 3, now := 1 } ()).ok = false ∧
    (cycle true exFail 2 3 { slots := [3, 7], next := some 3, now := 1 } ()).g.next = some 7 := by decide

end HgVerif.Sched
