import HgVerif.Props.C15Flow
/-!
# C15 / C10 at run level — whole simulation runs: a failing (or otherwise different) node never disturbs
# the nodes that do not depend on it

`Props/C15Flow.lean` proves non-interference for ONE cycle (`cycle_noninterference`) and that a cycle in
which a node takes no part is invisible to it (`idle_cycle_keeps`).  Here the two are put together over
whole runs of `simLoop` (`run_storage` + `advance_simulation`).

Two programs with the same nodes and edges whose node functions and self-scheduling agree on a
producer-closed set `U` (the nodes that do not depend on the failing one); elsewhere they are arbitrary:
a node that throws and is captured, writes an error instead of a value, stops re-arming itself, or
re-arms itself more often.  The two runs then have DIFFERENT cycle times in general (the failing node may
cause or lose cycles), so the runs are compared by a two-sided stuttering argument:

* a cycle of either run at a time at which no node of `U` is due does not evaluate any node of `U`
  (`no_due_no_fire`) and leaves state and slot of every node of `U` untouched (`solo_cycle_keeps`);
* if a node of `U` is due at the next cycle time of one run, the other run's next cycle is at the same
  time or is one of its own `U`-idle cycles (`due_forces`): wake-ups of `U` are never skipped (C02's cache
  invariant `CInv`);
* at a common cycle time the one-cycle theorem applies.

`run_noninterference`: when both runs have come to their end (no next cycle before `endT`), every node of
`U` holds the same state in both.  Because the theorem holds for an ARBITRARY state type and arbitrary node
functions, it covers the whole recorded stream of a node, not only its last value: let the node keep the
list of `(time, value)` it produced as part of its state (`streams_noninterference`).
-/
namespace HgVerif.Flow
open HgVerif.Sched

variable {S : Type}

/-! ## the run loop, one step at a time -/

theorem simLoop_done {σ : Type} (fx : Bool) (β : Beh σ) (n : Nat) (endT : Time) (fuel : Nat) (g : G) (u : σ)
    (ts : List Time) (h : nextCycle g endT = none) :
    simLoop fx β n endT fuel g u ts = { g := g, st := u, times := ts, ok := true } := by
  cases fuel with
  | zero => rfl
  | succ f => rw [simLoop, h]

theorem simLoop_step {σ : Type} (fx : Bool) (β : Beh σ) (n : Nat) (endT : Time) (fuel : Nat) (g : G) (u : σ)
    (ts : List Time) (t : Time) (h : nextCycle g endT = some t) (hok : (cycle fx β n t g u).ok = true) :
    simLoop fx β n endT (fuel + 1) g u ts =
      simLoop fx β n endT fuel (cycle fx β n t g u).g (cycle fx β n t g u).st (ts ++ [t]) := by
  rw [simLoop, h]
  simp only [hok, ↓reduceIte]

theorem nextCycle_some {g : G} {endT t : Time} (h : nextCycle g endT = some t) : g.next = some t ∧ t < endT := by
  unfold nextCycle at h
  cases hn : g.next with
  | none => rw [hn] at h; simp at h
  | some n =>
    rw [hn] at h
    by_cases hge : n ≥ endT
    · simp [hge] at h
    · simp [hge] at h; subst h; exact ⟨rfl, by omega⟩

theorem nextCycle_of_next {g : G} {endT b : Time} (h : g.next = some b) (hb : b < endT) : nextCycle g endT = some b := by
  unfold nextCycle
  rw [h]
  have : ¬ b ≥ endT := by omega
  simp [this]

/-! ## what one fresh cycle leaves behind (shape of the graph record) -/

theorem cycle_struct (F : Flow S) (ρ : Rank F.n) (hT : Topo F ρ) (hS : SelfFuture F) (fx : Bool) (t : Time) (g : G)
    (σ0 : Nat → S) (hlen : g.slots.length = F.n) (hc : g.cursor = 0) :
    (cycle fx (beh F ρ) F.n t g σ0).g.slots.length = F.n ∧ (cycle fx (beh F ρ) F.n t g σ0).g.cursor = 0 ∧
    CInv t F.n (cycle fx (beh F ρ) F.n t g σ0).g := by
  have hok := cycle_ok F ρ hT hS fx t g σ0 hlen hc
  have hfresh : cycle fx (beh F ρ) F.n t g σ0 =
      scanFrom (beh F ρ) t F.n 0 { g with now := t, failed := false, next := none, cursor := 0 } σ0 [] := by
    cases fx <;> simp [cycle, resuming, hc]
  refine ⟨?_, ?_, ?_⟩
  · rw [hfresh] at hok ⊢; exact scanFrom_length _ F.n t F.n 0 _ σ0 [] (by simpa using hlen) hok
  · rw [hfresh] at hok ⊢; exact scanFrom_cursor_zero _ t F.n 0 _ σ0 [] hok
  · rw [hfresh]
    exact cinv_scanFrom_any _ F.n (disc_beh F ρ hT hS) t F.n 0 _ σ0 [] (by omega) (cinv_init t g) (by simpa using hlen)

/-- positions outside the graph are never touched -/
theorem cycle_outside (F : Flow S) (ρ : Rank F.n) (hT : Topo F ρ) (hS : SelfFuture F) (fx : Bool) (t : Time) (g : G)
    (σ0 : Nat → S) (hlen : g.slots.length = F.n) (hc : g.cursor = 0) (i : Nat) (hi : ¬ i < F.n) :
    (cycle fx (beh F ρ) F.n t g σ0).st i = σ0 i := by
  rw [cycle_st F ρ hT hS fx t g σ0 hlen hc]
  exact denSeq_outside F ρ t _ F.n 0 σ0 [] [] (by omega) i (by omega)

/-! ## a cycle at a time at which no node of `U` is due -/

/-- nothing in a producer-closed set fires when none of its nodes is due: firing needs a due node or a
    writing producer, and a producer of a node of `U` is a node of `U` at an earlier position -/
theorem no_due_no_fire (F : Flow S) (ρ : Rank F.n) (hT : Topo F ρ) (U : Nat → Prop) (hU : UpClosed F U)
    (t : Time) (σ0 : Nat → S) (due : Nat → Bool) (σ1 : Nat → S) (w : List Nat) (h : Sol F t σ0 due σ1 w)
    (hnd : ∀ i, i < F.n → U i → due i = false) : ∀ i, i < F.n → U i → ¬ fires F due w i := by
  intro i hi hUi
  suffices ∀ m, ∀ i, i < F.n → U i → ρ.posOf i < m → ¬ fires F due w i from
    this (ρ.posOf i + 1) i hi hUi (Nat.lt_succ_self _)
  intro m
  induction m with
  | zero => intro i _ _ h0; omega
  | succ m ih =>
    intro i hi hUi hpos hf
    rcases hf with hd | ⟨p, hp, hw⟩
    · rw [hnd i hi hUi] at hd; cases hd
    · have hp' := hT i hi p hp
      exact ih p hp'.1 ((hU i hi hUi).1 p hp) (by omega) ((h.wr p hp'.1).mp hw).1

/-- such a cycle leaves state and slot of every node of `U` untouched -/
theorem solo_cycle_keeps (F : Flow S) (ρ : Rank F.n) (hT : Topo F ρ) (hR : TopoR F ρ) (hS : SelfFuture F) (hF : Frame F)
    (U : Nat → Prop) (hU : UpClosed F U) (fx : Bool) (t : Time) (g : G) (σ0 : Nat → S)
    (hlen : g.slots.length = F.n) (hc : g.cursor = 0)
    (hnd : ∀ i, i < F.n → U i → slotOf g (ρ.posOf i) ≠ t) :
    ∀ i, i < F.n → U i → (cycle fx (beh F ρ) F.n t g σ0).st i = σ0 i ∧
      slotOf (cycle fx (beh F ρ) F.n t g σ0).g (ρ.posOf i) = slotOf g (ρ.posOf i) := by
  intro i hi hUi
  have hsol := denSeq_sol F ρ hT hR hF t σ0 (dueN F ρ g t)
  have hnf := no_due_no_fire F ρ hT U hU t σ0 (dueN F ρ g t) _ _ hsol (by
    intro j hj hUj
    unfold dueN
    simp [hj, hnd j hj hUj]) i hi hUi
  exact idle_cycle_keeps F ρ hT hR hS hF fx t g σ0 hlen hc i hi hnf

/-! ## the relation kept between the two runs -/

/-- everything the argument needs to know about the two run states: both graphs are between cycles
    (`cursor = 0`, cache invariant of C02 with respect to their OWN current time), every node of `U` holds
    the same state and sees the same slot in both, and that slot is pending in the one run iff it is
    pending in the other -/
structure NI (F : Flow S) (U : Nat → Prop) (ρ₁ ρ₂ : Rank F.n) (g₁ g₂ : G) (σ₁ σ₂ : Nat → S) : Prop where
  len₁ : g₁.slots.length = F.n
  len₂ : g₂.slots.length = F.n
  cur₁ : g₁.cursor = 0
  cur₂ : g₂.cursor = 0
  ci₁ : CInv g₁.now F.n g₁
  ci₂ : CInv g₂.now F.n g₂
  view : SameViewOn F U ρ₁ ρ₂ g₁ g₂
  st : ∀ i, U i → σ₁ i = σ₂ i
  fut : ∀ i, i < F.n → U i → (g₁.now < slotOf g₁ (ρ₁.posOf i) ↔ g₂.now < slotOf g₂ (ρ₂.posOf i))

/-- some node of `U` is due at `t` -/
def dueU (F : Flow S) (U : Nat → Prop) (ρ : Rank F.n) (g : G) (t : Time) : Prop :=
  ∃ i, i < F.n ∧ U i ∧ slotOf g (ρ.posOf i) = t

section two
variable (F : Flow S) (f' : Nat → (Nat → S) → Time → S × Bool) (s' : Nat → S → Time → List Time)
variable (ρ₁ ρ₂ : Rank F.n) (U : Nat → Prop)

/-- a wake-up of a node of `U` that is pending in the first run is not skipped by the second: its cached
    next time is no later -/
theorem due_forces {g₁ g₂ : G} {σ₁ σ₂ : Nat → S} (hI : NI F U ρ₁ ρ₂ g₁ g₂ σ₁ σ₂) {t₁ : Time}
    (hn : g₁.next = some t₁) (hd : dueU F U ρ₁ g₁ t₁) : ∃ b, g₂.next = some b ∧ b ≤ t₁ := by
  obtain ⟨i, hi, hUi, hs⟩ := hd
  have hfut₁ : g₁.now < slotOf g₁ (ρ₁.posOf i) := by rw [hs]; exact (hI.ci₁.isSlot t₁ hn).1
  have hfut₂ := (hI.fut i hi hUi).mp hfut₁
  obtain ⟨b, hb, hle⟩ := hI.ci₂.lower (ρ₂.posOf i) (ρ₂.right i hi).2 hfut₂
  exact ⟨b, hb, by rw [← hI.view i hi hUi, hs] at hle; exact hle⟩

/-- the mirror image -/
theorem due_forces' {g₁ g₂ : G} {σ₁ σ₂ : Nat → S} (hI : NI F U ρ₁ ρ₂ g₁ g₂ σ₁ σ₂) {t₂ : Time}
    (hn : g₂.next = some t₂) (hd : dueU F U ρ₂ g₂ t₂) : ∃ b, g₁.next = some b ∧ b ≤ t₂ := by
  obtain ⟨i, hi, hUi, hs⟩ := hd
  have hfut₂ : g₂.now < slotOf g₂ (ρ₂.posOf i) := by rw [hs]; exact (hI.ci₂.isSlot t₂ hn).1
  have hfut₁ := (hI.fut i hi hUi).mpr hfut₂
  obtain ⟨b, hb, hle⟩ := hI.ci₁.lower (ρ₁.posOf i) (ρ₁.right i hi).2 hfut₁
  exact ⟨b, hb, by rw [hI.view i hi hUi, hs] at hle; exact hle⟩

variable (hT₁ : Topo F ρ₁) (hT₂ : Topo F ρ₂) (hR₁ : TopoR F ρ₁) (hR₂ : TopoR F ρ₂)
variable (hS : SelfFuture F) (hS' : SelfFuture (withF F f' s')) (hF : Frame F) (hF' : Frame (withF F f' s'))
variable (hU : UpClosed F U)

include hT₁ hR₁ hS hF hU in
/-- the first run makes a cycle of its own (no node of `U` due): the relation is kept -/
theorem NI_solo₁ (fx : Bool) {g₁ g₂ : G} {σ₁ σ₂ : Nat → S} (hI : NI F U ρ₁ ρ₂ g₁ g₂ σ₁ σ₂) {t : Time}
    (hn : g₁.next = some t) (hnd : ¬ dueU F U ρ₁ g₁ t) :
    NI F U ρ₁ ρ₂ (cycle fx (beh F ρ₁) F.n t g₁ σ₁).g g₂ (cycle fx (beh F ρ₁) F.n t g₁ σ₁).st σ₂ := by
  obtain ⟨hl, hc, hci⟩ := cycle_struct F ρ₁ hT₁ hS fx t g₁ σ₁ hI.len₁ hI.cur₁
  have keep := solo_cycle_keeps F ρ₁ hT₁ hR₁ hS hF U hU fx t g₁ σ₁ hI.len₁ hI.cur₁
    (fun i hi hUi hs => hnd ⟨i, hi, hUi, hs⟩)
  have hnow : (cycle fx (beh F ρ₁) F.n t g₁ σ₁).g.now = t := hci.now
  refine ⟨hl, hI.len₂, hc, hI.cur₂, by rw [hnow]; exact hci, hI.ci₂, ?_, ?_, ?_⟩
  · intro i hi hUi; rw [(keep i hi hUi).2]; exact hI.view i hi hUi
  · intro i hUi
    by_cases hi : i < F.n
    · rw [(keep i hi hUi).1]; exact hI.st i hUi
    · rw [cycle_outside F ρ₁ hT₁ hS fx t g₁ σ₁ hI.len₁ hI.cur₁ i hi]; exact hI.st i hUi
  · intro i hi hUi
    rw [hnow, (keep i hi hUi).2]
    have hlt := (hI.ci₁.isSlot t hn).1
    constructor
    · intro h; exact (hI.fut i hi hUi).mp (by omega)
    · intro h
      have h1 := (hI.fut i hi hUi).mpr h
      obtain ⟨nx, hnx, hle⟩ := hI.ci₁.lower (ρ₁.posOf i) (ρ₁.right i hi).2 h1
      have hnt : t = nx := by rw [hn] at hnx; exact Option.some.inj hnx
      have hne : slotOf g₁ (ρ₁.posOf i) ≠ t := fun hs => hnd ⟨i, hi, hUi, hs⟩
      omega

include hT₂ hR₂ hS' hF' hU in
/-- the second run makes a cycle of its own -/
theorem NI_solo₂ (fx : Bool) {g₁ g₂ : G} {σ₁ σ₂ : Nat → S} (hI : NI F U ρ₁ ρ₂ g₁ g₂ σ₁ σ₂) {t : Time}
    (hn : g₂.next = some t) (hnd : ¬ dueU F U ρ₂ g₂ t) :
    NI F U ρ₁ ρ₂ g₁ (cycle fx (beh (withF F f' s') ρ₂) F.n t g₂ σ₂).g σ₁
      (cycle fx (beh (withF F f' s') ρ₂) F.n t g₂ σ₂).st := by
  have hT₂' : Topo (withF F f' s') ρ₂ := topo_withF F f' s' ρ₂ hT₂
  have hR₂' : TopoR (withF F f' s') ρ₂ := hR₂
  have hU' : UpClosed (withF F f' s') U := hU
  obtain ⟨hl, hc, hci⟩ := cycle_struct (withF F f' s') ρ₂ hT₂' hS' fx t g₂ σ₂ hI.len₂ hI.cur₂
  have keep := solo_cycle_keeps (withF F f' s') ρ₂ hT₂' hR₂' hS' hF' U hU' fx t g₂ σ₂ hI.len₂ hI.cur₂
    (fun i hi hUi hs => hnd ⟨i, hi, hUi, hs⟩)
  have hnow : (cycle fx (beh (withF F f' s') ρ₂) F.n t g₂ σ₂).g.now = t := hci.now
  refine ⟨hI.len₁, hl, hI.cur₁, hc, hI.ci₁, by rw [hnow]; exact hci, ?_, ?_, ?_⟩
  · intro i hi hUi
    have := (keep i hi hUi).2
    rw [show slotOf (cycle fx (beh (withF F f' s') ρ₂) F.n t g₂ σ₂).g (ρ₂.posOf i) = _ from this]
    exact hI.view i hi hUi
  · intro i hUi
    by_cases hi : i < F.n
    · have := (keep i hi hUi).1
      rw [show (cycle fx (beh (withF F f' s') ρ₂) F.n t g₂ σ₂).st i = _ from this]; exact hI.st i hUi
    · have : (cycle fx (beh (withF F f' s') ρ₂) F.n t g₂ σ₂).st i = σ₂ i :=
        cycle_outside (withF F f' s') ρ₂ hT₂' hS' fx t g₂ σ₂ hI.len₂ hI.cur₂ i hi
      rw [this]; exact hI.st i hUi
  · intro i hi hUi
    have hk := (keep i hi hUi).2
    rw [hnow, show slotOf (cycle fx (beh (withF F f' s') ρ₂) F.n t g₂ σ₂).g (ρ₂.posOf i) = _ from hk]
    have hlt := (hI.ci₂.isSlot t hn).1
    constructor
    · intro h
      have h2 := (hI.fut i hi hUi).mp h
      obtain ⟨nx, hnx, hle⟩ := hI.ci₂.lower (ρ₂.posOf i) (ρ₂.right i hi).2 h2
      have hnt : t = nx := by rw [hn] at hnx; exact Option.some.inj hnx
      have hne : slotOf g₂ (ρ₂.posOf i) ≠ t := fun hs => hnd ⟨i, hi, hUi, hs⟩
      omega
    · intro h; exact (hI.fut i hi hUi).mpr (by omega)

include hT₁ hT₂ hR₁ hR₂ hS hS' hF hF' hU in
/-- both runs make their cycle at the same time -/
theorem NI_joint (hagree : ∀ i, U i → F.f i = f' i) (hagreeS : ∀ i, U i → F.selfReq i = s' i)
    (fx : Bool) {g₁ g₂ : G} {σ₁ σ₂ : Nat → S} (hI : NI F U ρ₁ ρ₂ g₁ g₂ σ₁ σ₂) (t : Time) :
    NI F U ρ₁ ρ₂ (cycle fx (beh F ρ₁) F.n t g₁ σ₁).g (cycle fx (beh (withF F f' s') ρ₂) F.n t g₂ σ₂).g
      (cycle fx (beh F ρ₁) F.n t g₁ σ₁).st (cycle fx (beh (withF F f' s') ρ₂) F.n t g₂ σ₂).st := by
  have hT₂' : Topo (withF F f' s') ρ₂ := topo_withF F f' s' ρ₂ hT₂
  obtain ⟨hl₁, hc₁, hci₁⟩ := cycle_struct F ρ₁ hT₁ hS fx t g₁ σ₁ hI.len₁ hI.cur₁
  obtain ⟨hl₂, hc₂, hci₂⟩ := cycle_struct (withF F f' s') ρ₂ hT₂' hS' fx t g₂ σ₂ hI.len₂ hI.cur₂
  obtain ⟨hst, hV⟩ := cycle_noninterference F f' s' ρ₁ ρ₂ hT₁ hT₂ hR₁ hR₂ hS hS' hF hF' U hU hagree hagreeS fx t g₁ g₂
    σ₁ σ₂ hI.len₁ hI.len₂ hI.cur₁ hI.cur₂ hI.st hI.view
  have hnow₁ : (cycle fx (beh F ρ₁) F.n t g₁ σ₁).g.now = t := hci₁.now
  have hnow₂ : (cycle fx (beh (withF F f' s') ρ₂) F.n t g₂ σ₂).g.now = t := hci₂.now
  refine ⟨hl₁, hl₂, hc₁, hc₂, by rw [hnow₁]; exact hci₁, by rw [hnow₂]; exact hci₂, hV, ?_, ?_⟩
  · intro i hUi
    by_cases hi : i < F.n
    · exact hst i hi hUi
    · have a : (cycle fx (beh F ρ₁) F.n t g₁ σ₁).st i = σ₁ i :=
        cycle_outside F ρ₁ hT₁ hS fx t g₁ σ₁ hI.len₁ hI.cur₁ i hi
      have b : (cycle fx (beh (withF F f' s') ρ₂) F.n t g₂ σ₂).st i = σ₂ i :=
        cycle_outside (withF F f' s') ρ₂ hT₂' hS' fx t g₂ σ₂ hI.len₂ hI.cur₂ i hi
      rw [a, b]; exact hI.st i hUi
  · intro i hi hUi
    rw [hnow₁, hnow₂, hV i hi hUi]

include hT₁ hT₂ hR₁ hR₂ hS hS' hF hF' hU in
/-- **non-interference over whole runs.**  Two programs that agree on the producer-closed set `U`, any
    topological ranks, run states related by `NI` (for instance: right after start, with the same initial
    states and slots on `U`).  When both runs have come to their end — whatever number of cycles each of
    them needed — every node of `U` holds the same state in both. -/
theorem run_noninterference (hagree : ∀ i, U i → F.f i = f' i) (hagreeS : ∀ i, U i → F.selfReq i = s' i)
    (fx : Bool) (endT : Time) :
    ∀ (N fuel₁ fuel₂ : Nat), fuel₁ + fuel₂ ≤ N → ∀ (g₁ g₂ : G) (σ₁ σ₂ : Nat → S) (ts₁ ts₂ : List Time),
      NI F U ρ₁ ρ₂ g₁ g₂ σ₁ σ₂ →
      nextCycle (simLoop fx (beh F ρ₁) F.n endT fuel₁ g₁ σ₁ ts₁).g endT = none →
      nextCycle (simLoop fx (beh (withF F f' s') ρ₂) F.n endT fuel₂ g₂ σ₂ ts₂).g endT = none →
      ∀ i, U i → (simLoop fx (beh F ρ₁) F.n endT fuel₁ g₁ σ₁ ts₁).st i =
                 (simLoop fx (beh (withF F f' s') ρ₂) F.n endT fuel₂ g₂ σ₂ ts₂).st i := by
  have hT₂' : Topo (withF F f' s') ρ₂ := topo_withF F f' s' ρ₂ hT₂
  intro N
  induction N with
  | zero =>
    intro fuel₁ fuel₂ hN g₁ g₂ σ₁ σ₂ ts₁ ts₂ hI _ _ i hUi
    have h1 : fuel₁ = 0 := by omega
    have h2 : fuel₂ = 0 := by omega
    subst h1; subst h2
    exact hI.st i hUi
  | succ N ih =>
    intro fuel₁ fuel₂ hN g₁ g₂ σ₁ σ₂ ts₁ ts₂ hI hc₁ hc₂
    -- the two ways of making progress
    have step₁ : ∀ t, nextCycle g₁ endT = some t → ¬ dueU F U ρ₁ g₁ t →
        ∀ i, U i → (simLoop fx (beh F ρ₁) F.n endT fuel₁ g₁ σ₁ ts₁).st i =
                 (simLoop fx (beh (withF F f' s') ρ₂) F.n endT fuel₂ g₂ σ₂ ts₂).st i := by
      intro t hn hnd
      cases fuel₁ with
      | zero => rw [show simLoop fx (beh F ρ₁) F.n endT 0 g₁ σ₁ ts₁ = ⟨g₁, σ₁, ts₁, true⟩ from rfl] at hc₁; rw [hn] at hc₁; cases hc₁
      | succ f =>
        have hok := cycle_ok F ρ₁ hT₁ hS fx t g₁ σ₁ hI.len₁ hI.cur₁
        rw [simLoop_step fx _ F.n endT f g₁ σ₁ ts₁ t hn hok] at hc₁ ⊢
        exact ih f fuel₂ (by omega) _ _ _ _ _ _
          (NI_solo₁ F ρ₁ ρ₂ U hT₁ hR₁ hS hF hU fx hI (nextCycle_some hn).1 hnd) hc₁ hc₂
    have step₂ : ∀ t, nextCycle g₂ endT = some t → ¬ dueU F U ρ₂ g₂ t →
        ∀ i, U i → (simLoop fx (beh F ρ₁) F.n endT fuel₁ g₁ σ₁ ts₁).st i =
                 (simLoop fx (beh (withF F f' s') ρ₂) F.n endT fuel₂ g₂ σ₂ ts₂).st i := by
      intro t hn hnd
      cases fuel₂ with
      | zero =>
        rw [show simLoop fx (beh (withF F f' s') ρ₂) F.n endT 0 g₂ σ₂ ts₂ = ⟨g₂, σ₂, ts₂, true⟩ from rfl] at hc₂
        rw [hn] at hc₂; cases hc₂
      | succ f =>
        have hok := cycle_ok (withF F f' s') ρ₂ hT₂' hS' fx t g₂ σ₂ hI.len₂ hI.cur₂
        rw [simLoop_step fx _ F.n endT f g₂ σ₂ ts₂ t hn hok] at hc₂ ⊢
        exact ih fuel₁ f (by omega) _ _ _ _ _ _
          (NI_solo₂ F f' s' ρ₁ ρ₂ U hT₂ hR₂ hS' hF' hU fx hI (nextCycle_some hn).1 hnd) hc₁ hc₂
    cases h₁ : nextCycle g₁ endT with
    | none =>
      cases h₂ : nextCycle g₂ endT with
      | none =>
        intro i hUi
        rw [simLoop_done fx _ F.n endT fuel₁ g₁ σ₁ ts₁ h₁, simLoop_done fx _ F.n endT fuel₂ g₂ σ₂ ts₂ h₂]
        exact hI.st i hUi
      | some t₂ =>
        by_cases hd₂ : dueU F U ρ₂ g₂ t₂
        · exfalso
          obtain ⟨hn₂, hlt₂⟩ := nextCycle_some h₂
          obtain ⟨b, hb, hle⟩ := due_forces' F ρ₁ ρ₂ U hI hn₂ hd₂
          rw [nextCycle_of_next hb (by omega)] at h₁; cases h₁
        · exact step₂ t₂ h₂ hd₂
    | some t₁ =>
      by_cases hd₁ : dueU F U ρ₁ g₁ t₁
      · obtain ⟨hn₁, hlt₁⟩ := nextCycle_some h₁
        obtain ⟨b, hb, hle⟩ := due_forces F ρ₁ ρ₂ U hI hn₁ hd₁
        have h₂ : nextCycle g₂ endT = some b := nextCycle_of_next hb (by omega)
        by_cases hd₂ : dueU F U ρ₂ g₂ b
        · obtain ⟨a, ha, hle'⟩ := due_forces' F ρ₁ ρ₂ U hI hb hd₂
          rw [hn₁] at ha; injection ha with ha; subst ha
          have hbt : b = t₁ := by omega
          subst hbt
          -- a common cycle
          cases fuel₁ with
          | zero =>
            rw [show simLoop fx (beh F ρ₁) F.n endT 0 g₁ σ₁ ts₁ = ⟨g₁, σ₁, ts₁, true⟩ from rfl] at hc₁
            rw [h₁] at hc₁; cases hc₁
          | succ f₁ =>
            cases fuel₂ with
            | zero =>
              rw [show simLoop fx (beh (withF F f' s') ρ₂) F.n endT 0 g₂ σ₂ ts₂ = ⟨g₂, σ₂, ts₂, true⟩ from rfl] at hc₂
              rw [h₂] at hc₂; cases hc₂
            | succ f₂ =>
              have hok₁ := cycle_ok F ρ₁ hT₁ hS fx b g₁ σ₁ hI.len₁ hI.cur₁
              have hok₂ := cycle_ok (withF F f' s') ρ₂ hT₂' hS' fx b g₂ σ₂ hI.len₂ hI.cur₂
              rw [simLoop_step fx _ F.n endT f₁ g₁ σ₁ ts₁ b h₁ hok₁] at hc₁ ⊢
              rw [simLoop_step fx _ F.n endT f₂ g₂ σ₂ ts₂ b h₂ hok₂] at hc₂ ⊢
              exact ih f₁ f₂ (by omega) _ _ _ _ _ _
                (NI_joint F f' s' ρ₁ ρ₂ U hT₁ hT₂ hR₁ hR₂ hS hS' hF hF' hU hagree hagreeS fx hI b) hc₁ hc₂
        · exact step₂ b h₂ hd₂
      · exact step₁ t₁ h₁ hd₁
end two

/-! ## from last values to whole streams

The run theorem holds for every state type.  Let every node keep, besides its state, the list of
`(cycle time, new state)` of all its evaluations so far: the instrumented program `logF F` computes exactly
what `F` computes (the node functions read only the first components) and the second component of a node's
final state is its whole stream. -/

/-- `F` with every node logging its own evaluations -/
def logF (F : Flow S) : Flow (S × List (Time × S)) :=
  { n := F.n, prods := F.prods, reads := F.reads,
    f := fun i σ t => let r := F.f i (fun j => (σ j).1) t; ((r.1, (σ i).2 ++ [(t, r.1)]), r.2),
    selfReq := fun i s t => F.selfReq i s.1 t }

theorem logF_frame (F : Flow S) (hF : Frame F) : Frame (logF F) := by
  intro i σ σ' t h
  have h1 : F.f i (fun j => (σ j).1) t = F.f i (fun j => (σ' j).1) t :=
    hF i _ _ t (fun j hj => by show (σ j).1 = (σ' j).1; rw [h j hj])
  show (((F.f i (fun j => (σ j).1) t).1, (σ i).2 ++ [(t, (F.f i (fun j => (σ j).1) t).1)]),
        (F.f i (fun j => (σ j).1) t).2) =
       (((F.f i (fun j => (σ' j).1) t).1, (σ' i).2 ++ [(t, (F.f i (fun j => (σ' j).1) t).1)]),
        (F.f i (fun j => (σ' j).1) t).2)
  rw [h1, h i (Or.inl rfl)]

theorem logF_selfFuture (F : Flow S) (hS : SelfFuture F) : SelfFuture (logF F) :=
  fun i s t T h => hS i s.1 t T h

/-- the same instrumentation of the other program is the other program of the instrumented one -/
theorem logF_withF (F : Flow S) (f' : Nat → (Nat → S) → Time → S × Bool) (s' : Nat → S → Time → List Time) :
    logF (withF F f' s') = withF (logF F) (logF (withF F f' s')).f (logF (withF F f' s')).selfReq := rfl

/-- **the streams of all nodes that do not depend on the failing node are identical**: two programs that agree
    on the producer-closed set `U`; each node logs every one of its evaluations `(time, value)`.  At the end of
    the two runs — which may have made different cycles — every node of `U` has logged the same stream. -/
theorem streams_noninterference (F : Flow S) (f' : Nat → (Nat → S) → Time → S × Bool) (s' : Nat → S → Time → List Time)
    (ρ₁ ρ₂ : Rank F.n) (U : Nat → Prop) (hT₁ : Topo F ρ₁) (hT₂ : Topo F ρ₂) (hR₁ : TopoR F ρ₁) (hR₂ : TopoR F ρ₂)
    (hS : SelfFuture F) (hS' : SelfFuture (withF F f' s')) (hF : Frame F) (hF' : Frame (withF F f' s'))
    (hU : UpClosed F U) (hagree : ∀ i, U i → F.f i = f' i) (hagreeS : ∀ i, U i → F.selfReq i = s' i)
    (fx : Bool) (endT : Time) (fuel₁ fuel₂ : Nat) (g₁ g₂ : G) (σ₁ σ₂ : Nat → S × List (Time × S))
    (hI : NI (logF F) U ρ₁ ρ₂ g₁ g₂ σ₁ σ₂)
    (hc₁ : nextCycle (simLoop fx (beh (logF F) ρ₁) F.n endT fuel₁ g₁ σ₁ []).g endT = none)
    (hc₂ : nextCycle (simLoop fx (beh (logF (withF F f' s')) ρ₂) F.n endT fuel₂ g₂ σ₂ []).g endT = none) :
    ∀ i, U i → ((simLoop fx (beh (logF F) ρ₁) F.n endT fuel₁ g₁ σ₁ []).st i).2 =
               ((simLoop fx (beh (logF (withF F f' s')) ρ₂) F.n endT fuel₂ g₂ σ₂ []).st i).2 := by
  intro i hUi
  have hagreeL : ∀ i, U i → (logF F).f i = (logF (withF F f' s')).f i := by
    intro i hUi
    show (fun σ t => _) = (fun σ t => _)
    funext σ t
    show (((F.f i (fun j => (σ j).1) t).1, (σ i).2 ++ [(t, (F.f i (fun j => (σ j).1) t).1)]), (F.f i (fun j => (σ j).1) t).2) =
         (((f' i (fun j => (σ j).1) t).1, (σ i).2 ++ [(t, (f' i (fun j => (σ j).1) t).1)]), (f' i (fun j => (σ j).1) t).2)
    rw [hagree i hUi]
  have hagreeSL : ∀ i, U i → (logF F).selfReq i = (logF (withF F f' s')).selfReq i := by
    intro i hUi
    show (fun (s : S × List (Time × S)) t => F.selfReq i s.1 t) = (fun (s : S × List (Time × S)) t => s' i s.1 t)
    rw [hagreeS i hUi]
  have := run_noninterference (logF F) (logF (withF F f' s')).f (logF (withF F f' s')).selfReq ρ₁ ρ₂ U
    hT₁ hT₂ hR₁ hR₂ (logF_selfFuture F hS) (logF_selfFuture (withF F f' s') hS') (logF_frame F hF)
    (logF_frame (withF F f' s') hF') hU hagreeL hagreeSL fx endT (fuel₁ + fuel₂) fuel₁ fuel₂ (Nat.le_refl _)
    g₁ g₂ σ₁ σ₂ [] [] hI hc₁ hc₂ i hUi
  exact congrArg Prod.snd this

/-! ## the instrumentation is transparent: projecting the logged run gives the plain run

A behaviour `β` over `σ` that, seen through a projection `π : σ → σ'`, does what `β'` does (same requests, same
verdict, projected state) produces the same graph record, the same evaluated positions, the same cycle times and
the projected state — scan, cycle and whole run. -/

theorem scanFrom_proj {σ σ' : Type} (π : σ → σ') (β : Beh σ) (β' : Beh σ')
    (h : ∀ i t u, (β.eval i t u).reqs = (β'.eval i t (π u)).reqs ∧ (β.eval i t u).ok = (β'.eval i t (π u)).ok ∧
                  π (β.eval i t u).st = (β'.eval i t (π u)).st)
    (t : Time) (fuel i : Nat) (g : G) (u : σ) (ev : List Nat) :
    (scanFrom β t fuel i g u ev).g = (scanFrom β' t fuel i g (π u) ev).g ∧
    π (scanFrom β t fuel i g u ev).st = (scanFrom β' t fuel i g (π u) ev).st ∧
    (scanFrom β t fuel i g u ev).evaluated = (scanFrom β' t fuel i g (π u) ev).evaluated ∧
    (scanFrom β t fuel i g u ev).ok = (scanFrom β' t fuel i g (π u) ev).ok := by
  induction fuel generalizing i g u ev with
  | zero => exact ⟨rfl, rfl, rfl, rfl⟩
  | succ fuel ih =>
    obtain ⟨hr, hok, hst⟩ := h i t u
    simp only [scanFrom]
    by_cases hs : g.slots.getD i 0 = t
    · simp only [hs, ↓reduceIte]
      rw [hr, hok]
      by_cases hk : (β'.eval i t (π u)).ok = true
      · simp only [hk, ↓reduceIte]
        have := ih (i + 1) ((β'.eval i t (π u)).reqs.foldl scheduleNode { g with cursor := i }) (β.eval i t u).st (ev ++ [i])
        rw [hst] at this
        exact this
      · simp only [hk]
        exact ⟨rfl, hst, rfl, rfl⟩
    · simp only [hs, ↓reduceIte]
      by_cases hgt : g.slots.getD i 0 > t
      · simp only [hgt, ↓reduceIte]; exact ih _ _ _ _
      · simp only [hgt, ↓reduceIte]; exact ih _ _ _ _

theorem cycle_proj {σ σ' : Type} (π : σ → σ') (β : Beh σ) (β' : Beh σ')
    (h : ∀ i t u, (β.eval i t u).reqs = (β'.eval i t (π u)).reqs ∧ (β.eval i t u).ok = (β'.eval i t (π u)).ok ∧
                  π (β.eval i t u).st = (β'.eval i t (π u)).st)
    (fx : Bool) (n : Nat) (t : Time) (g : G) (u : σ) :
    (cycle fx β n t g u).g = (cycle fx β' n t g (π u)).g ∧ π (cycle fx β n t g u).st = (cycle fx β' n t g (π u)).st ∧
    (cycle fx β n t g u).ok = (cycle fx β' n t g (π u)).ok := by
  unfold cycle
  split
  · have := scanFrom_proj π β β' h t (n - g.cursor) g.cursor { g with now := t, failed := false } u []
    exact ⟨this.1, this.2.1, this.2.2.2⟩
  · have := scanFrom_proj π β β' h t n 0 { g with now := t, failed := false, next := none, cursor := 0 } u []
    exact ⟨this.1, this.2.1, this.2.2.2⟩

theorem simLoop_proj {σ σ' : Type} (π : σ → σ') (β : Beh σ) (β' : Beh σ')
    (h : ∀ i t u, (β.eval i t u).reqs = (β'.eval i t (π u)).reqs ∧ (β.eval i t u).ok = (β'.eval i t (π u)).ok ∧
                  π (β.eval i t u).st = (β'.eval i t (π u)).st)
    (fx : Bool) (n : Nat) (endT : Time) (fuel : Nat) (g : G) (u : σ) (ts : List Time) :
    (simLoop fx β n endT fuel g u ts).g = (simLoop fx β' n endT fuel g (π u) ts).g ∧
    π (simLoop fx β n endT fuel g u ts).st = (simLoop fx β' n endT fuel g (π u) ts).st ∧
    (simLoop fx β n endT fuel g u ts).times = (simLoop fx β' n endT fuel g (π u) ts).times ∧
    (simLoop fx β n endT fuel g u ts).ok = (simLoop fx β' n endT fuel g (π u) ts).ok := by
  induction fuel generalizing g u ts with
  | zero => exact ⟨rfl, rfl, rfl, rfl⟩
  | succ fuel ih =>
    rw [simLoop, simLoop]
    cases hn : nextCycle g endT with
    | none => exact ⟨rfl, rfl, rfl, rfl⟩
    | some t =>
      simp only
      obtain ⟨hg, hst, hok⟩ := cycle_proj π β β' h fx n t g u
      rw [hok]
      by_cases hk : (cycle fx β' n t g (π u)).ok = true
      · simp only [hk, ↓reduceIte]
        rw [hg]
        have := ih (cycle fx β' n t g (π u)).g (cycle fx β n t g u).st (ts ++ [t])
        rw [hst] at this
        exact this
      · simp only [hk]
        exact ⟨hg, hst, rfl, rfl⟩

/-- the projection that forgets the logs -/
def unlog (σ : Nat → S × List (Time × S)) : Nat → S := fun j => (σ j).1

/-- **the instrumented program computes what the plain program computes**: same graph record, same cycle times,
    and the first components of the final state are the plain final state -/
theorem logF_transparent (F : Flow S) (ρ : Rank F.n) (fx : Bool) (endT : Time) (fuel : Nat) (g : G)
    (σ : Nat → S × List (Time × S)) (ts : List Time) :
    (simLoop fx (beh (logF F) ρ) F.n endT fuel g σ ts).g = (simLoop fx (beh F ρ) F.n endT fuel g (unlog σ) ts).g ∧
    unlog (simLoop fx (beh (logF F) ρ) F.n endT fuel g σ ts).st = (simLoop fx (beh F ρ) F.n endT fuel g (unlog σ) ts).st ∧
    (simLoop fx (beh (logF F) ρ) F.n endT fuel g σ ts).times = (simLoop fx (beh F ρ) F.n endT fuel g (unlog σ) ts).times := by
  have h : ∀ i t u, ((beh (logF F) ρ).eval i t u).reqs = ((beh F ρ).eval i t (unlog u)).reqs ∧
      ((beh (logF F) ρ).eval i t u).ok = ((beh F ρ).eval i t (unlog u)).ok ∧
      unlog ((beh (logF F) ρ).eval i t u).st = ((beh F ρ).eval i t (unlog u)).st := by
    intro i t u
    refine ⟨rfl, rfl, ?_⟩
    funext j
    show (upd u (ρ.node i) ((logF F).f (ρ.node i) u t).1 j).1 = upd (unlog u) (ρ.node i) (F.f (ρ.node i) (unlog u) t).1 j
    unfold upd
    by_cases hj : j = ρ.node i
    · simp only [hj, ↓reduceIte]; rfl
    · simp only [hj, ↓reduceIte]; rfl
  have := simLoop_proj unlog (beh (logF F) ρ) (beh F ρ) h fx F.n endT fuel g σ ts
  exact ⟨this.1, this.2.1, this.2.2.1⟩

/-! ## non-vacuity: the diamond `0 → {1, 2} → 3` of `C06Run`; node 2 "fails" in the second program (keeps its
    state, writes nothing) and, unlike the original, asks for extra wake-ups every step: the second run makes
    MORE cycles (5,6,7,...) than the first (5,7,9,11), yet nodes 0 and 1 log the same streams. -/

def failing2s : Nat → Nat → Time → List Time := fun i s t => if i = 2 then [t + 1] else exG.selfReq i s t

def g0 : G := { slots := [5, 0, 0, 0], next := some 5 }

example : NI exG (fun i => i = 0 ∨ i = 1) exR1 exR2 g0 g0 (fun _ => 1) (fun _ => 1) :=
  { len₁ := rfl, len₂ := rfl, cur₁ := rfl, cur₂ := rfl,
    ci₁ := ⟨rfl, by intro j hj h; exact ⟨5, rfl, by
              have hj4 : j < 4 := hj
              have : j = 0 ∨ j = 1 ∨ j = 2 ∨ j = 3 := by omega
              rcases this with rfl | rfl | rfl | rfl <;> simp [g0, slotOf] at h ⊢⟩,
            by intro nx h; simp [g0] at h; subst h; exact ⟨by decide, 0, by decide, rfl⟩⟩,
    ci₂ := ⟨rfl, by intro j hj h; exact ⟨5, rfl, by
              have hj4 : j < 4 := hj
              have : j = 0 ∨ j = 1 ∨ j = 2 ∨ j = 3 := by omega
              rcases this with rfl | rfl | rfl | rfl <;> simp [g0, slotOf] at h ⊢⟩,
            by intro nx h; simp [g0] at h; subst h; exact ⟨by decide, 0, by decide, rfl⟩⟩,
    view := by intro i hi hU; rcases hU with rfl | rfl <;> rfl,
    st := fun _ _ => rfl,
    fut := by intro i hi hU; rcases hU with rfl | rfl <;> exact Iff.rfl }

example : (simLoop true (beh exG exR1) 4 12 20 g0 (fun _ => 1) []).times = [5, 7, 9, 11] ∧
    (simLoop true (beh (withF exG failing2 failing2s) exR2) 4 12 20 g0 (fun _ => 1) []).times = [5, 6, 7, 8, 9, 10, 11] ∧
    (List.range 2).map (simLoop true (beh exG exR1) 4 12 20 g0 (fun _ => 1) []).st =
    (List.range 2).map (simLoop true (beh (withF exG failing2 failing2s) exR2) 4 12 20 g0 (fun _ => 1) []).st := by
  decide

/-- the logged streams of nodes 0 and 1 in the two runs of the diamond: equal, and they are the real streams -/
example : ((simLoop true (beh (logF exG) exR1) 4 10 20 g0 (fun _ => (1, [])) []).st 1).2 = [(5, 4), (7, 6), (9, 8)] ∧
    ((simLoop true (beh (logF (withF exG failing2 failing2s)) exR2) 4 10 20 g0 (fun _ => (1, [])) []).st 1).2 = [(5, 4), (7, 6), (9, 8)] ∧
    ((simLoop true (beh (logF (withF exG failing2 failing2s)) exR2) 4 10 20 g0 (fun _ => (1, [])) []).st 2).2 = [(5, 1), (6, 1), (7, 1), (8, 1), (9, 1)] := by
  decide

end HgVerif.Flow
