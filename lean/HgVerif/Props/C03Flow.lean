import HgVerif.Props.C06Run
/-!
# C03 — a node is evaluated in a cycle exactly when it was due or an active producer wrote

Flat dataflow model (`Model/Flow.lean`) run by the generic scan of `graph.cpp` under any topological rank.

* `denSeq_ev_iff`     : the positions the slot-free reading fires are exactly those whose node `fires`.
* `activation_exact`  : node `i` is evaluated in the cycle at `t` **iff** its slot was `t` (own wake-up, or an
                        earlier notification) or one of its ACTIVE producers was evaluated in this cycle and
                        wrote.  A passive producer (in `reads` but not in `prods`) never causes an evaluation,
                        and neither does an active producer that runs without writing.
* `writers_exact`     : the nodes that wrote are exactly those that fired and whose user code returned a tick.
-/
namespace HgVerif.Flow
open HgVerif.Sched

variable {S : Type}

theorem denSeq_ev_iff (F : Flow S) (ρ : Rank F.n) (hT : Topo F ρ) (t : Time) (due : Nat → Bool) (fuel k : Nat) (σ : Nat → S)
    (w ev : List Nat) (hfk : k + fuel = F.n) :
    ∀ q, q < F.n → (q ∈ (denSeq F ρ t due fuel k σ w ev).2.2 ↔
      (q ∈ ev ∨ (k ≤ q ∧ fires F due (denSeq F ρ t due fuel k σ w ev).2.1 (ρ.node q)))) := by
  induction fuel generalizing k σ w ev with
  | zero =>
    intro q hq
    have : k = F.n := by omega
    simp only [denSeq]
    constructor
    · exact fun h => Or.inl h
    · rintro (h | ⟨h, _⟩)
      · exact h
      · omega
  | succ fuel ih =>
    intro q hq
    have hk : k < F.n := by omega
    have hnodek := ρ.left k hk
    -- whether the node at position k fires is decided now
    have hfk' : ∀ (σ' : Nat → S) (w' ev' : List Nat), (∀ x ∈ w, x ∈ w') → (∀ x ∈ w', x ∈ w ∨ x = ρ.node k) →
        (fires F due (denSeq F ρ t due fuel (k + 1) σ' w' ev').2.1 (ρ.node k) ↔ fires F due w (ρ.node k)) := by
      intro σ' w' ev' hsub hsup
      rw [fires_final_iff F ρ hT t due fuel (k + 1) σ' w' ev' (by omega) (ρ.node k) hnodek.2 (by rw [hnodek.1]; omega)]
      unfold fires
      constructor
      · rintro (hd | ⟨p, hp, hw⟩)
        · exact Or.inl hd
        · rcases hsup p hw with h1 | rfl
          · exact Or.inr ⟨p, hp, h1⟩
          · exact absurd hp (topo_not_self F ρ hT _ hnodek.2)
      · rintro (hd | ⟨p, hp, hw⟩)
        · exact Or.inl hd
        · exact Or.inr ⟨p, hp, hsub p hw⟩
    by_cases h : (due (ρ.node k) || (F.prods (ρ.node k)).any (fun p => w.contains p)) = true
    · have hfires : fires F due w (ρ.node k) := by
        unfold fires; rw [Bool.or_eq_true, any_contains_iff] at h; exact h
      rw [denSeq_fire F ρ t due fuel k σ w ev h, ih (k + 1) _ _ _ (by omega) q hq]
      have hkf := (hfk' (upd σ (ρ.node k) (F.f (ρ.node k) σ t).1) (if (F.f (ρ.node k) σ t).2 then ρ.node k :: w else w)
        (ev ++ [k]) (by intro x hx; split <;> simp [hx]) (by
          intro x hx; split at hx
          · rcases List.mem_cons.mp hx with rfl | hx
            · exact Or.inr rfl
            · exact Or.inl hx
          · exact Or.inl hx)).mpr hfires
      constructor
      · rintro (hm | ⟨hle, hf⟩)
        · rcases List.mem_append.mp hm with hm | hm
          · exact Or.inl hm
          · simp at hm; subst hm; exact Or.inr ⟨Nat.le_refl _, hkf⟩
        · exact Or.inr ⟨by omega, hf⟩
      · rintro (hm | ⟨hle, hf⟩)
        · exact Or.inl (by simp [hm])
        · rcases Nat.eq_or_lt_of_le hle with rfl | hlt
          · exact Or.inl (by simp)
          · exact Or.inr ⟨by omega, hf⟩
    · have hnf : ¬ fires F due w (ρ.node k) := by
        unfold fires; rw [Bool.or_eq_true, any_contains_iff] at h; exact h
      rw [denSeq_idle F ρ t due fuel k σ w ev h, ih (k + 1) _ _ _ (by omega) q hq]
      have hkf := hfk' σ w ev (fun _ h => h) (fun _ h => Or.inl h)
      constructor
      · rintro (hm | ⟨hle, hf⟩)
        · exact Or.inl hm
        · exact Or.inr ⟨by omega, hf⟩
      · rintro (hm | ⟨hle, hf⟩)
        · exact Or.inl hm
        · rcases Nat.eq_or_lt_of_le hle with rfl | hlt
          · exact absurd (hkf.mp hf) hnf
          · exact Or.inr ⟨by omega, hf⟩

/-- **activation, exactly**: in a fresh cycle at `t` node `i` is evaluated iff it was due at `t` or one of its
    active producers wrote in this cycle -/
theorem activation_exact (F : Flow S) (ρ : Rank F.n) (hT : Topo F ρ) (hS : SelfFuture F) (fx : Bool) (t : Time) (g : G)
    (σ0 : Nat → S) (hlen : g.slots.length = F.n) (hc : g.cursor = 0) (i : Nat) (hi : i < F.n) :
    ρ.posOf i ∈ (cycle fx (beh F ρ) F.n t g σ0).evaluated ↔
      (slotOf g (ρ.posOf i) = t ∨
        ∃ p ∈ F.prods i, p ∈ (denSeq F ρ t (dueN F ρ g t) F.n 0 σ0 [] []).2.1) := by
  rw [(cycle_eq_denSeq F ρ hT hS fx t g σ0 hlen hc).2.1]
  rw [denSeq_congr_due F ρ t (dueOf ρ g t) (dueN F ρ g t) (by intro j hj; unfold dueN dueOf; simp [hj]) F.n 0 σ0 [] [] (by omega)]
  rw [denSeq_ev_iff F ρ hT t (dueN F ρ g t) F.n 0 σ0 [] [] (by omega) (ρ.posOf i) (ρ.right i hi).2, (ρ.right i hi).1]
  unfold fires dueN
  simp [hi]

/-- **who wrote**: exactly the nodes that fired and whose user code produced a tick -/
theorem writers_exact (F : Flow S) (ρ : Rank F.n) (hT : Topo F ρ) (hR : TopoR F ρ) (hF : Frame F) (t : Time) (σ0 : Nat → S)
    (due : Nat → Bool) (i : Nat) (hi : i < F.n) :
    i ∈ (denSeq F ρ t due F.n 0 σ0 [] []).2.1 ↔
      (fires F due (denSeq F ρ t due F.n 0 σ0 [] []).2.1 i ∧
        (evalAt F t σ0 (denSeq F ρ t due F.n 0 σ0 [] []).1 i).2 = true) :=
  (denSeq_sol F ρ hT hR hF t σ0 due).wr i hi

/-- **with the latest values**: the state a node that runs ends the cycle with is its user code applied to the
    states its producers — active and passive — END this cycle with (every producer's latest write, this cycle's
    included: producers come first) and to its own previous state; a node that does not run keeps its state -/
theorem runs_with_latest_values (F : Flow S) (ρ : Rank F.n) (hT : Topo F ρ) (hR : TopoR F ρ) (hS : SelfFuture F) (hF : Frame F)
    (fx : Bool) (t : Time) (g : G) (σ0 : Nat → S) (hlen : g.slots.length = F.n) (hc : g.cursor = 0) (i : Nat) (hi : i < F.n) :
    (ρ.posOf i ∈ (cycle fx (beh F ρ) F.n t g σ0).evaluated →
      (cycle fx (beh F ρ) F.n t g σ0).st i = (F.f i (upd (cycle fx (beh F ρ) F.n t g σ0).st i (σ0 i)) t).1) ∧
    (ρ.posOf i ∉ (cycle fx (beh F ρ) F.n t g σ0).evaluated → (cycle fx (beh F ρ) F.n t g σ0).st i = σ0 i) := by
  have hact := activation_exact F ρ hT hS fx t g σ0 hlen hc i hi
  have hsol := denSeq_sol F ρ hT hR hF t σ0 (dueN F ρ g t)
  have hfires : fires F (dueN F ρ g t) (denSeq F ρ t (dueN F ρ g t) F.n 0 σ0 [] []).2.1 i ↔
      (slotOf g (ρ.posOf i) = t ∨ ∃ p ∈ F.prods i, p ∈ (denSeq F ρ t (dueN F ρ g t) F.n 0 σ0 [] []).2.1) := by
    unfold fires dueN; simp [hi]
  rw [cycle_st F ρ hT hS fx t g σ0 hlen hc]
  constructor
  · intro hev
    exact hsol.st_fire i hi (hfires.mpr (hact.mp hev))
  · intro hev
    exact hsol.st_idle i hi (fun hf => hev (hact.mpr (hfires.mp hf)))

/-! non-vacuity: in `exG` node 3 reads node 0 passively; a cycle in which only node 0 is due evaluates 0, 1, 2 and —
    through its ACTIVE producers 1 and 2 — node 3 -/
example : (cycle true (beh exG exR1) 4 5 { slots := [5, 0, 0, 0] } (fun _ => 1)).evaluated = [0, 1, 2, 3] := by decide

end HgVerif.Flow
