import HgVerif.Model.BoundaryPath
import HgVerif.Props.C09Shape
/-!
C09, structural outer arguments assembled to any depth: the binding paths `boundary_shape` records address, in the outer
input, exactly the sources the inlined wiring connects - for every source tree (any depth, any widths, null slots,
peered sub-structures, boundary leaves of an enclosing level), every projection the body applies and every nesting depth.
All statements are by structural induction on the source tree (`Src` / `Forest`).
-/
namespace HgVerif.BoundaryPath

/-- the sub-source at a position of a structural source (navigation through structural children only) -/
def Src.at? : Src → List Nat → Option Src
  | s, [] => some s
  | .struct ks, i :: r =>
    match ks.get? i with
    | some k => Src.at? k r
    | none => none
  | .null, _ :: _ => none
  | .peered _ _, _ :: _ => none
  | .boundary _ _, _ :: _ => none

/-- a leaf of the outer wiring: something with an output of its own -/
def Src.isLeaf : Src → Bool
  | .peered _ _ => true
  | .boundary _ _ => true
  | _ => false

theorem at?_nil (s : Src) : s.at? [] = some s := by cases s <;> rfl

theorem at?_append (o : Src) (pre r : List Nat) (t : Src) (h : o.at? pre = some t) : o.at? (pre ++ r) = t.at? r := by
  induction pre generalizing o with
  | nil => rw [at?_nil] at h; cases h; rfl
  | cons i p ih =>
    cases o with
    | struct ks =>
      simp only [Src.at?, List.cons_append] at h ⊢
      cases hk : ks.get? i with
      | none => simp [hk] at h
      | some k => simp only [hk] at h ⊢; exact ih k h
    | null => simp [Src.at?] at h
    | peered n q => simp [Src.at?] at h
    | boundary a q => simp [Src.at?] at h

theorem at?_child (o : Src) (pre : List Nat) (ks : Forest) (h : o.at? pre = some (.struct ks)) (j : Nat) (k : Src)
    (hk : ks.get? j = some k) : o.at? (pre ++ [j]) = some k := by
  rw [at?_append o pre [j] _ h]
  simp [Src.at?, hk]

/-- walking into the endpoint of the whole argument = walking into the endpoint of the sub-source at that position -/
theorem walk_append (o : Src) (pre rest : List Nat) (t : Src) (h : o.at? pre = some t) :
    walk o (pre ++ rest) = walk t rest := by
  induction pre generalizing o with
  | nil => rw [at?_nil] at h; cases h; rfl
  | cons i p ih =>
    cases o with
    | struct ks =>
      simp only [Src.at?, List.cons_append, walk] at h ⊢
      cases hk : ks.get? i with
      | none => simp [hk] at h
      | some k => simp only [hk] at h ⊢; exact ih k h
    | null => simp [Src.at?] at h
    | peered n q => simp [Src.at?] at h
    | boundary a q => simp [Src.at?] at h

theorem walk_leaf (l : Src) (h : l.isLeaf = true) : walk l [] = some l := by
  cases l <;> simp_all [Src.isLeaf, walk]

/-! ### the recorded paths address the mirrored sources -/

mutual
  /-- every leaf `(l, p)` of the mirror of the sub-source `t` at position `pre` sits at position `p` of the outer
      argument and is a leaf there -/
  theorem shapeLeaves_at (o : Src) : (t : Src) → (pre : List Nat) → o.at? pre = some t →
      ∀ x ∈ shapeLeaves t pre, o.at? x.2 = some x.1 ∧ x.1.isLeaf = true
    | .null, _, _ => by simp [shapeLeaves]
    | .peered n p, pre, h => by simp [shapeLeaves, h, Src.isLeaf]
    | .boundary a p, pre, h => by simp [shapeLeaves, h, Src.isLeaf]
    | .struct ks, pre, h => by
      simp only [shapeLeaves]
      exact kidsLeaves_at o ks pre 0 (fun j k hk => by simpa using at?_child o pre ks h j k hk)
  theorem kidsLeaves_at (o : Src) : (ks : Forest) → (pre : List Nat) → (i : Nat) →
      (∀ j k, ks.get? j = some k → o.at? (pre ++ [i + j]) = some k) →
      ∀ x ∈ kidsLeaves ks pre i, o.at? x.2 = some x.1 ∧ x.1.isLeaf = true
    | .nil, _, _, _ => by simp [kidsLeaves]
    | .cons k ks, pre, i, H => by
      intro x hx
      simp only [kidsLeaves, List.mem_append] at hx
      rcases hx with hx | hx
      · exact shapeLeaves_at o k (pre ++ [i]) (by simpa using H 0 k rfl) x hx
      · refine kidsLeaves_at o ks pre (i + 1) (fun j k' hk' => ?_) x hx
        have := H (j + 1) k' (by simpa [Forest.get?] using hk')
        simpa [Nat.add_assoc, Nat.add_comm 1 j] using this
end

/-- **Every recorded path resolves to the inlined source.**  For every outer source tree `o` (any depth, any widths)
    and every leaf `(l, p)` of its mirrored boundary shape: the binding `source_path = arg :: p`, walked from the
    nested node's root input, ends on exactly the outer source `l` the inlined wiring connects to that leaf. -/
theorem boundary_path_resolves_to_inlined_source (args : List Src) (a : Nat) (o : Src) (ha : args[a]? = some o)
    (l : Src) (p : List Nat) (h : (l, p) ∈ shapeLeaves o []) : bindLeaf args a p = l := by
  obtain ⟨hat, hl⟩ := shapeLeaves_at o o [] (at?_nil o) (l, p) h
  have := walk_append o p [] l hat
  simp only [List.append_nil] at this
  simp [bindLeaf, ha, this, walk_leaf l hl]

/-! ### distinct leaves get distinct paths -/

mutual
  theorem shapeLeaves_prefix : (t : Src) → (pre : List Nat) → ∀ x ∈ shapeLeaves t pre, ∃ s, x.2 = pre ++ s
    | .null, _ => by simp [shapeLeaves]
    | .peered n p, pre => by simp [shapeLeaves]
    | .boundary a p, pre => by simp [shapeLeaves]
    | .struct ks, pre => by
      intro x hx
      simp only [shapeLeaves] at hx
      obtain ⟨j, s, _, hs⟩ := kidsLeaves_prefix ks pre 0 x hx
      exact ⟨j :: s, hs⟩
  theorem kidsLeaves_prefix : (ks : Forest) → (pre : List Nat) → (i : Nat) →
      ∀ x ∈ kidsLeaves ks pre i, ∃ j s, i ≤ j ∧ x.2 = pre ++ j :: s
    | .nil, _, _ => by simp [kidsLeaves]
    | .cons k ks, pre, i => by
      intro x hx
      simp only [kidsLeaves, List.mem_append] at hx
      rcases hx with hx | hx
      · obtain ⟨s, hs⟩ := shapeLeaves_prefix k (pre ++ [i]) x hx
        exact ⟨i, s, Nat.le_refl _, by simpa using hs⟩
      · obtain ⟨j, s, hj, hs⟩ := kidsLeaves_prefix ks pre (i + 1) x hx
        exact ⟨j, s, by omega, hs⟩
end

mutual
  theorem shapeLeaves_nodup : (t : Src) → (pre : List Nat) → ((shapeLeaves t pre).map Prod.snd).Nodup
    | .null, _ => by simp [shapeLeaves]
    | .peered n p, pre => by simp [shapeLeaves]
    | .boundary a p, pre => by simp [shapeLeaves]
    | .struct ks, pre => by simp only [shapeLeaves]; exact kidsLeaves_nodup ks pre 0
  theorem kidsLeaves_nodup : (ks : Forest) → (pre : List Nat) → (i : Nat) → ((kidsLeaves ks pre i).map Prod.snd).Nodup
    | .nil, _, _ => by simp [kidsLeaves]
    | .cons k ks, pre, i => by
      simp only [kidsLeaves, List.map_append]
      rw [List.nodup_append]
      refine ⟨shapeLeaves_nodup k (pre ++ [i]), kidsLeaves_nodup ks pre (i + 1), ?_⟩
      intro p hp q hq hpq
      obtain ⟨x, hx, rfl⟩ := List.mem_map.1 hp
      obtain ⟨y, hy, rfl⟩ := List.mem_map.1 hq
      obtain ⟨s, hs⟩ := shapeLeaves_prefix k (pre ++ [i]) x hx
      obtain ⟨j, s', hj, hs'⟩ := kidsLeaves_prefix ks pre (i + 1) y hy
      rw [hs, hs', List.append_assoc] at hpq
      have := List.append_cancel_left hpq
      simp at this
      omega
end

/-- **The recorded paths are injective**: two different leaf positions of a structural argument never get the same
    binding path (the paths of the leaves, in depth-first order, are pairwise distinct). -/
theorem boundary_paths_injective (o : Src) : ((shapeLeaves o []).map Prod.snd).Nodup := shapeLeaves_nodup o []

/-! ### the mirrored shape as a tree: its boundary leaves are the recorded (argument, path) pairs -/

mutual
  def boundaryRefs : Src → List (Nat × List Nat)
    | .struct ks => kidsRefs ks
    | .boundary a p => [(a, p)]
    | .peered _ _ => []
    | .null => []
  def kidsRefs : Forest → List (Nat × List Nat)
    | .nil => []
    | .cons k ks => boundaryRefs k ++ kidsRefs ks
end

mutual
  theorem boundaryRefs_shape (a : Nat) : (t : Src) → (pre : List Nat) →
      boundaryRefs (boundaryShape t a pre) = (shapeLeaves t pre).map fun x => (a, x.2)
    | .null, _ => by simp [boundaryShape, shapeLeaves, boundaryRefs]
    | .peered n p, pre => by simp [boundaryShape, shapeLeaves, boundaryRefs]
    | .boundary b p, pre => by simp [boundaryShape, shapeLeaves, boundaryRefs]
    | .struct ks, pre => by simp only [boundaryShape, shapeLeaves, boundaryRefs]; exact kidsRefs_shape a ks pre 0
  theorem kidsRefs_shape (a : Nat) : (ks : Forest) → (pre : List Nat) → (i : Nat) →
      kidsRefs (shapeKids ks a pre i) = (kidsLeaves ks pre i).map fun x => (a, x.2)
    | .nil, _, _ => by simp [shapeKids, kidsLeaves, kidsRefs]
    | .cons k ks, pre, i => by
      simp only [shapeKids, kidsLeaves, kidsRefs, List.map_append]
      rw [boundaryRefs_shape a k (pre ++ [i]), kidsRefs_shape a ks pre (i + 1)]
end

/-! ### binding the mirrored shape gives back the outer source -/

mutual
  theorem bind_shape (args : List Src) (a : Nat) (o : Src) (ha : args[a]? = some o) :
      (t : Src) → (pre : List Nat) → o.at? pre = some t → bindSrc args (boundaryShape t a pre) = t
    | .null, _, _ => by simp [boundaryShape, bindSrc]
    | .peered n p, pre, h => by
      have := walk_append o pre [] _ h
      simp only [List.append_nil] at this
      simp [boundaryShape, bindSrc, bindLeaf, ha, this, walk]
    | .boundary b p, pre, h => by
      have := walk_append o pre [] _ h
      simp only [List.append_nil] at this
      simp [boundaryShape, bindSrc, bindLeaf, ha, this, walk]
    | .struct ks, pre, h => by
      simp only [boundaryShape, bindSrc]
      rw [bind_kids args a o ha ks pre 0 (fun j k hk => by simpa using at?_child o pre ks h j k hk)]
  theorem bind_kids (args : List Src) (a : Nat) (o : Src) (ha : args[a]? = some o) :
      (ks : Forest) → (pre : List Nat) → (i : Nat) → (∀ j k, ks.get? j = some k → o.at? (pre ++ [i + j]) = some k) →
      bindKids args (shapeKids ks a pre i) = ks
    | .nil, _, _, _ => by simp [shapeKids, bindKids]
    | .cons k ks, pre, i, H => by
      simp only [shapeKids, bindKids]
      rw [bind_shape args a o ha k (pre ++ [i]) (by simpa using H 0 k rfl),
          bind_kids args a o ha ks pre (i + 1) (fun j k' hk' => by
            have := H (j + 1) k' (by simpa [Forest.get?] using hk')
            simpa [Nat.add_assoc, Nat.add_comm 1 j] using this)]
end

/-- **Binding the whole mirrored parameter reproduces the outer argument**: every child endpoint of a structural
    parameter is bound to the source at the same position of the outer argument; null slots stay unbound. -/
theorem bind_boundaryShape_eq_source (args : List Src) (a : Nat) (o : Src) (ha : args[a]? = some o) :
    bindSrc args (boundaryShape o a []) = o :=
  bind_shape args a o ha o [] (at?_nil o)

/-! ### projections in the body commute with the binding -/

theorem get?_shapeKids (a : Nat) : (ks : Forest) → (pre : List Nat) → (i j : Nat) →
    (shapeKids ks a pre i).get? j = (ks.get? j).map fun k => boundaryShape k a (pre ++ [i + j])
  | .nil, _, _, _ => by simp [shapeKids, Forest.get?]
  | .cons k ks, pre, i, 0 => by simp [shapeKids, Forest.get?]
  | .cons k ks, pre, i, j + 1 => by
    simp only [shapeKids, Forest.get?]
    rw [get?_shapeKids a ks pre (i + 1) j]
    simp [Nat.add_assoc, Nat.add_comm 1 j]

theorem projAll_null (q : List Nat) : projAll .null q = .null := by
  induction q with
  | nil => rfl
  | cons i q ih => simpa [projAll, project] using ih

theorem projAll_peered (n : Nat) (p q : List Nat) : projAll (.peered n p) q = .peered n (p ++ q) := by
  induction q generalizing p with
  | nil => simp [projAll]
  | cons i q ih =>
    have := ih (p ++ [i])
    simp only [projAll, List.foldl_cons, project] at this ⊢
    simpa using this

theorem projAll_boundary (a : Nat) (p q : List Nat) : projAll (.boundary a p) q = .boundary a (p ++ q) := by
  induction q generalizing p with
  | nil => simp [projAll]
  | cons i q ih =>
    have := ih (p ++ [i])
    simp only [projAll, List.foldl_cons, project] at this ⊢
    simpa using this

theorem projAll_cons (s : Src) (i : Nat) (q : List Nat) : projAll s (i :: q) = projAll (project s i) q := rfl

theorem bindSrc_null (args : List Src) : bindSrc args .null = .null := by simp [bindSrc]

/-- projecting inside the child and then binding = projecting the sub-source of the outer argument directly -/
theorem bind_projAll_shape_at (args : List Src) (a : Nat) (o : Src) (ha : args[a]? = some o) (q : List Nat) :
    ∀ (t : Src) (pre : List Nat), o.at? pre = some t → bindSrc args (projAll (boundaryShape t a pre) q) = projAll t q := by
  induction q with
  | nil => intro t pre h; exact bind_shape args a o ha t pre h
  | cons i q ih =>
    intro t pre h
    cases t with
    | null => simp [boundaryShape, projAll_null, bindSrc_null]
    | peered n p =>
      have := walk_append o pre (i :: q) _ h
      simp [boundaryShape, projAll_boundary, projAll_peered, bindSrc, bindLeaf, ha, this, walk]
    | boundary b p =>
      have := walk_append o pre (i :: q) _ h
      simp [boundaryShape, projAll_boundary, bindSrc, bindLeaf, ha, this, walk]
    | struct ks =>
      rw [projAll_cons, projAll_cons]
      simp only [boundaryShape, project, get?_shapeKids]
      cases hk : ks.get? i with
      | none => simp [projAll_null, bindSrc_null]
      | some k =>
        simp only [Option.map_some, Option.getD_some, Nat.zero_add]
        exact ih k (pre ++ [i]) (at?_child o pre ks h i k hk)

/-- **The nested body reads the inlined body's sources** (one level): whatever chain of `tsl_element` / `field`
    projections `q` the body applies to its structured parameter - down to a leaf, or stopping at an inner structure
    that a node consumes whole - the input edge it wires, bound at nested start, is the source the same projections
    select from the outer argument in the inlined wiring.  Any source tree, any `q`. -/
theorem nested_input_eq_inlined_source (args : List Src) (a : Nat) (o : Src) (ha : args[a]? = some o) (q : List Nat) :
    bindSrc args (projAll (boundaryShape o a []) q) = projAll o q :=
  bind_projAll_shape_at args a o ha q o [] (at?_nil o)

/-! ### any nesting depth -/

theorem argsAt_get (o : Src) (a k : Nat) : (argsAt o a k)[a]? = some (deepSrc o a k) := by
  simp [argsAt]

/-- **At every nesting depth the body reads the sources of the inlined wiring** (`bodyInput .. 0 q = projAll o q`
    by definition): the parameter handed down `D` levels, projected by the body and bound level by level outwards. -/
theorem nested_depth_reads_inlined_sources (o : Src) (a D : Nat) (q : List Nat) :
    bodyInput o a D q = bodyInput o a 0 q := by
  induction D generalizing q with
  | zero => rfl
  | succ D ih =>
    have h1 := nested_input_eq_inlined_source (argsAt o a D) a (deepSrc o a D) (argsAt_get o a D) q
    have h2 := ih q
    simp only [bodyInput, unwind, deepSrc] at h2 ⊢
    rw [h1, h2]

theorem bodyInput_zero (o : Src) (a : Nat) (q : List Nat) : bodyInput o a 0 q = projAll o q := rfl

/-- two nesting depths read the same sources -/
theorem nested_depth_irrelevant_inputs (o : Src) (a D D' : Nat) (q : List Nat) :
    bodyInput o a D q = bodyInput o a D' q := by
  rw [nested_depth_reads_inlined_sources o a D q, nested_depth_reads_inlined_sources o a D' q]

/-! ### value level: a body that is an arbitrary function of what its inputs are bound to -/

/-- the input edges of the body node(s) for the views `views` at depth `D` -/
def bodyInputs (o : Src) (a D : Nat) (views : List (List Nat)) : List Src := views.map (bodyInput o a D)

theorem bodyInputs_depth (o : Src) (a D : Nat) (views : List (List Nat)) :
    bodyInputs o a D views = bodyInputs o a 0 views := by
  simp [bodyInputs, nested_depth_reads_inlined_sources o a D]

/-- **Any body, any environment**: for every assignment `env` of streams to outer sources and every body `f` that is a
    function of the streams on its input edges, nested at depth `D` computes what inlined computes. -/
theorem nested_body_value_eq_inlined {α β : Type} (env : Src → α) (f : List α → β) (o : Src) (a D : Nat)
    (views : List (List Nat)) :
    f ((bodyInputs o a D views).map env) = f ((bodyInputs o a 0 views).map env) := by
  rw [bodyInputs_depth]

open HgVerif.NestShape in
/-- **Connection to the structured-result theorems** (`nested_delta_eq_inlined_delta`): a sub-graph whose body turns
    the sources on its input edges into a history of per-leaf writes (`body`, arbitrary) records, nested at depth `D`
    over a structural argument of any depth, the outer delta the inlined wiring records - leaf by leaf, cycle by cycle. -/
theorem nested_structured_argument_delta_eq_inlined (o : Src) (a : Nat) (views : List (List Nat))
    (body : List Src → List Cycle) (D L t0 t0' : Nat) (h : List Cycle) (cy : Cycle) (i : Nat) (hi : i < L)
    (hb : body (bodyInputs o a 0 views) = h ++ [cy]) (hs : Sorted 0 (h ++ [cy])) :
    outerDelta D cy.t (run false D L t0 (body (bodyInputs o a D views)) i) =
      outerDelta 0 cy.t (run false 0 L t0' (body (bodyInputs o a 0 views)) i) := by
  rw [bodyInputs_depth, hb]
  exact nested_delta_eq_inlined_delta D L t0 t0' h cy i hi hs

open HgVerif.NestShape in
/-- the same for two nesting depths (`nested_depth_irrelevant`) -/
theorem nested_structured_argument_depth_irrelevant (o : Src) (a : Nat) (views : List (List Nat))
    (body : List Src → List Cycle) (D D' L t0 : Nat) (h : List Cycle) (cy : Cycle) (i : Nat) (hi : i < L)
    (hb : body (bodyInputs o a 0 views) = h ++ [cy]) (hs : Sorted 0 (h ++ [cy])) :
    outerDelta D cy.t (run false D L t0 (body (bodyInputs o a D views)) i) =
      outerDelta D' cy.t (run false D' L t0 (body (bodyInputs o a D' views)) i) := by
  rw [bodyInputs_depth o a D, bodyInputs_depth o a D', hb]
  exact nested_depth_irrelevant D D' L t0 h cy i hi hs

/-! ### counter-lemma: the prefix MOVED into the first child's path (seed s105) -/

def pA : Src := .peered 1 []
def pB : Src := .peered 2 []
def pC : Src := .peered 3 []
def pD : Src := .peered 4 []
/-- `to_tsl(to_tsl(a,b), to_tsl(c,d))` -/
def quad : Src := .struct (.cons (.struct (.cons pA (.cons pB .nil))) (.cons (.struct (.cons pC (.cons pD .nil))) .nil))
/-- `to_tsb(to_tsl(a,b), c)` -/
def mixed : Src := .struct (.cons (.struct (.cons pA (.cons pB .nil))) (.cons pC .nil))

/-- With the prefix dropped for the siblings `>= 1`: in `{{a,b},{c,d}}` the DIFFERENT leaves `b` and `d` get the same
    path `[1]`, which addresses a non-peered position - both stay unbound; in `{{a,b},c}` the slot of `b` is silently
    bound to `c`.  The code as written keeps the four paths apart and binds `b` to `b`. -/
theorem moved_prefix_aliases_and_misbinds :
    boundaryRefs (boundaryShapeMoved quad 0 []) = [(0, [0, 0]), (0, [1]), (0, [1, 0]), (0, [1])] ∧
    bodyInputMoved quad 0 1 [0, 1] = .null ∧ bodyInputMoved quad 0 1 [1, 1] = .null ∧
    bodyInputMoved mixed 0 1 [0, 1] = pC ∧
    boundaryRefs (boundaryShape quad 0 []) = [(0, [0, 0]), (0, [0, 1]), (0, [1, 0]), (0, [1, 1])] ∧
    bodyInput quad 0 1 [0, 1] = pB ∧ bodyInput quad 0 1 [1, 1] = pD ∧ bodyInput mixed 0 1 [0, 1] = pB := by
  decide

/-- at the top level the prefix is empty: a FLAT `{a,b,c}` argument is mirrored identically by the moved variant (why
    the flat structured kinds of the stream cannot see the change) -/
theorem moved_prefix_same_on_flat :
    boundaryShapeMoved (.struct (.cons pA (.cons pB (.cons pC .nil)))) 0 [] =
      boundaryShape (.struct (.cons pA (.cons pB (.cons pC .nil)))) 0 [] := by decide

/-! ### non-vacuity -/

/-- depth 3, mixed widths, a peered sub-structure (node 7 with a TSL output), a null slot -/
def deep3 : Src :=
  .struct (.cons (.struct (.cons (.struct (.cons pA (.cons pB .nil))) (.cons (.peered 7 []) .nil)))
    (.cons pC (.cons (.struct (.cons .null (.cons pD .nil))) .nil)))

example : shapeLeaves deep3 [] = [(pA, [0, 0, 0]), (pB, [0, 0, 1]), (.peered 7 [], [0, 1]), (pC, [1]), (pD, [2, 1])] := by decide
example : (deep3.at? [0, 0, 1]) = some pB := by decide
-- a non-first child two levels down, at depth 3 of nesting; a projection INTO the peered sub-structure; an inner
-- structure consumed whole; the null slot
example : bodyInput deep3 0 3 [0, 0, 1] = pB := by decide
example : bodyInput deep3 0 2 [0, 1, 1] = .peered 7 [1] := by decide
example : bodyInput deep3 0 2 [0, 0] = .struct (.cons pA (.cons pB .nil)) := by decide
example : bodyInput deep3 0 1 [2, 0] = .null := by decide
example : bindLeaf [deep3] 0 [2, 1] = pD := by decide

end HgVerif.BoundaryPath
