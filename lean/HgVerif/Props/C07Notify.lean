import HgVerif.Lemmas.Notify
/-!
# C07 - notification / failed-run reuse stream

Runs that register one-shot evaluation notifications, that fail inside them, and runs made afterwards on the same
thread (`Model/Notify.lean`).  `BufMode.localBatch` is the code; `BufMode.threadBuffer` is the seeded behaviour the
counter-lemma exhibits.

* `run_trace_independent_of_earlier_runs` (+ `_at`, `runExec_thread_irrelevant`): in every sequence of runs, every run
  prints the trace of its recipe alone - whatever the earlier runs did, failed ones included.
* `failed_drain_leaves_nothing`, `failed_batch_is_dropped`: a throwing callback ends the drain; the thread holds nothing
  afterwards, the executor holds only what the callbacks that DID fire registered.
* order: `batch_fires_in_order`, `batch_throw_ends_batch`, `drain_before_fifo`, `drain_after_lifo`,
  `reentrant_same_boundary`; `drain_fuel_enough`: the model's fuel is never the reason for a result.
* `thread_buffer_leaks` (counter-lemma, concrete witness), `thread_buffer_fresh_thread_unaffected`,
  `thread_buffer_harmless_without_throwing_notification`: exactly when the seeded buffer shows.
-/
set_option linter.unusedSimpArgs false
namespace HgVerif.Notify

/-! ## isolation -/

/-- As coded, a run neither reads nor changes what the evaluation thread holds: from ANY thread state it returns that
state untouched and prints the trace of the recipe alone. -/
theorem runExec_thread_irrelevant (r : Recipe) (th : Thread) :
    runExec .localBatch r th = (th, runAlone r) :=
  runExec_inert _ _ _ (Or.inl rfl)

/-- For ALL run sequences (any recipes and scripts, any mix of main-thread / fresh-thread runs, any thread state the
sequence starts from): the traces are, run by run, the traces of the recipes alone. -/
theorem run_trace_independent_of_earlier_runs (steps : List Step) (th : Thread) :
    runSeq .localBatch steps th = steps.map (fun s => runAlone s.recipe) := by
  induction steps generalizing th with
  | nil => rfl
  | cons s rest ih =>
    simp only [runSeq, runExec_thread_irrelevant, List.map_cons]
    split <;> simp only [ih]

/-- Pointwise form: run `k` of a sequence prints `runAlone` of its recipe, whatever the `k` earlier runs were -
clean, failing inside a before / after notification, failing inside the node, on this thread or another. -/
theorem run_trace_independent_of_earlier_runs_at (pre : List Step) (s : Step) (post : List Step) (th : Thread) :
    (runSeq .localBatch (pre ++ s :: post) th)[pre.length]? = some (runAlone s.recipe) := by
  rw [run_trace_independent_of_earlier_runs]
  simp

/-! ## a failed drain -/

/-- After a drain that ended in an exception the thread is as it was, a later drain starts from an empty batch, and
behaves as on a thread that has never drained anything. -/
theorem failed_drain_leaves_nothing (b : Bool) (fuel : Nat) (th th' : Thread)
    (st st' : Exec) (e : Err) (h : drain .localBatch b fuel th st = (th', st', some e)) :
    th' = th ∧ pendingInit .localBatch th' = [] ∧
      ∀ b2 fuel2 st2, drain .localBatch b2 fuel2 th' st2 = (th', drainL b2 fuel2 st2) := by
  rw [drain_local] at h
  refine ⟨?_, rfl, fun _ _ _ => drain_local _ _ _ _⟩
  exact (congrArg Prod.fst h).symm

/-- The batch in which a callback throws is dropped: the drain ends there with that callback's error, the log shows
the callbacks up to and including the thrower (in batch order) and nothing of the rest, and the executor's queue holds
exactly the re-entrant registrations of the callbacks that fired - no member of the batch. -/
theorem failed_batch_is_dropped (b : Bool) (fuel : Nat) (th : Thread) (st : Exec)
    (c : Cb) (cs : List Cb) (e : Err) (hq : st.queue b = c :: cs)
    (hb : (runBatch (batchOrder b (c :: cs)) (st.setQueue b [])).2 = some e) :
    ∃ st2, drain .localBatch b (fuel + 1) th st = (th, st2, some e) ∧
      ∃ pre cb post, batchOrder b (c :: cs) = pre ++ cb :: post ∧ e = .note cb.lbl ∧
        st2.log = st.log ++ (pre ++ [cb]).map (fun cb => .fire cb.lbl) ++ [.noteThrow] ∧
        st2.queue b = ofKind b ((pre ++ [cb]).flatMap kidsOf) := by
  obtain ⟨pre, cb, post, ho, he, hl, hk⟩ := runBatch_throws _ _ e hb
  refine ⟨(runBatch (batchOrder b (c :: cs)) (st.setQueue b [])).1, ?_, pre, cb, post, ho, he, ?_, ?_⟩
  · simp only [drain, hq, pendingInit, parkOnThrow]
    rcases hr : runBatch (batchOrder b (c :: cs)) (st.setQueue b []) with ⟨st2, _ | e'⟩
    · rw [hr] at hb; simp at hb
    · rw [hr] at hb; simp at hb; subst hb; rfl
  · rw [hl]; simp
  · rw [hk b]; simp

/-! ## order -/

theorem fires_map_fire (ls : List Lbl) : fires (ls.map Ev.fire) = ls := by
  induction ls with
  | nil => rfl
  | cons l rest ih => simp [fires, ih]

/-- A batch whose callbacks do not throw fires them in the order given, each exactly once, and logs nothing else. -/
theorem batch_fires_in_order (order : List Cb) (st : Exec) (h : (runBatch order st).2 = none) :
    (runBatch order st).1.log = st.log ++ (order.map (·.lbl)).map .fire ∧
      fires ((order.map (·.lbl)).map Ev.fire) = order.map (·.lbl) := by
  refine ⟨?_, fires_map_fire _⟩
  rw [runBatch_fires order st h, List.map_map]; rfl

/-- An exception ends the batch: the error is the thrower's, the callbacks behind it never fire. -/
theorem batch_throw_ends_batch (order : List Cb) (st : Exec) (e : Err) (h : (runBatch order st).2 = some e) :
    ∃ pre cb post, order = pre ++ cb :: post ∧ e = .note cb.lbl ∧
      (runBatch order st).1.log = st.log ++ (pre ++ [cb]).map (fun cb => .fire cb.lbl) ++ [.noteThrow] := by
  obtain ⟨pre, cb, post, ho, he, hl, _⟩ := runBatch_throws order st e h
  exact ⟨pre, cb, post, ho, he, hl⟩

/-- Before-notifications run first in, first out: the drain's log continues with the queue front to back. -/
theorem drain_before_fifo (m : BufMode) (fuel : Nat) (th : Thread) (st : Exec)
    (c : Cb) (cs : List Cb) (hq : st.before = c :: cs)
    (hb : (runBatch (c :: cs) (st.setQueue true (pendingInit m th))).2 = none) :
    ∃ suffix, (drain m true (fuel + 1) th st).2.1.log =
      st.log ++ (c :: cs).map (fun cb => .fire cb.lbl) ++ suffix := by
  have hq' : st.queue true = c :: cs := hq
  have ho : batchOrder true (c :: cs) = c :: cs := rfl
  simp only [drain, hq', ho]
  rcases hr : runBatch (c :: cs) (st.setQueue true (pendingInit m th)) with ⟨st2, _ | e'⟩
  · have hf := runBatch_fires (c :: cs) (st.setQueue true (pendingInit m th)) hb
    simp only [hr, setQueue_log] at hf
    obtain ⟨s2, h2⟩ := drain_log_extends m true fuel (parkOnDone m th) st2
    exact ⟨s2, by rw [h2, hf]⟩
  · rw [hr] at hb; simp at hb

/-- After-notifications run last in, first out: the drain's log continues with the queue back to front. -/
theorem drain_after_lifo (m : BufMode) (fuel : Nat) (th : Thread) (st : Exec)
    (c : Cb) (cs : List Cb) (hq : st.after = c :: cs)
    (hb : (runBatch (c :: cs).reverse (st.setQueue false (pendingInit m th))).2 = none) :
    ∃ suffix, (drain m false (fuel + 1) th st).2.1.log =
      st.log ++ (c :: cs).reverse.map (fun cb => .fire cb.lbl) ++ suffix := by
  have hq' : st.queue false = c :: cs := hq
  have ho : batchOrder false (c :: cs) = (c :: cs).reverse := rfl
  simp only [drain, hq', ho]
  rcases hr : runBatch (c :: cs).reverse (st.setQueue false (pendingInit m th)) with ⟨st2, _ | e'⟩
  · have hf := runBatch_fires (c :: cs).reverse (st.setQueue false (pendingInit m th)) hb
    simp only [hr, setQueue_log] at hf
    obtain ⟨s2, h2⟩ := drain_log_extends m false fuel (parkOnDone m th) st2
    exact ⟨s2, by rw [h2, hf]⟩
  · rw [hr] at hb; simp at hb

/-- Re-entrant registration lands on the SAME boundary: after a batch that ran to its end, the loop goes on with a
queue that holds (what `pending` was swapped out for - nothing as coded - and then) exactly the callbacks of this kind
that the batch registered, in firing order; registrations of the other kind went to the other queue. -/
theorem reentrant_same_boundary (m : BufMode) (b : Bool) (fuel : Nat) (th : Thread)
    (st : Exec) (c : Cb) (cs : List Cb) (hq : st.queue b = c :: cs)
    (hb : (runBatch (batchOrder b (c :: cs)) (st.setQueue b (pendingInit m th))).2 = none) :
    ∃ st2, drain m b (fuel + 1) th st = drain m b fuel (parkOnDone m th) st2 ∧
      st2.log = st.log ++ (batchOrder b (c :: cs)).map (fun cb => .fire cb.lbl) ∧
      st2.queue b = pendingInit m th ++ ofKind b ((batchOrder b (c :: cs)).flatMap kidsOf) ∧
      st2.queue (!b) = st.queue (!b) ++ ofKind (!b) ((batchOrder b (c :: cs)).flatMap kidsOf) := by
  refine ⟨(runBatch (batchOrder b (c :: cs)) (st.setQueue b (pendingInit m th))).1, ?_, ?_, ?_, ?_⟩
  · simp only [drain, hq]
    rcases hr : runBatch (batchOrder b (c :: cs)) (st.setQueue b (pendingInit m th)) with ⟨st2, _ | e'⟩
    · rfl
    · rw [hr] at hb; simp at hb
  · rw [runBatch_fires _ _ hb]; simp
  · rw [runBatch_queue _ _ b hb]; simp
  · rw [runBatch_queue _ _ (!b) hb, setQueue_queue_other]

/-! ## the fuel of the model is never the reason for a result -/

/-- the tables the drivers accept: a callback registers only larger ids, all below `N` -/
def EnvRanked (env : Defs) (N : Nat) : Prop :=
  ∀ p : Cb, p.env = env → ∀ cb ∈ kidsOf p, p.lbl.id < cb.lbl.id ∧ cb.lbl.id < N

theorem drain_fuel_aux (N : Nat) (b : Bool) (th : Thread) :
    ∀ (fuel lo : Nat) (st : Exec),
      (∀ cb ∈ st.queue b, lo ≤ cb.lbl.id ∧ cb.lbl.id < N ∧ EnvRanked cb.env N) → N ≤ fuel + lo →
      (drain .localBatch b fuel th st).2.2 ≠ some .loop := by
  intro fuel
  induction fuel with
  | zero =>
    intro lo st hq hf
    simp only [drain]
    rcases hqq : st.queue b with _ | ⟨c, cs⟩
    · simp
    · have := hq c (by rw [hqq]; exact List.mem_cons_self)
      omega
  | succ n ih =>
    intro lo st hq hf
    simp only [drain]
    rcases hqq : st.queue b with _ | ⟨c, cs⟩
    · simp
    · simp only [pendingInit, parkOnDone, parkOnThrow]
      rcases hr : runBatch (batchOrder b (c :: cs)) (st.setQueue b []) with ⟨st2, _ | e'⟩
      · simp only []
        apply ih (lo + 1) st2 _ (by omega)
        intro cb hcb
        have hk := runBatch_queue (batchOrder b (c :: cs)) (st.setQueue b []) b (by rw [hr])
        rw [hr] at hk
        simp only [setQueue_queue, List.nil_append] at hk
        rw [hk] at hcb
        obtain ⟨p, hp, hcp⟩ := List.mem_flatMap.mp (mem_ofKind hcb)
        have h1 := hq p (by rw [hqq]; exact batchOrder_mem hp)
        have h2 := h1.2.2 p rfl cb hcp
        refine ⟨by omega, h2.2, ?_⟩
        rw [kidsOf_env hcp]; exact h1.2.2
      · simp only []
        obtain ⟨_, cb, _, _, he, _⟩ := runBatch_throws _ _ e' (by rw [hr])
        rw [he]; simp

/-- For callbacks over ranked tables with ids below `N`, `N` batches are enough: a drain never ends with the model's
`loop` error (`drainFuel = 64`; the drivers reject ids above 31 and re-registration of an id that is not larger). -/
theorem drain_fuel_enough (N : Nat) (b : Bool) (fuel : Nat) (th : Thread) (st : Exec)
    (hq : ∀ cb ∈ st.queue b, cb.lbl.id < N ∧ EnvRanked cb.env N) (hf : N ≤ fuel) :
    (drain .localBatch b fuel th st).2.2 ≠ some .loop :=
  drain_fuel_aux N b th fuel 0 st (fun cb h => ⟨Nat.zero_le _, hq cb h⟩) (by omega)

/-! ## the counter-lemma: a batch buffer that outlives the drain -/

/-- a run whose after-notification `a1` throws in the first cycle: `run t1 a1 d1=!` -/
def witnessFail : Recipe := { ticks := [{ time := 1, acts := [.reg ⟨false, 1⟩] }], defs := [(1, [.throw])] }
/-- a clean run that registers one after-notification: `run t1 a0` -/
def witnessClean : Recipe := { ticks := [{ time := 1, acts := [.reg ⟨false, 0⟩] }] }
def witnessSteps : List Step := [⟨false, witnessFail⟩, ⟨false, witnessClean⟩]

/-- With the batch buffer owned by the thread (seeded defect s55) the SAME clean recipe prints another trace after a
run that failed inside a notification: the failed run's callback `a1` fires again inside the later run, which then
fails with the earlier run's error (`S E1 K1=101 a0 a1 ! P err:note:a1` instead of `S E1 K1=101 a0 P ok`).  As coded
(`localBatch`) the two traces are equal. -/
theorem thread_buffer_leaks :
    runSeq .threadBuffer witnessSteps { } =
      [{ log := [.start, .eval 1, .sink 1 101, .fire ⟨false, 1⟩, .noteThrow, .stop], result := some (.note ⟨false, 1⟩) },
       { log := [.start, .eval 1, .sink 1 101, .fire ⟨false, 0⟩, .fire ⟨false, 1⟩, .noteThrow, .stop],
         result := some (.note ⟨false, 1⟩) }] ∧
    runAlone witnessClean = { log := [.start, .eval 1, .sink 1 101, .fire ⟨false, 0⟩, .stop], result := none } ∧
    runSeq .threadBuffer witnessSteps { } ≠ witnessSteps.map (fun s => runAlone s.recipe) ∧
    runSeq .localBatch witnessSteps { } = witnessSteps.map (fun s => runAlone s.recipe) := by
  refine ⟨by decide, by decide, by decide, run_trace_independent_of_earlier_runs _ _⟩

/-- Even with the thread buffer, a run on a fresh thread is the run of its recipe on a thread that has run nothing:
what other threads parked cannot reach it (the buffer is `thread_local`). -/
theorem thread_buffer_fresh_thread_unaffected (m : BufMode) (pre : List Step) (s : Step) (post : List Step)
    (th : Thread) (hs : s.freshThread = true) :
    (runSeq m (pre ++ s :: post) th)[pre.length]? = some (runExec m s.recipe { }).2 := by
  induction pre generalizing th with
  | nil => simp [runSeq, hs]
  | cons p rest ih =>
    simp only [List.cons_append, runSeq]
    split
    · simpa using ih th
    · simpa using ih _

/-- The thread buffer is harmless as long as no notification throws: sequences of runs whose notifications never
throw (node failures allowed) print the traces of their recipes alone in that mode too.  So the seeded behaviour needs
exactly an earlier run that failed INSIDE a notification. -/
theorem thread_buffer_harmless_without_throwing_notification (steps : List Step)
    (h : ∀ s ∈ steps, DefsQuiet s.recipe.defs) :
    runSeq .threadBuffer steps { } = steps.map (fun s => runAlone s.recipe) := by
  induction steps with
  | nil => rfl
  | cons s rest ih =>
    have hs : runExec .threadBuffer s.recipe { } = ({ }, runAlone s.recipe) :=
      runExec_inert _ _ _ (Or.inr ⟨rfl, h s List.mem_cons_self⟩)
    have hr := ih (fun s' hs' => h s' (List.mem_cons_of_mem _ hs'))
    simp only [runSeq, hs, List.map_cons]
    split <;> simp only [hr]

/-! ## non-vacuity -/

/-- a run with re-entrant registrations of both kinds, a throwing after-notification and a stop-phase drain:
`run t1 a1 t2 a2 d2=a3,! d3=b4`  ->  `S E1 K1=101 a1 E2 K2=102 a2 ! P a3 b4 err:note:a2` -/
example :
    runAlone { ticks := [{ time := 1, acts := [.reg ⟨false, 1⟩] }, { time := 2, acts := [.reg ⟨false, 2⟩] }],
               defs := [(2, [.reg ⟨false, 3⟩, .throw]), (3, [.reg ⟨true, 4⟩])] } =
      { log := [.start, .eval 1, .sink 1 101, .fire ⟨false, 1⟩, .eval 2, .sink 2 102, .fire ⟨false, 2⟩, .noteThrow,
                .stop, .fire ⟨false, 3⟩, .fire ⟨true, 4⟩],
        result := some (.note ⟨false, 2⟩) } := by decide

/-- the hypotheses of `failed_drain_leaves_nothing` / `failed_batch_is_dropped` are met by a concrete drain -/
example :
    drain .localBatch false 3 { }
        { after := [⟨⟨false, 0⟩, [(1, [.throw])]⟩, ⟨⟨false, 1⟩, [(1, [.throw])]⟩, ⟨⟨false, 2⟩, [(1, [.throw])]⟩] } =
      ({ }, { log := [.fire ⟨false, 2⟩, .fire ⟨false, 1⟩, .noteThrow] }, some (.note ⟨false, 1⟩)) := by decide

/-- `EnvRanked` and `DefsQuiet` hold for concrete non-empty tables -/
example : EnvRanked [(1, [.reg ⟨false, 2⟩, .reg ⟨true, 3⟩])] 32 := by
  intro p hp cb h
  unfold kidsOf actsOf at h
  rw [hp] at h
  simp only [List.lookup] at h
  split at h
  · next heq =>
    have : p.lbl.id = 1 := by simpa using heq
    simp [regsOf] at h
    rcases h with rfl | rfl <;> simp [this]
  · simp [regsOf] at h

example : DefsQuiet [(1, [.reg ⟨false, 2⟩])] := by
  intro id
  unfold ActsQuiet actsOf
  simp only [List.lookup]
  split <;> simp

end HgVerif.Notify
