import HgVerif.Lemmas.DeltaReplay
/-!
# C20 — recording a time-series and replaying the recording reproduces the same ticks

Model: `Model/Delta.lean` (`capture`, the gated `apply`, `observable`, the dense buffer, the `replay` and
`record` nodes and the graph `replay → record`).  Specification side (`Lemmas/Delta.lean`,
`Lemmas/DeltaReplay.lean`): `Tick s pre m` — a *replayable* tick: marks coherent with the change, and none of
  A. a `TSS`/`TSD` ticking with an empty delta although already valid,
  B. a ticking `TSB` with a non-ticking collection field whose empty delta would have an effect on it,
  C. a dictionary key whose child never became valid;
`GoodHist` — a history of such ticks with arbitrary gaps (a cycle without tick is `clear`).

Schemas include the DYNAMIC list `tsld e` (`TSL<e>` without a size: grows on `at(i)`, skipped indices are
never-ticked placeholders); for it `Tick` additionally excludes
  D. growth that no entry of the delta witnesses (`at(i)` past the end whose new last child does not tick).
`Props/C20Dyn.lean` restates the theorems below for dynamic lists and refutes the "append at the next free
position" rule and the unrestricted statement (situation D).

Property theorems (every schema `s` that is well formed, every state, every history):

* `apply_capture`        `apply pre (capture m) = m` — the copy equals the post-tick state *including* its
                          per-position marks (modified / added / removed) for this cycle.
* `capture_apply`        capturing from the copy yields the same delta.
* `tick_hasEffect`, `tick_observable`   the replayed delta passes `apply_delta`'s gate; `record` stores it.
* `record_index`         the dense buffer is the per-cycle tick sequence cut after the last tick:
                          index `i` = cycle `i`, `none` = no tick.
* `replay_cycles`        the replay source evaluates exactly once per buffered cycle, at that cycle.
* `replay_record_id`     replaying the recording of any history and recording again gives the same buffer.
* `replay_values`        … and the same state (value and marks) in every cycle, hence the same final value.
* `emptyTick_not_replayed`, `bundleDefault_validates`, `ghostKey_not_recorded`,
  `apply_capture_unrestricted_false`   the three excluded situations do break the round trip in the model
                          (as they do in the code), so the hypotheses above cannot be dropped.
-/
namespace HgVerif.Delta

/-- a time-series schema (not a bare field list), well formed -/
def isSchema (s : Shape) : Prop := wfShape s = true ∧ isFields s = false

/-! ## capture / apply -/

/-- Applying the captured delta to a copy of the pre-tick state yields the post-tick state, with the same
    per-position marks for the cycle. -/
theorem apply_capture (s : Shape) (hs : isSchema s) (pre m : St s) (h : Tick s pre m)
    (hm : modified s m = true) : apply s pre (capture s m) = m :=
  (apply_capture_aux s hs.1).1 hs.2 pre m h hm

/-- Capturing again from the copy yields the same delta. -/
theorem capture_apply (s : Shape) (hs : isSchema s) (pre m : St s) (h : Tick s pre m)
    (hm : modified s m = true) : capture s (apply s pre (capture s m)) = capture s m := by
  rw [apply_capture s hs pre m h hm]

/-- The delta of a replayable tick always passes the `delta_has_effect` gate when it is applied to the
    pre-tick state (no recorded tick is swallowed). -/
theorem tick_hasEffect (s : Shape) (pre m : St s) (h : Tick s pre m) (hm : modified s m = true) :
    hasEffect s pre (capture s m) = true :=
  tick_hasEffect_aux s pre m h hm

/-- `record` stores every replayable tick (`delta_is_observable`). -/
theorem tick_observable (s : Shape) (pre m : St s) (h : Tick s pre m) (hm : modified s m = true) :
    observable s m (capture s m) = true :=
  tick_observable_aux s pre m h hm

/-! ## the dense buffer and the replay source -/

/-- Index `i` of the recorded buffer is the tick of cycle `i` (`none` = no tick); the buffer ends at the
    last tick. -/
theorem record_index {s : Shape} (hist : List (St s)) :
    recordHist hist 0 [] = (hist.map (tickOf s)).take (recordHist hist 0 []).length ∧
    (∀ x ∈ (hist.map (tickOf s)).drop (recordHist hist 0 []).length, x = none) ∧
    trim (recordHist hist 0 []) = recordHist hist 0 [] := by
  rw [recordHist_eq, recTicks_zero]
  exact ⟨trim_prefix _, trim_drop_none _, trim_idem _⟩

/-- The graph `replay(in) → record(out)`: the source, scheduled on start and then only by its own
    `schedule(MIN_TD)`, evaluates exactly once per buffered cycle `i`, in cycle `i`, on entry `i`; the sink
    sees those states in those cycles.  (`replayStates` is the scan of the buffer, `recordHist` the sink.) -/
theorem replay_cycles {s : Shape} (inp : Buffer s) :
    replayRecord inp =
      if inp = [] then ([], clear s (fresh s))
      else (recordHist (replayStates s (fresh s) inp) 0 [], lastD (replayStates s (fresh s) inp) (fresh s)) := by
  by_cases h : inp = []
  · subst h; simp [replayRecord_nil]
  · simp only [h, ↓reduceIte]; exact replayRecord_spec inp h

/-- Gaps: a cycle in which the series does not tick is admitted at any point of a history, at every
    position of every schema. -/
theorem gap_admitted (s : Shape) (st : St s) : Tick s st (clear s st) := tick_clear s st

/-! ## record → replay → record -/

/-- In every cycle up to the end of the recording the replayed output is in the same state as the recorded
    series was (same value, same per-position marks, same cycles). -/
theorem replay_states (s : Shape) (hs : isSchema s) (hist : List (St s)) (h : GoodHist s (fresh s) hist) :
    replayStates s (fresh s) (recordHist hist 0 []) = hist.take (recordHist hist 0 []).length := by
  have hp := (record_index hist).1
  generalize recordHist hist 0 [] = rec1 at hp ⊢
  have hl := congrArg List.length hp
  simp only [List.length_take, List.length_map] at hl
  rw [hp, replayStates_hist hs.1 hs.2 hist (fresh s) rec1.length h, List.length_take, List.length_map, ← hl]

/-- Recording any tick history (gaps, removals, child-only ticks, validating empty deltas), replaying the
    recording and recording again reproduces the recording: same buffer length, same cycles, same deltas. -/
theorem replay_record_id (s : Shape) (hs : isSchema s) (hist : List (St s)) (h : GoodHist s (fresh s) hist) :
    (replayRecord (recordHist hist 0 [])).1 = recordHist hist 0 [] := by
  rw [replay_cycles]
  by_cases hnil : recordHist hist 0 [] = []
  · simp [hnil]
  · simp only [hnil, ↓reduceIte]
    rw [replay_states s hs hist h]
    -- recording the first `n` cycles of the history gives the same buffer: nothing ticks after cycle `n`
    rw [recordHist_eq (hist.take _), recTicks_zero, List.map_take]
    have hp := (record_index hist).1
    have ht := (record_index hist).2.2
    rw [← hp, ht]

/-- … and the replayed series ends with the same value as the recorded one. -/
theorem replay_values (s : Shape) (hs : isSchema s) (hist : List (St s)) (h : GoodHist s (fresh s) hist) :
    clear s (replayRecord (recordHist hist 0 [])).2 = clear s (lastD hist (fresh s)) := by
  -- cycles after the end of the buffer did not tick
  have hun : ∀ m ∈ hist.drop (recordHist hist 0 []).length, modified s m = false := by
    intro m hm
    have hnone := (record_index hist).2.1
    have : tickOf s m ∈ (hist.map (tickOf s)).drop (recordHist hist 0 []).length := by
      rw [← List.map_drop]; exact List.mem_map_of_mem hm
    have h0 := hnone _ this
    obtain ⟨p, hp⟩ := goodHist_mem_tick hist (fresh s) m h (List.mem_of_mem_drop hm)
    rw [tickOf_tick p m hp] at h0
    cases hmod : modified s m with
    | false => rfl
    | true => rw [hmod] at h0; simp at h0
  have hsplit : hist = hist.take (recordHist hist 0 []).length ++ hist.drop (recordHist hist 0 []).length :=
    (List.take_append_drop _ _).symm
  have hlast : clear s (lastD hist (fresh s)) =
      clear s (lastD (hist.take (recordHist hist 0 []).length) (fresh s)) := by
    conv => lhs; rw [hsplit, lastD_append]
    exact goodHist_unticked _ _ (goodHist_drop hist (fresh s) _ h) hun
  rw [hlast, replay_cycles]
  by_cases hnil : recordHist hist 0 [] = []
  · simp [hnil, lastD, clear_clear]
  · simp only [hnil, ↓reduceIte]
    rw [replay_states s hs hist h]

/-! ## the hypotheses cannot be dropped: the three asymmetries, in the model as in the code -/

namespace Witness
def sA : Shape := .tss false 3
def preA : SetSt := clear sA (apply sA (fresh sA) ({ added := [false, true, true], removed := [false, false, false] } : SetDl))
def dA : SetDl := { added := [false, true, false], removed := [false, false, false] }
def mA : SetSt := apply sA preA dA
def capA : SetDl := capture sA mA
def backA : SetSt := apply sA preA capA

def sB : Shape := .tsb (.bcons (.ts false) (.bcons (.tss false 2) .bnil))
def dB : Option Nat × Option SetDl × Unit := (some 1, none, ())
def mB : Leaf (Option Nat) × SetSt × Unit := apply sB (fresh sB) dB
def capB : Option Nat × Option SetDl × Unit := capture sB mB
def backB : Leaf (Option Nat) × SetSt × Unit := apply sB (fresh sB) capB

def sC : Shape := .tsd false 2 (.tsl (.ts false) 1)
def dC : List (KeyOp (List (Option Nat))) := [{ removed := false, modified := some [none] }, { removed := false, modified := none }]
def mC : DictSt (List (Leaf (Option Nat))) := apply sC (fresh sC) dC
def capC : List (KeyOp (List (Option Nat))) := capture sC mC
def backC : DictSt (List (Leaf (Option Nat))) := apply sC (fresh sC) capC
end Witness

open Witness in
/-- A. `add` of an element that is already present ticks the set with an empty delta (the model's own
    `apply` produces `mA` from `preA`, as `TSSDataMutationView::add` does).  `record` stores the empty
    delta `capA`, but replaying it onto the (valid) pre-tick state has no effect: the cycle is lost. -/
theorem emptyTick_not_replayed :
    mA.mod = true ∧ observable sA mA capA = true ∧
      capA = { added := [false, false, false], removed := [false, false, false] } ∧
      hasEffect sA preA capA = false ∧ backA.mod = false := by
  decide

open Witness in
/-- B. A bundle whose set field never ticked: the captured bundle delta `capB` carries the field's empty
    delta, and applying it to a fresh copy validates the field. -/
theorem bundleDefault_validates :
    modified sB mB = true ∧ mB.2.1.valid = false ∧
      capB = (some 1, some { added := [false, false], removed := [false, false] }, ()) ∧
      backB.2.1.valid = true := by
  decide

open Witness in
/-- C. A key created with a child that never became valid exists in the dictionary but is not captured. -/
theorem ghostKey_not_recorded :
    mC.slots.map Option.isSome = [true, false] ∧ mC.mod = true ∧
      capC = [{ removed := false, modified := none }, { removed := false, modified := none }] ∧
      backC.slots.map Option.isSome = [false, false] := by
  decide

open Witness in
/-- The round trip stated for *every* tick the model's `apply` can produce is false (witness: A). -/
theorem apply_capture_unrestricted_false :
    ¬ (∀ (s : Shape), isSchema s → ∀ (pre : St s) (d : Dl s),
        modified s (apply s pre d) = true → modified s (apply s pre (capture s (apply s pre d))) = true) := by
  intro hall
  have h := hall sA ⟨rfl, rfl⟩ preA dA (by decide)
  have h2 : modified sA (apply sA preA (capture sA (apply sA preA dA))) = false := by decide
  rw [h2] at h
  cases h

/-! ## non-vacuity: concrete histories that satisfy the hypotheses -/

section Examples

namespace Witness
/-- `TSD<Int, TS<Int>>` over keys {0,1}: cycle 0 adds key 0; cycle 1 no tick; cycle 2 removes key 0 and adds
    key 1 (key removal + new key in one tick) -/
def sD : Shape := .tsd false 2 (.ts false)
def hD0 : DictSt (Leaf (Option Nat)) :=
  { valid := true, mod := true, slots := [some { val := some 5, mod := true }, none], removed := [false, false] }
def hD1 : DictSt (Leaf (Option Nat)) :=
  { valid := true, mod := false, slots := [some { val := some 5, mod := false }, none], removed := [false, false] }
def hD2 : DictSt (Leaf (Option Nat)) :=
  { valid := true, mod := true, slots := [none, some { val := some 7, mod := true }], removed := [true, false] }
/-- cycle 3: key 0 is re-added after its removal and key 1 gets a child-only tick -/
def hD3 : DictSt (Leaf (Option Nat)) :=
  { valid := true, mod := true, slots := [some { val := some 9, mod := true }, some { val := some 8, mod := true }],
    removed := [false, false] }
def recD : List (Option (List (KeyOp Nat))) := recordHist (s := sD) [hD0, hD1, hD2, hD3] 0 []

/-- `TSB<a: TS, b: TSS>`: the set field ticks (empty, validating) together with the first bundle tick; later a
    child-only tick of `a`, for which the default of `b` is inert -/
def sE : Shape := .tsb (.bcons (.ts false) (.bcons (.tss false 2) .bnil))
def hE0 : Leaf (Option Nat) × SetSt × Unit :=
  ({ val := some 1, mod := true },
   { valid := true, mod := true, elems := [false, false], added := [false, false], removed := [false, false] }, ())
def hE1 : Leaf (Option Nat) × SetSt × Unit :=
  ({ val := some 2, mod := true },
   { valid := true, mod := false, elems := [false, false], added := [false, false], removed := [false, false] }, ())
end Witness

open Witness in
example : isSchema sD ∧ GoodHist sD (fresh sD) [hD0, hD1, hD2, hD3] ∧
    recD = [some [{ removed := false, modified := some 5 }, { removed := false, modified := none }], none,
            some [{ removed := true, modified := none }, { removed := false, modified := some 7 }],
            some [{ removed := false, modified := some 9 }, { removed := false, modified := some 8 }]] := by
  refine ⟨⟨rfl, rfl⟩, ⟨?_, ?_, ?_, ?_, trivial⟩, by decide⟩
  · right
    refine ⟨rfl, rfl, ?_, Or.inr (Or.inl (by decide))⟩
    refine ⟨⟨rfl, Or.inl ⟨rfl, rfl⟩, rfl⟩, rfl, trivial⟩
  · left; rfl
  · right
    refine ⟨rfl, rfl, ?_, Or.inl (by decide)⟩
    refine ⟨⟨rfl, rfl⟩, ⟨rfl, Or.inl ⟨rfl, rfl⟩, rfl⟩, trivial⟩
  · right
    refine ⟨rfl, rfl, ?_, Or.inr (Or.inl (by decide))⟩
    refine ⟨⟨rfl, Or.inl ⟨rfl, rfl⟩, rfl⟩, ⟨rfl, Or.inl ⟨rfl, rfl⟩, rfl⟩, trivial⟩

open Witness in
example : isSchema sE ∧ GoodHist sE (fresh sE) [hE0, hE1] := by
  refine ⟨⟨rfl, rfl⟩, ⟨?_, ?_, trivial⟩⟩
  · refine ⟨⟨Or.inl ⟨rfl, rfl⟩, Or.inr ⟨rfl, rfl, ⟨rfl, rfl, rfl, rfl, trivial⟩, Or.inr (Or.inr rfl)⟩, trivial⟩, ?_⟩
    intro _
    refine ⟨fun h => (by cases h), fun _ h => (by cases h), trivial⟩
  · refine ⟨⟨Or.inl ⟨rfl, rfl⟩, Or.inl rfl, trivial⟩, ?_⟩
    intro _
    refine ⟨fun h => (by cases h), fun _ _ => (by decide), trivial⟩

end Examples

end HgVerif.Delta
