import HgVerif.Lemmas.TslMap
/-!
# C10 (dynamic lists) — `map_` over a dynamic TSL runs one isolated instance per index and mirrors the list

Property theorems only (helpers live in `Lemmas/TslMap.lean`).  Everything is about the model of
`tsl_map_node.cpp` in `Model/TslMap.lean` and holds for an ARBITRARY mapped function
`B : Beh Nat σ ι ο ε` (per index: a state, `init`, a `step` that may emit, fail and name its next wake-up time)
over arbitrary state, input, output and error types.

Histories.  `Reach B t m` — `m` is reachable from the empty node by cycles whose only hypotheses are the engine's
(`EnvOk`: time advances, stays below `MAX_DT`, the map node's own wake-up is not skipped) and that no exception
escaped (`ok`).  Every other field of a cycle input is arbitrary: any list sizes (growth by any amount, several
multiplexed lists of differing lengths), any set of notified children, any re-binding notifications, any input ticks.
`WfRun` adds the source contract `SrcOk` (a list that grows past the constructed children ticks the node; re-binding
notifications only in a cycle in which the stored sizes changed) that the per-index statements need.

* `tslmap_no_lost_child_wakeup` (floor): in every reachable state every child is started, exists exactly for the
  indices below `live_count`, and a child with a pending wake-up `n < MAX_DT` has the map node armed in the future
  and not later than `n`.
* `tslmap_wakeup_honoured`: a child is never evaluated late, a cycle at a child's wake-up time runs the map node
  AND evaluates that child, and after every cycle every wake-up is in the future.
* `tslmap_per_index` (ceiling): after any well-formed history the entry of EVERY index is the run of that index's
  own machine `soloRun` (notified → created from `init` in the cycle the longest list grows past it → re-bound →
  evaluated when due); `tslmap_per_index_ticks`: the value ticks of every cycle are exactly the ticks of the
  individual machines; `tslmap_fresh_at_growth`: the cycle an index appears in starts it from `init`.
* `tslmap_non_interference`: two well-formed histories that agree on what ONE index can see (`IndexAgree`) give it
  the same entry — whatever the other indices, their ticks, states and wake-ups are.
* `tslmap_length_mirror`, `tslmap_elements_mirror_valid_children`: the output list is as long as the longest input
  list ever was; element `i` is valid exactly when the child of `i` has emitted, and holds its latest emission.
* `tslmap_stop_exactly_once`, `tslmap_started_eq_stopped`: node stop stops exactly the children that were started,
  each once, and leaves nothing behind.

Strength.  Full for the scheduling / isolation logic of the model.  PARTIAL with respect to the property text:
`map_` over a list has no error output (a failing child ends the run: `ok = false`), so "failures are isolated" is
not a statement about this node; source re-pointing, pause / resume and the forwarding output modes are not
modelled.
-/
namespace HgVerif.TslMap

open HgVerif.MapNode (StepRes Beh MAX_DT schedNode clampFuture clampStart setEnt)

local notation "Time" => Nat

variable {σ ι ο ε : Type}

/-! ## histories -/

/-- states reachable from the empty map node (engine hypotheses only) -/
inductive Reach (B : Beh Nat σ ι ο ε) : Time → M σ ο → Prop
  | init : Reach B 0 {}
  | step {t : Time} {m : M σ ο} (I : CycleIn ι) : Reach B t m → EnvOk t m I →
      (cycle B m I).out.ok = true → Reach B I.now (cycle B m I).m

theorem inv_init : Inv 0 ({} : M σ ο) := by
  refine ⟨?_, ?_, ?_, ?_, Nat.le_refl _⟩
  · intro i hi; cases hi
  · intro i _; rfl
  · intro i e he; cases he
  · intro i e he; cases he

theorem reach_inv {B : Beh Nat σ ι ο ε} {t : Time} {m : M σ ο} (h : Reach B t m) : Inv t m := by
  induction h with
  | init => exact inv_init
  | step I _ henv hok ih => exact cycle_inv B ih henv hok

/-- C10/list (floor): no child wake-up is ever lost.  In EVERY reachable state, for arbitrary child behaviours:
    children exist exactly below `live_count`, all started; a child with a pending wake-up has the map node armed
    in the future and not later than that wake-up. -/
theorem tslmap_no_lost_child_wakeup {B : Beh Nat σ ι ο ε} {t : Time} {m : M σ ο} (h : Reach B t m) :
    (∀ i, i < m.live ↔ ∃ e, m.ent i = some e) ∧
    (∀ i e, m.ent i = some e → e.started = true) ∧
    (∀ i e, m.ent i = some e → e.next < MAX_DT → t < m.ps ∧ m.ps ≤ e.next) := by
  have hinv := reach_inv h
  refine ⟨?_, ?_, hinv.cov⟩
  · intro i
    constructor
    · intro hi; obtain ⟨e, he, _⟩ := hinv.dom_lt i hi; exact ⟨e, he⟩
    · rintro ⟨e, he⟩
      by_cases hi : i < m.live
      · exact hi
      · have := hinv.dom_ge i (by omega); rw [he] at this; cases this
  · intro i e he
    by_cases hi : i < m.live
    · obtain ⟨e', he', hs⟩ := hinv.dom_lt i hi; rw [he] at he'; cases he'; exact hs
    · have := hinv.dom_ge i (by omega); rw [he] at this; cases this

/-- a wake-up is honoured exactly in its cycle: never late; the cycle at its time runs the map node and evaluates
    that child; afterwards nothing that is due is left behind -/
theorem tslmap_wakeup_honoured (B : Beh Nat σ ι ο ε) {t : Time} {m : M σ ο} (I : CycleIn ι)
    (h : Reach B t m) (henv : EnvOk t m I) (hok : (cycle B m I).out.ok = true) :
    (∀ i e, m.ent i = some e → I.now ≤ e.next) ∧
    (∀ i e, m.ent i = some e → e.next = I.now → (upstream m I).ps = I.now ∧ i ∈ (cycle B m I).out.runs) ∧
    (∀ i e, (cycle B m I).m.ent i = some e → I.now < e.next) := by
  have hinv := reach_inv h
  have hmid0 := inv_mid hinv henv
  have hmid := upstream_mid hinv henv
  have hlt := henv.lt_max
  refine ⟨hmid0.ge, ?_, (cycle_inv B hinv henv hok).fut⟩
  intro i e he hdue
  -- the entry after the upstream notifications is still due now, so the slot is `now`
  have hst : e.started = true := (tslmap_no_lost_child_wakeup h).2.1 i e he
  have hup : ∃ e1, (upstream m I).ent i = some e1 ∧ e1.next = I.now ∧ e1.started = true := by
    rw [upstream_ent, he]
    split
    · exact ⟨nudge I.now e, rfl, nudge_next hst (by omega), by rw [nudge_started]; exact hst⟩
    · exact ⟨e, rfl, hdue, hst⟩
  obtain ⟨e1, he1, hn1, hs1⟩ := hup
  have hps : (upstream m I).ps = I.now := by
    obtain ⟨h1, h2⟩ := hmid.cov i e1 he1 (by omega)
    omega
  refine ⟨hps, ?_⟩
  have hi : i < m.live := by
    by_cases hi : i < m.live
    · exact hi
    · have := hinv.dom_ge i (by omega); rw [he] at this; cases this
  unfold cycle at hok ⊢
  simp only [hps, if_true] at hok ⊢
  obtain ⟨_, e2, _, e4, _, _⟩ := evaluate_spec B _ I hmid hps hlt hok
  rw [e4, List.mem_filter]
  refine ⟨List.mem_range.mpr (by rw [e2, (upstream_live m I).1]; omega), ?_⟩
  have hc : soloCreate B I i ((upstream m I).ent i) = some e1 := by rw [he1]; rfl
  rw [hc]
  unfold soloReboundC
  split
  · simp only [Option.map_some, dueB, nudge_started, hs1, Bool.true_and, decide_eq_true_eq]
    rw [nudge_next hs1 (by omega)]; omega
  · simp only [dueB, hs1, Bool.true_and, decide_eq_true_eq]; omega

/-! ## the per-index machine -/

/-- the hypotheses of a well-formed history, cycle by cycle -/
def WfRun (B : Beh Nat σ ι ο ε) : Time → M σ ο → List (CycleIn ι) → Prop
  | _, _, [] => True
  | t, m, I :: rest =>
    EnvOk t m I ∧ SrcOk m I ∧ (cycle B m I).out.ok = true ∧ WfRun B I.now (cycle B m I).m rest

/-- one index's machine over a history -/
def soloRun (B : Beh Nat σ ι ο ε) (i : Nat) : List (CycleIn ι) → Option (Entry σ ο) → Option (Entry σ ο)
  | [], o => o
  | I :: rest, o => soloRun B i rest (soloStep B I i o)

theorem run_inv (B : Beh Nat σ ι ο ε) {t : Time} {m : M σ ο} (H : List (CycleIn ι))
    (hinv : Inv t m) (hwf : WfRun B t m H) : ∃ t', Inv t' (run B m H) := by
  induction H generalizing t m with
  | nil => exact ⟨t, hinv⟩
  | cons I rest ih =>
    obtain ⟨henv, _, hok, hrest⟩ := hwf
    exact ih (cycle_inv B hinv henv hok) hrest

/-- C10/list (ceiling): for every index, after every well-formed history, the entry the map node holds is the one
    the index's own machine computes — created from `init` in the cycle the longest list grows past the index,
    evaluated exactly when due, never reading another index. -/
theorem tslmap_per_index (B : Beh Nat σ ι ο ε) {t : Time} {m : M σ ο} (H : List (CycleIn ι))
    (hinv : Inv t m) (hwf : WfRun B t m H) (i : Nat) :
    (run B m H).ent i = soloRun B i H (m.ent i) := by
  induction H generalizing t m with
  | nil => rfl
  | cons I rest ih =>
    obtain ⟨henv, hsrc, hok, hrest⟩ := hwf
    have h1 := (cycle_solo B hinv henv hsrc hok).1 i
    have h2 := ih (cycle_inv B hinv henv hok) hrest
    simp only [run, soloRun]
    rw [h2, h1]

/-- … and the value ticks of the cycle that follows a well-formed history are exactly the ticks of the individual
    index machines (the output stream of an index is the stream of its own machine). -/
theorem tslmap_per_index_ticks (B : Beh Nat σ ι ο ε) {t : Time} {m : M σ ο} (H : List (CycleIn ι))
    (I : CycleIn ι) (hinv : Inv t m) (hwf : WfRun B t m (H ++ [I])) (kv : Nat × ο) :
    kv ∈ (cycle B (run B m H) I).out.modified ↔
      tickOf B I kv.1 (soloPrep B I kv.1 (soloRun B kv.1 H (m.ent kv.1))) = some kv := by
  induction H generalizing t m with
  | nil =>
    obtain ⟨henv, hsrc, hok, _⟩ := hwf
    obtain ⟨_, _, h3, _⟩ := cycle_solo B hinv henv hsrc hok
    simp only [run, soloRun]
    rw [h3, List.mem_filterMap]
    constructor
    · rintro ⟨j, _, hj⟩
      have : kv.1 = j := by
        unfold tickOf at hj
        split at hj
        · split at hj
          · cases ho : (B.step j I.now (I.input j) _).out with
            | none => rw [ho] at hj; cases hj
            | some v => rw [ho] at hj; simp at hj; rw [← hj]
          · cases hj
        · cases hj
      rw [this]; exact hj
    · intro hk
      refine ⟨kv.1, ?_, hk⟩
      -- a ticking index has an entry, hence lies below the new `live_count`
      have hinv' := cycle_inv B hinv henv hok
      have he := (cycle_solo B hinv henv hsrc hok).1 kv.1
      apply List.mem_range.mpr
      by_cases hlt : kv.1 < (cycle B m I).m.live
      · exact hlt
      · have hn := hinv'.dom_ge kv.1 (by omega)
        rw [he] at hn
        unfold soloStep at hn
        cases hp : soloPrep B I kv.1 (m.ent kv.1) with
        | none => rw [hp] at hk; cases hk
        | some e => rw [hp] at hn; cases hn
  | cons J rest ih =>
    obtain ⟨henv, hsrc, hok, hrest⟩ := hwf
    have h1 := (cycle_solo B hinv henv hsrc hok).1 kv.1
    have h2 := ih (cycle_inv B hinv henv hok) hrest
    simp only [run, soloRun]
    rw [h2, h1]

/-- C10/list (fresh state): in the cycle in which the longest list grows past index `i`, the index holds the child
    started from `init` at that time on the index's current inputs (and evaluated if due) — whatever happened
    before and whatever the other indices do. -/
theorem tslmap_fresh_at_growth (B : Beh Nat σ ι ο ε) {t : Time} {m : M σ ο} {I : CycleIn ι}
    (hinv : Inv t m) (henv : EnvOk t m I) (hsrc : SrcOk m I) (hok : (cycle B m I).out.ok = true) (i : Nat)
    (hnew : m.live ≤ i) (hgrow : i < runtimeSize I) :
    (cycle B m I).m.ent i = (soloRebound I i (some (freshE B I i))).map (soloEvalE B I i) ∧
    i ∈ (cycle B m I).out.startedK := by
  have h1 := (cycle_solo B hinv henv hsrc hok).1 i
  have h4 := (cycle_solo B hinv henv hsrc hok).2.2.2
  have hs := cycle_started B hinv henv hok
  constructor
  · rw [h1]
    unfold soloStep soloPrep soloPre soloCreate
    rw [hinv.dom_ge i hnew]
    simp [hgrow]
  · rw [hs.1, List.mem_range'_1]
    omega

/-- two histories, cycle by cycle in relation `R` -/
inductive AllRel {α : Type} (R : α → α → Prop) : List α → List α → Prop
  | nil : AllRel R [] []
  | cons {a b : α} {as bs : List α} : R a b → AllRel R as bs → AllRel R (a :: as) (b :: bs)

/-- what one index can see of a cycle: the time, whether it was notified / re-bound, whether the longest list
    reaches it, and its own input -/
def IndexAgree (i : Nat) (I I' : CycleIn ι) : Prop :=
  I.now = I'.now ∧ (i ∈ I.notified ↔ i ∈ I'.notified) ∧ (i ∈ I.rebound ↔ i ∈ I'.rebound) ∧
  (i < runtimeSize I ↔ i < runtimeSize I') ∧ I.input i = I'.input i

theorem soloStep_agree (B : Beh Nat σ ι ο ε) (i : Nat) {I I' : CycleIn ι} (h : IndexAgree i I I')
    (o : Option (Entry σ ο)) : soloStep B I i o = soloStep B I' i o := by
  obtain ⟨h1, h2, h3, h4, h5⟩ := h
  unfold soloStep soloPrep soloRebound soloCreate soloPre soloEvalE freshE
  simp only [h1, h5, h2, h3, h4]

theorem soloRun_agree (B : Beh Nat σ ι ο ε) (i : Nat) (H H' : List (CycleIn ι))
    (h : AllRel (IndexAgree i) H H') (o : Option (Entry σ ο)) : soloRun B i H o = soloRun B i H' o := by
  induction h generalizing o with
  | nil => rfl
  | cons hI _ ih =>
    simp only [soloRun]
    rw [soloStep_agree B i hI o]
    exact ih _

/-- C10/list (isolation): the entry of an index depends on nothing but the index's own view of the history.
    Two well-formed runs — other lengths beyond `i`, other ticks, states and wake-ups of the other indices — that
    agree on what index `i` sees give it the same entry. -/
theorem tslmap_non_interference (B : Beh Nat σ ι ο ε) {t t' : Time} {m m' : M σ ο}
    (H H' : List (CycleIn ι)) (hinv : Inv t m) (hinv' : Inv t' m') (hwf : WfRun B t m H)
    (hwf' : WfRun B t' m' H') (i : Nat) (hagree : AllRel (IndexAgree i) H H') (h0 : m.ent i = m'.ent i) :
    (run B m H).ent i = (run B m' H').ent i := by
  rw [tslmap_per_index B H hinv hwf i, tslmap_per_index B H' hinv' hwf' i, h0]
  exact soloRun_agree B i H H' hagree _

/-! ## the output list mirrors the input list -/

/-- C10/list: the number of children (= the length of the output list) is the longest length any multiplexed
    input list ever had. -/
theorem tslmap_length_mirror (B : Beh Nat σ ι ο ε) {t : Time} {m : M σ ο} (H : List (CycleIn ι))
    (hinv : Inv t m) (hwf : WfRun B t m H) :
    (run B m H).live = H.foldl (fun a I => max a (runtimeSize I)) m.live ∧
    (outList (run B m H)).length = (run B m H).live := by
  constructor
  · induction H generalizing t m with
    | nil => rfl
    | cons I rest ih =>
      obtain ⟨henv, hsrc, hok, hrest⟩ := hwf
      have h4 := (cycle_solo B hinv henv hsrc hok).2.2.2
      simp only [run, List.foldl_cons]
      rw [ih (cycle_inv B hinv henv hok) hrest, h4]
  · unfold outList; simp

/-- the value ticks of index `i`'s own machine over a history -/
def soloTicks (B : Beh Nat σ ι ο ε) (i : Nat) : List (CycleIn ι) → Option (Entry σ ο) → List (Option ο)
  | [], _ => []
  | I :: rest, o => (tickOf B I i (soloPrep B I i o)).map (·.2) :: soloTicks B i rest (soloStep B I i o)

/-- the latest emission of a tick stream (`acc`: what was there before) -/
def lastTick : List (Option ο) → Option ο → Option ο
  | [], acc => acc
  | some v :: rest, _ => lastTick rest (some v)
  | none :: rest, acc => lastTick rest acc

theorem soloStep_outv (B : Beh Nat σ ι ο ε) (I : CycleIn ι) (i : Nat) (o : Option (Entry σ ο)) :
    (soloStep B I i o).bind (·.outv) =
      match (tickOf B I i (soloPrep B I i o)).map (·.2) with
      | some v => some v
      | none => o.bind (·.outv) := by
  have hprep : (soloPrep B I i o).bind (·.outv) = o.bind (·.outv) := by
    unfold soloPrep soloRebound soloCreate soloPre
    cases o with
    | none =>
      by_cases h1 : i ∈ I.notified <;> by_cases h2 : i ∈ I.rebound <;> by_cases h3 : i < runtimeSize I <;>
        simp [h1, h2, h3, nudge_outv, freshE]
    | some e =>
      by_cases h1 : i ∈ I.notified <;> by_cases h2 : i ∈ I.rebound <;> simp [h1, h2, nudge_outv]
  unfold soloStep
  rw [← hprep]
  cases hp : soloPrep B I i o with
  | none => simp [tickOf]
  | some e =>
    simp only [Option.map_some, Option.bind_some, tickOf, soloEvalE]
    split
    · cases ho : (B.step i I.now (I.input i) e.st).out with
      | none => simp [mergeOut]
      | some v => simp [mergeOut]
    · simp

/-- C10/list: output elements are exactly the valid child outputs.  After any well-formed history from the empty
    node, element `i` of the output list is the LATEST emission of the child of `i` run alone — not valid when that
    child never emitted (an element that was never set, a function that emits for some values only, an index the
    list never reached). -/
theorem tslmap_elements_mirror_valid_children (B : Beh Nat σ ι ο ε) {t : Time} {m : M σ ο} (H : List (CycleIn ι))
    (hinv : Inv t m) (hwf : WfRun B t m H) (i : Nat) :
    elem (run B m H) i = lastTick (soloTicks B i H (m.ent i)) (elem m i) := by
  unfold elem
  rw [tslmap_per_index B H hinv hwf i]
  clear hwf hinv
  generalize m.ent i = o
  induction H generalizing o with
  | nil => rfl
  | cons I rest ih =>
    simp only [soloRun, soloTicks]
    rw [ih, soloStep_outv]
    cases (tickOf B I i (soloPrep B I i o)).map (·.2) with
    | none => rfl
    | some v => rfl

/-! ## node stop -/

theorem filter_range_lt (p : Nat → Bool) (l c : Nat) (hlc : l ≤ c) (hp : ∀ i, p i = true ↔ i < l) :
    (List.range c).filter p = List.range l := by
  induction c with
  | zero =>
    have : l = 0 := by omega
    subst this; rfl
  | succ c ih =>
    rw [List.range_succ, List.filter_append]
    by_cases hl : l ≤ c
    · rw [ih hl]
      have : p c = false := by
        cases hpc : p c with
        | false => rfl
        | true => have := (hp c).mp hpc; omega
      simp [this]
    · have hl' : l = c + 1 := by omega
      have h1 : (List.range c).filter p = List.range c := by
        apply List.filter_eq_self.mpr
        intro a ha
        exact (hp a).mpr (by have := List.mem_range.mp ha; omega)
      have h2 : p c = true := (hp c).mpr (by omega)
      rw [h1, hl', List.range_succ]
      simp [h2]

/-- C10/list: node stop stops exactly the started children — the indices `0 .. live_count`, each once, in order —
    and leaves no child behind (a second stop stops nothing). -/
theorem tslmap_stop_exactly_once {t : Time} {m : M σ ο} (hinv : Inv t m) :
    (stop m).1 = List.range m.live ∧ (stop m).1.Nodup ∧ (∀ i, (stop m).2.ent i = none) ∧
    (stop (stop m).2).1 = [] := by
  have h1 : (stop m).1 = List.range m.live := by
    unfold stop
    simp only
    apply filter_range_lt _ _ _ hinv.capOk
    intro i
    constructor
    · intro hp
      by_cases hi : i < m.live
      · exact hi
      · rw [hinv.dom_ge i (by omega)] at hp; cases hp
    · intro hi
      obtain ⟨e, he, hs⟩ := hinv.dom_lt i hi
      rw [he]; exact hs
  refine ⟨h1, by rw [h1]; exact List.nodup_range, fun _ => rfl, ?_⟩
  unfold stop
  simp

/-- the children started over a history, in order -/
def startedAll (B : Beh Nat σ ι ο ε) (m : M σ ο) : List (CycleIn ι) → List Nat
  | [] => []
  | I :: rest => (cycle B m I).out.startedK ++ startedAll B (cycle B m I).m rest

/-- C10/list (lifecycle): over any well-formed history the children started are, in order, the new indices (each
    index is started once, in the cycle the list grows past it); from the empty node they are exactly the children
    that node stop stops — every started child is stopped exactly once and nothing else is. -/
theorem tslmap_started_eq_stopped (B : Beh Nat σ ι ο ε) (H : List (CycleIn ι)) :
    ∀ {t : Time} {m : M σ ο}, Inv t m → WfRun B t m H →
    startedAll B m H = List.range' m.live ((run B m H).live - m.live) ∧ m.live ≤ (run B m H).live ∧
    (m.live = 0 → startedAll B m H = (stop (run B m H)).1) := by
  induction H with
  | nil =>
    intro t m hinv _
    refine ⟨by simp [startedAll, run], Nat.le_refl _, ?_⟩
    intro h0
    rw [(tslmap_stop_exactly_once (m := run B m []) hinv).1]
    simp [startedAll, run, h0]
  | cons I rest ih =>
    intro t m hinv hwf
    obtain ⟨henv, _, hok, hrest⟩ := hwf
    have hs := cycle_started B hinv henv hok
    have hinv' := cycle_inv B hinv henv hok
    obtain ⟨i1, i2, _⟩ := ih hinv' hrest
    have hcat : startedAll B m (I :: rest) = List.range' m.live ((run B m (I :: rest)).live - m.live) := by
      simp only [startedAll, run]
      rw [hs.1, i1]
      have := @List.range'_append m.live ((cycle B m I).m.live - m.live)
        ((run B (cycle B m I).m rest).live - (cycle B m I).m.live) 1
      simp only [Nat.one_mul] at this
      have he : m.live + ((cycle B m I).m.live - m.live) = (cycle B m I).m.live := by omega
      rw [he] at this
      rw [this]
      congr 1
      omega
    refine ⟨hcat, ?_, ?_⟩
    · simp only [run]; omega
    · intro h0
      obtain ⟨t', hinvF⟩ := run_inv B (I :: rest) hinv ⟨henv, ‹_›, hok, hrest⟩
      rw [hcat, (tslmap_stop_exactly_once hinvF).1, h0]
      simp [List.range_eq_range']

/-! ## the hypotheses are satisfiable: concrete histories -/

/-- echo: emits the tick, and `value + 100` two steps later; index-consuming (`+ 1000 * index`) -/
def exB : Beh Nat Nat (Option Nat) Nat Nat where
  init := fun _ _ _ => 0
  startNext := fun _ now i => if i.isSome then now else MAX_DT
  restart := fun _ _ _ s => s
  step := fun k now i s =>
    match i with
    | some v => { st := v + 100, out := some (v + 1000 * k), next := now + 2 }
    | none => { st := s, out := some (s + 1000 * k) }

/-- cycle 1: `set 0 5` — the list gets its first element -/
def exI1 : CycleIn (Option Nat) :=
  { now := 1, sizes := [1], inputTick := true, input := fun i => if i = 0 then some 5 else none }
/-- cycle 2: `set 2 7` — growth by a jump: index 1 exists and stays unset -/
def exI2 : CycleIn (Option Nat) :=
  { now := 2, sizes := [3], inputTick := true, input := fun i => if i = 2 then some 7 else none }
/-- cycle 3: nothing ticks; index 0's own wake-up -/
def exI3 : CycleIn (Option Nat) := { now := 3, sizes := [3], input := fun _ => none }
/-- cycle 4: index 2's own wake-up together with a tick of the old index 1 -/
def exI4 : CycleIn (Option Nat) :=
  { now := 4, sizes := [3], inputTick := true, notified := [1], input := fun i => if i = 1 then some 9 else none }

def exM1 : M Nat Nat := (cycle exB {} exI1).m
def exM2 : M Nat Nat := (cycle exB exM1 exI2).m
def exM3 : M Nat Nat := (cycle exB exM2 exI3).m
def exM4 : M Nat Nat := (cycle exB exM3 exI4).m

/-- after the first cycle index 0 has emitted 5, its echo is pending at time 3 and the map node is armed for it -/
example : exM1.live = 1 ∧ exM1.ps = 3 ∧ outList exM1 = [some 5] := by decide
/-- growth by a jump starts children 1 and 2; element 1 stays invalid; the node stays armed for index 0 -/
example : (cycle exB exM1 exI2).out.startedK = [1, 2] ∧ exM2.ps = 3 ∧ outList exM2 = [some 5, none, some 2007] := by
  decide
/-- the cycle at time 3 is index 0's own wake-up; then the node is armed for index 2's wake-up at 4 -/
example : (cycle exB exM2 exI3).out.runs = [0] ∧ exM3.ps = 4 ∧ outList exM3 = [some 105, none, some 2007] := by
  decide
example : (cycle exB exM3 exI4).out.runs = [1, 2] ∧ outList exM4 = [some 105, some 1009, some 2107] := by decide
/-- node stop stops the three children -/
example : (stop exM4).1 = [0, 1, 2] := by decide

/-- the hypotheses of the per-index theorems are satisfiable by this history -/
example : WfRun exB 0 {} [exI1, exI2, exI3, exI4] := by
  refine ⟨⟨by decide, by decide, by decide⟩, ⟨by decide, by decide⟩, by decide, ?_⟩
  refine ⟨⟨by decide, by decide, by decide⟩, ⟨by decide, by decide⟩, by decide, ?_⟩
  refine ⟨⟨by decide, by decide, by decide⟩, ⟨by decide, by decide⟩, by decide, ?_⟩
  exact ⟨⟨by decide, by decide, by decide⟩, ⟨by decide, by decide⟩, by decide, trivial⟩

/-- … and so is `Reach` -/
example : Reach exB 1 exM1 :=
  Reach.step exI1 Reach.init ⟨by decide, by decide, by decide⟩ (by decide)

/-- a second multiplexed list that grows under an existing child: the re-binding schedules it (`rebound`) -/
def exJ1 : CycleIn (Option Nat) :=
  { now := 1, sizes := [2, 0], inputTick := true, input := fun _ => none }
def exJ2 : CycleIn (Option Nat) :=
  { now := 2, sizes := [2, 2], inputTick := true, rebound := [1], input := fun i => if i = 1 then some 4 else none }
example : WfRun exB 0 {} [exJ1, exJ2] ∧ (cycle exB (cycle exB {} exJ1).m exJ2).out.runs = [1] := by
  refine ⟨⟨⟨by decide, by decide, by decide⟩, ⟨by decide, by decide⟩, by decide, ?_⟩, by decide⟩
  exact ⟨⟨by decide, by decide, by decide⟩, ⟨by decide, by decide⟩, by decide, trivial⟩

end HgVerif.TslMap
